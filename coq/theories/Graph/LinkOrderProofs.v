(* C14 - proofs about Graph/LinkOrder.v *)
From BFG Require Import Base.Chars Graph.LinkOrder.
From Coq Require Import Lia.
Local Open Scope N_scope.

(* ------------------------------------------------------------------ membership, de-duplication *)
Lemma lib_mem_In x l : lib_mem x l = true <-> In x l.
Proof. apply mem_char_In. Qed.

Lemma lib_mem_nIn x l : lib_mem x l = false <-> ~ In x l.
Proof.
  rewrite <- lib_mem_In. destruct (lib_mem x l); split; intros H; congruence.
Qed.

Lemma NoDup_snoc (a : lib) acc : NoDup acc -> ~ In a acc -> NoDup (acc ++ [a]).
Proof.
  induction acc as [|b acc IH]; cbn; intros H N.
  - constructor; [intros []|constructor].
  - inversion H; subst. constructor.
    + rewrite in_app_iff. cbn. intros [?|[?|[]]]; [tauto|]. subst. apply N. now left.
    + apply IH; [assumption|]. intros ?. apply N. now right.
Qed.

Lemma NoDup_app_disjoint (a b : list lib) y : NoDup (a ++ b) -> In y a -> In y b -> False.
Proof.
  induction a as [|c a IH]; cbn; intros N Ha Hb; [assumption|].
  inversion N as [|? ? Nc Na]; subst. destruct Ha as [->|Ha].
  - apply Nc. rewrite in_app_iff. now right.
  - now apply IH.
Qed.

Lemma fold_append_In l : forall acc x, In x (fold_left ol_append l acc) <-> In x acc \/ In x l.
Proof.
  induction l as [|a l IH]; intros acc x; cbn [fold_left].
  - cbn; tauto.
  - rewrite IH. unfold ol_append. destruct (lib_mem a acc) eqn:E.
    + apply lib_mem_In in E. cbn. split; [tauto|]. intros [H|[H|H]]; subst; auto.
    + rewrite in_app_iff. cbn. tauto.
Qed.

Lemma fold_append_NoDup l : forall acc, NoDup acc -> NoDup (fold_left ol_append l acc).
Proof.
  induction l as [|a l IH]; intros acc H; cbn [fold_left]; [assumption|].
  apply IH. unfold ol_append. destruct (lib_mem a acc) eqn:E; [assumption|].
  apply lib_mem_nIn in E. now apply NoDup_snoc.
Qed.

Lemma fold_append_id l : forall acc, NoDup (acc ++ l) -> fold_left ol_append l acc = acc ++ l.
Proof.
  induction l as [|a l IH]; intros acc H; cbn [fold_left].
  - now rewrite app_nil_r.
  - unfold ol_append. destruct (lib_mem a acc) eqn:E.
    + apply lib_mem_In in E. exfalso. apply NoDup_remove_2 in H. apply H. rewrite in_app_iff. now left.
    + rewrite IH; rewrite <- app_assoc; cbn; [reflexivity|assumption].
Qed.

Lemma dedup_first_In l x : In x (dedup_first l) <-> In x l.
Proof. unfold dedup_first. rewrite fold_append_In. cbn. tauto. Qed.

Lemma dedup_first_NoDup l : NoDup (dedup_first l).
Proof. apply fold_append_NoDup. constructor. Qed.

Lemma dedup_first_id l : NoDup l -> dedup_first l = l.
Proof. intros H. unfold dedup_first. now rewrite fold_append_id. Qed.

Lemma dedup_last_In l x : In x (dedup_last l) <-> In x l.
Proof.
  induction l as [|a l IH]; cbn; [tauto|].
  destruct (lib_mem a l) eqn:E.
  - apply lib_mem_In in E. rewrite IH. split; [tauto|]. intros [H|H]; subst; auto.
  - cbn. rewrite IH. tauto.
Qed.

Lemma dedup_last_NoDup l : NoDup (dedup_last l).
Proof.
  induction l as [|a l IH]; cbn; [constructor|].
  destruct (lib_mem a l) eqn:E; [assumption|].
  apply lib_mem_nIn in E. constructor; [|assumption]. now rewrite dedup_last_In.
Qed.

Lemma dedup_first_last l : dedup_first (dedup_last l) = dedup_last l.
Proof. apply dedup_first_id, dedup_last_NoDup. Qed.

(* position of the first occurrence (length when absent) *)
Fixpoint pos (x : lib) (l : list lib) : nat :=
  match l with
  | [] => O
  | a :: r => if N.eqb a x then O else S (pos x r)
  end.

Lemma pos_app_notin x l1 l2 : ~ In x l1 -> pos x (l1 ++ l2) = (length l1 + pos x l2)%nat.
Proof.
  induction l1 as [|a l1 IH]; cbn; intros H; [reflexivity|].
  destruct (N.eqb a x) eqn:E.
  - apply N.eqb_eq in E. exfalso. apply H. now left.
  - rewrite IH; [reflexivity|]. intros ?. apply H. now right.
Qed.

(* ------------------------------------------------------------------ the forwarding graph *)
Section Graph.
  Variable deps : lib -> list lib.
  Variable fwd : lib -> bool.

  Notation visits := (visits deps fwd).
  Notation fwd_libs := (fwd_libs deps).

  Lemma visits_nil f : visits (S f) [] = Some [].
  Proof. reflexivity. Qed.

  Lemma visits_cons f i r :
    visits (S f) (i :: r) =
    if fwd i then match visits f (deps i), visits (S f) r with
                  | Some a, Some b => Some (i :: a ++ b)
                  | _, _ => None
                  end
    else visits (S f) r.
  Proof. reflexivity. Qed.

  (* reachability from the user libraries along forwarded edges *)
  Inductive reach (user : list lib) : lib -> Prop :=
  | reach_base x : In x user -> reach user x
  | reach_step x y : reach user x -> fwd x = true -> In y (deps x) -> reach user y.

  Lemma reach_trans user l x : (forall y, In y l -> reach user y) -> reach l x -> reach user x.
  Proof.
    intros H R. induction R as [x Hx|x y R IH F D]; [now apply H|].
    eapply reach_step; eauto.
  Qed.

  (* pre-order: the forwarding children of a visited library are visited later *)
  Fixpoint pre (v : list lib) : Prop :=
    match v with
    | [] => True
    | i :: t => (forall x, In x (deps i) -> fwd x = true -> In x t) /\ pre t
    end.

  Lemma pre_app a b : pre a -> pre b -> pre (a ++ b).
  Proof.
    induction a as [|i a IH]; cbn; [tauto|]. intros [H1 H2] Hb. split; [|now apply IH].
    intros x Hx Fx. rewrite in_app_iff. left. now apply H1.
  Qed.

  Lemma pre_in v : pre v -> forall i x, In i v -> In x (deps i) -> fwd x = true -> In x v.
  Proof.
    induction v as [|j t IH]; cbn; [tauto|]. intros [H1 H2] i x [->|Hi] Hx Fx.
    - right. now apply H1.
    - right. now apply (IH H2 i).
  Qed.

  Lemma visits_spec : forall f l v, visits f l = Some v ->
    (forall x, In x l -> fwd x = true -> In x v) /\ pre v /\
    (forall x, In x v -> fwd x = true /\ reach l x).
  Proof.
    induction f as [|f IHf]; [discriminate|].
    induction l as [|i r IHl]; intros v Hv.
    - rewrite visits_nil in Hv. inversion Hv; subst. cbn. tauto.
    - rewrite visits_cons in Hv. destruct (fwd i) eqn:Fi.
      + destruct (visits f (deps i)) as [a|] eqn:Ea; [|discriminate].
        destruct (visits (S f) r) as [b|] eqn:Eb; [|discriminate].
        inversion Hv; subst v; clear Hv.
        destruct (IHf _ _ Ea) as (A1 & A2 & A3). destruct (IHl _ eq_refl) as (B1 & B2 & B3).
        split; [|split].
        * intros x [->|Hx] Fx; [now left|]. right. rewrite in_app_iff. right. now apply B1.
        * cbn. split; [|now apply pre_app].
          intros x Hx Fx. rewrite in_app_iff. left. now apply A1.
        * intros x [->|Hx].
          -- split; [assumption|]. apply reach_base. now left.
          -- rewrite in_app_iff in Hx. destruct Hx as [Hx|Hx].
             ++ destruct (A3 _ Hx) as [Fx Rx]. split; [assumption|].
                apply reach_trans with (l := deps i); [|assumption].
                intros y Hy. eapply reach_step; [apply reach_base; now left|assumption|assumption].
             ++ destruct (B3 _ Hx) as [Fx Rx]. split; [assumption|].
                apply reach_trans with (l := r); [|assumption].
                intros y Hy. apply reach_base. now right.
      + destruct (IHl _ Hv) as (B1 & B2 & B3). split; [|split].
        * intros x [->|Hx] Fx; [congruence|]. now apply B1.
        * assumption.
        * intros x Hx. destruct (B3 _ Hx) as [Fx Rx]. split; [assumption|].
          apply reach_trans with (l := r); [|assumption]. intros y Hy. apply reach_base. now right.
  Qed.

  (* every reachable forwarding library is visited *)
  Lemma reach_visited f l v : visits f l = Some v ->
    forall x, reach l x -> (In x l \/ In x (fwd_libs v)) /\ (fwd x = true -> In x v).
  Proof.
    intros Hv. destruct (visits_spec _ _ _ Hv) as (A1 & A2 & A3).
    intros x R. induction R as [x Hx|x y R [IH1 IH2] Fx Dy].
    - split; [now left|]. intros Fx. now apply A1.
    - assert (In y (fwd_libs v)) as Hy.
      { unfold LinkOrder.fwd_libs. apply in_flat_map. exists x. split; [now apply IH2|assumption]. }
      split; [now right|]. intros Fy.
      apply (pre_in _ A2 x y); auto.
  Qed.

  (* closure: exactly the libraries reachable along forwarded edges *)
  Lemma closure_all f l v : visits f l = Some v ->
    forall x, In x (l ++ fwd_libs v) <-> reach l x.
  Proof.
    intros Hv x. rewrite in_app_iff. split.
    - intros [H|H]; [now apply reach_base|].
      unfold LinkOrder.fwd_libs in H. apply in_flat_map in H. destruct H as (i & Hi & Hx).
      destruct (visits_spec _ _ _ Hv) as (_ & _ & A3). destruct (A3 _ Hi) as [Fi Ri].
      eapply reach_step; eauto.
    - intros R. now apply (reach_visited _ _ _ Hv).
  Qed.

  (* fuel: any rank function that decreases along forwarded edges bounds the fuel needed *)
  Section Fuel.
    Variable rk : lib -> nat.
    Hypothesis rk_dec : forall x y, fwd x = true -> In y (deps x) -> (rk y < rk x)%nat.

    Lemma visits_fuel : forall f l, (forall x, In x l -> (rk x < f)%nat) -> visits (S f) l <> None.
    Proof.
      induction f as [|f IHf]; induction l as [|i r IHl]; intros H.
      - rewrite visits_nil. discriminate.
      - exfalso. specialize (H i (or_introl eq_refl)). lia.
      - rewrite visits_nil. discriminate.
      - rewrite visits_cons. destruct (fwd i) eqn:Fi.
        + assert (visits (S f) (deps i) <> None) as X.
          { apply IHf. intros y Hy. specialize (rk_dec _ _ Fi Hy). specialize (H i (or_introl eq_refl)). lia. }
          assert (visits (S (S f)) r <> None) as Y.
          { apply IHl. intros y Hy. apply H. now right. }
          destruct (visits (S f) (deps i)); [|congruence].
          destruct (visits (S (S f)) r); [|congruence]. discriminate.
        + apply IHl. intros y Hy. apply H. now right.
    Qed.
  End Fuel.

  (* more fuel never changes a result *)
  Lemma visits_mono : forall f l v, visits f l = Some v -> visits (S f) l = Some v.
  Proof.
    induction f as [|f IHf]; [discriminate|].
    induction l as [|i r IHl]; intros v Hv.
    - rewrite visits_nil in *. assumption.
    - rewrite visits_cons in Hv. rewrite visits_cons. destruct (fwd i).
      + destruct (visits f (deps i)) as [a|] eqn:Ea; [|discriminate].
        destruct (visits (S f) r) as [b|] eqn:Eb; [|discriminate].
        rewrite (IHf _ _ Ea), (IHl _ eq_refl). assumption.
      + now apply IHl.
  Qed.

  (* ---------------------------------------------------------------- order
     [covt tail L]: every occurrence of a forwarding library x in L is followed (in L ++ tail) by each
     library of deps x. *)
  Fixpoint covt (tail L : list lib) : Prop :=
    match L with
    | [] => True
    | x :: t => (fwd x = true -> incl (deps x) (t ++ tail)) /\ covt tail t
    end.
  Definition covered (L : list lib) : Prop := covt [] L.

  Lemma covt_app tail a b : covt tail (a ++ b) <-> covt (b ++ tail) a /\ covt tail b.
  Proof.
    induction a as [|x a IH]; cbn; [tauto|]. rewrite IH, <- app_assoc. tauto.
  Qed.

  Lemma covt_of_incl tail L : (forall x, In x L -> fwd x = true -> incl (deps x) tail) -> covt tail L.
  Proof.
    induction L as [|x t IH]; cbn; [tauto|]. intros H. split.
    - intros Fx. apply incl_appr. apply H; [now left|assumption].
    - apply IH. intros y Hy. apply H. now right.
  Qed.

  Lemma covt_weaken tail tail' L : incl tail tail' -> covt tail L -> covt tail' L.
  Proof.
    intros I. induction L as [|x t IH]; cbn; [tauto|]. intros [H1 H2]. split; [|now apply IH].
    intros Fx y Hy. specialize (H1 Fx y Hy). rewrite in_app_iff in *. destruct H1; [now left|right; now apply I].
  Qed.

  Lemma incl_flat_map_in (v : list lib) x : In x v -> incl (deps x) (flat_map deps v).
  Proof. intros Hx y Hy. apply in_flat_map. now exists x. Qed.

  Lemma covered_fwd_libs v : pre v -> covered (fwd_libs v).
  Proof.
    unfold covered, LinkOrder.fwd_libs. induction v as [|i t IH]; cbn; [tauto|]. intros [H1 H2].
    apply covt_app. split; [|now apply IH].
    apply covt_of_incl. intros x Hx Fx. rewrite app_nil_r. apply incl_flat_map_in. now apply H1.
  Qed.

  Lemma covered_all f l v : visits f l = Some v -> covered (l ++ fwd_libs v).
  Proof.
    intros Hv. destruct (visits_spec _ _ _ Hv) as (A1 & A2 & _).
    unfold covered. apply covt_app. split; [|now apply covered_fwd_libs].
    apply covt_of_incl. intros x Hx Fx. rewrite app_nil_r. apply incl_flat_map_in. now apply A1.
  Qed.

  Lemma covered_dedup_last L : covered L -> covered (dedup_last L).
  Proof.
    unfold covered. induction L as [|x t IH]; cbn; [tauto|]. intros [H1 H2].
    destruct (lib_mem x t) eqn:E; [now apply IH|].
    cbn. split; [|now apply IH]. intros Fx y Hy. specialize (H1 Fx y Hy).
    rewrite app_nil_r in *. now apply dedup_last_In.
  Qed.

  Lemma covered_split L l1 x l2 : covered L -> L = l1 ++ x :: l2 -> fwd x = true -> incl (deps x) l2.
  Proof.
    unfold covered. intros C -> Fx. apply covt_app in C. destruct C as [_ C]. cbn in C.
    destruct C as [C _]. specialize (C Fx). now rewrite app_nil_r in C.
  Qed.

  (* on a duplicate-free covered list, a forwarding library strictly precedes each of its deps *)
  Lemma covered_pos L x y : covered L -> NoDup L -> In x L -> fwd x = true -> In y (deps x) ->
    In y L /\ (pos x L < pos y L)%nat.
  Proof.
    intros C N Hx Fx Hy. apply in_split in Hx. destruct Hx as (l1 & l2 & E).
    pose proof (covered_split _ _ _ _ C E Fx y Hy) as Y. subst L.
    pose proof (NoDup_remove_2 _ _ _ N) as NX. rewrite in_app_iff in NX.
    split; [rewrite in_app_iff; right; now right|].
    assert (~ In x l1) as N1 by tauto.
    assert (~ In y l1) as N2.
    { intros H. apply (NoDup_app_disjoint _ _ y N H). now right. }
    assert (y <> x) as NE by (intros ->; tauto).
    rewrite !pos_app_notin by assumption. cbn. rewrite N.eqb_refl.
    destruct (N.eqb x y) eqn:E; [apply N.eqb_eq in E; congruence|]. lia.
  Qed.

  (* ---------------------------------------------------------------- Link.__init__ *)
  Lemma link_libs_fixed_NoDup f user L : link_libs deps fwd true f user = Some L -> NoDup L.
  Proof.
    unfold link_libs. destruct (visits f user); [|discriminate]. intros H; inversion H. apply dedup_last_NoDup.
  Qed.

  Lemma final_libs_fixed f user : final_libs deps fwd true f user = link_libs deps fwd true f user.
  Proof.
    unfold final_libs. destruct (link_libs deps fwd true f user) as [L|] eqn:E; [|reflexivity].
    cbn. f_equal. apply dedup_first_id. eapply link_libs_fixed_NoDup; eauto.
  Qed.

  Lemma final_libs_closure fixed f user L : final_libs deps fwd fixed f user = Some L ->
    forall x, In x L <-> reach user x.
  Proof.
    unfold final_libs, link_libs. destruct (visits f user) as [v|] eqn:Hv; [|discriminate].
    cbn. intros H x. inversion H; subst L; clear H. rewrite dedup_first_In.
    destruct fixed; [rewrite dedup_last_In|]; now apply closure_all with (f := f).
  Qed.

  Lemma final_libs_NoDup fixed f user L : final_libs deps fwd fixed f user = Some L -> NoDup L.
  Proof.
    unfold final_libs. destruct (link_libs deps fwd fixed f user); [|discriminate]. cbn.
    intros H; inversion H. apply dedup_first_NoDup.
  Qed.

  Lemma final_libs_fixed_covered f user L : final_libs deps fwd true f user = Some L -> covered L.
  Proof.
    rewrite final_libs_fixed. unfold link_libs. destruct (visits f user) as [v|] eqn:Hv; [|discriminate].
    intros H; inversion H. apply covered_dedup_last. now apply covered_all with (f := f).
  Qed.

  (* Link.libs before the fix (with duplicates) is covered as well: the order is lost only by the
     first-occurrence de-duplication of option_list *)
  Lemma link_libs_covered fixed f user L : link_libs deps fwd fixed f user = Some L -> covered L.
  Proof.
    unfold link_libs. destruct (visits f user) as [v|] eqn:Hv; [|discriminate].
    intros H; inversion H. destruct fixed; [apply covered_dedup_last|]; now apply covered_all with (f := f).
  Qed.

  Lemma final_order f user L x y : final_libs deps fwd true f user = Some L ->
    In x L -> fwd x = true -> In y (deps x) -> In y L /\ (pos x L < pos y L)%nat.
  Proof.
    intros H. apply covered_pos; [now apply final_libs_fixed_covered with (f := f) (user := user)|].
    now apply final_libs_NoDup with (fixed := true) (f := f) (user := user).
  Qed.

  Lemma final_libs_total (rk : lib -> nat) fixed f user :
    (forall x y, fwd x = true -> In y (deps x) -> (rk y < rk x)%nat) ->
    (forall x, In x user -> (rk x < f)%nat) ->
    exists L, final_libs deps fwd fixed (S f) user = Some L.
  Proof.
    intros D B. pose proof (visits_fuel rk D f user B) as H.
    unfold final_libs, link_libs. destruct (visits (S f) user); [|congruence]. cbn. eauto.
  Qed.

  (* ---------------------------------------------------------------- single-pass linker *)
  Section Ld.
    Variable refs : lib -> list lib.
    Variable sym : lib -> N.
    Variable always : lib -> bool.
    Hypothesis refs_deps : forall x y, In y (refs x) -> fwd x = true /\ In y (deps x).
    Notation ld_pass := (ld_pass refs sym always).

    Lemma ld_pass_covered : forall line undef defd,
      covered line -> (forall s, In s undef -> exists x, In x line /\ sym x = s) ->
      (forall s, In s undef -> ~ In s defd) ->
      ld_pass undef defd line = true.
    Proof.
      unfold covered. induction line as [|x r IH]; intros undef defd C U D.
      - cbn. destruct undef as [|s u]; [reflexivity|].
        destruct (U s (or_introl eq_refl)) as (x & [] & _).
      - cbn in C. destruct C as [C1 C2]. cbn [LinkOrder.ld_pass].
        destruct (negb (lib_mem (sym x) defd) && (lib_mem (sym x) undef || always x)) eqn:T.
        + apply IH; [assumption| |].
          * intros s Hs. rewrite in_app_iff in Hs. destruct Hs as [Hs|Hs].
            -- apply filter_In in Hs. destruct Hs as [Hs Ne].
               destruct (U s Hs) as (z & [->|Hz] & Ez).
               ++ rewrite Ez, N.eqb_refl in Ne. discriminate.
               ++ eauto.
            -- apply filter_In in Hs. destruct Hs as [Hs _]. apply in_map_iff in Hs.
               destruct Hs as (y & Ey & Hy). destruct (refs_deps _ _ Hy) as [Fx Dy].
               specialize (C1 Fx y Dy). rewrite app_nil_r in C1. eauto.
          * intros s Hs. rewrite in_app_iff in Hs. destruct Hs as [Hs|Hs].
            -- apply filter_In in Hs. destruct Hs as [Hs Ne]. intros [E|E].
               ++ rewrite E, N.eqb_refl in Ne. discriminate.
               ++ now apply (D s).
            -- apply filter_In in Hs. destruct Hs as [_ Hs].
               apply negb_true_iff, lib_mem_nIn in Hs. assumption.
        + apply IH; [assumption| |assumption].
          intros s Hs. destruct (U s Hs) as (z & [->|Hz] & Ez); [|eauto].
          exfalso. apply andb_false_iff in T. destruct T as [T|T].
          * apply negb_false_iff, lib_mem_In in T. apply (D s Hs). now rewrite <- Ez.
          * apply orb_false_iff in T. destruct T as [T _]. apply lib_mem_nIn in T. apply T. now rewrite Ez.
    Qed.

    Lemma ld_links_fixed f user roots L : final_libs deps fwd true f user = Some L ->
      incl roots user -> ld_links refs sym always roots L = true.
    Proof.
      intros H I. unfold ld_links. apply ld_pass_covered.
      - now apply final_libs_fixed_covered with (f := f) (user := user).
      - intros s Hs. apply in_map_iff in Hs. destruct Hs as (x & E & Hx). exists x. split; [|assumption].
        apply (final_libs_closure _ _ _ _ H). apply reach_base. now apply I.
      - intros s _ [].
    Qed.
  End Ld.
End Graph.

(* ------------------------------------------------------------------ forwarded options and packages *)
Lemma opt_eqb_eq a b : opt_eqb a b = true <-> a = b.
Proof.
  destruct a, b; cbn; try (split; congruence); rewrite N.eqb_eq; split; congruence.
Qed.

Lemma oappend_In acc o x : In x (oappend acc o) <-> In x acc \/ x = o.
Proof.
  unfold oappend. destruct (is_ostr o || negb (existsb (opt_eqb o) acc)) eqn:E.
  - rewrite in_app_iff. cbn. split; intros [H|H]; auto. destruct H as [H|[]]; auto.
  - apply orb_false_iff in E. destruct E as [_ E]. apply negb_false_iff, existsb_exists in E.
    destruct E as (z & Hz & Ez). apply opt_eqb_eq in Ez. subst z.
    split; [tauto|]. intros [H| ->]; assumption.
Qed.

Lemma oextend_In l : forall acc x, In x (oextend acc l) <-> In x acc \/ In x l.
Proof.
  unfold oextend. induction l as [|a l IH]; intros acc x; cbn [fold_left].
  - cbn; tauto.
  - rewrite IH, oappend_In. cbn. split; intros H; intuition auto.
Qed.

Lemma oextend_nil_In l x : In x (oextend [] l) <-> In x l.
Proof. rewrite oextend_In. cbn. tauto. Qed.

Lemma false_or (P : Prop) : False \/ P <-> P.
Proof. tauto. Qed.

Section Forwarded.
  Variable deps : lib -> list lib.
  Variable fwd : lib -> bool.
  Variable lopts : lib -> list opt.
  Variable pkgs : lib -> list N.
  Variable pkgopts : N -> list opt.

  Lemma link_pkgs_spec f user upkgs P : link_pkgs deps fwd pkgs f user upkgs = Some P ->
    forall p, In p P <-> In p upkgs \/ exists x, reach deps fwd user x /\ fwd x = true /\ In p (pkgs x).
  Proof.
    unfold link_pkgs. destruct (visits deps fwd f user) as [v|] eqn:Hv; [|discriminate].
    cbn. intros H p. inversion H; subst P; clear H. rewrite in_app_iff.
    destruct (visits_spec _ _ _ _ _ Hv) as (_ & _ & A3).
    unfold fwd_pkgs. rewrite in_flat_map. split; (intros [H|H]; [now left|right]).
    - destruct H as (x & Hx & Hp). destruct (A3 _ Hx). eauto.
    - destruct H as (x & Rx & Fx & Hp). exists x. split; [|assumption].
      now apply (reach_visited _ _ _ _ _ Hv).
  Qed.

  Lemma final_opts_spec fixed f user upkgs uopts O :
    final_opts deps fwd lopts pkgs pkgopts fixed f user upkgs uopts = Some O ->
    forall o, In o O <->
      (exists y, o = OLib y /\ reach deps fwd user y) \/
      (exists p, In o (pkgopts p) /\
                 (In p upkgs \/ exists x, reach deps fwd user x /\ fwd x = true /\ In p (pkgs x))) \/
      (exists x, reach deps fwd user x /\ fwd x = true /\ In o (lopts x)) \/
      In o uopts.
  Proof.
    unfold final_opts. destruct (visits deps fwd f user) as [v|] eqn:Hv; [|discriminate].
    destruct (link_libs deps fwd fixed f user) as [ls|] eqn:Hl; [|discriminate].
    intros H o. inversion H; subst O; clear H.
    assert (forall y, In y ls <-> reach deps fwd user y) as CL.
    { intros y. rewrite <- (final_libs_closure deps fwd fixed f user (dedup_first ls)).
      - now rewrite dedup_first_In.
      - unfold final_libs. now rewrite Hl. }
    pose proof (link_pkgs_spec f user upkgs (upkgs ++ fwd_pkgs pkgs v)) as PK.
    unfold link_pkgs in PK. rewrite Hv in PK. specialize (PK eq_refl).
    destruct (visits_spec _ _ _ _ _ Hv) as (_ & _ & A3).
    unfold fwd_lopts. rewrite !oextend_In. cbn [In]. rewrite !false_or.
    rewrite in_map_iff, !in_flat_map.
    split.
    - intros [[[H|H]|H]|H].
      + left. destruct H as (y & <- & Hy). exists y. split; [reflexivity|]. now apply CL.
      + right; left. destruct H as (p & Hp & Ho). exists p. split; [assumption|]. now apply PK.
      + right; right; left. destruct H as (x & Hx & Ho). destruct (A3 _ Hx). eauto.
      + right; right; right. assumption.
    - intros [H|[H|[H|H]]].
      + left; left; left. destruct H as (y & -> & Ry). exists y. split; [reflexivity|]. now apply CL.
      + left; left; right. destruct H as (p & Ho & Hp). exists p. split; [|assumption]. now apply PK.
      + left; right. destruct H as (x & Rx & Fx & Ho). exists x. split; [|assumption].
        now apply (reach_visited _ _ _ _ _ Hv).
      + right. assumption.
  Qed.
End Forwarded.

(* ------------------------------------------------------------------ token level: forwarded multi-token options
   [block s O]: the token sequence s occurs in O as a contiguous block. *)
Definition block {A : Type} (s O : list A) : Prop := exists a b, O = a ++ s ++ b.

Lemma block_refl {A : Type} (s : list A) : block s s.
Proof. exists [], []. now rewrite app_nil_r. Qed.

Lemma block_app_l {A : Type} (s O t : list A) : block s O -> block s (O ++ t).
Proof. intros (a & b & ->). exists a, (b ++ t). now rewrite <- !app_assoc. Qed.

Lemma block_app_r {A : Type} (s O t : list A) : block s O -> block s (t ++ O).
Proof. intros (a & b & ->). exists (t ++ a), b. now rewrite <- !app_assoc. Qed.

Lemma block_flat_map {A B : Type} (f : A -> list B) x v s :
  In x v -> block s (f x) -> block s (flat_map f v).
Proof.
  intros Hx Hs. apply in_split in Hx. destruct Hx as (l1 & l2 & ->).
  rewrite flat_map_app. cbn [flat_map]. apply block_app_r, block_app_l. exact Hs.
Qed.

Lemma block_In {A : Type} (s O : list A) x : block s O -> In x s -> In x O.
Proof. intros (a & b & ->) H. rewrite !in_app_iff. tauto. Qed.

(* strings are appended unconditionally *)
Lemma oappend_str acc o : is_ostr o = true -> oappend acc o = acc ++ [o].
Proof. intros H. unfold oappend. now rewrite H. Qed.

Lemma oextend_app acc l1 l2 : oextend acc (l1 ++ l2) = oextend (oextend acc l1) l2.
Proof. unfold oextend. apply fold_left_app. Qed.

Lemma oextend_strs s : forall acc, forallb is_ostr s = true -> oextend acc s = acc ++ s.
Proof.
  unfold oextend. induction s as [|o s IH]; intros acc H; cbn [fold_left].
  - now rewrite app_nil_r.
  - cbn [forallb] in H. apply andb_true_iff in H. destruct H as [Ho Hs].
    rewrite oappend_str by assumption. rewrite IH by assumption. now rewrite <- app_assoc.
Qed.

(* the option list only grows at its end *)
Lemma oextend_prefix l : forall acc, exists t, oextend acc l = acc ++ t.
Proof.
  unfold oextend. induction l as [|o l IH]; intros acc; cbn [fold_left].
  - exists []. now rewrite app_nil_r.
  - destruct (IH (oappend acc o)) as (t & ->). unfold oappend.
    destruct (is_ostr o || negb (existsb (opt_eqb o) acc)).
    + exists (o :: t). now rewrite <- app_assoc.
    + now exists t.
Qed.

Lemma block_oextend_acc s acc l : block s acc -> block s (oextend acc l).
Proof. intros H. destruct (oextend_prefix l acc) as (t & ->). now apply block_app_l. Qed.

Lemma block_oextend_arg s acc l : forallb is_ostr s = true -> block s l -> block s (oextend acc l).
Proof.
  intros Hs (a & b & ->). rewrite !oextend_app. apply block_oextend_acc.
  rewrite oextend_strs by assumption. apply block_app_r, block_refl.
Qed.

Lemma strs_not_lib s : forallb is_ostr s = true -> filter (fun o => negb (is_olib o)) s = s.
Proof.
  induction s as [|o s IH]; cbn [forallb filter]; intros H; [reflexivity|].
  apply andb_true_iff in H. destruct H as [Ho Hs]. destruct o; try discriminate. cbn. now rewrite IH.
Qed.

Lemma block_opt_flags s O : forallb is_ostr s = true -> block s O -> block s (opt_flags O).
Proof.
  intros Hs (a & b & ->). unfold opt_flags. rewrite !filter_app, (strs_not_lib s Hs).
  eexists _, _. reflexivity.
Qed.

(* the exact law: strings are never de-duplicated *)
Lemma filter_str_oextend l : forall acc,
  filter is_ostr (oextend acc l) = filter is_ostr acc ++ filter is_ostr l.
Proof.
  unfold oextend. induction l as [|o l IH]; intros acc; cbn [fold_left filter].
  - now rewrite app_nil_r.
  - rewrite IH. unfold oappend. destruct (is_ostr o) eqn:E; cbn [orb].
    + rewrite filter_app. cbn [filter]. rewrite E. now rewrite <- app_assoc.
    + destruct (negb (existsb (opt_eqb o) acc)); [|reflexivity].
      rewrite filter_app. cbn [filter]. rewrite E. now rewrite app_nil_r.
Qed.

Lemma filter_str_libs ls : filter is_ostr (map OLib ls) = [].
Proof. induction ls as [|a ls IH]; cbn; [reflexivity|assumption]. Qed.

Section Tokens.
  Variable deps : lib -> list lib.
  Variable fwd : lib -> bool.
  Variable lopts : lib -> list opt.
  Variable pkgs : lib -> list N.
  Variable pkgopts : N -> list opt.

  (* every run of string tokens of the link options of a reachable forwarding library, of the link
     options of an own or forwarded package, and of the user's own link options is a contiguous block of
     the final option list and of the option part of the argv *)
  Lemma final_opts_tokens fixed f user upkgs uopts O :
    final_opts deps fwd lopts pkgs pkgopts fixed f user upkgs uopts = Some O ->
    forall s, forallb is_ostr s = true ->
      (exists x, reach deps fwd user x /\ fwd x = true /\ block s (lopts x)) \/
      (exists p, block s (pkgopts p) /\
                 (In p upkgs \/ exists x, reach deps fwd user x /\ fwd x = true /\ In p (pkgs x))) \/
      block s uopts ->
      block s O /\ block s (opt_flags O).
  Proof.
    unfold final_opts. destruct (visits deps fwd f user) as [v|] eqn:Hv; [|discriminate].
    destruct (link_libs deps fwd fixed f user) as [ls|] eqn:Hl; [|discriminate].
    intros H s Hs C. inversion H; subst O; clear H.
    match goal with |- block s ?X /\ _ => assert (block s X) as B end.
    { destruct C as [(x & Rx & Fx & Bx)|[(p & Bp & Hp)|Bu]].
      - apply block_oextend_acc. apply block_oextend_arg; [assumption|].
        unfold fwd_lopts. apply block_oextend_arg; [assumption|].
        apply block_flat_map with (x := x); [|assumption].
        now apply (reach_visited _ _ _ _ _ Hv).
      - do 2 apply block_oextend_acc. apply block_oextend_arg; [assumption|].
        apply block_flat_map with (x := p); [|assumption].
        rewrite in_app_iff. destruct Hp as [Hp|(x & Rx & Fx & Hp)]; [now left|right].
        unfold fwd_pkgs. apply in_flat_map. exists x. split; [|assumption].
        now apply (reach_visited _ _ _ _ _ Hv).
      - now apply block_oextend_arg. }
    split; [exact B|now apply block_opt_flags].
  Qed.

  (* the string tokens of the final option list, in order and with multiplicity: the package options,
     then the link options of every visit of ForwardOptions.recurse (once per path), then the user's *)
  Lemma final_opts_strings fixed f user upkgs uopts O v :
    visits deps fwd f user = Some v ->
    final_opts deps fwd lopts pkgs pkgopts fixed f user upkgs uopts = Some O ->
    filter is_ostr O = filter is_ostr (flat_map pkgopts (upkgs ++ fwd_pkgs pkgs v)) ++
                       filter is_ostr (flat_map lopts v) ++ filter is_ostr uopts.
  Proof.
    intros Hv. unfold final_opts. rewrite Hv.
    destruct (link_libs deps fwd fixed f user) as [ls|]; [|discriminate].
    intros H. inversion H; subst O; clear H. unfold fwd_lopts.
    rewrite !filter_str_oextend, filter_str_libs. cbn [filter app]. now rewrite <- app_assoc.
  Qed.
End Tokens.

(* ------------------------------------------------------------------ relative run-time search path *)
(* well-formed components: what BasePath guarantees for a normalised suffix *)
Definition wfc (l : list str) : Prop :=
  forall c, In c l -> c <> [] /\ c <> [c_dot] /\ c <> dotdot /\ ~ In c_slash c.

Lemma wfc_app a b : wfc (a ++ b) <-> wfc a /\ wfc b.
Proof.
  unfold wfc. split.
  - intros H. split; intros c Hc; apply H; rewrite in_app_iff; auto.
  - intros [Ha Hb] c Hc. rewrite in_app_iff in Hc. destruct Hc; auto.
Qed.

Lemma relpath_split : forall p s, exists common p' s',
  p = common ++ p' /\ s = common ++ s' /\ relpath p s = map (fun _ => dotdot) s' ++ p'.
Proof.
  induction p as [|a p IH]; intros s.
  - exists [], [], s. destruct s; cbn; auto.
  - destruct s as [|b s].
    + exists [], (a :: p), []. cbn. auto.
    + cbn [relpath]. destruct (str_eqb a b) eqn:E.
      * apply str_eqb_eq in E. subst b. destruct (IH s) as (c & p' & s' & Ep & Es & R).
        exists (a :: c), p', s'. cbn. rewrite <- Ep, <- Es. auto.
      * exists [], (a :: p), (b :: s). cbn. auto.
Qed.

Lemma norm_step_valid c st : c <> [] -> c <> [c_dot] -> c <> dotdot -> norm_step st c = c :: st.
Proof.
  intros H1 H2 H3. unfold norm_step.
  destruct (str_eqb c []) eqn:E1; [apply str_eqb_eq in E1; congruence|].
  destruct (str_eqb c [c_dot]) eqn:E2; [apply str_eqb_eq in E2; congruence|].
  destruct (str_eqb c dotdot) eqn:E3; [apply str_eqb_eq in E3; congruence|]. reflexivity.
Qed.

Lemma fold_norm_valid a : wfc a -> forall st, fold_left norm_step a st = rev a ++ st.
Proof.
  induction a as [|c a IH]; intros W st; cbn [fold_left rev]; [reflexivity|].
  destruct (W c (or_introl eq_refl)) as (H1 & H2 & H3 & _).
  rewrite norm_step_valid by assumption. rewrite IH.
  - rewrite <- app_assoc. reflexivity.
  - intros d Hd. apply W. now right.
Qed.

Lemma fold_norm_dotdots (s : list str) : forall (t st : list str), length s = length t ->
  fold_left norm_step (map (fun _ => dotdot) s) (t ++ st) = st.
Proof.
  induction s as [|a s IH]; intros [|b t] st L; try discriminate; cbn [map fold_left]; [reflexivity|].
  change (norm_step ((b :: t) ++ st) dotdot) with (t ++ st). apply IH. cbn in L. congruence.
Qed.

Lemma normalise_rel root out lib : wfc root -> wfc out -> wfc lib ->
  normalise (root ++ out ++ relpath lib out) = root ++ lib.
Proof.
  intros Wr Wo Wl. destruct (relpath_split lib out) as (c & p' & s' & El & Eo & R).
  rewrite R. subst lib out. apply wfc_app in Wo. apply wfc_app in Wl. destruct Wo as [Wc Ws], Wl as [_ Wp].
  unfold normalise. rewrite !fold_left_app.
  rewrite (fold_norm_valid root Wr), (fold_norm_valid c Wc), (fold_norm_valid s' Ws).
  rewrite fold_norm_dotdots by (now rewrite rev_length).
  rewrite (fold_norm_valid p' Wp). rewrite app_nil_r, !rev_app_distr, !rev_involutive.
  now rewrite app_assoc.
Qed.

Lemma relpath_noslash lib out : wfc lib -> forall c, In c (relpath lib out) -> ~ In c_slash c.
Proof.
  intros Wl c Hc. destruct (relpath_split lib out) as (cm & p' & s' & El & Eo & R).
  rewrite R in Hc. rewrite in_app_iff in Hc. destruct Hc as [Hc|Hc].
  - apply in_map_iff in Hc. destruct Hc as (? & <- & _). cbn. intros [H|[H|[]]]; discriminate.
  - subst lib. apply wfc_app in Wl. destruct Wl as [_ Wp]. now apply Wp.
Qed.

Lemma split_aux_noslash a : ~ In c_slash a -> forall cur, split_slash_aux cur a = [rev cur ++ a].
Proof.
  induction a as [|x a IH]; intros N cur; cbn [split_slash_aux].
  - now rewrite app_nil_r.
  - destruct (N.eqb x c_slash) eqn:E.
    + apply N.eqb_eq in E. subst. exfalso. apply N. now left.
    + rewrite IH by (intros ?; apply N; now right). cbn [rev]. now rewrite <- app_assoc.
Qed.

Lemma split_aux_slash a r : ~ In c_slash a -> forall cur,
  split_slash_aux cur (a ++ c_slash :: r) = (rev cur ++ a) :: split_slash_aux [] r.
Proof.
  induction a as [|x a IH]; intros N cur.
  - cbn [app split_slash_aux]. rewrite N.eqb_refl. now rewrite app_nil_r.
  - cbn [app split_slash_aux]. destruct (N.eqb x c_slash) eqn:E.
    + apply N.eqb_eq in E. subst. exfalso. apply N. now left.
    + rewrite IH by (intros ?; apply N; now right). cbn [rev]. now rewrite <- app_assoc.
Qed.

Lemma split_join l : l <> [] -> (forall c, In c l -> ~ In c_slash c) -> split_slash (join_slash l) = l.
Proof.
  induction l as [|a l IH]; [congruence|]. intros _ H. destruct l as [|b l].
  - cbn [join_slash]. unfold split_slash. rewrite split_aux_noslash; [reflexivity|]. apply H. now left.
  - change (join_slash (a :: b :: l)) with (a ++ c_slash :: join_slash (b :: l)).
    unfold split_slash. rewrite split_aux_slash by (apply H; now left). cbn [rev app]. f_equal.
    apply IH; [congruence|]. intros c Hc. apply H. now right.
Qed.

Lemma strip_prefix_app p s : strip_prefix p (p ++ s) = Some s.
Proof. induction p as [|a p IH]; cbn; [reflexivity|]. now rewrite N.eqb_refl. Qed.

Lemma normalise_skip_empty a b : normalise (a ++ [] :: b) = normalise (a ++ b).
Proof. unfold normalise. rewrite !fold_left_app. reflexivity. Qed.

Lemma rpath_relative lib out : exists rest, local_rpath lib out = origin_s ++ rest.
Proof. unfold local_rpath. destruct (relpath lib out); [exists []; now rewrite app_nil_r|eauto]. Qed.

Lemma rpath_resolves root out lib : wfc root -> wfc out -> wfc lib ->
  ldso_dir (root ++ out) (local_rpath lib out) = Some (root ++ lib).
Proof.
  intros Wr Wo Wl. pose proof (normalise_rel root out lib Wr Wo Wl) as NR.
  pose proof (relpath_noslash lib out Wl) as NS.
  unfold ldso_dir, local_rpath. destruct (relpath lib out) as [|r0 rel] eqn:R.
  - replace origin_s with (origin_s ++ []) at 2 by apply app_nil_r. rewrite strip_prefix_app. f_equal.
    change (split_slash []) with [@nil char]. rewrite normalise_skip_empty. now rewrite <- app_assoc.
  - rewrite strip_prefix_app. f_equal.
    change (split_slash (c_slash :: join_slash (r0 :: rel))) with ([] :: split_slash (join_slash (r0 :: rel))).
    rewrite split_join by (congruence || assumption). rewrite normalise_skip_empty. now rewrite <- app_assoc.
Qed.

(* ------------------------------------------------------------------ projects: the fuel suffices *)
Lemma lib_node_enc n v : lib_node (enc_lib n v) = n.
Proof.
  unfold lib_node, enc_lib. rewrite N.mul_comm, N.div_add_l by discriminate.
  rewrite N.div_small by (destruct v; reflexivity). rewrite N.add_0_r. apply Nat2N.id.
Qed.

Lemma lib_node_resolve kinds cs d : lib_node (resolve_dep kinds cs d) = fst d.
Proof.
  destruct d as [n w]. unfold resolve_dep. destruct w; [apply lib_node_enc|].
  destruct (nth n kinds PStatic); try destruct cs; apply lib_node_enc.
Qed.

(* creation order: a library argument is an earlier node *)
Definition wf_proj (proj : list pnode) : Prop :=
  forall n d, In d (pn_deps (nth n proj default_pnode)) -> (fst d < n)%nat.

Lemma p_deps_rank ms mt proj : wf_proj proj ->
  forall x y, p_fwd x = true -> In y (p_deps ms mt proj x) -> (lib_node y < lib_node x)%nat.
Proof.
  intros W x y Fx Hy. unfold p_deps in Hy. rewrite Fx in Hy. apply in_map_iff in Hy.
  destruct Hy as (d & <- & Hd). rewrite lib_node_resolve. unfold node_of in Hd. now apply W.
Qed.

Lemma project_total ms mt proj fixed n cs : wf_proj proj -> (n < length proj)%nat ->
  exists L, final_libs (p_deps ms mt proj) p_fwd fixed (p_fuel proj) (p_user ms mt proj n cs) = Some L.
Proof.
  intros W Hn. unfold p_fuel. apply final_libs_total with (rk := lib_node).
  - now apply p_deps_rank.
  - intros x Hx. unfold p_user in Hx. apply in_map_iff in Hx. destruct Hx as (d & <- & Hd).
    rewrite lib_node_resolve. specialize (W n d Hd). lia.
Qed.

Lemma p_refs_deps ms mt proj x y : In y (p_refs ms mt proj x) -> p_fwd x = true /\ In y (p_deps ms mt proj x).
Proof.
  unfold p_refs. intros H. apply filter_In in H. destruct H as [H _]. split; [|assumption].
  unfold p_deps in H. destruct (p_fwd x); [reflexivity|destruct H].
Qed.

Lemma p_ld_links_fixed ms mt proj as_needed n cs roots L :
  p_final_libs ms mt proj true n cs = Some L -> incl roots (p_user ms mt proj n cs) ->
  p_ld_links ms mt proj as_needed roots L = true.
Proof.
  intros H I. unfold p_ld_links. eapply ld_links_fixed; [apply p_refs_deps|exact H|exact I].
Qed.

(* the same rpath string is right wherever the build directory is: it is computed from the two paths
   below the build root only, and resolves below any root *)
Lemma rpath_move_invariant root1 root2 out lib : wfc root1 -> wfc root2 -> wfc out -> wfc lib ->
  ldso_dir (root1 ++ out) (local_rpath lib out) = Some (root1 ++ lib) /\
  ldso_dir (root2 ++ out) (local_rpath lib out) = Some (root2 ++ lib).
Proof. intros. split; now apply rpath_resolves. Qed.

(* every entry of the rpath flag of a project link resolves to the directory of a shared library
   that is on the link line, below any root *)
Lemma p_rpaths_resolve ms mt proj fixed n root R :
  p_rpaths ms mt proj fixed n = Some R ->
  wfc root -> (forall k, wfc (pn_dir (nth k proj default_pnode))) ->
  forall e, In e R -> exists l L, p_final_libs ms mt proj fixed n false = Some L /\ In l L /\
    lib_variant l = VShared /\
    ldso_dir (root ++ pn_dir (nth n proj default_pnode)) e = Some (root ++ pn_dir (node_of proj l)).
Proof.
  unfold p_rpaths. destruct (p_final_libs ms mt proj fixed n false) as [L|]; [|discriminate].
  cbn. intros H Wr Wd e He. inversion H; subst R; clear H. apply in_flat_map in He.
  destruct He as (l & Hl & He). exists l, L. split; [reflexivity|]. split; [assumption|].
  destruct (lib_variant l) eqn:V; [|destruct He|destruct He]. destruct He as [<-|[]]. split; [reflexivity|].
  apply rpath_resolves; [assumption|apply Wd|apply Wd].
Qed.

Lemma p_rpaths_complete ms mt proj fixed n L l :
  p_final_libs ms mt proj fixed n false = Some L -> In l L -> lib_variant l = VShared ->
  exists R, p_rpaths ms mt proj fixed n = Some R /\
            In (local_rpath (pn_dir (node_of proj l)) (pn_dir (nth n proj default_pnode))) R.
Proof.
  intros H Hl V. unfold p_rpaths. rewrite H. cbn. eexists. split; [reflexivity|].
  apply in_flat_map. exists l. split; [assumption|]. rewrite V. now left.
Qed.
