(* FAILING recipes in the depth-first walk of Graph/StampSem.v (R model; definitions only, proofs in StampFailProofs.v).

   In StampSem every recipe succeeds.  Here a recipe is the LIST of its command lines ([cm r], Emit.rcmd):
     RcStep   the step's own command: in a given run it FAILS for the rules chosen by the oracle [fl] (the set of failing
              steps of this run, by rule target), and then writes NOTHING; otherwise it writes all its outputs
              (the also-files of a stamp rule, the target itself for a rule without also-files) at the current time.
              This is the assumption about the tool, made explicit: a step's command either writes all its outputs and
              succeeds, or writes nothing and fails.
     RcTouch  touch $@ : the target gets the current time (never fails)
     RcNoop   :         nothing
   GNU Make 4.3 without -k (observed; validated by harness/c03.py stage R:stampsem on single-output rules and both
   orders of the stamp recipe): the lines of a recipe run in order; at the first line that fails the rest of the recipe
   is NOT run, the target is NOT deleted (no .DELETE_ON_ERROR is written) - it keeps whatever the earlier lines did to
   it -, make reports  [target] Error 1 , builds NOTHING further - not even goals that do not depend on the failed
   target - and exits with status 2.  What was built before the failure stays built.
   [x_lag r] ticks pass between two lines of a recipe; a recipe whose last line is not the no-op ends one tick later.
   With the recipes [cmds_of false] and an oracle that fails nothing this is exactly StampSem.dmake
   (StampFailProofs.fmake_dmake). *)
From BFG Require Import Base.Chars Make.MakeSem Graph.Steps Graph.Emit Graph.StampSem.
Local Open Scope N_scope.

Definition is_step (k : rcmd) : bool := match k with RcStep => true | _ => false end.

(* the recipe lines of a rule of the walk semantics as multitarget_rule writes them: a real recipe with also-files is
   the recipe of a stamp ([tb]: touch first - the refuted variant; Emit.multitarget_recipes) *)
Definition cmds_of (tb : bool) (r : xrule) : list rcmd :=
  match x_recipe r with
  | RNone => []
  | RNoop => [RcNoop]
  | RReal => match x_also r with
             | [] => [RcStep]
             | _ => if tb then [RcTouch; RcStep] else [RcStep; RcTouch]
             end
  end.

Section Fail.
Variable cm : xrule -> list rcmd.        (* the recipe of a rule: its command lines in order; [] = no recipe *)
Variable fl : file -> bool.              (* the oracle of this run: the rules (by target) whose own command fails *)

(* what the step's own command writes when it succeeds *)
Definition cwrites (r : xrule) (t : file) : list file :=
  if x_phony r then x_also r else match x_also r with [] => [t] | l => l end.

(* one command line at time c; None = it failed (and wrote nothing) *)
Definition apply_cmd (r : xrule) (t : file) (k : rcmd) (f : fs) (c : time) : option fs :=
  match k with
  | RcNoop => Some f
  | RcTouch => Some (if x_phony r then f else upd f t c)
  | RcStep => if fl t then None else Some (write_all f (cwrites r t) c)
  end.

(* the lines in order, stopping at the first failure: (file system, clock, succeeded) *)
Fixpoint exec (r : xrule) (t : file) (cs : list rcmd) (f : fs) (c : time) : fs * time * bool :=
  match cs with
  | [] => (f, c, true)
  | k :: rest =>
      match apply_cmd r t k f c with
      | None => (f, c, false)
      | Some f' =>
          match rest with
          | [] => (f', match k with RcNoop => c | _ => c + 1 end, true)
          | _ => exec r t rest f' (c + x_lag r)
          end
      end
  end.

(* the state after the recipe of rule r (target t) ran in state s1.  d_log: the targets whose own command ran AND
   succeeded; d_nlog: the targets whose recipe ran without any own command; d_fail: make stopped *)
Definition frun (r : xrule) (t : file) (s1 : dst) : dst :=
  match cm r with
  | [] => mark t s1
  | cs =>
      match exec r t cs (d_fs s1) (d_clk s1) with
      | (f', c', false) => mkD f' c' (d_log s1) (d_nlog s1) (d_cache s1) (d_done s1) true
      | (f', c', true) =>
          (* only the target itself is looked at again after its recipe *)
          let cache := if x_phony r then d_cache s1 else (t, f' t) :: d_cache s1 in
          if existsb is_step cs
          then mkD f' c' (d_log s1 ++ [t]) (d_nlog s1) cache (t :: d_done s1) false
          else mkD f' c' (d_log s1) (d_nlog s1 ++ [t]) cache (t :: d_done s1) false
      end
  end.

(* StampSem.update with frun for run_recipe; a failure sets d_fail, and every later visit returns at once *)
Fixpoint fupdate (fuel : nat) (rs : list xrule) (t : file) (s : dst) : dst :=
  match fuel with
  | O => failed s
  | S n =>
    if d_fail s then s else
    if memf t (d_done s) then s else
    let s0 := stat t s in
    match find_x rs t with
    | None => if is_none (mt s0 t) then failed s0 else mark t s0
    | Some r =>
        let s1 := fold_left (fun a p => fupdate n rs p a) (x_prereqs r ++ x_order r) s0 in
        if d_fail s1 then s1 else
        if must_remake rs r t s1 then frun r t s1 else mark t s1
    end
  end.

Definition fmake (rs : list xrule) (goals : list file) (f : fs) (clk : time) : dst :=
  fold_left (fun a g => fupdate (3 + length rs) rs g a) goals (mkD f clk [] [] [] [] false).
End Fail.

Definition nofail : file -> bool := fun _ => false.

(* the longest prefix of steps that do not fail, and the rest (from the first failing step on) *)
Fixpoint take_ok (fl : file -> bool) (l : list file) : list file :=
  match l with
  | [] => []
  | t :: r => if fl t then [] else t :: take_ok fl r
  end.
Fixpoint drop_ok (fl : file -> bool) (l : list file) : list file :=
  match l with
  | [] => []
  | t :: r => if fl t then l else drop_ok fl r
  end.

(* ------------------------------------------------------------------ wire helpers for the table
   a session with explicit recipes: ops (0, _) = make, (1, x) = touch x, (2, x) = delete x, (3, t) = make in which the
   own command of rule t fails *)
Definition cm_of (l : list (file * list rcmd)) (r : xrule) : list rcmd :=
  match find (fun e => fst e =? x_target r) l with Some e => snd e | None => [] end.

Definition frun_session (cm : xrule -> list rcmd) (rs : list xrule) (goals : list file) :
  fs -> time -> list (N * file) -> list (list file * list file * bool) :=
  fix go (f : fs) (clk : time) (ops : list (N * file)) : list (list file * list file * bool) :=
    match ops with
    | [] => []
    | (0, _) :: r => let b := fmake cm nofail rs goals f clk in (d_log b, d_nlog b, d_fail b) :: go (d_fs b) (d_clk b) r
    | (1, x) :: r => go (upd f x clk) (clk + 1) r
    | (2, x) :: r => go (del f x) clk r
    | (_, t) :: r => let b := fmake cm (fun y => y =? t) rs goals f clk in
                     (d_log b, d_nlog b, d_fail b) :: go (d_fs b) (d_clk b) r
    end.

(* ------------------------------------------------------------------ the witness against touch-first
   the rules bfg9000 writes for a 2-output build_step (outputs 10 11, stamp 12, input 1) and one consumer of each
   output (StampSem.ex_stamp_rules_v RNoop 1).  Complete build; the input is touched; a make in which the step's
   command fails; a make in which nothing fails. *)
Definition ex_fail_session (tb : bool) : list (list file * list file * bool) :=
  frun_session (cmds_of tb) (ex_stamp_rules_v RNoop 1) [20; 21] (fs_of [(1, 5)]) 10
               [(0, 0); (1, 1); (3, 12); (0, 0); (0, 0)].
