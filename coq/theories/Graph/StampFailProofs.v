(* Recovery from a failed step under the walk semantics with failing recipes (Graph/StampFail.v).
     frun_ok / sim          with the recipes cmds_of false, a run in which no failing step is executed IS the run of
                            StampSem (fmake_dmake): everything proved about dmake carries over
     fail_target / block_fail   the first step that fires and fails stops make; nothing was written (command before touch)
     blocks_fail_run        blocks: the failing build runs the predicted steps up to the first failing one, the next
                            build runs exactly the rest and leaves the tree up to date
     failed_step_recovers   the same for scripts (EmitStamp.xsem_steps true)
     recipes_emitted        the recipes the semantics runs are the ones Emit.emit_make_recipes lists *)
From BFG Require Import Base.Chars Make.MakeSem Make.MakeSemProofs Graph.Steps Graph.Emit Graph.EmitProofs
  Graph.EmitSem Graph.StampSem Graph.EmitStamp Graph.EmitStampProofs Graph.StampFail.
Local Open Scope N_scope.

(* ================================================================== logs only grow *)
Definition lpre (a b : list file) : Prop := exists l, b = a ++ l.
Lemma lpre_refl a : lpre a a.
Proof. exists []. now rewrite app_nil_r. Qed.
Lemma lpre_trans a b c : lpre a b -> lpre b c -> lpre a c.
Proof. intros [l ->] [m ->]. exists (l ++ m). now rewrite app_assoc. Qed.

Lemma stat_log t s : d_log (stat t s) = d_log s.
Proof. unfold stat. now destruct (assoc t (d_cache s)). Qed.

Lemma run_recipe_log r t s : lpre (d_log s) (d_log (run_recipe r t s)).
Proof.
  unfold run_recipe. destruct (x_recipe r); cbn [d_log mark]; [apply lpre_refl|now exists [t]|apply lpre_refl].
Qed.

Lemma fold_log (F : dst -> file -> dst) :
  (forall p s, lpre (d_log s) (d_log (F s p))) -> forall l s, lpre (d_log s) (d_log (fold_left F l s)).
Proof.
  intros H. induction l as [|p l IH]; intros s; [apply lpre_refl|]. cbn [fold_left].
  eapply lpre_trans; [apply H|apply IH].
Qed.

Lemma update_log n rs : forall t s, lpre (d_log s) (d_log (update n rs t s)).
Proof.
  induction n as [|n IH]; intros t s; [apply lpre_refl|]. rewrite update_unfold.
  destruct (d_fail s); [apply lpre_refl|]. destruct (memf t (d_done s)); [apply lpre_refl|].
  destruct (find_x rs t) as [r|].
  - cbn zeta. set (s1 := fold_left (fun a p => update n rs p a) (x_prereqs r ++ x_order r) (stat t s)).
    assert (H1 : lpre (d_log s) (d_log s1)).
    { rewrite <- (stat_log t s). apply (fold_log (fun a p => update n rs p a)). intros p a. apply IH. }
    destruct (d_fail s1); [exact H1|]. destruct (must_remake rs r t s1).
    + eapply lpre_trans; [exact H1|apply run_recipe_log].
    + exact H1.
  - destruct (is_none (mt (stat t s) t)); cbn [failed mark d_log]; rewrite stat_log; apply lpre_refl.
Qed.

Lemma take_ok_all fl l : (forall t, In t l -> fl t = false) -> take_ok fl l = l /\ drop_ok fl l = [] /\ existsb fl l = false.
Proof.
  induction l as [|t l IH]; intros H; [repeat split|]. cbn [take_ok drop_ok existsb]. rewrite (H t (or_introl eq_refl)).
  destruct IH as (I1 & I2 & I3); [intros y Hy; apply H; now right|]. now rewrite I1, I2, I3.
Qed.

Lemma take_ok_split fl a t r : (forall y, In y a -> fl y = false) -> fl t = true ->
  take_ok fl (a ++ t :: r) = a /\ drop_ok fl (a ++ t :: r) = t :: r /\ existsb fl (a ++ t :: r) = true.
Proof.
  intros Ha Ht. induction a as [|y a IH]; cbn [app take_ok drop_ok existsb].
  - rewrite Ht. repeat split.
  - rewrite (Ha y (or_introl eq_refl)). destruct IH as (I1 & I2 & I3); [intros z Hz; apply Ha; now right|].
    now rewrite I1, I2, I3.
Qed.

Lemma take_drop fl l : take_ok fl l ++ drop_ok fl l = l.
Proof. induction l as [|t l IH]; [reflexivity|]. cbn [take_ok drop_ok]. destruct (fl t); [reflexivity|]. cbn [app]. now rewrite IH. Qed.

(* a failing step of the list and everything after it belong to the rest *)
Lemma drop_ok_from fl a F r : fl F = true -> forall t, In t (F :: r) -> In t (drop_ok fl (a ++ F :: r)).
Proof.
  intros HF t Ht. induction a as [|y a IH]; cbn [app drop_ok]; [now rewrite HF|].
  destruct (fl y); [right; apply in_or_app; now right|exact IH].
Qed.

(* ================================================================== runs without an executed failing step *)
Section Sim.
Variable cm : xrule -> list rcmd.
Variable fl : file -> bool.

(* the recipe of r is the one multitarget_rule writes (command before touch); a rule without also-files has no lag *)
Definition okr (r : xrule) : Prop :=
  cm r = cmds_of false r /\ (x_recipe r = RReal -> x_also r = [] -> x_lag r = 0).

Definition logok (s : dst) : Prop := forall y, In y (d_log s) -> fl y = false.

Lemma logok_pre s s' : lpre (d_log s) (d_log s') -> logok s' -> logok s.
Proof. intros [l E] H y Hy. apply H. rewrite E. apply in_or_app. now left. Qed.

Lemma frun_ok r t s1 : okr r -> (x_recipe r = RReal -> fl t = false) -> frun cm fl r t s1 = run_recipe r t s1.
Proof.
  intros [Hc Hl] Hf. unfold frun, run_recipe. rewrite Hc. unfold cmds_of. destruct (x_recipe r) eqn:Ek.
  - reflexivity.
  - specialize (Hf eq_refl). destruct (x_also r) as [|a al] eqn:Ea.
    + rewrite (Hl eq_refl eq_refl). cbn [exec apply_cmd existsb is_step orb]. rewrite Hf. unfold cwrites. rewrite Ea.
      rewrite !N.add_0_r. destruct (x_phony r); cbn [write_all fold_left]; [reflexivity|].
      now rewrite upd_eq.
    + cbn [exec apply_cmd existsb is_step orb]. rewrite Hf. unfold cwrites. rewrite Ea.
      destruct (x_phony r); [reflexivity|]. now rewrite upd_eq.
  - cbn [exec apply_cmd existsb is_step orb]. reflexivity.
Qed.

Variable rs : list xrule.
Hypothesis Hokr : forall r, In r rs -> okr r.

Lemma find_x_in t r : find_x rs t = Some r -> In r rs.
Proof. unfold find_x. intros H. now apply find_some in H. Qed.

Lemma fupdate_unfold n t s :
  fupdate cm fl (S n) rs t s =
    if d_fail s then s else if memf t (d_done s) then s else
    match find_x rs t with
    | None => if is_none (mt (stat t s) t) then failed (stat t s) else mark t (stat t s)
    | Some r =>
        let s1 := fold_left (fun a p => fupdate cm fl n rs p a) (x_prereqs r ++ x_order r) (stat t s) in
        if d_fail s1 then s1 else if must_remake rs r t s1 then frun cm fl r t s1 else mark t s1
    end.
Proof. reflexivity. Qed.

Lemma sim_fold n :
  (forall t s, logok (update n rs t s) -> fupdate cm fl n rs t s = update n rs t s) ->
  forall l s, logok (fold_left (fun a p => update n rs p a) l s) ->
  fold_left (fun a p => fupdate cm fl n rs p a) l s = fold_left (fun a p => update n rs p a) l s.
Proof.
  intros IH. induction l as [|p l IHl]; intros s H; [reflexivity|]. cbn [fold_left] in *.
  rewrite IH; [now apply IHl|]. eapply logok_pre; [|exact H].
  apply (fold_log (fun a q => update n rs q a)). intros q a. apply update_log.
Qed.

Lemma sim n : forall t s, logok (update n rs t s) -> fupdate cm fl n rs t s = update n rs t s.
Proof.
  induction n as [|n IH]; intros t s H; [reflexivity|]. rewrite update_unfold in *. rewrite fupdate_unfold.
  destruct (d_fail s); [reflexivity|]. destruct (memf t (d_done s)); [reflexivity|].
  destruct (find_x rs t) as [r|] eqn:Ef; [|reflexivity]. cbn zeta in *.
  set (s1 := fold_left (fun a p => update n rs p a) (x_prereqs r ++ x_order r) (stat t s)) in *.
  assert (Hs1 : logok s1).
  { destruct (d_fail s1); [exact H|]. destruct (must_remake rs r t s1); [|exact H].
    eapply logok_pre; [apply run_recipe_log|exact H]. }
  rewrite (sim_fold n IH _ _ Hs1). fold s1. destruct (d_fail s1); [reflexivity|].
  destruct (must_remake rs r t s1); [|reflexivity].
  apply frun_ok; [apply Hokr; now apply (find_x_in t)|]. intros Hk. apply H.
  unfold run_recipe. rewrite Hk. cbn [d_log]. apply in_or_app. right. now left.
Qed.

Lemma sim_goals n l : forall s, logok (fold_left (fun a g => update n rs g a) l s) ->
  fold_left (fun a g => fupdate cm fl n rs g a) l s = fold_left (fun a g => update n rs g a) l s.
Proof. apply sim_fold. apply sim. Qed.

(* a build in which no failing step is executed is the build of StampSem *)
Lemma fmake_dmake goals f clk : logok (dmake rs goals f clk) -> fmake cm fl rs goals f clk = dmake rs goals f clk.
Proof. unfold fmake, dmake. apply sim_goals. Qed.

(* ================================================================== after a failure nothing happens any more *)
Lemma fupdate_failed n t s : d_fail s = true -> fupdate cm fl (S n) rs t s = s.
Proof. intros H. rewrite fupdate_unfold. now rewrite H. Qed.

Lemma fold_failed n l : forall s, d_fail s = true -> fold_left (fun a g => fupdate cm fl (S n) rs g a) l s = s.
Proof.
  induction l as [|g l IH]; intros s H; [reflexivity|]. cbn [fold_left]. rewrite fupdate_failed by exact H. now apply IH.
Qed.

(* make stopped, and the failing run changed nothing *)
Definition stopped (s s' : dst) : Prop :=
  d_fail s' = true /\ d_fs s' = d_fs s /\ d_clk s' = d_clk s /\ d_log s' = d_log s.

(* the target of a rule that must be remade, whose recipe starts with the step's own command, which fails *)
Lemma fail_target n r s :
  (forall r', In r' rs -> x_phony r' = false) ->
  d_fail s = false -> coh s -> memf (x_target r) (d_done s) = false -> assoc (x_target r) (d_cache s) = None ->
  find_x rs (x_target r) = Some r -> x_phony r = false ->
  leafy rs s (x_prereqs r ++ x_order r) -> logok s ->
  needf (d_fs s) (x_target r) (x_prereqs r) = true ->
  (exists rest, cm r = RcStep :: rest) -> fl (x_target r) = true ->
  stopped s (fupdate cm fl (S (S n)) rs (x_target r) s).
Proof.
  intros Hnp Hf Hc Hnd Hnc Hfind Hph Hleaf Hlog Hneed [rest Hcm] Hfl. set (t := x_target r) in *.
  set (s0 := stat t s).
  assert (E0 : s0 = mkD (d_fs s) (d_clk s) (d_log s) (d_nlog s) ((t, d_fs s t) :: d_cache s) (d_done s) (d_fail s))
    by (apply stat_none; exact Hnc).
  assert (Hc0 : coh s0). { rewrite E0. apply coh_push; [exact Hc|reflexivity]. }
  assert (Hext : ext (x_prereqs r ++ x_order r) s0 (fold_left (fun a p => update (S n) rs p a) (x_prereqs r ++ x_order r) s0)).
  { apply visit_pre.
    - rewrite E0. exact Hf.
    - exact Hc0.
    - intros p Hp. rewrite E0. exact (proj1 (Hleaf p Hp)).
    - intros p Hp. rewrite E0. exact (proj2 (Hleaf p Hp)). }
  set (s1 := fold_left (fun a p => update (S n) rs p a) (x_prereqs r ++ x_order r) s0) in *.
  destruct Hext as ((E1 & E2 & E3 & E4) & Hc1 & _).
  assert (Hl1 : logok s1). { intros y Hy. apply Hlog. rewrite E3, E0 in Hy. exact Hy. }
  rewrite fupdate_unfold, Hf, Hnd, Hfind. cbn zeta. fold s0.
  rewrite (sim_goals (S n) _ s0 Hl1). fold s1.
  assert (Hf1 : d_fail s1 = false) by (rewrite E4, E0; exact Hf).
  rewrite Hf1, (must_coh rs r t s1 Hc1 Hnp Hph), E1, E0. cbn [d_fs]. rewrite Hneed.
  unfold frun. rewrite Hcm. cbn [exec apply_cmd]. rewrite Hfl.
  unfold stopped. cbn [d_fail d_fs d_clk d_log]. rewrite E1, E2, E3, E0. repeat split.
Qed.

Lemma block_fail n b s :
  block_pre rs b s -> (forall r, In r (b_rules b) -> In r rs) -> logok s -> bfires b s = true -> fl (b_key b) = true ->
  stopped s (fold_left (fun a g => fupdate cm fl (S (S (S n))) rs g a) (b_outs b) s).
Proof.
  intros (Hf & Hc & Hb & Hfresh & Hfind & Hnp & Hnd & Hself & Hleaf) Hin Hlog Hfire Hfl.
  destruct b as [o D ord|o1 os K D ord lag]; cbn [b_targets b_rules b_deps b_ord b_key b_outs fold_left] in *; unfold bfires in Hfire;
    cbn [b_key b_deps] in Hfire.
  - set (r := mkX o D ord RReal false [] 0) in *.
    destruct (Hfresh o (or_introl eq_refl)) as [Hnc Hndone].
    apply (fail_target (S n) r s Hnp Hf Hc Hndone Hnc (Hfind r (or_introl eq_refl)) eq_refl Hleaf Hlog Hfire); [|exact Hfl].
    exists []. destruct (Hokr r (Hin r (or_introl eq_refl))) as [-> _]. reflexivity.
  - set (L := D ++ ord) in *.
    set (rK := mkX K D ord RReal false (o1 :: os) lag) in *.
    assert (HKt : In K ((o1 :: os) ++ [K])) by (apply in_or_app; right; now left).
    assert (Ho1t : In o1 ((o1 :: os) ++ [K])) by now left.
    assert (HKo : ~ In K (o1 :: os)).
    { apply NoDup_remove_2 with (l := o1 :: os) (l' := []) in Hnd. now rewrite app_nil_r in Hnd. }
    assert (HKo1 : K <> o1) by (intros ->; apply HKo; now left).
    assert (HrK : In rK (map (noop_rule K) (o1 :: os) ++ [rK])) by (apply in_or_app; right; now left).
    assert (HfK : find_x rs K = Some rK) by (apply (Hfind rK HrK)).
    assert (Hfo1 : find_x rs o1 = Some (noop_rule K o1)).
    { apply (Hfind (noop_rule K o1)). apply in_or_app. left. now left. }
    destruct (Hfresh o1 Ho1t) as [Hnc1 Hnd1]. destruct (Hfresh K HKt) as [HncK HndK].
    set (s0 := mkD (d_fs s) (d_clk s) (d_log s) (d_nlog s) ((o1, d_fs s o1) :: d_cache s) (d_done s) (d_fail s)).
    assert (Hc0 : coh s0) by (apply coh_push; [exact Hc|reflexivity]).
    assert (T : stopped s0 (fupdate cm fl (S (S n)) rs K s0)).
    { apply (fail_target n rK s0 Hnp); try reflexivity; try assumption.
      - change (assoc K (d_cache s0) = None). unfold s0. cbn [d_cache]. rewrite assoc_cons. apply N.eqb_neq in HKo1. now rewrite HKo1.
      - exists [RcTouch]. destruct (Hokr rK (Hin rK HrK)) as [-> _]. reflexivity. }
    set (sF := fupdate cm fl (S (S n)) rs K s0) in *. destruct T as (T1 & T2 & T3 & T4).
    assert (E1 : fupdate cm fl (S (S (S n))) rs o1 s = sF).
    { rewrite fupdate_unfold, Hf, Hnd1, Hfo1. cbn [x_prereqs x_order noop_rule app fold_left].
      rewrite (stat_none o1 s Hnc1). fold s0. fold sF. cbn zeta. now rewrite T1. }
    rewrite E1, (fold_failed _ os sF T1). unfold stopped. now rewrite T1, T2, T3, T4.
Qed.
End Sim.

(* ================================================================== the prediction folds *)
Lemma fold_ran f tx l : forall d ran,
  fold_left (bd_step f tx) l (d, ran) =
    (fst (fold_left (bd_step f tx) l (d, [])), ran ++ snd (fold_left (bd_step f tx) l (d, []))).
Proof.
  induction l as [|b l IH]; intros d ran; [cbn; now rewrite app_nil_r|]. cbn [fold_left]. unfold bd_step at 2 4 6. cbn [fst snd].
  destruct (bfire f tx d b); [|apply IH]. rewrite (IH _ (ran ++ [b])), (IH _ ([] ++ [b])). cbn [fst snd app].
  now rewrite <- app_assoc.
Qed.

(* the first block that fires and fails *)
Lemma split_first f tx (fl : file -> bool) l : forall d ran,
  (forall b, In b ran -> fl (b_key b) = false) ->
  (forall b, In b (snd (fold_left (bd_step f tx) l (d, ran))) -> fl (b_key b) = false) \/
  exists l1 b l2 d1 ran1, l = l1 ++ b :: l2 /\ fold_left (bd_step f tx) l1 (d, ran) = (d1, ran1) /\
    (forall b', In b' ran1 -> fl (b_key b') = false) /\ bfire f tx d1 b = true /\ fl (b_key b) = true.
Proof.
  induction l as [|b l IH]; intros d ran Hran; [left; exact Hran|].
  destruct (bfire f tx d b) eqn:Efire.
  - destruct (fl (b_key b)) eqn:Efl.
    + right. exists [], b, l, d, ran. split; [reflexivity|]. split; [reflexivity|]. split; [exact Hran|]. now split.
    + destruct (IH (d ++ b_targets b) (ran ++ [b])) as [H|(l1 & b' & l2 & d1 & ran1 & E & Ef & H1 & H2 & H3)].
      * intros b' Hb'. apply in_app_or in Hb' as [Hb'|[<-|[]]]; [now apply Hran|exact Efl].
      * left. cbn [fold_left]. unfold bd_step at 2. cbn [fst snd]. now rewrite Efire.
      * right. exists (b :: l1), b', l2, d1, ran1. split; [now rewrite E|]. split; [|now repeat split].
        cbn [fold_left]. unfold bd_step at 2. cbn [fst snd]. now rewrite Efire.
  - destruct (IH d ran Hran) as [H|(l1 & b' & l2 & d1 & ran1 & E & Ef & H1 & H2 & H3)].
    + left. cbn [fold_left]. unfold bd_step at 2. cbn [fst snd]. now rewrite Efire.
    + right. exists (b :: l1), b', l2, d1, ran1. split; [now rewrite E|]. split; [|now repeat split].
      cbn [fold_left]. unfold bd_step at 2. cbn [fst snd]. now rewrite Efire.
Qed.

Lemma goals_app a b : goals (a ++ b) = goals a ++ goals b.
Proof. unfold goals. apply flat_map_app. Qed.

(* ================================================================== blocks: a build with failures, then a build without *)
Section FailRun.
Variable all : list block.
Variable f2 : fs.
Variable c0 : time.
Variable tx : block -> file -> bool.
Variable cm : xrule -> list rcmd.
Variable fl : file -> bool.
Hypothesis Hnd : NoDup (tgts all).
Hypothesis Hord : ordered_b all.
Hypothesis Hbelow : fs_below f2 c0.
Hypothesis Hsrc : forall b, In b all -> forall p, In p (b_deps b ++ b_ord b) -> ~ In p (tgts all) -> f2 p <> None.
Hypothesis Hq2 : forall b, In b all -> forall p, In p (b_deps b) -> newer_o (f2 p) (f2 (b_key b)) = tx b p.
Hypothesis Hq3 : forall b, In b all -> f2 (b_key b) <> None -> forall y, In y (b_targets b) -> f2 y <> None.
Hypothesis Hokr : forall r, In r (rules all) -> okr cm r.

Theorem blocks_fail_run :
  let L := map b_key (snd (fold_left (bd_step f2 tx) all ([], []))) in
  let s2 := fmake cm fl (rules all) (goals all) f2 c0 in
  let s3 := dmake (rules all) (goals all) (d_fs s2) (d_clk s2) in
  d_log s2 = take_ok fl L /\ d_fail s2 = existsb fl L /\
  d_fail s3 = false /\ d_log s3 = drop_ok fl L /\ quiet all (d_fs s3) /\ fs_below (d_fs s3) (d_clk s3).
Proof.
  cbn zeta.
  destruct (blocks_run all f2 c0 tx Hnd Hord Hbelow Hsrc Hq2 Hq3) as (F & Lg & Q & B & _ & _).
  destruct (split_first f2 tx fl all [] []) as [Hall|(pre & bF & post & d1 & ran1 & Eall & Efold & Hok1 & Hfire & Hfl)];
    [intros b []| |].
  - (* no executed step fails: the build of StampSem *)
    assert (HL : forall t, In t (map b_key (snd (fold_left (bd_step f2 tx) all ([], [])))) -> fl t = false).
    { intros t Ht. apply in_map_iff in Ht as (b & <- & Hb). now apply Hall. }
    destruct (take_ok_all fl _ HL) as (T1 & T2 & T3). rewrite T1, T2, T3.
    rewrite (fmake_dmake cm fl (rules all) Hokr) by (intros y Hy; apply HL; now rewrite <- Lg).
    destruct (run_quiet all _ _ (conj Hnd Hord) B Q) as (F3 & L3 & Q3 & B3 & _).
    split; [exact Lg|]. split; [exact F|]. split; [exact F3|]. split; [exact L3|]. split; [exact Q3|exact B3].
  - (* bF is the first step that fires and fails *)
    set (n := length (rules all)).
    set (init := mkD f2 c0 [] [] [] [] false).
    pose proof (inv_init all f2 c0 Hbelow) as I0. fold init in I0. rewrite Eall in I0.
    pose proof (inv_run_part all f2 c0 tx Hnd Hord Hbelow Hsrc Hq2 Hq3 n pre [] (bF :: post) [] [] init Eall I0) as I.
    cbn zeta in I. rewrite Efold in I. cbn [fst snd app] in I.
    set (sp := fold_left (fun a g => update (S (S (S n))) (rules all) g a) (goals pre) init) in *.
    destruct (inv_pre all f2 c0 tx Hnd Hord Hbelow Hsrc Hq2 pre bF post d1 ran1 sp Eall I) as [Hpre Hbf].
    assert (Hlsp : logok fl sp).
    { intros y Hy. rewrite (i_log _ _ _ _ _ _ _ I) in Hy. apply in_map_iff in Hy as (b & <- & Hb). now apply Hok1. }
    assert (HbF : In bF all) by (rewrite Eall; apply in_or_app; right; now left).
    (* the failing build *)
    assert (E2 : stopped sp (fmake cm fl (rules all) (goals all) f2 c0)).
    { unfold fmake. change (3 + length (rules all))%nat with (S (S (S n))). fold init.
      assert (Eg : goals all = goals pre ++ b_outs bF ++ goals post) by (rewrite Eall, goals_app; reflexivity).
      rewrite Eg, !fold_left_app. rewrite (sim_goals cm fl (rules all) Hokr _ (goals pre) init Hlsp). fold sp.
      pose proof (block_fail cm fl (rules all) Hokr n bF sp Hpre) as BF.
      destruct BF as (S1 & S2 & S3 & S4).
      - intros r Hr. unfold rules. apply in_flat_map. now exists bF.
      - exact Hlsp.
      - now rewrite Hbf.
      - exact Hfl.
      - rewrite (fold_failed cm fl (rules all) _ (goals post) _ S1). repeat split; assumption. }
    destruct E2 as (S1 & S2 & S3 & S4). rewrite S1, S2, S3, S4.
    (* the predicted list splits at bF *)
    assert (Esplit : snd (fold_left (bd_step f2 tx) all ([], [])) =
                     ran1 ++ bF :: snd (fold_left (bd_step f2 tx) post (d1 ++ b_targets bF, []))).
    { rewrite Eall, fold_left_app, Efold. cbn [fold_left]. unfold bd_step at 2. cbn [fst snd]. rewrite Hfire.
      rewrite fold_ran. cbn [snd]. now rewrite <- app_assoc. }
    rewrite Esplit, map_app. cbn [map].
    destruct (take_ok_split fl (map b_key ran1) (b_key bF)
                (map b_key (snd (fold_left (bd_step f2 tx) post (d1 ++ b_targets bF, []))))) as (T1 & T2 & T3).
    { intros y Hy. apply in_map_iff in Hy as (b & <- & Hb). now apply Hok1. }
    { exact Hfl. }
    rewrite T1, T2, T3. split; [exact (i_log _ _ _ _ _ _ _ I)|]. split; [reflexivity|].
    (* the state after the failing build, as far as the next build is concerned *)
    set (f' := d_fs sp). set (c' := d_clk sp).
    set (tx' := fun (b : block) (p : file) => newer_o (f' p) (f' (b_key b))).
    assert (Etg : tgts all = tgts pre ++ tgts (bF :: post)) by (rewrite Eall; apply tgts_app).
    assert (Hd1 : forall y, In y (tgts (bF :: post)) -> memf y d1 = false).
    { intros y Hy. destruct (memf y d1) eqn:E; [|reflexivity]. exfalso.
      pose proof (i_dsub _ _ _ _ _ _ _ I y E) as Hp. rewrite Etg in Hnd. exact (nd_disj _ _ y Hnd Hp Hy). }
    assert (Hsame : forall y, memf y d1 = false -> f' y = f2 y) by (intros y Hy; exact (i_same _ _ _ _ _ _ _ I y Hy)).
    assert (Hin_tg : forall b, In b (bF :: post) -> forall y, In y (b_targets b) -> In y (tgts (bF :: post))).
    { intros b Hb y Hy. unfold tgts. apply in_flat_map. now exists b. }
    assert (Hall_cases : forall b, In b all -> In b pre \/ In b (bF :: post)).
    { intros b Hb. rewrite Eall in Hb. now apply in_app_or in Hb. }
    destruct (blocks_run all f' c' tx' Hnd Hord (i_below _ _ _ _ _ _ _ I)) as (F3 & L3 & Q3 & B3 & _ & _).
    { intros b Hb p Hp Hnt. unfold f'. rewrite Hsame; [now apply (Hsrc b Hb)|].
      destruct (memf p d1) eqn:E; [|reflexivity]. exfalso. apply Hnt. rewrite Etg. apply in_or_app. left.
      exact (i_dsub _ _ _ _ _ _ _ I p E). }
    { intros b Hb p Hp. reflexivity. }
    { intros b Hb Hk y Hy. destruct (Hall_cases b Hb) as [Hb'|Hb'].
      - apply (i_ex _ _ _ _ _ _ _ I). cbn [app]. unfold tgts. apply in_flat_map. now exists b.
      - unfold f' in *. rewrite Hsame by (apply Hd1; now apply (Hin_tg b)).
        rewrite Hsame in Hk by (apply Hd1; apply (Hin_tg b Hb'); apply key_targets). now apply (Hq3 b Hb). }
    fold f' c'. split; [exact F3|]. split; [|split; [exact Q3|exact B3]].
    rewrite L3. f_equal.
    (* what the next build is predicted to run: nothing of pre, then as before *)
    rewrite Eall, fold_left_app. rewrite (fold_quiet f' tx' pre).
    2:{ intros b Hb. destruct (i_q _ _ _ _ _ _ _ I b Hb) as ((tk & Ek & Hd) & _). unfold bfire. fold f' in Ek, Hd. rewrite Ek.
        cbn [is_none orb]. apply not_true_is_false. intros H. apply existsb_exists in H as (p & Hp & H).
        cbn [memf existsb] in H. rewrite orb_false_r in H. unfold tx' in H. destruct (Hd p Hp) as (tp & Ep & Hle).
        rewrite Ep, Ek in H. cbn [newer_o] in H. apply N.ltb_lt in H. lia. }
    assert (G : forall l dA dB, (forall b, In b l -> In b (bF :: post)) ->
              (forall p, memf p dA = memf p d1 || memf p dB) ->
              snd (fold_left (bd_step f' tx') l (dB, [])) = snd (fold_left (bd_step f2 tx) l (dA, []))).
    { induction l as [|b l IH]; intros dA dB Hl Hrel; [reflexivity|]. cbn [fold_left]. unfold bd_step at 2 4. cbn [fst snd].
      assert (Hb : In b (bF :: post)) by (apply Hl; now left).
      assert (Hball : In b all) by (rewrite Eall; apply in_or_app; now right).
      assert (Hkey : f' (b_key b) = f2 (b_key b)).
      { apply Hsame. apply Hd1. apply (Hin_tg b Hb). apply key_targets. }
      assert (Efire : bfire f' tx' dB b = bfire f2 tx dA b).
      { unfold bfire. rewrite Hkey. destruct (f2 (b_key b)) as [tk|] eqn:Ek; [|reflexivity]. cbn [is_none orb].
        apply existsb_ext_in. intros p Hp. rewrite (Hrel p). unfold tx'. rewrite Hkey.
        destruct (memf p d1) eqn:Ed.
        - destruct (i_new _ _ _ _ _ _ _ I p Ed) as (t & Et & Hle). fold f' in Et. rewrite Et. cbn [newer_o orb].
          rewrite orb_true_r. apply orb_true_iff. left. apply N.ltb_lt. apply Hbelow in Ek. lia.
        - rewrite (Hsame p Ed). cbn [orb]. now rewrite <- (Hq2 b Hball p Hp), Ek. }
      rewrite Efire. destruct (bfire f2 tx dA b).
      - rewrite (fold_ran f' tx' l), (fold_ran f2 tx l). cbn [snd]. f_equal.
        apply IH; [intros b' Hb'; apply Hl; now right|]. intros p. rewrite !memf_app, (Hrel p). now rewrite orb_assoc.
      - apply IH; [intros b' Hb'; apply Hl; now right|exact Hrel]. }
    cbn [fold_left]. unfold bd_step at 2. cbn [fst snd].
    assert (HkF : f' (b_key bF) = f2 (b_key bF)).
    { apply Hsame. apply Hd1. apply (Hin_tg bF (or_introl eq_refl)). apply key_targets. }
    assert (EfF : bfire f' tx' [] bF = true).
    { rewrite <- Hfire. unfold bfire. rewrite HkF. destruct (f2 (b_key bF)) as [tk|] eqn:Ek; [|reflexivity]. cbn [is_none orb].
      apply existsb_ext_in. intros p Hp. unfold tx'. rewrite HkF. cbn [memf existsb]. rewrite orb_false_r.
      destruct (memf p d1) eqn:Ed.
      - destruct (i_new _ _ _ _ _ _ _ I p Ed) as (t & Et & Hle). fold f' in Et. rewrite Et. cbn [newer_o].
        rewrite orb_true_r. apply N.ltb_lt. apply Hbelow in Ek. lia.
      - rewrite (Hsame p Ed), orb_false_r. now rewrite <- (Hq2 bF HbF p Hp), Ek. }
    rewrite EfF. rewrite fold_ran. cbn [snd app map]. f_equal. f_equal.
    apply G; [intros b Hb; now right|]. intros p. rewrite memf_app. reflexivity.
Qed.
End FailRun.

(* ================================================================== the state after touching one file *)
Lemma touched_hyps all f1 clk X :
  wf_blocks all -> fs_below f1 clk -> quiet all f1 ->
  let f2 := upd f1 X clk in
  fs_below f2 (clk + 1) /\
  (forall b, In b all -> forall p, In p (b_deps b ++ b_ord b) -> ~ In p (tgts all) -> f2 p <> None) /\
  (forall b, In b all -> forall p, In p (b_deps b) -> newer_o (f2 p) (f2 (b_key b)) = (p =? X)) /\
  (forall b, In b all -> f2 (b_key b) <> None -> forall y, In y (b_targets b) -> f2 y <> None).
Proof.
  intros [Hnd Hord] Hb Hq. cbn zeta.
  assert (Hself : forall b, In b all -> forall p, In p (b_deps b) -> p <> b_key b).
  { intros b Hb' p Hp ->. apply in_split in Hb' as (pre & post & ->).
    destruct (ordered_b_app pre b post Hord) as [Ho _]. apply (Ho (b_key b) (in_or_app _ _ _ (or_introl Hp))).
    cbn [tgts flat_map]. apply in_or_app. left. apply key_targets. }
  split; [|split; [|split]].
  - intros y t. unfold upd. destruct (y =? X); intros H; [inversion H; lia|apply Hb in H; lia].
  - intros b Hb' p Hp _. unfold upd. destruct (p =? X); [discriminate|]. exact (xq_src all f1 Hq b Hb' p Hp).
  - intros b Hb' p Hp. destruct (Hq b Hb') as ((tk & Ek & Hd) & _). destruct (Hd p Hp) as (tp & Ep & Hle).
    pose proof (Hself b Hb' p Hp) as Hne. unfold upd. destruct (N.eqb_spec p X) as [->|HpX].
    + apply N.eqb_neq in Hne. rewrite N.eqb_sym in Hne. rewrite Hne, Ek. cbn [newer_o]. apply N.ltb_lt.
      apply Hb in Ek. exact Ek.
    + rewrite Ep. destruct (b_key b =? X).
      * cbn [newer_o]. apply N.ltb_ge. apply Hb in Ep. lia.
      * rewrite Ek. cbn [newer_o]. now apply N.ltb_ge.
  - intros b Hb' _ y Hy. destruct (Hq b Hb') as (_ & _ & Ht). unfold upd. destruct (y =? X); [discriminate|now apply Ht].
Qed.

Lemma rules_okr bs r : In r (rules bs) -> okr (cmds_of false) r.
Proof.
  intros Hr. split; [reflexivity|]. unfold rules in Hr. apply in_flat_map in Hr as (b & _ & Hr).
  destruct b as [o D ord|o1 os K D ord lag]; cbn [b_rules] in Hr.
  - destruct Hr as [<-|[]]. reflexivity.
  - apply in_app_or in Hr as [Hr|[<-|[]]].
    + apply in_map_iff in Hr as (o & <- & _). discriminate.
    + cbn [x_also]. discriminate.
Qed.

Lemma fmake_nofail cm rs goals f clk : (forall r, In r rs -> okr cm r) ->
  fmake cm nofail rs goals f clk = dmake rs goals f clk.
Proof. intros H. apply fmake_dmake; [exact H|]. intros y _. reflexivity. Qed.

(* ================================================================== scripts *)
(* A complete build; x is touched; a build in which the steps chosen by the oracle fl fail; a build in which nothing
   fails; one more build.  L = the steps downstream of x, in script order. *)
Theorem failed_step_recovers lag steps f clk x fl :
  wf_script_multi steps -> fs_below f clk ->
  let rs := xsem_steps true lag steps in
  let goals := script_goals steps in
  let cm := cmds_of false in
  clean_for rs f -> inputs_exist rs f ->
  let b1 := fmake cm nofail rs goals f clk in
  let L := map step_target (script_down_steps x steps) in
  let b2 := fmake cm fl rs goals (upd (d_fs b1) (encF x) (d_clk b1)) (d_clk b1 + 1) in
  let b3 := fmake cm nofail rs goals (d_fs b2) (d_clk b2) in
  let b4 := fmake cm nofail rs goals (d_fs b3) (d_clk b3) in
  d_fail b1 = false /\ d_log b1 = map step_target steps /\
  d_log b2 = take_ok fl L /\ d_fail b2 = existsb fl L /\
  d_log b3 = drop_ok fl L /\ d_fail b3 = false /\
  d_log b2 ++ d_log b3 = L /\
  d_log b4 = [] /\ d_fail b4 = false.
Proof.
  intros Hwf Hb rs goals0 cm Hclean Hin.
  assert (Hsms : Forall sms steps).
  { destruct Hwf as (H & _). eapply Forall_impl; [|exact H]. intros st [H1 H2]. now split. }
  assert (Hsm : Forall sm steps) by (eapply Forall_impl; [|exact Hsms]; now intros a [H _]).
  set (bs := blocks lag steps).
  assert (Ers : rs = rules bs) by (apply rules_blocks; exact Hwf).
  assert (Eg : goals0 = goals bs) by (apply goals_blocks; exact Hwf).
  assert (Etg : tgts bs = map x_target rs) by (now rewrite Ers, rules_targets).
  assert (Hwfb : wf_blocks bs).
  { split.
    - unfold bs, blocks. rewrite (tgts_blocks_gen lag steps Hsm). apply nodup_map_inj; [exact enc_inj|].
      now apply nodup_tnodes.
    - apply ordered_b_gen; [exact Hsms|]. now destruct Hwf as (_ & _ & H). }
  clearbody rs goals0. subst rs goals0.
  assert (Hok : forall r, In r (rules bs) -> okr cm r) by (intros r Hr; exact (rules_okr bs r Hr)).
  intros b1'. assert (E1 : b1' = dmake (rules bs) (goals bs) f clk) by (apply fmake_nofail; exact Hok).
  clearbody b1'. subst b1'. intros L b2.
  intros b3'. assert (E3 : b3' = dmake (rules bs) (goals bs) (d_fs b2) (d_clk b2)) by (apply fmake_nofail; exact Hok).
  clearbody b3'. subst b3'.
  intros b4'. assert (E4 : b4' = dmake (rules bs) (goals bs) (d_fs (dmake (rules bs) (goals bs) (d_fs b2) (d_clk b2)))
                                     (d_clk (dmake (rules bs) (goals bs) (d_fs b2) (d_clk b2))))
    by (apply fmake_nofail; exact Hok).
  clearbody b4'. subst b4'. subst L b2.
  destruct (run_clean bs f clk Hwfb Hb) as (F1 & L1 & Q1 & B1 & _).
  { intros y Hy. rewrite Etg in Hy. apply in_map_iff in Hy as (r & <- & Hr). now apply Hclean. }
  { intros b Hb' p Hp Hnt. destruct (key_rule b) as (r & Hr & E1 & E2).
    apply (Hin r); [unfold rules; apply in_flat_map; now exists b|now rewrite E1, E2|now rewrite <- Etg]. }
  set (b1 := dmake (rules bs) (goals bs) f clk) in *.
  assert (Hkeys : map b_key bs = map step_target steps).
  { unfold bs, blocks. rewrite map_map. apply map_ext. intros st. apply blk_key_all. }
  split; [exact F1|]. split; [now rewrite L1|].
  destruct (touched_hyps bs (d_fs b1) (d_clk b1) (encF x) Hwfb B1 Q1) as (T1 & T2 & T3 & T4).
  destruct Hwfb as [Hnd Hord].
  destruct (blocks_fail_run bs (upd (d_fs b1) (encF x) (d_clk b1)) (d_clk b1 + 1) (fun _ p => p =? encF x) cm fl
              Hnd Hord T1 T2 T3 T4 Hok) as (D2 & Fl2 & F3 & L3 & Q3 & B3).
  set (b2 := fmake cm fl (rules bs) (goals bs) (upd (d_fs b1) (encF x) (d_clk b1)) (d_clk b1 + 1)) in *.
  set (b3 := dmake (rules bs) (goals bs) (d_fs b2) (d_clk b2)) in *.
  assert (EL : map b_key (snd (fold_left (bd_step (upd (d_fs b1) (encF x) (d_clk b1)) (fun _ p => p =? encF x)) bs ([], []))) =
               map step_target (script_down_steps x steps)).
  { destruct (fold_rel lag (upd (d_fs b1) (encF x) (d_clk b1)) x steps Hsms) with (dB := @nil file) (dS := @nil N) (ranS := @nil step)
      as (dB' & E & _).
    + intros st Hst. unfold upd. destruct (_ =? _); [discriminate|].
      destruct (Q1 (blk lag st)) as ((tk & Ek & _) & _); [unfold bs, blocks; now apply in_map|]. congruence.
    + intros p. reflexivity.
    + cbn [map] in E. fold (blocks lag steps) in E. fold bs in E. rewrite E. cbn [snd].
      unfold script_down_steps. rewrite map_map. apply map_ext. intros st. apply blk_key_all. }
  rewrite EL in D2, Fl2, L3.
  split; [exact D2|]. split; [exact Fl2|]. split; [exact L3|]. split; [exact F3|].
  split; [rewrite D2, L3; apply take_drop|].
  destruct (run_quiet bs (d_fs b3) (d_clk b3) (conj Hnd Hord) B3 Q3) as (F4 & L4 & _).
  split; [exact L4|exact F4].
Qed.

Theorem fail_semantics_conservative lag steps goals f clk :
  wf_script_multi steps ->
  fmake (cmds_of false) nofail (xsem_steps true lag steps) goals f clk = dmake (xsem_steps true lag steps) goals f clk.
Proof.
  intros Hwf. apply fmake_nofail. rewrite (rules_blocks lag steps Hwf). intros r Hr. exact (rules_okr _ r Hr).
Qed.

(* ================================================================== the recipes are the emitted ones *)
(* one recipe per rule of emit_make_step, repeated for every target of the rule (a Make rule with several targets is
   one rule per target) *)
Definition rule_cmds (rs : list mrule) (cs : list (list rcmd)) : list (list rcmd) :=
  flat_map (fun rc => map (fun _ => snd rc) (mr_targets (fst rc))) (combine rs cs).

Lemma cmds_xrules tb r k also lag :
  map (cmds_of tb) (xrules_of r k also lag) =
  map (fun _ => cmds_of tb (mkX 0 [] [] (xk (mr_recipe r) k) false also 0)) (mr_targets r).
Proof. unfold xrules_of. rewrite map_map. apply map_ext. reflexivity. Qed.

Lemma multitarget_recipes_ok tb fx lag os deps ord ph rs cs :
  multitarget_rule fx os deps ord true ph = Some rs -> multitarget_recipes tb fx os true = Some cs ->
  length cs = length rs /\ map (cmds_of tb) (xsem_rules lag rs) = rule_cmds rs cs.
Proof.
  unfold multitarget_rule, multitarget_recipes. destruct os as [|o [|o2 os]]; intros E1 E2; try discriminate;
    injection E1 as <-; injection E2 as <-; (split; [reflexivity|]); unfold xsem_rules, rule_cmds;
    rewrite ?map_app, !cmds_xrules; cbn [combine flat_map fst snd mr_targets mr_recipe app xk]; rewrite ?app_nil_r.
  - reflexivity.
  - destruct fx, tb; reflexivity.
Qed.

Theorem recipes_emitted tb fx lag st rs cs :
  emit_make_step fx st = Some rs -> emit_make_recipes tb fx st = Some cs ->
  length cs = length rs /\ map (cmds_of tb) (xsem_rules lag rs) = rule_cmds rs cs.
Proof.
  unfold emit_make_step, emit_make_recipes. destruct (s_kind st); try apply multitarget_recipes_ok.
  - destruct (s_outputs st) as [|o os]; intros E1 E2; try discriminate. injection E1 as <-. injection E2 as <-.
    split; [reflexivity|]. unfold xsem_rules, rule_cmds. rewrite cmds_xrules. cbn [combine flat_map fst snd mr_targets mr_recipe xk].
    now rewrite app_nil_r.
  - destruct (s_outputs st) as [|o os]; intros E1 E2; try discriminate. injection E1 as <-. injection E2 as <-.
    split; [reflexivity|]. unfold xsem_rules, rule_cmds. rewrite cmds_xrules. cbn [combine flat_map fst snd mr_targets mr_recipe xk].
    now rewrite app_nil_r.
Qed.
