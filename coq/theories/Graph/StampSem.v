(* The stamp encoding of multi-output steps (backends/make/writer.py multitarget_rule):
       out1 .. outk: out1.stamp            (no recipe as first written; the no-op recipe  @:  after the repair)
       out1.stamp: deps | order ; recipe ; touch $@
   (1) At the level of the out-of-date test of Make/MakeSem.v the stamp stands in for the outputs: as long as the
       outputs carry the stamp's time (the recipe writes them and then touches the stamp; modifications of INPUTS keep
       this), the recipe runs exactly when an ideal k-output rule would run it.  Deleting one output breaks the
       invariant (documented limitation, also written in the source of ninja_compile for its phony alias).
   (2) Whether the CONSUMERS of the outputs are rebuilt in the same run depends on when GNU Make looked at the outputs:
       Make walks depth first from its goals, reads the mtime of a target when it first considers it (before its
       prerequisites are brought up to date), keeps that value, and re-reads it only after running a recipe OF THAT
       TARGET.  Without a recipe on  outs: stamp  an output considered before the stamp's recipe ran keeps its
       old mtime and its consumers are judged up to date (finding C03-make-stamp-consumer-stale).  With the no-op
       recipe (RNoop) the recipe of an output that is older than the stamp runs - it writes nothing and is NOT a step:
       it is recorded in [d_nlog], never in [d_log] - and Make then reads the output's mtime again.
       The real recipe writes the outputs first and touches the stamp afterwards, so the stamp is usually strictly
       newer than the outputs ([x_lag] > 0): the no-op recipe then runs again in every later make; no step does.
       [dmake] models exactly this walk (R model, validated against GNU Make 4.3 by harness/c03.py stage R:stampsem
       on stamp-shaped graphs of both rule shapes, with several consumers, goal orders and lags).
   Definitions and the (short) proofs together; all executable.  The general theorem for the repaired shape is in
   Graph/EmitStampProofs.v. *)
From BFG Require Import Base.Chars Make.MakeSem Make.MakeSemProofs.
Local Open Scope N_scope.

(* ------------------------------------------------------------------ (1) the out-of-date test *)
Definition stamp_rule (stamp : file) (deps ord : list file) : rule := mkRule stamp deps ord true false.
Definition ideal_rule (o : file) (deps ord : list file) : rule := mkRule o deps ord true false.

Lemma need_same_time all s t1 t2 deps ord :
  b_fs s t1 = b_fs s t2 -> need all s (mkRule t1 deps ord true false) = need all s (mkRule t2 deps ord true false).
Proof.
  intros E. unfold need. cbn [r_phony r_target r_prereqs]. rewrite E. f_equal.
  apply existsb_ext_in. intros p _. unfold newer. now rewrite E.
Qed.

Theorem stamp_equiv all s outs stamp deps ord :
  outs <> [] -> (forall o, In o outs -> b_fs s o = b_fs s stamp) ->
  need all s (stamp_rule stamp deps ord) = existsb (fun o => need all s (ideal_rule o deps ord)) outs.
Proof.
  intros Hne Hinv. destruct outs as [|o1 outs]; [contradiction|]. clear Hne.
  assert (H : forall l, (forall o, In o l -> b_fs s o = b_fs s stamp) ->
            existsb (fun o => need all s (ideal_rule o deps ord)) l =
            if l then false else need all s (stamp_rule stamp deps ord)).
  { induction l as [|o l IH]; intros Hl; [reflexivity|]. cbn [existsb].
    unfold ideal_rule at 1. rewrite (need_same_time all s o stamp) by (apply Hl; now left).
    fold (stamp_rule stamp deps ord). rewrite IH by (intros o' Ho'; apply Hl; now right).
    destruct l; [apply orb_false_r|apply orb_diag]. }
  now rewrite H.
Qed.

(* the limitation: one output deleted, stamp untouched - an ideal rule re-runs the recipe, the encoding does not *)
Theorem stamp_delete_refuted :
  exists all s outs stamp deps ord,
    outs <> [] /\ b_fail s = None /\
    need all s (stamp_rule stamp deps ord) = false /\
    existsb (fun o => need all s (ideal_rule o deps ord)) outs = true.
Proof.
  exists [], (init (fs_of [(1, 5); (11, 7); (12, 7)]) 9), [10; 11], 12, [1], [].
  repeat split; try discriminate; reflexivity.
Qed.

(* ------------------------------------------------------------------ (2) the depth-first walk with cached mtimes *)
Inductive rkind := RNone | RReal | RNoop.     (* no recipe; a recipe that creates its target; the no-op recipe  @:  *)

Record xrule := mkX {
  x_target : file; x_prereqs : list file; x_order : list file; x_recipe : rkind; x_phony : bool;
  x_also : list file;       (* further files the recipe writes (the outputs, for a stamp rule) *)
  x_lag : N                 (* the target is written that many ticks after the also-files (touch $@ comes last) *)
}.

Record dst := mkD {
  d_fs : fs; d_clk : time;
  d_log : list file;                        (* targets whose (real) recipe ran: the executed steps *)
  d_nlog : list file;                       (* targets whose no-op recipe ran *)
  d_cache : list (file * option time);      (* what Make believes the mtimes are *)
  d_done : list file; d_fail : bool
}.

Fixpoint assoc (x : file) (l : list (file * option time)) : option (option time) :=
  match l with
  | [] => None
  | (y, v) :: r => if x =? y then Some v else assoc x r
  end.

(* file_mtime: cached, else read from disk and cached *)
Definition stat (t : file) (s : dst) : dst :=
  match assoc t (d_cache s) with
  | Some _ => s
  | None => mkD (d_fs s) (d_clk s) (d_log s) (d_nlog s) ((t, d_fs s t) :: d_cache s) (d_done s) (d_fail s)
  end.
Definition mt (s : dst) (t : file) : option time :=
  match assoc t (d_cache s) with Some v => v | None => d_fs s t end.

Definition find_x (rs : list xrule) (t : file) : option xrule := find (fun r => x_target r =? t) rs.
Definition x_phony_in (rs : list xrule) (p : file) : bool := existsb (fun r => (x_target r =? p) && x_phony r) rs.
Definition newer_o (a b : option time) : bool :=
  match a, b with Some x, Some y => y <? x | _, _ => false end.

Definition mark (t : file) (s : dst) : dst :=
  mkD (d_fs s) (d_clk s) (d_log s) (d_nlog s) (d_cache s) (t :: d_done s) (d_fail s).
Definition failed (s : dst) : dst := mkD (d_fs s) (d_clk s) (d_log s) (d_nlog s) (d_cache s) (d_done s) true.

Definition write_all (f : fs) (l : list file) (c : time) : fs := fold_left (fun g x => upd g x c) l f.

(* the state after the recipe of rule r (target t) ran in state s1 *)
Definition run_recipe (r : xrule) (t : file) (s1 : dst) : dst :=
  match x_recipe r with
  | RNone => mark t s1
  | RReal =>
      let c := d_clk s1 in
      let f1 := write_all (d_fs s1) (x_also r) c in
      let f2 := if x_phony r then f1 else upd f1 t (c + x_lag r) in
      (* only the target itself is looked at again after its recipe *)
      let cache := if x_phony r then d_cache s1 else (t, Some (c + x_lag r)) :: d_cache s1 in
      mkD f2 (c + x_lag r + 1) (d_log s1 ++ [t]) (d_nlog s1) cache (t :: d_done s1) false
  | RNoop =>
      (* nothing is written; the target is looked at again *)
      let cache := if x_phony r then d_cache s1 else (t, d_fs s1 t) :: d_cache s1 in
      mkD (d_fs s1) (d_clk s1) (d_log s1) (d_nlog s1 ++ [t]) cache (t :: d_done s1) false
  end.

Definition must_remake (rs : list xrule) (r : xrule) (t : file) (s1 : dst) : bool :=
  let tm := mt s1 t in
  x_phony r || is_none tm ||
  existsb (fun p => is_none (mt s1 p) || x_phony_in rs p || newer_o (mt s1 p) tm) (x_prereqs r).

Fixpoint update (fuel : nat) (rs : list xrule) (t : file) (s : dst) : dst :=
  match fuel with
  | O => failed s
  | S n =>
    if d_fail s then s else
    if memf t (d_done s) then s else
    let s0 := stat t s in
    match find_x rs t with
    | None => if is_none (mt s0 t) then failed s0 else mark t s0
    | Some r =>
        let s1 := fold_left (fun a p => update n rs p a) (x_prereqs r ++ x_order r) s0 in
        if d_fail s1 then s1 else
        if must_remake rs r t s1 then run_recipe r t s1 else mark t s1
    end
  end.

(* one invocation  make goals : a fresh Make process (empty cache) *)
Definition dmake (rs : list xrule) (goals : list file) (f : fs) (clk : time) : dst :=
  fold_left (fun a g => update (3 + length rs) rs g a) goals (mkD f clk [] [] [] [] false).

(* the rules bfg9000 writes for: a 2-output build_step (files 10 11, stamp 12, input 1) and one consumer of each output;
   k = the recipe of the outs rule, lag = how much later than the outputs the stamp is touched *)
Definition ex_stamp_rules_v (k : rkind) (lag : N) : list xrule :=
  [mkX 10 [12] [] k false [] 0; mkX 11 [12] [] k false [] 0;
   mkX 12 [1] [] RReal false [10; 11] lag;
   mkX 20 [10] [] RReal false [] 0; mkX 21 [11] [] RReal false [] 0].
Definition ex_stamp_rules : list xrule := ex_stamp_rules_v RNone 0.

(* After a complete build, touch the input and run  make : the step re-runs and the consumer of the output Make meets
   SECOND is rebuilt, the consumer of the output it met first is not; a further  make  (nothing touched) then rebuilds
   it.  Neither is what the script describes: both consumers are downstream of the input, and a build right after a
   build must do nothing. *)
Theorem stamp_consumers_refuted :
  let b1 := dmake ex_stamp_rules [20; 21] (fs_of [(1, 5)]) 10 in
  let b2 := dmake ex_stamp_rules [20; 21] (d_fs b1) (d_clk b1) in
  let touched := upd (d_fs b1) 1 (d_clk b1) in
  let b3 := dmake ex_stamp_rules [20; 21] touched (d_clk b1 + 1) in
  let b4 := dmake ex_stamp_rules [20; 21] (d_fs b3) (d_clk b3) in
  d_log b1 = [12; 20; 21] /\ d_log b2 = [] /\
  d_log b3 = [12; 21] /\ d_log b4 = [20] /\
  d_fail b1 = false /\ d_fail b3 = false /\ d_fail b4 = false.
Proof. vm_compute. repeat split. Qed.

(* a single consumer of any output, reached from the goal, is never rebuilt in the run that re-runs the step *)
Theorem stamp_single_consumer_refuted :
  let rs := [mkX 10 [12] [] RNone false [] 0; mkX 11 [12] [] RNone false [] 0;
             mkX 12 [1] [] RReal false [10; 11] 0; mkX 21 [11] [] RReal false [] 0] in
  let b1 := dmake rs [21] (fs_of [(1, 5)]) 10 in
  let b3 := dmake rs [21] (upd (d_fs b1) 1 (d_clk b1)) (d_clk b1 + 1) in
  let b4 := dmake rs [21] (d_fs b3) (d_clk b3) in
  d_log b1 = [12; 21] /\ d_log b3 = [12] /\ d_log b4 = [21].
Proof. vm_compute. repeat split. Qed.

(* the same graph with the no-op recipe on the outs rule (the repaired shape), the stamp touched one tick after the
   outputs: both consumers are rebuilt in the make that re-runs the step; the makes after it run no step - only the
   no-op recipe of the outputs (older than their stamp) runs again *)
Theorem stamp_consumers_repaired :
  let rs := ex_stamp_rules_v RNoop 1 in
  let b1 := dmake rs [20; 21] (fs_of [(1, 5)]) 10 in
  let b2 := dmake rs [20; 21] (d_fs b1) (d_clk b1) in
  let b3 := dmake rs [20; 21] (upd (d_fs b1) 1 (d_clk b1)) (d_clk b1 + 1) in
  let b4 := dmake rs [20; 21] (d_fs b3) (d_clk b3) in
  d_log b1 = [12; 20; 21] /\ d_log b2 = [] /\ d_nlog b2 = [10; 11] /\
  d_log b3 = [12; 20; 21] /\ d_log b4 = [] /\
  d_fail b1 = false /\ d_fail b3 = false /\ d_fail b4 = false.
Proof. vm_compute. repeat split. Qed.

(* wire helpers for the table *)
Definition run_session (rs : list xrule) (goals : list file) :
  fs -> time -> list (N * file) -> list (list file * list file * bool) :=
  fix go (f : fs) (clk : time) (ops : list (N * file)) : list (list file * list file * bool) :=
    match ops with
    | [] => []
    | (0, _) :: r => let b := dmake rs goals f clk in (d_log b, d_nlog b, d_fail b) :: go (d_fs b) (d_clk b) r
    | (1, x) :: r => go (upd f x clk) (clk + 1) r
    | (_, x) :: r => go (del f x) clk r
    end.
