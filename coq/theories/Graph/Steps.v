(* Abstract build scripts: the backend-agnostic edge list (build_inputs.py Edge and its subclasses in
   builtins/compile.py, link.py, command.py, copy_file.py, alias.py) reduced to what the rule handlers of the Make and
   Ninja backends read when they register dependencies.  Definitions only.

   Files (and phony names) are identified by numbers; the harness numbers the distinct path strings of a script.
   An output carries the identifier of its parent directory as computed by the real Path.parent()
   (0 = the build directory itself, Path('.')), which is all that make.directory_deps looks at. *)
From BFG Require Import Base.Chars.
Local Open Scope N_scope.

Inductive kind := KCompile | KLink | KCommand | KBuildStep | KCopyFile | KAlias.

Definition kind_eqb (a b : kind) : bool :=
  match a, b with
  | KCompile, KCompile | KLink, KLink | KCommand, KCommand | KBuildStep, KBuildStep
  | KCopyFile, KCopyFile | KAlias, KAlias => true
  | _, _ => false
  end.

Record out := mkOut { o_file : N; o_dir : N }.

Record step := mkStep {
  s_kind : kind;
  s_outputs : list out;             (* rule.output *)
  s_file : option N;                (* rule.file (compile, copy_file) *)
  s_pch_source : option N;          (* rule.pch_source (CompileHeader) *)
  s_pch : option N;                 (* rule.pch *)
  s_include_deps : list N;          (* rule.include_deps: headers passed explicitly *)
  s_libs : list N;                  (* rule.libs *)
  s_pkg_deps : list N;              (* flatten(i.deps for i in rule.packages) *)
  s_files : list N;                 (* rule.files (link: objects; command/build_step: files=) *)
  s_module_defs : list N;           (* listify(rule.module_defs) *)
  s_manifest : list N;              (* listify(rule.manifest) *)
  s_extra_deps : list N;            (* Edge.extra_deps *)
  s_phony : bool;                   (* BaseCommand.phony: Command always, BuildStep when always_outdated *)
  s_depsflavor : bool               (* compiler.deps_flavor in (gcc, msvc) *)
}.

Definition oN (o : option N) : list N := match o with Some x => [x] | None => [] end.

(* what a step consumes: the union the property lists (sources, objects, libraries, precompiled headers, explicitly
   passed headers, files named in custom commands, extra_deps) - independent of the kind of the step *)
Definition consumed (st : step) : list N :=
  oN (s_pch_source st) ++ oN (s_file st) ++ oN (s_pch st) ++ s_include_deps st ++ s_libs st ++ s_pkg_deps st ++
  s_files st ++ s_module_defs st ++ s_manifest st ++ s_extra_deps st.

Definition outs (st : step) : list N := map o_file (s_outputs st).

Definition is_nil {T} (l : list T) : bool := match l with [] => true | _ => false end.
Definition is_noneb {T} (o : option T) : bool := match o with None => true | Some _ => false end.

(* the attributes an Edge of the given class can have at all (class definitions in builtins/): every other field is
   empty.  The harness evaluates this on the attribute dump of every real Edge it creates. *)
Definition shape_ok (st : step) : bool :=
  match s_kind st with
  | KCompile => negb (is_noneb (s_file st)) && is_nil (s_files st) && is_nil (s_module_defs st) && is_nil (s_manifest st)
  | KLink => is_noneb (s_file st) && is_noneb (s_pch_source st) && is_noneb (s_pch st) && is_nil (s_include_deps st)
  | KCommand | KBuildStep =>
      is_noneb (s_file st) && is_noneb (s_pch_source st) && is_noneb (s_pch st) && is_nil (s_include_deps st) &&
      is_nil (s_libs st) && is_nil (s_pkg_deps st) && is_nil (s_module_defs st) && is_nil (s_manifest st)
  | KCopyFile =>
      negb (is_noneb (s_file st)) && is_noneb (s_pch_source st) && is_noneb (s_pch st) && is_nil (s_include_deps st) &&
      is_nil (s_libs st) && is_nil (s_pkg_deps st) && is_nil (s_files st) && is_nil (s_module_defs st) &&
      is_nil (s_manifest st)
  | KAlias =>
      is_noneb (s_file st) && is_noneb (s_pch_source st) && is_noneb (s_pch st) && is_nil (s_include_deps st) &&
      is_nil (s_libs st) && is_nil (s_pkg_deps st) && is_nil (s_files st) && is_nil (s_module_defs st) &&
      is_nil (s_manifest st)
  end.

(* BaseCommand.__init__: Node arguments of the command lines become extra_deps when they are produced by a step or the
   command is not phony; then the declared extra_deps.  [nodes] = (file, has a creator) in command-line order. *)
Definition command_extra_deps (phony : bool) (nodes : list (N * bool)) (extra : list N) : list N :=
  map fst (filter (fun n => snd n || negb phony) nodes) ++ extra.

(* the plural form cmds=[line1; line2; ...]: the loop runs over every word of EVERY line, in order (a file named in
   two lines is listed twice) *)
Definition command_lines_extra_deps (phony : bool) (lines : list (list (N * bool))) (extra : list N) : list N :=
  command_extra_deps phony (concat lines) extra.

(* Test.__init__: self.inputs = the Node arguments that have a creator *)
Definition test_inputs (nodes : list (N * bool)) : list N := map fst (filter snd nodes).

(* the hooks around the edge list: all (default.py), tests/test (tests.py), install/uninstall (install.py) *)
Record script := mkScript {
  sc_steps : list step;
  sc_all : N; sc_tests_name : N; sc_test_name : N; sc_install_name : N; sc_uninstall_name : N;
  sc_defaults : list N;                          (* build_inputs['defaults'].outputs *)
  sc_tests : option (list N * list N);           (* None: no test() call; Some (inputs of all tests, test_deps) *)
  sc_install : bool;                             (* install_commands non-empty (and every install dir set) *)
  sc_uninstall : bool
}.

(* membership test and order-preserving de-duplication (iterutils.uniques) on identifiers *)
Definition memN (x : N) (l : list N) : bool := existsb (N.eqb x) l.
Fixpoint nuniq_go (seen l : list N) : list N :=
  match l with
  | [] => []
  | x :: r => if memN x seen then nuniq_go seen r else x :: nuniq_go (x :: seen) r
  end.
Definition nuniq (l : list N) : list N := nuniq_go [] l.

Definition set_eq {T} (a b : list T) : Prop := forall x, In x a <-> In x b.
