(* Channel F: define NAME ... endef  and  $(call NAME,arg,...).
   W model of bfg9000/backends/make/syntax.py: Variable (name sanitising, use), Function.use / Call,
   Makefile._write_define.
   R model of GNU Make 4.3 (function.c handle_function / func_call, validated against /usr/bin/make by the
   harness): the text of the invocation ends at the first closing parenthesis that is not matched by an
   opening one (none: unterminated call, fatal); it is split at the commas outside parentheses BEFORE anything
   is expanded (a dollar sign in front of a comma protects nothing); each piece is expanded once and bound to
   0, 1, 2, ...; then the body of the variable named by piece 0 is expanded with these bindings. *)
From BFG Require Import Base.Chars Shell.PosixQuote Make.MakeWrite Make.MakeRead.
Local Open Scope N_scope.

(* ------------------------------------------------------------------ W *)
Section W.
Variable us : char -> bool.   (* \s for code points >= 128 *)

(* Variable.__init__: re.sub of the class  \s : # =  by an underscore *)
Definition var_name (name : str) : str :=
  map (fun c => if py_space us c || mem_char c [58; 35; 61] then c_us else c) name.

(* Variable.use(): the reference text; quoted -> wrap_quotes of the FORMAT (always three or five characters
   without quotes, so the result is the reference between single quotes) *)
Definition var_ref (name : str) : str :=
  match name with
  | [c] => [c_dollar; c]
  | _ => c_dollar :: c_lp :: name ++ [c_rp]
  end.
Definition var_use (name : str) (quoted : bool) : mfrag :=
  let n := var_name name in
  MLit (if quoted then c_sq :: var_ref n ++ [c_sq] else var_ref n).
End W.

(* iterutils.tween(words, literal(' ')) over words that are each a jbos (list of fragments) *)
Fixpoint tween_sp (ws : list (list mfrag)) : list mfrag :=
  match ws with
  | [] => []
  | [w] => w
  | w :: r => w ++ MLit [c_sp] :: tween_sp r
  end.

(* tween(args, literal(','), prefix = literal(' ')) *)
Definition tween_args (args : list (list (list mfrag))) : list mfrag :=
  match args with
  | [] => []
  | a :: r => MLit [c_sp] :: tween_sp a ++ concat (map (fun x => MLit [c_comma] :: tween_sp x) r)
  end.

(* jbos canonicalisation drops empty plain strings (filter(None, ...)); literals are objects and stay *)
Definition keep_bit (f : mfrag) : bool := match f with MStr [] => false | _ => true end.

(* Function.use() for a function name, argument list and quoted flag *)
Definition func_frag (fname : str) (args : list (list (list mfrag))) (quoted : bool) : mfrag :=
  MSyn (filter keep_bit (MLit (c_dollar :: c_lp :: fname) :: tween_args args ++ [MLit [c_rp]]))
       (Some SynFunction) quoted.

(* Call: Function named call whose first argument is the sanitised name of the rule variable *)
Definition call_frag (us : char -> bool) (func : str) (args : list (list (list mfrag))) : mfrag :=
  func_frag [99; 97; 108; 108] ([[MStr (var_name us func)]] :: args) false.

(* Makefile._write_define; a line is (silent, items) *)
Definition kw_define : str := [100; 101; 102; 105; 110; 101; 32].      (* define + blank *)
Definition kw_endef : str := [101; 110; 100; 101; 102].

Section WDefine.
Variable uw us : char -> bool.

Definition write_body_line (l : bool * list (list mfrag)) : option str :=
  option_map (fun t => if fst l then c_at :: t else t) (write_each uw us (snd l) SynShell).

Fixpoint write_body_lines (ls : list (bool * list (list mfrag))) : option (list str) :=
  match ls with
  | [] => Some []
  | l :: r =>
    match write_body_line l, write_body_lines r with
    | Some t, Some u => Some (t :: u)
    | _, _ => None
    end
  end.

Definition write_define (name : str) (ls : list (bool * list (list mfrag))) : option str :=
  match write_body_lines ls with
  | Some ts => Some (kw_define ++ var_name us name ++ c_nl :: concat (map (fun t => t ++ [c_nl]) ts) ++ kw_endef ++ [c_nl; c_nl])
  | None => None
  end.
End WDefine.

(* the value GNU Make stores for the define: the lines joined by newlines *)
Fixpoint join_nl (ls : list str) : str :=
  match ls with
  | [] => []
  | [l] => l
  | l :: r => l ++ c_nl :: join_nl r
  end.

(* ------------------------------------------------------------------ R *)
(* expansion as in MakeRead.expand_go, extended by the two cases channel F needs: the one-character reference
   to the variable named comma, and a dollar sign at the very end of the text (kept literally by GNU Make); a
   one-character reference is a one-BYTE reference in GNU Make, so only ASCII characters are in the fragment *)
Fixpoint cexp (v : vars) (st : xst) (s : str) : option str :=
  match s with
  | [] => match st with XN => Some [] | XD => Some [c_dollar] | XR _ => None end
  | c :: r =>
    match st with
    | XN => if N.eqb c c_dollar then cexp v XD r else option_map (cons c) (cexp v XN r)
    | XD =>
      if N.eqb c c_dollar then option_map (cons c_dollar) (cexp v XN r)
      else if N.eqb c c_lp then cexp v (XR []) r
      else if (ref_char c && (c <? 128)) || N.eqb c c_comma then option_map (app (v [c])) (cexp v XN r)
      else None
    | XR acc =>
      if N.eqb c c_rp then option_map (app (v acc)) (cexp v XN r)
      else if ref_char c then cexp v (XR (acc ++ [c])) r
      else None
    end
  end.

Definition cexpand (v : vars) (s : str) : option str := cexp v XN s.

(* the text of the invocation: up to the first unmatched closing parenthesis; None = unterminated call *)
Fixpoint call_end (depth : nat) (s : str) : option (str * str) :=
  match s with
  | [] => None
  | c :: r =>
    if N.eqb c c_rp then
      match depth with
      | O => Some ([], r)
      | S d => option_map (fun p => (c :: fst p, snd p)) (call_end d r)
      end
    else option_map (fun p => (c :: fst p, snd p)) (call_end (if N.eqb c c_lp then S depth else depth) r)
  end.

(* find_next_argument: split at commas outside parentheses; (first piece, further pieces) *)
Fixpoint split_go (depth : nat) (s : str) : str * list str :=
  match s with
  | [] => ([], [])
  | c :: r =>
    if N.eqb c c_comma && Nat.eqb depth 0 then let p := split_go 0 r in ([], fst p :: snd p)
    else
      let d := if N.eqb c c_lp then S depth else if N.eqb c c_rp then Nat.pred depth else depth in
      let p := split_go d r in (c :: fst p, snd p)
  end.
Definition split_args (s : str) : list str := let p := split_go 0 s in fst p :: snd p.

Fixpoint drop_trailing_blanks (s : str) : str :=
  match s with
  | [] => []
  | c :: r => match drop_trailing_blanks r with
              | [] => if is_mk_blank c then [] else [c]
              | t => c :: t
              end
  end.
Definition trim_blanks (s : str) : str := drop_trailing_blanks (drop_blanks s).

(* decimal variable names 0, 1, 2, ... *)
Fixpoint dec_value (acc : nat) (s : str) : option nat :=
  match s with
  | [] => Some acc
  | c :: r => if is_digit c then dec_value (10 * acc + N.to_nat (c - 48)) r else None
  end.
Definition index_of_name (n : str) : option nat := match n with [] => None | _ => dec_value 0 n end.

(* the scope pushed by func_call: numeric names denote the actuals, everything else (and numbers beyond the
   actuals) is looked up outside *)
Definition bind (v : vars) (actuals : list str) : vars :=
  fun n => match index_of_name n with
           | Some i => match nth_error actuals i with Some a => a | None => v n end
           | None => v n
           end.

Definition map_opt {T U} (f : T -> option U) : list T -> option (list U) :=
  fix go (l : list T) : option (list U) :=
    match l with
    | [] => Some []
    | x :: r => match f x, go r with Some y, Some ys => Some (y :: ys) | _, _ => None end
    end.

(* [defs]: the recursively expanded variables created by define (name -> body text) *)
Definition call_expand (v : vars) (defs : str -> option str) (inside : str) : option str :=
  match map_opt (cexpand v) (split_args inside) with
  | Some (f :: actuals) =>
    match trim_blanks f with
    | [] => Some []
    | fname => match defs fname with
               | Some body => cexpand (bind v (fname :: actuals)) body
               | None => Some []
               end
    end
  | _ => None
  end.

Definition call_open : str := [36; 40; 99; 97; 108; 108].     (* dollar ( c a l l *)

Fixpoint strip_prefix (p s : str) : option str :=
  match p, s with
  | [], _ => Some s
  | a :: p', b :: s' => if N.eqb a b then strip_prefix p' s' else None
  | _, [] => None
  end.

(* a recipe text that consists of one call (what bfg9000 writes), possibly followed by more text (what is left
   over when a closing parenthesis inside an argument ends the call early) *)
Definition recipe_call_expand (v : vars) (defs : str -> option str) (text : str) : option str :=
  match strip_prefix call_open text with
  | Some (c :: r) =>
    if is_mk_blank c then
      match call_end 0 (drop_blanks r) with
      | Some (inside, rest) =>
        match call_expand v defs inside, cexpand v rest with
        | Some a, Some b => Some (a ++ b)
        | _, _ => None
        end
      | None => None
      end
    else None
  | _ => None
  end.

Fixpoint split_nl (s : str) : list str :=
  match s with
  | [] => [[]]
  | c :: r => if N.eqb c c_nl then [] :: split_nl r
              else match split_nl r with a :: t => (c :: a) :: t | [] => [[c]] end
  end.

(* the command lines handed to sh, one per line of the expansion, recipe prefix characters removed *)
Definition recipe_call_lines (v : vars) (defs : str -> option str) (text : str) : option (list str) :=
  option_map (fun t => map drop_prefix (split_nl t)) (recipe_call_expand v defs text).

(* reading the define block back: name and body; None outside the fragment (a body line that GNU Make would
   take for a nested define or for the end) *)
Definition starts_kw (kw line : str) : bool :=
  match strip_prefix kw (drop_blanks line) with
  | Some [] => true
  | Some (c :: _) => is_mk_blank c
  | None => false
  end.

Fixpoint take_body (lines : list str) : option (list str) :=
  match lines with
  | [] => None
  | l :: r =>
    if starts_kw kw_endef l then (if str_eqb (trim_blanks l) kw_endef then Some [] else None)
    else if starts_kw [100; 101; 102; 105; 110; 101] l then None
    else option_map (cons l) (take_body r)
  end.

Definition parse_define (text : str) : option (str * str) :=
  match split_nl text with
  | first :: rest =>
    match strip_prefix kw_define first, take_body rest with
    | Some name, Some body => Some (trim_blanks name, join_nl body)
    | _, _ => None
    end
  | [] => None
  end.

(* ------------------------------------------------------------------ guards *)
(* parenthesis depth after [s], None when a comma occurs outside parentheses or a closing parenthesis has no
   opening one *)
Fixpoint safe (depth : nat) (s : str) : option nat :=
  match s with
  | [] => Some depth
  | c :: r =>
    if N.eqb c c_comma then (match depth with O => None | _ => safe depth r end)
    else if N.eqb c c_lp then safe (S depth) r
    else if N.eqb c c_rp then (match depth with O => None | S d => safe d r end)
    else safe depth r
  end.

(* an argument word that survives: not empty, no newline, parentheses balanced, no comma outside parentheses *)
Definition call_word_ok (w : str) : bool :=
  negb (has_nl w) && match w with [] => false | _ => true end &&
  match safe 0 w with Some O => true | _ => false end.

(* the guards named in the design: no comma at all, balanced parentheses *)
Definition no_comma (w : str) : bool := negb (mem_char c_comma w).
Fixpoint parens_from (depth : nat) (s : str) : option nat :=
  match s with
  | [] => Some depth
  | c :: r =>
    if N.eqb c c_lp then parens_from (S depth) r
    else if N.eqb c c_rp then (match depth with O => None | S d => parens_from d r end)
    else parens_from depth r
  end.
Definition parens_balanced (w : str) : bool := match parens_from 0 w with Some O => true | _ => false end.

(* ------------------------------------------------------------------ the body of a rule *)
(* items of a body line: a plain word, or the parameter number i (1..9) *)
Inductive bitem := BW (w : str) | BP (i : nat).

Definition digit_char (i : nat) : char := 48 + N.of_nat i.
Definition bitem_frag (b : bitem) : list mfrag :=
  match b with
  | BW w => [MStr w]
  | BP i => [MLit [c_dollar; digit_char i]]
  end.
Definition body_line_items (l : bool * list bitem) : bool * list (list mfrag) := (fst l, map bitem_frag (snd l)).

(* the words a body line denotes once the parameters are replaced by the word lists of the call *)
Definition bitem_words (args : list (list str)) (b : bitem) : list str :=
  match b with
  | BW w => [w]
  | BP i => nth (Nat.pred i) args []
  end.
Definition line_words (args : list (list str)) (l : bool * list bitem) : list str :=
  concat (map (bitem_words args) (snd l)).
