From Coq Require Import Arith PeanoNat.
From BFG Require Import Base.Chars Shell.PosixQuote Shell.Sh Shell.PosixQuoteProofs
  Make.MakeWrite Make.MakeRead Make.MakeProofs Make.MakeCall.
Local Open Scope N_scope.

(* ---------- shape of wrap_quotes / quote: the argument with at most one quote character added or removed at
   either end ---------- *)
Definition qs (a : str) : Prop := a = [] \/ a = [c_sq].

Lemma wrap_quotes_shape y : exists a core b a' b',
  y = a ++ core ++ b /\ wrap_quotes y = a' ++ core ++ b' /\ qs a /\ qs b /\ qs a' /\ qs b'.
Proof.
  unfold wrap_quotes. destruct (Nat.ltb (length y) 3).
  { exists [], y, [], [c_sq], [c_sq]. rewrite app_nil_r. cbn. repeat split; (now left) || (now right). }
  destruct (starts_q y) eqn:S0; destruct (ends_q y) eqn:E0.
  - apply starts_q_inv in S0 as [y1 ->]. cbn [tl]. destruct y1 as [|c y1'] eqn:Ey.
    + exists [c_sq], [], [], [], []. cbn. repeat split; (now left) || (now right).
    + rewrite <- Ey in *. assert (E1 : ends_q y1 = true).
      { subst y1. unfold ends_q in *. cbn [rev] in *.
        destruct (rev y1' ++ [c]) eqn:R; [destruct (rev y1'); discriminate|]. cbn in E0 |- *. exact E0. }
      apply ends_q_inv in E1 as [y3 ->]. rewrite removelast_last.
      exists [c_sq], y3, [c_sq], [], []. cbn. rewrite app_nil_r. repeat split; (now left) || (now right).
  - apply starts_q_inv in S0 as [y1 ->]. cbn [tl].
    exists [c_sq], y1, [], [], [c_sq]. cbn. rewrite app_nil_r. repeat split; (now left) || (now right).
  - apply ends_q_inv in E0 as [y2 ->]. rewrite removelast_last.
    exists [], y2, [c_sq], [c_sq], []. cbn. rewrite app_nil_r. repeat split; (now left) || (now right).
  - exists [], y, [], [c_sq], [c_sq]. cbn. rewrite app_nil_r. repeat split; (now left) || (now right).
Qed.

(* a function of strings that ignores quote characters at the ends agrees on y and wrap_quotes y *)
Lemma wrap_quotes_inv {T} (F : str -> T) :
  (forall x, F (c_sq :: x) = F x) -> (forall x, F (x ++ [c_sq]) = F x) ->
  forall y, F (wrap_quotes y) = F y.
Proof.
  intros Hl Hr y. destruct (wrap_quotes_shape y) as (a & core & b & a' & b' & -> & -> & Ha & Hb & Ha' & Hb').
  assert (L : forall p x, qs p -> F (p ++ x) = F x) by (intros p x [-> | ->]; [reflexivity|apply Hl]).
  assert (R : forall p x, qs p -> F (x ++ p) = F x) by (intros p x [-> | ->]; [now rewrite app_nil_r|apply Hr]).
  rewrite (L a'), (L a) by assumption. rewrite (R b'), (R b) by assumption. reflexivity.
Qed.

(* ---------- the guard [safe] ---------- *)
Definition neutral (c : char) : bool := negb (N.eqb c c_comma || N.eqb c c_lp || N.eqb c c_rp).

Lemma safe_neutral c d r : neutral c = true -> safe d (c :: r) = safe d r.
Proof.
  unfold neutral. intros H. apply negb_true_iff in H. apply orb_false_iff in H as [H Hr]. apply orb_false_iff in H as [Hc Hl].
  cbn [safe]. now rewrite Hc, Hl, Hr.
Qed.

Lemma safe_app a : forall d b, safe d (a ++ b) = match safe d a with Some d' => safe d' b | None => None end.
Proof.
  induction a as [|c a IH]; intros d b; [reflexivity|]. cbn [app safe].
  destruct (N.eqb c c_comma); [destruct d; [reflexivity|apply IH]|].
  destruct (N.eqb c c_lp); [apply IH|].
  destruct (N.eqb c c_rp); [destruct d; [reflexivity|apply IH]|apply IH].
Qed.

Lemma safe_snoc_neutral c d x : neutral c = true -> safe d (x ++ [c]) = safe d x.
Proof. intros H. rewrite safe_app. destruct (safe d x); [|reflexivity]. now rewrite safe_neutral. Qed.

Lemma safe_esc s : forall d, safe d (esc s) = safe d s.
Proof.
  induction s as [|c s IH]; intros d; [reflexivity|]. cbn [esc]. destruct (N.eqb c c_sq) eqn:E.
  - apply N.eqb_eq in E; subst c. rewrite !safe_neutral by reflexivity. apply IH.
  - cbn [safe]. destruct (N.eqb c c_comma); [destruct d; [reflexivity|apply IH]|].
    destruct (N.eqb c c_lp); [apply IH|]. destruct (N.eqb c c_rp); [destruct d; [reflexivity|apply IH]|apply IH].
Qed.

Lemma safe_dollar_esc s : forall d, safe d (dollar_esc s) = safe d s.
Proof.
  induction s as [|c s IH]; intros d; [reflexivity|]. cbn [dollar_esc]. destruct (N.eqb c c_dollar) eqn:E.
  - apply N.eqb_eq in E; subst c. rewrite !safe_neutral by reflexivity. apply IH.
  - cbn [safe]. destruct (N.eqb c c_comma); [destruct d; [reflexivity|apply IH]|].
    destruct (N.eqb c c_lp); [apply IH|]. destruct (N.eqb c c_rp); [destruct d; [reflexivity|apply IH]|apply IH].
Qed.

Lemma safe_comma_esc s : forall d, safe d (comma_esc s) = safe d s.
Proof.
  induction s as [|c s IH]; intros d; [reflexivity|]. cbn [comma_esc]. destruct (N.eqb c c_comma) eqn:E.
  - apply N.eqb_eq in E; subst c. rewrite (safe_neutral c_dollar) by reflexivity.
    cbn [safe]. change (N.eqb c_comma c_comma) with true. cbn iota. destruct d; [reflexivity|apply IH].
  - cbn [safe]. rewrite E.
    destruct (N.eqb c c_lp); [apply IH|]. destruct (N.eqb c c_rp); [destruct d; [reflexivity|apply IH]|apply IH].
Qed.

Lemma safe_wrap d y : safe d (wrap_quotes y) = safe d y.
Proof.
  apply (wrap_quotes_inv (safe d)); intros x; [now apply safe_neutral|now apply safe_snoc_neutral].
Qed.

Section Q.
Variable uw : char -> bool.

Lemma quote_cases w : quote uw w = w \/ quote uw w = wrap_quotes (esc w).
Proof.
  unfold quote, quote_bit, inner_quote_info. destruct w as [|c w]; [right; reflexivity|].
  destruct (existsb (posix_bad uw) (c :: w)); cbn [fst]; [now right|now left].
Qed.

Lemma safe_quote d w : safe d (quote uw w) = safe d w.
Proof. destruct (quote_cases w) as [-> | ->]; [reflexivity|]. now rewrite safe_wrap, safe_esc. Qed.

Definition enc (w : str) : str := comma_esc (dollar_esc (quote uw w)).

Lemma safe_enc d w : safe d (enc w) = safe d w.
Proof. unfold enc. now rewrite safe_comma_esc, safe_dollar_esc, safe_quote. Qed.

(* ---------- newlines ---------- *)
Lemma has_nl_app a b : has_nl (a ++ b) = has_nl a || has_nl b.
Proof. unfold has_nl, mem_char. apply existsb_app. Qed.

Lemma has_nl_cons c a : has_nl (c :: a) = N.eqb c_nl c || has_nl a.
Proof. reflexivity. Qed.

Lemma has_nl_esc s : has_nl (esc s) = has_nl s.
Proof.
  induction s as [|c s IH]; [reflexivity|]. cbn [esc]. destruct (N.eqb c c_sq) eqn:E.
  - apply N.eqb_eq in E; subst c. rewrite !has_nl_cons, IH. reflexivity.
  - rewrite !has_nl_cons, IH. reflexivity.
Qed.

Lemma has_nl_wrap y : has_nl (wrap_quotes y) = has_nl y.
Proof.
  apply (wrap_quotes_inv has_nl); intros x; [reflexivity|]. rewrite has_nl_app. cbn. now rewrite orb_false_r.
Qed.

Lemma has_nl_quote w : has_nl (quote uw w) = has_nl w.
Proof. destruct (quote_cases w) as [-> | ->]; [reflexivity|]. now rewrite has_nl_wrap, has_nl_esc. Qed.

Lemma has_nl_join_sp l : forallb (fun x => negb (has_nl x)) l = true -> has_nl (join_sp l) = false.
Proof.
  induction l as [|x l IH]; intros H; [reflexivity|]. cbn [forallb] in H. apply andb_true_iff in H as [Hx Hl].
  apply negb_true_iff in Hx. destruct l as [|y l']; [exact Hx|].
  cbn [join_sp] in *. rewrite has_nl_app, Hx, has_nl_cons, (IH Hl). reflexivity.
Qed.

Lemma has_nl_join ws : forallb (fun x => negb (has_nl x)) ws = true -> has_nl (join uw ws) = false.
Proof.
  intros H. unfold join. apply has_nl_join_sp. rewrite forallb_forall in *. intros x Hx.
  apply in_map_iff in Hx as [w [<- Hw]]. rewrite has_nl_quote. now apply H.
Qed.
End Q.

(* ---------- expansion of an argument: comma_esc (dollar_esc s) is read back as s ---------- *)
Definition cd (s : str) : str := comma_esc (dollar_esc s).

Lemma cd_app a b : cd (a ++ b) = cd a ++ cd b.
Proof.
  unfold cd. rewrite dollar_esc_app. generalize (dollar_esc a) (dollar_esc b). intros x y.
  induction x as [|c x IH]; [reflexivity|]. cbn [comma_esc app]. destruct (N.eqb c c_comma); now rewrite IH.
Qed.

Lemma cd_join l : cd (join_sp l) = join_sp (map cd l).
Proof.
  induction l as [|x l IH]; [reflexivity|]. destruct l as [|y l']; [reflexivity|].
  change (join_sp (x :: y :: l')) with (x ++ c_sp :: join_sp (y :: l')).
  change (map cd (x :: y :: l')) with (cd x :: map cd (y :: l')).
  change (join_sp (cd x :: map cd (y :: l'))) with (cd x ++ c_sp :: join_sp (map cd (y :: l'))).
  rewrite cd_app. change (cd (c_sp :: join_sp (y :: l'))) with (c_sp :: cd (join_sp (y :: l'))).
  now rewrite IH.
Qed.

Lemma cexp_cd v s : forall rest, v [c_comma] = [c_comma] ->
  cexp v XN (cd s ++ rest) = option_map (app s) (cexp v XN rest).
Proof.
  induction s as [|c s IH]; intros rest Hv.
  - cbn. destruct (cexp v XN rest); reflexivity.
  - unfold cd in *. cbn [dollar_esc]. destruct (N.eqb c c_dollar) eqn:E.
    + apply N.eqb_eq in E; subst c. cbn [comma_esc]. change (N.eqb c_dollar c_comma) with false. cbn iota.
      cbn [app cexp]. change (N.eqb c_dollar c_dollar) with true. cbn iota. rewrite IH by assumption.
      destruct (cexp v XN rest); reflexivity.
    + cbn [comma_esc]. destruct (N.eqb c c_comma) eqn:Ec.
      * apply N.eqb_eq in Ec; subst c. cbn [app cexp]. change (N.eqb c_dollar c_dollar) with true. cbn iota.
        change (N.eqb c_comma c_dollar) with false. change (N.eqb c_comma c_lp) with false.
        change ((ref_char c_comma && (c_comma <? 128)) || N.eqb c_comma c_comma) with true. cbn iota.
        rewrite IH, Hv by assumption. destruct (cexp v XN rest); reflexivity.
      * cbn [app cexp]. rewrite E, IH by assumption. destruct (cexp v XN rest); reflexivity.
Qed.

Lemma cexpand_cd v s : v [c_comma] = [c_comma] -> cexpand v (cd s) = Some s.
Proof.
  intros Hv. unfold cexpand. rewrite <- (app_nil_r (cd s)), cexp_cd by assumption. cbn. now rewrite app_nil_r.
Qed.

(* in the body: dollar_esc only *)
Lemma cexp_dollar_esc v s : forall rest,
  cexp v XN (dollar_esc s ++ rest) = option_map (app s) (cexp v XN rest).
Proof.
  induction s as [|c s IH]; intros rest.
  - cbn. destruct (cexp v XN rest); reflexivity.
  - cbn [dollar_esc]. destruct (N.eqb c c_dollar) eqn:E.
    + apply N.eqb_eq in E; subst c. cbn [app cexp]. change (N.eqb c_dollar c_dollar) with true. cbn iota.
      rewrite IH. destruct (cexp v XN rest); reflexivity.
    + cbn [app cexp]. rewrite E, IH. destruct (cexp v XN rest); reflexivity.
Qed.

(* ---------- finding the end of the call and splitting, along safe text ---------- *)
Lemma call_end_safe x : forall d d' r, safe d x = Some d' ->
  call_end d (x ++ r) = option_map (fun p => (x ++ fst p, snd p)) (call_end d' r).
Proof.
  induction x as [|c x IH]; intros d d' r H.
  - cbn in H. inversion H; subst. cbn [app]. destruct (call_end d' r) as [[a b]|]; reflexivity.
  - cbn [safe] in H. cbn [app call_end].
    destruct (N.eqb c c_comma) eqn:Ec.
    + apply N.eqb_eq in Ec; subst c. change (N.eqb c_comma c_rp) with false. change (N.eqb c_comma c_lp) with false.
      cbn iota. destruct d as [|k]; [discriminate|]. rewrite (IH _ _ r H).
      destruct (call_end d' r) as [[a b]|]; reflexivity.
    + destruct (N.eqb c c_lp) eqn:El.
      * apply N.eqb_eq in El; subst c. change (N.eqb c_lp c_rp) with false. cbn iota. rewrite (IH _ _ r H).
        destruct (call_end d' r) as [[a b]|]; reflexivity.
      * destruct (N.eqb c c_rp) eqn:Er.
        -- destruct d as [|k]; [discriminate|]. rewrite (IH _ _ r H). destruct (call_end d' r) as [[a b]|]; reflexivity.
        -- rewrite (IH _ _ r H). destruct (call_end d' r) as [[a b]|]; reflexivity.
Qed.

Lemma split_go_safe x : forall d d' r, safe d x = Some d' ->
  split_go d (x ++ r) = (x ++ fst (split_go d' r), snd (split_go d' r)).
Proof.
  induction x as [|c x IH]; intros d d' r H.
  - cbn in H. inversion H; subst. cbn [app]. destruct (split_go d' r); reflexivity.
  - cbn [safe] in H. cbn [app split_go].
    destruct (N.eqb c c_comma) eqn:Ec.
    + apply N.eqb_eq in Ec; subst c. destruct d as [|k]; [discriminate|].
      change (Nat.eqb (S k) 0) with false. cbn [andb]. cbv iota.
      change (N.eqb c_comma c_lp) with false. change (N.eqb c_comma c_rp) with false. cbv iota.
      rewrite (IH _ _ r H). reflexivity.
    + cbn [andb]. cbv iota. destruct (N.eqb c c_lp) eqn:El.
      * rewrite (IH _ _ r H). reflexivity.
      * destruct (N.eqb c c_rp) eqn:Er.
        -- destruct d as [|k]; [discriminate|]. cbn [Nat.pred]. rewrite (IH _ _ r H). reflexivity.
        -- rewrite (IH _ _ r H). reflexivity.
Qed.

Definition comma_pieces (pieces : list str) : str := concat (map (fun a => c_comma :: a) pieces).

Lemma split_pieces pieces : forall p,
  safe 0 p = Some 0%nat -> Forall (fun a => safe 0 a = Some 0%nat) pieces ->
  split_go 0 (p ++ comma_pieces pieces) = (p, pieces).
Proof.
  induction pieces as [|a pieces IH]; intros p Hp Hall.
  - unfold comma_pieces. cbn [map concat]. rewrite (split_go_safe p 0 0 [] Hp). cbn. now rewrite app_nil_r.
  - inversion Hall as [|? ? Ha Hrest]; subst.
    unfold comma_pieces. cbn [map concat]. fold (comma_pieces pieces).
    rewrite (split_go_safe p 0 0 _ Hp).
    change (split_go 0 ((c_comma :: a) ++ comma_pieces pieces))
      with (let q := split_go 0 (a ++ comma_pieces pieces) in (@nil char, fst q :: snd q)).
    rewrite (IH a Ha Hrest). cbn. now rewrite app_nil_r.
Qed.

Lemma call_end_pieces pieces : forall p rest,
  safe 0 p = Some 0%nat -> Forall (fun a => safe 0 a = Some 0%nat) pieces ->
  call_end 0 (p ++ comma_pieces pieces ++ c_rp :: rest) = Some (p ++ comma_pieces pieces, rest).
Proof.
  induction pieces as [|a pieces IH]; intros p rest Hp Hall.
  - unfold comma_pieces. cbn [map concat app]. rewrite (call_end_safe p 0 0 _ Hp). cbn. now rewrite app_nil_r.
  - inversion Hall as [|? ? Ha Hrest]; subst.
    unfold comma_pieces. cbn [map concat]. fold (comma_pieces pieces).
    rewrite (call_end_safe p 0 0 _ Hp). rewrite <- app_assoc.
    change ((c_comma :: a) ++ comma_pieces pieces ++ c_rp :: rest) with (c_comma :: (a ++ comma_pieces pieces ++ c_rp :: rest)).
    change (call_end 0 (c_comma :: a ++ comma_pieces pieces ++ c_rp :: rest))
      with (option_map (fun q => (c_comma :: fst q, snd q)) (call_end 0 (a ++ comma_pieces pieces ++ c_rp :: rest))).
    rewrite (IH a rest Ha Hrest). cbn. reflexivity.
Qed.

Lemma safe_join_sp l : Forall (fun a => safe 0 a = Some 0%nat) l -> safe 0 (join_sp l) = Some 0%nat.
Proof.
  induction l as [|x l IH]; intros H; [reflexivity|]. inversion H as [|? ? Hx Hl]; subst.
  destruct l as [|y l']; [exact Hx|]. cbn [join_sp] in *. rewrite safe_app, Hx, safe_neutral by reflexivity. now apply IH.
Qed.

(* ---------- W: the text written for a call ---------- *)
Section WText.
Variable uw us : char -> bool.
Notation enc := (enc uw).

Lemma cat2_nil_l x : cat2 (Some ([], false)) x = x.
Proof. destruct x as [[t e]|]; reflexivity. Qed.

Lemma cat2_assoc a b c : cat2 (cat2 a b) c = cat2 a (cat2 b c).
Proof.
  destruct a as [[x e]|], b as [[y f]|], c as [[z g]|]; cbn; try reflexivity.
  now rewrite app_assoc, orb_assoc.
Qed.

Lemma write_jbos_app a : forall b syn m,
  write_jbos uw us (a ++ b) syn m = cat2 (write_jbos uw us a syn m) (write_jbos uw us b syn m).
Proof.
  induction a as [|x a IH]; intros b syn m; cbn [app write_jbos]; [now rewrite cat2_nil_l|].
  now rewrite IH, cat2_assoc.
Qed.

Lemma write_msyn data osyn quoted syn m :
  write uw us (MSyn data osyn quoted) syn m =
  match write_jbos uw us data (match osyn with Some x => x | None => syn end) (if quoted then QNone else m) with
  | Some (t, e) => Some (if quoted then wrap_quotes t else t, e)
  | None => None
  end.
Proof.
  cbn [write].
  set (syn' := match osyn with Some x => x | None => syn end). set (m' := if quoted then QNone else m).
  match goal with |- match ?G data with _ => _ end = _ =>
    assert (H : forall l, G l = write_jbos uw us l syn' m') by (induction l as [|x l IH]; [reflexivity|cbn [write_jbos]; now rewrite <- IH])
  end.
  now rewrite H.
Qed.

Definition tx (l : list mfrag) : option str := option_map fst (write_jbos uw us l SynFunction QInfo).

Lemma tx_app a b : tx (a ++ b) = match tx a, tx b with Some x, Some y => Some (x ++ y) | _, _ => None end.
Proof.
  unfold tx. rewrite write_jbos_app.
  destruct (write_jbos uw us a SynFunction QInfo) as [[x e]|], (write_jbos uw us b SynFunction QInfo) as [[y f]|]; reflexivity.
Qed.

Lemma tx_lit s : tx [MLit s] = Some s.
Proof. unfold tx. cbn. now rewrite app_nil_r. Qed.

Lemma tx_str w : has_nl w = false -> tx [MStr w] = Some (enc w).
Proof.
  intros H. unfold tx. cbn [write_jbos write shelly apply_q]. fold (quote uw w).
  destruct (quote_bit uw (BStr w)) as [qs0 e] eqn:Q. assert (Hq : qs0 = quote uw w) by (unfold quote; now rewrite Q). subst qs0.
  unfold escape_str. rewrite has_nl_quote, H. cbn. now rewrite app_nil_r.
Qed.

Definition word_fine (w : str) : bool := negb (has_nl w) && match w with [] => false | _ => true end.

Lemma filter_keep_app a b : filter keep_bit (a ++ b) = filter keep_bit a ++ filter keep_bit b.
Proof. apply filter_app. Qed.

Lemma tx_words ws : forallb word_fine ws = true ->
  tx (filter keep_bit (tween_sp (words_items ws))) = Some (join_sp (map enc ws)).
Proof.
  induction ws as [|w ws IH]; intros H; [reflexivity|].
  cbn [forallb] in H. apply andb_true_iff in H as [Hw Hws]. unfold word_fine in Hw. apply andb_true_iff in Hw as [Hn Hne].
  apply negb_true_iff in Hn. destruct w as [|c w']; [discriminate|]. set (w := c :: w') in *.
  destruct ws as [|w2 ws'].
  - cbn [words_items map tween_sp filter keep_bit]. subst w. cbn [keep_bit filter]. now apply tx_str.
  - change (tween_sp (words_items (w :: w2 :: ws'))) with ([MStr w] ++ [MLit [c_sp]] ++ tween_sp (words_items (w2 :: ws'))).
    rewrite !filter_keep_app, !tx_app. subst w. cbn [filter keep_bit].
    rewrite tx_str, tx_lit, (IH Hws) by assumption. reflexivity.
Qed.

Lemma tx_args args : forallb (forallb word_fine) args = true ->
  tx (filter keep_bit (concat (map (fun x => MLit [c_comma] :: tween_sp x) (map words_items args)))) =
  Some (comma_pieces (map (fun a => join_sp (map enc a)) args)).
Proof.
  induction args as [|a args IH]; intros H; [reflexivity|].
  cbn [forallb] in H. apply andb_true_iff in H as [Ha Hr].
  cbn [map concat]. change (MLit [c_comma] :: tween_sp (words_items a)) with ([MLit [c_comma]] ++ tween_sp (words_items a)).
  rewrite <- app_assoc, !filter_keep_app, !tx_app. cbn [filter keep_bit]. rewrite tx_lit, (tx_words a Ha), (IH Hr).
  reflexivity.
Qed.

Definition call_text (fname : str) (args : list (list str)) : str :=
  call_open ++ c_sp :: enc fname ++ comma_pieces (map (fun a => join_sp (map enc a)) args) ++ [c_rp].

Lemma write_call fname args :
  word_fine (var_name us fname) = true -> forallb (forallb word_fine) args = true ->
  exists e, write uw us (call_frag us fname (map words_items args)) SynShell QInfo = Some (call_text (var_name us fname) args, e).
Proof.
  intros Hf Ha. unfold call_frag, func_frag. rewrite write_msyn. cbv iota.
  set (f := var_name us fname) in *.
  assert (T : tx (filter keep_bit (MLit (c_dollar :: c_lp :: [99; 97; 108; 108]) ::
                  tween_args ([[MStr f]] :: map words_items args) ++ [MLit [c_rp]])) = Some (call_text f args)).
  { unfold tween_args. cbn [tween_sp].
    change (MLit (c_dollar :: c_lp :: [99; 97; 108; 108]) :: (MLit [c_sp] :: [MStr f] ++
              concat (map (fun x => MLit [c_comma] :: tween_sp x) (map words_items args))) ++ [MLit [c_rp]])
      with ([MLit call_open] ++ [MLit [c_sp]] ++ [MStr f] ++
              concat (map (fun x => MLit [c_comma] :: tween_sp x) (map words_items args)) ++ [MLit [c_rp]]).
    rewrite !filter_keep_app, !tx_app.
    unfold word_fine in Hf. apply andb_true_iff in Hf as [Hn Hne]. apply negb_true_iff in Hn.
    destruct f as [|c f'] eqn:Ef; [discriminate|]. rewrite <- Ef in *.
    assert (K : filter keep_bit [MStr f] = [MStr f]) by (rewrite Ef; reflexivity). rewrite K.
    cbn [filter keep_bit]. rewrite !tx_lit, tx_str, (tx_args args Ha) by assumption. unfold call_text. reflexivity. }
  unfold tx in T. destruct (write_jbos uw us _ SynFunction QInfo) as [[t e]|]; [|discriminate].
  cbn in T. inversion T; subst t. now exists e.
Qed.

(* ---------- W: the body lines ---------- *)
Definition item_text (b : bitem) : str :=
  match b with BW w => dollar_esc (quote uw w) | BP i => [c_dollar; digit_char i] end.
Definition item_fine (b : bitem) : bool := match b with BW w => negb (has_nl w) | BP _ => true end.

Lemma write_jbos_item b : item_fine b = true ->
  exists e, write_jbos uw us (bitem_frag b) SynShell QInfo = Some (item_text b, e).
Proof.
  destruct b as [w|i]; intros H; cbn [bitem_frag item_text].
  - rewrite write_jbos_word. unfold escape_str. cbn in H. apply negb_true_iff in H. rewrite has_nl_quote, H. eauto.
  - cbn. eauto.
Qed.

Lemma write_each_items items : forallb item_fine items = true ->
  write_each uw us (map bitem_frag items) SynShell = Some (join_sp (map item_text items)).
Proof.
  induction items as [|b items IH]; intros H; [reflexivity|].
  cbn [forallb] in H. apply andb_true_iff in H as [Hb Hr].
  destruct (write_jbos_item b Hb) as [e He].
  destruct items as [|b2 items'].
  - cbn [map write_each]. now rewrite He.
  - change (write_each uw us (map bitem_frag (b :: b2 :: items')) SynShell)
      with (match write_jbos uw us (bitem_frag b) SynShell QInfo, write_each uw us (map bitem_frag (b2 :: items')) SynShell with
            | Some (t, _), Some u => Some (t ++ c_sp :: u) | _, _ => None end).
    rewrite He, (IH Hr). reflexivity.
Qed.

Definition line_text (l : bool * list bitem) : str :=
  (if fst l then [c_at] else []) ++ join_sp (map item_text (snd l)).

Lemma write_body_lines_ok body : forallb (fun l => forallb item_fine (snd l)) body = true ->
  write_body_lines uw us (map body_line_items body) = Some (map line_text body).
Proof.
  induction body as [|l body IH]; intros H; [reflexivity|].
  cbn [forallb] in H. apply andb_true_iff in H as [Hl Hr].
  cbn [map write_body_lines]. rewrite (IH Hr). unfold write_body_line, body_line_items. cbn [fst snd].
  rewrite (write_each_items _ Hl). unfold line_text. destruct (fst l); reflexivity.
Qed.
End WText.

(* ---------- R: expansion of the body under the bindings of the call ---------- *)
Section Body.
Variable uw : char -> bool.

Definition param_ok (nargs i : nat) : bool := Nat.leb 1 i && Nat.leb i 9 && Nat.leb i nargs.

Lemma index_digit i : Nat.leb i 9 = true -> index_of_name [digit_char i] = Some i.
Proof.
  intros H. do 10 (destruct i as [|i]; [reflexivity|]). discriminate.
Qed.

Lemma ref_digit i : Nat.leb i 9 = true ->
  N.eqb (digit_char i) c_dollar = false /\ N.eqb (digit_char i) c_lp = false /\ ref_char (digit_char i) && (digit_char i <? 128) = true.
Proof.
  intros H. do 10 (destruct i as [|i]; [repeat split; reflexivity|]). discriminate.
Qed.

Lemma bind_param v f args i : param_ok (length args) i = true ->
  bind v (f :: map (join uw) args) [digit_char i] = join uw (nth (Nat.pred i) args []).
Proof.
  unfold param_ok. intros H. apply andb_true_iff in H as [H H3]. apply andb_true_iff in H as [H1 H2].
  unfold bind. rewrite (index_digit i H2). destruct i as [|j]; [discriminate|]. cbn [nth_error Nat.pred].
  apply Nat.leb_le in H3.
  rewrite (nth_error_nth' (map (join uw) args) (join uw [])) by (rewrite map_length; lia).
  now rewrite map_nth.
Qed.

Definition item_exp (args : list (list str)) (b : bitem) : str := join uw (bitem_words args b).
Definition item_ok (nargs : nat) (b : bitem) : bool :=
  match b with BW w => negb (has_nl w) | BP i => param_ok nargs i end.

Lemma cexp_item v f args b rest : item_ok (length args) b = true ->
  cexp (bind v (f :: map (join uw) args)) XN (item_text uw b ++ rest) =
  option_map (app (item_exp args b)) (cexp (bind v (f :: map (join uw) args)) XN rest).
Proof.
  destruct b as [w|i]; intros H; cbn [item_text item_exp bitem_words].
  - rewrite cexp_dollar_esc. reflexivity.
  - cbn [item_ok] in H. pose proof H as H'. unfold param_ok in H'. apply andb_true_iff in H' as [H' _]. apply andb_true_iff in H' as [_ H9].
    destruct (ref_digit i H9) as (E1 & E2 & E3).
    cbn [app cexp]. change (N.eqb c_dollar c_dollar) with true. cbv iota. rewrite E1, E2, E3. cbn [orb].
    rewrite (bind_param v f args i H). reflexivity.
Qed.

Lemma cexp_items v f args items : forall rest, forallb (item_ok (length args)) items = true ->
  cexp (bind v (f :: map (join uw) args)) XN (join_sp (map (item_text uw) items) ++ rest) =
  option_map (app (join_sp (map (item_exp args) items))) (cexp (bind v (f :: map (join uw) args)) XN rest).
Proof.
  induction items as [|b items IH]; intros rest H.
  - cbn. destruct (cexp _ XN rest); reflexivity.
  - cbn [forallb] in H. apply andb_true_iff in H as [Hb Hr]. destruct items as [|b2 items'].
    + cbn [map join_sp]. now apply cexp_item.
    + cbn [map join_sp] in *. rewrite <- app_assoc, cexp_item by assumption. cbn [app cexp].
      change (N.eqb c_sp c_dollar) with false. cbv iota. rewrite (IH rest Hr).
      destruct (cexp _ XN rest); cbn; [|reflexivity]. now rewrite <- app_assoc.
Qed.

Definition line_exp (args : list (list str)) (l : bool * list bitem) : str :=
  (if fst l then [c_at] else []) ++ join_sp (map (item_exp args) (snd l)).

Lemma cexp_line v f args l rest : forallb (item_ok (length args)) (snd l) = true ->
  cexp (bind v (f :: map (join uw) args)) XN (line_text uw l ++ rest) =
  option_map (app (line_exp args l)) (cexp (bind v (f :: map (join uw) args)) XN rest).
Proof.
  intros H. unfold line_text, line_exp. destruct (fst l); cbn [app].
  - cbn [cexp]. change (N.eqb c_at c_dollar) with false. cbv iota. rewrite cexp_items by assumption.
    destruct (cexp _ XN rest); reflexivity.
  - now apply cexp_items.
Qed.

Lemma cexp_body v f args body : forallb (fun l => forallb (item_ok (length args)) (snd l)) body = true ->
  cexpand (bind v (f :: map (join uw) args)) (join_nl (map (line_text uw) body)) = Some (join_nl (map (line_exp args) body)).
Proof.
  unfold cexpand. induction body as [|l body IH]; intros H; [reflexivity|].
  cbn [forallb] in H. apply andb_true_iff in H as [Hl Hr]. destruct body as [|l2 body'].
  - cbn [map join_nl]. rewrite <- (app_nil_r (line_text uw l)), cexp_line by assumption. cbn. now rewrite app_nil_r.
  - cbn [map join_nl] in *. rewrite cexp_line by assumption. cbn [cexp].
    change (N.eqb c_nl c_dollar) with false. cbv iota. rewrite (IH Hr). reflexivity.
Qed.

(* ---------- lines ---------- *)
Lemma split_nl_line a : has_nl a = false -> forall r, split_nl (a ++ c_nl :: r) = a :: split_nl r.
Proof.
  induction a as [|c a IH]; intros H r.
  - cbn. reflexivity.
  - rewrite has_nl_cons in H. apply orb_false_iff in H as [Hc Ha]. rewrite N.eqb_sym in Hc.
    cbn [app split_nl]. rewrite Hc, (IH Ha). reflexivity.
Qed.

Lemma split_nl_last a : has_nl a = false -> split_nl a = [a].
Proof.
  induction a as [|c a IH]; intros H; [reflexivity|].
  rewrite has_nl_cons in H. apply orb_false_iff in H as [Hc Ha]. rewrite N.eqb_sym in Hc.
  cbn [split_nl]. rewrite Hc, (IH Ha). reflexivity.
Qed.

Lemma split_join_nl ls : ls <> [] -> forallb (fun a => negb (has_nl a)) ls = true -> split_nl (join_nl ls) = ls.
Proof.
  induction ls as [|a ls IH]; intros Hne H; [congruence|].
  cbn [forallb] in H. apply andb_true_iff in H as [Ha Hr]. apply negb_true_iff in Ha.
  destruct ls as [|b ls'].
  - cbn [join_nl]. now apply split_nl_last.
  - cbn [join_nl] in *. rewrite split_nl_line by assumption. rewrite IH by (congruence || assumption). reflexivity.
Qed.

Lemma has_nl_item_exp args b : Forall (fun a => forallb (fun w => negb (has_nl w)) a = true) args ->
  item_ok (length args) b = true -> has_nl (item_exp args b) = false.
Proof.
  intros Hargs H. unfold item_exp. apply has_nl_join. destruct b as [w|i]; cbn [bitem_words].
  - cbn in H |- *. now rewrite H.
  - destruct (Nat.ltb (Nat.pred i) (length args)) eqn:L.
    + apply Nat.ltb_lt in L. rewrite Forall_forall in Hargs. apply Hargs. now apply nth_In.
    + apply Nat.ltb_ge in L. now rewrite nth_overflow.
Qed.

Lemma has_nl_line_exp args l : Forall (fun a => forallb (fun w => negb (has_nl w)) a = true) args ->
  forallb (item_ok (length args)) (snd l) = true -> has_nl (line_exp args l) = false.
Proof.
  intros Hargs H. unfold line_exp. rewrite has_nl_app.
  assert (has_nl (join_sp (map (item_exp args) (snd l))) = false) as ->.
  { apply has_nl_join_sp. rewrite forallb_forall in *. intros x Hx. apply in_map_iff in Hx as [b [<- Hb]].
    rewrite has_nl_item_exp; auto. }
  destruct (fst l); reflexivity.
Qed.

(* ---------- sh: a blank-separated sequence of joined word lists ---------- *)
Lemma lex_joined wss : Sh.lex uw false false [] (join_sp (map (join uw) wss)) = Some (map (wtok uw) (concat wss)).
Proof.
  induction wss as [|a wss IH]; [reflexivity|]. destruct wss as [|b wss'].
  - cbn [map join_sp concat]. rewrite app_nil_r. pose proof (join_lex uw a) as H. unfold sh_lex in H. exact H.
  - change (join_sp (map (join uw) (a :: b :: wss'))) with (join uw a ++ c_sp :: join_sp (map (join uw) (b :: wss'))).
    rewrite lex_join_then, IH. cbn [option_map concat]. now rewrite <- map_app.
Qed.

Lemma sh_words_joined wss : sh_words uw (join_sp (map (join uw) wss)) = Some (concat wss).
Proof. unfold sh_words, sh_lex. rewrite lex_joined. apply words_only_wtok. Qed.

(* the recipe prefix: the first item of every line is a plain word whose quoted form does not begin with one *)
Definition line_head_ok (l : bool * list bitem) : bool :=
  match snd l with BW w :: _ => first_ok is_prefix_char (quote uw w) | _ => false end.

Lemma quote_nonempty w : quote uw w <> [].
Proof.
  unfold quote, quote_bit, inner_quote_info. destruct w as [|c w']; [discriminate|].
  destruct (existsb (posix_bad uw) (c :: w')); cbn [fst]; [|discriminate].
  destruct (wrap_first (c :: w')) as [d [r [E _]]]. congruence.
Qed.

Lemma drop_prefix_line args l : line_head_ok l = true ->
  drop_prefix (line_exp args l) = join_sp (map (item_exp args) (snd l)).
Proof.
  unfold line_head_ok, line_exp. destruct (snd l) as [|[w|i] items]; try discriminate. intros H.
  assert (D : drop_prefix (join_sp (map (item_exp args) (BW w :: items))) = join_sp (map (item_exp args) (BW w :: items))).
  { apply drop_prefix_ok. cbn [map]. unfold item_exp at 1. cbn [bitem_words]. unfold join at 1. cbn [map join_sp].
    destruct (quote uw w) as [|c q] eqn:Q; [now destruct (quote_nonempty w)|].
    destruct (map (item_exp args) items); cbn in H |- *; exact H. }
  destruct (fst l); [|exact D]. cbn [app]. change (drop_prefix (c_at :: ?x)) with (drop_prefix x). exact D.
Qed.
End Body.

(* ---------- the function name ---------- *)
Section Name.
Variable uw : char -> bool.

Definition fname_ok (f : str) : bool :=
  match f with [] => false | _ => true end &&
  forallb (fun c => negb (posix_bad uw c) && negb (N.eqb c c_comma)) f.

Lemma fname_chars f : fname_ok f = true ->
  f <> [] /\ existsb (posix_bad uw) f = false /\ forallb (fun c => negb (posix_bad uw c) && negb (N.eqb c c_comma)) f = true.
Proof.
  unfold fname_ok. intros H. apply andb_true_iff in H as [Hne Hall]. split; [destruct f; [discriminate|congruence]|]. split; [|exact Hall].
  induction f as [|c f IH]; [reflexivity|]. cbn [forallb existsb] in *. apply andb_true_iff in Hall as [Hc Hr].
  apply andb_true_iff in Hc as [Hb _]. apply negb_true_iff in Hb. rewrite Hb. destruct f; [reflexivity|]. now apply IH.
Qed.

Lemma fname_quote f : fname_ok f = true -> quote uw f = f.
Proof.
  intros H. destruct (fname_chars f H) as (Hne & Hb & _). unfold quote, quote_bit, inner_quote_info.
  destruct f; [congruence|]. now rewrite Hb.
Qed.

Lemma notbad_facts c : posix_bad uw c = false ->
  N.eqb c c_dollar = false /\ N.eqb c c_lp = false /\ N.eqb c c_rp = false /\ is_mk_blank c = false /\ N.eqb c c_nl = false.
Proof.
  intros H. repeat split; try (apply (notbad_neq uw c _ H); reflexivity).
  pose proof (notbad_blank uw c H) as B. unfold is_blank in B. unfold is_mk_blank. exact B.
Qed.

Lemma fname_plain f : forallb (fun c => negb (posix_bad uw c) && negb (N.eqb c c_comma)) f = true ->
  cd f = f /\ safe 0 f = Some 0%nat /\ has_nl f = false /\ drop_trailing_blanks f = f.
Proof.
  induction f as [|c f IH]; intros H; [repeat split; reflexivity|].
  cbn [forallb] in H. apply andb_true_iff in H as [Hc Hr]. apply andb_true_iff in Hc as [Hb Hcm].
  apply negb_true_iff in Hb, Hcm. destruct (notbad_facts c Hb) as (E1 & E2 & E3 & E4 & E5).
  destruct (IH Hr) as (I1 & I2 & I3 & I4). repeat split.
  - unfold cd in *. cbn [dollar_esc]. rewrite E1. cbn [comma_esc]. rewrite Hcm. now rewrite I1.
  - cbn [safe]. now rewrite Hcm, E2, E3.
  - rewrite has_nl_cons, I3, N.eqb_sym, E5. reflexivity.
  - cbn [drop_trailing_blanks]. rewrite I4. destruct f; [now rewrite E4|reflexivity].
Qed.

Lemma fname_trim f : fname_ok f = true -> trim_blanks f = f.
Proof.
  intros H. destruct (fname_chars f H) as (Hne & _ & Hall). unfold trim_blanks.
  assert (drop_blanks f = f) as ->.
  { destruct f as [|c f']; [reflexivity|]. cbn [forallb] in Hall. apply andb_true_iff in Hall as [Hc _].
    apply andb_true_iff in Hc as [Hb _]. apply negb_true_iff in Hb. destruct (notbad_facts c Hb) as (_ & _ & _ & E4 & _).
    cbn. now rewrite E4. }
  apply (fname_plain f Hall).
Qed.
End Name.

Lemma strip_prefix_app p x : strip_prefix p (p ++ x) = Some x.
Proof. induction p as [|a p IH]; [reflexivity|]. cbn. now rewrite N.eqb_refl. Qed.

Lemma map_opt_all {T U} (f : T -> option U) (g : T -> U) l : (forall x, In x l -> f x = Some (g x)) -> map_opt f l = Some (map g l).
Proof.
  induction l as [|x l IH]; intros H; [reflexivity|]. cbn [map_opt map]. rewrite (H x (or_introl eq_refl)), IH; [reflexivity|].
  intros y Hy. apply H. now right.
Qed.

(* ---------- channel F ---------- *)
Section Main.
Variable uw us : char -> bool.

Definition args_ok (args : list (list str)) : bool := forallb (forallb call_word_ok) args.
Definition body_line_ok (nargs : nat) (l : bool * list bitem) : bool :=
  line_head_ok uw l && forallb (item_ok nargs) (snd l).

Lemma call_word_fine w : call_word_ok w = true -> word_fine w = true /\ safe 0 w = Some 0%nat /\ has_nl w = false.
Proof.
  unfold call_word_ok, word_fine. intros H. apply andb_true_iff in H as [H Hs]. apply andb_true_iff in H as [Hn Hne].
  rewrite Hn, Hne. split; [reflexivity|]. split; [|now apply negb_true_iff in Hn].
  destruct (safe 0 w) as [[|k]|]; try discriminate. reflexivity.
Qed.

Theorem call_arg_roundtrip v func args body :
  fname_ok uw (var_name us func) = true ->
  args_ok args = true ->
  v [c_comma] = [c_comma] ->
  body <> [] -> forallb (body_line_ok (length args)) body = true ->
  exists text e body_lines,
    write uw us (call_frag us func (map words_items args)) SynShell QInfo = Some (text, e) /\
    write_body_lines uw us (map body_line_items body) = Some body_lines /\
    forall defs, defs (var_name us func) = Some (join_nl body_lines) ->
      exists lines, recipe_call_lines v defs text = Some lines /\
        Forall2 (fun l line => sh_words uw line = Some (line_words args l)) body lines.
Proof.
  intros Hf Hargs Hv Hne Hbody. set (f := var_name us func) in *.
  destruct (fname_chars uw f Hf) as (Hfne & Hfb & Hfall).
  destruct (fname_plain uw f Hfall) as (Hcd & Hsafe & Hnl & _).
  (* facts about the argument words *)
  assert (Afine : forallb (forallb (word_fine)) args = true).
  { unfold args_ok in Hargs. rewrite forallb_forall in *. intros a Ha. specialize (Hargs a Ha).
    rewrite forallb_forall in *. intros w Hw. now apply call_word_fine, Hargs. }
  assert (Anl : Forall (fun a => forallb (fun w => negb (has_nl w)) a = true) args).
  { apply Forall_forall. intros a Ha. unfold args_ok in Hargs. rewrite forallb_forall in Hargs. specialize (Hargs a Ha).
    rewrite forallb_forall in *. intros w Hw. destruct (call_word_fine w (Hargs w Hw)) as (_ & _ & N). now rewrite N. }
  assert (Asafe : Forall (fun p => safe 0 p = Some 0%nat) (map (fun a => join_sp (map (enc uw) a)) args)).
  { apply Forall_forall. intros p Hp. apply in_map_iff in Hp as [a [<- Ha]]. apply safe_join_sp.
    apply Forall_forall. intros x Hx. apply in_map_iff in Hx as [w [<- Hw]]. rewrite safe_enc.
    unfold args_ok in Hargs. rewrite forallb_forall in Hargs. specialize (Hargs a Ha). rewrite forallb_forall in Hargs.
    now apply call_word_fine, Hargs. }
  assert (Ffine : word_fine f = true).
  { unfold word_fine. rewrite Hnl. destruct f; [congruence|reflexivity]. }
  assert (Bfine : forallb (fun l => forallb (item_fine) (snd l)) body = true).
  { rewrite forallb_forall in *. intros l Hl. specialize (Hbody l Hl). unfold body_line_ok in Hbody.
    apply andb_true_iff in Hbody as [_ Hi]. rewrite forallb_forall in *. intros b Hb. specialize (Hi b Hb).
    destruct b; [exact Hi|reflexivity]. }
  assert (Bok : forallb (fun l => forallb (item_ok (length args)) (snd l)) body = true).
  { rewrite forallb_forall in *. intros l Hl. specialize (Hbody l Hl). unfold body_line_ok in Hbody.
    now apply andb_true_iff in Hbody as [_ Hi]. }
  destruct (write_call uw us func args Ffine Afine) as [e We]. fold f in We.
  exists (call_text uw f args), e, (map (line_text uw) body).
  split; [exact We|]. split; [now apply write_body_lines_ok|].
  intros defs Hdefs.
  exists (map (fun l => join_sp (map (item_exp uw args) (snd l))) body). split.
  - unfold recipe_call_lines, recipe_call_expand, call_text. rewrite strip_prefix_app.
    change (is_mk_blank c_sp) with true. cbv iota.
    assert (Henc : enc uw f = f) by (unfold enc; rewrite (fname_quote uw f Hf); exact Hcd).
    rewrite Henc.
    assert (drop_blanks (f ++ comma_pieces (map (fun a => join_sp (map (enc uw) a)) args) ++ [c_rp]) =
            f ++ comma_pieces (map (fun a => join_sp (map (enc uw) a)) args) ++ [c_rp]) as ->.
    { destruct f as [|c f'] eqn:Ef; [congruence|]. cbn [forallb] in Hfall. apply andb_true_iff in Hfall as [Hc _].
      apply andb_true_iff in Hc as [Hb _]. apply negb_true_iff in Hb. destruct (notbad_facts uw c Hb) as (_ & _ & _ & E4 & _).
      cbn [app drop_blanks]. now rewrite E4. }
    rewrite (call_end_pieces _ f [] Hsafe Asafe).
    unfold call_expand, split_args. rewrite (split_pieces _ f Hsafe Asafe). cbn [fst snd].
    assert (M : map_opt (cexpand v) (f :: map (fun a => join_sp (map (enc uw) a)) args) = Some (f :: map (join uw) args)).
    { cbn [map_opt]. rewrite <- Hcd at 1. rewrite (cexpand_cd v f Hv).
      assert (M2 : map_opt (cexpand v) (map (fun a => join_sp (map (enc uw) a)) args) = Some (map (join uw) args)).
      { clear -Hv. induction args as [|a args IH]; [reflexivity|]. cbn [map map_opt]. rewrite IH.
        assert (join_sp (map (enc uw) a) = cd (join uw a)) as ->.
        { unfold join. rewrite cd_join, map_map. reflexivity. }
        rewrite cexpand_cd by assumption. reflexivity. }
      now rewrite M2. }
    rewrite M. rewrite (fname_trim uw f Hf). destruct f as [|c0 f0] eqn:Ef; [congruence|]. rewrite <- Ef in *.
    rewrite Hdefs. pose proof (cexp_body uw v f args body Bok) as P. unfold str in *. rewrite P. cbn [cexpand cexp option_map]. rewrite app_nil_r. cbn [option_map].
    f_equal. rewrite split_join_nl.
    + rewrite map_map. apply map_ext_in. intros l Hl. apply drop_prefix_line.
      rewrite forallb_forall in Hbody. specialize (Hbody l Hl). unfold body_line_ok in Hbody. now apply andb_true_iff in Hbody as [Hh _].
    + destruct body; [congruence|discriminate].
    + rewrite forallb_forall. intros x Hx. apply in_map_iff in Hx as [l [<- Hl]]. apply negb_true_iff.
      apply has_nl_line_exp; [exact Anl|]. rewrite forallb_forall in Bok. now apply Bok.
  - clear. induction body as [|l body IH]; [constructor|]. cbn [map]. constructor; [|exact IH].
    unfold item_exp, line_words. rewrite <- map_map. apply sh_words_joined.
Qed.

(* the guards of the design: no comma at all and balanced parentheses imply the guard used above *)
Lemma parens_safe w : no_comma w = true -> forall d, safe d w = parens_from d w.
Proof.
  induction w as [|c w IH]; intros H d; [reflexivity|].
  unfold no_comma, mem_char in H. cbn [existsb] in H. apply negb_true_iff in H. apply orb_false_iff in H as [Hc Hw].
  rewrite N.eqb_sym in Hc. cbn [safe parens_from]. rewrite Hc.
  assert (Hw' : no_comma w = true) by (unfold no_comma, mem_char; now rewrite Hw).
  destruct (N.eqb c c_lp); [now apply IH|]. destruct (N.eqb c c_rp); [destruct d; [reflexivity|now apply IH]|now apply IH].
Qed.

Lemma simple_guards w :
  negb (has_nl w) && match w with [] => false | _ => true end && no_comma w && parens_balanced w = true ->
  call_word_ok w = true.
Proof.
  intros H. apply andb_true_iff in H as [H Hp]. apply andb_true_iff in H as [H Hc]. unfold call_word_ok. rewrite H. cbn [andb].
  rewrite (parens_safe w Hc). exact Hp.
Qed.
End Main.
