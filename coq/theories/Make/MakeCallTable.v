(* Dispatch entries for channel F (define / call) of the Make models. *)
From BFG Require Import Base.Chars Base.Sx Shell.PosixQuote Make.MakeWrite Make.MakeRead Make.MakeCall Make.MakeTable.
From Coq Require Import String.
Local Open Scope N_scope.

(* an argument list: list of arguments, each a list of words, each a jbos *)
Definition un_args (x : sx) : list (list (list mfrag)) := map un_items (un_list x).

Definition un_defs (x : sx) : str -> option str :=
  fun n => match find (fun p => str_eqb (un_str (nth_sx 0 p)) n) (un_list x) with
           | Some p => Some (un_str (nth_sx 1 p))
           | None => None
           end.

Definition un_body_line (x : sx) : bool * list (list mfrag) := (un_bool (nth_sx 0 x), un_items (nth_sx 1 x)).

Definition sx_wr (r : option (str * bool)) : sx := sx_opt (sx_pair sx_str sx_bool) r.

Definition table : list (string * (sx -> sx)) := [
  (* uw us func args *)
  ("make.call", fun a => sx_wr
      (write (cls_of (nth_sx 0 a)) (cls_of (nth_sx 1 a))
             (call_frag (cls_of (nth_sx 1 a)) (un_str (nth_sx 2 a)) (un_args (nth_sx 3 a))) SynShell QInfo));
  (* uw us fname args quoted syntax *)
  ("make.function", fun a => sx_wr
      (write (cls_of (nth_sx 0 a)) (cls_of (nth_sx 1 a))
             (func_frag (un_str (nth_sx 2 a)) (un_args (nth_sx 3 a)) (un_bool (nth_sx 4 a))) (un_syntax (nth_sx 5 a)) QInfo));
  (* us name quoted *)
  ("make.var_use", fun a =>
      match var_use (cls_of (nth_sx 0 a)) (un_str (nth_sx 1 a)) (un_bool (nth_sx 2 a)) with
      | MLit s => sx_str s
      | _ => L []
      end);
  (* uw us name lines *)
  ("make.write_define", fun a => sx_opt sx_str
      (write_define (cls_of (nth_sx 0 a)) (cls_of (nth_sx 1 a)) (un_str (nth_sx 2 a)) (map un_body_line (un_list (nth_sx 3 a)))));
  ("make.parse_define", fun a => sx_opt (sx_pair sx_str sx_str) (parse_define (un_str (nth_sx 0 a))));
  (* vars defs text *)
  ("make.recipe_call_lines", fun a => sx_opt (sx_list sx_str)
      (recipe_call_lines (un_vars (nth_sx 0 a)) (un_defs (nth_sx 1 a)) (un_str (nth_sx 2 a))));
  ("make.cexpand", fun a => sx_opt sx_str (cexpand (un_vars (nth_sx 0 a)) (un_str (nth_sx 1 a))));
  ("make.call_word_ok", fun a => sx_bool (call_word_ok (un_str (nth_sx 0 a))))
]%string.
