(* W model of builtins/find.py write_depfile: the auxiliary Makefile fragment  .bfg_find_deps  that makes the
   regeneration rule depend on every directory find_files walked.  First line: the output as a TARGET, a colon,
   then every directory as a PREREQUISITE, each preceded by one blank; with makeify (Make backend) one more line
   per directory: the directory as a TARGET with an empty rule, so that a directory that disappears does not stop
   Make.  The same directory is therefore written with both escape tables. *)
From BFG Require Import Base.Chars Make.MakeWrite Make.MakeRead Make.MakeNames Make.MakeHeader.
Local Open Scope N_scope.

Definition depfile_lines (us : char -> bool) (out : str) (dirs : list str) (makeify : bool) : list str :=
  header_text us [out] dirs [] :: (if makeify then map (fun d => header_text us [d] [] []) dirs else []).

Definition depfile_text (us : char -> bool) (out : str) (dirs : list str) (makeify : bool) : str :=
  concat (map (fun l => l ++ [10]) (depfile_lines us out dirs makeify)).
