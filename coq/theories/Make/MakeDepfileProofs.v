(* GNU Make reads every line of the find_files depfile back as the declared rule. *)
From BFG Require Import Base.Chars Make.MakeWrite Make.MakeRead Make.MakeNames Make.MakeHeader Make.MakeHeaderProofs
  Make.MakeDepfile.
Local Open Scope N_scope.

Section Depfile.
Variable us : char -> bool.

(* a directory is written on both sides: it must be representable as a target and as a prerequisite *)
Definition dir_ok (d : str) : bool := tname_ok us d && dname_ok us d && ar_free [d].

Lemma dir_lines dirs : forallb dir_ok dirs = true ->
  map parse_rule_header (map (fun d => header_text us [d] [] []) dirs) = map (fun d => Some ([d], @nil str, @nil str)) dirs.
Proof.
  induction dirs as [|d dirs IH]; intros H; [reflexivity|].
  cbn [forallb] in H. apply andb_true_iff in H as [Hd Hr]. unfold dir_ok in Hd.
  apply andb_true_iff in Hd as [Hd Ha]. apply andb_true_iff in Hd as [Ht _].
  cbn [map]. rewrite (IH Hr). f_equal.
  apply rule_header_rt; try reflexivity; [discriminate| |exact Ha].
  cbn [forallb]. now rewrite Ht.
Qed.

Theorem depfile_rt out dirs :
  tname_ok us out = true -> ar_free [out] = true -> forallb dir_ok dirs = true -> ar_free dirs = true ->
  map parse_rule_header (depfile_lines us out dirs true) =
  Some ([out], dirs, []) :: map (fun d => Some ([d], @nil str, @nil str)) dirs.
Proof.
  intros Ho Hao Hd Had. unfold depfile_lines. cbn [map]. rewrite (dir_lines dirs Hd). f_equal.
  apply rule_header_rt; try reflexivity; [discriminate| | |exact Hao|exact Had].
  - cbn [forallb]. now rewrite Ho.
  - clear Had. induction dirs as [|d ds IH]; [reflexivity|]. cbn [forallb] in Hd |- *. apply andb_true_iff in Hd as [H1 H2].
    unfold dir_ok in H1. apply andb_true_iff in H1 as [H1 _]. apply andb_true_iff in H1 as [_ H1]. rewrite H1. exact (IH H2).
Qed.
End Depfile.
