(* The environment channel through the Make layer: the recipe line that write_shell writes for the items of
   global_env / local_env is handed by Make to sh as exactly the sh text of the items (the dollar doubling is undone,
   no recipe prefix is eaten), hence runs into the declared environment and words (PosixEnvProofs). *)
From BFG Require Import Base.Chars Shell.PosixQuote Shell.Sh Shell.PosixQuoteProofs Shell.PosixEnv Shell.PosixEnvProofs
  Make.MakeWrite Make.MakeRead Make.MakeProofs.
From Coq Require Import ZArith Lia ZifyBool String.
Local Open Scope N_scope.

(* the bits of an item as the fragments Writer.write dispatches on *)
Definition bit_frag (b : bit) : mfrag := match b with BStr s => MStr s | BLit s => MShLit s end.
Definition item_frags (it : item) : list mfrag := map bit_frag it.

Section W.
Variable uw us : char -> bool.

Lemma write_bit b t e : write uw us (bit_frag b) SynShell QInfo = Some (t, e) -> t = dollar_esc (fst (quote_bit uw b)).
Proof.
  destruct b as [s|s]; cbn [bit_frag write shelly apply_q].
  - destruct (quote_bit uw (BStr s)) as [q e0]. cbn [fst].
    destruct (escape_str us q SynShell) as [x|] eqn:E; [|discriminate].
    apply escape_shell_some in E. cbn. intros H. inversion H. congruence.
  - destruct (escape_str us s SynShell) as [x|] eqn:E; [|discriminate].
    apply escape_shell_some in E. cbn. intros H. inversion H. congruence.
Qed.

Lemma write_jbos_item it : forall t e,
  write_jbos uw us (item_frags it) SynShell QInfo = Some (t, e) -> t = dollar_esc (item_text uw it).
Proof.
  induction it as [|b it IH]; intros t e H.
  - cbn in H. inversion H. reflexivity.
  - cbn [item_frags map write_jbos] in H. fold (item_frags it) in H.
    destruct (write uw us (bit_frag b) SynShell QInfo) as [[t1 e1]|] eqn:W1; [|discriminate].
    destruct (write_jbos uw us (item_frags it) SynShell QInfo) as [[t2 e2]|] eqn:W2; [|discriminate].
    cbn [cat2] in H. inversion H; subst.
    rewrite (write_bit b t1 e1 W1), (IH t2 e2 eq_refl).
    cbn [item_text map List.concat]. fold (item_text uw it). now rewrite dollar_esc_app.
Qed.

Lemma write_each_items items : forall text,
  write_each uw us (map item_frags items) SynShell = Some text ->
  text = join_sp (map (fun it => dollar_esc (item_text uw it)) items).
Proof.
  induction items as [|it items IH]; intros text H.
  - cbn in H. now inversion H.
  - destruct items as [|it2 items'].
    + cbn [map write_each] in H.
      destruct (write_jbos uw us (item_frags it) SynShell QInfo) as [[t e]|] eqn:W; [|discriminate].
      cbn in H. inversion H; subst. cbn [map join_sp]. exact (write_jbos_item it _ _ W).
    + change (write_each uw us (map item_frags (it :: it2 :: items')) SynShell)
        with (match write_jbos uw us (item_frags it) SynShell QInfo, write_each uw us (map item_frags (it2 :: items')) SynShell with
              | Some (t, _), Some u => Some (t ++ c_sp :: u)
              | _, _ => None
              end) in H.
      destruct (write_jbos uw us (item_frags it) SynShell QInfo) as [[t e]|] eqn:W; [|discriminate].
      destruct (write_each uw us (map item_frags (it2 :: items')) SynShell) as [u|] eqn:U; [|discriminate].
      inversion H; subst. rewrite (write_jbos_item it _ _ W), (IH u eq_refl). reflexivity.
Qed.

Lemma expand_written_items v items :
  expand v (join_sp (map (fun it => dollar_esc (item_text uw it)) items)) = Some (sh_text uw items).
Proof.
  unfold sh_text. rewrite <- (map_map (item_text uw) dollar_esc), <- dollar_esc_join. apply expand_dollar_esc_id.
Qed.

(* what Make hands to sh for the recipe line of a list of items *)
Theorem recipe_items_text v items line :
  write_recipe_line uw us (map item_frags items) = Some line ->
  first_ok is_prefix_char (sh_text uw items) = true ->
  recipe_shell_text v line = Some (sh_text uw items).
Proof.
  unfold write_recipe_line. intros H Hf.
  destruct (write_each uw us (map item_frags items) SynShell) as [text|] eqn:W; [|discriminate].
  inversion H; subst line. apply write_each_items in W. subst text.
  unfold recipe_shell_text. change (N.eqb c_tab c_tab) with true. cbn iota.
  rewrite expand_written_items. cbn [option_map]. now rewrite drop_prefix_ok.
Qed.

(* ---------- the first character of the text ---------- *)
Lemma first_ok_app p a b : a <> [] -> first_ok p (a ++ b) = first_ok p a.
Proof. destruct a; [congruence|reflexivity]. Qed.

Lemma first_ok_sh_text p it items : item_text uw it <> [] ->
  first_ok p (sh_text uw (it :: items)) = first_ok p (item_text uw it).
Proof.
  intros H. unfold sh_text. cbn [map join_sp]. destruct (map (item_text uw) items); [reflexivity|].
  now apply first_ok_app.
Qed.

Lemma quote_ne w : quote uw w <> [].
Proof.
  unfold quote, quote_bit, inner_quote_info. destruct w as [|c w']; [discriminate|].
  destruct (existsb (posix_bad uw) (c :: w')); cbn [fst].
  - destruct (wrap_first (c :: w')) as [d [r [E _]]]. congruence.
  - discriminate.
Qed.

Lemma word_item_text w : item_text uw (word_item w) = quote uw w.
Proof. cbn. apply app_nil_r. Qed.

Lemma name_start_not_prefix c : is_name_start c = true -> is_prefix_char c = false.
Proof. unfold is_name_start, is_prefix_char, is_mk_blank, is_upper, is_lower, c_us, c_at, c_dash, c_sp, c_tab. lia. Qed.

Lemma env_item_first n v : is_ident n = true ->
  item_text uw (env_item (n, v)) <> [] /\ first_ok is_prefix_char (item_text uw (env_item (n, v))) = true.
Proof.
  intros Hn. destruct (ident_chars n Hn) as [Hc Hne]. pose proof (name_chars_plain uw n Hc) as Hp.
  destruct n as [|c0 n0]; [congruence|].
  assert (Hst : is_name_start c0 = true) by (cbn in Hn; now apply andb_true_iff in Hn as [Hn _]).
  unfold env_item. cbn [fst snd str_bits].
  change (item_text uw ([BStr (c0 :: n0)] ++ BLit [c_eq] :: str_bits v))
    with (quote uw (c0 :: n0) ++ [c_eq] ++ item_text uw (str_bits v)).
  rewrite (quote_plain uw (c0 :: n0)) by assumption. cbn [app first_ok].
  split; [discriminate|]. now rewrite (name_start_not_prefix c0 Hst).
Qed.

(* the command word is not eaten by Make as a recipe prefix; only needed when no environment word precedes it *)
Definition env_head_ok (env : list (str * str)) (cmd : list str) : bool :=
  match env with [] => head_ok uw cmd | _ => true end.

Lemma global_first env cmds : forallb name_ok (map fst env) = true -> cmds <> [] ->
  env_head_ok env (hd [] cmds) = true -> forallb (cmd_ok uw) cmds = true ->
  first_ok is_prefix_char (sh_text uw (global_env env (map words_line cmds))) = true.
Proof.
  intros Hn Hne Hh Hok. unfold global_env. destruct env as [|[n v] env'].
  - cbn [map app]. destruct cmds as [|c0 cmds']; [congruence|].
    cbn [hd env_head_ok] in Hh. cbn [forallb] in Hok. apply andb_true_iff in Hok as [Hc0 _].
    destruct c0 as [|w0 args]; [discriminate|].
    assert (E : exists rest, join_lines (map words_line ((w0 :: args) :: cmds')) = word_item w0 :: rest).
    { cbn [map join_lines]. destruct (map words_line cmds'); cbn [words_line escape_line map app]; eauto. }
    destruct E as [rest ->]. rewrite first_ok_sh_text by (rewrite word_item_text; apply quote_ne).
    rewrite word_item_text. exact Hh.
  - assert (E : exists rest, join_lines (map export_line ((n, v) :: env') ++ map words_line cmds) =
                             word_item (STR "export") :: rest).
    { cbn [map app join_lines]. destruct (map export_line env' ++ map words_line cmds);
        cbn [export_line escape_line app]; eauto. }
    destruct E as [rest ->]. rewrite first_ok_sh_text; reflexivity || discriminate.
Qed.

Lemma local_first env cmd : forallb name_ok (map fst env) = true ->
  env_head_ok env cmd = true -> cmd_ok uw cmd = true ->
  first_ok is_prefix_char (sh_text uw (local_env env (words_line cmd))) = true.
Proof.
  intros Hn Hh Hok. unfold local_env. destruct env as [|[n v] env'].
  - cbn [map app words_line escape_line]. destruct cmd as [|w0 args]; [discriminate|].
    cbn [map]. rewrite first_ok_sh_text by (rewrite word_item_text; apply quote_ne).
    rewrite word_item_text. exact Hh.
  - cbn [map forallb fst] in Hn. apply andb_true_iff in Hn as [Hn _].
    apply name_ok_inv in Hn as [Hi _]. destruct (env_item_first n v Hi) as [H1 H2].
    cbn [map app]. now rewrite first_ok_sh_text.
Qed.

(* ---------- composition ---------- *)
Theorem env_global_through_make v env0 env cmds line :
  forallb name_ok (map fst env) = true -> forallb (cmd_ok uw) cmds = true -> cmds <> [] ->
  env_head_ok env (hd [] cmds) = true ->
  write_recipe_line uw us (map item_frags (global_env env (map words_line cmds))) = Some line ->
  match recipe_shell_text v line with Some t => sh_run uw env0 t | None => None end =
  Some (map (fun c => {| p_env := sv_env (declare env (sv_init env0)); p_argv := c |}) cmds, true).
Proof.
  intros Hn Hok Hne Hh W.
  rewrite (recipe_items_text v _ line W (global_first env cmds Hn Hne Hh Hok)).
  now apply env_global_run.
Qed.

Theorem env_local_through_make v env0 env cmd line :
  forallb name_ok (map fst env) = true -> cmd_ok uw cmd = true ->
  env_head_ok env cmd = true ->
  write_recipe_line uw us (map item_frags (local_env env (words_line cmd))) = Some line ->
  match recipe_shell_text v line with Some t => sh_run uw env0 t | None => None end =
  Some ([{| p_env := sv_env (declare env (sv_init env0)); p_argv := cmd |}], true).
Proof.
  intros Hn Hok Hh W.
  rewrite (recipe_items_text v _ line W (local_first env cmd Hn Hh Hok)).
  now apply env_local_run.
Qed.
End W.

Definition run_recipe (uw : char -> bool) (v : vars) (env0 : list (str * str)) (line : str) : option (list proc * bool) :=
  match recipe_shell_text v line with Some t => sh_run uw env0 t | None => None end.

Theorem env_global_make uw us v env0 env cmds line :
  forallb name_ok (map fst env) = true -> cmds_ok uw cmds = true ->
  env_head_ok uw env (hd [] cmds) = true ->
  write_recipe_line uw us (map item_frags (global_env env (map words_line cmds))) = Some line ->
  exists penv,
    run_recipe uw v env0 line = Some (mkprocs penv cmds, true) /\
    forall n, env_get penv n = match assoc_last env n with Some x => Some x | None => assoc_last env0 n end.
Proof.
  intros Hn Hc Hh W. destruct (cmds_ok_inv uw cmds Hc) as [Hok Hne].
  exists (sv_env (declare env (sv_init env0))). split; [|apply delivered_env].
  now apply (env_global_through_make uw us v env0 env cmds line).
Qed.

Theorem env_local_make uw us v env0 env cmd line :
  forallb name_ok (map fst env) = true -> cmd_ok uw cmd = true ->
  env_head_ok uw env cmd = true ->
  write_recipe_line uw us (map item_frags (local_env env (words_line cmd))) = Some line ->
  exists penv,
    run_recipe uw v env0 line = Some (mkprocs penv [cmd], true) /\
    forall n, env_get penv n = match assoc_last env n with Some x => Some x | None => assoc_last env0 n end.
Proof.
  intros Hn Hc Hh W.
  exists (sv_env (declare env (sv_init env0))). split; [|apply delivered_env].
  now apply (env_local_through_make uw us v env0 env cmd line).
Qed.
