(* Whole rule headers.  W model of bfg9000/backends/make/syntax.py Makefile._write_rule (target-specific
   variable lines, .PHONY line, the header  targets: deps | order_only , the recipe in its three forms) and of
   the directory sentinel of backends/make/writer.py (directory_deps / directory_rule).
   R model: how GNU Make 4.3 splits a rule header (after variable expansion) into targets, prerequisites and
   order-only prerequisites, built from MakeRead.read_word; and patsubst for the pattern  %/.dir -> % . *)
From BFG Require Import Base.Chars Shell.PosixQuote Make.MakeWrite Make.MakeRead Make.MakeNames Make.MakeCall.
Local Open Scope N_scope.

Inductive recipe :=
| RNone
| RInline (items : list (list mfrag))                    (* an Entity: written after  ' ; '  on the header line *)
| RLines (ls : list (bool * list (list mfrag))).          (* one TAB line per command; bool = Silent *)

Section W.
Variable uw us : char -> bool.

(* write_each(things, syntax, prefix=literal(pre)) *)
Definition write_each_pre (pre : str) (l : list (list mfrag)) (syn : syntax) : option str :=
  match l with
  | [] => Some []
  | _ => option_map (app pre) (write_each uw us l syn)
  end.

Definition rule_header (targets deps oo : list (list mfrag)) : option str :=
  match write_each uw us targets SynTarget, write_each_pre [c_sp] deps SynDep, write_each_pre [c_sp; c_pipe; c_sp] oo SynDep with
  | Some t, Some d, Some o => Some (t ++ c_colon :: d ++ o)
  | _, _, _ => None
  end.

(* target: NAME := value  (one line per target and variable) *)
Definition tvar_line (target : list mfrag) (nv : str * list (list mfrag)) : option str :=
  match write_jbos uw us target SynTarget QInfo, write_value uw us (snd nv) SynShell with
  | Some (t, _), Some v => Some (t ++ [c_colon; c_sp] ++ var_name us (fst nv) ++ [c_sp; c_colon; c_eq; c_sp] ++ v ++ [c_nl])
  | _, _ => None
  end.

Definition concat_opt (l : list (option str)) : option str :=
  fold_right (fun x acc => match x, acc with Some a, Some b => Some (a ++ b) | _, _ => None end) (Some []) l.

Definition write_recipe (r : recipe) : option str :=
  match r with
  | RNone => Some []
  | RInline items => option_map (app [c_sp; c_semi; c_sp]) (write_each uw us items SynShell)
  | RLines ls => concat_opt (map (fun l => option_map (app [c_nl; c_tab]) (write_body_line uw us l)) ls)
  end.

Definition write_rule (tvars : list (str * list (list mfrag))) (phony : bool)
    (targets deps oo : list (list mfrag)) (r : recipe) : option str :=
  match concat_opt (concat (map (fun t => map (tvar_line t) tvars) targets)),
        (if phony then option_map (fun t => [46; 80; 72; 79; 78; 89; 58; 32] ++ t ++ [c_nl]) (write_each uw us targets SynDep) else Some []),
        rule_header targets deps oo, write_recipe r with
  | Some v, Some p, Some h, Some c => Some (v ++ p ++ h ++ c ++ [c_nl; c_nl])
  | _, _, _, _ => None
  end.
End W.

(* the header of plain names as a pure text (what rule_header writes when no name contains a newline) *)
Definition tesc (us : char -> bool) (n : str) : str := bs_esc_top (target_special us) (dollar_esc n).
Definition desc (us : char -> bool) (n : str) : str := bs_esc_top (dep_special us) (dollar_esc n).
Definition header_text (us : char -> bool) (ts ds os : list str) : str :=
  join_sp (map (tesc us) ts) ++ c_colon ::
  (match ds with [] => [] | _ => c_sp :: join_sp (map (desc us) ds) end) ++
  (match os with [] => [] | _ => c_sp :: c_pipe :: c_sp :: join_sp (map (desc us) os) end).

Definition name_items (ns : list str) : list (list mfrag) := map (fun n => [MStr n]) ns.

(* ------------------------------------------------------------------ R *)
(* split at the first [ch] that is preceded by an even number of backslashes; None when there is none *)
Fixpoint split_unesc (ch : char) (pend : nat) (s : str) : option (str * str) :=
  match s with
  | [] => None
  | c :: r =>
    if N.eqb c c_bs then option_map (fun p => (c :: fst p, snd p)) (split_unesc ch (S pend) r)
    else if N.eqb c ch && Nat.even pend then Some ([], r)
    else option_map (fun p => (c :: fst p, snd p)) (split_unesc ch 0 r)
  end.

(* blank-separated words, each read by [rd] *)
Fixpoint read_words (rd : str -> option (str * str)) (fuel : nat) (s : str) : option (list str) :=
  match fuel with
  | O => None
  | S f =>
    match drop_blanks s with
    | [] => Some []
    | s' => match rd s' with
            | Some (w, rest) => option_map (cons w) (read_words rd f rest)
            | None => None
            end
    end
  end.

(* after the bar that starts the order-only prerequisites the bar is an ordinary character: GNU Make 4.3 no longer
   removes a backslash in front of it (observed: a prerequisite written x\|y there is looked up under that name) *)
Definition oo_unesc (c : char) : bool := mem_char c [32; 58; 35].
Definition oo_stop (c : char) : bool := mem_char c [58; 35; 59; 61; 9; 42; 63; 91; 93].
Definition read_oo (s : str) := read_word oo_unesc oo_stop 0 s.

(* a rule header after variable expansion: targets up to the first unescaped colon, then prerequisites, then -
   after an unescaped bar - the order-only prerequisites *)
Definition parse_rule_words (line : str) : option (list str * list str * list str) :=
  match split_unesc c_colon 0 line with
  | Some (tpart, rest) =>
    let dp := match split_unesc c_pipe 0 rest with Some p => p | None => (rest, []) end in
    match read_words read_target (S (length tpart)) tpart,
          read_words read_dep (S (length (fst dp))) (fst dp),
          read_words read_oo (S (length (snd dp))) (snd dp) with
    | Some ts, Some ds, Some os => Some (ts, ds, os)
    | _, _, _ => None
    end
  | None => None
  end.

(* Archive members.  GNU Make reads a word  lib(member)  - an opening parenthesis that is not the first character
   and a closing one as the last - as a member of an archive (the automatic variable for the target is then the archive,
   existence is looked up inside it), and a word  lib(m1  that is followed, in the same list, by a word ending in a
   closing parenthesis as the start of an archive group  lib(m1 m2 ... mk)  (read.c parse_file_seq, ar.c ar_name).
   No escaping switches this off, so such lists are outside what the Make format can represent: the reference reading
   rejects them.  (Conservative for  lib()  , which ar_name does not take for a member.) *)
Definition ar_open (w : str) : bool := match w with [] => false | _ :: r => mem_char 40 r end.
Definition ends_rparen (w : str) : bool := match rev w with c :: _ => N.eqb c 41 | [] => false end.
Fixpoint ar_free (ws : list str) : bool :=
  match ws with
  | [] => true
  | w :: r => negb (ar_open w && (ends_rparen w || existsb ends_rparen r)) && ar_free r
  end.

Definition parse_rule_header (line : str) : option (list str * list str * list str) :=
  match parse_rule_words line with
  | Some (ts, ds, os) => if ar_free ts && ar_free ds && ar_free os then Some (ts, ds, os) else None
  | None => None
  end.

(* ------------------------------------------------------------------ directory sentinels *)
Definition dir_sentinel : str := [46; 100; 105; 114].                 (* .dir *)
(* Path.append of the sentinel to the directory of an output: directory ++ / ++ .dir *)
Definition sentinel_of (dir : str) : str := dir ++ c_slash :: dir_sentinel.

(* $(patsubst %/.dir,%,word) for ONE word: if the word ends in /.dir the stem replaces it, else unchanged *)
Fixpoint strip_suffix (suf s : str) : option str :=
  if str_eqb s suf then Some []
  else match s with
       | [] => None
       | c :: r => option_map (cons c) (strip_suffix suf r)
       end.
Definition patsubst_dir (word : str) : str :=
  match strip_suffix (c_slash :: dir_sentinel) word with
  | Some stem => stem
  | None => word
  end.

(* the function works on the blank-separated words of its text and joins the results by single blanks *)
Fixpoint split_blanks (cur : str) (s : str) : list str :=
  match s with
  | [] => match cur with [] => [] | _ => [cur] end
  | c :: r =>
    if is_mk_blank c then match cur with [] => split_blanks [] r | _ => cur :: split_blanks [] r end
    else split_blanks (cur ++ [c]) r
  end.
Definition patsubst_dir_text (text : str) : str := join_sp (map patsubst_dir (split_blanks [] text)).

Definition blank_free (s : str) : bool := negb (existsb is_mk_blank s).

(* ------------------------------------------------------------------ directory_deps of a whole step *)
(* backends/make/writer.py directory_deps(targets): the parent directories of the outputs of ONE step, de-duplicated in
   order of first occurrence (iterutils.uniques), without the build directory itself (the empty suffix), each as its
   sentinel.  Argument: the parent directory of every output, in output order. *)
Definition str_mem (x : str) (l : list str) : bool := existsb (str_eqb x) l.
Fixpoint uniq_strs (seen l : list str) : list str :=
  match l with
  | [] => []
  | x :: r => if str_mem x seen then uniq_strs seen r else x :: uniq_strs (x :: seen) r
  end.
Definition nonroot (d : str) : bool := match d with [] => false | _ => true end.
Definition directory_deps (dirs : list str) : list str := map sentinel_of (filter nonroot (uniq_strs [] dirs)).
