From Coq Require Import Arith PeanoNat Lia.
From BFG Require Import Base.Chars Shell.PosixQuote Make.MakeWrite Make.MakeRead Make.MakeNames Make.MakeProofs
  Make.MakeNamesProofs Make.MakeCall Make.MakeHeader.
Local Open Scope N_scope.

(* ---------- one escaped word inside a line ---------- *)
Definition plain_chars (special unesc stop : char -> bool) (n : str) : Prop :=
  forall c, In c n -> N.eqb c c_bs = false /\
    (if special c then unesc c = true else (stop c || unesc c) = false).

Lemma plain_chars_tl special unesc stop c n : plain_chars special unesc stop (c :: n) -> plain_chars special unesc stop n.
Proof. intros H d Hd. apply H. now right. Qed.

(* read_word on an escaped name followed by a blank *)
Lemma read_word_rt_sp (unesc stop special : char -> bool) n rest :
  plain_chars special unesc stop n -> unesc c_sp = true ->
  read_word unesc stop 0 (bs_esc special 0 n ++ c_sp :: rest) = Some (n, rest).
Proof.
  intros H Hsp. induction n as [|c n IH].
  - cbn [bs_esc repeat app read_word]. change (N.eqb c_sp c_bs) with false. cbv iota. rewrite Hsp.
    cbn [Nat.even]. cbv iota. change (is_mk_blank c_sp) with true. cbv iota. reflexivity.
  - destruct (H c (or_introl eq_refl)) as [Hb Hc]. specialize (IH (plain_chars_tl _ _ _ _ _ H)).
    cbn [bs_esc]. rewrite Hb. destruct (special c) eqn:Sp; cbn [repeat app Nat.add].
    + cbn [read_word]. change (N.eqb c_bs c_bs) with true. cbv iota. rewrite Hb, Hc.
      cbn [Nat.even Nat.div2 repeat app]. rewrite IH. reflexivity.
    + apply orb_false_iff in Hc as [Hs Hu]. cbn [read_word]. rewrite Hb, Hu, Hs, IH. reflexivity.
Qed.

(* scanning for an unescaped [ch] passes over an escaped name in which every [ch] is escaped *)
Lemma split_skip ch special n rest :
  (forall c, In c n -> N.eqb c c_bs = false /\ (N.eqb c ch = true -> special c = true)) ->
  split_unesc ch 0 (bs_esc special 0 n ++ rest) =
  option_map (fun p => (bs_esc special 0 n ++ fst p, snd p)) (split_unesc ch 0 rest).
Proof.
  intros H. induction n as [|c n IH].
  - cbn [bs_esc repeat app]. destruct (split_unesc ch 0 rest) as [[a b]|]; reflexivity.
  - destruct (H c (or_introl eq_refl)) as [Hb Hc].
    assert (IH' := IH (fun d Hd => H d (or_intror Hd))). clear IH.
    cbn [bs_esc]. rewrite Hb. destruct (special c) eqn:Sp; cbn [repeat app Nat.add].
    + cbn [split_unesc]. change (N.eqb c_bs c_bs) with true. cbv iota. rewrite Hb.
      cbn [Nat.even]. rewrite andb_false_r. cbv iota. rewrite IH'.
      destruct (split_unesc ch 0 rest) as [[a b]|]; reflexivity.
    + cbn [split_unesc]. rewrite Hb. destruct (N.eqb c ch) eqn:E; [specialize (Hc eq_refl); congruence|].
      cbn [andb]. cbv iota. rewrite IH'. destruct (split_unesc ch 0 rest) as [[a b]|]; reflexivity.
Qed.

(* the escaped form of a non-empty name never begins with a blank *)
Lemma esc_first_not_blank special n t :
  n <> [] -> (forall c, In c n -> N.eqb c c_bs = false /\ (is_mk_blank c = true -> special c = true)) ->
  drop_blanks (bs_esc special 0 n ++ t) = bs_esc special 0 n ++ t.
Proof.
  intros Hne H. destruct n as [|c n]; [congruence|]. destruct (H c (or_introl eq_refl)) as [Hb Hc].
  cbn [bs_esc]. rewrite Hb. destruct (special c) eqn:Sp; cbn [repeat app Nat.add drop_blanks].
  - reflexivity.
  - destruct (is_mk_blank c) eqn:B; [specialize (Hc eq_refl); congruence|reflexivity].
Qed.

Lemma bs_esc_nonempty special n : n <> [] -> N.eqb (hd 0 n) c_bs = false -> bs_esc special 0 n <> [].
Proof.
  destruct n as [|c n]; [congruence|]. cbn [hd]. intros _ Hb. cbn [bs_esc]. rewrite Hb.
  destruct (special c); cbn; discriminate.
Qed.

(* ---------- lines of escaped words: abstract properties of (name, escaped text) pairs ---------- *)
Section Words.
Variable rd : str -> option (str * str).

Definition word_reads (n e : str) : Prop :=
  (forall rest, rd (e ++ c_sp :: rest) = Some (n, rest)) /\ rd e = Some (n, []) /\
  (forall t, drop_blanks (e ++ t) = e ++ t) /\ e <> [].

Lemma read_words_blank f s : read_words rd (S f) (c_sp :: s) = read_words rd (S f) s.
Proof. reflexivity. Qed.

Lemma read_words_line ns : forall es fuel,
  Forall2 word_reads ns es -> (length ns < fuel)%nat ->
  read_words rd fuel (join_sp es) = Some ns /\ read_words rd fuel (join_sp es ++ [c_sp]) = Some ns.
Proof.
  induction ns as [|n ns IH]; intros es fuel H Hf; inversion H as [|? e ? es' He Hr]; subst.
  - destruct fuel; [lia|]. split; reflexivity.
  - destruct He as (R1 & R2 & R3 & R4). destruct fuel as [|f]; [lia|]. cbn [length] in Hf.
    destruct es' as [|e2 es''].
    + inversion Hr; subst. cbn [join_sp]. split.
      * cbn [read_words]. rewrite <- (app_nil_r e) at 1. rewrite R3, app_nil_r.
        destruct e as [|c e']; [congruence|]. rewrite R2. destruct f; [lia|]. reflexivity.
      * cbn [read_words]. rewrite R3. destruct (e ++ [c_sp]) as [|c x] eqn:E; [destruct e; discriminate|]. rewrite <- E.
        rewrite R1. destruct f; [lia|]. reflexivity.
    + destruct (IH (e2 :: es'') f Hr ltac:(lia)) as [I1 I2].
      change (join_sp (e :: e2 :: es'')) with (e ++ c_sp :: join_sp (e2 :: es'')). split.
      * cbn [read_words]. rewrite R3. destruct (e ++ c_sp :: join_sp (e2 :: es'')) as [|c x] eqn:E; [destruct e; discriminate|]. rewrite <- E.
        rewrite R1, I1. reflexivity.
      * rewrite <- app_assoc. cbn [app read_words]. rewrite R3.
        destruct (e ++ c_sp :: join_sp (e2 :: es'') ++ [c_sp]) as [|c x] eqn:E; [destruct e; discriminate|]. rewrite <- E.
        rewrite R1, I2. reflexivity.
Qed.
End Words.

Lemma split_skip_line ch es : forall rest,
  N.eqb c_sp ch = false ->
  Forall (fun e => forall r, split_unesc ch 0 (e ++ r) = option_map (fun p => (e ++ fst p, snd p)) (split_unesc ch 0 r)) es ->
  split_unesc ch 0 (join_sp es ++ rest) = option_map (fun p => (join_sp es ++ fst p, snd p)) (split_unesc ch 0 rest).
Proof.
  induction es as [|e es IH]; intros rest Hsp H.
  - cbn. destruct (split_unesc ch 0 rest) as [[a b]|]; reflexivity.
  - inversion H as [|? ? He Hr]; subst. destruct es as [|e2 es'].
    + cbn [join_sp]. apply He.
    + change (join_sp (e :: e2 :: es')) with (e ++ c_sp :: join_sp (e2 :: es')). rewrite <- app_assoc. rewrite He.
      cbn [app split_unesc]. change (N.eqb c_sp c_bs) with false. cbv iota. rewrite Hsp. cbn [andb]. cbv iota.
      rewrite (IH rest Hsp Hr). destruct (split_unesc ch 0 rest) as [[a b]|]; cbn; [|reflexivity]. now rewrite <- app_assoc.
Qed.

Lemma length_join_sp es : Forall (fun e : str => e <> []) es -> (length es <= length (join_sp es))%nat.
Proof.
  induction es as [|e es IH]; intros H; [cbn; lia|]. inversion H as [|? ? He Hr]; subst.
  destruct es as [|e2 es']; [destruct e; [congruence|cbn; lia]|].
  change (join_sp (e :: e2 :: es')) with (e ++ c_sp :: join_sp (e2 :: es')). rewrite app_length. cbn [length] in *.
  specialize (IH Hr). destruct e; [congruence|]. cbn [length]. lia.
Qed.

(* ---------- names ---------- *)
Definition no_dollar (s : str) : bool := negb (mem_char c_dollar s).

Lemma dollar_esc_id s : no_dollar s = true -> dollar_esc s = s.
Proof.
  induction s as [|c s IH]; intros H; [reflexivity|]. unfold no_dollar, mem_char in H. cbn [existsb] in H.
  apply negb_true_iff in H. apply orb_false_iff in H as [Hc Hs]. rewrite N.eqb_sym in Hc. cbn [dollar_esc]. rewrite Hc.
  rewrite IH; [reflexivity|]. unfold no_dollar, mem_char. now rewrite Hs.
Qed.

Section Names.
Variable us : char -> bool.

Lemma target_facts n : target_ok us n = true ->
  n <> [] /\ plain_chars (target_special us) tgt_unesc tgt_stop n /\
  bs_esc_top (target_special us) n = bs_esc (target_special us) 0 n.
Proof.
  unfold target_ok. intros H. apply andb_true_iff in H as [H _]. apply andb_true_iff in H as [H Ht]. apply andb_true_iff in H as [Hb Hf].
  destruct n as [|c r]; [discriminate|]. split; [discriminate|]. split.
  - unfold plain_chars. apply (ok_chars_spec (tgt_char_ok us)); try assumption. reflexivity.
  - cbn [bs_esc_top]. cbn in Ht. apply negb_true_iff in Ht. now rewrite Ht.
Qed.

Lemma dep_facts n : dep_ok us n = true ->
  n <> [] /\ plain_chars (dep_special us) dep_unesc dep_stop n /\
  bs_esc_top (dep_special us) n = bs_esc (dep_special us) 0 n.
Proof.
  unfold dep_ok. intros H. apply andb_true_iff in H as [H _]. apply andb_true_iff in H as [H Ht]. apply andb_true_iff in H as [Hb Hf].
  destruct n as [|c r]; [discriminate|]. split; [discriminate|]. split.
  - unfold plain_chars. apply (ok_chars_spec (dep_char_ok us)); try assumption. reflexivity.
  - cbn [bs_esc_top]. cbn in Ht. apply negb_true_iff in Ht. now rewrite Ht.
Qed.

(* consequences of plain_chars for the concrete tables *)
Lemma tgt_colon c : N.eqb c c_colon = true -> target_special us c = true.
Proof. intros E. apply N.eqb_eq in E; subst c. reflexivity. Qed.
Lemma dep_pipe c : N.eqb c c_pipe = true -> dep_special us c = true.
Proof. intros E. apply N.eqb_eq in E; subst c. reflexivity. Qed.
Lemma tgt_blank c : is_mk_blank c = true -> target_special us c = true.
Proof.
  unfold is_mk_blank. intros E. apply orb_true_iff in E as [E | E]; apply N.eqb_eq in E; subst c; reflexivity.
Qed.
Lemma dep_blank c : is_mk_blank c = true -> dep_special us c = true.
Proof.
  unfold is_mk_blank. intros E. apply orb_true_iff in E as [E | E]; apply N.eqb_eq in E; subst c; reflexivity.
Qed.

Lemma target_word n : target_ok us n = true -> no_dollar n = true ->
  word_reads read_target n (tesc us n) /\
  (forall r, split_unesc c_colon 0 (tesc us n ++ r) = option_map (fun p => (tesc us n ++ fst p, snd p)) (split_unesc c_colon 0 r)).
Proof.
  intros H Hd. destruct (target_facts n H) as (Hne & Hp & Ht). unfold tesc. rewrite (dollar_esc_id n Hd), Ht.
  assert (Hb : N.eqb (hd 0 n) c_bs = false) by (destruct n as [|c r]; [congruence|]; apply (Hp c (or_introl eq_refl))).
  split; [repeat split|].
  - intros rest. apply read_word_rt_sp; [exact Hp|reflexivity].
  - unfold read_target. apply read_word_rt. exact Hp.
  - intros t. apply esc_first_not_blank; [exact Hne|]. intros c Hc. split; [apply (Hp c Hc)|apply tgt_blank].
  - now apply bs_esc_nonempty.
  - intros r. apply split_skip. intros c Hc. split; [apply (Hp c Hc)|apply tgt_colon].
Qed.

Lemma dep_word n : dep_ok us n = true -> no_dollar n = true ->
  word_reads read_dep n (desc us n) /\
  (forall r, split_unesc c_pipe 0 (desc us n ++ r) = option_map (fun p => (desc us n ++ fst p, snd p)) (split_unesc c_pipe 0 r)).
Proof.
  intros H Hd. destruct (dep_facts n H) as (Hne & Hp & Ht). unfold desc. rewrite (dollar_esc_id n Hd), Ht.
  assert (Hb : N.eqb (hd 0 n) c_bs = false) by (destruct n as [|c r]; [congruence|]; apply (Hp c (or_introl eq_refl))).
  split; [repeat split|].
  - intros rest. apply read_word_rt_sp; [exact Hp|reflexivity].
  - unfold read_dep. apply read_word_rt. exact Hp.
  - intros t. apply esc_first_not_blank; [exact Hne|]. intros c Hc. split; [apply (Hp c Hc)|apply dep_blank].
  - now apply bs_esc_nonempty.
  - intros r. apply split_skip. intros c Hc. split; [apply (Hp c Hc)|apply dep_pipe].
Qed.

Definition tname_ok (n : str) : bool := target_ok us n && no_dollar n.
Definition dname_ok (n : str) : bool := dep_ok us n && no_dollar n.

Lemma target_words ts : forallb tname_ok ts = true ->
  Forall2 (word_reads read_target) ts (map (tesc us) ts) /\
  Forall (fun e => forall r, split_unesc c_colon 0 (e ++ r) = option_map (fun p => (e ++ fst p, snd p)) (split_unesc c_colon 0 r)) (map (tesc us) ts) /\
  Forall (fun e : str => e <> []) (map (tesc us) ts).
Proof.
  induction ts as [|n ts IH]; intros H; [repeat split; constructor|].
  cbn [forallb] in H. apply andb_true_iff in H as [Hn Hr]. unfold tname_ok in Hn. apply andb_true_iff in Hn as [H1 H2].
  destruct (target_word n H1 H2) as [W S]. destruct (IH Hr) as (I1 & I2 & I3). cbn [map].
  repeat split; constructor; try assumption. apply W.
Qed.

Lemma dep_words ds : forallb dname_ok ds = true ->
  Forall2 (word_reads read_dep) ds (map (desc us) ds) /\
  Forall (fun e => forall r, split_unesc c_pipe 0 (e ++ r) = option_map (fun p => (e ++ fst p, snd p)) (split_unesc c_pipe 0 r)) (map (desc us) ds) /\
  Forall (fun e : str => e <> []) (map (desc us) ds).
Proof.
  induction ds as [|n ds IH]; intros H; [repeat split; constructor|].
  cbn [forallb] in H. apply andb_true_iff in H as [Hn Hr]. unfold dname_ok in Hn. apply andb_true_iff in Hn as [H1 H2].
  destruct (dep_word n H1 H2) as [W S]. destruct (IH Hr) as (I1 & I2 & I3). cbn [map].
  repeat split; constructor; try assumption. apply W.
Qed.

Lemma forall2_length {T U} (P : T -> U -> Prop) a b : Forall2 P a b -> length a = length b.
Proof. induction 1; cbn; congruence. Qed.

(* reading a prerequisite part:  [blank] names [blank] *)
Lemma read_part rd ds es : Forall2 (word_reads rd) ds es -> Forall (fun e : str => e <> []) es -> forall pre post,
  (pre = [] \/ pre = [c_sp]) -> (post = [] \/ post = [c_sp]) ->
  read_words rd (S (length (pre ++ join_sp es ++ post))) (pre ++ join_sp es ++ post) = Some ds.
Proof.
  intros W Ne pre post Hpre Hpost.
  pose proof (length_join_sp _ Ne) as L. rewrite <- (forall2_length _ _ _ W) in L.
  set (fuel := S (length (pre ++ join_sp es ++ post))).
  assert (F : (length ds < fuel)%nat) by (unfold fuel; rewrite !app_length; lia).
  destruct (read_words_line rd ds _ fuel W F) as [R1 R2].
  assert (G : read_words rd fuel (join_sp es ++ post) = Some ds).
  { destruct Hpost as [-> | ->]; [now rewrite app_nil_r|exact R2]. }
  destruct Hpre as [-> | ->]; [exact G|]. unfold fuel in *. cbn [app]. rewrite read_words_blank. exact G.
Qed.

Lemma read_dep_part ds : forallb dname_ok ds = true -> forall pre post,
  (pre = [] \/ pre = [c_sp]) -> (post = [] \/ post = [c_sp]) ->
  read_words read_dep (S (length (pre ++ join_sp (map (desc us) ds) ++ post))) (pre ++ join_sp (map (desc us) ds) ++ post) = Some ds.
Proof. intros H. destruct (dep_words ds H) as (W & _ & Ne). now apply read_part. Qed.

(* order-only names: no bar *)
Definition oname_ok (n : str) : bool := dname_ok n && negb (mem_char c_pipe n).

Lemma oo_word n : oname_ok n = true -> word_reads read_oo n (desc us n).
Proof.
  unfold oname_ok, dname_ok. intros H. apply andb_true_iff in H as [H Hp]. apply andb_true_iff in H as [H Hd].
  destruct (dep_facts n H) as (Hne & Hpl & Ht). unfold desc. rewrite (dollar_esc_id n Hd), Ht.
  assert (Hpl' : plain_chars (dep_special us) oo_unesc oo_stop n).
  { intros c Hc. destruct (Hpl c Hc) as [Hb Hx]. split; [exact Hb|].
    assert (Hn : N.eqb c c_pipe = false).
    { apply negb_true_iff in Hp. destruct (N.eqb c c_pipe) eqn:E; [|reflexivity]. apply N.eqb_eq in E; subst c.
      assert (mem_char c_pipe n = true) by (now apply mem_char_In). congruence. }
    assert (U : oo_unesc c = dep_unesc c).
    { unfold oo_unesc, dep_unesc, mem_char. cbn [existsb]. change 124 with c_pipe. rewrite Hn. now rewrite !orb_false_r. }
    assert (S : oo_stop c = dep_stop c).
    { unfold oo_stop, dep_stop, mem_char. cbn [existsb]. change 124 with c_pipe. rewrite Hn. reflexivity. }
    rewrite U, S. exact Hx. }
  assert (Hb : N.eqb (hd 0 n) c_bs = false) by (destruct n as [|c r]; [congruence|]; apply (Hpl c (or_introl eq_refl))).
  repeat split.
  - intros rest. apply read_word_rt_sp; [exact Hpl'|reflexivity].
  - unfold read_oo. apply read_word_rt. exact Hpl'.
  - intros t. apply esc_first_not_blank; [exact Hne|]. intros c Hc. split; [apply (Hpl c Hc)|apply dep_blank].
  - now apply bs_esc_nonempty.
Qed.

Lemma oo_words os : forallb oname_ok os = true ->
  Forall2 (word_reads read_oo) os (map (desc us) os) /\ Forall (fun e : str => e <> []) (map (desc us) os) /\ forallb dname_ok os = true.
Proof.
  induction os as [|n os IH]; intros H; [repeat split; constructor|].
  cbn [forallb] in H. apply andb_true_iff in H as [Hn Hr]. destruct (IH Hr) as (I1 & I2 & I3). pose proof (oo_word n Hn) as W.
  unfold oname_ok in Hn. apply andb_true_iff in Hn as [Hn _]. cbn [map forallb]. rewrite Hn, I3.
  repeat split; constructor; try assumption. apply W.
Qed.

(* ---------- the header ---------- *)
Theorem rule_words_rt ts ds os :
  ts <> [] -> forallb tname_ok ts = true -> forallb dname_ok ds = true -> forallb oname_ok os = true ->
  parse_rule_words (header_text us ts ds os) = Some (ts, ds, os).
Proof.
  intros Hne Ht Hd Hoo. destruct (oo_words os Hoo) as (Wo & No & Ho). destruct (target_words ts Ht) as (Wt & St & Nt).
  destruct (dep_words ds Hd) as (_ & Sd & _).
  unfold parse_rule_words, header_text.
  set (T := join_sp (map (tesc us) ts)). set (D := join_sp (map (desc us) ds)). set (O := join_sp (map (desc us) os)).
  set (D' := match ds with [] => [] | _ => c_sp :: D end).
  set (O' := match os with [] => [] | _ => c_sp :: c_pipe :: c_sp :: O end).
  rewrite (split_skip_line c_colon _ _ eq_refl St).
  change (split_unesc c_colon 0 (c_colon :: D' ++ O')) with (Some (@nil char, D' ++ O')). cbn [option_map]. cbv beta. cbn [fst snd].
  rewrite app_nil_r.
  (* the targets *)
  pose proof (length_join_sp _ Nt) as Lt. rewrite map_length in Lt. fold T in Lt.
  destruct (read_words_line read_target ts _ (S (length T)) Wt ltac:(lia)) as [Rt _]. unfold T in Rt. rewrite Rt.
  (* the prerequisites and the order-only prerequisites *)
  assert (P : match split_unesc c_pipe 0 (D' ++ O') with Some p => p | None => (D' ++ O', []) end =
              match os with [] => (D', []) | _ => (D' ++ [c_sp], c_sp :: O) end).
  { destruct (dep_words os Ho) as (_ & So & _).
    assert (SD : forall r, split_unesc c_pipe 0 (D' ++ r) = option_map (fun p => (D' ++ fst p, snd p)) (split_unesc c_pipe 0 r)).
    { intros r. unfold D'. destruct ds as [|d0 ds0]; [cbn; destruct (split_unesc c_pipe 0 r) as [[a b]|]; reflexivity|].
      cbn [app split_unesc]. change (N.eqb c_sp c_bs) with false. change (N.eqb c_sp c_pipe) with false. cbn [andb]. cbv iota.
      unfold D. rewrite (split_skip_line c_pipe _ _ eq_refl Sd). destruct (split_unesc c_pipe 0 r) as [[a b]|]; reflexivity. }
    rewrite SD. unfold O'. destruct os as [|o0 os0].
    - cbn [split_unesc option_map]. now rewrite app_nil_r.
    - change (split_unesc c_pipe 0 (c_sp :: c_pipe :: c_sp :: O)) with (Some ([c_sp], c_sp :: O)). reflexivity. }
  unfold str in *. rewrite P.
  assert (RD0 : read_words read_dep (S (length D')) D' = Some ds).
  { unfold D'. destruct ds as [|d0 ds0]; [reflexivity|].
    pose proof (read_dep_part (d0 :: ds0) Hd [c_sp] [] (or_intror eq_refl) (or_introl eq_refl)) as R.
    rewrite app_nil_r in R. exact R. }
  assert (RD1 : read_words read_dep (S (length (D' ++ [c_sp]))) (D' ++ [c_sp]) = Some ds).
  { unfold D'. destruct ds as [|d0 ds0]; [reflexivity|].
    pose proof (read_dep_part (d0 :: ds0) Hd [c_sp] [c_sp] (or_intror eq_refl) (or_intror eq_refl)) as R.
    cbn [app] in R |- *. unfold D. exact R. }
  clearbody D'. destruct os as [|o0 os0]; cbv iota; cbn [fst snd].
  - rewrite RD0. reflexivity.
  - assert (RO : read_words read_oo (S (length (c_sp :: O))) (c_sp :: O) = Some (o0 :: os0)).
    { pose proof (read_part read_oo (o0 :: os0) _ Wo No [c_sp] [] (or_intror eq_refl) (or_introl eq_refl)) as R.
      rewrite app_nil_r in R. exact R. }
    rewrite RD1, RO. reflexivity.
Qed.

(* with the archive-member reading of GNU Make: the three lists must not contain an archive reference or group *)
Theorem rule_header_rt ts ds os :
  ts <> [] -> forallb tname_ok ts = true -> forallb dname_ok ds = true -> forallb oname_ok os = true ->
  ar_free ts = true -> ar_free ds = true -> ar_free os = true ->
  parse_rule_header (header_text us ts ds os) = Some (ts, ds, os).
Proof.
  intros Hne Ht Hd Hoo A1 A2 A3. unfold parse_rule_header. rewrite (rule_words_rt ts ds os Hne Ht Hd Hoo), A1, A2, A3. reflexivity.
Qed.
End Names.

(* ---------- directory sentinels ---------- *)
(* the first occurrence wins, which is the whole word: a suffix of the word equals suf only at the end *)
Lemma strip_suffix_exact suf d : suf <> [] -> strip_suffix suf (d ++ suf) = Some d.
Proof.
  intros Hs. induction d as [|c d IH].
  - cbn [app]. destruct suf; [congruence|]. cbn [strip_suffix]. now rewrite str_eqb_refl.
  - cbn [app strip_suffix]. destruct (str_eqb (c :: d ++ suf) suf) eqn:E.
    + apply str_eqb_eq in E. assert (L := f_equal (@length char) E). cbn [length] in L. rewrite app_length in L. lia.
    + now rewrite IH.
Qed.

Lemma split_blanks_free s : forall cur, blank_free s = true ->
  split_blanks cur s = match cur ++ s with [] => [] | w => [w] end.
Proof.
  induction s as [|c s IH]; intros cur H.
  - cbn [split_blanks]. rewrite app_nil_r. destruct cur; reflexivity.
  - unfold blank_free in H. cbn [existsb] in H. apply negb_true_iff in H. apply orb_false_iff in H as [Hc Hs].
    cbn [split_blanks]. rewrite Hc. rewrite IH by (unfold blank_free; now rewrite Hs). now rewrite <- app_assoc.
Qed.

(* the sentinel of a directory without blanks: patsubst gives the directory back *)
Theorem patsubst_sentinel d : d <> [] -> blank_free d = true -> patsubst_dir_text (sentinel_of d) = d.
Proof.
  intros Hne H. unfold patsubst_dir_text, sentinel_of.
  rewrite split_blanks_free.
  - cbn [app]. destruct (d ++ c_slash :: dir_sentinel) as [|x y] eqn:E; [destruct d; discriminate|]. rewrite <- E.
    cbn [map join_sp]. unfold patsubst_dir. rewrite strip_suffix_exact by discriminate. reflexivity.
  - unfold blank_free in *. rewrite existsb_app. apply negb_true_iff in H. rewrite H. reflexivity.
Qed.

(* the sentinel is again a representable target *)
Lemma sentinel_target_ok us d : target_ok us d = true -> target_ok us (sentinel_of d) = true.
Proof.
  unfold target_ok, sentinel_of. intros H. apply andb_true_iff in H as [H H4]. apply andb_true_iff in H as [H H3]. apply andb_true_iff in H as [H1 H2].
  assert (A : no_bs (d ++ c_slash :: dir_sentinel) = true).
  { unfold no_bs, mem_char in *. apply negb_true_iff in H1. apply negb_true_iff. rewrite existsb_app. apply orb_false_iff. split; [exact H1|reflexivity]. }
  assert (B : forallb (tgt_char_ok us) (d ++ c_slash :: dir_sentinel) = true).
  { rewrite forallb_app, H2. reflexivity. }
  assert (C : no_lead_tilde (d ++ c_slash :: dir_sentinel) = true).
  { destruct d; [discriminate|exact H3]. }
  assert (D : no_trail_blank (d ++ c_slash :: dir_sentinel) = true).
  { unfold no_trail_blank. rewrite rev_app_distr. reflexivity. }
  now rewrite A, B, C, D.
Qed.

(* ---------- directory_deps of a step: every distinct output directory other than the build directory gets exactly one
   sentinel, whatever the other output directories of the step are called (in particular a directory whose name is a
   character-wise prefix of the name of a sibling) ---------- *)
Lemma str_mem_In x l : str_mem x l = true <-> In x l.
Proof.
  unfold str_mem. rewrite existsb_exists. split.
  - intros [y [Hy E]]. apply str_eqb_eq in E. now subst.
  - intros H. exists x. split; [assumption|apply str_eqb_refl].
Qed.

Lemma uniq_strs_In x : forall l seen, In x (uniq_strs seen l) <-> In x l /\ ~ In x seen.
Proof.
  induction l as [|y l IH]; intros seen; cbn [uniq_strs].
  - cbn. tauto.
  - destruct (str_mem y seen) eqn:E.
    + apply str_mem_In in E. rewrite IH. cbn [In]. split; [tauto|].
      intros [[->|H] Hn]; [contradiction|tauto].
    + assert (Hy : ~ In y seen) by (intros H; apply str_mem_In in H; congruence).
      cbn [In]. rewrite IH. cbn [In]. split.
      * intros [->|[H Hn]]; [tauto|]. split; [tauto|]. intros H2. apply Hn. now right.
      * intros [[->|H] Hn]; [now left|]. destruct (str_eqb y x) eqn:Eq.
        { apply str_eqb_eq in Eq. now left. }
        right. split; [assumption|]. intros [->|H2]; [now rewrite str_eqb_refl in Eq|contradiction].
Qed.

Lemma uniq_strs_NoDup : forall l seen, NoDup (uniq_strs seen l).
Proof.
  induction l as [|y l IH]; intros seen; cbn [uniq_strs]; [constructor|].
  destruct (str_mem y seen); [apply IH|]. constructor; [|apply IH].
  rewrite uniq_strs_In. intros [_ H]. apply H. now left.
Qed.

Lemma sentinel_of_inj a b : sentinel_of a = sentinel_of b -> a = b.
Proof. unfold sentinel_of. apply app_inv_tail. Qed.

Lemma NoDup_filter_keep {T} (f : T -> bool) l : NoDup l -> NoDup (filter f l).
Proof.
  induction 1 as [|x l Hx Hl IH]; cbn [filter]; [constructor|].
  destruct (f x); [|assumption]. constructor; [|assumption]. rewrite filter_In. tauto.
Qed.

Lemma NoDup_map_injective {A B} (f : A -> B) l : (forall a b, f a = f b -> a = b) -> NoDup l -> NoDup (map f l).
Proof.
  intros Hf. induction 1 as [|x l Hx Hl IH]; cbn [map]; [constructor|].
  constructor; [|assumption]. rewrite in_map_iff. intros [y [E Hy]]. apply Hf in E. now subst.
Qed.

Theorem directory_deps_exact dirs :
  (forall s, In s (directory_deps dirs) <-> exists d, In d dirs /\ d <> [] /\ s = sentinel_of d) /\
  NoDup (directory_deps dirs).
Proof.
  unfold directory_deps. split.
  - intros s. rewrite in_map_iff. split.
    + intros [d [<- H]]. apply filter_In in H as [H1 H2]. apply uniq_strs_In in H1 as [H1 _].
      exists d. repeat split; [assumption|]. now destruct d.
    + intros [d [H1 [H2 ->]]]. exists d. split; [reflexivity|]. apply filter_In. split.
      * apply uniq_strs_In. split; [assumption|intros []].
      * now destruct d.
  - apply NoDup_map_injective; [exact sentinel_of_inj|]. apply NoDup_filter_keep, uniq_strs_NoDup.
Qed.
