(* Dispatch entries for whole rule headers and directory sentinels. *)
From BFG Require Import Base.Chars Base.Sx Shell.PosixQuote Make.MakeWrite Make.MakeRead Make.MakeNames Make.MakeCall
  Make.MakeHeader Make.MakeDepfile Make.MakeTable Make.MakeCallTable.
From Coq Require Import String.
Local Open Scope N_scope.

(* recipe encoding: [] none, [0 items] inline entity, [1 [[silent items]...]] lines *)
Definition un_recipe (x : sx) : recipe :=
  match un_list x with
  | [] => RNone
  | _ => match un_N (nth_sx 0 x) with
         | 0 => RInline (un_items (nth_sx 1 x))
         | _ => RLines (map un_body_line (un_list (nth_sx 1 x)))
         end
  end.

Definition sx_triple (p : list str * list str * list str) : sx :=
  L [sx_list sx_str (fst (fst p)); sx_list sx_str (snd (fst p)); sx_list sx_str (snd p)].

Definition table : list (string * (sx -> sx)) := [
  (* uw us tvars phony targets deps order_only recipe *)
  ("make.write_rule", fun a => sx_opt sx_str
      (write_rule (cls_of (nth_sx 0 a)) (cls_of (nth_sx 1 a))
         (map (fun p => (un_str (nth_sx 0 p), un_items (nth_sx 1 p))) (un_list (nth_sx 2 a)))
         (un_bool (nth_sx 3 a)) (un_items (nth_sx 4 a)) (un_items (nth_sx 5 a)) (un_items (nth_sx 6 a)) (un_recipe (nth_sx 7 a))));
  (* us targets deps order_only (plain names) *)
  ("make.header_text", fun a => sx_str
      (header_text (cls_of (nth_sx 0 a)) (un_strs (nth_sx 1 a)) (un_strs (nth_sx 2 a)) (un_strs (nth_sx 3 a))));
  ("make.parse_rule_header", fun a => sx_opt sx_triple (parse_rule_header (un_str (nth_sx 0 a))));
  ("make.parse_rule_words", fun a => sx_opt sx_triple (parse_rule_words (un_str (nth_sx 0 a))));
  ("make.ar_free", fun a => sx_bool (ar_free (un_strs (nth_sx 0 a))));
  (* us output dirs makeify *)
  ("make.depfile_text", fun a => sx_str
      (depfile_text (cls_of (nth_sx 0 a)) (un_str (nth_sx 1 a)) (un_strs (nth_sx 2 a)) (un_bool (nth_sx 3 a))));
  ("make.patsubst_dir", fun a => sx_str (patsubst_dir_text (un_str (nth_sx 0 a))));
  ("make.sentinel_of", fun a => sx_str (sentinel_of (un_str (nth_sx 0 a))));
  (* the parent directory of every output of one step, in output order *)
  ("make.directory_deps", fun a => sx_list sx_str (directory_deps (un_strs (nth_sx 0 a))))
]%string.
