(* File names in rule headers: a generic decoder for the backslash escaping (gives injectivity for every
   string), and the reading of words by GNU Make 4.3 (R model, validated against /usr/bin/make). *)
From BFG Require Import Base.Chars Make.MakeWrite Make.MakeRead.
Local Open Scope N_scope.

(* inverse of bs_esc for a known [special] predicate; None when the text is not in the image *)
Fixpoint bs_unesc (special : char -> bool) (pend : nat) (s : str) : option str :=
  match s with
  | [] => Some (repeat c_bs pend)
  | c :: r =>
    if N.eqb c c_bs then bs_unesc special (S pend) r
    else if special c then
      if Nat.even pend then None
      else option_map (fun x => repeat c_bs (Nat.div2 pend) ++ c :: x) (bs_unesc special 0 r)
    else option_map (fun x => repeat c_bs pend ++ c :: x) (bs_unesc special 0 r)
  end.

Definition bs_unesc_top (special : char -> bool) (s : str) : option str :=
  match s with
  | a :: b :: r =>
    if N.eqb a c_bs && N.eqb b c_tilde && negb (special c_tilde)
    then option_map (cons c_tilde) (bs_unesc special 0 r)
    else bs_unesc special 0 s
  | _ => bs_unesc special 0 s
  end.

(* --- GNU Make's reading of a rule-header word (no file-system globbing: names with wildcard
   characters are outside the representable set) --- *)
(* characters whose preceding backslash Make removes, on the target side and on the prerequisite side *)
Definition tgt_unesc (c : char) : bool := mem_char c [32; 58; 35; 37].      (* space : # % *)
Definition dep_unesc (c : char) : bool := mem_char c [32; 58; 35; 124].     (* space : # | *)
(* characters that cannot stand unescaped inside a word of the fragment *)
Definition tgt_stop (c : char) : bool := mem_char c [58; 35; 59; 61; 9; 37; 42; 63; 91; 93].
Definition dep_stop (c : char) : bool := mem_char c [58; 35; 59; 61; 9; 124; 42; 63; 91; 93].

Definition read_target (s : str) := read_word tgt_unesc tgt_stop 0 s.
Definition read_dep (s : str) := read_word dep_unesc dep_stop 0 s.

(* names the Make backend can represent as a target / as a prerequisite, given how they are escaped *)
Definition no_bs (s : str) : bool := negb (mem_char c_bs s).
Definition tgt_char_ok (us : char -> bool) (c : char) : bool :=
  if target_special us c then tgt_unesc c else negb (tgt_stop c || tgt_unesc c).
Definition dep_char_ok (us : char -> bool) (c : char) : bool :=
  if dep_special us c then dep_unesc c else negb (dep_stop c || dep_unesc c).
Definition no_lead_tilde (s : str) : bool := match s with c :: _ => negb (N.eqb c c_tilde) | [] => false end.
Definition no_trail_blank (s : str) : bool :=
  match rev s with c :: _ => negb (is_mk_blank c || N.eqb c c_amp) | [] => false end.
Definition target_ok (us : char -> bool) (s : str) : bool :=
  no_bs s && forallb (tgt_char_ok us) s && no_lead_tilde s && no_trail_blank s.
Definition dep_ok (us : char -> bool) (s : str) : bool :=
  no_bs s && forallb (dep_char_ok us) s && no_lead_tilde s && no_trail_blank s.
