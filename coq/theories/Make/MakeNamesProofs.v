From Coq Require Import Arith PeanoNat String.
From BFG Require Import Base.Chars Make.MakeWrite Make.MakeRead Make.MakeNames Make.MakeProofs.
Local Open Scope N_scope.

Lemma bs_unesc_run special p n x : bs_unesc special p (repeat c_bs n ++ x) = bs_unesc special (p + n) x.
Proof.
  revert p; induction n as [|n IH]; intros p; cbn [repeat app].
  - now rewrite Nat.add_0_r.
  - cbn [bs_unesc]. change (N.eqb c_bs c_bs) with true. cbn iota. rewrite IH. f_equal. lia.
Qed.

(* decoding the escaped text gives back the string, for every string and every pending run *)
Theorem bs_unesc_esc special s : forall q,
  special c_bs = false ->
  bs_unesc special 0 (bs_esc special q s) = Some (repeat c_bs q ++ s).
Proof.
  induction s as [|c s IH]; intros q Hbs.
  - cbn [bs_esc]. rewrite <- (app_nil_r (repeat c_bs q)) at 1. rewrite bs_unesc_run. cbn. now rewrite app_nil_r.
  - cbn [bs_esc]. destruct (N.eqb c c_bs) eqn:Eb.
    + apply N.eqb_eq in Eb; subst c. rewrite IH by assumption. f_equal. apply repeat_S_app.
    + destruct (special c) eqn:Sp.
      * rewrite bs_unesc_run. cbn [bs_unesc]. change (N.eqb c_bs c_bs) with true. cbn iota.
        rewrite Eb, Sp.
        replace (S (0 + (q + q)))%nat with (q + q + 1)%nat by lia.
        rewrite even_double_S, div2_double_S, IH by assumption. reflexivity.
      * rewrite bs_unesc_run. cbn [bs_unesc]. rewrite Eb, Sp, IH by assumption. reflexivity.
Qed.

Definition hd_not_bs (s : str) : bool := match s with c :: _ => negb (N.eqb c c_bs) | [] => true end.

(* with the top-level ^~ alternative; the guard excludes strings that begin with a backslash, for which the
   escaping is genuinely ambiguous (see esc_top_collision) *)
Theorem bs_unesc_esc_top special s :
  special c_bs = false -> hd_not_bs s = true ->
  bs_unesc_top special (bs_esc_top special s) = Some s.
Proof.
  intros Hbs Hh. destruct s as [|c r]; [reflexivity|]. cbn [bs_esc_top]. cbn in Hh. apply negb_true_iff in Hh.
  destruct (N.eqb c c_tilde) eqn:Et.
  - apply N.eqb_eq in Et; subst c. unfold bs_unesc_top.
    change (N.eqb c_bs c_bs) with true. change (N.eqb c_tilde c_tilde) with true. cbn [andb].
    destruct (special c_tilde) eqn:St; cbn [negb].
    + change (c_bs :: c_tilde :: bs_esc special 0 r) with (repeat c_bs 1 ++ c_tilde :: bs_esc special 0 r).
      rewrite bs_unesc_run. cbn [bs_unesc]. change (N.eqb c_tilde c_bs) with false. cbn iota. rewrite St.
      cbn. rewrite (bs_unesc_esc special r 0 Hbs). reflexivity.
    + rewrite (bs_unesc_esc special r 0 Hbs). reflexivity.
  - pose proof (bs_unesc_esc special (c :: r) 0 Hbs) as H. cbn [repeat app] in H.
    unfold bs_unesc_top. cbn [bs_esc] in *. rewrite Hh in *.
    destruct (special c) eqn:Sp; cbn [repeat app Nat.add] in *.
    + cbn beta iota. change (N.eqb c_bs c_bs) with true. rewrite Et. cbn [andb]. exact H.
    + destruct (bs_esc special 0 r) as [|b t]; [exact H|]. cbn beta iota. rewrite Hh. cbn [andb]. exact H.
Qed.

Example esc_top_collision :
  bs_esc_top (target_special (fun _ => false)) (STR "~x") = bs_esc_top (target_special (fun _ => false)) (c_bs :: STR "~x").
Proof. reflexivity. Qed.

Corollary bs_esc_top_injective special a b :
  special c_bs = false -> hd_not_bs a = true -> hd_not_bs b = true ->
  bs_esc_top special a = bs_esc_top special b -> a = b.
Proof.
  intros Hs Ha Hb E. pose proof (bs_unesc_esc_top special a Hs Ha) as H1.
  rewrite E, (bs_unesc_esc_top special b Hs Hb) in H1. now inversion H1.
Qed.

Lemma dollar_esc_injective a : forall b, dollar_esc a = dollar_esc b -> a = b.
Proof.
  induction a as [|c a IH]; intros [|d b] E; cbn [dollar_esc] in E.
  - reflexivity.
  - destruct (N.eqb d c_dollar); discriminate.
  - destruct (N.eqb c c_dollar); discriminate.
  - destruct (N.eqb c c_dollar) eqn:Ec; destruct (N.eqb d c_dollar) eqn:Ed.
    + apply N.eqb_eq in Ec, Ed. subst. inversion E. f_equal. now apply IH.
    + inversion E as [[H1 H2]]. subst d. now rewrite N.eqb_refl in Ed.
    + inversion E as [[H1 H2]]. subst c. now rewrite N.eqb_refl in Ec.
    + inversion E. f_equal. now apply IH.
Qed.

(* ---- GNU Make reads the escaped name back (names without backslash, representable characters) ---- *)
Lemma read_word_rt (unesc stop special : char -> bool) (n : str) :
  (forall c, In c n -> N.eqb c c_bs = false /\
     (if special c then unesc c = true else (stop c || unesc c) = false)) ->
  read_word unesc stop 0 (bs_esc special 0 n) = Some (n, []).
Proof.
  induction n as [|c n IH]; intros H.
  - reflexivity.
  - destruct (H c (or_introl eq_refl)) as [Hb Hc].
    assert (Hn : forall d, In d n -> N.eqb d c_bs = false /\
               (if special d then unesc d = true else (stop d || unesc d) = false))
      by (intros d Hd; apply H; now right).
    specialize (IH Hn). cbn [bs_esc]. rewrite Hb.
    destruct (special c) eqn:Sp; cbn [repeat app Nat.add].
    + cbn [read_word]. change (N.eqb c_bs c_bs) with true. cbn iota. rewrite Hb, Hc.
      cbn [Nat.even Nat.div2 repeat app]. rewrite IH. reflexivity.
    + apply orb_false_iff in Hc as [Hs Hu]. cbn [read_word]. rewrite Hb, Hu, Hs, IH. reflexivity.
Qed.

Lemma ok_chars_spec (ok special unesc stop : char -> bool) (n : str) :
  (forall c, ok c = (if special c then unesc c else negb (stop c || unesc c))) ->
  no_bs n = true -> forallb ok n = true ->
  forall c, In c n -> N.eqb c c_bs = false /\
     (if special c then unesc c = true else (stop c || unesc c) = false).
Proof.
  intros Hok Hb Hf c Hc. split.
  - unfold no_bs in Hb. apply negb_true_iff in Hb.
    destruct (N.eqb c c_bs) eqn:E; [|reflexivity]. apply N.eqb_eq in E; subst c.
    assert (mem_char c_bs n = true) by (now apply mem_char_In). congruence.
  - rewrite forallb_forall in Hf. specialize (Hf c Hc). rewrite Hok in Hf.
    destruct (special c); [exact Hf|now apply negb_true_iff in Hf].
Qed.

Theorem target_read_rt us n :
  target_ok us n = true -> read_target (bs_esc_top (target_special us) n) = Some (n, []).
Proof.
  unfold target_ok. intros H. apply andb_true_iff in H as [H _]. apply andb_true_iff in H as [H Ht]. apply andb_true_iff in H as [Hb Hf].
  unfold read_target. destruct n as [|c r]; [discriminate|]. cbn [bs_esc_top]. cbn in Ht.
  apply negb_true_iff in Ht. rewrite Ht.
  apply read_word_rt. apply (ok_chars_spec (tgt_char_ok us)); try assumption. reflexivity.
Qed.

Theorem dep_read_rt us n :
  dep_ok us n = true -> read_dep (bs_esc_top (dep_special us) n) = Some (n, []).
Proof.
  unfold dep_ok. intros H. apply andb_true_iff in H as [H _]. apply andb_true_iff in H as [H Ht]. apply andb_true_iff in H as [Hb Hf].
  unfold read_dep. destruct n as [|c r]; [discriminate|]. cbn [bs_esc_top]. cbn in Ht.
  apply negb_true_iff in Ht. rewrite Ht.
  apply read_word_rt. apply (ok_chars_spec (dep_char_ok us)); try assumption. reflexivity.
Qed.

Example target_ok_example :
  target_ok (fun _ => false) (STR "my file: a#b (1) {x} @+,!&~.c") = true.
Proof. reflexivity. Qed.
