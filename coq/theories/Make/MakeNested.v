(* Channel N: nested test drivers.  W model of bfg9000/builtins/tests.py _build_commands for the Make backend.
   A test is a command (the items local_env(env, cmd) produces) with the tests it drives; a TestCase has none.
   Below the top level (collapse=True) the command line of a test is written with write_shell (every dollar sign
   doubled), shell-quoted as a whole when it has more than one item, and handed to its driver as ONE literal
   argument.  The top level yields one recipe line per test. *)
From BFG Require Import Base.Chars Shell.PosixQuote Make.MakeWrite Make.MakeCall.
Local Open Scope N_scope.

Inductive tnode := TNode (cmd : list (list mfrag)) (kids : list tnode).

Section W.
Variable uw us : char -> bool.

(* command(test, args) with collapse=True; [items] = subcmd *)
Definition collapse (items : list (list mfrag)) : option mfrag :=
  match write_each uw us items SynShell with
  | Some s => Some (MLit (if Nat.ltb 1 (length items) then quote uw s else s))
  | None => None
  end.

Fixpoint build_collapsed (t : tnode) : option mfrag :=
  match t with
  | TNode cmd kids =>
    match map_opt build_collapsed kids with
    | Some args => collapse (cmd ++ map (fun a => [a]) args)
    | None => None
    end
  end.

(* the top level (collapse=False): the items of one recipe line *)
Definition build_top (t : tnode) : option (list (list mfrag)) :=
  match t with
  | TNode cmd kids => option_map (fun args => cmd ++ map (fun a => [a]) args) (map_opt build_collapsed kids)
  end.

Definition build_commands (ts : list tnode) : option (list (list (list mfrag))) := map_opt build_top ts.

(* the recipe lines of the  test  rule *)
Definition test_recipe (ts : list tnode) : option (list str) :=
  match build_commands ts with
  | Some cmds => map_opt (write_recipe_line uw us) cmds
  | None => None
  end.
End W.

(* ---- trees of plain words (the domain of the theorem) ---- *)
Inductive wnode := WNode (ws : list str) (kids : list wnode).

Fixpoint to_tnode (w : wnode) : tnode :=
  match w with WNode ws kids => TNode (words_items ws) (map to_tnode kids) end.

Section Spec.
Variable uw : char -> bool.

(* the sh text of a collapsed test (before the dollar signs are doubled) *)
Definition col (xs : list str) : str :=
  let s := join_sp xs in if Nat.ltb 1 (length xs) then quote uw s else s.

Fixpoint sh_text (w : wnode) : str :=
  match w with WNode ws kids => col (map (quote uw) ws ++ map sh_text kids) end.

(* the argument string the driver of [w] receives for it: the word itself for a one-word test without children,
   otherwise the command line of the test *)
Definition arg_of (w : wnode) : str :=
  match w with
  | WNode [x] [] => x
  | WNode ws kids => join_sp (map (quote uw) ws ++ map sh_text kids)
  end.
End Spec.
