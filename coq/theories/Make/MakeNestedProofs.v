From Coq Require Import Arith PeanoNat Lia.
From BFG Require Import Base.Chars Shell.PosixQuote Shell.Sh Shell.PosixQuoteProofs
  Make.MakeWrite Make.MakeRead Make.MakeProofs Make.MakeCall Make.MakeCallProofs Make.MakeNested.
Local Open Scope N_scope.

(* ---------- quoting commutes with the doubling of dollar signs ---------- *)
Definition wq_gen (s : str) : str :=
  let body1 := if starts_q s then tl s else s in
  let body := if ends_q s then removelast body1 else body1 in
  (if starts_q s then [] else [c_sq]) ++ body ++ (if ends_q s then [] else [c_sq]).

Lemma wrap_gen y : (starts_q y || ends_q y = true -> (3 <= length y)%nat) -> wrap_quotes y = wq_gen y.
Proof.
  intros H. unfold wrap_quotes, wq_gen. destruct (Nat.ltb (length y) 3) eqn:L; [|reflexivity].
  apply Nat.ltb_lt in L. destruct (starts_q y || ends_q y) eqn:F; [specialize (H eq_refl); lia|].
  apply orb_false_iff in F as [-> ->]. reflexivity.
Qed.

Lemma esc_long s : starts_q (esc s) || ends_q (esc s) = true -> (3 <= length (esc s))%nat.
Proof.
  rewrite starts_esc, ends_esc. intros H. apply orb_true_iff in H as [H | H].
  - apply starts_q_inv in H as [s1 ->]. cbn [esc]. change (N.eqb c_sq c_sq) with true. cbn. lia.
  - apply ends_q_inv in H as [s2 ->]. rewrite esc_app, app_length. cbn [esc]. change (N.eqb c_sq c_sq) with true. cbn. lia.
Qed.

Lemma esc_dollar_esc s : esc (dollar_esc s) = dollar_esc (esc s).
Proof.
  induction s as [|c s IH]; [reflexivity|]. cbn [dollar_esc esc].
  destruct (N.eqb c c_dollar) eqn:Ed; destruct (N.eqb c c_sq) eqn:Eq.
  - apply N.eqb_eq in Ed, Eq. subst c. discriminate.
  - apply N.eqb_eq in Ed; subst c. cbn [esc dollar_esc]. change (N.eqb c_dollar c_sq) with false.
    change (N.eqb c_dollar c_dollar) with true. cbv iota. now rewrite IH.
  - apply N.eqb_eq in Eq; subst c. cbn [esc dollar_esc]. change (N.eqb c_sq c_sq) with true.
    change (N.eqb c_sq c_dollar) with false. change (N.eqb c_bs c_dollar) with false. cbv iota. now rewrite IH.
  - cbn [esc dollar_esc]. rewrite Ed, Eq. now rewrite IH.
Qed.

Lemma starts_q_dollar y : starts_q (dollar_esc y) = starts_q y.
Proof.
  destruct y as [|c y]; [reflexivity|]. cbn [dollar_esc]. destruct (N.eqb c c_dollar) eqn:E; [|reflexivity].
  apply N.eqb_eq in E; subst c. reflexivity.
Qed.

Lemma dollar_esc_nonempty c : dollar_esc [c] <> [].
Proof. cbn. destruct (N.eqb c c_dollar); discriminate. Qed.

Lemma ends_q_dollar y : ends_q (dollar_esc y) = ends_q y.
Proof.
  destruct (rev y) as [|c r] eqn:E.
  - assert (y = []) by (rewrite <- (rev_involutive y), E; reflexivity). subst. reflexivity.
  - assert (y = rev r ++ [c]) as -> by (rewrite <- (rev_involutive y), E; reflexivity).
    rewrite dollar_esc_app, ends_q_app_ne by apply dollar_esc_nonempty. rewrite ends_q_app.
    cbn [dollar_esc]. destruct (N.eqb c c_dollar) eqn:Ed.
    + apply N.eqb_eq in Ed; subst c. reflexivity.
    + unfold ends_q. cbn. reflexivity.
Qed.

Lemma wq_gen_dollar y : wq_gen (dollar_esc y) = dollar_esc (wq_gen y).
Proof.
  unfold wq_gen. rewrite starts_q_dollar, ends_q_dollar.
  destruct (starts_q y) eqn:S0; destruct (ends_q y) eqn:E0.
  - apply starts_q_inv in S0 as [y1 ->]. cbn [dollar_esc]. change (N.eqb c_sq c_dollar) with false. cbv iota. cbn [tl app].
    rewrite app_nil_r. rewrite app_nil_r. destruct y1 as [|c y1'] eqn:Ey; [reflexivity|]. rewrite <- Ey in *.
    assert (E1 : ends_q y1 = true).
    { subst y1. unfold ends_q in *. cbn [rev] in *.
      destruct (rev y1' ++ [c]) eqn:R; [destruct (rev y1'); discriminate|]. cbn in E0 |- *. exact E0. }
    apply ends_q_inv in E1 as [y3 ->]. rewrite dollar_esc_app. cbn [dollar_esc]. change (N.eqb c_sq c_dollar) with false. cbv iota.
    now rewrite !removelast_last.
  - apply starts_q_inv in S0 as [y1 ->]. cbn [dollar_esc]. change (N.eqb c_sq c_dollar) with false. cbv iota. cbn [tl app].
    rewrite dollar_esc_app. reflexivity.
  - apply ends_q_inv in E0 as [y2 ->]. rewrite dollar_esc_app. cbn [dollar_esc]. change (N.eqb c_sq c_dollar) with false. cbv iota.
    rewrite !removelast_last, !app_nil_r. cbn [app dollar_esc]. change (N.eqb c_sq c_dollar) with false. cbv iota. reflexivity.
  - cbn [app dollar_esc]. change (N.eqb c_sq c_dollar) with false. cbv iota. rewrite dollar_esc_app. reflexivity.
Qed.

Lemma wrap_esc_dollar x : wrap_quotes (esc (dollar_esc x)) = dollar_esc (wrap_quotes (esc x)).
Proof.
  rewrite (wrap_gen (esc (dollar_esc x))) by apply esc_long.
  rewrite (wrap_gen (esc x)) by apply esc_long.
  rewrite esc_dollar_esc. apply wq_gen_dollar.
Qed.

Section Q.
Variable uw : char -> bool.

Lemma bad_dollar_esc x : existsb (posix_bad uw) (dollar_esc x) = existsb (posix_bad uw) x.
Proof.
  induction x as [|c x IH]; [reflexivity|]. cbn [dollar_esc]. destruct (N.eqb c c_dollar) eqn:E.
  - apply N.eqb_eq in E; subst c. cbn [existsb]. change (posix_bad uw c_dollar) with true. reflexivity.
  - cbn [existsb]. now rewrite IH.
Qed.

Lemma notbad_dollar_esc x : existsb (posix_bad uw) x = false -> dollar_esc x = x.
Proof.
  induction x as [|c x IH]; intros H; [reflexivity|]. cbn [existsb] in H. apply orb_false_iff in H as [Hc Hx].
  cbn [dollar_esc]. rewrite (notbad_neq uw c c_dollar Hc eq_refl). now rewrite IH.
Qed.

Theorem quote_dollar_esc x : quote uw (dollar_esc x) = dollar_esc (quote uw x).
Proof.
  unfold quote, quote_bit, inner_quote_info. destruct x as [|c x]; [reflexivity|].
  destruct (dollar_esc (c :: x)) as [|d y] eqn:D.
  { cbn [dollar_esc] in D. destruct (N.eqb c c_dollar); discriminate. }
  rewrite <- D, bad_dollar_esc. destruct (existsb (posix_bad uw) (c :: x)) eqn:B; cbn [fst].
  - apply wrap_esc_dollar.
  - now rewrite (notbad_dollar_esc _ B).
Qed.
End Q.

Lemma map_opt_map {T U V} (f : U -> option V) (h : T -> U) (g : T -> V) l :
  (forall k, In k l -> f (h k) = Some (g k)) -> map_opt f (map h l) = Some (map g l).
Proof.
  induction l as [|x l IH]; intros H; [reflexivity|]. cbn [map].
  change (map_opt f (h x :: map h l)) with (match f (h x), map_opt f (map h l) with Some y, Some ys => Some (y :: ys) | _, _ => None end).
  rewrite (H x (or_introl eq_refl)), IH; [reflexivity|]. intros k Hk. apply H. now right.
Qed.

Lemma map_opt_one {T U} (f : T -> option U) x : map_opt f [x] = option_map (fun y => [y]) (f x).
Proof. cbn. destruct (f x); reflexivity. Qed.

(* ---------- W: the text of a collapsed test ---------- *)
Section WN.
Variable uw us : char -> bool.

Lemma write_each_texts items : forall texts,
  Forall2 (fun it t => exists e, write_jbos uw us it SynShell QInfo = Some (t, e)) items texts ->
  write_each uw us items SynShell = Some (join_sp texts).
Proof.
  induction items as [|it items IH]; intros texts H; inversion H as [|? t ? ts [e He] Hr]; subst; [reflexivity|].
  destruct items as [|it2 items'].
  - inversion Hr; subst. cbn [write_each join_sp]. now rewrite He.
  - inversion Hr as [|? t2 ? ts2 H2 Hr2]; subst.
    change (write_each uw us (it :: it2 :: items') SynShell)
      with (match write_jbos uw us it SynShell QInfo, write_each uw us (it2 :: items') SynShell with
            | Some (t, _), Some u => Some (t ++ c_sp :: u) | _, _ => None end).
    rewrite He, (IH _ Hr). reflexivity.
Qed.

Definition no_nl_word (w : str) : bool := negb (has_nl w).

Lemma write_word_item w : no_nl_word w = true ->
  exists e, write_jbos uw us [MStr w] SynShell QInfo = Some (dollar_esc (quote uw w), e).
Proof.
  intros H. rewrite write_jbos_word. unfold escape_str. apply negb_true_iff in H. rewrite has_nl_quote, H. eauto.
Qed.

Lemma write_lit_item s : exists e, write_jbos uw us [MLit s] SynShell QInfo = Some (s, e).
Proof. cbn. rewrite app_nil_r. eauto. Qed.

(* a command line: plain words followed by the literals of the collapsed children *)
Lemma write_cmdline ws lits : forallb no_nl_word ws = true ->
  write_each uw us (words_items ws ++ map (fun a => [a]) (map MLit lits)) SynShell =
  Some (join_sp (map (fun w => dollar_esc (quote uw w)) ws ++ lits)).
Proof.
  intros H. apply write_each_texts. apply Forall2_app.
  - induction ws as [|w ws IH]; [constructor|]. cbn [forallb] in H. apply andb_true_iff in H as [Hw Hr].
    cbn [words_items map]. constructor; [now apply write_word_item|now apply IH].
  - clear. induction lits as [|s lits IH]; [constructor|]. cbn [map]. constructor; [apply write_lit_item|exact IH].
Qed.

Fixpoint wf (w : wnode) : bool :=
  match w with
  | WNode ws kids => match ws with [] => false | _ => true end && forallb no_nl_word ws && forallb wf kids
  end.

(* induction principle with the children handled by Forall *)
Fixpoint wnode_ind' (P : wnode -> Prop) (H : forall ws kids, Forall P kids -> P (WNode ws kids)) (w : wnode) : P w :=
  match w with
  | WNode ws kids =>
    H ws kids ((fix go (l : list wnode) : Forall P l :=
                  match l with [] => Forall_nil P | k :: r => Forall_cons k (wnode_ind' P H k) (go r) end) kids)
  end.

Lemma dollar_esc_join_app a b : dollar_esc (join_sp (a ++ b)) = join_sp (map dollar_esc a ++ map dollar_esc b).
Proof. now rewrite dollar_esc_join, map_app. Qed.

Lemma collapsed_text w : wf w = true -> build_collapsed uw us (to_tnode w) = Some (MLit (dollar_esc (sh_text uw w))).
Proof.
  induction w as [ws kids IH] using wnode_ind'. intros H. cbn [wf] in H.
  apply andb_true_iff in H as [H Hk]. apply andb_true_iff in H as [Hne Hnl].
  cbn [to_tnode build_collapsed].
  assert (K : map_opt (build_collapsed uw us) (map to_tnode kids) = Some (map MLit (map (fun k => dollar_esc (sh_text uw k)) kids))).
  { rewrite map_map. apply map_opt_map. intros k Hk'. rewrite Forall_forall in IH. apply (IH k Hk').
    rewrite forallb_forall in Hk. now apply Hk. }
  rewrite K. unfold collapse. rewrite (write_cmdline ws _ Hnl).
  rewrite app_length, !map_length. unfold words_items. rewrite map_length.
  cbn [sh_text]. unfold col. rewrite app_length, !map_length.
  rewrite <- (map_map (sh_text uw) dollar_esc), <- (map_map (quote uw) dollar_esc), <- dollar_esc_join_app.
  destruct (Nat.ltb 1 (length ws + length kids)); [now rewrite quote_dollar_esc|reflexivity].
Qed.

Lemma build_top_text ws kids : forallb no_nl_word ws = true -> forallb wf kids = true ->
  build_top uw us (to_tnode (WNode ws kids)) =
  Some (words_items ws ++ map (fun a => [a]) (map MLit (map (fun k => dollar_esc (sh_text uw k)) kids))).
Proof.
  intros Hnl Hk. cbn [to_tnode build_top].
  assert (K : map_opt (build_collapsed uw us) (map to_tnode kids) = Some (map MLit (map (fun k => dollar_esc (sh_text uw k)) kids))).
  { rewrite map_map. apply map_opt_map. intros k Hk'. apply collapsed_text. rewrite forallb_forall in Hk. now apply Hk. }
  now rewrite K.
Qed.
End WN.

(* ---------- sh: what a driver receives and what the next round of sh makes of it ---------- *)
Section R.
Variable uw : char -> bool.
Notation lex := (Sh.lex uw).

(* [x] is read by sh, in any context, as the single word [a] *)
Definition img (x a : str) : Prop :=
  exists b, forall inw cur rest, lex false inw cur (x ++ rest) = lex false true (cur ++ fl b a) rest.

Lemma img_quote s : img (quote uw s) s.
Proof. exists (needs_quote uw s). intros. apply quote_img. Qed.

Lemma lex_imgs xs : forall args, Forall2 img xs args ->
  exists ts, lex false false [] (join_sp xs) = Some ts /\ words_only ts = Some args.
Proof.
  induction xs as [|x xs IH]; intros args H; inversion H as [|? a ? args' [b Hb] Hr]; subst.
  - exists []. split; reflexivity.
  - destruct xs as [|y xs'].
    + inversion Hr; subst. cbn [join_sp]. rewrite <- (app_nil_r x), Hb. cbn [app Sh.lex].
      exists [TW (fl b a)]. split; [reflexivity|]. cbn. now rewrite word_str_fl.
    + destruct (IH _ Hr) as (ts & L & W). cbn [join_sp] in *. rewrite Hb, lex_sep, L. cbn [option_map app].
      exists (TW (fl b a) :: ts). split; [reflexivity|]. cbn [words_only]. rewrite W. cbn. now rewrite word_str_fl.
Qed.

Lemma words_imgs xs args : Forall2 img xs args -> sh_words uw (join_sp xs) = Some args.
Proof. intros H. destruct (lex_imgs xs args H) as (ts & L & W). unfold sh_words, sh_lex. now rewrite L. Qed.

(* what it means that the argument string [a] delivers the test [w]: a one-word test without children is the
   word itself (a test file handed to the driver); every other test is a command line that one more round of sh
   splits into the words of the test followed by one argument per child, each of which delivers that child *)
Fixpoint delivers (w : wnode) (a : str) {struct w} : Prop :=
  match w with
  | WNode ws kids =>
    match ws, kids with
    | [x], [] => a = x
    | _, _ =>
      exists args, sh_words uw a = Some (ws ++ args) /\
        (fix all2 (ks : list wnode) (xs : list str) {struct ks} : Prop :=
           match ks, xs with
           | [], [] => True
           | k :: ks', x :: xs' => delivers k x /\ all2 ks' xs'
           | _, _ => False
           end) kids args
    end
  end.

Definition delivers_all (kids : list wnode) (args : list str) : Prop :=
  (fix all2 (ks : list wnode) (xs : list str) {struct ks} : Prop :=
     match ks, xs with
     | [], [] => True
     | k :: ks', x :: xs' => delivers k x /\ all2 ks' xs'
     | _, _ => False
     end) kids args.

Lemma sh_text_img w : wf w = true -> img (sh_text uw w) (arg_of uw w).
Proof.
  destruct w as [ws kids]. intros H. cbn [wf] in H. apply andb_true_iff in H as [H _]. apply andb_true_iff in H as [Hne _].
  cbn [sh_text arg_of]. unfold col.
  destruct ws as [|x [|x2 ws']]; [discriminate| |].
  - destruct kids as [|k kids']; [cbn; apply img_quote|].
    cbn [map app length]. change (Nat.ltb 1 (S (S (length (map (sh_text uw) kids'))))) with true. cbv iota. apply img_quote.
  - cbn [map app length]. change (Nat.ltb 1 (S (S ?n))) with true. cbv iota. apply img_quote.
Qed.

Lemma imgs_cmdline ws kids : forallb wf kids = true ->
  Forall2 img (map (quote uw) ws ++ map (sh_text uw) kids) (ws ++ map (arg_of uw) kids).
Proof.
  intros Hk. apply Forall2_app.
  - clear. induction ws as [|w ws IH]; [constructor|]. cbn [map]. constructor; [apply img_quote|exact IH].
  - induction kids as [|k kids IH]; [constructor|]. cbn [forallb] in Hk. apply andb_true_iff in Hk as [H1 H2].
    cbn [map]. constructor; [now apply sh_text_img|now apply IH].
Qed.

Theorem delivers_arg_of w : wf w = true -> delivers w (arg_of uw w).
Proof.
  induction w as [ws kids IH] using wnode_ind'. intros H. cbn [wf] in H.
  apply andb_true_iff in H as [H Hk]. apply andb_true_iff in H as [Hne Hnl].
  assert (D : delivers_all kids (map (arg_of uw) kids)).
  { clear -IH Hk. induction kids as [|k kids IHk]; [exact I|]. cbn [forallb] in Hk. apply andb_true_iff in Hk as [H1 H2].
    inversion IH as [|? ? P1 P2]; subst. cbn [map delivers_all]. split; [now apply P1|now apply IHk]. }
  assert (G : exists args, sh_words uw (join_sp (map (quote uw) ws ++ map (sh_text uw) kids)) = Some (ws ++ args) /\ delivers_all kids args).
  { exists (map (arg_of uw) kids). split; [now apply words_imgs, imgs_cmdline|exact D]. }
  destruct ws as [|x [|x2 ws']]; [discriminate| |exact G].
  destruct kids as [|k kids']; [reflexivity|exact G].
Qed.

(* ---------- channel N, top level: the recipe line of a test (driver) ---------- *)
Variable us : char -> bool.

Theorem nested_roundtrip v ws kids line :
  wf (WNode ws kids) = true -> head_ok uw ws = true ->
  test_recipe uw us [to_tnode (WNode ws kids)] = Some [line] ->
  exists args,
    match recipe_shell_text v line with Some t => sh_words uw t | None => None end = Some (ws ++ args) /\
    delivers_all kids args.
Proof.
  intros Hwf Hh Hrec. pose proof Hwf as Hwf'. cbn [wf] in Hwf'.
  apply andb_true_iff in Hwf' as [H Hk]. apply andb_true_iff in H as [Hne Hnl].
  unfold test_recipe, build_commands in Hrec. rewrite map_opt_one in Hrec.
  rewrite (build_top_text uw us ws kids Hnl Hk) in Hrec. cbn [option_map] in Hrec. rewrite map_opt_one in Hrec.
  unfold write_recipe_line in Hrec. rewrite (write_cmdline uw us ws _ Hnl) in Hrec.
  cbn [option_map] in Hrec. inversion Hrec; subst line. clear Hrec.
  exists (map (arg_of uw) kids). split.
  - unfold recipe_shell_text. change (N.eqb c_tab c_tab) with true. cbv iota.
    rewrite <- (map_map (quote uw) dollar_esc), <- (map_map (sh_text uw) dollar_esc), <- map_app, <- dollar_esc_join.
    rewrite expand_dollar_esc_id. cbn [option_map].
    rewrite drop_prefix_ok.
    + now apply words_imgs, imgs_cmdline.
    + destruct ws as [|w ws']; [discriminate|]. cbn [map app]. cbn [head_ok] in Hh.
      destruct (map (quote uw) ws' ++ map (sh_text uw) kids) as [|y l] eqn:E.
      * cbn [join_sp]. exact Hh.
      * cbn [join_sp]. destruct (quote uw w) as [|c q] eqn:Q; [now destruct (quote_nonempty uw w)|exact Hh].
  - clear -Hk. induction kids as [|k kids IH]; [exact I|]. cbn [forallb] in Hk. apply andb_true_iff in Hk as [H1 H2].
    cbn [map delivers_all]. split; [now apply delivers_arg_of|now apply IH].
Qed.
End R.
