(* Dispatch entries for channel N (nested test drivers). *)
From BFG Require Import Base.Chars Base.Sx Shell.PosixQuote Make.MakeWrite Make.MakeCall Make.MakeNested Make.MakeTable.
From Coq Require Import String.
Local Open Scope N_scope.

(* tree encoding: [items [kid ...]] *)
Fixpoint un_tnode (fuel : nat) (x : sx) : tnode :=
  match fuel with
  | O => TNode [] []
  | S f => TNode (un_items (nth_sx 0 x)) (map (un_tnode f) (un_list (nth_sx 1 x)))
  end.

Definition table : list (string * (sx -> sx)) := [
  (* uw us trees -> recipe lines *)
  ("make.test_recipe", fun a => sx_opt (sx_list sx_str)
      (test_recipe (cls_of (nth_sx 0 a)) (cls_of (nth_sx 1 a)) (map (un_tnode 12) (un_list (nth_sx 2 a)))));
  (* uw us tree -> the literal handed to the parent *)
  ("make.build_collapsed", fun a => sx_opt sx_str
      (match build_collapsed (cls_of (nth_sx 0 a)) (cls_of (nth_sx 1 a)) (un_tnode 12 (nth_sx 2 a)) with
       | Some (MLit s) => Some s
       | _ => None
       end))
]%string.
