From Coq Require Import Arith PeanoNat.
From BFG Require Import Base.Chars Shell.PosixQuote Shell.Sh Shell.PosixQuoteProofs Make.MakeWrite Make.MakeRead.
Local Open Scope N_scope.

(* ---------- $ layer ---------- *)
Lemma expand_dollar_esc v s : forall rest,
  expand_go v XN (dollar_esc s ++ rest) = option_map (app s) (expand_go v XN rest).
Proof.
  induction s as [|c s IH]; intros rest.
  - cbn. destruct (expand_go v XN rest); reflexivity.
  - cbn [dollar_esc]. destruct (N.eqb c c_dollar) eqn:E.
    + apply N.eqb_eq in E; subst c. cbn [app expand_go].
      change (N.eqb c_dollar c_dollar) with true. cbn iota. rewrite IH.
      destruct (expand_go v XN rest); reflexivity.
    + cbn [app expand_go]. rewrite E, IH. destruct (expand_go v XN rest); reflexivity.
Qed.

Theorem expand_dollar_esc_id v s : expand v (dollar_esc s) = Some s.
Proof.
  unfold expand. rewrite <- (app_nil_r (dollar_esc s)), expand_dollar_esc. cbn. now rewrite app_nil_r.
Qed.

Lemma dollar_esc_app a b : dollar_esc (a ++ b) = dollar_esc a ++ dollar_esc b.
Proof.
  induction a as [|c a IH]; cbn [dollar_esc app]; [reflexivity|].
  destruct (N.eqb c c_dollar); rewrite IH; reflexivity.
Qed.

Lemma dollar_esc_join l : dollar_esc (join_sp l) = join_sp (map dollar_esc l).
Proof.
  induction l as [|x l IH]; [reflexivity|]. destruct l as [|y l'].
  - reflexivity.
  - cbn [join_sp map] in *. rewrite dollar_esc_app. cbn [dollar_esc].
    change (N.eqb c_sp c_dollar) with false. cbn iota. rewrite IH. reflexivity.
Qed.

(* ---------- comment layer ---------- *)
Lemma repeat_snoc {T} (x : T) n : repeat x n ++ [x] = x :: repeat x n.
Proof. induction n as [|n IH]; cbn; [reflexivity|]. now rewrite IH. Qed.

Lemma repeat_S_app {T} (x : T) n l : repeat x (S n) ++ l = repeat x n ++ x :: l.
Proof.
  change (repeat x (S n)) with (x :: repeat x n). rewrite <- repeat_snoc, <- app_assoc. reflexivity.
Qed.

Lemma strip_comment_run p n x : strip_comment p (repeat c_bs n ++ x) = strip_comment (p + n) x.
Proof.
  revert p; induction n as [|n IH]; intros p; cbn [repeat app].
  - now rewrite Nat.add_0_r.
  - cbn [strip_comment]. change (N.eqb c_bs c_bs) with true. cbn iota. rewrite IH. f_equal. lia.
Qed.

Lemma even_double_S q : Nat.even (q + q + 1) = false.
Proof. rewrite Nat.add_1_r, Nat.even_succ, <- Nat.negb_even. replace (q + q)%nat with (2 * q)%nat by lia. now rewrite Nat.even_mul. Qed.

Lemma div2_double_S q : Nat.div2 (q + q + 1) = q.
Proof. replace (q + q + 1)%nat with (S (2 * q)) by lia. apply Nat.div2_succ_double. Qed.

Theorem strip_comment_hash_esc s : forall q,
  strip_comment 0 (bs_esc hash_special q s) = repeat c_bs q ++ s.
Proof.
  induction s as [|c s IH]; intros q.
  - cbn [bs_esc]. rewrite <- (app_nil_r (repeat c_bs q)) at 1. rewrite strip_comment_run. cbn. now rewrite app_nil_r.
  - cbn [bs_esc]. destruct (N.eqb c c_bs) eqn:Eb.
    + apply N.eqb_eq in Eb; subst c. rewrite IH. apply repeat_S_app.
    + unfold hash_special at 1. destruct (N.eqb c c_hash) eqn:Eh.
      * apply N.eqb_eq in Eh; subst c.
        rewrite strip_comment_run. cbn [strip_comment]. change (N.eqb c_bs c_bs) with true. cbn iota.
        change (N.eqb c_hash c_bs) with false. change (N.eqb c_hash c_hash) with true. cbn iota.
        replace (0 + (q + q) + 1)%nat with (q + q + 1)%nat by lia.
        replace (S (0 + (q + q)))%nat with (q + q + 1)%nat by lia.
        rewrite even_double_S, div2_double_S, IH. reflexivity.
      * rewrite strip_comment_run. cbn [strip_comment]. rewrite Eb, Eh, IH. reflexivity.
Qed.

(* the unfixed writer loses everything after an unescaped # *)
Lemma strip_comment_plain_hash a b :
  existsb (fun c => N.eqb c c_bs || N.eqb c c_hash) a = false ->
  strip_comment 0 (a ++ c_hash :: b) = a.
Proof.
  induction a as [|c a IH]; intros H.
  - reflexivity.
  - cbn [existsb] in H. apply orb_false_iff in H as [Hc Ha]. apply orb_false_iff in Hc as [Hb Hh].
    cbn [app strip_comment]. rewrite Hb, Hh. cbn [repeat app]. now rewrite IH.
Qed.

(* ---------- writer characterisation for plain words ---------- *)
Section W.
Variable uw us : char -> bool.

Lemma escape_shell_some s x : escape_str us s SynShell = Some x -> x = dollar_esc s.
Proof. unfold escape_str. destruct (has_nl s); cbn; [discriminate|]. intros H. now inversion H. Qed.

Lemma write_jbos_word w : write_jbos uw us [MStr w] SynShell QInfo =
  match escape_str us (quote uw w) SynShell with
  | Some x => Some (x, snd (quote_bit uw (BStr w)))
  | None => None
  end.
Proof.
  cbn [write_jbos write shelly apply_q]. unfold quote.
  destruct (quote_bit uw (BStr w)) as [qs e]. cbn [fst snd].
  destruct (escape_str us qs SynShell); cbn [option_map cat2]; [rewrite app_nil_r, orb_false_r|]; reflexivity.
Qed.

Lemma write_each_cons w ws :
  write_each uw us (words_items (w :: ws)) SynShell =
  match ws with
  | [] => option_map fst (write_jbos uw us [MStr w] SynShell QInfo)
  | _ => match write_jbos uw us [MStr w] SynShell QInfo, write_each uw us (words_items ws) SynShell with
         | Some (t, _), Some u => Some (t ++ c_sp :: u)
         | _, _ => None
         end
  end.
Proof. destruct ws; reflexivity. Qed.

Lemma write_each_words ws : forall text,
  write_each uw us (words_items ws) SynShell = Some text ->
  text = join_sp (map (fun w => dollar_esc (quote uw w)) ws).
Proof.
  induction ws as [|w ws IH]; intros text H.
  - cbn in H. now inversion H.
  - rewrite write_each_cons, write_jbos_word in H.
    destruct (escape_str us (quote uw w) SynShell) as [x|] eqn:E.
    2:{ destruct ws; discriminate. }
    apply escape_shell_some in E. subst x.
    destruct ws as [|w2 ws'].
    + cbn in H. now inversion H.
    + destruct (write_each uw us (words_items (w2 :: ws')) SynShell) as [u|] eqn:U; [|discriminate].
      inversion H; subst text. rewrite (IH u eq_refl). reflexivity.
Qed.

(* what Make hands to the shell for the written words *)
Lemma expand_written_words v ws :
  expand v (join_sp (map (fun w => dollar_esc (quote uw w)) ws)) = Some (join uw ws).
Proof.
  unfold join. rewrite <- (map_map (quote uw) dollar_esc), <- dollar_esc_join. apply expand_dollar_esc_id.
Qed.

(* first character of a quoted word *)
Lemma wrap_first s : exists c r, wrap_quotes (esc s) = c :: r /\ (c = c_sq \/ c = c_bs).
Proof.
  unfold wrap_quotes. destruct (Nat.ltb (length (esc s)) 3); [eauto|].
  rewrite starts_esc. destruct (starts_q s) eqn:S0.
  - apply starts_q_inv in S0 as [s1 ->].
    change (esc (c_sq :: s1)) with (c_sq :: c_bs :: c_sq :: c_sq :: esc s1). cbn [tl app].
    destruct (ends_q (c_sq :: c_bs :: c_sq :: c_sq :: esc s1)).
    + cbn [removelast]. eexists _, _. split; [reflexivity|]. now right.
    + eexists _, _. split; [reflexivity|]. now right.
  - cbn [app]. eauto.
Qed.

Definition first_ok (p : char -> bool) (s : str) : bool :=
  match s with c :: _ => negb (p c) | [] => true end.

Lemma quote_first_not_blank w : first_ok is_mk_blank (quote uw w) = true.
Proof.
  unfold quote, quote_bit, inner_quote_info. destruct w as [|c w]; [reflexivity|].
  destruct (existsb (posix_bad uw) (c :: w)) eqn:B; cbn [fst].
  - destruct (wrap_first (c :: w)) as [d [r [-> [-> | ->]]]]; reflexivity.
  - cbn [existsb] in B. apply orb_false_iff in B as [Hc _]. cbn.
    pose proof (notbad_blank uw c Hc) as Hb. unfold is_mk_blank. unfold is_blank in Hb. now rewrite Hb.
Qed.

Lemma first_ok_join p w ws : first_ok p (join uw (w :: ws)) = first_ok p (quote uw w).
Proof.
  unfold join. cbn [map join_sp]. destruct (map (quote uw) ws) as [|y l].
  - reflexivity.
  - destruct (quote uw w) eqn:Q; [|reflexivity].
    (* a quoted word is never empty *)
    exfalso. unfold quote, quote_bit, inner_quote_info in Q. destruct w as [|c w']; [discriminate|].
    destruct (existsb (posix_bad uw) (c :: w')); cbn [fst] in Q.
    + destruct (wrap_first (c :: w')) as [d [r [E _]]]. congruence.
    + discriminate.
Qed.

Lemma drop_blanks_ok s : first_ok is_mk_blank s = true -> drop_blanks s = s.
Proof. destruct s as [|c r]; [reflexivity|]. cbn. destruct (is_mk_blank c); [discriminate|reflexivity]. Qed.

Lemma drop_prefix_ok s : first_ok is_prefix_char s = true -> drop_prefix s = s.
Proof. destruct s as [|c r]; [reflexivity|]. cbn. destruct (is_prefix_char c); [discriminate|reflexivity]. Qed.

(* the command word is not eaten by Make as a recipe prefix *)
Definition head_ok (ws : list str) : bool :=
  match ws with w :: _ => first_ok is_prefix_char (quote uw w) | [] => true end.

(* ---------- channel R: recipe line ---------- *)
Theorem recipe_roundtrip v ws line :
  write_recipe_line uw us (words_items ws) = Some line ->
  head_ok ws = true ->
  match recipe_shell_text v line with Some t => sh_words uw t | None => None end = Some ws.
Proof.
  unfold write_recipe_line. intros H Hh.
  destruct (write_each uw us (words_items ws) SynShell) as [text|] eqn:W; [|discriminate].
  inversion H; subst line. apply write_each_words in W. subst text.
  unfold recipe_shell_text. change (N.eqb c_tab c_tab) with true. cbn iota.
  rewrite expand_written_words. cbn [option_map].
  rewrite drop_prefix_ok; [apply join_words|].
  destruct ws as [|w ws']; [reflexivity|]. rewrite first_ok_join. exact Hh.
Qed.

(* ---------- channel V: variable assignment (with the # escaping) ---------- *)
Theorem assign_roundtrip v ws text :
  write_value uw us (words_items ws) SynShell = Some text ->
  assign_value v text = Some (join uw ws).
Proof.
  unfold write_value. intros H.
  destruct (write_each uw us (words_items ws) SynShell) as [t|] eqn:W; [|discriminate].
  inversion H; subst text. apply write_each_words in W. subst t.
  unfold assign_value. rewrite strip_comment_hash_esc. cbn [repeat app].
  rewrite drop_blanks_ok.
  - apply expand_written_words.
  - destruct ws as [|w ws']; [reflexivity|].
    rewrite <- (map_map (quote uw) dollar_esc), <- dollar_esc_join.
    fold (join uw (w :: ws')).
    pose proof (first_ok_join is_mk_blank w ws') as F. rewrite quote_first_not_blank in F.
    destruct (join uw (w :: ws')) as [|c r]; [reflexivity|]. cbn [dollar_esc].
    destruct (N.eqb c c_dollar); cbn in F |- *; [reflexivity|exact F].
Qed.

Theorem assign_words v ws text :
  write_value uw us (words_items ws) SynShell = Some text ->
  match assign_value v text with Some t => sh_words uw t | None => None end = Some ws.
Proof. intros H. rewrite (assign_roundtrip v ws text H). apply join_words. Qed.
End W.

(* ---------- channel P: a path written as root variable + suffix, quoted as one unit ---------- *)
Section PathUnit.
Variable uw us : char -> bool.
Notation lex := (Sh.lex uw).

Definition no_sq (s : str) : bool := negb (mem_char c_sq s).

(* characters inside single quotes are taken literally up to the next quote *)
Lemma lex_inq_plain s : forall cur rest,
  no_sq s = true -> lex true true cur (s ++ rest) = lex true true (cur ++ fl true s) rest.
Proof.
  induction s as [|c s IH]; intros cur rest H.
  - cbn. now rewrite app_nil_r.
  - unfold no_sq, mem_char in H. cbn [existsb] in H. apply negb_true_iff in H. apply orb_false_iff in H as [Hc Hs].
    rewrite N.eqb_sym in Hc. cbn [app Sh.lex]. rewrite Hc. rewrite IH.
    + cbn [fl map]. now rewrite <- app_assoc.
    + unfold no_sq, mem_char. now rewrite Hs.
Qed.

(* the text Make hands to sh for  '<root value><esc suffix>'  with the quotes placed by wrap_quotes *)
Definition path_text (rootval sfx : str) : str := wrap_quotes (rootval ++ esc sfx).

Lemma ends_q_app_ne a b : b <> [] -> ends_q (a ++ b) = ends_q b.
Proof.
  intros Hb. unfold ends_q. rewrite rev_app_distr. destruct (rev b) as [|x r] eqn:E.
  - exfalso. apply Hb. rewrite <- (rev_involutive b), E. reflexivity.
  - reflexivity.
Qed.

Lemma starts_q_app a b : a <> [] -> starts_q (a ++ b) = starts_q a.
Proof. destruct a; [congruence|reflexivity]. Qed.

Lemma removelast_app_ne (a b : str) : b <> [] -> removelast (a ++ b) = a ++ removelast b.
Proof. intros. now apply removelast_app. Qed.

(* sh reads the quoted unit back as root value ++ suffix, provided the root value contains no single quote,
   does not start with one, and is at least 3 characters long or the whole is (so wrap_quotes takes its
   general branch or the short one - both are covered) *)
Theorem path_unit_words rootval sfx :
  no_sq rootval = true -> rootval <> [] ->
  sh_words uw (path_text rootval sfx) = Some [rootval ++ sfx].
Proof.
  intros Hq Hne. unfold sh_words, sh_lex, path_text, wrap_quotes.
  assert (Hst : starts_q (rootval ++ esc sfx) = false).
  { rewrite starts_q_app by assumption. destruct rootval as [|c r]; [congruence|]. cbn.
    unfold no_sq, mem_char in Hq. cbn [existsb] in Hq. apply negb_true_iff in Hq.
    apply orb_false_iff in Hq as [Hc _]. now rewrite N.eqb_sym. }
  assert (W : forall body, body = rootval ++ esc sfx ->
              lex false false [] ((c_sq :: body ++ [c_sq])) = Some [TW (fl true (rootval ++ sfx))]).
  { intros body ->. rewrite open_quote, <- app_assoc, lex_inq_plain by assumption.
    rewrite esc_inq. cbn. now rewrite fl_app. }
  destruct (Nat.ltb (length (rootval ++ esc sfx)) 3).
  - rewrite (W _ eq_refl). cbn. now rewrite word_str_fl.
  - rewrite Hst. destruct (ends_q (rootval ++ esc sfx)) eqn:E.
    + (* the text ends with a quote: it comes from the suffix *)
      destruct sfx as [|c0 s0] eqn:Es.
      * cbn [esc] in E. rewrite app_nil_r in E. exfalso.
        apply ends_q_inv in E as [r Hr]. unfold no_sq in Hq. rewrite Hr in Hq.
        apply negb_true_iff in Hq. assert (mem_char c_sq (r ++ [c_sq]) = true).
        { apply mem_char_In. apply in_or_app. right. now left. } congruence.
      * rewrite <- Es in *. assert (Hs : esc sfx <> []).
        { subst sfx. cbn [esc]. destruct (N.eqb c0 c_sq); discriminate. }
        rewrite ends_q_app_ne in E by assumption. rewrite ends_esc in E.
        apply ends_q_inv in E as [s2 ->].
        rewrite esc_app. cbn [esc]. rewrite N.eqb_refl.
        change [c_sq; c_bs; c_sq; c_sq] with ([c_sq; c_bs; c_sq] ++ [c_sq]).
        rewrite !app_assoc. rewrite removelast_last. cbn [app]. rewrite app_nil_r.
        rewrite open_quote. rewrite <- !app_assoc. rewrite lex_inq_plain by assumption.
        rewrite <- (app_nil_r (esc s2 ++ [c_sq; c_bs; c_sq])), esc_inq_trunc. cbn.
        rewrite <- fl_app. fold (word_str (fl true (rootval ++ s2 ++ [c_sq]))). now rewrite word_str_fl.
    + cbn [app]. rewrite (W _ eq_refl). cbn. now rewrite word_str_fl.
Qed.
End PathUnit.
