(* R model: the part of GNU Make 4.3's reader that interprets what bfg9000 writes.
   - expansion of variable references in recipe text and in immediate (:=) assignments
   - comment stripping in variable assignments
   - recipe prefix characters
   - rule-header words with backslash escapes
   Validated against /usr/bin/make by the harness. *)
From BFG Require Import Base.Chars.
Local Open Scope N_scope.

Definition vars := str -> str.   (* undefined variables expand to the empty string *)

Inductive xst := XN | XD | XR (acc : str).

(* characters allowed in a variable name inside $(...) in the fragment we interpret *)
(* GNU Make reads variable names bytewise: a reference to a non-ASCII name is outside the fragment *)
Definition ref_char (c : char) : bool :=
  (c <? 128) && negb (mem_char c [36; 40; 41; 32; 9; 44; 58; 61; 35; 123; 125]).

Fixpoint expand_go (v : vars) (st : xst) (s : str) : option str :=
  match s with
  | [] => match st with XN => Some [] | _ => None end
  | c :: r =>
    match st with
    | XN => if N.eqb c c_dollar then expand_go v XD r else option_map (cons c) (expand_go v XN r)
    | XD =>
      if N.eqb c c_dollar then option_map (cons c_dollar) (expand_go v XN r)
      else if N.eqb c c_lp then expand_go v (XR []) r
      else if ref_char c then option_map (app (v [c])) (expand_go v XN r)
      else None
    | XR acc =>
      if N.eqb c c_rp then option_map (app (v acc)) (expand_go v XN r)
      else if ref_char c then expand_go v (XR (acc ++ [c])) r
      else None
    end
  end.

Definition expand (v : vars) (s : str) : option str := expand_go v XN s.

(* comment stripping with GNU Make's backslash rule: 2n backslashes + # = n backslashes then a comment,
   2n+1 backslashes + # = n backslashes and a literal #; other backslashes are untouched *)
Fixpoint strip_comment (pend : nat) (s : str) : str :=
  match s with
  | [] => repeat c_bs pend
  | c :: r =>
    if N.eqb c c_bs then strip_comment (S pend) r
    else if N.eqb c c_hash then
      if Nat.even pend then repeat c_bs (Nat.div2 pend)
      else repeat c_bs (Nat.div2 pend) ++ c_hash :: strip_comment 0 r
    else repeat c_bs pend ++ c :: strip_comment 0 r
  end.

Definition is_mk_blank (c : char) : bool := N.eqb c c_sp || N.eqb c c_tab.

Fixpoint drop_blanks (s : str) : str :=
  match s with
  | c :: r => if is_mk_blank c then drop_blanks r else s
  | [] => []
  end.

(* value of  NAME := text  (immediate expansion) *)
Definition assign_value (v : vars) (text : str) : option str :=
  expand v (drop_blanks (strip_comment 0 text)).

(* a recipe line as handed to the shell: leading TAB removed, expanded, then the prefix characters
   @ - + and blanks are skipped *)
Definition is_prefix_char (c : char) : bool := N.eqb c c_at || N.eqb c c_dash || N.eqb c 43 || is_mk_blank c.
Fixpoint drop_prefix (s : str) : str :=
  match s with
  | c :: r => if is_prefix_char c then drop_prefix r else s
  | [] => []
  end.

Definition recipe_shell_text (v : vars) (line : str) : option str :=
  match line with
  | c :: r => if N.eqb c c_tab then option_map drop_prefix (expand v r) else None
  | [] => None
  end.

(* --- rule header words ---
   Reading one word of a rule header after variable expansion: a backslash run followed by one of the
   characters Make un-escapes there is halved and the character taken literally; other backslashes are
   literal; an unescaped blank ends the word; an unescaped character from [stop] is not allowed inside a
   word of the fragment. [unesc] differs between the target side and the prerequisite side. *)
Fixpoint read_word (unesc stop : char -> bool) (pend : nat) (s : str) : option (str * str) :=
  match s with
  | [] => Some (repeat c_bs pend, [])
  | c :: r =>
    if N.eqb c c_bs then read_word unesc stop (S pend) r
    else if unesc c then
      if Nat.even pend then
        (* the character is not escaped *)
        if is_mk_blank c then Some (repeat c_bs (Nat.div2 pend), r)
        else if stop c then None
        else option_map (fun p => (repeat c_bs (Nat.div2 pend) ++ c :: fst p, snd p)) (read_word unesc stop 0 r)
      else option_map (fun p => (repeat c_bs (Nat.div2 pend) ++ c :: fst p, snd p)) (read_word unesc stop 0 r)
    else if stop c then None
    else option_map (fun p => (repeat c_bs pend ++ c :: fst p, snd p)) (read_word unesc stop 0 r)
  end.
