(* R model: the mtime-based out-of-date semantics of GNU Make over a rule graph.  Definitions only; proofs in
   MakeSemProofs.v.  Shared by C03 / C07 / C08 / C10 - keep generic.

   Files are identifiers (N); callers that work with names map them to ids first.
     fs    : file -> option time          None = the file does not exist
     rule  : one target, normal prerequisites, order-only prerequisites, has a recipe?, phony?
             (a Make rule with several targets and a recipe is the same as one rule per target: [expand])
   The rule list is given in a TOPOLOGICAL order: a prerequisite that is the target of a rule is the target
   of an EARLIER rule, and every file has at most one producing rule ([wfb]).  [build] is a left fold over the
   list, i.e. it brings every target of the list up to date, which is what  make all  does when  all  depends
   on everything (callers restrict the list to the rules reachable from their goal).

   For the rule of target t, in order:
     1. a prerequisite (normal or order-only) that does not exist and is not the target of any rule:
        Make stops with  No rule to make target  -> [b_fail] is set, nothing further happens.
     2. the rule must be remade iff it is phony, or t does not exist, or a normal prerequisite p does not exist
        (at this point: it is then the target of a rule without recipe, or phony - Make's rule that a target
        without recipe that does not exist is imagined to have been updated; this is what the empty rules written
        by bfg9000-depfixer exploit), or p is a phony target, or p is newer than t (strictly greater mtime;
        a prerequisite remade in this run is newer because the clock is strictly increasing).  Order-only
        prerequisites never force a remake.  A recipe-less target that EXISTS does not propagate anything by
        itself: its dependents compare mtimes with it (observed with GNU Make 4.3).
     3. remade + has a recipe: the recipe runs (t is appended to [b_log]); a non-phony target is stamped with the
        clock, which then advances (recipes are assumed to create their target; the clock is above every existing
        mtime: [fs_below]).  remade + no recipe: nothing happens.
   Validated against GNU Make 4.3 on generated rule graphs by harness/c07.py (stage R:makesem). *)
From BFG Require Import Base.Chars.
Local Open Scope N_scope.

Definition file := N.
Definition time := N.
Definition fs := file -> option time.

Record rule := mkRule {
  r_target : file;
  r_prereqs : list file;
  r_order : list file;
  r_recipe : bool;
  r_phony : bool
}.

(* a rule header with several targets *)
Record multirule := mkMulti {
  m_targets : list file; m_prereqs : list file; m_order : list file; m_recipe : bool; m_phony : bool
}.
Definition expand1 (m : multirule) : list rule :=
  map (fun t => mkRule t (m_prereqs m) (m_order m) (m_recipe m) (m_phony m)) (m_targets m).
Definition expand (ms : list multirule) : list rule := flat_map expand1 ms.

Definition upd (f : fs) (x : file) (t : time) : fs := fun y => if y =? x then Some t else f y.
Definition del (f : fs) (x : file) : fs := fun y => if y =? x then None else f y.

Definition memf (x : file) (l : list file) : bool := existsb (N.eqb x) l.
Definition targets (rs : list rule) : list file := map r_target rs.
Definition has_rule (rs : list rule) (x : file) : bool := memf x (targets rs).
Definition is_none {T} (o : option T) : bool := match o with None => true | Some _ => false end.

(* p is strictly newer than t (both exist) *)
Definition newer (f : fs) (p t : file) : bool :=
  match f p, f t with
  | Some a, Some b => b <? a
  | _, _ => false
  end.

Record bstate := mkB {
  b_fs : fs;
  b_clk : time;
  b_log : list file;        (* targets whose recipe ran, in order *)
  b_fail : option file      (* the prerequisite nothing can make *)
}.

Definition phony_in (all : list rule) (p : file) : bool :=
  existsb (fun r => (r_target r =? p) && r_phony r) all.

Definition need (all : list rule) (s : bstate) (r : rule) : bool :=
  r_phony r || is_none (b_fs s (r_target r)) ||
  existsb (fun p => is_none (b_fs s p) || phony_in all p || newer (b_fs s) p (r_target r)) (r_prereqs r).

Definition unmakeable (all : list rule) (s : bstate) (p : file) : bool :=
  is_none (b_fs s p) && negb (has_rule all p).

Definition step (all : list rule) (s : bstate) (r : rule) : bstate :=
  match b_fail s with
  | Some _ => s
  | None =>
      match find (unmakeable all s) (r_prereqs r ++ r_order r) with
      | Some p => mkB (b_fs s) (b_clk s) (b_log s) (Some p)
      | None =>
          if need all s r && r_recipe r then
            mkB (if r_phony r then b_fs s else upd (b_fs s) (r_target r) (b_clk s))
                (b_clk s + 1) (b_log s ++ [r_target r]) None
          else s
      end
  end.

Definition init (f : fs) (clk : time) : bstate := mkB f clk [] None.
Definition run (all todo : list rule) (s : bstate) : bstate := fold_left (step all) todo s.
Definition build (rs : list rule) (f : fs) (clk : time) : bstate := run rs rs (init f clk).

(* every mtime is below the clock *)
Definition fs_below (f : fs) (clk : time) : Prop := forall x t, f x = Some t -> t < clk.

(* topological order + one producer per file, as a checkable predicate *)
Fixpoint wfb (rs : list rule) : bool :=
  match rs with
  | [] => true
  | r :: post =>
      forallb (fun p => negb (memf p (targets rs))) (r_prereqs r ++ r_order r) &&
      negb (memf (r_target r) (targets post)) && wfb post
  end.

(* the recipes that run after touching x, predicted from the graph alone: rules with a recipe that have x, or the
   target of an earlier such rule, among their normal prerequisites *)
Definition down_step (x : file) (d : list file) (r : rule) : list file :=
  if r_recipe r && existsb (fun p => (p =? x) || memf p d) (r_prereqs r) then d ++ [r_target r] else d.
Definition down (x : file) (rs : list rule) : list file := fold_left (down_step x) rs [].

(* t is reachable from x along at least one normal-prerequisite edge through rules of rs *)
Inductive downstream (rs : list rule) (x : file) : file -> Prop :=
| ds_direct r : In r rs -> In x (r_prereqs r) -> downstream rs x (r_target r)
| ds_trans r p : In r rs -> In p (r_prereqs r) -> downstream rs x p -> downstream rs x (r_target r).

(* nothing to do: every target exists and is at least as new as its normal prerequisites, which all exist *)
Definition quiescent_rule (f : fs) (r : rule) : Prop :=
  (exists tt, f (r_target r) = Some tt /\
     forall p, In p (r_prereqs r) -> exists tp, f p = Some tp /\ tp <= tt) /\
  (forall p, In p (r_order r) -> f p <> None).

(* file system given as an association list (for the dispatch table and examples) *)
Fixpoint fs_of (l : list (file * time)) : fs :=
  match l with
  | [] => fun _ => None
  | (x, t) :: r => fun y => if y =? x then Some t else fs_of r y
  end.
