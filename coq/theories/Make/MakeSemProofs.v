(* Generic theorems about Make/MakeSem.v:
     build_no_fail            - when every prerequisite exists or has a rule, build never stops with an error
     build_quiescent          - after a successful build every rule is quiescent
     build_idempotent         - a build right after a successful build executes nothing
     touch_rebuilds_downstream - after touching x exactly the recipes downstream of x run, in order
     down_downstream          - the computed set [down] is reachability along prerequisite edges *)
From BFG Require Import Base.Chars Make.MakeSem.
Local Open Scope N_scope.

(* ------------------------------------------------------------------ lists *)
Lemma memf_In y l : memf y l = true <-> In y l.
Proof.
  unfold memf. rewrite existsb_exists. split.
  - intros [z [Hz E]]. apply N.eqb_eq in E. now subst.
  - intros H. exists y. split; [assumption|apply N.eqb_refl].
Qed.

Lemma memf_false y l : memf y l = false <-> ~ In y l.
Proof. rewrite <- memf_In. destruct (memf y l); split; congruence. Qed.

Lemma memf_targets_cons y r post : memf y (targets (r :: post)) = (y =? r_target r) || memf y (targets post).
Proof. reflexivity. Qed.

Lemma memf_app y a b : memf y (a ++ b) = memf y a || memf y b.
Proof. apply existsb_app. Qed.

Lemma existsb_ext_in {T} (f g : T -> bool) l : (forall x, In x l -> f x = g x) -> existsb f l = existsb g l.
Proof.
  induction l as [|a l IH]; intros H; [reflexivity|]. cbn [existsb].
  rewrite (H a (or_introl eq_refl)), IH; [reflexivity|]. intros x Hx. apply H. now right.
Qed.

Lemma find_none_all {T} (p : T -> bool) l : (forall x, In x l -> p x = false) -> find p l = None.
Proof.
  induction l as [|a l IH]; intros H; [reflexivity|]. cbn [find].
  rewrite (H a (or_introl eq_refl)). apply IH. intros x Hx. apply H. now right.
Qed.

(* ------------------------------------------------------------------ basic facts about step / run *)
Lemma step_failed all s r f : b_fail s = Some f -> step all s r = s.
Proof. intros H. unfold step. now rewrite H. Qed.

Lemma run_failed all todo s f : b_fail s = Some f -> run all todo s = s.
Proof.
  revert s; induction todo as [|r post IH]; intros s H; [reflexivity|].
  unfold run in *. cbn [fold_left]. rewrite (step_failed all s r f H). now apply IH.
Qed.

Lemma run_cons all r post s : run all (r :: post) s = run all post (step all s r).
Proof. reflexivity. Qed.

(* a step only writes the target of its rule, never removes a file, keeps the clock above the mtimes *)
Lemma step_frame all s r x : x <> r_target r -> b_fs (step all s r) x = b_fs s x.
Proof.
  intros Hx. unfold step. destruct (b_fail s); [reflexivity|].
  destruct (find _ _); [reflexivity|].
  destruct (need all s r && r_recipe r); [|reflexivity].
  cbn [b_fs]. destruct (r_phony r); [reflexivity|]. unfold upd.
  destruct (N.eqb_spec x (r_target r)); [contradiction|reflexivity].
Qed.

Lemma step_exists all s r x : b_fs s x <> None -> b_fs (step all s r) x <> None.
Proof.
  intros Hx. unfold step. destruct (b_fail s); [assumption|].
  destruct (find _ _); [assumption|].
  destruct (need all s r && r_recipe r); [|assumption].
  cbn [b_fs]. destruct (r_phony r); [assumption|]. unfold upd.
  destruct (x =? r_target r); [discriminate|assumption].
Qed.

Lemma step_below all s r : fs_below (b_fs s) (b_clk s) ->
  fs_below (b_fs (step all s r)) (b_clk (step all s r)) /\ b_clk s <= b_clk (step all s r).
Proof.
  intros Hb. unfold step. destruct (b_fail s); [split; [assumption|lia]|].
  destruct (find _ _); [split; [assumption|cbn; lia]|].
  destruct (need all s r && r_recipe r); [|split; [assumption|lia]].
  cbn [b_fs b_clk]. split; [|lia]. intros x t. destruct (r_phony r).
  - intros H. apply Hb in H. lia.
  - unfold upd. destruct (x =? r_target r).
    + intros H. inversion H. lia.
    + intros H. apply Hb in H. lia.
Qed.

Lemma run_frame all todo s x : memf x (targets todo) = false -> b_fs (run all todo s) x = b_fs s x.
Proof.
  revert s; induction todo as [|r post IH]; intros s H; [reflexivity|].
  rewrite run_cons. cbn [targets map memf existsb] in H. apply orb_false_iff in H as [H1 H2].
  rewrite IH by exact H2. apply step_frame. intros E. subst. now rewrite N.eqb_refl in H1.
Qed.

Lemma run_exists all todo s x : b_fs s x <> None -> b_fs (run all todo s) x <> None.
Proof.
  revert s; induction todo as [|r post IH]; intros s H; [assumption|].
  rewrite run_cons. apply IH. now apply step_exists.
Qed.

Lemma wfb_cons r post : wfb (r :: post) = true ->
  (forall p, In p (r_prereqs r ++ r_order r) -> p <> r_target r /\ memf p (targets post) = false) /\
  memf (r_target r) (targets post) = false /\ wfb post = true.
Proof.
  cbn [wfb]. rewrite !andb_true_iff, forallb_forall, negb_true_iff. intros [[H1 H2] H3].
  split; [|split; assumption]. intros p Hp. specialize (H1 p Hp). apply negb_true_iff in H1.
  cbn [targets map memf existsb] in H1. apply orb_false_iff in H1 as [Ha Hb].
  split; [|exact Hb]. intros E. subst. now rewrite N.eqb_refl in Ha.
Qed.

(* ------------------------------------------------------------------ no failure *)
Theorem run_no_fail all todo s :
  b_fail s = None ->
  (forall r p, In r todo -> In p (r_prereqs r ++ r_order r) -> b_fs s p <> None \/ has_rule all p = true) ->
  b_fail (run all todo s) = None.
Proof.
  revert s; induction todo as [|r post IH]; intros s Hf H; [assumption|].
  rewrite run_cons. assert (Hfind : find (unmakeable all s) (r_prereqs r ++ r_order r) = None).
  { apply find_none_all. intros p Hp. unfold unmakeable.
    destruct (H r p (or_introl eq_refl) Hp) as [E|E].
    - destruct (b_fs s p); [reflexivity|congruence].
    - rewrite E. apply andb_false_r. }
  apply IH.
  - unfold step. rewrite Hf, Hfind. now destruct (need all s r && r_recipe r).
  - intros r' p Hr' Hp. destruct (H r' p (or_intror Hr') Hp) as [E|E]; [left|now right].
    now apply step_exists.
Qed.

(* when every prerequisite exists or is the target of some rule, Make never says No rule to make target *)
Theorem build_no_fail rs f clk :
  (forall r p, In r rs -> In p (r_prereqs r ++ r_order r) -> f p <> None \/ has_rule rs p = true) ->
  b_fail (build rs f clk) = None.
Proof. intros H. apply run_no_fail; [reflexivity|exact H]. Qed.

(* ------------------------------------------------------------------ quiescence *)
Definition nophony (rs : list rule) : Prop := forall r, In r rs -> r_phony r = false.

Lemma nophony_in all p : nophony all -> phony_in all p = false.
Proof.
  intros H. unfold phony_in. induction all as [|r l IH]; [reflexivity|]. cbn [existsb].
  rewrite (H r (or_introl eq_refl)), andb_false_r. apply IH. intros r' Hr'. apply H. now right.
Qed.

(* a state in which every remaining rule is quiescent is a fixed point *)
Lemma run_noop all todo s :
  nophony all -> nophony todo -> b_fail s = None ->
  (forall r, In r todo -> quiescent_rule (b_fs s) r) -> run all todo s = s.
Proof.
  intros Hnp. revert s; induction todo as [|r post IH]; intros s Hnt Hf Hq; [reflexivity|].
  rewrite run_cons. assert (E : step all s r = s).
  { destruct (Hq r (or_introl eq_refl)) as [[tt [Ht Hp]] Ho].
    unfold step. rewrite Hf.
    rewrite find_none_all.
    2:{ intros p Hp'. unfold unmakeable. apply in_app_or in Hp' as [Hp'|Hp'].
        - destruct (Hp p Hp') as [tp [E _]]. now rewrite E.
        - specialize (Ho p Hp'). destruct (b_fs s p); [reflexivity|congruence]. }
    assert (Hn : need all s r = false).
    { unfold need. rewrite (Hnt r (or_introl eq_refl)), Ht. cbn [is_none orb].
      rewrite (existsb_ext_in _ (fun _ => false)).
      - clear. induction (r_prereqs r); [reflexivity|assumption].
      - intros p Hp'. destruct (Hp p Hp') as [tp [E Hle]]. unfold newer. rewrite E, Ht, (nophony_in all p Hnp).
        cbn [is_none orb]. apply N.ltb_ge. exact Hle. }
    now rewrite Hn. }
  rewrite E. apply IH; [|assumption|].
  - intros r' Hr'. apply Hnt. now right.
  - intros r' Hr'. apply Hq. now right.
Qed.

(* rules without recipe are leaves that exist (sources, headers with an empty rule) *)
Definition leaves_exist (rs : list rule) (f : fs) : Prop :=
  forall r, In r rs -> r_recipe r = false -> r_prereqs r = [] /\ f (r_target r) <> None.

Lemma run_quiescent all todo s :
  wfb todo = true -> nophony all -> nophony todo -> leaves_exist todo (b_fs s) ->
  (forall x, has_rule all x = true -> memf x (targets todo) = false -> b_fs s x <> None) ->
  fs_below (b_fs s) (b_clk s) ->
  b_fail (run all todo s) = None ->
  forall r, In r todo -> quiescent_rule (b_fs (run all todo s)) r.
Proof.
  intros Hwf Hnp. revert s Hwf; induction todo as [|r post IH]; intros s Hwf Hnt Hleaf Hdone Hbelow Hfail r0 Hr0;
    [contradiction|].
  rewrite run_cons in *. apply wfb_cons in Hwf as (Hpre & Htp & Hwfp).
  (* no failure before or at this rule *)
  assert (Hf : b_fail s = None).
  { destruct (b_fail s) as [f|] eqn:E; [|reflexivity].
    rewrite (step_failed all s r f E), (run_failed all post s f E) in Hfail. congruence. }
  assert (Hf1 : b_fail (step all s r) = None).
  { destruct (b_fail (step all s r)) as [f|] eqn:E; [|reflexivity].
    rewrite (run_failed all post _ f E) in Hfail. congruence. }
  (* every prerequisite exists before the step *)
  assert (Hex : forall p, In p (r_prereqs r ++ r_order r) -> b_fs s p <> None).
  { intros p Hp. destruct (find (unmakeable all s) (r_prereqs r ++ r_order r)) as [q|] eqn:Efind.
    - unfold step in Hf1. rewrite Hf, Efind in Hf1. cbn in Hf1. congruence.
    - pose proof (find_none _ _ Efind p Hp) as Hu. unfold unmakeable in Hu.
      destruct (b_fs s p) eqn:Ep; [discriminate|]. cbn [is_none andb] in Hu. apply negb_false_iff in Hu.
      destruct (Hpre p Hp) as [Hne Hnp']. exfalso. refine (Hdone p Hu _ Ep).
      rewrite memf_targets_cons, Hnp'. destruct (N.eqb_spec p (r_target r)); [contradiction|reflexivity]. }
  (* the rule just processed is quiescent *)
  assert (Hq1 : quiescent_rule (b_fs (step all s r)) r).
  { assert (Hsame : forall p, In p (r_prereqs r ++ r_order r) -> b_fs (step all s r) p = b_fs s p).
    { intros p Hp. apply step_frame. now destruct (Hpre p Hp). }
    split.
    2:{ intros p Hp. rewrite Hsame by (apply in_or_app; now right). apply Hex. apply in_or_app. now right. }
    assert (Efind : find (unmakeable all s) (r_prereqs r ++ r_order r) = None).
    { apply find_none_all. intros p Hp. unfold unmakeable. specialize (Hex p Hp).
      destruct (b_fs s p); [reflexivity|congruence]. }
    destruct (need all s r) eqn:Hn; destruct (r_recipe r) eqn:Hrec.
    - (* the recipe ran *)
      exists (b_clk s). split.
      + unfold step. rewrite Hf, Efind, Hn, Hrec. cbn [andb b_fs].
        rewrite (Hnt r (or_introl eq_refl)). unfold upd. now rewrite N.eqb_refl.
      + intros p Hp. rewrite Hsame by (apply in_or_app; now left).
        specialize (Hex p (in_or_app _ _ _ (or_introl Hp))).
        destruct (b_fs s p) as [tp|] eqn:Ep; [|congruence]. exists tp. split; [reflexivity|].
        apply Hbelow in Ep. lia.
    - (* no recipe: a leaf *)
      destruct (Hleaf r (or_introl eq_refl) Hrec) as [Hnil Hext].
      assert (E : step all s r = s). { unfold step. now rewrite Hf, Efind, Hn, Hrec. }
      rewrite E. destruct (b_fs s (r_target r)) as [tt|] eqn:Et; [|congruence].
      exists tt. split; [reflexivity|]. rewrite Hnil. intros p [].
    - (* up to date already *)
      assert (E : step all s r = s). { unfold step. now rewrite Hf, Efind, Hn. }
      rewrite E. unfold need in Hn. apply orb_false_iff in Hn as [Hn Hn3]. apply orb_false_iff in Hn as [_ Hn2].
      destruct (b_fs s (r_target r)) as [tt|] eqn:Et; [|discriminate]. exists tt. split; [reflexivity|].
      intros p Hp. specialize (Hex p (in_or_app _ _ _ (or_introl Hp))).
      destruct (b_fs s p) as [tp|] eqn:Ep; [|congruence]. exists tp. split; [reflexivity|].
      destruct (tt <? tp) eqn:Elt; [|now apply N.ltb_ge].
      exfalso. assert (existsb (fun p0 => is_none (b_fs s p0) || phony_in all p0 || newer (b_fs s) p0 (r_target r))
                        (r_prereqs r) = true).
      { apply existsb_exists. exists p. split; [assumption|]. unfold newer. rewrite Ep, Et, Elt. apply orb_true_r. }
      congruence.
    - assert (E : step all s r = s). { unfold step. now rewrite Hf, Efind, Hn. }
      rewrite E. destruct (Hleaf r (or_introl eq_refl) Hrec) as [Hnil Hext].
      destruct (b_fs s (r_target r)) as [tt|] eqn:Et; [|congruence].
      exists tt. split; [reflexivity|]. rewrite Hnil. intros p []. }
  destruct Hr0 as [<-|Hr0].
  - (* later steps do not touch this rule's files *)
    destruct Hq1 as [[tt [Ht Hp]] Ho]. split.
    + exists tt. split; [now rewrite run_frame|].
      intros p Hp'. rewrite run_frame; [now apply Hp|]. apply Hpre. apply in_or_app. now left.
    + intros p Hp'. rewrite run_frame; [now apply Ho|]. apply Hpre. apply in_or_app. now right.
  - apply IH; try assumption.
    + intros r' Hr'. apply Hnt. now right.
    + intros r' Hr' Hrec. destruct (Hleaf r' (or_intror Hr') Hrec) as [Hnil Hext]. split; [assumption|].
      now apply step_exists.
    + intros x Hx Hnx. destruct (N.eqb_spec x (r_target r)) as [->|Hne].
      * destruct Hq1 as [[tt [Ht _]] _]. congruence.
      * apply step_exists. apply Hdone; [assumption|]. rewrite memf_targets_cons, Hnx.
        destruct (N.eqb_spec x (r_target r)); [contradiction|reflexivity].
    + now apply step_below.
Qed.

Theorem build_quiescent rs f clk :
  wfb rs = true -> nophony rs -> leaves_exist rs f -> fs_below f clk ->
  b_fail (build rs f clk) = None ->
  forall r, In r rs -> quiescent_rule (b_fs (build rs f clk)) r.
Proof.
  intros Hwf Hnp Hl Hb Hf. apply run_quiescent; try assumption.
  intros x Hx Hnx. unfold has_rule in Hx. congruence.
Qed.

(* a build right after a successful build executes nothing (and changes nothing at all) *)
Theorem build_idempotent rs f clk :
  wfb rs = true -> nophony rs -> leaves_exist rs f -> fs_below f clk ->
  let s1 := build rs f clk in
  b_fail s1 = None ->
  build rs (b_fs s1) (b_clk s1) = init (b_fs s1) (b_clk s1) /\ b_log (build rs (b_fs s1) (b_clk s1)) = [].
Proof.
  intros Hwf Hnp Hl Hb s1 Hf.
  assert (E : build rs (b_fs s1) (b_clk s1) = init (b_fs s1) (b_clk s1)).
  { apply run_noop; try assumption; [reflexivity|]. intros r Hr. now apply build_quiescent. }
  split; [exact E|now rewrite E].
Qed.

(* ------------------------------------------------------------------ touch *)
Definition leaves_flat (rs : list rule) : Prop := forall r, In r rs -> r_recipe r = false -> r_prereqs r = [].

Lemma run_touch all todo f1 clk x : nophony all -> fs_below f1 clk ->
  forall s d,
  wfb todo = true -> nophony todo -> leaves_flat todo ->
  (forall r, In r todo -> quiescent_rule f1 r) ->
  b_fail s = None -> b_log s = d -> clk < b_clk s ->
  (forall y, memf y d = true -> exists t, b_fs s y = Some t /\ clk < t) ->
  (forall y, memf y d = false -> b_fs s y = upd f1 x clk y) ->
  (forall y, memf y d = true -> memf y (targets todo) = false) ->
  b_fail (run all todo s) = None /\ b_log (run all todo s) = fold_left (down_step x) todo d.
Proof.
  intros Hnp Hbelow. induction todo as [|r post IH]; intros s d Hwf Hnt Hlf Hq Hf Hlog Hclk Hin Hout Hdis;
    [split; assumption|].
  rewrite run_cons. cbn [fold_left]. apply wfb_cons in Hwf as (Hpre & Htp & Hwfp).
  destruct (Hq r (or_introl eq_refl)) as [[tt [Ht Hp]] Ho].
  set (f2 := upd f1 x clk) in *.
  (* the target of this rule has not been stamped in this run *)
  assert (Htd : memf (r_target r) d = false).
  { destruct (memf (r_target r) d) eqn:E; [|reflexivity]. apply Hdis in E.
    rewrite memf_targets_cons, N.eqb_refl in E. discriminate. }
  assert (Hfst : exists tt', b_fs s (r_target r) = Some tt' /\ tt' <= clk /\ (r_target r <> x -> tt' = tt)).
  { rewrite (Hout _ Htd). unfold f2, upd. destruct (N.eqb_spec (r_target r) x) as [E|E].
    - exists clk. repeat split; [lia|congruence].
    - exists tt. repeat split; [assumption|apply Hbelow in Ht; lia]. }
  destruct Hfst as (tt' & Ett' & Hle & Htt').
  (* every prerequisite exists *)
  assert (Hexf1 : forall p, In p (r_prereqs r ++ r_order r) -> f1 p <> None).
  { intros p Hp'. apply in_app_or in Hp' as [Hp'|Hp'].
    - destruct (Hp p Hp') as [tp [E _]]. congruence.
    - now apply Ho. }
  assert (Hexs : forall p, In p (r_prereqs r ++ r_order r) -> b_fs s p <> None).
  { intros p Hp'. destruct (memf p d) eqn:Ed.
    - destruct (Hin p Ed) as [t [E _]]. congruence.
    - rewrite (Hout p Ed). unfold f2, upd. destruct (p =? x); [discriminate|now apply Hexf1]. }
  assert (Efind : find (unmakeable all s) (r_prereqs r ++ r_order r) = None).
  { apply find_none_all. intros p Hp'. unfold unmakeable. specialize (Hexs p Hp').
    destruct (b_fs s p); [reflexivity|congruence]. }
  (* out of date iff a prerequisite is x or was rebuilt in this run *)
  assert (Hneed : need all s r = existsb (fun p => (p =? x) || memf p d) (r_prereqs r)).
  { unfold need. rewrite (Hnt r (or_introl eq_refl)), Ett'. cbn [is_none orb].
    apply existsb_ext_in. intros p Hp'. rewrite (nophony_in all p Hnp), orb_false_r.
    destruct (Hpre p (in_or_app _ _ _ (or_introl Hp'))) as [Hpt _].
    unfold newer. rewrite Ett'. destruct (memf p d) eqn:Ed.
    - destruct (Hin p Ed) as [t [E Hlt]]. rewrite E. cbn [is_none orb]. rewrite orb_true_r. apply N.ltb_lt. lia.
    - rewrite (Hout p Ed). rewrite orb_false_r. unfold f2, upd. destruct (N.eqb_spec p x) as [->|Hne].
      + cbn [is_none orb]. apply N.ltb_lt.
        assert (Hx : r_target r <> x) by congruence. rewrite (Htt' Hx). apply Hbelow in Ht. exact Ht.
      + destruct (Hp p Hp') as [tp [E Hle']]. rewrite E. cbn [is_none orb]. apply N.ltb_ge.
        destruct (N.eqb_spec (r_target r) x) as [Hx|Hx].
        * apply Hbelow in E. unfold f2, upd in Ett'. rewrite (Hout _ Htd) in Ett'. unfold f2, upd in Ett'.
          rewrite Hx, N.eqb_refl in Ett'. inversion Ett'. subst tt'. lia.
        * rewrite (Htt' Hx). exact Hle'. }
  unfold down_step at 2. unfold step. rewrite Hf, Efind, Hneed.
  destruct (r_recipe r) eqn:Hrec.
  - rewrite andb_true_r, andb_true_l.
    destruct (existsb (fun p => (p =? x) || memf p d) (r_prereqs r)) eqn:Eex.
    + (* the recipe runs *)
      apply IH; try assumption; cbn [b_fail b_log b_clk b_fs].
      * intros r' Hr'. apply Hnt. now right.
      * intros r' Hr'. apply Hlf. now right.
      * intros r' Hr'. apply Hq. now right.
      * reflexivity.
      * now rewrite Hlog.
      * lia.
      * intros y Hy. rewrite (Hnt r (or_introl eq_refl)). unfold upd. rewrite memf_app in Hy.
        destruct (N.eqb_spec y (r_target r)) as [->|Hne].
        -- exists (b_clk s). split; [reflexivity|assumption].
        -- apply orb_true_iff in Hy as [Hy|Hy]; [now apply Hin|].
           cbn [memf existsb] in Hy. rewrite orb_false_r in Hy. apply N.eqb_eq in Hy. contradiction.
      * intros y Hy. rewrite (Hnt r (or_introl eq_refl)). unfold upd. rewrite memf_app in Hy.
        apply orb_false_iff in Hy as [Hy1 Hy2]. cbn [memf existsb] in Hy2. rewrite orb_false_r in Hy2.
        rewrite Hy2. now apply Hout.
      * intros y Hy. rewrite memf_app in Hy. apply orb_true_iff in Hy as [Hy|Hy].
        -- apply Hdis in Hy. rewrite memf_targets_cons in Hy. now apply orb_false_iff in Hy as [_ Hy].
        -- cbn [memf existsb] in Hy. rewrite orb_false_r in Hy. apply N.eqb_eq in Hy. now subst.
    + apply IH; try assumption.
      * intros r' Hr'. apply Hnt. now right.
      * intros r' Hr'. apply Hlf. now right.
      * intros r' Hr'. apply Hq. now right.
      * intros y Hy. apply Hdis in Hy. rewrite memf_targets_cons in Hy. now apply orb_false_iff in Hy as [_ Hy].
  - rewrite andb_false_r. cbn [andb].
    apply IH; try assumption.
    + intros r' Hr'. apply Hnt. now right.
    + intros r' Hr'. apply Hlf. now right.
    + intros r' Hr'. apply Hq. now right.
    + intros y Hy. apply Hdis in Hy. rewrite memf_targets_cons in Hy. now apply orb_false_iff in Hy as [_ Hy].
Qed.

(* From a quiescent state (e.g. right after a build), touch x (give it the current clock value - also when it
   did not exist) and build: no failure, and exactly the recipes downstream of x run, in rule order. *)
Theorem touch_rebuilds_downstream rs f1 clk x :
  wfb rs = true -> nophony rs -> leaves_flat rs -> fs_below f1 clk ->
  (forall r, In r rs -> quiescent_rule f1 r) ->
  let s := build rs (upd f1 x clk) (clk + 1) in
  b_fail s = None /\ b_log s = down x rs.
Proof.
  intros Hwf Hnp Hlf Hb Hq. cbn zeta. unfold build, down.
  apply (run_touch rs rs f1 clk x Hnp Hb (init (upd f1 x clk) (clk + 1)) []); try assumption; try reflexivity.
  - cbn. lia.
  - intros y Hy. discriminate.
  - intros y Hy. discriminate.
Qed.

(* ------------------------------------------------------------------ [down] is reachability *)
Lemma downstream_mono rs rs' x t : incl rs rs' -> downstream rs x t -> downstream rs' x t.
Proof.
  intros Hi H. induction H as [r Hr Hx|r p Hr Hp _ IH].
  - apply ds_direct; [now apply Hi|assumption].
  - apply (ds_trans rs' x r p); [now apply Hi|assumption|assumption].
Qed.

(* in a well-formed list, no rule before r mentions the target of r, and nobody before r produces it *)
Lemma wfb_app_inv done r post : wfb (done ++ r :: post) = true ->
  (forall r0, In r0 done -> ~ In (r_target r) (r_prereqs r0) /\ r_target r0 <> r_target r) /\
  wfb (r :: post) = true.
Proof.
  induction done as [|a done IH]; intros H; [split; [intros r0 []|assumption]|].
  cbn [app] in H. apply wfb_cons in H as (Hpre & Hta & Hw). destruct (IH Hw) as [I1 I2]. split; [|assumption].
  intros r0 [<-|H0]; [|now apply I1]. split.
  - intros Hin. destruct (Hpre (r_target r) (in_or_app _ _ _ (or_introl Hin))) as [_ Hm].
    apply memf_false in Hm. apply Hm. unfold targets. rewrite map_app. apply in_or_app. right. now left.
  - intros E. apply memf_false in Hta. apply Hta. unfold targets. rewrite map_app. apply in_or_app. right.
    left. now symmetry.
Qed.

Lemma down_fold x todo : forall done d,
  wfb (done ++ todo) = true -> leaves_flat (done ++ todo) ->
  (forall t, In t d <-> downstream done x t) ->
  forall t, In t (fold_left (down_step x) todo d) <-> downstream (done ++ todo) x t.
Proof.
  induction todo as [|r post IH]; intros done d Hwf Hlf Hd t.
  - rewrite app_nil_r. apply Hd.
  - cbn [fold_left].
    replace (done ++ r :: post) with ((done ++ [r]) ++ post) in * by now rewrite <- app_assoc.
    apply IH; try assumption. clear t. intros t.
    rewrite <- app_assoc in Hwf. cbn [app] in Hwf.
    destruct (wfb_app_inv done r post Hwf) as [Hbefore Hw]. apply wfb_cons in Hw as (Hpre & _ & _).
    assert (Hrec : r_prereqs r <> [] -> r_recipe r = true).
    { intros Hne. destruct (r_recipe r) eqn:E; [reflexivity|]. exfalso. apply Hne. apply (Hlf r); [|assumption].
      apply in_or_app. left. apply in_or_app. right. now left. }
    assert (Hinc : incl done (done ++ [r])) by (intros a Ha; apply in_or_app; now left).
    unfold down_step. split.
    + (* computed -> reachable *)
      intros Hin. destruct (r_recipe r && existsb (fun p => (p =? x) || memf p d) (r_prereqs r)) eqn:E.
      * apply in_app_or in Hin as [Hin|[<-|[]]].
        -- apply (downstream_mono done); [assumption|now apply Hd].
        -- apply andb_true_iff in E as [_ E]. apply existsb_exists in E as [p [Hp E]].
           assert (Hr : In r (done ++ [r])) by (apply in_or_app; right; now left).
           apply orb_true_iff in E as [E|E].
           ++ apply N.eqb_eq in E. subst p. now apply ds_direct.
           ++ apply (ds_trans _ x r p); [assumption|assumption|].
              apply (downstream_mono done); [assumption|]. apply Hd. now apply memf_In.
      * apply (downstream_mono done); [assumption|now apply Hd].
    + (* reachable -> computed *)
      intros H.
      assert (Hsub : forall y, In y d ->
                In y (if r_recipe r && existsb (fun p => (p =? x) || memf p d) (r_prereqs r) then d ++ [r_target r] else d)).
      { intros y Hy. destruct (r_recipe r && _); [apply in_or_app; now left|assumption]. }
      induction H as [r0 Hr0 Hx|r0 p Hr0 Hp Hds IHd].
      * apply in_app_or in Hr0 as [Hr0|[<-|[]]].
        -- apply Hsub. apply Hd. now apply ds_direct.
        -- rewrite Hrec by (intros E; rewrite E in Hx; contradiction). cbn [andb].
           assert (E : existsb (fun p => (p =? x) || memf p d) (r_prereqs r) = true).
           { apply existsb_exists. exists x. split; [assumption|]. now rewrite N.eqb_refl. }
           rewrite E. apply in_or_app. right. now left.
      * apply in_app_or in Hr0 as [Hr0|[<-|[]]].
        -- (* a rule before r: its prerequisite p is not the target of r, so p was computed before *)
           apply Hsub. apply Hd. apply (ds_trans done x r0 p); [assumption|assumption|]. apply Hd.
           destruct (Hbefore r0 Hr0) as [Hnot _].
           destruct (r_recipe r && existsb (fun p0 => (p0 =? x) || memf p0 d) (r_prereqs r)); [|assumption].
           apply in_app_or in IHd as [IHd|[E|[]]]; [assumption|]. exfalso. apply Hnot. now rewrite E.
        -- rewrite Hrec by (intros E; rewrite E in Hp; contradiction). cbn [andb].
           assert (Hpd : In p d).
           { destruct (Hpre p (in_or_app _ _ _ (or_introl Hp))) as [Hne _].
             destruct (r_recipe r && existsb (fun p0 => (p0 =? x) || memf p0 d) (r_prereqs r)); [|assumption].
             apply in_app_or in IHd as [IHd|[E|[]]]; [assumption|]. now symmetry in E. }
           assert (E : existsb (fun p0 => (p0 =? x) || memf p0 d) (r_prereqs r) = true).
           { apply existsb_exists. exists p. split; [assumption|]. apply orb_true_iff. right. now apply memf_In. }
           rewrite E. apply in_or_app. right. now left.
Qed.

(* the recipes predicted by [down] are exactly the targets reachable from x along normal-prerequisite edges *)
Theorem down_downstream rs x t : wfb rs = true -> leaves_flat rs ->
  (In t (down x rs) <-> downstream rs x t).
Proof.
  intros Hwf Hlf. unfold down. apply (down_fold x rs [] []); try assumption.
  intros y. split; [intros []|]. intros H. induction H as [r [] _|r p [] _ _ _].
Qed.
