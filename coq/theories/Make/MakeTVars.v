(* R model: GNU Make 4.3's variable lookup for the target whose recipe is being run (target-specific and
   pattern-specific variables, inheritance from the dependents on whose behalf the target is built).

   Modelled fragment - every rule below is validated against /usr/bin/make by harness/c01tv.py (stage R:make tvars):
   - three kinds of simply expanded definitions, processed in file order:
       V := text        global
       %: V := text     pattern-specific, for the pattern % (matches every target)
       t: V := text     target-specific
   - := expands the right-hand side AT DEFINITION TIME (while the Makefile is read), not when the target is considered:
       global and pattern-specific definitions see the global variables defined so far (a pattern-specific definition does
       NOT see earlier pattern-specific values);
       a target-specific definition of t sees the target-specific variables of t defined so far, then the global ones
       (neither the pattern-specific values nor anything of a dependent: no target is being built at read time).
     A later definition of the same variable in the same scope replaces the earlier one.
   - the text of a target- / pattern-specific line is read by the rule-line scanner ([strip_tline] below: the first unquoted ;
     changes what # and backslashes mean), the text of a global line by the comment stripper.
   - lookup of V in the recipe of t, built on behalf of the dependents p1 (direct), p2 (the dependent of p1), ... :
       own target-specific  >  own pattern-specific  >  effective value for p1 (recursively)  >  global.
     The chain is the path along which Make first reaches t (sequential run: goals left to right, prerequisites left to
     right, depth first; a target is built once) - [build_chains].
   Not modelled (exists in GNU Make, never written by bfg9000 for flag variables): recursive =, +=, ?=, the private / override /
   export modifiers, patterns other than % (applied from the least to the most specific), command-line and environment
   variables, double-colon rules, parallel runs (-j: the parent pointer is whoever considered the target last). *)
From BFG Require Import Base.Chars Make.MakeRead.
Local Open Scope N_scope.

Inductive vscope := ScGlobal | ScPattern | ScTarget (t : str).
Record vdef := mkDef { d_scope : vscope; d_name : str; d_text : str }.

(* association lists, most recent definition first *)
Definition alookup (n : str) (l : list (str * str)) : option str :=
  match find (fun p => str_eqb (fst p) n) l with Some p => Some (snd p) | None => None end.
Definition tlookup (t n : str) (l : list (str * str * str)) : option str :=
  match find (fun p => str_eqb (fst (fst p)) t && str_eqb (snd (fst p)) n) l with Some p => Some (snd p) | None => None end.

Record vstate := mkVS { vs_glob : list (str * str); vs_pat : list (str * str); vs_tgt : list (str * str * str) }.

Definition glob_vars (st : vstate) : vars :=
  fun n => match alookup n (vs_glob st) with Some x => x | None => [] end.
(* what a reference sees while a target-specific definition of t is read *)
Definition read_scope (st : vstate) (t : str) : vars :=
  fun n => match tlookup t n (vs_tgt st) with Some x => x | None => glob_vars st n end.

(* ------------------------------------------------------------------ the right-hand side of a target / pattern line
   GNU Make reads  t: V := text  as a rule line first: it looks for the first unquoted ; or # of the WHOLE line (skipping
   $x and $(...) references), halving the backslashes in front of each ; or # it passes (an odd number quotes the
   character).  At an unquoted # the rest is a comment; at an unquoted ; the line is cut, and when the line turns out to be a
   variable assignment the cut part is put back VERBATIM: behind the first unquoted ; a # starts no comment and \# keeps its
   backslash, and in front of it \; loses one.  (A global assignment only strips comments: MakeRead.strip_comment.)
   Without any ; in the text this is strip_comment as long as no # stands inside a reference - and then the expansion is
   outside the fragment of MakeRead.expand anyway (# is no ref_char), so the model uses strip_comment there. *)
Definition c_semi : char := 59.
Inductive tsc := TN (pend : nat) | TD | TP (depth : nat) (op cl : char).

Fixpoint tscan (st : tsc) (s : str) : str :=
  match s with
  | [] => match st with TN pend => repeat c_bs pend | _ => [] end
  | c :: r =>
    match st with
    | TN pend =>
      if N.eqb c c_bs then tscan (TN (S pend)) r
      else if N.eqb c c_semi then
        if Nat.even pend then repeat c_bs (Nat.div2 pend) ++ c :: r
        else repeat c_bs (Nat.div2 pend) ++ c :: tscan (TN 0) r
      else if N.eqb c c_hash then
        if Nat.even pend then repeat c_bs (Nat.div2 pend)
        else repeat c_bs (Nat.div2 pend) ++ c :: tscan (TN 0) r
      else if N.eqb c c_dollar then repeat c_bs pend ++ c :: tscan TD r
      else repeat c_bs pend ++ c :: tscan (TN 0) r
    | TD =>
      if N.eqb c c_lp then c :: tscan (TP 1 c_lp c_rp) r
      else if N.eqb c 123 then c :: tscan (TP 1 123 125) r
      else c :: tscan (TN 0) r
    | TP depth op cl =>
      if N.eqb c op then c :: tscan (TP (S depth) op cl) r
      else if N.eqb c cl then
        match depth with
        | 1%nat | O => c :: tscan (TN 0) r
        | S d => c :: tscan (TP d op cl) r
        end
      else c :: tscan (TP depth op cl) r
    end
  end.

Definition strip_tline (text : str) : str :=
  if mem_char c_semi text then tscan (TN 0) text else strip_comment 0 text.

(* value of  t: NAME := text  /  %: NAME := text *)
Definition tassign_value (v : vars) (text : str) : option str :=
  expand v (drop_blanks (strip_tline text)).

Definition read_def (st : vstate) (d : vdef) : option vstate :=
  match d_scope d with
  | ScGlobal =>
    option_map (fun x => mkVS ((d_name d, x) :: vs_glob st) (vs_pat st) (vs_tgt st)) (assign_value (glob_vars st) (d_text d))
  | ScPattern =>
    option_map (fun x => mkVS (vs_glob st) ((d_name d, x) :: vs_pat st) (vs_tgt st)) (tassign_value (glob_vars st) (d_text d))
  | ScTarget t =>
    option_map (fun x => mkVS (vs_glob st) (vs_pat st) ((t, d_name d, x) :: vs_tgt st)) (tassign_value (read_scope st t) (d_text d))
  end.

Fixpoint read_defs (st : vstate) (ds : list vdef) : option vstate :=
  match ds with
  | [] => Some st
  | d :: r => match read_def st d with Some st' => read_defs st' r | None => None end
  end.

(* the value a reference to n has in the recipe of t; chain = the dependents, the direct one first *)
Fixpoint lookup (st : vstate) (n : str) (t : str) (chain : list str) {struct chain} : str :=
  match tlookup t n (vs_tgt st) with
  | Some x => x
  | None =>
    match alookup n (vs_pat st) with
    | Some x => x
    | None => match chain with
              | [] => glob_vars st n
              | p :: ps => lookup st n p ps
              end
    end
  end.

(* ------------------------------------------------------------------ which chain: Make's sequential traversal *)
Definition smem (x : str) (l : list str) : bool := existsb (str_eqb x) l.

(* built: the targets whose recipe has run, in order, each with the chain of dependents it was reached through *)
Fixpoint visit (fuel : nat) (deps : str -> list str) (chain : list str) (t : str) (built : list (str * list str))
  : list (str * list str) :=
  match fuel with
  | O => built
  | S f =>
    if smem t (map fst built) then built
    else fold_left (fun b d => visit f deps (t :: chain) d b) (deps t) built ++ [(t, chain)]
  end.

Definition build_chains (fuel : nat) (deps : str -> list str) (goals : list str) : list (str * list str) :=
  fold_left (fun b g => visit fuel deps [] g b) goals [].

(* the whole observation: for each recipe run, the value of each watched variable *)
Definition run_values (fuel : nat) (ds : list vdef) (deps : str -> list str) (goals watch : list str)
  : option (list (str * list str)) :=
  match read_defs (mkVS [] [] []) ds with
  | Some st => Some (map (fun tc => (fst tc, map (fun n => lookup st n (fst tc) (snd tc)) watch)) (build_chains fuel deps goals))
  | None => None
  end.
