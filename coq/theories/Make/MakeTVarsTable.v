(* Dispatch entries for the variable-lookup model of GNU Make (Make/MakeTVars.v). *)
From BFG Require Import Base.Chars Base.Sx Make.MakeRead Make.MakeTVars.
From Coq Require Import String.
Local Open Scope N_scope.

(* definition: [scope name text], scope = [0] global, [1] pattern %, [2 target] *)
Definition un_vscope (x : sx) : vscope :=
  match un_N (nth_sx 0 x) with 0 => ScGlobal | 1 => ScPattern | _ => ScTarget (un_str (nth_sx 1 x)) end.
Definition un_vdef (x : sx) : vdef := mkDef (un_vscope (nth_sx 0 x)) (un_str (nth_sx 1 x)) (un_str (nth_sx 2 x)).
(* dependency table: [[target [prerequisite ...]] ...] *)
Definition un_deps (x : sx) : str -> list str :=
  fun t => match find (fun p => str_eqb (un_str (nth_sx 0 p)) t) (un_list x) with
           | Some p => un_strs (nth_sx 1 p)
           | None => []
           end.

Definition table : list (string * (sx -> sx)) := [
  (* [defs deps goals watch] -> recipe runs in order, each with the values of the watched variables *)
  ("make.tvars_run", fun a => sx_opt (sx_list (sx_pair sx_str (sx_list sx_str)))
      (run_values (S (List.length (un_list (nth_sx 1 a)))) (map un_vdef (un_list (nth_sx 0 a))) (un_deps (nth_sx 1 a))
                  (un_strs (nth_sx 2 a)) (un_strs (nth_sx 3 a))));
  (* [defs var target chain] -> value *)
  ("make.tvars_lookup", fun a => sx_opt sx_str
      (option_map (fun st => lookup st (un_str (nth_sx 1 a)) (un_str (nth_sx 2 a)) (un_strs (nth_sx 3 a)))
                  (read_defs (mkVS [] [] []) (map un_vdef (un_list (nth_sx 0 a))))))
]%string.
