(* Dispatch entries for the Make models. *)
From BFG Require Import Base.Chars Base.Sx Shell.PosixQuote Make.MakeWrite Make.MakeRead Make.MakeNames.
From Coq Require Import String.
Local Open Scope N_scope.

Definition cls_of (x : sx) : char -> bool := fun c => mem_char c (un_str x).

Definition un_syntax (x : sx) : syntax :=
  match un_N x with 0 => SynTarget | 1 => SynDep | 2 => SynFunction | 3 => SynShell | _ => SynClean end.
Definition un_qmode (x : sx) : qmode := match un_N x with 0 => QInfo | 1 => QInner | _ => QNone end.

(* frag encoding: [0 s] literal, [1 s] shell_literal, [2 s] str, [3 [[islit s]..]] path, [4 [frag..] [syn]? quoted] *)
Fixpoint un_frag (fuel : nat) (x : sx) : mfrag :=
  match fuel with
  | O => MLit []
  | S f =>
    match un_N (nth_sx 0 x) with
    | 0 => MLit (un_str (nth_sx 1 x))
    | 1 => MShLit (un_str (nth_sx 1 x))
    | 2 => MStr (un_str (nth_sx 1 x))
    | 3 => MPath (map (fun b => (un_bool (nth_sx 0 b), un_str (nth_sx 1 b))) (un_list (nth_sx 1 x)))
    | _ => MSyn (map (un_frag f) (un_list (nth_sx 1 x))) (un_opt un_syntax (nth_sx 2 x)) (un_bool (nth_sx 3 x))
    end
  end.
Definition un_jbos (x : sx) : list mfrag := map (un_frag 20) (un_list x).
Definition un_items (x : sx) : list (list mfrag) := map un_jbos (un_list x).

(* variable table: list of (name, value) *)
Definition un_vars (x : sx) : vars :=
  fun n => match find (fun p => str_eqb (un_str (nth_sx 0 p)) n) (un_list x) with
           | Some p => un_str (nth_sx 1 p)
           | None => []
           end.

Definition table : list (string * (sx -> sx)) := [
  ("make.escape_str", fun a => sx_opt sx_str (escape_str (cls_of (nth_sx 0 a)) (un_str (nth_sx 1 a)) (un_syntax (nth_sx 2 a))));
  ("make.write", fun a => sx_opt (sx_pair sx_str sx_bool)
      (write_jbos (cls_of (nth_sx 0 a)) (cls_of (nth_sx 1 a)) (un_jbos (nth_sx 2 a)) (un_syntax (nth_sx 3 a)) (un_qmode (nth_sx 4 a))));
  ("make.write_each", fun a => sx_opt sx_str
      (write_each (cls_of (nth_sx 0 a)) (cls_of (nth_sx 1 a)) (un_items (nth_sx 2 a)) (un_syntax (nth_sx 3 a))));
  ("make.write_value", fun a => sx_opt sx_str
      (write_value (cls_of (nth_sx 0 a)) (cls_of (nth_sx 1 a)) (un_items (nth_sx 2 a)) (un_syntax (nth_sx 3 a))));
  ("make.write_value_unfixed", fun a => sx_opt sx_str
      (write_value_unfixed (cls_of (nth_sx 0 a)) (cls_of (nth_sx 1 a)) (un_items (nth_sx 2 a)) (un_syntax (nth_sx 3 a))));
  ("make.expand", fun a => sx_opt sx_str (expand (un_vars (nth_sx 0 a)) (un_str (nth_sx 1 a))));
  ("make.assign_value", fun a => sx_opt sx_str (assign_value (un_vars (nth_sx 0 a)) (un_str (nth_sx 1 a))));
  ("make.recipe_shell_text", fun a => sx_opt sx_str (recipe_shell_text (un_vars (nth_sx 0 a)) (un_str (nth_sx 1 a))));
  ("make.name_ok", fun a => L [sx_bool (target_ok (cls_of (nth_sx 0 a)) (un_str (nth_sx 1 a)));
                                sx_bool (dep_ok (cls_of (nth_sx 0 a)) (un_str (nth_sx 1 a)))]);
  ("make.strip_comment", fun a => sx_str (strip_comment 0 (un_str (nth_sx 0 a))))
]%string.
