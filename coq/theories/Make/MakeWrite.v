(* W model of bfg9000/backends/make/syntax.py: Writer.escape_str, Writer.write / write_each /
   write_shell over the safe_str fragment types, and the text of variable assignments. *)
From BFG Require Import Base.Chars Shell.PosixQuote.
Local Open Scope N_scope.

Inductive syntax := SynTarget | SynDep | SynFunction | SynShell | SynClean.

(* string.replace('$', '$$') *)
Fixpoint dollar_esc (s : str) : str :=
  match s with
  | [] => []
  | c :: r => if N.eqb c c_dollar then c_dollar :: c_dollar :: dollar_esc r else c :: dollar_esc r
  end.

(* string.replace(',', '$,') *)
Fixpoint comma_esc (s : str) : str :=
  match s with
  | [] => []
  | c :: r => if N.eqb c c_comma then c_dollar :: c_comma :: comma_esc r else c :: comma_esc r
  end.

(* Python's \s restricted to ASCII; code points >= 128 are classified by the parameter [us]. *)
Definition ascii_space (c : char) : bool := mem_char c [9; 10; 11; 12; 13; 28; 29; 30; 31; 32].
Definition py_space (us : char -> bool) (c : char) : bool := if c <? 128 then ascii_space c else us c.

(* character class  [?*\[\]\s#%:]  (non-Windows) and the dependency variant with | *)
Definition target_special (us : char -> bool) (c : char) : bool :=
  mem_char c [63; 42; 91; 93; 35; 37; 58] || py_space us c.
Definition dep_special (us : char -> bool) (c : char) : bool :=
  N.eqb c c_pipe || target_special us c.

(* re.sub of [backslash-run][SPECIAL] by [run][run][backslash][SPECIAL]: a run of backslashes is doubled when it is followed by a
   special character, which is itself preceded by one more backslash. [pend] = backslashes seen. *)
Fixpoint bs_esc (special : char -> bool) (pend : nat) (s : str) : str :=
  match s with
  | [] => repeat c_bs pend
  | c :: r =>
    if N.eqb c c_bs then bs_esc special (S pend) r
    else if special c then repeat c_bs (pend + pend)%nat ++ c_bs :: c :: bs_esc special 0 r
    else repeat c_bs pend ++ c :: bs_esc special 0 r
  end.

(* the alternative ^~ : a tilde in the very first position *)
Definition bs_esc_top (special : char -> bool) (s : str) : str :=
  match s with
  | c :: r => if N.eqb c c_tilde then c_bs :: c_tilde :: bs_esc special 0 r else bs_esc special 0 s
  | [] => []
  end.

Definition has_nl (s : str) : bool := mem_char c_nl s.

(* Writer.escape_str; None = ValueError('illegal newline') *)
Definition escape_str (us : char -> bool) (s : str) (syn : syntax) : option str :=
  if has_nl s then None else
  let d := dollar_esc s in
  Some match syn with
       | SynTarget => bs_esc_top (target_special us) d
       | SynDep => bs_esc_top (dep_special us) d
       | SynFunction => comma_esc d
       | SynShell | SynClean => d
       end.

(* --- the fragment types Writer.write dispatches on --- *)
Inductive mfrag :=
| MLit (s : str)                              (* safe_str.literal: written verbatim *)
| MShLit (s : str)                            (* safe_str.shell_literal: build-file escaping only *)
| MStr (s : str)                              (* plain str *)
| MPath (bits : list (bool * str))            (* a realised path: (is_literal, text) bits, e.g. [(true,"$(srcdir)"); (false,"/a b.c")] *)
| MSyn (data : list mfrag) (syn : option syntax) (quoted : bool).   (* syntax_string *)

Section Write.
Variable uw : char -> bool.   (* \w for code points >= 128 *)
Variable us : char -> bool.   (* \s for code points >= 128 *)

Definition shelly (syn : syntax) : bool := match syn with SynFunction | SynShell => true | _ => false end.

(* how a plain str is shell-quoted by the three values the shell_quote argument takes *)
Inductive qmode := QInfo | QInner | QNone.
Definition apply_q (m : qmode) (s : str) : str * bool :=
  match m with
  | QInfo => quote_bit uw (BStr s)
  | QInner => inner_quote_info uw s
  | QNone => (s, false)
  end.

Definition cat2 (a b : option (str * bool)) : option (str * bool) :=
  match a, b with
  | Some (x, e), Some (y, f) => Some (x ++ y, e || f)
  | _, _ => None
  end.

(* text and [escaped] flag of the bits of a realised path, written with inner_quote_info *)
Fixpoint write_path_bits (syn : syntax) (bits : list (bool * str)) : option (str * bool) :=
  match bits with
  | [] => Some ([], false)
  | (true, t) :: r => cat2 (Some (t, true)) (write_path_bits syn r)
  | (false, t) :: r =>
    let (q, e) := if shelly syn then apply_q QInner t else (t, false) in
    match escape_str us q syn with
    | Some x => cat2 (Some (x, e)) (write_path_bits syn r)
    | None => None
    end
  end.

(* Writer.write; returns the text written and the [escaped] flag; None = exception *)
Fixpoint write (f : mfrag) (syn : syntax) (m : qmode) {struct f} : option (str * bool) :=
  match f with
  | MLit s => Some (s, true)
  | MShLit s => option_map (fun x => (x, true)) (escape_str us s syn)
  | MStr s =>
    let (q, e) := if shelly syn then apply_q m s else (s, false) in
    option_map (fun x => (x, e)) (escape_str us q syn)
  | MPath bits =>
    match write_path_bits syn bits with
    | Some (t, e) => Some (if shelly syn && e then wrap_quotes t else t, e)
    | None => None
    end
  | MSyn data osyn quoted =>
    let syn' := match osyn with Some x => x | None => syn end in
    let m' := if quoted then QNone else m in
    match (fix go (l : list mfrag) : option (str * bool) :=
             match l with
             | [] => Some ([], false)
             | x :: r => cat2 (write x syn' m') (go r)
             end) data with
    | Some (t, e) => Some (if quoted then wrap_quotes t else t, e)
    | None => None
    end
  end.

(* a jbos is a list of fragments written one after the other *)
Fixpoint write_jbos (l : list mfrag) (syn : syntax) (m : qmode) : option (str * bool) :=
  match l with
  | [] => Some ([], false)
  | x :: r => cat2 (write x syn m) (write_jbos r syn m)
  end.

(* write_each with the default delimiter literal(' ') *)
Fixpoint write_each (items : list (list mfrag)) (syn : syntax) : option str :=
  match items with
  | [] => Some []
  | [x] => option_map fst (write_jbos x syn QInfo)
  | x :: r =>
    match write_jbos x syn QInfo, write_each r syn with
    | Some (t, _), Some u => Some (t ++ c_sp :: u)
    | _, _ => None
    end
  end.

(* the value part of  NAME := value  before the fix for '#' (write_shell) ... *)
Definition write_value_unfixed (items : list (list mfrag)) (syn : syntax) : option str := write_each items syn.
(* ... and as written now: every backslash-run followed by # is doubled and one more backslash put before # *)
Definition hash_special (c : char) : bool := N.eqb c c_hash.
Definition write_value (items : list (list mfrag)) (syn : syntax) : option str :=
  option_map (bs_esc hash_special 0) (write_each items syn).

(* a recipe line: TAB + write_shell(cmd) *)
Definition write_recipe_line (items : list (list mfrag)) : option str :=
  option_map (cons c_tab) (write_each items SynShell).
End Write.

(* plain argument words as shell items *)
Definition words_items (ws : list str) : list (list mfrag) := map (fun w => [MStr w]) ws.
