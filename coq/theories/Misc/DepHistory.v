(* C07: the edit-history model.  A project is a list of objects; each object has a source and the list of
   dependencies recorded in its depfile at its last compile (source first, then headers - what gcc -MMD wrote and
   bfg9000-depfixer turned into empty rules: C07_depfix_targets).  What GNU Make sees is [rules_of]: one empty rule
   per recorded dependency, then one rule with a recipe per object whose prerequisites are the source (from the
   Makefile) and the recorded dependencies (from the included depfile).  Definitions only. *)
From BFG Require Import Base.Chars Make.MakeSem.
Local Open Scope N_scope.

Record obj := mkObj { o_file : file; o_src : file; o_listed : list file }.

Definition orule (o : obj) : rule := mkRule (o_file o) (o_src o :: o_listed o) [] true false.
Definition leaf_rule (x : file) : rule := mkRule x [] [] false false.
Definition all_listed (objs : list obj) : list file := nodup N.eq_dec (flat_map o_listed objs).

(* the rule graph as Make reads it from Makefile + fixed depfiles; [fixed] = false models depfiles that were NOT
   post-processed by the depfixer (no empty rules) *)
Definition rules_of (fixed : bool) (objs : list obj) : list rule :=
  (if fixed then map leaf_rule (all_listed objs) else []) ++ map orule objs.

(* ... and when the compile of SOME objects failed last time: the compiler wrote their depfiles before it stopped, the
   recipe line running the depfixer was never reached, so those depfiles are as the compiler wrote them ([snd] = false) *)
Definition rules_of_mixed (objs : list (obj * bool)) : list rule :=
  map leaf_rule (nodup N.eq_dec (flat_map (fun ob : obj * bool => if snd ob then o_listed (fst ob) else []) objs)) ++
  map (fun ob : obj * bool => orule (fst ob)) objs.

(* an object is out of date w.r.t. f: it is missing, or a prerequisite is missing or newer *)
Definition stale (f : fs) (o : obj) : bool :=
  is_none (f (o_file o)) ||
  existsb (fun p => is_none (f p) || newer f p (o_file o)) (o_src o :: o_listed o).

(* object files are distinct and are not anybody's source or header *)
Definition objs_ok (objs : list obj) : Prop :=
  NoDup (map o_file objs) /\
  forall o o', In o objs -> In o' objs -> ~ In (o_file o) (o_src o' :: o_listed o').

Section History.
  (* The contents of the files are abstract; what the preprocessor would read when compiling a source is an
     oracle: the compiler's job (validated against gcc/clang by the system-level stage of harness/c07.py). *)
  Variable content : Type.
  Variable includes : content -> file -> list file.

  (* what a compile of o records now *)
  Definition scan (c : content) (o : obj) : list file := o_src o :: includes c (o_src o).

  Record world := mkW { w_c : content; w_fs : fs; w_clk : time; w_objs : list obj }.

  (* Every depfile is accurate and every object is at least as new as everything its depfile lists. *)
  Definition Inv (w : world) : Prop :=
    fs_below (w_fs w) (w_clk w) /\ objs_ok (w_objs w) /\
    forall o, In o (w_objs w) ->
      o_listed o = scan (w_c w) o /\
      exists t, w_fs w (o_file o) = Some t /\
        forall x, In x (o_listed o) -> exists tx, w_fs w x = Some tx /\ tx <= t.

  (* An edit: new contents c', the files in [touched] are modified / created (mtime = the clock) or deleted;
     nothing else changes; object files are not edited.  Scanner locality: what a compile reads can change only
     if one of the files it read before was touched.  After the edit the project compiles: every file a compile
     would read exists, and no compile reads an object file. *)
  Definition edit_ok (w : world) (c' : content) (f' : fs) (touched : list file) : Prop :=
    (forall x, memf x touched = false -> f' x = w_fs w x) /\
    (forall x, memf x touched = true -> f' x = None \/ f' x = Some (w_clk w)) /\
    (forall o, In o (w_objs w) -> memf (o_file o) touched = false) /\
    (forall o, In o (w_objs w) -> (forall x, In x (scan (w_c w) o) -> memf x touched = false) ->
               scan c' o = scan (w_c w) o) /\
    (forall o x, In o (w_objs w) -> In x (scan c' o) -> f' x <> None) /\
    (forall o o', In o (w_objs w) -> In o' (w_objs w) -> ~ In (o_file o) (scan c' o')).

  (* the build after the edit; a recompiled object gets a fresh depfile *)
  Definition after_build (w : world) (c' : content) (f' : fs) : bstate :=
    build (rules_of true (w_objs w)) f' (w_clk w + 1).

  Definition relist (c' : content) (log : list file) (o : obj) : obj :=
    if memf (o_file o) log then mkObj (o_file o) (o_src o) (scan c' o) else o.

  Definition next_world (w : world) (c' : content) (f' : fs) : world :=
    let s := after_build w c' f' in
    mkW c' (b_fs s) (b_clk s) (map (relist c' (b_log s)) (w_objs w)).

  Definition touched_obj (touched : list file) (o : obj) : bool :=
    existsb (fun x => memf x touched) (o_listed o).
End History.

Arguments mkW {content}.
Arguments w_c {content}.
Arguments w_fs {content}.
Arguments w_clk {content}.
Arguments w_objs {content}.
