(* Proofs about Misc/DepHistory.v: the build after an edit recompiles exactly the objects whose recorded
   dependencies were touched, never fails because a recorded header disappeared, and re-establishes the invariant. *)
From BFG Require Import Base.Chars Make.MakeSem Make.MakeSemProofs Misc.DepHistory.
Local Open Scope N_scope.

(* ------------------------------------------------------------------ the flat rule graph *)
Lemma phony_in_rules_of fixed objs p : phony_in (rules_of fixed objs) p = false.
Proof.
  apply nophony_in. intros r Hr. unfold rules_of in Hr. apply in_app_or in Hr as [Hr|Hr].
  - destruct fixed; [|contradiction]. apply in_map_iff in Hr as [x [<- _]]. reflexivity.
  - apply in_map_iff in Hr as [o [<- _]]. reflexivity.
Qed.

Lemma has_rule_listed objs o x : In o objs -> In x (o_listed o) -> has_rule (rules_of true objs) x = true.
Proof.
  intros Ho Hx. unfold has_rule. apply memf_In. unfold rules_of, targets. rewrite map_app. apply in_or_app. left.
  rewrite map_map. cbn [leaf_rule r_target]. rewrite map_id. unfold all_listed. apply nodup_In.
  apply in_flat_map. now exists o.
Qed.

(* the empty rules do nothing *)
Lemma run_leaves all xs s : run all (map leaf_rule xs) s = s.
Proof.
  revert s; induction xs as [|x xs IH]; intros s; [reflexivity|].
  cbn [map]. rewrite run_cons. assert (E : step all s (leaf_rule x) = s).
  { unfold step. destruct (b_fail s); [reflexivity|]. cbn [leaf_rule r_prereqs r_order app find r_recipe].
    now rewrite andb_false_r. }
  rewrite E. apply IH.
Qed.

Lemma run_app all a b s : run all (a ++ b) s = run all b (run all a s).
Proof. unfold run. apply fold_left_app. Qed.

(* the object rules, one after the other: each decision is the one taken on the initial file system *)
Lemma run_objs all f : (forall p, phony_in all p = false) ->
  forall todo s,
  b_fail s = None ->
  (forall o p, In o todo -> In p (o_src o :: o_listed o) -> f p <> None \/ has_rule all p = true) ->
  (forall o, In o todo -> b_fs s (o_file o) = f (o_file o) /\
                          forall p, In p (o_src o :: o_listed o) -> b_fs s p = f p) ->
  NoDup (map o_file todo) ->
  (forall o o', In o todo -> In o' todo -> ~ In (o_file o) (o_src o' :: o_listed o')) ->
  let s' := run all (map orule todo) s in
  b_fail s' = None /\
  b_log s' = b_log s ++ map o_file (filter (stale f) todo) /\
  b_clk s <= b_clk s' /\
  (forall y, ~ In y (map o_file (filter (stale f) todo)) -> b_fs s' y = b_fs s y) /\
  (forall o, In o (filter (stale f) todo) -> exists t, b_fs s' (o_file o) = Some t /\ b_clk s <= t).
Proof.
  intros Hph. induction todo as [|o post IH]; intros s Hf Hmk Hag Hnd Hsep; cbn zeta.
  - cbn [map filter]. rewrite app_nil_r. repeat split; try reflexivity; try assumption; try lia.
    intros o [].
  - cbn [map]. rewrite run_cons.
    destruct (Hag o (or_introl eq_refl)) as [Hagt Hagp].
    assert (Efind : find (unmakeable all s) (r_prereqs (orule o) ++ r_order (orule o)) = None).
    { apply find_none_all. intros p Hp. cbn [orule r_prereqs r_order] in Hp. rewrite app_nil_r in Hp.
      unfold unmakeable. rewrite (Hagp p Hp). destruct (Hmk o p (or_introl eq_refl) Hp) as [E|E].
      - destruct (f p); [reflexivity|congruence].
      - rewrite E. apply andb_false_r. }
    assert (Hneed : need all s (orule o) = stale f o).
    { unfold need, stale. cbn [orule r_phony r_target r_prereqs orb]. rewrite Hagt. f_equal.
      apply existsb_ext_in. intros p Hp. rewrite Hph, orb_false_r. unfold newer. now rewrite (Hagp p Hp), Hagt. }
    inversion Hnd as [|a l Hnotin Hnd']; subst.
    assert (Hsep' : forall o1 o2, In o1 post -> In o2 post -> ~ In (o_file o1) (o_src o2 :: o_listed o2)).
    { intros o1 o2 H1 H2. apply Hsep; now right. }
    assert (Hmk' : forall o1 p, In o1 post -> In p (o_src o1 :: o_listed o1) -> f p <> None \/ has_rule all p = true).
    { intros o1 p H1. apply Hmk. now right. }
    unfold step. rewrite Hf, Efind, Hneed. cbn [orule r_recipe r_phony r_target]. rewrite andb_true_r.
    destruct (stale f o) eqn:Est.
    + (* recompiled *)
      set (s1 := mkB (upd (b_fs s) (o_file o) (b_clk s)) (b_clk s + 1) (b_log s ++ [o_file o]) None).
      assert (Hag1 : forall o1, In o1 post -> b_fs s1 (o_file o1) = f (o_file o1) /\
                                 forall p, In p (o_src o1 :: o_listed o1) -> b_fs s1 p = f p).
      { intros o1 H1. destruct (Hag o1 (or_intror H1)) as [Ha Hb]. cbn [s1 b_fs]. unfold upd. split.
        - destruct (N.eqb_spec (o_file o1) (o_file o)) as [E|E]; [|assumption].
          exfalso. apply Hnotin. rewrite <- E. apply in_map. assumption.
        - intros p Hp. destruct (N.eqb_spec p (o_file o)) as [E|E]; [|now apply Hb].
          exfalso. subst p. apply (Hsep o o1 (or_introl eq_refl) (or_intror H1)). assumption. }
      destruct (IH s1 eq_refl Hmk' Hag1 Hnd' Hsep') as (I1 & I2 & I3 & I4 & I5).
      cbn [filter]. rewrite Est. cbn [map]. repeat split.
      * exact I1.
      * rewrite I2. cbn [s1 b_log]. now rewrite <- app_assoc.
      * cbn [s1 b_clk] in I3. lia.
      * intros y Hy. rewrite I4.
        -- cbn [s1 b_fs]. unfold upd. destruct (N.eqb_spec y (o_file o)) as [E|E]; [|reflexivity].
           exfalso. apply Hy. left. now symmetry.
        -- intros Hin. apply Hy. now right.
      * intros o1 [<-|H1].
        -- exists (b_clk s). split; [|lia]. rewrite I4.
           ++ cbn [s1 b_fs]. unfold upd. now rewrite N.eqb_refl.
           ++ intros Hin. apply Hnotin. apply in_map_iff in Hin as [o2 [E H2]]. rewrite <- E. apply in_map.
              apply filter_In in H2. tauto.
        -- destruct (I5 o1 H1) as [t [Et Hle]]. exists t. split; [assumption|]. cbn [s1 b_clk] in Hle. lia.
    + (* up to date *)
      assert (Hag1 : forall o1, In o1 post -> b_fs s (o_file o1) = f (o_file o1) /\
                                 forall p, In p (o_src o1 :: o_listed o1) -> b_fs s p = f p).
      { intros o1 H1. apply Hag. now right. }
      destruct (IH s Hf Hmk' Hag1 Hnd' Hsep') as (I1 & I2 & I3 & I4 & I5).
      cbn [filter]. rewrite Est. repeat split; assumption.
Qed.

Lemma run_below all todo s : fs_below (b_fs s) (b_clk s) ->
  fs_below (b_fs (run all todo s)) (b_clk (run all todo s)).
Proof.
  revert s; induction todo as [|r post IH]; intros s H; [assumption|].
  rewrite run_cons. apply IH. now apply step_below.
Qed.

(* the whole build over the fixed depfiles *)
Lemma build_rules_of objs f clk :
  objs_ok objs ->
  (forall o, In o objs -> f (o_src o) <> None \/ In (o_src o) (o_listed o)) ->
  let s := build (rules_of true objs) f clk in
  b_fail s = None /\
  b_log s = map o_file (filter (stale f) objs) /\
  clk <= b_clk s /\
  (forall y, ~ In y (map o_file (filter (stale f) objs)) -> b_fs s y = f y) /\
  (forall o, In o (filter (stale f) objs) -> exists t, b_fs s (o_file o) = Some t /\ clk <= t).
Proof.
  intros [Hnd Hsep] Hsrc. cbn zeta. set (all := rules_of true objs).
  assert (Eb : build all f clk = run all (map orule objs) (init f clk)).
  { unfold build. unfold all at 2. unfold rules_of. now rewrite run_app, run_leaves. }
  rewrite Eb. unfold all.
  apply (run_objs (rules_of true objs) f (phony_in_rules_of true objs) objs (init f clk)); try assumption.
  - reflexivity.
  - intros o p Ho [<-|Hp].
    + destruct (Hsrc o Ho) as [E|E]; [now left|right]. now apply (has_rule_listed objs o).
    + right. now apply (has_rule_listed objs o).
  - intros o Ho. split; reflexivity.
Qed.

(* ------------------------------------------------------------------ no wedge *)
(* However many recorded headers (or sources that are recorded) have been deleted: the build over the FIXED depfiles
   never stops with  No rule to make target . *)
Theorem no_wedge objs f clk :
  objs_ok objs ->
  (forall o, In o objs -> f (o_src o) <> None \/ In (o_src o) (o_listed o)) ->
  b_fail (build (rules_of true objs) f clk) = None.
Proof. intros H1 H2. now destruct (build_rules_of objs f clk H1 H2) as [H _]. Qed.

(* after clean (every object file removed; depfiles removed as well or not) the build recompiles every object *)
Theorem clean_rebuild objs f clk :
  objs_ok objs ->
  (forall o, In o objs -> f (o_src o) <> None \/ In (o_src o) (o_listed o)) ->
  (forall o, In o objs -> f (o_file o) = None) ->
  b_fail (build (rules_of true objs) f clk) = None /\
  b_log (build (rules_of true objs) f clk) = map o_file objs.
Proof.
  intros H1 H2 H3. destruct (build_rules_of objs f clk H1 H2) as (B1 & B2 & _). split; [exact B1|].
  rewrite B2. f_equal. clear - H3. induction objs as [|o l IH]; [reflexivity|].
  cbn [filter]. unfold stale at 1. rewrite (H3 o (or_introl eq_refl)). cbn [is_none orb].
  f_equal. apply IH. intros o' Ho'. apply H3. now right.
Qed.

(* ------------------------------------------------------------------ the history invariant *)
Section History.
  Variable content : Type.
  Variable includes : content -> file -> list file.

  Notation Inv := (Inv content includes).
  Notation edit_ok := (edit_ok content includes).
  Notation after_build := (after_build content).
  Notation next_world := (next_world content includes).
  Notation scan := (scan content includes).

  Lemma stale_after_edit w c' f' touched o :
    Inv w -> edit_ok w c' f' touched -> In o (w_objs w) ->
    stale f' o = touched_obj touched o.
  Proof.
    intros (Hb & Hok & Hinv) (E1 & E2 & E3 & E4 & E5) Ho.
    destruct (Hinv o Ho) as (Hl & t & Ht & Hx).
    assert (Hto : f' (o_file o) = Some t) by (rewrite E1; [assumption|now apply E3]).
    unfold stale, touched_obj. rewrite Hto. cbn [is_none orb].
    assert (Hsrc : In (o_src o) (o_listed o)) by (rewrite Hl; now left).
    cbn [existsb].
    assert (Hpoint : forall p, In p (o_listed o) ->
              is_none (f' p) || newer f' p (o_file o) = memf p touched).
    { intros p Hp. destruct (Hx p Hp) as (tp & Etp & Hle). unfold newer. rewrite Hto.
      destruct (memf p touched) eqn:Em.
      - destruct (E2 p Em) as [E|E]; rewrite E; [reflexivity|]. cbn [is_none orb]. apply N.ltb_lt.
        apply Hb in Ht. exact Ht.
      - rewrite (E1 p Em), Etp. cbn [is_none orb]. now apply N.ltb_ge. }
    rewrite (existsb_ext_in _ (fun x => memf x touched) (o_listed o) Hpoint).
    rewrite (Hpoint _ Hsrc).
    destruct (memf (o_src o) touched) eqn:Es; [|reflexivity].
    cbn [orb]. symmetry. apply existsb_exists. now exists (o_src o).
  Qed.

  Lemma filter_ext_in' {T} (f g : T -> bool) l : (forall x, In x l -> f x = g x) -> filter f l = filter g l.
  Proof.
    induction l as [|a l IH]; intros H; [reflexivity|]. cbn [filter].
    rewrite (H a (or_introl eq_refl)), IH; [reflexivity|]. intros x Hx. apply H. now right.
  Qed.

  (* exactly the objects with a touched recorded dependency are recompiled; Make does not fail, whatever was
     deleted, as long as the project still compiles *)
  Theorem rebuild_exact w c' f' touched :
    Inv w -> edit_ok w c' f' touched ->
    b_fail (after_build w c' f') = None /\
    b_log (after_build w c' f') = map o_file (filter (touched_obj touched) (w_objs w)).
  Proof.
    intros HI HE. pose proof HI as (Hb & Hok & Hinv).
    assert (Hsrc : forall o, In o (w_objs w) -> f' (o_src o) <> None \/ In (o_src o) (o_listed o)).
    { intros o Ho. right. destruct (Hinv o Ho) as (Hl & _). rewrite Hl. now left. }
    destruct (build_rules_of (w_objs w) f' (w_clk w + 1) Hok Hsrc) as (B1 & B2 & _).
    unfold after_build. split; [exact B1|]. rewrite B2. f_equal. apply filter_ext_in'.
    intros o Ho. now apply (stale_after_edit w c' f' touched).
  Qed.

  Lemma map_inj_in {T} (g : T -> file) l a b : NoDup (map g l) -> In a l -> In b l -> g a = g b -> a = b.
  Proof.
    induction l as [|x l IH]; intros Hnd Ha Hb E; [contradiction|].
    cbn [map] in Hnd. inversion Hnd as [|y k Hnotin Hnd']; subst.
    destruct Ha as [<-|Ha]; destruct Hb as [<-|Hb]; try reflexivity.
    - exfalso. apply Hnotin. rewrite E. now apply in_map.
    - exfalso. apply Hnotin. rewrite <- E. now apply in_map.
    - now apply IH.
  Qed.

  Theorem inv_preserved w c' f' touched :
    Inv w -> edit_ok w c' f' touched -> Inv (next_world w c' f').
  Proof.
    intros HI HE. pose proof HI as (Hb & Hok & Hinv). pose proof HE as (E1 & E2 & E3 & E4 & E5 & E6).
    pose proof Hok as [Hnd Hsep].
    assert (Hsrc : forall o, In o (w_objs w) -> f' (o_src o) <> None \/ In (o_src o) (o_listed o)).
    { intros o Ho. right. destruct (Hinv o Ho) as (Hl & _). rewrite Hl. now left. }
    destruct (build_rules_of (w_objs w) f' (w_clk w + 1) Hok Hsrc) as (B1 & B2 & B3 & B4 & B5).
    assert (Hst : forall o, In o (w_objs w) -> stale f' o = touched_obj touched o).
    { intros o Ho. now apply (stale_after_edit w c' f' touched). }
    assert (Hb' : fs_below f' (w_clk w + 1)).
    { intros x t Hx. destruct (memf x touched) eqn:Em.
      - destruct (E2 x Em) as [E|E]; rewrite E in Hx; [discriminate|]. inversion Hx. lia.
      - rewrite (E1 x Em) in Hx. apply Hb in Hx. lia. }
    unfold next_world. fold (after_build w c' f'). set (s := after_build w c' f') in *.
    assert (Hs : s = build (rules_of true (w_objs w)) f' (w_clk w + 1)) by reflexivity.
    rewrite <- Hs in B1, B2, B3, B4, B5.
    (* membership in the log = being a stale object *)
    assert (Hlog : forall o, In o (w_objs w) -> (memf (o_file o) (b_log s) = true <-> stale f' o = true)).
    { intros o Ho. rewrite memf_In, B2. split.
      - intros Hin. apply in_map_iff in Hin as [o2 [E H2]]. apply filter_In in H2 as [H2 H3].
        now rewrite <- (map_inj_in o_file (w_objs w) o2 o Hnd H2 Ho E).
      - intros Est. apply in_map. apply filter_In. now split. }
    (* a file that is not an object file is untouched by the build *)
    assert (Hkeep : forall x, (forall o, In o (w_objs w) -> x <> o_file o) -> b_fs s x = f' x).
    { intros x Hx. apply B4. intros Hin. apply in_map_iff in Hin as [o2 [E H2]]. apply filter_In in H2 as [H2 _].
      now apply (Hx o2 H2). }
    assert (Ef : forall o, o_file (relist content includes c' (b_log s) o) = o_file o).
    { intros o. unfold relist. now destruct (memf (o_file o) (b_log s)). }
    unfold DepHistory.Inv. cbn [w_fs w_clk w_objs w_c]. split; [|split].
    - rewrite Hs. unfold build. apply run_below. exact Hb'.
    - split.
      + rewrite map_map. rewrite (map_ext _ o_file Ef). assumption.
      + intros o1 o2 H1 H2. apply in_map_iff in H1 as [a [<- Ha]]. apply in_map_iff in H2 as [b [<- Hbb]].
        rewrite Ef. unfold relist. destruct (memf (o_file b) (b_log s)) eqn:Eb.
        * cbn [o_src o_listed]. intros Hin. apply (E6 a b Ha Hbb).
          destruct Hin as [<-|Hin]; [now left|assumption].
        * now apply Hsep.
    - intros o' Ho'. apply in_map_iff in Ho' as [o [<- Ho]].
      destruct (Hinv o Ho) as (Hl & t & Ht & Hx).
      unfold relist. destruct (memf (o_file o) (b_log s)) eqn:Em.
      + (* recompiled: fresh depfile, newest file *)
        cbn [o_listed o_file o_src]. split; [reflexivity|].
        assert (Est : stale f' o = true) by now apply Hlog.
        destruct (B5 o (proj2 (filter_In _ _ _) (conj Ho Est))) as (t' & Et' & Hle').
        exists t'. split; [assumption|]. intros x Hxs.
        assert (Hex := E5 o x Ho Hxs). destruct (f' x) as [tx|] eqn:Etx; [|congruence].
        exists tx. split.
        * rewrite Hkeep; [assumption|]. intros o2 H2 E. subst x. now apply (E6 o2 o H2 Ho).
        * apply Hb' in Etx. lia.
      + (* not recompiled: nothing it recorded was touched *)
        assert (Est : stale f' o = false).
        { destruct (stale f' o) eqn:E; [|reflexivity]. apply Hlog in E; [congruence|assumption]. }
        rewrite (Hst o Ho) in Est. unfold touched_obj in Est.
        assert (Hunt : forall x, In x (o_listed o) -> memf x touched = false).
        { intros x Hxl. destruct (memf x touched) eqn:E; [|reflexivity].
          assert (existsb (fun y => memf y touched) (o_listed o) = true) by (apply existsb_exists; now exists x).
          congruence. }
        split.
        * rewrite Hl. symmetry. apply E4; [assumption|]. intros x Hxs. apply Hunt. now rewrite Hl.
        * exists t. split.
          -- rewrite B4.
             ++ rewrite E1; [assumption|now apply E3].
             ++ intros Hin. apply memf_In in Hin. rewrite <- B2 in Hin. congruence.
          -- intros x Hxl. destruct (Hx x Hxl) as (tx & Etx & Hle). exists tx. split; [|assumption].
             rewrite Hkeep.
             ++ rewrite E1; [assumption|now apply Hunt].
             ++ intros o2 H2 E. subst x. apply (Hsep o2 o H2 Ho). now right.
  Qed.
End History.

(* ------------------------------------------------------------------ the hypotheses are satisfiable
   One object 10 compiled from source 2, which includes header 1; the edit modifies header 1. *)
Definition ex_includes (_ : unit) (s : file) : list file := if s =? 2 then [1] else [].
Definition ex_world : world unit := mkW tt (fs_of [(1, 5); (2, 6); (10, 50)]) 100 [mkObj 10 2 [2; 1]].
Definition ex_fs' : fs := upd (w_fs ex_world) 1 100.

Lemma ex_Inv : Inv unit ex_includes ex_world.
Proof.
  split; [|split].
  - intros x t. cbn [ex_world w_fs w_clk fs_of].
    destruct (x =? 1); [intros H; inversion H; lia|].
    destruct (x =? 2); [intros H; inversion H; lia|].
    destruct (x =? 10); [intros H; inversion H; lia|discriminate].
  - split.
    + cbn. constructor; [intros []|constructor].
    + intros o o' [<-|[]] [<-|[]]. cbn. intros [H|[H|[H|[]]]]; discriminate.
  - intros o [<-|[]]. split; [reflexivity|]. exists 50. split; [reflexivity|].
    intros x [<-|[<-|[]]]; [exists 6|exists 5]; split; try reflexivity; lia.
Qed.

Lemma ex_edit_ok : edit_ok unit ex_includes ex_world tt ex_fs' [1].
Proof.
  unfold edit_ok, ex_fs'. repeat split.
  - intros x Hx. cbn [memf existsb] in Hx. rewrite orb_false_r in Hx. unfold upd. now rewrite Hx.
  - intros x Hx. cbn [memf existsb] in Hx. rewrite orb_false_r in Hx. right. unfold upd. now rewrite Hx.
  - intros o [<-|[]]. reflexivity.
  - intros o x [<-|[]] [<-|[<-|[]]]; discriminate.
  - intros o o' [<-|[]] [<-|[]]. cbn. intros [H|[H|[]]]; discriminate.
Qed.

(* and the conclusion is not trivial on it: the object is recompiled *)
Lemma ex_rebuild : b_log (after_build unit ex_world tt ex_fs') = [10].
Proof. vm_compute. reflexivity. Qed.
