(* Model of bfg9000/depfixer.py (W), of the depfile writer of gcc/clang (R) and of GNU Make's
   reading of rule headers in an included depfile (R).  Definitions only; proofs in DepfixProofs.v.

   depfixer.py is mirrored AS WRITTEN:
     tokenize   - generator over characters; a colon is a separator only when followed by blank, newline or
                  end of input; backslash-newline is swallowed (no token at all); backslash followed by c yields
                  the two char tokens backslash, c; after a colon the following character goes through the
                  second half of the loop body only (so the second colon of a pair is never a separator).
     emit_deps  - four-state machine over the tokens; writes each dependency followed by colon-newline;
                  output already written stays written when an exception is raised (the model returns the
                  output prefix together with the error). *)
From BFG Require Import Base.Chars.
Local Open Scope N_scope.

(* ------------------------------------------------------------------ depfixer.tokenize *)
Inductive tok := TChar (c : char) | TColon | TSpace | TNewline.

Definition is_blank (c : char) : bool := (c =? c_sp) || (c =? c_tab).

(* the if/elif chain at the end of the loop body, for a character that is not a backslash *)
Definition tok1 (c : char) : tok :=
  if is_blank c then TSpace else if c =? c_nl then TNewline else TChar c.

(* position inside the loop body: at its start / just after next(s) that followed a colon /
   just after next(s) that followed a backslash *)
Inductive tstate := TsStart | TsColon | TsBs.

Fixpoint tok_go (st : tstate) (s : str) : list tok :=
  match s with
  | [] => match st with TsStart => [] | TsColon => [TColon] | TsBs => [TChar c_bs] end
  | c :: r =>
      (* second half of the loop body (from the test for a backslash on); written out twice because a
         let-bound value would be evaluated eagerly - twice per character - by the extracted code *)
      match st with
      | TsStart =>
          if c =? c_colon then tok_go TsColon r
          else if c =? c_bs then tok_go TsBs r else tok1 c :: tok_go TsStart r
      | TsColon =>
          (if is_blank c || (c =? c_nl) then TColon else TChar c_colon) ::
          (if c =? c_bs then tok_go TsBs r else tok1 c :: tok_go TsStart r)
      | TsBs => if c =? c_nl then tok_go TsStart r else TChar c_bs :: TChar c :: tok_go TsStart r
      end
  end.

Definition tokenize (s : str) : list tok := tok_go TsStart s.

(* ------------------------------------------------------------------ depfixer.emit_deps *)
Inductive dstate := DTarget | DBetweenTargets | DDep | DBetweenDeps.
(* UnexpectedTokenError(tok) / ParseError(unexpected end of file) *)
Inductive derr := EUnexpected (t : tok) | EEof.

Definition pre (o : str) (p : str * option derr) : str * option derr := (o ++ fst p, snd p).
Definition colon_nl : str := [c_colon; c_nl].

Fixpoint emit (st : dstate) (ts : list tok) : str * option derr :=
  match ts with
  | [] => ([], match st with DTarget => None | _ => Some EEof end)
  | t :: r =>
      match st, t with
      | DTarget, TSpace => emit DBetweenTargets r
      | DTarget, TColon => emit DBetweenDeps r
      | DTarget, TChar _ => emit DTarget r
      | DTarget, TNewline => ([], Some (EUnexpected t))
      | DBetweenTargets, TChar _ => emit DTarget r
      | DBetweenTargets, TColon => emit DBetweenDeps r
      | DBetweenTargets, TSpace => emit DBetweenTargets r
      | DBetweenTargets, TNewline => ([], Some (EUnexpected t))
      | DDep, TChar c => pre [c] (emit DDep r)
      | DDep, TSpace => pre colon_nl (emit DBetweenDeps r)
      | DDep, TNewline => pre colon_nl (emit DTarget r)
      | DDep, TColon => ([], Some (EUnexpected t))
      | DBetweenDeps, TChar c => pre [c] (emit DDep r)
      | DBetweenDeps, TNewline => emit DTarget r
      | DBetweenDeps, TSpace => emit DBetweenDeps r
      | DBetweenDeps, TColon => ([], Some (EUnexpected t))
      end
  end.

(* emit_deps(instream, outstream): (what was written to outstream, exception if any) *)
Definition emit_deps (s : str) : str * option derr := emit DTarget (tokenize s).

(* ------------------------------------------------------------------ R: the depfile writer of gcc / clang
   gcc (libcpp/mkdeps.cc munge): blank (space, tab) is preceded by a backslash and the backslashes directly before
   it are doubled; hash is preceded by one backslash (preceding backslashes are NOT doubled); dollar is doubled;
   every other character (colon, percent, ... included) is copied.  [p] counts the backslashes directly before
   the current position. *)
Fixpoint munge_go (p : nat) (s : str) : str :=
  match s with
  | [] => []
  | c :: r =>
      if c =? c_bs then c_bs :: munge_go (Datatypes.S p) r
      else if is_blank c then repeat c_bs p ++ c_bs :: c :: munge_go 0 r
      else if c =? c_hash then c_bs :: c :: munge_go 0 r
      else if c =? c_dollar then c_dollar :: c_dollar :: munge_go 0 r
      else c :: munge_go 0 r
  end.
Definition munge (s : str) : str := munge_go 0 s.

(* separator written before a dependency: one space, or (line wrap) space backslash newline followed by
   n+1 spaces (gcc: one, clang: two).  Where the compiler wraps is left open: the wrap decision travels with
   each dependency, so theorems hold for every wrapping. *)
Definition dep_sep (w : nat) : str :=
  match w with
  | O => [c_sp]
  | Datatypes.S k => [c_sp; c_bs; c_nl] ++ repeat c_sp w
  end.

Definition gcc_deps (wdeps : list (nat * str)) : str :=
  concat (map (fun wd => dep_sep (fst wd) ++ munge (snd wd)) wdeps).

(*  tgt: d1 d2 \
     d3
 *)
Definition gcc_depfile (tgt : str) (wdeps : list (nat * str)) : str :=
  munge tgt ++ [c_colon] ++ gcc_deps wdeps ++ [c_nl].

(* ------------------------------------------------------------------ R: GNU Make 4.3 reading explicit rule
   headers (the fragment a depfile can contain).  Result: the rules in order, each (targets, prerequisites);
   None = Make reports an error OR the text is outside the modelled fragment (pattern rules, variable
   assignments, comments, order-only bar, recipe semicolon, wildcards, archive parentheses, leading tilde,
   ampersand (ampersand-colon is the grouped-target separator of Make 4.3),
   a backslash before a backslash, a dollar that is not doubled).
     backslash newline      -> word break
     backslash hash         -> hash, literally
     backslash space        -> space, literally, when a word character follows; otherwise None (before a blank,
                               a newline or the end Make strips or merges it: names ending in a space are misread)
     backslash tab          -> None (Make 4.3 keeps the tab in a prerequisite but reads a SPACE in a target)
     a raw tab              -> None (at the start of a line it would open a recipe)
     backslash other        -> a literal backslash, then the other character is read normally
     dollar dollar          -> dollar
     first colon of a line  -> end of targets (at least one target required); a second colon -> None
   Not modelled: Make drops a leading dot-slash from every name (on both sides of a rule alike, so whether a
   dependency is a target is unaffected); rules of one target given twice are merged by Make. *)
Definition mrule := (list str * list str)%type.

Definition flush (cur : option str) (ws : list str) : list str :=
  match cur with None => ws | Some w => ws ++ [w] end.
Definition push (cur : option str) (c : char) : option str :=
  Some (match cur with None => [c] | Some w => w ++ [c] end).

(* characters the reader refuses anywhere outside an escape *)
Definition rd_refused (c : char) : bool :=
  mem_char c [c_pct; c_eq; c_semi; c_pipe; c_star; c_qm; c_lb; c_lp; c_rp; c_amp].

(* may an escaped space be followed by this text *)
Definition cont_ok (r : str) : bool :=
  match r with
  | [] => false
  | c3 :: r3 =>
      if (c3 =? c_nl) || (c3 =? c_sp) || (c3 =? c_tab) then false
      else if c3 =? c_bs then match r3 with [] => false | c4 :: _ => negb (c4 =? c_nl) end   (* not a continuation *)
      else true
  end.

Definition end_line (after : bool) (cur : option str) (tg ws : list str) (acc : list mrule) : option (list mrule) :=
  let ws' := flush cur ws in
  if after then Some (acc ++ [(tg, ws')])
  else match ws' with [] => Some acc | _ => None end.

Fixpoint rd (after : bool) (cur : option str) (tg ws : list str) (acc : list mrule) (s : str)
  : option (list mrule) :=
  match s with
  | [] => end_line after cur tg ws acc
  | c :: r =>
      if c =? c_nl then
        match end_line after cur tg ws acc with
        | Some acc' => rd false None [] [] acc' r
        | None => None
        end
      else if c =? c_tab then None
      else if c =? c_sp then rd after None tg (flush cur ws) acc r
      else if c =? c_bs then
        match r with
        | [] => None
        | c2 :: r2 =>
            if c2 =? c_nl then rd after None tg (flush cur ws) acc r2
            else if c2 =? c_sp then (if cont_ok r2 then rd after (push cur c2) tg ws acc r2 else None)
            else if c2 =? c_hash then rd after (push cur c2) tg ws acc r2
            else if (c2 =? c_bs) || (c2 =? c_tab) || (c2 =? c_colon) || (c2 =? c_pct) then None
            else rd after (push cur c) tg ws acc r
        end
      else if c =? c_dollar then
        match r with
        | c2 :: r2 => if c2 =? c_dollar then rd after (push cur c) tg ws acc r2 else None
        | [] => None
        end
      else if c =? c_colon then
        if after then None
        else match flush cur ws with
             | [] => None
             | tg' => rd true None tg' [] acc r
             end
      else if c =? c_hash then None
      else if rd_refused c then None
      else if (c =? c_tilde) && match cur with None => true | Some _ => false end then None
      else rd after (push cur c) tg ws acc r
  end.

Definition mk_read (s : str) : option (list mrule) := rd false None [] [] [] s.

(* names for which gcc's line and the depfixer's added lines are inside the reader's fragment *)
Definition char_ok (c : char) : bool :=
  negb (rd_refused c) && negb (c =? c_bs) && negb (c =? c_colon) && negb (c =? c_nl) && negb (c =? c_tab).
Definition name_ok (s : str) : bool :=
  match s with
  | [] => false
  | c :: _ => negb (c =? c_tilde) && forallb char_ok s && negb (last s 0 =? c_sp)
  end.

(* ------------------------------------------------------------------ specification of the error branches
   A declarative reading of when emit_deps raises, line by line: a line terminated by a newline must contain exactly
   one separator colon; the unterminated rest of the input must contain no separator colon and must not end in a
   blank (an unterminated rule is an error, trailing word characters are silently ignored - as written). *)
Definition is_colon (t : tok) : bool := match t with TColon => true | _ => false end.
Definition ncolon (l : list tok) : nat := length (filter is_colon l).

Fixpoint split_lines (ts cur : list tok) : list (list tok) * list tok :=
  match ts with
  | [] => ([], cur)
  | TNewline :: r => let p := split_lines r [] in (cur :: fst p, snd p)
  | t :: r => split_lines r (cur ++ [t])
  end.

Definition line_err (l : list tok) : option derr :=
  match ncolon l with
  | O => Some (EUnexpected TNewline)
  | Datatypes.S O => None
  | _ => Some (EUnexpected TColon)
  end.

Definition tail_err (l : list tok) : option derr :=
  match ncolon l with
  | O => match last l (TChar 0) with TSpace => Some EEof | _ => None end
  | Datatypes.S O => Some EEof
  | _ => Some (EUnexpected TColon)
  end.

Fixpoint first_err (ls : list (list tok)) (rest : list tok) : option derr :=
  match ls with
  | [] => tail_err rest
  | l :: r => match line_err l with Some e => Some e | None => first_err r rest end
  end.

Definition depfile_err (s : str) : option derr :=
  let p := split_lines (tokenize s) [] in first_err (fst p) (snd p).
