(* Proofs about Misc/Depfix.v: the depfixer turns every dependency of a compiler-written depfile into an
   empty rule, and GNU Make reads the fixed file back as the intended rules. *)
From BFG Require Import Base.Chars Misc.Depfix.
Local Open Scope N_scope.

(* ------------------------------------------------------------------ small facts *)
Lemma pre_pre a b x : pre a (pre b x) = pre (a ++ b) x.
Proof. unfold pre; cbn. now rewrite app_assoc. Qed.

Lemma pre_nil x : pre [] x = x.
Proof. now destruct x. Qed.

(* escaping of one character when no backslash precedes it *)
Definition esc1 (c : char) : str :=
  if is_blank c then [c_bs; c]
  else if c =? c_hash then [c_bs; c]
  else if c =? c_dollar then [c_dollar; c_dollar]
  else [c].

Definition nobs (c : char) : bool := negb (c =? c_bs).

Lemma munge_nobs d : forallb nobs d = true -> munge d = flat_map esc1 d.
Proof.
  unfold munge. induction d as [|c d IH]; intros H; [reflexivity|].
  cbn [forallb] in H. apply andb_true_iff in H as [Hc Hd]. unfold nobs in Hc. apply negb_true_iff in Hc.
  cbn [munge_go flat_map]. rewrite Hc. unfold esc1.
  destruct (is_blank c); [cbn [repeat app]; now rewrite IH|].
  destruct (c =? c_hash); [cbn [app]; now rewrite IH|].
  destruct (c =? c_dollar); cbn [app]; now rewrite IH.
Qed.

(* what name_ok gives, character by character *)
Lemma char_ok_inv c : char_ok c = true ->
  rd_refused c = false /\ (c =? c_bs) = false /\ (c =? c_colon) = false /\ (c =? c_nl) = false /\ (c =? c_tab) = false.
Proof.
  unfold char_ok. rewrite !andb_true_iff, !negb_true_iff. tauto.
Qed.

Lemma name_ok_inv s : name_ok s = true ->
  exists c r, s = c :: r /\ (c =? c_tilde) = false /\ forallb char_ok s = true /\ (last s 0 =? c_sp) = false.
Proof.
  destruct s as [|c r]; [discriminate|]. unfold name_ok. rewrite !andb_true_iff, !negb_true_iff.
  intros [[H1 H2] H3]. now exists c, r.
Qed.

Lemma char_ok_nobs d : forallb char_ok d = true -> forallb nobs d = true.
Proof.
  induction d as [|c d IH]; [reflexivity|]. cbn [forallb]. rewrite !andb_true_iff. intros [Hc Hd].
  split; [|auto]. apply char_ok_inv in Hc. unfold nobs. now rewrite (proj1 (proj2 Hc)).
Qed.

Lemma blank_not c : is_blank c = true -> (c =? c_nl) = false /\ (c =? c_bs) = false /\ (c =? c_colon) = false
  /\ (c =? c_dollar) = false /\ (c =? c_hash) = false.
Proof.
  unfold is_blank. rewrite orb_true_iff, !N.eqb_eq. intros [->| ->]; repeat split; reflexivity.
Qed.

(* ------------------------------------------------------------------ tokenize on escaped names *)
Lemma tok_esc1 c rest : (c =? c_bs) = false -> (c =? c_colon) = false -> (c =? c_nl) = false ->
  tok_go TsStart (esc1 c ++ rest) = map TChar (esc1 c) ++ tok_go TsStart rest.
Proof.
  intros Hb Hc Hn. unfold esc1.
  destruct (is_blank c) eqn:Bl.
  - cbn [app tok_go map]. change (c_bs =? c_colon) with false. change (c_bs =? c_bs) with true. cbn iota.
    now rewrite Hn.
  - destruct (c =? c_hash) eqn:Hh.
    + cbn [app tok_go map]. change (c_bs =? c_colon) with false. change (c_bs =? c_bs) with true. cbn iota.
      now rewrite Hn.
    + destruct (c =? c_dollar) eqn:Hd.
      * cbn [app tok_go map]. change (c_dollar =? c_colon) with false. change (c_dollar =? c_bs) with false.
        cbn iota. reflexivity.
      * cbn [app tok_go map]. rewrite Hc, Hb. unfold tok1. now rewrite Bl, Hn.
Qed.

Lemma tok_name d rest : forallb char_ok d = true ->
  tok_go TsStart (flat_map esc1 d ++ rest) = map TChar (flat_map esc1 d) ++ tok_go TsStart rest.
Proof.
  induction d as [|c d IH]; intros H; [reflexivity|].
  cbn [forallb] in H. apply andb_true_iff in H as [Hc Hd]. apply char_ok_inv in Hc as (_ & Hb & Hcol & Hn & _).
  cbn [flat_map]. rewrite <- app_assoc, tok_esc1 by assumption. rewrite IH by assumption.
  now rewrite map_app, <- app_assoc.
Qed.

Lemma tok_spaces n rest : tok_go TsStart (repeat c_sp n ++ rest) = repeat TSpace n ++ tok_go TsStart rest.
Proof. induction n as [|n IH]; [reflexivity|]. cbn [repeat app tok_go]. now rewrite IH. Qed.

Lemma tok_sep w rest :
  tok_go TsStart (dep_sep w ++ rest) = TSpace :: repeat TSpace w ++ tok_go TsStart rest.
Proof.
  destruct w as [|k]; [reflexivity|].
  unfold dep_sep. rewrite <- app_assoc. cbn [app tok_go].
  change (c_sp =? c_colon) with false. change (c_sp =? c_bs) with false. change (c_bs =? c_colon) with false.
  change (c_bs =? c_bs) with true. change (c_nl =? c_nl) with true. cbn iota.
  change (tok1 c_sp) with TSpace. f_equal. apply tok_spaces.
Qed.

(* ------------------------------------------------------------------ emit on runs of tokens *)
Lemma emit_target_chars cs ts : emit DTarget (map TChar cs ++ ts) = emit DTarget ts.
Proof. induction cs as [|c cs IH]; [reflexivity|]. exact IH. Qed.

Lemma emit_dep_chars cs ts : emit DDep (map TChar cs ++ ts) = pre cs (emit DDep ts).
Proof.
  induction cs as [|c cs IH]; [now rewrite pre_nil|].
  cbn [map app emit]. rewrite IH, pre_pre. reflexivity.
Qed.

Lemma emit_between_spaces n ts : emit DBetweenDeps (repeat TSpace n ++ ts) = emit DBetweenDeps ts.
Proof. induction n as [|n IH]; [reflexivity|]. exact IH. Qed.

Lemma emit_between_chars cs ts : cs <> [] -> emit DBetweenDeps (map TChar cs ++ ts) = pre cs (emit DDep ts).
Proof.
  destruct cs as [|c cs]; [congruence|]. intros _.
  cbn [map app emit]. rewrite emit_dep_chars, pre_pre. reflexivity.
Qed.

Lemma esc1_nonempty c : esc1 c <> [].
Proof.
  unfold esc1. destruct (is_blank c); [discriminate|]. destruct (c =? c_hash); [discriminate|].
  destruct (c =? c_dollar); discriminate.
Qed.

Lemma munge_name_nonempty d : name_ok d = true -> flat_map esc1 d <> [].
Proof.
  intros H. apply name_ok_inv in H as (c & r & -> & _ & _ & _). cbn [flat_map].
  intros E. apply app_eq_nil in E as [E _]. now apply esc1_nonempty in E.
Qed.

(* the lines the depfixer writes for a list of dependencies *)
Definition fixed_lines (wdeps : list (nat * str)) : str :=
  concat (map (fun wd => munge (snd wd) ++ colon_nl) wdeps).

Definition deps_ok (wdeps : list (nat * str)) : Prop := Forall (fun wd => name_ok (snd wd) = true) wdeps.

Lemma name_ok_munge d : name_ok d = true -> munge d = flat_map esc1 d /\ forallb char_ok d = true.
Proof.
  intros H. apply name_ok_inv in H as (c & r & -> & _ & H & _). split; [|assumption].
  apply munge_nobs. now apply char_ok_nobs.
Qed.

(* in state dep (the characters of a dependency have just been written), the rest of the compiler's line *)
Lemma emit_rest_of_line wdeps rest : deps_ok wdeps ->
  emit DDep (tok_go TsStart (gcc_deps wdeps ++ c_nl :: rest))
  = pre (colon_nl ++ fixed_lines wdeps) (emit DTarget (tok_go TsStart rest)).
Proof.
  induction wdeps as [|[w d] l IH]; intros Hok.
  - cbn [gcc_deps map concat app tok_go]. change (c_nl =? c_colon) with false. change (c_nl =? c_bs) with false.
    cbn iota. change (tok1 c_nl) with TNewline. cbn [emit]. unfold fixed_lines. cbn [map concat].
    now rewrite app_nil_r.
  - inversion Hok as [|x y Hd Hl]; subst. cbn [snd] in Hd.
    destruct (name_ok_munge d Hd) as [Em Hch].
    unfold gcc_deps. cbn [map concat fst snd]. fold (gcc_deps l). rewrite <- !app_assoc, tok_sep.
    cbn [emit]. rewrite emit_between_spaces. rewrite Em, tok_name by assumption.
    rewrite emit_between_chars by now apply munge_name_nonempty.
    rewrite (IH Hl). rewrite !pre_pre. f_equal.
    unfold fixed_lines. cbn [map concat snd]. rewrite Em. now rewrite <- !app_assoc.
Qed.

(* one compiler-written rule followed by anything: exactly the fixed lines are written for it *)
Lemma emit_rule tgt wdeps rest : name_ok tgt = true -> deps_ok wdeps ->
  emit DTarget (tok_go TsStart (gcc_depfile tgt wdeps ++ rest))
  = pre (fixed_lines wdeps) (emit DTarget (tok_go TsStart rest)).
Proof.
  intros Ht Hok. destruct (name_ok_munge tgt Ht) as [Em Hch].
  unfold gcc_depfile. rewrite Em, <- !app_assoc, tok_name, emit_target_chars by assumption.
  destruct wdeps as [|[w d] l].
  - cbn [gcc_deps map concat app tok_go]. change (c_colon =? c_colon) with true. cbn iota.
    change (is_blank c_nl || (c_nl =? c_nl)) with true. change (c_nl =? c_bs) with false. cbn iota.
    change (tok1 c_nl) with TNewline. cbn [emit]. unfold fixed_lines. cbn [map concat]. now rewrite pre_nil.
  - inversion Hok as [|x y Hd Hl]; subst. cbn [snd] in Hd.
    destruct (name_ok_munge d Hd) as [Emd Hchd].
    unfold gcc_deps. cbn [map concat fst snd app]. fold (gcc_deps l).
    (* the colon, then the first character of the separator (a space) *)
    destruct w as [|k].
    + cbn [dep_sep app tok_go]. change (c_colon =? c_colon) with true. cbn iota.
      change (is_blank c_sp || (c_sp =? c_nl)) with true. change (c_sp =? c_bs) with false. cbn iota.
      change (tok1 c_sp) with TSpace. cbn [emit].
      rewrite <- app_assoc, Emd, tok_name by assumption.
      rewrite emit_between_chars by now apply munge_name_nonempty.
      rewrite (emit_rest_of_line l rest Hl), pre_pre. f_equal.
      unfold fixed_lines. cbn [map concat snd]. rewrite Emd. now rewrite <- !app_assoc.
    + unfold dep_sep. cbn [app tok_go]. change (c_colon =? c_colon) with true. cbn iota.
      change (is_blank c_sp || (c_sp =? c_nl)) with true. change (c_sp =? c_bs) with false. cbn iota.
      change (tok1 c_sp) with TSpace. change (c_bs =? c_colon) with false. change (c_bs =? c_bs) with true.
      cbn iota. change (c_nl =? c_nl) with true. cbn iota. cbn [emit].
      rewrite <- !app_assoc. rewrite tok_spaces, emit_between_spaces.
      rewrite Emd, tok_name by assumption.
      rewrite emit_between_chars by now apply munge_name_nonempty.
      rewrite (emit_rest_of_line l rest Hl), pre_pre. f_equal.
      unfold fixed_lines. cbn [map concat snd]. rewrite Emd. now rewrite <- !app_assoc.
Qed.

Theorem emit_deps_gcc tgt wdeps : name_ok tgt = true -> deps_ok wdeps ->
  emit_deps (gcc_depfile tgt wdeps) = (fixed_lines wdeps, None).
Proof.
  intros Ht Hok. unfold emit_deps, tokenize.
  rewrite <- (app_nil_r (gcc_depfile tgt wdeps)), emit_rule by assumption.
  cbn [tok_go emit]. unfold pre. cbn [fst snd]. now rewrite app_nil_r.
Qed.

(* several rules in one depfile (what a compiler writes with more than one output) *)
Theorem emit_deps_gcc_many (rules : list (str * list (nat * str))) :
  Forall (fun r => name_ok (fst r) = true /\ deps_ok (snd r)) rules ->
  emit_deps (concat (map (fun r => gcc_depfile (fst r) (snd r)) rules))
  = (concat (map (fun r => fixed_lines (snd r)) rules), None).
Proof.
  unfold emit_deps, tokenize. induction rules as [|[t wd] l IH]; intros H; [reflexivity|].
  inversion H as [|x y [Ht Hd] Hl]; subst. cbn [map concat fst snd] in *.
  rewrite emit_rule by assumption. rewrite (IH Hl). unfold pre. now cbn [fst snd].
Qed.

(* ------------------------------------------------------------------ Make reads names back *)
Lemma rd_esc1 after cur tg ws acc c rest :
  char_ok c = true -> ((c =? c_tilde) = true -> cur <> None) -> ((c =? c_sp) = true -> cont_ok rest = true) ->
  rd after cur tg ws acc (esc1 c ++ rest) = rd after (push cur c) tg ws acc rest.
Proof.
  intros Hc Ht Hs. apply char_ok_inv in Hc as (Hr & Hb & Hcol & Hn & Htab). unfold esc1.
  destruct (is_blank c) eqn:Bl.
  - unfold is_blank in Bl. rewrite Htab, orb_false_r in Bl.
    cbn [app rd]. change (c_bs =? c_nl) with false. change (c_bs =? c_tab) with false.
    change (c_bs =? c_sp) with false. change (c_bs =? c_bs) with true. cbn iota.
    rewrite Hn, Bl, (Hs Bl). reflexivity.
  - unfold is_blank in Bl. apply orb_false_iff in Bl as [Bs _].
    destruct (c =? c_hash) eqn:Hh.
    + cbn [app rd]. change (c_bs =? c_nl) with false. change (c_bs =? c_tab) with false.
      change (c_bs =? c_sp) with false. change (c_bs =? c_bs) with true. cbn iota.
      rewrite Hn, Bs, Hh. reflexivity.
    + destruct (c =? c_dollar) eqn:Hd.
      * apply N.eqb_eq in Hd. subst c. cbn [app rd]. change (c_dollar =? c_nl) with false.
        change (c_dollar =? c_tab) with false. change (c_dollar =? c_sp) with false.
        change (c_dollar =? c_bs) with false.
        change (c_dollar =? c_dollar) with true. cbn iota. reflexivity.
      * cbn [app rd]. rewrite Hn, Htab, Bs, Hb, Hd, Hcol, Hh, Hr.
        destruct (c =? c_tilde) eqn:Etl; [|reflexivity].
        destruct cur; [reflexivity|]. now specialize (Ht eq_refl).
Qed.

Lemma cont_esc1 c rest : char_ok c = true -> cont_ok (esc1 c ++ rest) = true.
Proof.
  intros Hc. apply char_ok_inv in Hc as (Hr & Hb & Hcol & Hn & Htab). unfold esc1.
  destruct (is_blank c) eqn:Bl.
  - cbn [app cont_ok]. change (c_bs =? c_nl) with false. change (c_bs =? c_sp) with false.
    change (c_bs =? c_tab) with false. change (c_bs =? c_bs) with true. cbn iota. cbn [orb]. now rewrite Hn.
  - destruct (c =? c_hash).
    + cbn [app cont_ok]. change (c_bs =? c_nl) with false. change (c_bs =? c_sp) with false.
      change (c_bs =? c_tab) with false. change (c_bs =? c_bs) with true. cbn iota. cbn [orb]. now rewrite Hn.
    + destruct (c =? c_dollar); [reflexivity|].
      unfold is_blank in Bl. apply orb_false_iff in Bl as [Bs _].
      cbn [app cont_ok]. now rewrite Hn, Bs, Htab, Hb.
Qed.

Lemma rd_chars_some after w tg ws acc d rest : forallb char_ok d = true ->
  (d <> [] -> (last d 0 =? c_sp) = false) ->
  rd after (Some w) tg ws acc (flat_map esc1 d ++ rest) = rd after (Some (w ++ d)) tg ws acc rest.
Proof.
  revert w; induction d as [|c d IH]; intros w H Hl; [now rewrite app_nil_r|].
  cbn [forallb] in H. apply andb_true_iff in H as [Hc Hd].
  cbn [flat_map]. rewrite <- app_assoc, rd_esc1; [|assumption|discriminate|].
  - unfold push. rewrite IH; [now rewrite <- app_assoc|assumption|].
    intros Hne. specialize (Hl ltac:(discriminate)). destruct d; [congruence|exact Hl].
  - intros Hs. destruct d as [|c' d'].
    + specialize (Hl ltac:(discriminate)). cbn [last] in Hl. congruence.
    + cbn [forallb] in Hd. apply andb_true_iff in Hd as [Hc' _].
      cbn [flat_map]. rewrite <- app_assoc. now apply cont_esc1.
Qed.

Lemma rd_name after tg ws acc d rest : name_ok d = true ->
  rd after None tg ws acc (munge d ++ rest) = rd after (Some d) tg ws acc rest.
Proof.
  intros H. destruct (name_ok_munge d H) as [Em _]. rewrite Em.
  apply name_ok_inv in H as (c & r & -> & Ht & Hch & Hl).
  cbn [forallb] in Hch. apply andb_true_iff in Hch as [Hc Hr].
  cbn [flat_map]. rewrite <- app_assoc, rd_esc1; [|assumption|congruence|].
  - unfold push. rewrite rd_chars_some; [reflexivity|assumption|].
    intros Hne. destruct r; [congruence|exact Hl].
  - intros Hs. destruct r as [|c' r'].
    + cbn [last] in Hl. congruence.
    + cbn [forallb] in Hr. apply andb_true_iff in Hr as [Hc' _].
      cbn [flat_map]. rewrite <- app_assoc. now apply cont_esc1.
Qed.

Lemma rd_spaces after tg ws acc n rest :
  rd after None tg ws acc (repeat c_sp n ++ rest) = rd after None tg ws acc rest.
Proof. induction n as [|n IH]; [reflexivity|]. cbn [repeat app rd]. exact IH. Qed.

Lemma rd_sep after cur tg ws acc w rest :
  rd after cur tg ws acc (dep_sep w ++ rest) = rd after None tg (flush cur ws) acc rest.
Proof.
  destruct w as [|k]; [reflexivity|].
  unfold dep_sep. rewrite <- app_assoc. cbn [app rd].
  change (c_sp =? c_nl) with false. change (is_blank c_sp) with true. cbn iota.
  change (c_bs =? c_nl) with false. change (is_blank c_bs) with false. change (c_bs =? c_bs) with true.
  change (c_nl =? c_nl) with true. cbn iota. cbn [flush].
  apply (rd_spaces after tg (flush cur ws) acc (Datatypes.S k) rest).
Qed.

(* the prerequisites of the compiler's line *)
Lemma rd_deps cur tg ws acc wdeps rest : deps_ok wdeps ->
  rd true cur tg ws acc (gcc_deps wdeps ++ c_nl :: rest)
  = rd false None [] [] (acc ++ [(tg, flush cur ws ++ map snd wdeps)]) rest.
Proof.
  revert cur ws; induction wdeps as [|[w d] l IH]; intros cur ws Hok.
  - cbn [gcc_deps map concat app rd]. change (c_nl =? c_nl) with true. cbn iota.
    unfold end_line. now rewrite app_nil_r.
  - inversion Hok as [|x y Hd Hl]; subst. cbn [snd] in Hd.
    unfold gcc_deps. cbn [map concat fst snd]. fold (gcc_deps l). rewrite <- !app_assoc.
    rewrite rd_sep, rd_name by assumption. rewrite (IH (Some d) (flush cur ws) Hl).
    cbn [flush]. now rewrite <- app_assoc.
Qed.

(* the lines added by the depfixer *)
Lemma rd_fixed acc wdeps rest : deps_ok wdeps ->
  rd false None [] [] acc (fixed_lines wdeps ++ rest)
  = rd false None [] [] (acc ++ map (fun wd => ([snd wd], [])) wdeps) rest.
Proof.
  revert acc; induction wdeps as [|[w d] l IH]; intros acc Hok; [now rewrite app_nil_r|].
  inversion Hok as [|x y Hd Hl]; subst. cbn [snd] in Hd.
  unfold fixed_lines. cbn [map concat snd]. fold (fixed_lines l). rewrite <- !app_assoc.
  rewrite rd_name by assumption. unfold colon_nl. cbn [app rd].
  change (c_colon =? c_nl) with false. change (is_blank c_colon) with false. change (c_colon =? c_bs) with false.
  change (c_colon =? c_dollar) with false. change (c_colon =? c_colon) with true. cbn iota. cbn [flush app].
  change (c_nl =? c_nl) with true. cbn iota. unfold end_line. cbn [flush].
  rewrite (IH _ Hl). now rewrite <- app_assoc.
Qed.

Lemma rd_rule acc tgt wdeps rest : name_ok tgt = true -> deps_ok wdeps ->
  rd false None [] [] acc (gcc_depfile tgt wdeps ++ rest)
  = rd false None [] [] (acc ++ [([tgt], map snd wdeps)]) rest.
Proof.
  intros Ht Hok. unfold gcc_depfile. rewrite <- !app_assoc, rd_name by assumption.
  cbn [app rd]. change (c_colon =? c_nl) with false. change (is_blank c_colon) with false.
  change (c_colon =? c_bs) with false. change (c_colon =? c_dollar) with false.
  change (c_colon =? c_colon) with true. cbn iota. cbn [flush app].
  now rewrite rd_deps.
Qed.

(* the depfile after  depfixer < f >> f  : the compiler's rule followed by one empty rule per dependency *)
Theorem read_fixed_depfile tgt wdeps : name_ok tgt = true -> deps_ok wdeps ->
  mk_read (gcc_depfile tgt wdeps ++ fst (emit_deps (gcc_depfile tgt wdeps)))
  = Some (([tgt], map snd wdeps) :: map (fun wd => ([snd wd], [])) wdeps).
Proof.
  intros Ht Hok. rewrite emit_deps_gcc by assumption. cbn [fst]. unfold mk_read.
  rewrite rd_rule by assumption. rewrite <- (app_nil_r (fixed_lines wdeps)), rd_fixed by assumption.
  reflexivity.
Qed.

(* ------------------------------------------------------------------ the error branches *)
(* the only exceptions: a newline before any colon of the line, a second separator colon, end of input
   inside a rule *)
Lemma emit_err_kinds st ts e : snd (emit st ts) = Some e ->
  e = EEof \/ e = EUnexpected TNewline \/ e = EUnexpected TColon.
Proof.
  revert st; induction ts as [|t r IH]; intros st.
  - destruct st; cbn; intros H; inversion H; auto.
  - destruct st, t; cbn [emit pre snd]; intros H; try (now apply IH in H); inversion H; auto.
Qed.

(* ------------------------------------------------------------------ exact characterisation of the error branches *)
Lemma ncolon_snoc l t : ncolon (l ++ [t]) = (ncolon l + if is_colon t then 1 else 0)%nat.
Proof. unfold ncolon. rewrite filter_app, app_length. cbn. destruct (is_colon t); reflexivity. Qed.

Lemma many_colons r : forall cur, (2 <= ncolon cur)%nat ->
  first_err (fst (split_lines r cur)) (snd (split_lines r cur)) = Some (EUnexpected TColon).
Proof.
  induction r as [|t r IH]; intros cur H.
  - cbn. unfold tail_err. destruct (ncolon cur) as [|[|n]]; try lia. reflexivity.
  - destruct t; cbn [split_lines]; try (apply IH; rewrite ncolon_snoc; cbn; lia).
    cbn [fst snd first_err]. unfold line_err. destruct (ncolon cur) as [|[|n]]; try lia. reflexivity.
Qed.

(* what the state of emit_deps remembers about the current line *)
Definition Rel (st : dstate) (cur : list tok) : Prop :=
  match st with
  | DTarget => ncolon cur = O /\ last cur (TChar 0) <> TSpace
  | DBetweenTargets => ncolon cur = O /\ last cur (TChar 0) = TSpace
  | _ => ncolon cur = 1%nat
  end.

Lemma emit_spec ts : forall st cur, Rel st cur ->
  snd (emit st ts) = first_err (fst (split_lines ts cur)) (snd (split_lines ts cur)).
Proof.
  induction ts as [|t r IH]; intros st cur HR.
  - cbn [emit snd split_lines fst first_err]. unfold tail_err.
    destruct st; cbn [Rel] in HR.
    + destruct HR as [H1 H2]. rewrite H1. destruct (last cur (TChar 0)); try reflexivity. congruence.
    + destruct HR as [H1 H2]. rewrite H1, H2. reflexivity.
    + rewrite HR. reflexivity.
    + rewrite HR. reflexivity.
  - destruct t as [c| | |].
    + (* a word character *)
      cbn [split_lines]. destruct st; cbn [emit pre snd]; apply IH; cbn [Rel] in *;
        rewrite ?ncolon_snoc, ?last_last; cbn [is_colon]; try lia.
      * destruct HR as [H1 _]. split; [lia|discriminate].
      * destruct HR as [H1 _]. split; [lia|discriminate].
    + (* a separator colon *)
      cbn [split_lines]. destruct st; cbn [emit pre snd].
      * apply IH. cbn [Rel] in *. rewrite ncolon_snoc. cbn [is_colon]. lia.
      * apply IH. cbn [Rel] in *. rewrite ncolon_snoc. cbn [is_colon]. lia.
      * symmetry. apply many_colons. cbn [Rel] in HR. rewrite ncolon_snoc. cbn [is_colon]. lia.
      * symmetry. apply many_colons. cbn [Rel] in HR. rewrite ncolon_snoc. cbn [is_colon]. lia.
    + (* a blank *)
      cbn [split_lines]. destruct st; cbn [emit pre snd]; apply IH; cbn [Rel] in *;
        rewrite ?ncolon_snoc, ?last_last; cbn [is_colon]; try lia.
      * destruct HR as [H1 _]. split; [lia|reflexivity].
      * destruct HR as [H1 _]. split; [lia|reflexivity].
    + (* end of line *)
      cbn [split_lines fst snd first_err]. unfold line_err. destruct st; cbn [emit pre snd]; cbn [Rel] in HR.
      * destruct HR as [H1 _]. now rewrite H1.
      * destruct HR as [H1 _]. now rewrite H1.
      * rewrite HR. apply IH. cbn. split; [reflexivity|discriminate].
      * rewrite HR. apply IH. cbn. split; [reflexivity|discriminate].
Qed.

(* emit_deps raises exactly the error the line-by-line reading predicts (None = no exception) *)
Theorem emit_deps_err_spec s : snd (emit_deps s) = depfile_err s.
Proof. unfold emit_deps, depfile_err. apply emit_spec. cbn. split; [reflexivity|discriminate]. Qed.
