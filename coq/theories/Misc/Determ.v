(* W model for property C13 (determinism): the places of bfg9000 where an iteration order, the invocation
   directory or the spelling of a directory could reach an output.

   - iterutils.uniques, InstallOutputs.add (explicit list), dict insertion (BuildInputs._sources, InstallOutputs.host)
   - builtins/find.py write_depfile over the watched-directory *set* (list + arbitrary order)
   - the bookkeeping of Makefile / NinjaFile: _var_table, _targets / _build_outputs are sets used for membership only;
     a Python set is a list whose insertion position is chosen by an arbitrary oracle
   - platforms/basepath.py abspath (posixpath.join / normpath on component lists, ntpath.splitdrive for a leading
     double slash), driver.py directory_pair *)
From BFG Require Import Base.Chars Make.MakeWrite.
Local Open Scope N_scope.

(* ------------------------------------------------------------------ order preserving de-duplication *)
Definition mem (x : str) (l : list str) : bool := existsb (str_eqb x) l.

(* generate_uniques: [seen] is a set, used through  in  and  add  only *)
Fixpoint uniques_go (seen : list str) (l : list str) : list str :=
  match l with
  | [] => []
  | x :: r => if mem x seen then uniques_go seen r else x :: uniques_go (x :: seen) r
  end.
Definition uniques (l : list str) : list str := uniques_go [] l.

(* InstallOutputs.add:  if item not in self.explicit: self.explicit.append(item) *)
Definition add_explicit (l : list str) (x : str) : list str := if mem x l then l else l ++ [x].
Definition explicit_of (items : list str) : list str := fold_left add_explicit items [].

(* dict: d[k] = v keeps the position of an existing key (BuildInputs._sources); setdefault keeps the first value too
   (InstallOutputs.host:  if src in self.host: check  else: self.host[src] = h) *)
Fixpoint dict_set (d : list (str * str)) (k v : str) : list (str * str) :=
  match d with
  | [] => [(k, v)]
  | (k', v') :: r => if str_eqb k k' then (k', v) :: r else (k', v') :: dict_set r k v
  end.
Fixpoint dict_setdefault (d : list (str * str)) (k v : str) : list (str * str) :=
  match d with
  | [] => [(k, v)]
  | (k', v') :: r => if str_eqb k k' then (k', v') :: r else (k', v') :: dict_setdefault r k v
  end.
Definition dict_of (kvs : list (str * str)) : list (str * str) :=
  fold_left (fun d kv => dict_set d (fst kv) (snd kv)) kvs [].
Definition dict_first_of (kvs : list (str * str)) : list (str * str) :=
  fold_left (fun d kv => dict_setdefault d (fst kv) (snd kv)) kvs [].

(* ------------------------------------------------------------------ a Python set with an arbitrary iteration order *)
(* the oracle sees the current content and the new element and picks the position: any hash function, any seed *)
Definition oracle := list str -> str -> nat.
Fixpoint insert_at (n : nat) (x : str) (l : list str) : list str :=
  match n, l with
  | O, _ => x :: l
  | S _, [] => [x]
  | S k, y :: r => y :: insert_at k x r
  end.
Definition set_add (rho : oracle) (s : list str) (x : str) : list str :=
  if mem x s then s else insert_at (rho s x) x s.
Definition set_update (rho : oracle) (s : list str) (xs : list str) : list str := fold_left (set_add rho) xs s.

(* ------------------------------------------------------------------ write_depfile *)
Fixpoint map_opt {T U} (f : T -> option U) (l : list T) : option (list U) :=
  match l with
  | [] => Some []
  | x :: r => match f x, map_opt f r with Some y, Some ys => Some (y :: ys) | _, _ => None end
  end.

(* (escaped target, escaped dependency words, escaped targets of the empty rules); None = ValueError (newline) *)
Definition depfile_doc (us : char -> bool) (target : str) (dirs : list str) (makeify : bool)
  : option (str * list str * list str) :=
  match escape_str us target SynTarget, map_opt (fun d => escape_str us d SynDep) dirs,
        (if makeify then map_opt (fun d => escape_str us d SynTarget) dirs else Some []) with
  | Some t, Some ds, Some rs => Some (t, ds, rs)
  | _, _, _ => None
  end.
Definition depfile_render (doc : str * list str * list str) : str :=
  let '(t, ds, rs) := doc in
  t ++ [c_colon] ++ concat (map (fun d => c_sp :: d) ds) ++ [c_nl] ++ concat (map (fun r => r ++ [c_colon; c_nl]) rs).
(* the file written when the watched directories were collected by find_dirs.update(seen_dirs) calls into a set
   with iteration behaviour [rho] *)
Definition depfile_text (us : char -> bool) (target : str) (dirs : list str) (makeify : bool) : option str :=
  option_map depfile_render (depfile_doc us target dirs makeify).
Definition find_dirs_of (rho : oracle) (batches : list (list str)) : list str :=
  fold_left (set_update rho) batches [].

(* ------------------------------------------------------------------ Makefile / NinjaFile bookkeeping *)
Record bfile := { var_table : list str;              (* set *)
                  gvars : list (str * str);          (* emitted, in order *)
                  targets : list str;                (* set: _targets / _build_outputs *)
                  rules : list (list str * str) }.   (* emitted, in order *)
Definition bempty : bfile := {| var_table := []; gvars := []; targets := []; rules := [] |}.

Inductive op :=
| OVariable (name value : str) (exist_ok : bool)           (* Makefile.variable / NinjaFile.variable *)
| ORule (tgts : list str) (body : str)                     (* Makefile.rule / NinjaFile.build *)
| ORuleUnless (probe : str) (tgts : list str) (body : str) (* if not has_rule(probe): rule(...) *)
| OVarUnless (probe name value : str).                     (* if not has_variable(probe): variable(...) *)

(* for i in targets: if has_rule(i): raise ValueError; _targets.add(i) *)
Fixpoint add_targets (rho : oracle) (s : list str) (ts : list str) : option (list str) :=
  match ts with
  | [] => Some s
  | t :: r => if mem t s then None else add_targets rho (set_add rho s t) r
  end.

Definition do_variable (rho : oracle) (b : bfile) (name value : str) (exist_ok : bool) : option bfile :=
  let ex := mem name (var_table b) in
  if ex && negb exist_ok then None
  else Some {| var_table := set_add rho (var_table b) name;
               gvars := if ex then gvars b else gvars b ++ [(name, value)];
               targets := targets b; rules := rules b |}.
Definition do_rule (rho : oracle) (b : bfile) (tgts : list str) (body : str) : option bfile :=
  match tgts with
  | [] => None                                   (* must have at least one target *)
  | _ => match add_targets rho (targets b) tgts with
         | None => None
         | Some s => Some {| var_table := var_table b; gvars := gvars b; targets := s;
                             rules := rules b ++ [(tgts, body)] |}
         end
  end.
Definition step_op (rho : oracle) (b : bfile) (o : op) : option bfile :=
  match o with
  | OVariable n v e => do_variable rho b n v e
  | ORule ts body => do_rule rho b ts body
  | ORuleUnless p ts body => if mem p (targets b) then Some b else do_rule rho b ts body
  | OVarUnless p n v => if mem p (var_table b) then Some b else do_variable rho b n v false
  end.
Fixpoint run_ops (rho : oracle) (b : bfile) (ops : list op) : option bfile :=
  match ops with
  | [] => Some b
  | o :: r => match step_op rho b o with None => None | Some b' => run_ops rho b' r end
  end.
(* what Makefile.write / NinjaFile.write iterate: the ordered lists, never the sets *)
Definition primary (b : bfile) : list (str * str) * list (list str * str) := (gvars b, rules b).
Definition emit (rho : oracle) (ops : list op) : option (list (str * str) * list (list str * str)) :=
  option_map primary (run_ops rho bempty ops).

(* ------------------------------------------------------------------ abspath *)
Definition s_dot : str := [c_dot].
Definition s_dotdot : str := [c_dot; c_dot].

(* str.split('/') *)
Fixpoint split_go (cur : str) (s : str) : list str :=
  match s with
  | [] => [rev cur]
  | c :: r => if N.eqb c c_slash then rev cur :: split_go [] r else split_go (c :: cur) r
  end.
Definition split_slash (s : str) : list str := split_go [] s.
Fixpoint join_slash (l : list str) : str :=
  match l with
  | [] => []
  | [x] => x
  | x :: r => x ++ c_slash :: join_slash r
  end.

(* one component of posixpath.normpath; the stack is reversed; [abs] = the path has initial slashes *)
Definition step (abs : bool) (stack : list str) (c : str) : list str :=
  if str_eqb c [] || str_eqb c s_dot then stack
  else if str_eqb c s_dotdot then
    match stack with
    | [] => if abs then [] else [s_dotdot]
    | top :: r => if str_eqb top s_dotdot then s_dotdot :: stack else r
    end
  else c :: stack.
Definition norm_c (abs : bool) (cs : list str) : list str := rev (fold_left (step abs) cs []).

(* BasePath.abspath on components: the spelling is normalised alone (__normalize), the cwd too, then
   __join = normpath(posixpath.join(cwd, path)): an absolute second argument discards the first *)
Definition abspath_c (cwd : list str) (abs : bool) (s : list str) : list str :=
  let p := norm_c abs s in
  let cw := norm_c true cwd in
  if abs then norm_c true p else norm_c true (cw ++ p).

(* what directory a spelling denotes when resolved from cwd, one step at a time in the tree of names
   (no symbolic links): a position is the list of names from the root, reversed *)
Definition walk1 (pos : list str) (c : str) : list str :=
  if str_eqb c [] || str_eqb c s_dot then pos
  else if str_eqb c s_dotdot then tl pos
  else c :: pos.
Definition no_dotdot_names (pos : list str) : Prop := ~ In s_dotdot pos.
Definition denote (cwd : list str) (abs : bool) (s : list str) : list str :=
  rev (fold_left walk1 s (if abs then [] else fold_left walk1 cwd [])).

(* string level *)
Definition is_abs (s : str) : bool := match s with c :: _ => N.eqb c c_slash | [] => false end.
Definition starts2 (s : str) : bool :=
  match s with a :: b :: _ => N.eqb a c_slash && N.eqb b c_slash | _ => false end.
(* number of initial slashes posixpath.normpath keeps: exactly two are kept, three or more become one *)
Definition initial_slashes (s : str) : nat :=
  match s with
  | a :: b :: c :: _ => if N.eqb a c_slash then if N.eqb b c_slash then if N.eqb c c_slash then 1 else 2 else 1 else 0
  | a :: b :: [] => if N.eqb a c_slash then if N.eqb b c_slash then 2 else 1 else 0
  | a :: [] => if N.eqb a c_slash then 1 else 0
  | [] => 0
  end%nat.
Definition render_abs (slashes : nat) (cs : list str) : str := repeat c_slash slashes ++ join_slash cs.

(* index of the first slash at or after position [from] *)
Fixpoint find_slash (from : nat) (pos : nat) (s : str) : option nat :=
  match s with
  | [] => None
  | c :: r => if Nat.leb from pos && N.eqb c c_slash then Some pos else find_slash from (S pos) r
  end.
(* ntpath.splitdrive (Python 3.12 splitroot) on a string without backslash, colon and question mark:
   only the UNC branch  //server/share  can apply *)
Definition splitdrive (s : str) : str * str :=
  if starts2 s then
    match find_slash 2 0 s with
    | None => (s, [])
    | Some i => match find_slash (S i) 0 s with
                | None => (s, [])
                | Some j => (firstn j s, skipn j s)
                end
    end
  else ([], s).
(* strings the model covers: no backslash (replaced by slash in __normpath), no colon (drive letters),
   no question mark (the //?/UNC/ prefix), no leading tilde (expanduser), no newline *)
Definition in_fragment (s : str) : bool :=
  negb (mem_char c_bs s) && negb (mem_char c_colon s) && negb (mem_char c_qm s) &&
  negb (match s with c :: _ => N.eqb c c_tilde | [] => false end).

Inductive res (T : Type) := Ok (x : T) | ErrValue | Outside.
Arguments Ok {T} _. Arguments ErrValue {T}. Arguments Outside {T}.

(* Path.abspath(s) with os.getcwd() = cwd; ErrValue = relative paths with drives not supported *)
Definition abspath_str (cwd s : str) : res str :=
  if negb (in_fragment s && in_fragment cwd && is_abs cwd) then Outside else
  let '(drive, path) := splitdrive s in
  if negb (match drive with [] => true | _ => false end) && negb (is_abs path) then ErrValue else
  let '(cwddrive, cwdpath) := splitdrive cwd in
  if negb (match cwddrive with [] => true | _ => false end) && negb (is_abs cwdpath) then ErrValue else
  let abs := is_abs path in
  let cs := abspath_c (split_slash cwdpath) abs (split_slash path) in
  (* the slashes kept: of the normalised spelling when it is absolute, else of the normalised cwd *)
  let sl := if abs then initial_slashes path else initial_slashes cwdpath in
  Ok (drive ++ render_abs sl cs).

(* ------------------------------------------------------------------ directory_pair *)
(* the positional DIRECTORY of  bfg9000 configure : [has_bfg] says whether a directory contains build.bfg *)
Definition directory_pair {D} (has_bfg : D -> bool) (cwd value : D) : D * D :=
  if has_bfg value then (value, cwd) else (cwd, value).
(* with the argparse type applied first: both are abspath results *)
Definition directory_pair_c (has_bfg : list str -> bool) (cwd : list str) (abs : bool) (s : list str)
  : list str * list str :=
  directory_pair has_bfg (abspath_c cwd false [s_dot]) (abspath_c cwd abs s).
