(* Proofs for Misc/Determ.v (property C13). *)
From Coq Require Import Permutation.
From BFG Require Import Base.Chars Make.MakeWrite Misc.Determ.
Local Open Scope N_scope.

(* ------------------------------------------------------------------ membership *)
Lemma mem_In x l : mem x l = true <-> In x l.
Proof.
  unfold mem. rewrite existsb_exists. split.
  - intros [y [Hy He]]. apply str_eqb_eq in He. now subst.
  - intros H. exists x. split; [assumption|apply str_eqb_refl].
Qed.

Lemma mem_false_In x l : mem x l = false <-> ~ In x l.
Proof. rewrite <- mem_In. destruct (mem x l); split; congruence. Qed.

Lemma mem_cons x y l : mem x (y :: l) = str_eqb x y || mem x l.
Proof. reflexivity. Qed.

Lemma mem_app x a b : mem x (a ++ b) = mem x a || mem x b.
Proof. unfold mem. apply existsb_app. Qed.

Lemma str_eqb_sym a b : str_eqb a b = str_eqb b a.
Proof.
  destruct (str_eqb a b) eqn:E.
  - apply str_eqb_eq in E. subst. symmetry. apply str_eqb_refl.
  - destruct (str_eqb b a) eqn:F; [|reflexivity]. apply str_eqb_eq in F. subst. now rewrite str_eqb_refl in E.
Qed.

(* ------------------------------------------------------------------ uniques *)
Lemma uniques_go_In seen l x : In x (uniques_go seen l) <-> In x l /\ ~ In x seen.
Proof.
  revert seen. induction l as [|y r IH]; intros seen; cbn [uniques_go].
  - cbn. tauto.
  - destruct (mem y seen) eqn:E.
    + apply mem_In in E. rewrite IH. cbn. split.
      * intros [H1 H2]. tauto.
      * intros [[->|H1] H2]; [contradiction|tauto].
    + apply mem_false_In in E. cbn [In]. rewrite IH. cbn [In]. split.
      * intros [->|[H1 H2]]; [tauto|]. split; [tauto|]. intros H. apply H2. now right.
      * intros [[->|H1] H2]; [now left|].
        destruct (str_eq_dec y x) as [->|N]; [now left|]. right. split; [assumption|].
        intros [H|H]; [contradiction|contradiction].
Qed.

Lemma uniques_go_NoDup seen l : NoDup (uniques_go seen l).
Proof.
  revert seen. induction l as [|y r IH]; intros seen; cbn [uniques_go]; [constructor|].
  destruct (mem y seen); [apply IH|]. constructor; [|apply IH].
  rewrite uniques_go_In. intros [_ H]. apply H. now left.
Qed.

Lemma uniques_go_snoc seen l x :
  uniques_go seen (l ++ [x]) =
  if mem x seen || mem x l then uniques_go seen l else uniques_go seen l ++ [x].
Proof.
  revert seen. induction l as [|y r IH]; intros seen.
  - cbn. destruct (mem x seen); reflexivity.
  - cbn [app uniques_go]. destruct (mem y seen) eqn:E.
    + rewrite IH. rewrite mem_cons. destruct (str_eqb x y) eqn:F.
      * apply str_eqb_eq in F. subst. rewrite E. reflexivity.
      * reflexivity.
    + rewrite IH. rewrite !mem_cons.
      replace (str_eqb x y || mem x seen || mem x r) with (mem x seen || (str_eqb x y || mem x r))
        by (destruct (str_eqb x y), (mem x seen), (mem x r); reflexivity).
      destruct (mem x seen || (str_eqb x y || mem x r)); reflexivity.
Qed.

(* the seen set is used for membership only *)
Lemma uniques_go_ext s1 s2 l : (forall x, mem x s1 = mem x s2) -> uniques_go s1 l = uniques_go s2 l.
Proof.
  revert s1 s2. induction l as [|y r IH]; intros s1 s2 H; cbn [uniques_go]; [reflexivity|].
  rewrite <- (H y). destruct (mem y s1); [now apply IH|]. f_equal. apply IH.
  intros x. rewrite !mem_cons. now rewrite H.
Qed.

Theorem uniques_spec l :
  NoDup (uniques l) /\ (forall x, In x (uniques l) <-> In x l) /\
  (forall x, uniques (l ++ [x]) = if mem x l then uniques l else uniques l ++ [x]).
Proof.
  split; [apply uniques_go_NoDup|]. split.
  - intros x. unfold uniques. rewrite uniques_go_In. cbn. tauto.
  - intros x. unfold uniques. rewrite uniques_go_snoc. reflexivity.
Qed.

Lemma explicit_go l : forall acc seen, (forall x, mem x acc = mem x seen) ->
  fold_left add_explicit l acc = acc ++ uniques_go seen l.
Proof.
  induction l as [|y r IH]; intros acc seen H; cbn [fold_left uniques_go].
  - now rewrite app_nil_r.
  - unfold add_explicit at 2. rewrite <- (H y). destruct (mem y acc) eqn:E.
    + now apply IH.
    + rewrite (IH (acc ++ [y]) (y :: seen)).
      * now rewrite <- app_assoc.
      * intros x. rewrite mem_app, !mem_cons, H. cbn.
        destruct (str_eqb x y), (mem x seen); reflexivity.
Qed.

Theorem explicit_is_uniques l : explicit_of l = uniques l.
Proof. unfold explicit_of, uniques. now rewrite (explicit_go l [] []). Qed.

Lemma dict_set_keys d k v : map fst (dict_set d k v) = add_explicit (map fst d) k.
Proof.
  unfold add_explicit. induction d as [|[k' v'] r IH]; [reflexivity|].
  cbn [dict_set map fst]. rewrite mem_cons. destruct (str_eqb k k'); [reflexivity|].
  cbn [map fst orb]. rewrite IH. destruct (mem k (map fst r)); reflexivity.
Qed.

Lemma dict_setdefault_keys d k v : map fst (dict_setdefault d k v) = add_explicit (map fst d) k.
Proof.
  unfold add_explicit. induction d as [|[k' v'] r IH]; [reflexivity|].
  cbn [dict_setdefault map fst]. rewrite mem_cons. destruct (str_eqb k k'); [reflexivity|].
  cbn [map fst orb]. rewrite IH. destruct (mem k (map fst r)); reflexivity.
Qed.

Lemma dict_fold_keys kvs : forall d,
  map fst (fold_left (fun d kv => dict_set d (fst kv) (snd kv)) kvs d) = fold_left add_explicit (map fst kvs) (map fst d).
Proof.
  induction kvs as [|kv r IH]; intros d; [reflexivity|]. cbn [fold_left map]. rewrite IH. now rewrite dict_set_keys.
Qed.

Lemma dict_first_fold_keys kvs : forall d,
  map fst (fold_left (fun d kv => dict_setdefault d (fst kv) (snd kv)) kvs d) =
  fold_left add_explicit (map fst kvs) (map fst d).
Proof.
  induction kvs as [|kv r IH]; intros d; [reflexivity|]. cbn [fold_left map]. rewrite IH. now rewrite dict_setdefault_keys.
Qed.

(* the iteration order of an insertion-ordered dict is the first-occurrence order of the inserted keys *)
Theorem dict_keys_order kvs :
  map fst (dict_of kvs) = uniques (map fst kvs) /\ map fst (dict_first_of kvs) = uniques (map fst kvs).
Proof.
  unfold dict_of, dict_first_of. rewrite dict_fold_keys, dict_first_fold_keys. cbn [map].
  split; apply explicit_is_uniques.
Qed.

(* ------------------------------------------------------------------ sets as lists with an insertion oracle *)
Lemma insert_at_mem n x l y : mem y (insert_at n x l) = str_eqb y x || mem y l.
Proof.
  revert n. induction l as [|z r IH]; intros [|n]; cbn [insert_at]; try reflexivity.
  rewrite !mem_cons, IH. destruct (str_eqb y z), (str_eqb y x); reflexivity.
Qed.

Lemma set_add_mem rho s x y : mem y (set_add rho s x) = str_eqb y x || mem y s.
Proof.
  unfold set_add. destruct (mem x s) eqn:E; [|apply insert_at_mem].
  destruct (str_eqb y x) eqn:F; [|reflexivity]. apply str_eqb_eq in F. subst. now rewrite E.
Qed.

Lemma insert_at_In n x l y : In y (insert_at n x l) <-> y = x \/ In y l.
Proof. rewrite <- !mem_In, insert_at_mem, orb_true_iff, str_eqb_eq. tauto. Qed.

Lemma insert_at_NoDup n x l : NoDup l -> ~ In x l -> NoDup (insert_at n x l).
Proof.
  revert n. induction l as [|z r IH]; intros [|n] Hn Hx; cbn [insert_at].
  - constructor; [assumption|constructor].
  - constructor; [intros []|constructor].
  - now constructor.
  - inversion Hn as [|? ? Hz Hr]; subst. constructor.
    + rewrite insert_at_In. intros [->|H]; [apply Hx; now left|contradiction].
    + apply IH; [assumption|]. intros H. apply Hx. now right.
Qed.

Lemma set_add_NoDup rho s x : NoDup s -> NoDup (set_add rho s x).
Proof.
  intros H. unfold set_add. destruct (mem x s) eqn:E; [assumption|].
  apply insert_at_NoDup; [assumption|now apply mem_false_In].
Qed.

Lemma set_update_inv rho xs : forall s, NoDup s ->
  NoDup (set_update rho s xs) /\ forall y, mem y (set_update rho s xs) = mem y xs || mem y s.
Proof.
  unfold set_update. induction xs as [|x r IH]; intros s Hs; cbn [fold_left].
  - split; [assumption|reflexivity].
  - destruct (IH (set_add rho s x) (set_add_NoDup rho s x Hs)) as [H1 H2]. split; [assumption|].
    intros y. rewrite H2, set_add_mem, mem_cons. destruct (str_eqb y x), (mem y r), (mem y s); reflexivity.
Qed.

Lemma find_dirs_inv rho batches : forall s, NoDup s ->
  NoDup (fold_left (set_update rho) batches s) /\
  forall y, mem y (fold_left (set_update rho) batches s) = mem y (concat batches) || mem y s.
Proof.
  induction batches as [|b r IH]; intros s Hs; cbn [fold_left concat].
  - split; [assumption|reflexivity].
  - destruct (set_update_inv rho b s Hs) as [H1 H2]. destruct (IH _ H1) as [H3 H4]. split; [assumption|].
    intros y. rewrite H4, H2, mem_app. destruct (mem y b), (mem y (concat r)), (mem y s); reflexivity.
Qed.

(* whatever the iteration behaviour of the set: the same elements, each once *)
Theorem find_dirs_perm rho1 rho2 batches : Permutation (find_dirs_of rho1 batches) (find_dirs_of rho2 batches).
Proof.
  unfold find_dirs_of.
  destruct (find_dirs_inv rho1 batches [] (NoDup_nil _)) as [N1 M1].
  destruct (find_dirs_inv rho2 batches [] (NoDup_nil _)) as [N2 M2].
  apply NoDup_Permutation; try assumption.
  intros x. rewrite <- !mem_In, M1, M2. tauto.
Qed.

(* ------------------------------------------------------------------ the depfile *)
Definition opt_perm {T} (a b : option (list T)) : Prop :=
  match a, b with Some x, Some y => Permutation x y | None, None => True | _, _ => False end.

Lemma map_opt_perm {T U} (f : T -> option U) l l' : Permutation l l' -> opt_perm (map_opt f l) (map_opt f l').
Proof.
  induction 1 as [|x l l' HP IH|x y l|l l' l'' H1 IH1 H2 IH2]; unfold opt_perm in *.
  - cbn. constructor.
  - cbn [map_opt]. destruct (f x); destruct (map_opt f l), (map_opt f l'); try tauto. now constructor.
  - cbn [map_opt]. destruct (f x), (f y), (map_opt f l); try tauto. apply perm_swap.
  - destruct (map_opt f l), (map_opt f l'), (map_opt f l''); try tauto. eapply perm_trans; eassumption.
Qed.

Definition doc_equiv (a b : option (str * list str * list str)) : Prop :=
  match a, b with
  | Some (t, ds, rs), Some (t', ds', rs') => t = t' /\ Permutation ds ds' /\ Permutation rs rs'
  | None, None => True
  | _, _ => False
  end.

Lemma depfile_doc_perm us target dirs dirs' mk : Permutation dirs dirs' ->
  doc_equiv (depfile_doc us target dirs mk) (depfile_doc us target dirs' mk).
Proof.
  intros HP. unfold depfile_doc, doc_equiv.
  pose proof (map_opt_perm (fun d => escape_str us d SynDep) _ _ HP) as H1.
  pose proof (map_opt_perm (fun d => escape_str us d SynTarget) _ _ HP) as H2.
  unfold opt_perm in *.
  destruct (escape_str us target SynTarget) as [t|];
    destruct (map_opt (fun d => escape_str us d SynDep) dirs), (map_opt (fun d => escape_str us d SynDep) dirs');
    try tauto; destruct mk;
    try (destruct (map_opt (fun d => escape_str us d SynTarget) dirs),
                  (map_opt (fun d => escape_str us d SynTarget) dirs'); try tauto);
    repeat split; try assumption; constructor.
Qed.

Theorem depfile_set_equal us target mk rho1 rho2 batches :
  doc_equiv (depfile_doc us target (find_dirs_of rho1 batches) mk) (depfile_doc us target (find_dirs_of rho2 batches) mk).
Proof. apply depfile_doc_perm, find_dirs_perm. Qed.

(* ------------------------------------------------------------------ the build file bookkeeping *)
Definition same_mem (a b : list str) : Prop := forall x, mem x a = mem x b.
Definition brel (a b : bfile) : Prop :=
  same_mem (var_table a) (var_table b) /\ gvars a = gvars b /\ same_mem (targets a) (targets b) /\ rules a = rules b.
Definition orel (a b : option bfile) : Prop :=
  match a, b with Some x, Some y => brel x y | None, None => True | _, _ => False end.

Lemma set_add_same r1 r2 a b x : same_mem a b -> same_mem (set_add r1 a x) (set_add r2 b x).
Proof. intros H y. now rewrite !set_add_mem, H. Qed.

Lemma add_targets_same r1 r2 ts : forall a b, same_mem a b ->
  match add_targets r1 a ts, add_targets r2 b ts with
  | Some x, Some y => same_mem x y | None, None => True | _, _ => False end.
Proof.
  induction ts as [|t r IH]; intros a b H; cbn [add_targets]; [assumption|].
  rewrite <- (H t). destruct (mem t a); [exact I|]. apply IH. now apply set_add_same.
Qed.

Lemma do_variable_rel r1 r2 a b n v e : brel a b -> orel (do_variable r1 a n v e) (do_variable r2 b n v e).
Proof.
  intros (H1 & H2 & H3 & H4). unfold do_variable. rewrite <- (H1 n).
  destruct (mem n (var_table a) && negb e); [exact I|]. cbn. unfold brel. cbn.
  repeat split; try assumption; [now apply set_add_same|now rewrite H2].
Qed.

Lemma do_rule_rel r1 r2 a b ts body : brel a b -> orel (do_rule r1 a ts body) (do_rule r2 b ts body).
Proof.
  intros (H1 & H2 & H3 & H4). unfold do_rule. destruct ts as [|t ts]; [exact I|].
  pose proof (add_targets_same r1 r2 (t :: ts) _ _ H3) as H.
  destruct (add_targets r1 (targets a) (t :: ts)), (add_targets r2 (targets b) (t :: ts)); try tauto.
  cbn. unfold brel. cbn. repeat split; try assumption. now rewrite H4.
Qed.

Lemma step_op_rel r1 r2 a b o : brel a b -> orel (step_op r1 a o) (step_op r2 b o).
Proof.
  intros H. destruct o as [n v e|ts body|p ts body|p n v]; cbn [step_op].
  - now apply do_variable_rel.
  - now apply do_rule_rel.
  - destruct H as (H1 & H2 & H3 & H4). rewrite <- (H3 p). destruct (mem p (targets a)).
    + cbn. unfold brel. tauto.
    + apply do_rule_rel. unfold brel. tauto.
  - destruct H as (H1 & H2 & H3 & H4). rewrite <- (H1 p). destruct (mem p (var_table a)).
    + cbn. unfold brel. tauto.
    + apply do_variable_rel. unfold brel. tauto.
Qed.

Lemma run_ops_rel r1 r2 ops : forall a b, brel a b -> orel (run_ops r1 a ops) (run_ops r2 b ops).
Proof.
  induction ops as [|o r IH]; intros a b H; cbn [run_ops]; [exact H|].
  pose proof (step_op_rel r1 r2 a b o H) as Hs. unfold orel in Hs.
  destruct (step_op r1 a o), (step_op r2 b o); try tauto. now apply IH.
Qed.

Theorem emit_perm_invariant rho1 rho2 ops : emit rho1 ops = emit rho2 ops.
Proof.
  unfold emit. assert (H : brel bempty bempty) by (unfold brel, same_mem; tauto).
  pose proof (run_ops_rel rho1 rho2 ops _ _ H) as Hr. unfold orel in Hr.
  destruct (run_ops rho1 bempty ops) as [x|], (run_ops rho2 bempty ops) as [y|]; try tauto.
  destruct Hr as (_ & H2 & _ & H4). cbn. unfold primary. now rewrite H2, H4.
Qed.

(* ------------------------------------------------------------------ abspath *)
Definition clean1 (c : str) : Prop := c <> [] /\ c <> s_dot /\ c <> s_dotdot.
Definition clean (l : list str) : Prop := forall c, In c l -> clean1 c.
(* what the relative normalisation may keep: names and leading .. *)
Definition semiclean (l : list str) : Prop := forall c, In c l -> c <> [] /\ c <> s_dot.

Lemma eqb_false_neq a b : str_eqb a b = false <-> a <> b.
Proof. rewrite <- str_eqb_eq. destruct (str_eqb a b); split; congruence. Qed.

Lemma walk1_clean pos c : clean pos -> clean (walk1 pos c).
Proof.
  intros H. unfold walk1. destruct (str_eqb c [] || str_eqb c s_dot) eqn:E; [assumption|].
  apply orb_false_iff in E. destruct E as [E1 E2]. destruct (str_eqb c s_dotdot) eqn:E3.
  - destruct pos as [|p r]; [assumption|]. intros x Hx. apply H. now right.
  - intros x [<-|Hx]; [|now apply H]. repeat split; now apply eqb_false_neq.
Qed.

Lemma fold_walk1_clean cs : forall pos, clean pos -> clean (fold_left walk1 cs pos).
Proof. induction cs as [|c r IH]; intros pos H; cbn [fold_left]; [assumption|]. apply IH. now apply walk1_clean. Qed.

Lemma step_true_walk1 pos c : clean pos -> step true pos c = walk1 pos c.
Proof.
  intros H. unfold step, walk1. destruct (str_eqb c [] || str_eqb c s_dot); [reflexivity|].
  destruct (str_eqb c s_dotdot); [|reflexivity]. destruct pos as [|p r]; [reflexivity|].
  destruct (str_eqb p s_dotdot) eqn:E; [|reflexivity]. apply str_eqb_eq in E. subst.
  destruct (H s_dotdot (or_introl eq_refl)) as (_ & _ & N). congruence.
Qed.

Lemma fold_step_true cs : forall pos, clean pos -> fold_left (step true) cs pos = fold_left walk1 cs pos.
Proof.
  induction cs as [|c r IH]; intros pos H; cbn [fold_left]; [reflexivity|].
  rewrite step_true_walk1 by assumption. apply IH. now apply walk1_clean.
Qed.

Lemma walk1_clean_comp pos c : clean1 c -> walk1 pos c = c :: pos.
Proof.
  intros (H1 & H2 & H3). unfold walk1.
  apply eqb_false_neq in H1, H2, H3. now rewrite H1, H2, H3.
Qed.

Lemma fold_walk1_names l : forall pos, clean l -> fold_left walk1 l pos = rev l ++ pos.
Proof.
  induction l as [|c r IH]; intros pos H; cbn [fold_left rev]; [reflexivity|].
  rewrite walk1_clean_comp by (apply H; now left). rewrite IH by (intros x Hx; apply H; now right).
  now rewrite <- app_assoc.
Qed.

Lemma clean_nil : clean [].
Proof. intros c []. Qed.

Lemma clean_rev l : clean l -> clean (rev l).
Proof. intros H c Hc. apply H. now apply in_rev. Qed.

(* one step of the relative normalisation, seen from any position *)
Lemma step_false_walk T c st : semiclean T ->
  semiclean (step false T c) /\
  fold_left walk1 (rev (step false T c)) st = walk1 (fold_left walk1 (rev T) st) c.
Proof.
  intros HT. unfold step. destruct (str_eqb c [] || str_eqb c s_dot) eqn:E.
  - split; [assumption|]. unfold walk1. now rewrite E.
  - pose proof E as E'. apply orb_false_iff in E'. destruct E' as [E1 E2].
    destruct (str_eqb c s_dotdot) eqn:E3.
    + apply str_eqb_eq in E3. subst c. destruct T as [|top r].
      * split.
        -- intros x [<-|[]]. split; discriminate.
        -- reflexivity.
      * destruct (str_eqb top s_dotdot) eqn:E4.
        -- split.
           ++ intros x [<-|Hx]; [split; discriminate|now apply HT].
           ++ cbn [rev]. rewrite fold_left_app. reflexivity.
        -- split.
           ++ intros x Hx. apply HT. now right.
           ++ cbn [rev]. rewrite fold_left_app. cbn [fold_left].
              destruct (HT top (or_introl eq_refl)) as [N1 N2].
              assert (C : clean1 top) by (repeat split; try assumption; now apply eqb_false_neq).
              rewrite (walk1_clean_comp _ top C). unfold walk1. cbn. reflexivity.
    + split.
      * intros x [<-|Hx]; [split; now apply eqb_false_neq|now apply HT].
      * cbn [rev]. rewrite fold_left_app. reflexivity.
Qed.

Lemma fold_step_false cs : forall T st, semiclean T ->
  fold_left walk1 (rev (fold_left (step false) cs T)) st = fold_left walk1 cs (fold_left walk1 (rev T) st).
Proof.
  induction cs as [|c r IH]; intros T st HT; cbn [fold_left]; [reflexivity|].
  destruct (step_false_walk T c st HT) as [H1 H2]. rewrite IH by assumption. now rewrite H2.
Qed.

(* abspath computes the denoted directory: the three lexical normalisations of the implementation
   (spelling alone, cwd alone, joined) agree with walking the tree of names one component at a time *)
Theorem abspath_denote cwd abs s : abspath_c cwd abs s = denote cwd abs s.
Proof.
  unfold abspath_c, denote, norm_c. destruct abs.
  - rewrite (fold_step_true s []) by apply clean_nil.
    pose proof (fold_walk1_clean s [] clean_nil) as HX. set (X := fold_left walk1 s []) in *.
    rewrite fold_step_true by apply clean_nil.
    rewrite fold_walk1_names by (now apply clean_rev). now rewrite rev_involutive, app_nil_r.
  - rewrite (fold_step_true cwd []) by apply clean_nil.
    pose proof (fold_walk1_clean cwd [] clean_nil) as HY. set (Y := fold_left walk1 cwd []) in *.
    rewrite fold_step_true by apply clean_nil. rewrite fold_left_app.
    rewrite (fold_walk1_names (rev Y)) by (now apply clean_rev). rewrite rev_involutive, app_nil_r.
    rewrite fold_step_false by (intros c []). reflexivity.
Qed.

Theorem abspath_context cwd1 abs1 s1 cwd2 abs2 s2 :
  denote cwd1 abs1 s1 = denote cwd2 abs2 s2 -> abspath_c cwd1 abs1 s1 = abspath_c cwd2 abs2 s2.
Proof. rewrite !abspath_denote. auto. Qed.

(* string level: spellings and working directories that do not start with a double slash *)
Lemma splitdrive_plain s : starts2 s = false -> splitdrive s = ([], s).
Proof. unfold splitdrive. now intros ->. Qed.

Lemma initial_slashes_one s : is_abs s = true -> starts2 s = false -> initial_slashes s = 1%nat.
Proof.
  destruct s as [|a [|b [|c r]]]; cbn; try discriminate.
  - now intros ->.
  - intros ->. cbn. now intros ->.
  - intros ->. cbn. now intros ->.
Qed.

Definition plain (s : str) : Prop := in_fragment s = true /\ starts2 s = false.

Lemma abspath_str_plain cwd s : plain cwd -> plain s -> is_abs cwd = true ->
  abspath_str cwd s = Ok (render_abs 1 (denote (split_slash cwd) (is_abs s) (split_slash s))).
Proof.
  intros [F1 D1] [F2 D2] A. unfold abspath_str. rewrite F1, F2, A. cbn [andb negb].
  rewrite (splitdrive_plain s D2), (splitdrive_plain cwd D1). cbn [negb andb].
  rewrite abspath_denote. destruct (is_abs s) eqn:E.
  - now rewrite (initial_slashes_one s E D2).
  - now rewrite (initial_slashes_one cwd A D1).
Qed.

Theorem abspath_str_context cwd1 s1 cwd2 s2 :
  plain cwd1 -> plain s1 -> is_abs cwd1 = true -> plain cwd2 -> plain s2 -> is_abs cwd2 = true ->
  denote (split_slash cwd1) (is_abs s1) (split_slash s1) = denote (split_slash cwd2) (is_abs s2) (split_slash s2) ->
  abspath_str cwd1 s1 = abspath_str cwd2 s2.
Proof.
  intros P1 Q1 A1 P2 Q2 A2 H. rewrite (abspath_str_plain _ _ P1 Q1 A1), (abspath_str_plain _ _ P2 Q2 A2). now rewrite H.
Qed.

(* ------------------------------------------------------------------ directory_pair *)
Theorem directory_pair_sym {D} (has : D -> bool) (a b : D) : has a = true -> has b = false ->
  directory_pair has a b = (a, b) /\ directory_pair has b a = (a, b).
Proof. intros H1 H2. unfold directory_pair. now rewrite H1, H2. Qed.

(* bfg9000 configure BUILD from the source directory = bfg9000 configure SRC from the build directory,
   whatever the spellings, as long as they denote those two directories *)
Theorem directory_pair_context has cwd1 abs1 s1 cwd2 abs2 s2 :
  denote cwd1 false [s_dot] = denote cwd2 abs2 s2 ->
  denote cwd2 false [s_dot] = denote cwd1 abs1 s1 ->
  has (denote cwd1 false [s_dot]) = true -> has (denote cwd2 false [s_dot]) = false ->
  directory_pair_c has cwd1 abs1 s1 = directory_pair_c has cwd2 abs2 s2 /\
  directory_pair_c has cwd1 abs1 s1 = (denote cwd1 false [s_dot], denote cwd2 false [s_dot]).
Proof.
  intros H1 H2 H3 H4. unfold directory_pair_c. rewrite !abspath_denote. rewrite <- H1, <- H2.
  destruct (directory_pair_sym has _ _ H3 H4) as [E1 E2]. now rewrite E1, E2.
Qed.
