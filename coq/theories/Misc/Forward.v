(* C13 - model of options.py ForwardOptions.recurse / update (as written):

     def recurse(cls, libs):
         def do_recurse(result, libs):
             for i in libs:
                 forward_opts = getattr(i, 'forward_opts', None)
                 if forward_opts:
                     result.update(forward_opts)            # every slot: extend
                     do_recurse(result, forward_opts.libs)

   Libraries are numbered; the graph gives for every number the forward_opts of that library (None: the object has no
   forward_opts, e.g. a shared library).  One slot of plain items stands for compile_options / link_options / packages
   (all three are extended in the same way), the slot libs is kept apart because the walk follows it.  The recursion of
   the Python code ends because library objects are created bottom-up (a library only forwards libraries that existed
   before it); the model takes explicit fuel and the proofs show that any fuel above the depth gives the same result. *)
From Coq Require Import List Arith.
From BFG Require Import Base.Chars.
Import ListNotations.

Record fwd := mkFwd { f_items : list str; f_libs : list nat }.
Definition graph := list (option fwd).
Definition res := (list str * list nat)%type.

Definition rnil : res := ([], []).
Definition rapp (a b : res) : res := (fst a ++ fst b, snd a ++ snd b).

Definition fwd_of (g : graph) (i : nat) : option fwd :=
  match nth_error g i with Some (Some f) => Some f | _ => None end.

(* one level of do_recurse with the recursive call abstracted *)
Fixpoint visit (rec : list nat -> res) (g : graph) (l : list nat) : res :=
  match l with
  | [] => rnil
  | i :: r =>
      match fwd_of g i with
      | Some f => rapp (f_items f, f_libs f) (rapp (rec (f_libs f)) (visit rec g r))
      | None => visit rec g r
      end
  end.

Fixpoint recurse (fuel : nat) (g : graph) : list nat -> res :=
  match fuel with
  | O => fun _ => rnil
  | S k => visit (recurse k g) g
  end.

(* bottom-up graphs: library i only forwards libraries with smaller numbers *)
Definition bottom_up_at (i : nat) (o : option fwd) : bool :=
  match o with Some f => forallb (fun j => Nat.ltb j i) (f_libs f) | None => true end.

Fixpoint bottom_up_from (i : nat) (g : graph) : bool :=
  match g with [] => true | o :: r => bottom_up_at i o && bottom_up_from (S i) r end.

Definition bottom_up (g : graph) : bool := bottom_up_from 0 g.
