From Coq Require Import List Arith Lia Permutation Bool.
From BFG Require Import Base.Chars Misc.Forward.
Import ListNotations.

Lemma rapp_nil_l : forall a, rapp rnil a = a.
Proof. intros [a b]. reflexivity. Qed.

Lemma rapp_nil_r : forall a, rapp a rnil = a.
Proof. intros [a b]. unfold rapp, rnil. cbn [fst snd]. now rewrite !app_nil_r. Qed.

Lemma rapp_assoc : forall a b c, rapp a (rapp b c) = rapp (rapp a b) c.
Proof. intros [a1 a2] [b1 b2] [c1 c2]. unfold rapp. cbn [fst snd]. now rewrite !app_assoc. Qed.

(* the walk is a homomorphism: what a list of libraries forwards is what its parts forward, in the order of the list *)
Lemma visit_app : forall rec g l1 l2, visit rec g (l1 ++ l2) = rapp (visit rec g l1) (visit rec g l2).
Proof.
  intros rec g l1 l2. induction l1 as [|i r IH].
  - cbn [app visit]. now rewrite rapp_nil_l.
  - cbn [app visit]. destruct (fwd_of g i) as [f|].
    + rewrite IH. now rewrite !rapp_assoc.
    + exact IH.
Qed.

Lemma recurse_app : forall k g l1 l2, recurse k g (l1 ++ l2) = rapp (recurse k g l1) (recurse k g l2).
Proof.
  intros [|k] g l1 l2.
  - reflexivity.
  - cbn [recurse]. apply visit_app.
Qed.

Lemma recurse_cons : forall k g i r,
  recurse (S k) g (i :: r) =
  match fwd_of g i with
  | Some f => rapp (f_items f, f_libs f) (rapp (recurse k g (f_libs f)) (recurse (S k) g r))
  | None => recurse (S k) g r
  end.
Proof. reflexivity. Qed.

(* the order of the argument matters: the result cannot be computed from the SET of libraries *)
Lemma recurse_order_matters : exists g l1 l2,
  Permutation l1 l2 /\ recurse 2 g l1 <> recurse 2 g l2.
Proof.
  exists [Some (mkFwd [[97%N]] []); Some (mkFwd [[98%N]] [])], [0; 1], [1; 0].
  split; [apply perm_swap|]. vm_compute. discriminate.
Qed.

(* ---- fuel: on bottom-up graphs any fuel above the largest library number gives the same result ---- *)
Lemma visit_ext : forall rec1 rec2 g l,
  (forall i f, In i l -> fwd_of g i = Some f -> rec1 (f_libs f) = rec2 (f_libs f)) ->
  visit rec1 g l = visit rec2 g l.
Proof.
  intros rec1 rec2 g l. induction l as [|i r IH]; intros H.
  - reflexivity.
  - cbn [visit]. destruct (fwd_of g i) as [f|] eqn:E.
    + rewrite (H i f (or_introl eq_refl) E). rewrite IH; [reflexivity|].
      intros j f' Hj. apply H. now right.
    + apply IH. intros j f' Hj. apply H. now right.
Qed.

Lemma bottom_up_from_nth : forall g o i j f,
  bottom_up_from o g = true -> nth_error g i = Some (Some f) -> In j (f_libs f) -> j < o + i.
Proof.
  induction g as [|x r IH]; intros o i j f Hb Hn Hj.
  - destruct i; discriminate.
  - cbn [bottom_up_from] in Hb. apply andb_true_iff in Hb. destruct Hb as [Hx Hr].
    destruct i as [|i].
    + cbn in Hn. injection Hn as ->. cbn [bottom_up_at] in Hx.
      rewrite forallb_forall in Hx. specialize (Hx j Hj). apply Nat.ltb_lt in Hx. lia.
    + cbn in Hn. specialize (IH (S o) i j f Hr Hn Hj). lia.
Qed.

Lemma bottom_up_libs : forall g i j f,
  bottom_up g = true -> fwd_of g i = Some f -> In j (f_libs f) -> j < i.
Proof.
  intros g i j f Hb Hf Hj. unfold fwd_of in Hf.
  destruct (nth_error g i) as [[f'|]|] eqn:E; try discriminate. injection Hf as ->.
  exact (bottom_up_from_nth g 0 i j f Hb E Hj).
Qed.

Lemma recurse_fuel : forall g, bottom_up g = true ->
  forall n l, (forall i, In i l -> i < n) -> forall k, n <= k -> recurse (S k) g l = recurse (S n) g l.
Proof.
  intros g Hb n. induction n as [n IHn] using lt_wf_ind. intros l Hl k Hk.
  cbn [recurse]. apply visit_ext. intros i f Hi Hf.
  assert (Hin : i < n) by (apply Hl; exact Hi).
  assert (Hlibs : forall j, In j (f_libs f) -> j < i) by (intros j Hj; exact (bottom_up_libs g i j f Hb Hf Hj)).
  destruct k as [|k]; [lia|]. destruct n as [|n]; [lia|].
  rewrite (IHn i Hin (f_libs f) Hlibs k) by lia.
  rewrite (IHn i Hin (f_libs f) Hlibs n) by lia.
  reflexivity.
Qed.
