(* The name under which a library that the project creates is written to a .pc file.

   builtins/pkg_config.py hands every library of Libs / Libs.private to CcLinker.lib_flags(mode = pkg-config), which
   names it -l<n> with n = CcLinker._extract_lib_name(file) (modelled in Misc/Options.v: extract_lib_name, tied to the
   code by the checks of C16 and C17).  A consumer resolves -l<n> to lib<n>.so / lib<n>.a in the -L directory, and the
   project creates the library called n as exactly those files (CcSharedLibraryLinker / ArLinker output_file).  So the
   written name leads back to the built file iff extract_lib_name (lib ++ n ++ ext) = n - for EVERY name n, in
   particular for names that themselves contain an extension-like infix (codec.amd64, hello.api, x.so.1, q.a). *)
From Coq Require Import List NArith String.
From BFG Require Import Base.Chars Misc.Options.
Import ListNotations.

Definition shared_file_name (n : str) : str := STR "lib" ++ n ++ STR ".so".
Definition static_file_name (n : str) : str := STR "lib" ++ n ++ STR ".a".

Lemma strip_prefix_app : forall p s, strip_prefix p (p ++ s) = Some s.
Proof.
  induction p as [|a p IH]; intros s; [reflexivity|].
  cbn [app strip_prefix]. rewrite N.eqb_refl. apply IH.
Qed.

Lemma strip_suffix_app : forall p s, strip_suffix p (s ++ p) = Some s.
Proof.
  intros p s. unfold strip_suffix. rewrite rev_app_distr, strip_prefix_app, rev_involutive. reflexivity.
Qed.

Lemma strip_suffix_a_of_so : forall n, strip_suffix (STR ".a") (n ++ STR ".so") = None.
Proof.
  intros n. unfold strip_suffix. rewrite rev_app_distr. reflexivity.
Qed.

Lemma libname_shared : forall n, extract_lib_name (shared_file_name n) = Some n.
Proof.
  intros n. unfold extract_lib_name, shared_file_name. rewrite strip_prefix_app, strip_suffix_a_of_so.
  apply strip_suffix_app.
Qed.

Lemma libname_static : forall n, extract_lib_name (static_file_name n) = Some n.
Proof.
  intros n. unfold extract_lib_name, static_file_name. rewrite strip_prefix_app, strip_suffix_app. reflexivity.
Qed.

(* two libraries of one directory are never written under one name: a sibling whose name is a prefix of the other's
   (codec next to codec.amd64) cannot be picked up in its place *)
Lemma libname_shared_injective : forall n m,
  extract_lib_name (shared_file_name n) = extract_lib_name (shared_file_name m) -> n = m.
Proof. intros n m. rewrite !libname_shared. intros H. injection H as H. exact H. Qed.

Lemma libname_static_injective : forall n m,
  extract_lib_name (static_file_name n) = extract_lib_name (static_file_name m) -> n = m.
Proof. intros n m. rewrite !libname_static. intros H. injection H as H. exact H. Qed.

(* the rule written WITHOUT the grouping of the two alternatives (only the second one anchored at the end) is a
   different function: it cuts a shared library's name at the first  .a  - the witness the check looks for *)
Example libname_infix_ex :
  extract_lib_name (STR "libcodec.amd64.so") = Some (STR "codec.amd64") /\
  extract_lib_name (STR "libx.so.1.a") = Some (STR "x.so.1") /\
  extract_lib_name (STR "libq.a.so") = Some (STR "q.a").
Proof. repeat split; reflexivity. Qed.
