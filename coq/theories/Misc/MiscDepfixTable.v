(* Dispatch entries (name -> sx wrapper) for Misc/Depfix.v and Make/MakeSem.v (C07). *)
From BFG Require Import Base.Chars Base.Sx Misc.Depfix Make.MakeSem.
From Coq Require Import String.
Local Open Scope N_scope.

Definition sx_tok (t : tok) : sx :=
  match t with
  | TChar c => L [A 0; A c]
  | TColon => L [A 1]
  | TSpace => L [A 2]
  | TNewline => L [A 3]
  end.

Definition sx_derr (e : option derr) : sx :=
  match e with
  | None => L []
  | Some (EUnexpected t) => L [A 0; sx_tok t]
  | Some EEof => L [A 1]
  end.

Definition un_wdep (x : sx) : nat * str := (un_nat (nth_sx 0 x), un_str (nth_sx 1 x)).

(* rule on the wire: [target; [prereqs]; [order-only]; recipe?; phony?] *)
Definition un_rule (x : sx) : rule :=
  mkRule (un_N (nth_sx 0 x)) (map un_N (un_list (nth_sx 1 x))) (map un_N (un_list (nth_sx 2 x)))
         (un_bool (nth_sx 3 x)) (un_bool (nth_sx 4 x)).
Definition un_fs (x : sx) : fs := fs_of (map (fun e => (un_N (nth_sx 0 e), un_N (nth_sx 1 e))) (un_list x)).

(* a session: operations [0] = build (reports log and failure), [1; f] = touch f, [2; f] = delete f *)
Fixpoint session (rs : list rule) (f : fs) (clk : time) (ops : list sx) : list sx :=
  match ops with
  | [] => []
  | o :: rest =>
      let x := un_N (nth_sx 1 o) in
      match un_N (nth_sx 0 o) with
      | 0 => let s := build rs f clk in
             L [sx_list A (b_log s); sx_opt A (b_fail s)] :: session rs (b_fs s) (b_clk s) rest
      | 1 => session rs (upd f x clk) (clk + 1) rest
      | _ => session rs (del f x) clk rest
      end
  end.

Definition table : list (string * (sx -> sx)) := [
  ("depfix.tokenize", fun a => sx_list sx_tok (tokenize (un_str (nth_sx 0 a))));
  ("depfix.emit_deps", fun a => let r := emit_deps (un_str (nth_sx 0 a)) in L [sx_str (fst r); sx_derr (snd r)]);
  ("depfix.munge", fun a => sx_str (munge (un_str (nth_sx 0 a))));
  ("depfix.gcc_depfile", fun a => sx_str (gcc_depfile (un_str (nth_sx 0 a)) (map un_wdep (un_list (nth_sx 1 a)))));
  ("depfix.mk_read", fun a => sx_opt (sx_list (sx_pair (sx_list sx_str) (sx_list sx_str))) (mk_read (un_str (nth_sx 0 a))));
  ("depfix.name_ok", fun a => sx_bool (name_ok (un_str (nth_sx 0 a))));
  ("makesem.wfb", fun a => sx_bool (wfb (map un_rule (un_list (nth_sx 0 a)))));
  ("makesem.down", fun a => sx_list A (down (un_N (nth_sx 0 a)) (map un_rule (un_list (nth_sx 1 a)))));
  ("makesem.session", fun a =>
      L (session (map un_rule (un_list (nth_sx 0 a))) (un_fs (nth_sx 1 a)) (un_N (nth_sx 2 a)) (un_list (nth_sx 3 a))))
]%string.
