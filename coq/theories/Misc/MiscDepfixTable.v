(* Dispatch entries (name -> sx wrapper) for Misc/Depfix.v and Make/MakeSem.v (C07). *)
From BFG Require Import Base.Chars Base.Sx Misc.Depfix.
From Coq Require Import String.
Local Open Scope N_scope.

Definition sx_tok (t : tok) : sx :=
  match t with
  | TChar c => L [A 0; A c]
  | TColon => L [A 1]
  | TSpace => L [A 2]
  | TNewline => L [A 3]
  end.

Definition sx_derr (e : option derr) : sx :=
  match e with
  | None => L []
  | Some (EUnexpected t) => L [A 0; sx_tok t]
  | Some EEof => L [A 1]
  end.

Definition un_wdep (x : sx) : nat * str := (un_nat (nth_sx 0 x), un_str (nth_sx 1 x)).

Definition table : list (string * (sx -> sx)) := [
  ("depfix.tokenize", fun a => sx_list sx_tok (tokenize (un_str (nth_sx 0 a))));
  ("depfix.emit_deps", fun a => let r := emit_deps (un_str (nth_sx 0 a)) in L [sx_str (fst r); sx_derr (snd r)]);
  ("depfix.munge", fun a => sx_str (munge (un_str (nth_sx 0 a))));
  ("depfix.gcc_depfile", fun a => sx_str (gcc_depfile (un_str (nth_sx 0 a)) (map un_wdep (un_list (nth_sx 1 a)))));
  ("depfix.mk_read", fun a => sx_opt (sx_list (sx_pair (sx_list sx_str) (sx_list sx_str))) (mk_read (un_str (nth_sx 0 a))));
  ("depfix.name_ok", fun a => sx_bool (name_ok (un_str (nth_sx 0 a))))
]%string.
