(* Dispatch entries (name -> sx wrapper) for Misc/Determ.v (property C13). *)
From Coq Require Import String.
From BFG Require Import Base.Chars Base.Sx Make.MakeWrite Misc.Determ Misc.SortDeterm.
Local Open Scope N_scope.

Definition us_of (x : sx) : char -> bool := fun c => mem_char c (un_str x).
Definition un_kv (x : sx) : str * str := (un_str (nth_sx 0 x), un_str (nth_sx 1 x)).
Definition sx_kv (p : str * str) : sx := L [sx_str (fst p); sx_str (snd p)].

(* three very different iteration behaviours of a set: newest first, insertion order, a hash of content and size *)
Definition oracle_of (n : N) : oracle :=
  match n with
  | 0 => fun _ _ => O
  | 1 => fun s _ => List.length s
  | _ => fun s x => N.to_nat ((fold_left N.add x n + N.of_nat (List.length s) * 7) mod (N.of_nat (List.length s) + 1))
  end.

Definition un_op (x : sx) : op :=
  match un_N (nth_sx 0 x) with
  | 0 => OVariable (un_str (nth_sx 1 x)) (un_str (nth_sx 2 x)) (un_bool (nth_sx 3 x))
  | 1 => ORule (un_strs (nth_sx 1 x)) (un_str (nth_sx 2 x))
  | 2 => ORuleUnless (un_str (nth_sx 1 x)) (un_strs (nth_sx 2 x)) (un_str (nth_sx 3 x))
  | _ => OVarUnless (un_str (nth_sx 1 x)) (un_str (nth_sx 2 x)) (un_str (nth_sx 3 x))
  end.
Definition sx_rule (r : list str * str) : sx := L [sx_list sx_str (fst r); sx_str (snd r)].
Definition sx_res (r : res str) : sx :=
  match r with Ok x => L [A 0; sx_str x] | ErrValue => L [A 1] | Outside => L [A 2] end.

Definition table : list (string * (sx -> sx)) := [
  ("determ.split_texts", fun a => sx_list sx_str (split_texts (un_bool (nth_sx 0 a)) (un_strs (nth_sx 1 a))));
  ("determ.uniques", fun a => sx_list sx_str (uniques (un_strs (nth_sx 0 a))));
  ("determ.explicit_of", fun a => sx_list sx_str (explicit_of (un_strs (nth_sx 0 a))));
  ("determ.dict_of", fun a => sx_list sx_kv (dict_of (map un_kv (un_list (nth_sx 0 a)))));
  ("determ.dict_first_of", fun a => sx_list sx_kv (dict_first_of (map un_kv (un_list (nth_sx 0 a)))));
  ("determ.find_dirs_of", fun a =>
     sx_list sx_str (find_dirs_of (oracle_of (un_N (nth_sx 0 a))) (map un_strs (un_list (nth_sx 1 a)))));
  ("determ.depfile_text", fun a =>
     sx_opt sx_str (depfile_text (us_of (nth_sx 0 a)) (un_str (nth_sx 1 a)) (un_strs (nth_sx 2 a))
                                 (un_bool (nth_sx 3 a))));
  ("determ.emit", fun a =>
     sx_opt (fun p => L [sx_list sx_kv (fst p); sx_list sx_rule (snd p)])
            (emit (oracle_of (un_N (nth_sx 0 a))) (map un_op (un_list (nth_sx 1 a)))));
  ("determ.abspath_str", fun a => sx_res (abspath_str (un_str (nth_sx 0 a)) (un_str (nth_sx 1 a))));
  ("determ.directory_pair", fun a =>
     let has := fun d => mem d (un_strs (nth_sx 0 a)) in
     let p := directory_pair has (un_str (nth_sx 1 a)) (un_str (nth_sx 2 a)) in
     L [sx_str (fst p); sx_str (snd p)])
]%string.
