(* Dispatch entries (name -> sx wrapper) for Misc/Forward.v (property C13). *)
From Coq Require Import String.
From BFG Require Import Base.Chars Base.Sx Misc.Forward.

Definition un_fwd (x : sx) : fwd := mkFwd (un_strs (nth_sx 0 x)) (map un_nat (un_list (nth_sx 1 x))).
Definition un_graph (x : sx) : graph := map (un_opt un_fwd) (un_list x).
Definition sx_fres (r : res) : sx := L [sx_list sx_str (fst r); sx_list sx_nat (snd r)].

Definition table : list (string * (sx -> sx)) := [
  (* [fuel, graph = [None | [[items], [libs]]], libs] -> [[items], [libs]] *)
  ("forward.recurse", fun a => sx_fres (recurse (un_nat (nth_sx 0 a)) (un_graph (nth_sx 1 a)) (map un_nat (un_list (nth_sx 2 a)))));
  ("forward.bottom_up", fun a => sx_bool (bottom_up (un_graph (nth_sx 0 a))))
]%string.
