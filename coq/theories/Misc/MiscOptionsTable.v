(* Dispatch entries (name -> sx wrapper) for Misc/Options.v (property C16). *)
From Coq Require Import String.
From BFG Require Import Base.Chars Base.Sx Misc.Options.
Local Open Scope N_scope.

Definition un_warn (x : sx) : warn :=
  match un_N x with 0 => WDisable | 1 => WAll | 2 => WExtra | _ => WError end.
Definition un_optv (x : sx) : optv :=
  match un_N x with 0 => ODisable | 1 => OSize | 2 => OSpeed | _ => OLinktime end.
Definition un_libk (x : sx) : libk :=
  match un_N (nth_sx 0 x) with
  | 0 => LName (un_str (nth_sx 1 x))
  | 1 => LStatic (un_str (nth_sx 1 x)) (un_str (nth_sx 2 x))
  | _ => LShared (un_str (nth_sx 1 x)) (un_str (nth_sx 2 x))
  end.
Definition un_option (x : sx) : opt :=
  let a := nth_sx 1 x in
  match un_N (nth_sx 0 x) with
  | 0 => OInclude (un_str a) (un_bool (nth_sx 2 x))
  | 1 => ODefine (un_str a) (un_opt un_str (nth_sx 2 x))
  | 2 => OStd (un_str a)
  | 3 => OWarning (map un_warn (un_list a))
  | 4 => ODebug
  | 5 => OStatic
  | 6 => OOptimize (map un_optv (un_list a))
  | 7 => OPthread
  | 8 => OPic
  | 9 => OPch (un_str a)
  | 10 => OSanitize
  | 11 => OLibDir (un_str a)
  | 12 => OLib (un_libk a)
  | 13 => OEntry (un_str a)
  | 14 => OGui (un_bool a)
  | 15 => OLibLiteral (un_str a)
  | _ => ORaw (un_str a)
  end.
Definition un_options (x : sx) : list opt := map un_option (un_list x).

Definition sx_warn (w : warn) : sx :=
  A (match w with WDisable => 0 | WAll => 1 | WExtra => 2 | WError => 3 end).
Definition sx_optv (o : optv) : sx :=
  A (match o with ODisable => 0 | OSize => 1 | OSpeed => 2 | OLinktime => 3 end).
Definition sx_libk (k : libk) : sx :=
  match k with
  | LName n => L [A 0; sx_str n]
  | LStatic d b => L [A 1; sx_str d; sx_str b]
  | LShared d b => L [A 2; sx_str d; sx_str b]
  end.
Definition sx_option (o : opt) : sx :=
  match o with
  | OInclude d s => L [A 0; sx_str d; sx_bool s]
  | ODefine n v => L [A 1; sx_str n; sx_opt sx_str v]
  | OStd s => L [A 2; sx_str s]
  | OWarning l => L [A 3; sx_list sx_warn l]
  | ODebug => L [A 4]
  | OStatic => L [A 5]
  | OOptimize l => L [A 6; sx_list sx_optv l]
  | OPthread => L [A 7]
  | OPic => L [A 8]
  | OPch p => L [A 9; sx_str p]
  | OSanitize => L [A 10]
  | OLibDir d => L [A 11; sx_str d]
  | OLib k => L [A 12; sx_libk k]
  | OEntry s => L [A 13; sx_str s]
  | OGui b => L [A 14; sx_bool b]
  | OLibLiteral s => L [A 15; sx_str s]
  | ORaw s => L [A 16; sx_str s]
  end.

(* Ok fl -> [0 [flags]]; TypeError -> [1]; ValueError -> [2] *)
Definition sx_res (r : res (list flag)) : sx :=
  match r with
  | Ok fl => L [A 0; sx_list sx_str fl]
  | Err TypeErr => L [A 1]
  | Err ValueErr => L [A 2]
  end.

Definition un_lang (x : sx) : lang := if N.eqb (un_N x) 0 then LangC else LangCxx.

Definition table : list (string * (sx -> sx)) := [
  ("opts.cc_flags", fun a => sx_res (cc_flags (un_bool (nth_sx 0 a)) (un_bool (nth_sx 1 a)) (un_bool (nth_sx 2 a))
                                              (un_strs (nth_sx 3 a)) (un_options (nth_sx 4 a))));
  ("opts.ld_flags", fun a => sx_res (ld_flags (un_bool (nth_sx 0 a)) (un_bool (nth_sx 1 a))
                                              (un_options (nth_sx 2 a))));
  ("opts.ld_lib_flags", fun a => sx_res (ld_lib_flags (un_bool (nth_sx 0 a)) (un_options (nth_sx 1 a))));
  ("opts.extract_lib_name", fun a => sx_opt sx_str (extract_lib_name (un_str (nth_sx 0 a))));
  ("opts.ol_make", fun a => sx_list sx_option (ol_make (un_options (nth_sx 0 a))));
  ("opts.ol_add", fun a => sx_list sx_option (ol_add (un_options (nth_sx 0 a)) (un_options (nth_sx 1 a))));
  ("opts.cc_final", fun a =>
     sx_res (cc_final (un_bool (nth_sx 0 a)) (un_bool (nth_sx 11 a)) (un_strs (nth_sx 1 a)) (un_strs (nth_sx 2 a))
                      (un_strs (nth_sx 3 a)) (un_strs (nth_sx 4 a)) (un_options (nth_sx 5 a))
                      (un_options (nth_sx 6 a)) (un_options (nth_sx 7 a)) (un_str (nth_sx 8 a))
                      (un_str (nth_sx 9 a)) (un_opt un_str (nth_sx 10 a))));
  ("opts.ld_final", fun a =>
     sx_res (ld_final (un_bool (nth_sx 0 a)) (un_strs (nth_sx 1 a)) (un_strs (nth_sx 2 a))
                      (un_strs (nth_sx 3 a)) (un_strs (nth_sx 4 a)) (un_options (nth_sx 5 a))
                      (un_options (nth_sx 6 a)) (un_options (nth_sx 7 a)) (un_strs (nth_sx 8 a))
                      (un_str (nth_sx 9 a))));
  ("opts.grammar", fun _ => L [sx_list sx_str finite_flags; sx_list sx_str c_stds; sx_list sx_str cxx_stds]);
  ("opts.finite_opts", fun _ => sx_list sx_option finite_opts);
  ("opts.accepted_args", fun a => sx_bool (accepted_args (un_lang (nth_sx 0 a)) (un_strs (nth_sx 1 a))));
  ("opts.wf_option", fun a => sx_bool (wf_option (un_lang (nth_sx 0 a)) (un_option (nth_sx 1 a))));
  ("opts.macro_of_flag", fun a => sx_opt (sx_pair sx_str sx_str) (macro_of_flag (un_str (nth_sx 0 a))))
]%string.
