(* Dispatch entry for Misc/PcInfo.v (C17: PkgConfigInfo fields, auto_fill, finalize, flag fields). *)
From BFG Require Import Base.Chars Base.Sx Graph.LinkOrder Misc.PcFile Misc.PcInfo Misc.MiscPkgTable.
From Coq Require Import String.
Local Open Scope N_scope.

Definition un_ns (x : sx) : list N := map un_N (un_list x).
Definition un_kind (x : sx) : kind := match un_N x with 0 => KHeader | 1 => KLib | _ => KOther end.
Definition un_item (x : sx) : item := (un_kind (nth_sx 0 x), un_N (nth_sx 1 x)).

(* [auto name? version? includes? libs? libs_private? options link_options link_options_private] *)
Definition un_info (x : sx) : info :=
  {| i_auto := un_bool (nth_sx 0 x);
     i_name := un_opt un_str (nth_sx 1 x);
     i_version := un_opt un_str (nth_sx 2 x);
     i_includes := un_opt un_ns (nth_sx 3 x);
     i_libs := un_opt un_ns (nth_sx 4 x);
     i_libs_private := un_opt un_ns (nth_sx 5 x);
     i_options := un_strs (nth_sx 6 x);
     i_lopts := un_strs (nth_sx 7 x);
     i_lopts_private := un_strs (nth_sx 8 x) |}.

(* [0 items] install(...), [1 info] pkg_config(...) *)
Definition un_action (x : sx) : action :=
  match un_N (nth_sx 0 x) with
  | 0 => AInstall (map un_item (un_list (nth_sx 1 x)))
  | _ => APkg (un_info (nth_sx 1 x))
  end.

Fixpoint assoc {T} (dflt : T) (l : list (N * T)) (k : N) : T :=
  match l with
  | [] => dflt
  | (n, v) :: r => if N.eqb n k then v else assoc dflt r k
  end.

Definition sx_ns (l : list N) : sx := L (map A l).

Definition sx_info (i : info) : sx :=
  L [sx_opt sx_str (i_name i); sx_opt sx_str (i_version i); sx_opt sx_ns (i_includes i); sx_opt sx_ns (i_libs i);
     sx_opt sx_ns (i_libs_private i)].

(* the three fields of one form as _write_field writes them *)
Definition fields_text (uw : char -> bool) (incdir libdir : N -> N) (libname : N -> str) (dirfrag : N -> frag)
           (d : data) : sx :=
  let w name fs := sx_str (write_field uw true [c_sp] name fs) in
  L [w (STR "Cflags") (pc_cflags incdir dirfrag d);
     w (STR "Libs") (pc_libs libdir libname dirfrag d);
     w (STR "Libs.private") (pc_libs_private libdir libname dirfrag d)].

Definition table : list (string * (sx -> sx)) := [
  (* [pname pversion? actions graph fuel headers libs dirs uw]
     graph: [id fwd deps link_options]; headers: [id dir_installed dir_uninstalled];
     libs: [id name dir_installed dir_uninstalled]; dirs: [id frag]
     -> per pkg_config() call: [info-after-autofill finalize?? ] *)
  ("pcinfo.script", fun a =>
      let pname := un_str (nth_sx 0 a) in
      let pversion := un_opt un_str (nth_sx 1 a) in
      let acts := map un_action (un_list (nth_sx 2 a)) in
      let graph := un_list (nth_sx 3 a) in
      let deps := assoc [] (map (fun g => (un_N (nth_sx 0 g), un_ns (nth_sx 2 g))) graph) in
      let fwd := assoc false (map (fun g => (un_N (nth_sx 0 g), un_bool (nth_sx 1 g))) graph) in
      let lopts := assoc [] (map (fun g => (un_N (nth_sx 0 g), un_strs (nth_sx 3 g))) graph) in
      let fuel := un_nat (nth_sx 4 a) in
      let hdrs := un_list (nth_sx 5 a) in
      let libs := un_list (nth_sx 6 a) in
      let dirfrag := assoc (FStr []) (map (fun g => (un_N (nth_sx 0 g), un_frag (nth_sx 1 g))) (un_list (nth_sx 7 a))) in
      let uw := uw_of (nth_sx 8 a) in
      let incdir (k : nat) := assoc 0 (map (fun g => (un_N (nth_sx 0 g), un_N (nth_sx k g))) hdrs) in
      let libdir (k : nat) := assoc 0 (map (fun g => (un_N (nth_sx 0 g), un_N (nth_sx k g))) libs) in
      let libname := assoc [] (map (fun g => (un_N (nth_sx 0 g), un_str (nth_sx 1 g))) libs) in
      sx_list (fun i =>
        L [sx_info i;
           sx_opt (sx_opt (fun d =>
             L [sx_str (d_name d); sx_str (d_version d); sx_ns (d_includes d); sx_ns (d_libs d);
                sx_ns (d_libs_private d); sx_list sx_str (d_lopts_private d);
                fields_text uw (incdir 1%nat) (libdir 2%nat) libname dirfrag d;
                fields_text uw (incdir 2%nat) (libdir 3%nat) libname dirfrag d]))
             (finalize deps fwd lopts fuel i)])
        (written pname pversion acts));
  ("pcinfo.explicit", fun a =>
      sx_list (fun i => L [A (match fst i with KHeader => 0 | KLib => 1 | KOther => 2 end); A (snd i)])
        (explicit_after (map un_action (un_list (nth_sx 0 a)))))
]%string.
