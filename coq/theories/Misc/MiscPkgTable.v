(* Dispatch entries for the C17 models (Misc/Versions.v, Misc/PcFile.v). *)
From BFG Require Import Base.Chars Base.Sx Misc.Versions Misc.PcFile.
From Coq Require Import String.
Local Open Scope N_scope.

(* operators on the wire: 0 ==, 1 !=, 2 >=, 3 >, 4 <=, 5 < *)
Definition un_op (x : sx) : op :=
  match un_N x with 0 => OEq | 1 => ONe | 2 => OGe | 3 => OGt | 4 => OLe | _ => OLt end.
Definition sx_op (o : op) : sx :=
  A (match o with OEq => 0 | ONe => 1 | OGe => 2 | OGt => 3 | OLe => 4 | OLt => 5 end).

Definition sspec := spec str.
Definition un_spec (x : sx) : sspec := (un_op (nth_sx 0 x), un_str (nth_sx 1 x)).
Definition sx_spec (s : sspec) : sx := L [sx_op (fst s); sx_str (snd s)].
Definition un_specs (x : sx) : list sspec := map un_spec (un_list x).
Definition un_req (x : sx) : req str := (un_str (nth_sx 0 x), un_specs (nth_sx 1 x)).
Definition un_reqs (x : sx) : list (req str) := map un_req (un_list x).
Definition sx_req (r : req str) : sx := L [sx_str (fst r); sx_list sx_spec (snd r)].
Definition sx_simple (r : simple str) : sx := L [sx_str (fst r); sx_opt sx_spec (snd r)].

Definition sx_res {T} (f : T -> sx) (r : res T) : sx :=
  match r with Ok x => L [A 0; f x] | Err => L [A 1] end.

(* variant of simplify_specifiers on the wire: bit 0 = fixed (sort key compares versions, >=v,<=v,!=v raises),
   bit 1 = eqv (== specifiers compared by version) *)
Definition un_fixed (x : sx) : bool := N.odd (un_N x).
Definition un_eqv (x : sx) : bool := 2 <=? un_N x.

(* frags on the wire: [0 s] str, [1 s] literal, [2 [] suffix] absolute path, [2 [root] suffix] rooted path *)
Definition un_frag (x : sx) : frag :=
  match un_N (nth_sx 0 x) with
  | 0 => FStr (un_str (nth_sx 1 x))
  | 1 => FLit (un_str (nth_sx 1 x))
  | _ => FPath (un_opt un_str (nth_sx 1 x)) (un_str (nth_sx 2 x))
  end.
Definition un_flags (x : sx) : list flag := map (fun f => map un_frag (un_list f)) (un_list x).
Definition un_vars (x : sx) : list (str * str) := map (fun p => (un_str (nth_sx 0 p), un_str (nth_sx 1 p))) (un_list x).
Definition un_simple (x : sx) : simple str := (un_str (nth_sx 0 x), un_opt un_spec (nth_sx 1 x)).
Definition uw_of (x : sx) : char -> bool := fun c => mem_char c (un_str x).

Definition table : list (string * (sx -> sx)) := [
  ("pc.write_field", fun a =>
      sx_str (write_field (uw_of (nth_sx 0 a)) (un_bool (nth_sx 1 a)) (un_str (nth_sx 2 a)) (un_str (nth_sx 3 a))
                (un_flags (nth_sx 4 a))));
  ("pc.write_variable", fun a =>
      sx_str (write_variable (uw_of (nth_sx 0 a)) (un_bool (nth_sx 1 a)) (un_str (nth_sx 2 a)) (un_str (nth_sx 3 a))
                (un_flags (nth_sx 4 a))));
  (* the variables section of a written file: [uw installed dirs srcdir depth], dirs = [[name frag] ...] (installed form),
     srcdir / depth of the .pc directory below the build directory (-uninstalled form) *)
  ("pc.variables", fun a =>
      sx_str (if un_bool (nth_sx 1 a)
              then installed_vars (uw_of (nth_sx 0 a))
                     (map (fun p => (un_str (nth_sx 0 p), un_frag (nth_sx 1 p))) (un_list (nth_sx 2 a)))
              else uninstalled_vars (uw_of (nth_sx 0 a)) (un_str (nth_sx 3 a)) (un_nat (nth_sx 4 a))));
  ("pc.write_requires", fun a => sx_str (write_requires (un_str (nth_sx 0 a)) (map un_simple (un_list (nth_sx 1 a)))));
  ("pc.field", fun a => sx_opt (sx_list sx_str) (pc_field (un_vars (nth_sx 0 a)) (un_str (nth_sx 1 a))));
  ("pc.denote", fun a => sx_list sx_str (map (flag_denote (un_vars (nth_sx 0 a))) (un_flags (nth_sx 1 a))));
  ("pc.clean", fun a => sx_bool (pc_clean (un_str (nth_sx 0 a))));
  ("ver.leb", fun a => sx_bool (sv_leb (un_str (nth_sx 0 a)) (un_str (nth_sx 1 a))));
  ("ver.sat", fun a => sx_bool (sat_str (un_str (nth_sx 0 a)) (un_specs (nth_sx 1 a))));
  ("ver.simplify", fun a =>
      sx_res (sx_list sx_spec) (simplify_str (un_fixed (nth_sx 0 a)) (un_eqv (nth_sx 0 a)) (un_specs (nth_sx 1 a))));
  ("req.split", fun a =>
      sx_res (sx_list sx_simple)
        (req_split str str_eqb sv_leb str_leb (un_fixed (nth_sx 0 a)) (un_eqv (nth_sx 0 a)) (un_bool (nth_sx 1 a)) (un_req (nth_sx 2 a))));
  ("req.finalize_sets", fun a =>
      sx_pair (sx_list sx_req) (sx_list sx_req)
        (finalize_sets str str_eqb (un_reqs (nth_sx 0 a)) (un_reqs (nth_sx 1 a)) (un_reqs (nth_sx 2 a))));
  ("req.finalize", fun a =>
      sx_res (fun t => L [sx_list sx_simple (fst (fst t)); sx_list sx_simple (snd (fst t)); sx_list sx_simple (snd t)])
        (finalize_reqs str str_eqb sv_leb str_leb (un_fixed (nth_sx 0 a)) (un_eqv (nth_sx 0 a))
           (un_reqs (nth_sx 1 a)) (un_reqs (nth_sx 2 a)) (un_reqs (nth_sx 3 a)) (un_reqs (nth_sx 4 a))))
]%string.
