(* Dispatch entries (name -> sx wrapper) for Misc/Scope.v and Misc/UserArgs.v (property C19). *)
From BFG Require Import Base.Chars Base.Sx Misc.Scope Misc.UserArgs.
From Coq Require Import String.
Local Open Scope N_scope.

(* ---- Scope ---- *)
Definition un_kind (x : sx) : ikind := match un_N x with 0 => KPath | 1 => KFile | _ => KDir end.
Definition sx_kind (k : ikind) : sx := A (match k with KPath => 0 | KFile => 1 | KDir => 2 end).
Definition un_stmt (x : sx) : stmt :=
  let a i := nth_sx i x in
  match un_N (a 0%nat) with
  | 0 => Assign (un_str (a 1%nat)) (un_str (a 2%nat))
  | 1 => Read (un_str (a 1%nat))
  | 2 => Submodule (un_str (a 1%nat))
  | 3 => Export (un_str (a 1%nat)) (un_str (a 2%nat))
  | 4 => Input (un_kind (a 3%nat)) (un_str (a 1%nat)) (un_str (a 2%nat))
  | 5 => Output (un_kind (a 3%nat)) (un_str (a 1%nat)) (un_str (a 2%nat))
  | _ => OutDir (un_str (a 1%nat)) (un_str (a 2%nat)) (un_bool (a 3%nat))
  end.

Definition un_tree (x : sx) : list (list str * list stmt) :=
  map (fun e => (un_strs (nth_sx 0 e), map un_stmt (un_list (nth_sx 1 e)))) (un_list x).

Definition bi_of (x : sx) : name -> bool := fun n => existsb (str_eqb n) (un_strs x).

Definition sx_exn (e : exn) : sx :=
  A (match e with XValue => 0 | XType => 1 | XName => 2 | XNotFound => 3 | XNonRel => 4 end).
Definition sx_lres (r : lres) : sx :=
  match r with LVal v => L [A 0; sx_str v] | LBuiltin => L [A 1] | LNameErr => L [A 2] end.
Definition sx_pres (r : pres) : sx :=
  match r with
  | POk rt cs d => L [A 0; A (match rt with Src => 0 | Bld => 1 end); sx_list sx_str cs; sx_bool d]
  | PNonRel => L [A 1]
  | PErr => L [A 2]
  end.
Definition sx_genv (g : genv) : sx := sx_list (sx_pair sx_str sx_str) g.
Definition sx_outcome (o : outcome) : sx :=
  match o with ODone ex => L [A 0; sx_genv ex] | OCrash e => L [A 1; sx_exn e] end.

Fixpoint sx_event (e : event) : sx :=
  match e with
  | EAssign x v => L [A 0; sx_str x; sx_str v]
  | ERead x r => L [A 1; sx_str x; sx_lres r]
  | ESub d p body o => L [A 2; sx_str d; sx_list sx_str p; L (map sx_event body); sx_outcome o]
  | EExport x v => L [A 3; sx_str x; sx_str v]
  | EInput k f p r => L [A 4; sx_str f; sx_str p; sx_pres r; sx_kind k]
  | EOutput k f p r => L [A 5; sx_str f; sx_str p; sx_pres r; sx_kind k]
  | EOutDir f p s r => L [A 6; sx_str f; sx_str p; sx_bool s; sx_pres r]
  | ESubErr d x => L [A 7; sx_str d; sx_exn x]
  end.

Definition sx_result (r : option (list event * outcome)) : sx :=
  sx_opt (fun p => L [L (map sx_event (fst p)); sx_outcome (snd p); sx_list (sx_list sx_str) (seen_paths (fst p))]) r.

(* ---- UserArgs ---- *)
Definition un_action (x : sx) : action :=
  match un_N x with 0 => AStore | 1 => AStoreTrue | 2 => AStoreFalse | 3 => AEnable | _ => AWith end.
Definition un_usage (x : sx) : usage := if un_bool x then UParse else UHelp.
Definition un_decl (x : sx) : list str * action := (un_strs (nth_sx 0 x), un_action (nth_sx 1 x)).
Definition sx_value (v : value) : sx :=
  match v with VNone => L [A 0] | VStr s => L [A 1; sx_str s] | VBool b => L [A 2; sx_bool b] end.
Definition sx_aerr (e : aerr) : sx :=
  A (match e with EValue => 0 | EType => 1 | EConflict => 2 end).
Definition sx_act (a : act) : sx :=
  L [sx_str (a_dest a); A (match a_kind a with AStore => 0 | AStoreTrue => 1 | AStoreFalse => 2 | AEnable => 3 | AWith => 4 end);
     sx_list sx_str (a_true a)].
Definition sx_parser (p : parser) : sx :=
  L [sx_list (fun e => L [sx_str (fst e); sx_str (a_dest (snd e)); sx_bool (existsb (str_eqb (fst e)) (a_true (snd e)))]) (p_opts p);
     sx_list sx_act (p_acts p)].
Definition sx_pr (r : presult) : sx :=
  match r with
  | ROutside => L [A 0]
  | RError => L [A 1]
  | RNs ns => L [A 2; sx_list (sx_pair sx_str sx_value) ns]
  end.

Definition table : list (string * (sx -> sx)) := [
  (* [builtin names; filename; tree; fuel] *)
  ("scope.exec", fun a =>
      sx_result (exec_root (bi_of (nth_sx 0 a)) (un_str (nth_sx 1 a)) (un_tree (nth_sx 2 a)) (un_nat (nth_sx 3 a))));
  (* [p; root; base comps; strict] *)
  ("scope.ensure", fun a =>
      sx_pres (ensure (un_str (nth_sx 0 a)) (if un_bool (nth_sx 1 a) then Bld else Src) (un_strs (nth_sx 2 a))
                      (un_bool (nth_sx 3 a))));
  ("scope.relname_path", fun a => sx_pres (relname_path (un_strs (nth_sx 0 a)) (un_str (nth_sx 1 a))));
  ("userargs.toggle_prefix", fun a => sx_opt sx_str (toggle_prefix (un_str (nth_sx 0 a)) (un_str (nth_sx 1 a))));
  (* fixed = the variant of add_user_argument (true: repaired, a nameless option string is a ValueError).
     [fixed; usage; declarations] -> parser table or the error of the first failing declaration *)
  ("userargs.declare", fun a =>
      match declare_from (un_bool (nth_sx 0 a)) 0 (un_usage (nth_sx 1 a)) (map un_decl (un_list (nth_sx 2 a))) empty_parser with
      | inl p => L [A 0; sx_parser p]
      | inr (i, e) => L [A 1; sx_nat i; sx_aerr e]
      end);
  (* [fixed; usage; declarations; argv] *)
  ("userargs.parse", fun a =>
      match declare_from (un_bool (nth_sx 0 a)) 0 (un_usage (nth_sx 1 a)) (map un_decl (un_list (nth_sx 2 a))) empty_parser with
      | inl p => L [A 0; sx_pr (parse p (un_strs (nth_sx 3 a)))]
      | inr (i, e) => L [A 1; sx_nat i; sx_aerr e]
      end);
  (* [fixed; usage; declarations; mask; argv] *)
  ("userargs.respell", fun a =>
      match declare_from (un_bool (nth_sx 0 a)) 0 (un_usage (nth_sx 1 a)) (map un_decl (un_list (nth_sx 2 a))) empty_parser with
      | inl p => L [A 0; sx_list sx_str (respell p (map un_bool (un_list (nth_sx 3 a))) (un_strs (nth_sx 4 a)))]
      | inr (i, e) => L [A 1; sx_nat i; sx_aerr e]
      end)
]%string.
