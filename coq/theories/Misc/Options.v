(* W model of the semantic-option translation of bfg9000 for cc-like tools on a Linux/ELF target:
     options.py            option classes (== on options), option_list.append/extend/collect/__add__
     tools/cc/flags.py     optimize_flags
     tools/cc/compiler.py  CcBaseCompiler._include_dir, .flags, ._call
     tools/cc/linker.py    CcLinker._extract_lib_name, ._link_lib, ._lib_dir, .flags, .lib_flags, ._call
     builtins/compile.py   BaseCompile.options/.flags, _get_flags   (and the same in builtins/link.py)
   and R model: the grammar of gcc/clang command-line words that these tables are meant to stay inside
   ([accepted1], [accepted_args]; validated against the real gcc and clang by harness/c16.py on every run).

   Conventions: a flag is one argv word (str).  Paths are opaque, already realised strings (the harness
   realises Path objects against fixed base directories).  Python TypeError / ValueError -> [Err].
   [fixed] selects the table after the repair of DESIGN section 7.2 (optimize size: -Os); [fixed = false]
   is the table as originally written (-Osize).
   [dfix] selects a translation of define(NAME, empty string) that keeps the empty value (-DNAME=);
   [dfix = false] is the code as written (the value is tested for truth, so -DNAME is produced).
   Not modelled: MSVC tables, darwin/windows branches (pthread on darwin, gui on windows, frameworks,
   module_def, whole archives), java (--main=), rpath_dir/rpath_link_dir/install_name_change, libraries
   created by the build itself (relative rpath through patchelf.local_rpath - property C14), newlines in
   library basenames (Python's dot and dollar treat them specially). *)
From Coq Require Import String.
From BFG Require Import Base.Chars.
Local Open Scope N_scope.

Definition flag := str.

Inductive warn := WDisable | WAll | WExtra | WError.
Inductive optv := ODisable | OSize | OSpeed | OLinktime.

(* the library argument of opts.lib: a plain name, a StaticLibrary or a SharedLibrary (not created by this
   build) given by absolute directory and basename *)
Inductive libk :=
| LName (n : str)
| LStatic (dir base : str)
| LShared (dir base : str).

Inductive opt :=
| OInclude (dir : str) (system : bool)      (* include_dir(HeaderDirectory(dir, system=...)) *)
| ODefine (n : str) (v : option str)
| OStd (s : str)
| OWarning (l : list warn)
| ODebug
| OStatic
| OOptimize (l : list optv)
| OPthread
| OPic
| OPch (p : str)                             (* pch(header): p = header.path.stripext() *)
| OSanitize
| OLibDir (d : str)
| OLib (k : libk)
| OEntry (s : str)
| OGui (main : bool)
| OLibLiteral (s : str)
| ORaw (s : str).                            (* a plain string option: passed through *)

Inductive err := TypeErr | ValueErr.
Inductive res (A : Type) := Ok (a : A) | Err (e : err).
Arguments Ok {A} a.
Arguments Err {A} e.

(* ------------------------------------------------------------------ flag tables (W) *)

Definition optimize_flag (fixed : bool) (o : optv) : flag :=
  match o with
  | ODisable => STR "-O0"
  | OSize => if fixed then STR "-Os" else STR "-Osize"
  | OSpeed => STR "-O3"
  | OLinktime => STR "-flto"
  end.

Definition warn_flag (w : warn) : flag :=
  match w with
  | WDisable => STR "-w"
  | WAll => STR "-Wall"
  | WExtra => STR "-Wextra"
  | WError => STR "-Werror"
  end.

Definition mem_str (s : str) (l : list str) : bool := existsb (str_eqb s) l.

Section Tables.
Variable fixed : bool.
Variable dfix : bool.               (* define with an explicitly empty value keeps it: -DNAME= *)
Variable pkgconf : bool.             (* mode == 'pkg-config' *)
Variable defaults : list str.        (* the compiler's default include directories (_search_dirs) *)

(* CcBaseCompiler._include_dir(directory, allow_system = not pkgconf) *)
Definition include_dir_flags (d : str) (system : bool) : list flag :=
  if mem_str d defaults then []
  else if negb pkgconf && system then [STR "-isystem"; d]
  else [STR "-I" ++ d].

(* one iteration of the loop of CcBaseCompiler.flags *)
Definition cc_flag1 (o : opt) : res (list flag) :=
  match o with
  | OInclude d sys => Ok (include_dir_flags d sys)
  | ODefine n (Some (c :: v)) => Ok [STR "-D" ++ n ++ STR "=" ++ c :: v]     (* if i.value: *)
  | ODefine n (Some []) => if dfix then Ok [STR "-D" ++ n ++ STR "="] else Ok [STR "-D" ++ n]
  | ODefine n None => Ok [STR "-D" ++ n]
  | OStd s => Ok [STR "-std=" ++ s]
  | OWarning l => Ok (map warn_flag l)
  | ODebug => Ok [STR "-g"]
  | OStatic => Ok []
  | OOptimize l => Ok (map (optimize_flag fixed) l)
  | OPthread => Ok [STR "-pthread"]
  | OPic => Ok [STR "-fPIC"]
  | OPch p => Ok [STR "-include"; p]
  | OSanitize => Ok [STR "-fsanitize=address"]
  | ORaw s => Ok [s]
  | OLibDir _ | OLib _ | OEntry _ | OGui _ | OLibLiteral _ => Err TypeErr
  end.

Fixpoint cc_flags (l : list opt) : res (list flag) :=
  match l with
  | [] => Ok []
  | o :: r =>
      match cc_flag1 o with
      | Err e => Err e
      | Ok f => match cc_flags r with Err e => Err e | Ok fr => Ok (f ++ fr) end
      end
  end.

(* CcLinker._extract_lib_name on the basename: the regex is  lib ANY dot a  or  lib ANY dot so, anchored at
   both ends, first alternative preferred *)
Fixpoint strip_prefix (p s : str) : option str :=
  match p, s with
  | [], _ => Some s
  | a :: p', b :: s' => if N.eqb a b then strip_prefix p' s' else None
  | _ :: _, [] => None
  end.

Definition strip_suffix (p s : str) : option str :=
  match strip_prefix (rev p) (rev s) with
  | Some r => Some (rev r)
  | None => None
  end.

Definition extract_lib_name (base : str) : option str :=
  match strip_prefix (STR "lib") base with
  | None => None
  | Some rest =>
      match strip_suffix (STR ".a") rest with
      | Some n => Some n
      | None => strip_suffix (STR ".so") rest
      end
  end.

Definition common_link (base : str) : res (list flag) :=
  match extract_lib_name base with
  | Some n => Ok [STR "-l" ++ n]
  | None => Err ValueErr
  end.

Definition lib_path (dir base : str) : str := dir ++ STR "/" ++ base.

(* CcLinker._link_lib(library, raw_link = not pkgconf) *)
Definition link_lib (k : libk) : res (list flag) :=
  match k with
  | LName n => Ok [STR "-l" ++ n]
  | LShared _ base => common_link base                   (* creator is None *)
  | LStatic dir base => if negb pkgconf then Ok [lib_path dir base] else common_link base
  end.

(* CcLinker._lib_dir(library, raw_link = not pkgconf) *)
Definition lib_dir_of (k : libk) : list str :=
  match k with
  | LName _ => []
  | LStatic dir _ => if negb pkgconf then [] else [dir]
  | LShared dir _ => [dir]
  end.

(* patchelf.local_rpath for an absolute, not installed library: the directory of its runtime file *)
Definition rpath_of (k : libk) : list str :=
  match k with
  | LShared dir _ => [dir]
  | _ => []
  end.

(* the per-option contributions of the loop of CcLinker.flags: plain flags, lib_dirs, rpaths *)
Definition ld_flag1 (o : opt) : res (list flag) :=
  match o with
  | OLibDir _ | OLib _ | OGui _ | OLibLiteral _ => Ok []
  | ODebug => Ok [STR "-g"]
  | OStatic => Ok [STR "-static"]
  | OOptimize l => Ok (map (optimize_flag fixed) l)
  | OPthread => Ok [STR "-pthread"]
  | OEntry s => Ok [STR "-Wl,-e," ++ s]
  | ORaw s => Ok [s]
  | OInclude _ _ | ODefine _ _ | OStd _ | OWarning _ | OPic | OPch _ | OSanitize => Err TypeErr
  end.

Definition ld_dirs1 (o : opt) : list str :=
  match o with
  | OLibDir d => [d]
  | OLib k => lib_dir_of k
  | _ => []
  end.

Definition ld_rpaths1 (o : opt) : list str :=
  match o with
  | OLib k => if pkgconf then [] else rpath_of k
  | _ => []
  end.

Fixpoint ld_plain (l : list opt) : res (list flag) :=
  match l with
  | [] => Ok []
  | o :: r =>
      match ld_flag1 o with
      | Err e => Err e
      | Ok f => match ld_plain r with Err e => Err e | Ok fr => Ok (f ++ fr) end
      end
  end.

(* iterutils.uniques: first occurrences, in order *)
Fixpoint uniques_acc (seen l : list str) : list str :=
  match l with
  | [] => []
  | x :: r => if mem_str x seen then uniques_acc seen r else x :: uniques_acc (x :: seen) r
  end.
Definition uniques (l : list str) : list str := uniques_acc [] l.

Fixpoint join_with (sep : str) (l : list str) : str :=
  match l with
  | [] => []
  | [x] => x
  | x :: r => x ++ sep ++ join_with sep r
  end.

Definition rpath_flags (rp : list str) : list flag :=
  match rp with
  | [] => []
  | _ => [STR "-Wl,-rpath," ++ join_with (STR ":") rp]
  end.

Definition ld_flags (l : list opt) : res (list flag) :=
  match ld_plain l with
  | Err e => Err e
  | Ok f => Ok (f ++ map (fun d => STR "-L" ++ d) (uniques (flat_map ld_dirs1 l))
                  ++ rpath_flags (flat_map ld_rpaths1 l))
  end.

Definition ld_lib1 (o : opt) : res (list flag) :=
  match o with
  | OLib k => link_lib k
  | OLibLiteral s => Ok [s]
  | _ => Ok []
  end.

Fixpoint ld_lib_flags (l : list opt) : res (list flag) :=
  match l with
  | [] => Ok []
  | o :: r =>
      match ld_lib1 o with
      | Err e => Err e
      | Ok f => match ld_lib_flags r with Err e => Err e | Ok fr => Ok (f ++ fr) end
      end
  end.

End Tables.

(* ------------------------------------------------------------------ option_list (W) *)

(* Option.__eq__: same class and equal slots; file objects compare by type and path only, so the
   [system] attribute of a HeaderDirectory does not take part *)
Definition key (o : opt) : opt :=
  match o with
  | OInclude d _ => OInclude d false
  | _ => o
  end.

Definition str_dec : forall a b : str, {a = b} + {a <> b} := list_eq_dec N.eq_dec.
Definition warn_dec : forall a b : warn, {a = b} + {a <> b}.
Proof. decide equality. Defined.
Definition optv_dec : forall a b : optv, {a = b} + {a <> b}.
Proof. decide equality. Defined.
Definition libk_dec : forall a b : libk, {a = b} + {a <> b}.
Proof. decide equality; apply str_dec. Defined.
Definition ostr_dec : forall a b : option str, {a = b} + {a <> b}.
Proof. decide equality; apply str_dec. Defined.
Definition opt_dec : forall a b : opt, {a = b} + {a <> b}.
Proof.
  decide equality; try apply str_dec; try apply Bool.bool_dec; try apply ostr_dec; try apply libk_dec.
  - apply (list_eq_dec warn_dec).
  - apply (list_eq_dec optv_dec).
Defined.

Definition opt_eqb (a b : opt) : bool := if opt_dec (key a) (key b) then true else false.

Definition is_raw (o : opt) : bool := match o with ORaw _ => true | _ => false end.

(* option_list.append *)
Definition ol_append (l : list opt) (o : opt) : list opt :=
  if is_raw o || negb (existsb (opt_eqb o) l) then l ++ [o] else l.

(* option_list.extend / collect over a flat sequence; the option_list constructor starts from [] *)
Definition ol_extend (l os : list opt) : list opt := fold_left ol_append os l.
Definition ol_make (os : list opt) : list opt := ol_extend [] os.
(* a + b for option_lists a, b: copy() (= option_list(a)) then extend(b) *)
Definition ol_add (a b : list opt) : list opt := ol_extend (ol_make a) b.

(* ------------------------------------------------------------------ merge (W) *)

Section Merge.
Variable fixed : bool.
Variable dfix : bool.
Variable defaults : list str.

(* builtins/compile.py _get_flags + BaseCompile.flags + CcBaseCompiler._call, with the Make/Ninja
   variables expanded:  GLOBAL_CFLAGS = global_flags (environment) + flags(global options)
                        CFLAGS        = GLOBAL_CFLAGS + flags(internal options + user options)
                        command       = cmd always_flags CFLAGS -c input [-MMD -MF deps] -o output *)
Definition cc_final (cmd always envf : list flag) (gopts internal user : list opt)
           (input output : str) (deps : option str) : res (list flag) :=
  match cc_flags fixed dfix false defaults gopts with
  | Err e => Err e
  | Ok gf =>
      match cc_flags fixed dfix false defaults (ol_add (ol_make internal) user) with
      | Err e => Err e
      | Ok tf =>
          Ok (cmd ++ always ++ (envf ++ gf) ++ tf ++ [STR "-c"; input]
                  ++ match deps with Some d => [STR "-MMD"; STR "-MF"; d] | None => [] end
                  ++ [STR "-o"; output])
      end
  end.

(* builtins/link.py _get_flags + DynamicLink.flags/lib_flags + CcLinker._call:
     command = cmd always_flags LDFLAGS inputs LDLIBS -o output *)
Definition ld_final (cmd always envf envlibs : list flag) (gopts internal user : list opt)
           (inputs : list str) (output : str) : res (list flag) :=
  let topts := ol_add (ol_make internal) user in
  match ld_flags fixed false gopts, ld_flags fixed false topts,
        ld_lib_flags false gopts, ld_lib_flags false topts with
  | Ok gf, Ok tf, Ok gl, Ok tl =>
      Ok (cmd ++ always ++ ((envf ++ gf) ++ tf) ++ inputs ++ ((envlibs ++ gl) ++ tl) ++ [STR "-o"; output])
  | Err e, _, _, _ => Err e
  | _, Err e, _, _ => Err e
  | _, _, Err e, _ => Err e
  | _, _, _, Err e => Err e
  end.

End Merge.

(* ------------------------------------------------------------------ accepted-flag grammar (R) *)

Inductive lang := LangC | LangCxx.

(* words taking no argument that gcc 12 and clang 14 accept for C and C++ *)
Definition finite_flags : list flag :=
  [STR "-w"; STR "-Wall"; STR "-Wextra"; STR "-Werror"; STR "-g"; STR "-fPIC"; STR "-pthread";
   STR "-fsanitize=address"; STR "-flto"; STR "-static";
   STR "-O0"; STR "-O1"; STR "-O2"; STR "-O3"; STR "-Os"; STR "-Og"; STR "-Ofast"; STR "-Oz"].

Definition c_stds : list str :=
  [STR "c89"; STR "c90"; STR "c99"; STR "c11"; STR "c17"; STR "c2x";
   STR "gnu89"; STR "gnu90"; STR "gnu99"; STR "gnu11"; STR "gnu17"; STR "gnu2x"].
Definition cxx_stds : list str :=
  [STR "c++98"; STR "c++03"; STR "c++11"; STR "c++14"; STR "c++17"; STR "c++20";
   STR "gnu++98"; STR "gnu++03"; STR "gnu++11"; STR "gnu++14"; STR "gnu++17"; STR "gnu++20"].
Definition stds (lg : lang) : list str := match lg with LangC => c_stds | LangCxx => cxx_stds end.

(* no NUL and no newline *)
Definition ok_char (c : char) : bool := negb (N.eqb c 0) && negb (N.eqb c 10).
Definition ok_text (s : str) : bool := forallb ok_char s.
Definition nonempty_text (s : str) : bool := match s with [] => false | _ => ok_text s end.

Definition ident_start (c : char) : bool := is_upper c || is_lower c || N.eqb c c_us.
Definition is_ident (s : str) : bool :=
  match s with
  | [] => false
  | c :: r => ident_start c && forallb is_ascii_word r
  end.

(* NAME or NAME=VALUE after -D *)
Fixpoint split_eq (s : str) : str * option str :=
  match s with
  | [] => ([], None)
  | c :: r => if N.eqb c c_eq then ([], Some r)
              else let p := split_eq r in (c :: fst p, snd p)
  end.

Definition define_ok (r : str) : bool :=
  let p := split_eq r in
  is_ident (fst p) && match snd p with None => true | Some v => ok_text v end.

Definition abs_path (s : str) : bool :=
  match s with
  | c :: r => N.eqb c c_slash && ok_text r
  | [] => false
  end.

(* a word that is complete by itself *)
Definition accepted1 (lg : lang) (f : flag) : bool :=
  match strip_prefix (STR "-I") f with Some d => nonempty_text d | None =>
  match strip_prefix (STR "-L") f with Some d => nonempty_text d | None =>
  match strip_prefix (STR "-l") f with Some n => nonempty_text n | None =>
  match strip_prefix (STR "-D") f with Some r => define_ok r | None =>
  match strip_prefix (STR "-Wl,") f with Some r => nonempty_text r | None =>
  match strip_prefix (STR "-std=") f with Some s => mem_str s (stds lg) | None =>
  match strip_prefix (STR "/") f with Some r => ok_text r | None =>       (* an input file by absolute path *)
  mem_str f finite_flags
  end end end end end end end.

(* words that take the next word as their argument *)
Definition two_word (f : flag) : bool := str_eqb f (STR "-isystem") || str_eqb f (STR "-include").

Fixpoint accepted_args (lg : lang) (l : list flag) : bool :=
  match l with
  | [] => true
  | f :: r =>
      if two_word f then
        match r with
        | a :: r' => nonempty_text a && accepted_args lg r'
        | [] => false
        end
      else accepted1 lg f && accepted_args lg r
  end.

(* R, effect side: the macro a -D word defines (gcc manual: -D name defines name as 1, -D name=def) *)
Definition macro_of_flag (f : flag) : option (str * str) :=
  match strip_prefix (STR "-D") f with
  | None => None
  | Some r => match split_eq r with
              | (n, None) => Some (n, STR "1")
              | (n, Some v) => Some (n, v)
              end
  end.

(* ------------------------------------------------------------------ well-formed (documented) options *)

(* the basename either is no library name at all (ValueError) or yields a non-empty name *)
Definition name_ok (b : str) : bool :=
  match extract_lib_name b with
  | Some n => nonempty_text n
  | None => true
  end.

Definition wf_libk (k : libk) : bool :=
  match k with
  | LName n => nonempty_text n
  | LStatic d b => abs_path d && nonempty_text b && name_ok b
  | LShared d b => abs_path d && nonempty_text b && name_ok b
  end.

Definition wf_option (lg : lang) (o : opt) : bool :=
  match o with
  | OInclude d _ => abs_path d
  | ODefine n v => is_ident n && match v with None => true | Some v => ok_text v end
  | OStd s => mem_str s (stds lg)
  | OWarning _ | ODebug | OStatic | OOptimize _ | OPthread | OPic | OSanitize | OGui _ => true
  | OPch p => abs_path p
  | OLibDir d => abs_path d
  | OLib k => wf_libk k
  | OEntry s => is_ident s
  | OLibLiteral s => accepted1 lg s && negb (two_word s)
  | ORaw s => accepted1 lg s && negb (two_word s)
  end.

(* the finite part of the option type, fully enumerated (every documented value of every option that
   takes no free-form argument; list-valued options are covered element-wise) *)
Definition all_warn : list warn := [WDisable; WAll; WExtra; WError].
Definition all_optv : list optv := [ODisable; OSize; OSpeed; OLinktime].
Definition finite_opts : list opt :=
  [ODebug; OStatic; OPthread; OPic; OSanitize; OGui false; OGui true; OWarning []; OOptimize []]
  ++ map (fun w => OWarning [w]) all_warn ++ map (fun o => OOptimize [o]) all_optv.

Definition res_accepted (lg : lang) (r : res (list flag)) : bool :=
  match r with
  | Ok fl => accepted_args lg fl
  | Err _ => true
  end.

(* everything the three tables produce for one option is inside the grammar *)
Definition check_opt (fixed dfix pkgconf : bool) (defaults : list str) (lg : lang) (o : opt) : bool :=
  res_accepted lg (cc_flags fixed dfix pkgconf defaults [o])
  && res_accepted lg (ld_flags fixed pkgconf [o])
  && res_accepted lg (ld_lib_flags pkgconf [o]).
