(* Proofs about Misc/Options.v (property C16). *)
From Coq Require Import String.
From BFG Require Import Base.Chars Misc.Options.
Local Open Scope N_scope.

(* ------------------------------------------------------------------ small facts about characters and text *)

Lemma word_ok_char c : is_ascii_word c = true -> ok_char c = true.
Proof.
  intros H. unfold ok_char.
  destruct (N.eqb_spec c 0) as [->|_]; [vm_compute in H; discriminate|].
  destruct (N.eqb_spec c 10) as [->|_]; [vm_compute in H; discriminate|]. reflexivity.
Qed.

Lemma word_not_eq c : is_ascii_word c = true -> N.eqb c c_eq = false.
Proof.
  intros H. destruct (N.eqb_spec c c_eq) as [->|_]; [vm_compute in H; discriminate|reflexivity].
Qed.

Lemma ident_start_word c : ident_start c = true -> is_ascii_word c = true.
Proof.
  unfold ident_start, is_ascii_word. intros H.
  destruct (is_digit c), (is_upper c), (is_lower c), (N.eqb c c_us); cbn in *; congruence.
Qed.

Lemma ident_words s : is_ident s = true -> forallb is_ascii_word s = true.
Proof.
  destruct s as [|c r]; [discriminate|]. cbn. intros H. apply andb_true_iff in H as [H1 H2].
  now rewrite (ident_start_word _ H1), H2.
Qed.

Lemma words_ok_text s : forallb is_ascii_word s = true -> ok_text s = true.
Proof.
  induction s as [|c r IH]; [reflexivity|]. unfold ok_text in *. cbn [forallb]. intros H.
  apply andb_true_iff in H as [H1 H2]. now rewrite (word_ok_char _ H1), (IH H2).
Qed.

Lemma ident_nonempty s : is_ident s = true -> nonempty_text s = true.
Proof.
  intros H. pose proof (words_ok_text _ (ident_words _ H)) as K.
  destruct s; [discriminate|exact K].
Qed.

Lemma ok_text_app a b : ok_text (a ++ b) = ok_text a && ok_text b.
Proof. apply forallb_app. Qed.

Lemma abs_path_inv d : abs_path d = true -> exists r, d = c_slash :: r /\ ok_text r = true.
Proof.
  destruct d as [|c r]; [discriminate|]. cbn. intros H. apply andb_true_iff in H as [H1 H2].
  apply N.eqb_eq in H1. subst. now exists r.
Qed.

Lemma abs_ok_text d : abs_path d = true -> ok_text d = true.
Proof. intros H. destruct (abs_path_inv _ H) as [r [-> K]]. cbn. exact K. Qed.

Lemma abs_nonempty d : abs_path d = true -> nonempty_text d = true.
Proof. intros H. destruct (abs_path_inv _ H) as [r [-> K]]. cbn. exact K. Qed.

Lemma nonempty_ok s : nonempty_text s = true -> ok_text s = true.
Proof. destruct s; [discriminate|trivial]. Qed.

Lemma split_eq_words n : forallb is_ascii_word n = true -> split_eq n = (n, None).
Proof.
  induction n as [|c r IH]; [reflexivity|]. cbn [forallb split_eq]. intros H.
  apply andb_true_iff in H as [H1 H2]. rewrite (word_not_eq _ H1), (IH H2). reflexivity.
Qed.

Lemma split_eq_words_eq n v : forallb is_ascii_word n = true -> split_eq (n ++ c_eq :: v) = (n, Some v).
Proof.
  induction n as [|c r IH]; [reflexivity|]. cbn [forallb split_eq app]. intros H.
  apply andb_true_iff in H as [H1 H2]. rewrite (word_not_eq _ H1), (IH H2). reflexivity.
Qed.

(* ------------------------------------------------------------------ the argv parser and concatenation *)

Definition single (lg : lang) (f : flag) : bool := negb (two_word f) && accepted1 lg f.

Lemma accepted_app lg b : forall n a, (length a <= n)%nat -> accepted_args lg a = true ->
  accepted_args lg (a ++ b) = accepted_args lg b.
Proof.
  induction n as [|n IH]; intros a Hl Ha.
  - destruct a; [reflexivity|cbn in Hl; lia].
  - destruct a as [|f r]; [reflexivity|]. cbn [app]. cbn [accepted_args] in *.
    destruct (two_word f).
    + destruct r as [|x r']; [discriminate|]. cbn [app].
      apply andb_true_iff in Ha as [H1 H2]. rewrite H1. cbn [andb].
      apply IH; [cbn in Hl; lia|exact H2].
    + apply andb_true_iff in Ha as [H1 H2]. rewrite H1. cbn [andb].
      apply IH; [cbn in Hl; lia|exact H2].
Qed.

Lemma accepted_app_true lg a b : accepted_args lg a = true -> accepted_args lg b = true ->
  accepted_args lg (a ++ b) = true.
Proof. intros Ha Hb. rewrite (accepted_app lg b (length a) a (le_n _) Ha). exact Hb. Qed.

Lemma accepted_singles lg l : forallb (single lg) l = true -> accepted_args lg l = true.
Proof.
  induction l as [|f r IH]; [reflexivity|]. cbn [forallb accepted_args]. intros H.
  apply andb_true_iff in H as [H1 H2]. unfold single in H1. apply andb_true_iff in H1 as [H0 H1].
  apply negb_true_iff in H0. rewrite H0, H1. cbn. auto.
Qed.

Lemma accepted_single lg f : single lg f = true -> accepted_args lg [f] = true.
Proof. intros H. apply accepted_singles. cbn. now rewrite H. Qed.

(* ------------------------------------------------------------------ finite part: by enumeration *)

Lemma all_warn_complete w : In w all_warn.
Proof. destruct w; cbn; auto 6. Qed.
Lemma all_optv_complete o : In o all_optv.
Proof. destruct o; cbn; auto 6. Qed.

Lemma warn_enum : forallb (fun lg => forallb (fun w => single lg (warn_flag w)) all_warn) [LangC; LangCxx] = true.
Proof. vm_compute. reflexivity. Qed.
Lemma optv_enum : forallb (fun lg => forallb (fun o => single lg (optimize_flag true o)) all_optv)
                    [LangC; LangCxx] = true.
Proof. vm_compute. reflexivity. Qed.

Lemma lang_in lg : In lg [LangC; LangCxx].
Proof. destruct lg; cbn; auto. Qed.

Lemma warn_single lg w : single lg (warn_flag w) = true.
Proof.
  pose proof warn_enum as H. rewrite forallb_forall in H. specialize (H lg (lang_in lg)).
  rewrite forallb_forall in H. exact (H w (all_warn_complete w)).
Qed.

Lemma optv_single lg o : single lg (optimize_flag true o) = true.
Proof.
  pose proof optv_enum as H. rewrite forallb_forall in H. specialize (H lg (lang_in lg)).
  rewrite forallb_forall in H. exact (H o (all_optv_complete o)).
Qed.

Lemma map_singles {A} lg (f : A -> flag) l : (forall x, single lg (f x) = true) ->
  accepted_args lg (map f l) = true.
Proof.
  intros H. apply accepted_singles. rewrite forallb_forall. intros x Hx.
  apply in_map_iff in Hx as [y [<- _]]. apply H.
Qed.

(* the whole finite enumeration, both languages, both modes, all three tables *)
Lemma finite_enum_check :
  forallb (fun lg => forallb (fun dfix => forallb (fun pk => forallb (check_opt true dfix pk [] lg) finite_opts)
                                                  [false; true]) [false; true])
          [LangC; LangCxx] = true.
Proof. vm_compute. reflexivity. Qed.

Lemma finite_opts_accepted lg dfix pk o : In o finite_opts -> check_opt true dfix pk [] lg o = true.
Proof.
  intros Ho. pose proof finite_enum_check as H. rewrite forallb_forall in H.
  specialize (H lg (lang_in lg)). rewrite forallb_forall in H.
  assert (Hd : In dfix [false; true]) by (destruct dfix; cbn; auto).
  specialize (H dfix Hd). rewrite forallb_forall in H.
  assert (Hp : In pk [false; true]) by (destruct pk; cbn; auto).
  specialize (H pk Hp). rewrite forallb_forall in H. exact (H o Ho).
Qed.

(* ------------------------------------------------------------------ parameterised part *)

Section Param.
Variable lg : lang.
Variable dfix : bool.
Variable pk : bool.
Variable defaults : list str.

Lemma I_single d : nonempty_text d = true -> single lg (STR "-I" ++ d) = true.
Proof. intros H. unfold single, accepted1. cbn. exact H. Qed.

Lemma L_single d : nonempty_text d = true -> single lg (STR "-L" ++ d) = true.
Proof. intros H. unfold single, accepted1. cbn. exact H. Qed.

Lemma l_single d : nonempty_text d = true -> single lg (STR "-l" ++ d) = true.
Proof. intros H. unfold single, accepted1. cbn. exact H. Qed.

Lemma Wl_single r : nonempty_text r = true -> single lg (STR "-Wl," ++ r) = true.
Proof. intros H. unfold single, accepted1. cbn. exact H. Qed.

Lemma std_single s : mem_str s (stds lg) = true -> single lg (STR "-std=" ++ s) = true.
Proof. intros H. unfold single, accepted1. cbn. exact H. Qed.

Lemma D_single r : define_ok r = true -> single lg (STR "-D" ++ r) = true.
Proof. intros H. unfold single, accepted1. cbn. exact H. Qed.

Lemma path_single r : ok_text r = true -> single lg (c_slash :: r) = true.
Proof. intros H. unfold single, accepted1. cbn. exact H. Qed.

Lemma two_word_arg w a : two_word w = true -> nonempty_text a = true -> accepted_args lg [w; a] = true.
Proof. intros H1 H2. cbn [accepted_args]. rewrite H1, H2. reflexivity. Qed.

Lemma cc_flag1_accepted o fl : wf_option lg o = true -> cc_flag1 true dfix pk defaults o = Ok fl ->
  accepted_args lg fl = true.
Proof.
  intros Hwf H. destruct o; cbn [cc_flag1 wf_option] in *; try discriminate; inversion H; subst; clear H.
  - (* include *)
    unfold include_dir_flags. destruct (mem_str dir defaults); [reflexivity|].
    destruct (negb pk && system).
    + apply two_word_arg; [reflexivity|now apply abs_nonempty].
    + apply accepted_single, I_single. now apply abs_nonempty.
  - (* define *)
    apply andb_true_iff in Hwf as [Hn Hv]. pose proof (ident_words _ Hn) as Hw.
    assert (Hbare : accepted_args lg [STR "-D" ++ n] = true).
    { apply accepted_single, D_single. unfold define_ok. rewrite (split_eq_words _ Hw). cbn. now rewrite Hn. }
    destruct v as [[|c v]|]; [destruct dfix| |]; inversion H1; subst; try exact Hbare.
    { apply accepted_single. change (STR "-D" ++ n ++ STR "=") with (STR "-D" ++ (n ++ c_eq :: [])).
      apply D_single. unfold define_ok. rewrite (split_eq_words_eq _ _ Hw). cbn [fst snd]. now rewrite Hn. }
    apply accepted_single.
    change (STR "-D" ++ n ++ STR "=" ++ c :: v) with (STR "-D" ++ (n ++ c_eq :: c :: v)).
    apply D_single. unfold define_ok. rewrite (split_eq_words_eq _ _ Hw). cbn [fst snd]. now rewrite Hn, Hv.
  - (* std *) apply accepted_single, std_single. exact Hwf.
  - (* warning *) apply map_singles. intros w. apply warn_single.
  - (* debug *) destruct lg; reflexivity.
  - reflexivity.
  - (* optimize *) apply map_singles. intros w. apply optv_single.
  - destruct lg; reflexivity.
  - destruct lg; reflexivity.
  - (* pch *) apply two_word_arg; [reflexivity|now apply abs_nonempty].
  - destruct lg; reflexivity.
  - (* raw *) apply accepted_single. unfold single. apply andb_true_iff in Hwf as [H1 H2]. now rewrite H1, H2.
Qed.

Lemma cc_flags_accepted l : Forall (fun o => wf_option lg o = true) l ->
  res_accepted lg (cc_flags true dfix pk defaults l) = true.
Proof.
  induction 1 as [|o r Ho Hr IH]; [reflexivity|]. cbn [cc_flags].
  destruct (cc_flag1 true dfix pk defaults o) as [f|] eqn:E1; [|reflexivity].
  destruct (cc_flags true dfix pk defaults r) as [fr|]; [|reflexivity].
  cbn in *. apply accepted_app_true; [eapply cc_flag1_accepted; eauto|exact IH].
Qed.

Lemma ld_flag1_accepted o fl : wf_option lg o = true -> ld_flag1 true o = Ok fl -> accepted_args lg fl = true.
Proof.
  intros Hwf H. destruct o; cbn [ld_flag1 wf_option] in *; try discriminate; inversion H; subst; clear H;
    try reflexivity; try (destruct lg; reflexivity).
  - apply map_singles. intros w. apply optv_single.
  - (* entry *)
    apply accepted_single.
    change (STR "-Wl,-e," ++ s) with (STR "-Wl," ++ (STR "-e," ++ s)). apply Wl_single.
    pose proof (words_ok_text _ (ident_words _ Hwf)) as K. cbn. exact K.
  - apply accepted_single. unfold single. apply andb_true_iff in Hwf as [H1 H2]. now rewrite H1, H2.
Qed.

Lemma ld_plain_accepted l : Forall (fun o => wf_option lg o = true) l ->
  res_accepted lg (ld_plain true l) = true.
Proof.
  induction 1 as [|o r Ho Hr IH]; [reflexivity|]. cbn [ld_plain].
  destruct (ld_flag1 true o) as [f|] eqn:E1; [|reflexivity].
  destruct (ld_plain true r) as [fr|]; [|reflexivity].
  cbn in *. apply accepted_app_true; [eapply ld_flag1_accepted; eauto|exact IH].
Qed.

Lemma uniques_acc_incl seen l x : In x (uniques_acc seen l) -> In x l.
Proof.
  revert seen. induction l as [|y r IH]; intros seen; [trivial|]. cbn.
  destruct (mem_str y seen); [intros H; right; eauto|]. intros [->|H]; [now left|right; eauto].
Qed.

Lemma ld_dirs_abs l d : Forall (fun o => wf_option lg o = true) l -> In d (flat_map (ld_dirs1 pk) l) ->
  abs_path d = true.
Proof.
  induction 1 as [|o r Ho Hr IH]; [intros []|]. cbn [flat_map]. intros H. apply in_app_or in H as [H|H]; [|auto].
  destruct o; cbn in H; try contradiction.
  - destruct H as [<-|[]]. exact Ho.
  - destruct k; cbn in *; try contradiction.
    + destruct (negb pk); [contradiction|]. destruct H as [<-|[]].
      apply andb_true_iff in Ho as [Ho _]. now apply andb_true_iff in Ho as [Ho _].
    + destruct H as [<-|[]]. apply andb_true_iff in Ho as [Ho _]. now apply andb_true_iff in Ho as [Ho _].
Qed.

Lemma ld_rpaths_abs l d : Forall (fun o => wf_option lg o = true) l -> In d (flat_map (ld_rpaths1 pk) l) ->
  abs_path d = true.
Proof.
  induction 1 as [|o r Ho Hr IH]; [intros []|]. cbn [flat_map]. intros H. apply in_app_or in H as [H|H]; [|auto].
  destruct o; cbn in H; try contradiction. destruct pk; [contradiction|].
  destruct k; cbn in *; try contradiction.
  destruct H as [<-|[]]. apply andb_true_iff in Ho as [Ho _]. now apply andb_true_iff in Ho as [Ho _].
Qed.

Lemma join_ok l : (forall d, In d l -> ok_text d = true) -> ok_text (join_with (STR ":") l) = true.
Proof.
  induction l as [|x r IH]; intros H; [reflexivity|]. cbn [join_with].
  destruct r as [|y r']; [apply H; now left|].
  rewrite !ok_text_app. rewrite (H x (or_introl eq_refl)). cbn [andb].
  rewrite IH; [reflexivity|]. intros d Hd. apply H. now right.
Qed.

Lemma rpath_accepted rp : (forall d, In d rp -> abs_path d = true) -> accepted_args lg (rpath_flags rp) = true.
Proof.
  intros H. destruct rp as [|x r]; [reflexivity|]. unfold rpath_flags.
  apply accepted_single.
  change (STR "-Wl,-rpath," ++ join_with (STR ":") (x :: r))
    with (STR "-Wl," ++ (STR "-rpath," ++ join_with (STR ":") (x :: r))).
  apply Wl_single. cbn [str_of_string app nonempty_text]. cbn [ok_text forallb].
  change (forallb ok_char (join_with (STR ":") (x :: r))) with (ok_text (join_with (STR ":") (x :: r))).
  rewrite join_ok; [reflexivity|]. intros d Hd. apply abs_ok_text. auto.
Qed.

Lemma map_singles_in {A} (f : A -> flag) l : (forall x, In x l -> single lg (f x) = true) ->
  accepted_args lg (map f l) = true.
Proof.
  intros H. apply accepted_singles. rewrite forallb_forall. intros x Hx.
  apply in_map_iff in Hx as [y [<- Hy]]. now apply H.
Qed.

Lemma ld_flags_accepted l : Forall (fun o => wf_option lg o = true) l ->
  res_accepted lg (ld_flags true pk l) = true.
Proof.
  intros Hwf. unfold ld_flags. pose proof (ld_plain_accepted l Hwf) as Hp.
  destruct (ld_plain true l) as [f|]; [|reflexivity]. cbn [res_accepted] in *.
  apply accepted_app_true; [exact Hp|]. apply accepted_app_true.
  - apply map_singles_in. intros d Hd. apply L_single, abs_nonempty.
    apply (ld_dirs_abs l d Hwf). unfold uniques in Hd. eapply uniques_acc_incl; eauto.
  - apply rpath_accepted. intros d Hd. exact (ld_rpaths_abs l d Hwf Hd).
Qed.

Lemma common_link_accepted b fl : name_ok b = true -> common_link b = Ok fl -> accepted_args lg fl = true.
Proof.
  unfold name_ok, common_link. destruct (extract_lib_name b) as [n|]; [|discriminate].
  intros Hn H. inversion H; subst. apply accepted_single, l_single. exact Hn.
Qed.

Lemma ld_lib1_accepted o fl : wf_option lg o = true -> ld_lib1 pk o = Ok fl -> accepted_args lg fl = true.
Proof.
  intros Hwf H. destruct o; cbn [ld_lib1 wf_option] in *; try (inversion H; subst; reflexivity).
  - destruct k; cbn [link_lib wf_libk] in *.
    + inversion H; subst. apply accepted_single, l_single. exact Hwf.
    + apply andb_true_iff in Hwf as [Hwf Hn]. apply andb_true_iff in Hwf as [Hd Hb].
      destruct (negb pk); [|eapply common_link_accepted; eauto].
      inversion H; subst. destruct (abs_path_inv _ Hd) as [r [-> Hr]].
      apply accepted_single. unfold lib_path. cbn [app]. apply path_single.
      rewrite !ok_text_app, Hr, (nonempty_ok _ Hb). reflexivity.
    + apply andb_true_iff in Hwf as [Hwf Hn]. eapply common_link_accepted; eauto.
  - inversion H; subst. apply accepted_single. unfold single.
    apply andb_true_iff in Hwf as [H1 H2]. now rewrite H1, H2.
Qed.

Lemma ld_lib_flags_accepted l : Forall (fun o => wf_option lg o = true) l ->
  res_accepted lg (ld_lib_flags pk l) = true.
Proof.
  induction 1 as [|o r Ho Hr IH]; [reflexivity|]. cbn [ld_lib_flags].
  destruct (ld_lib1 pk o) as [f|] eqn:E1; [|reflexivity].
  destruct (ld_lib_flags pk r) as [fr|]; [|reflexivity].
  cbn in *. apply accepted_app_true; [eapply ld_lib1_accepted; eauto|exact IH].
Qed.

End Param.

(* the statement of C16_accepted *)
Theorem accepted_all lg dfix pk defaults l : Forall (fun o => wf_option lg o = true) l ->
  res_accepted lg (cc_flags true dfix pk defaults l) = true /\
  res_accepted lg (ld_flags true pk l) = true /\
  res_accepted lg (ld_lib_flags pk l) = true.
Proof.
  intros H. split; [|split].
  - now apply cc_flags_accepted.
  - now apply ld_flags_accepted.
  - now apply ld_lib_flags_accepted.
Qed.

(* non-vacuity: which options each table translates (no error) *)
Definition compile_side (o : opt) : bool :=
  match o with
  | OLibDir _ | OLib _ | OEntry _ | OGui _ | OLibLiteral _ => false
  | _ => true
  end.
Definition link_side (o : opt) : bool :=
  match o with
  | OInclude _ _ | ODefine _ _ | OStd _ | OWarning _ | OPic | OPch _ | OSanitize => false
  | _ => true
  end.

Lemma cc_flags_total fixed dfix pk defaults l : forallb compile_side l = true ->
  exists fl, cc_flags fixed dfix pk defaults l = Ok fl.
Proof.
  induction l as [|o r IH]; [now exists []|]. cbn [forallb cc_flags]. intros H.
  apply andb_true_iff in H as [H1 H2]. destruct (IH H2) as [fr ->].
  destruct o; try discriminate; cbn [cc_flag1]; try (eexists; reflexivity).
  destruct v as [[|c v]|]; [destruct dfix| |]; eexists; reflexivity.
Qed.

Lemma ld_flags_total fixed pk l : forallb link_side l = true -> exists fl, ld_flags fixed pk l = Ok fl.
Proof.
  intros H. unfold ld_flags.
  assert (K : exists f, ld_plain fixed l = Ok f).
  { induction l as [|o r IH]; [now exists []|]. cbn [forallb ld_plain] in *.
    apply andb_true_iff in H as [H1 H2]. destruct (IH H2) as [fr ->].
    destruct o; try discriminate; cbn [ld_flag1]; eexists; reflexivity. }
  destruct K as [f ->]. eexists; reflexivity.
Qed.

(* the table as originally written leaves the grammar *)
Lemma accepted_refuted : exists lg o,
  wf_option lg o = true /\ compile_side o = true /\ link_side o = true /\
  res_accepted lg (cc_flags false false false [] [o]) = false /\
  res_accepted lg (ld_flags false false [o]) = false.
Proof. exists LangC, (OOptimize [OSize]). vm_compute. auto. Qed.

(* ------------------------------------------------------------------ merge order *)

Lemma cc_flags_app fixed dfix pk defaults a b fa fb :
  cc_flags fixed dfix pk defaults a = Ok fa -> cc_flags fixed dfix pk defaults b = Ok fb ->
  cc_flags fixed dfix pk defaults (a ++ b) = Ok (fa ++ fb).
Proof.
  revert fa. induction a as [|o r IH]; intros fa Ha Hb.
  - inversion Ha; subst. exact Hb.
  - cbn [app cc_flags] in *. destruct (cc_flag1 fixed dfix pk defaults o) as [f|]; [|discriminate].
    destruct (cc_flags fixed dfix pk defaults r) as [fr|] eqn:E; [|discriminate].
    inversion Ha; subst. rewrite (IH fr eq_refl Hb). now rewrite app_assoc.
Qed.

Theorem cc_merge_order fixed dfix defaults cmd always envf gopts internal user input output deps argv :
  cc_final fixed dfix defaults cmd always envf gopts internal user input output deps = Ok argv ->
  exists gf tf tail,
    cc_flags fixed dfix false defaults gopts = Ok gf /\
    cc_flags fixed dfix false defaults (ol_add (ol_make internal) user) = Ok tf /\
    argv = cmd ++ always ++ envf ++ gf ++ tf ++ STR "-c" :: input :: tail.
Proof.
  unfold cc_final. intros H.
  destruct (cc_flags fixed dfix false defaults gopts) as [gf|]; [|discriminate].
  destruct (cc_flags fixed dfix false defaults (ol_add (ol_make internal) user)) as [tf|]; [|discriminate].
  inversion H; subst. exists gf, tf. eexists. split; [reflexivity|]. split; [reflexivity|].
  rewrite <- !app_assoc. reflexivity.
Qed.

(* consequence: every flag of the per-target options comes after every environment and global flag *)
Theorem cc_target_last fixed dfix defaults cmd always envf gopts internal user input output deps argv x y :
  cc_final fixed dfix defaults cmd always envf gopts internal user input output deps = Ok argv ->
  forall gf tf, cc_flags fixed dfix false defaults gopts = Ok gf ->
    cc_flags fixed dfix false defaults (ol_add (ol_make internal) user) = Ok tf ->
    In x (envf ++ gf) -> In y tf ->
    exists p m s, argv = p ++ x :: m ++ y :: s.
Proof.
  intros H gf tf Hg Ht Hx Hy.
  destruct (cc_merge_order _ _ _ _ _ _ _ _ _ _ _ _ _ H) as [gf' [tf' [tail [Hg' [Ht' ->]]]]].
  rewrite Hg in Hg'. rewrite Ht in Ht'. inversion Hg'; inversion Ht'; subst.
  apply in_split in Hx as [x1 [x2 Ex]]. apply in_split in Hy as [y1 [y2 ->]].
  exists (cmd ++ always ++ x1), (x2 ++ y1), (y2 ++ STR "-c" :: input :: tail).
  rewrite (app_assoc envf gf'), Ex. rewrite <- ?app_assoc. cbn [app]. rewrite <- ?app_assoc. reflexivity.
Qed.

Theorem ld_merge_order fixed cmd always envf envlibs gopts internal user inputs output argv :
  ld_final fixed cmd always envf envlibs gopts internal user inputs output = Ok argv ->
  exists gf tf gl tl,
    ld_flags fixed false gopts = Ok gf /\ ld_flags fixed false (ol_add (ol_make internal) user) = Ok tf /\
    ld_lib_flags false gopts = Ok gl /\ ld_lib_flags false (ol_add (ol_make internal) user) = Ok tl /\
    argv = cmd ++ always ++ envf ++ gf ++ tf ++ inputs ++ envlibs ++ gl ++ tl ++ [STR "-o"; output].
Proof.
  unfold ld_final. intros H.
  destruct (ld_flags fixed false gopts) as [gf|]; [|discriminate].
  destruct (ld_flags fixed false (ol_add (ol_make internal) user)) as [tf|];
    [|destruct (ld_lib_flags false gopts); discriminate].
  destruct (ld_lib_flags false gopts) as [gl|]; [|discriminate].
  destruct (ld_lib_flags false (ol_add (ol_make internal) user)) as [tl|]; [|discriminate].
  inversion H; subst. exists gf, tf, gl, tl. repeat (split; [reflexivity|]).
  rewrite <- !app_assoc. reflexivity.
Qed.

(* ------------------------------------------------------------------ option_list de-duplication *)

Lemma opt_eqb_refl o : opt_eqb o o = true.
Proof. unfold opt_eqb. destruct (opt_dec (key o) (key o)); congruence. Qed.
Lemma opt_eqb_sym a b : opt_eqb a b = opt_eqb b a.
Proof. unfold opt_eqb. destruct (opt_dec (key a) (key b)), (opt_dec (key b) (key a)); congruence. Qed.
Lemma opt_eqb_trans a b c : opt_eqb a b = true -> opt_eqb b c = true -> opt_eqb a c = true.
Proof.
  unfold opt_eqb. destruct (opt_dec (key a) (key b)), (opt_dec (key b) (key c)), (opt_dec (key a) (key c));
    congruence.
Qed.

(* the fold written as a recursion that keeps first occurrences *)
Fixpoint firsts (acc l : list opt) : list opt :=
  match l with
  | [] => []
  | o :: r => if is_raw o || negb (existsb (opt_eqb o) acc) then o :: firsts (acc ++ [o]) r else firsts acc r
  end.

Lemma ol_extend_firsts l : forall acc, ol_extend acc l = acc ++ firsts acc l.
Proof.
  induction l as [|o r IH]; intros acc; [now rewrite app_nil_r|].
  unfold ol_extend in *. cbn [fold_left firsts]. rewrite IH. unfold ol_append.
  destruct (is_raw o || negb (existsb (opt_eqb o) acc)); [now rewrite <- app_assoc|reflexivity].
Qed.

Lemma ol_make_firsts l : ol_make l = firsts [] l.
Proof. unfold ol_make. now rewrite ol_extend_firsts. Qed.

Inductive subseq {A} : list A -> list A -> Prop :=
| sub_nil : subseq [] []
| sub_keep x a b : subseq a b -> subseq (x :: a) (x :: b)
| sub_drop x a b : subseq a b -> subseq a (x :: b).

Lemma firsts_subseq l : forall acc, subseq (firsts acc l) l.
Proof.
  induction l as [|o r IH]; intros acc; [constructor|]. cbn [firsts].
  destruct (is_raw o || negb (existsb (opt_eqb o) acc)); constructor; apply IH.
Qed.

Lemma subseq_In {A} (a b : list A) x : subseq a b -> In x a -> In x b.
Proof. induction 1; cbn; intuition. Qed.

(* order kept, nothing invented *)
Theorem dedup_subseq l : subseq (ol_make l) l.
Proof. rewrite ol_make_firsts. apply firsts_subseq. Qed.

(* the first occurrence of every option, and every plain string, survives *)
Lemma firsts_keeps l2 : forall l1 acc o,
  is_raw o = true \/ existsb (opt_eqb o) (acc ++ l1) = false ->
  In o (firsts acc (l1 ++ o :: l2)).
Proof.
  induction l1 as [|p r IH]; intros acc o H.
  - cbn [app firsts]. rewrite app_nil_r in H.
    destruct H as [-> | ->]; cbn; [now left|]. rewrite orb_true_r. now left.
  - cbn [app firsts].
    destruct (is_raw p || negb (existsb (opt_eqb p) acc)) eqn:E.
    + right. apply IH. destruct H as [H|H]; [now left|right]. now rewrite <- app_assoc.
    + apply IH. destruct H as [H|H]; [now left|right]. rewrite existsb_app in *. cbn [existsb] in H.
      apply orb_false_iff in H as [H1 H2]. apply orb_false_iff in H2 as [_ H2]. now rewrite H1, H2.
Qed.

Theorem dedup_keeps_first l1 o l2 :
  is_raw o = true \/ existsb (opt_eqb o) l1 = false -> In o (ol_make (l1 ++ o :: l2)).
Proof. intros H. rewrite ol_make_firsts. now apply firsts_keeps. Qed.

(* whatever is dropped has an equal option that is kept *)
Lemma firsts_complete l : forall acc o, In o l -> existsb (opt_eqb o) (acc ++ firsts acc l) = true.
Proof.
  induction l as [|p r IH]; intros acc o []; cbn [firsts].
  - subst p. destruct (is_raw o || negb (existsb (opt_eqb o) acc)) eqn:E.
    + rewrite existsb_app. cbn [existsb]. now rewrite opt_eqb_refl, orb_true_r.
    + apply orb_false_iff in E as [_ E]. apply negb_false_iff in E.
      rewrite existsb_app, E. reflexivity.
  - destruct (is_raw p || negb (existsb (opt_eqb p) acc)).
    + specialize (IH (acc ++ [p]) o H). now rewrite <- app_assoc in IH.
    + now apply IH.
Qed.

Theorem dedup_complete l o : In o l -> existsb (opt_eqb o) (ol_make l) = true.
Proof. intros H. rewrite ol_make_firsts. exact (firsts_complete l [] o H). Qed.

(* no effect at all on a list without repeated options *)
Fixpoint no_repeat (acc l : list opt) : bool :=
  match l with
  | [] => true
  | o :: r => (is_raw o || negb (existsb (opt_eqb o) acc)) && no_repeat (acc ++ [o]) r
  end.

Lemma firsts_id l : forall acc, no_repeat acc l = true -> firsts acc l = l.
Proof.
  induction l as [|o r IH]; intros acc H; [reflexivity|]. cbn [no_repeat firsts] in *.
  apply andb_true_iff in H as [H1 H2]. rewrite H1. now rewrite IH.
Qed.

Theorem dedup_id l : no_repeat [] l = true -> ol_make l = l.
Proof. intros H. rewrite ol_make_firsts. now apply firsts_id. Qed.

(* no new flags appear: the flags after de-duplication are a subsequence of the flags before *)
Lemma subseq_app {A} (a b c d : list A) : subseq a b -> subseq c d -> subseq (a ++ c) (b ++ d).
Proof. induction 1; cbn; intros K; auto; constructor; auto. Qed.

Lemma subseq_refl {A} (a : list A) : subseq a a.
Proof. induction a; constructor; auto. Qed.

Lemma subseq_nil {A} (a : list A) : subseq [] a.
Proof. induction a; constructor; auto. Qed.

Lemma cc_flags_subseq fixed dfix pk defaults a b : subseq a b -> forall fb, cc_flags fixed dfix pk defaults b = Ok fb ->
  exists fa, cc_flags fixed dfix pk defaults a = Ok fa /\ subseq fa fb.
Proof.
  induction 1 as [|x a b H IH|x a b H IH]; intros fb Hb.
  - inversion Hb; subst. exists []. split; [reflexivity|constructor].
  - cbn [cc_flags] in *. destruct (cc_flag1 fixed dfix pk defaults x) as [f|]; [|discriminate].
    destruct (cc_flags fixed dfix pk defaults b) as [fr|]; [|discriminate]. inversion Hb; subst.
    destruct (IH fr eq_refl) as [fa [-> Hs]]. exists (f ++ fa). split; [reflexivity|].
    apply subseq_app; [apply subseq_refl|exact Hs].
  - cbn [cc_flags] in Hb. destruct (cc_flag1 fixed dfix pk defaults x) as [f|]; [|discriminate].
    destruct (cc_flags fixed dfix pk defaults b) as [fr|]; [|discriminate]. inversion Hb; subst.
    destruct (IH fr eq_refl) as [fa [-> Hs]]. exists fa. split; [reflexivity|].
    change fa with ([] ++ fa). apply subseq_app; [apply subseq_nil|exact Hs].
Qed.

Theorem dedup_flags_subseq fixed dfix pk defaults l fl : cc_flags fixed dfix pk defaults l = Ok fl ->
  exists fd, cc_flags fixed dfix pk defaults (ol_make l) = Ok fd /\ subseq fd fl.
Proof. apply cc_flags_subseq, dedup_subseq. Qed.

(* but the LAST occurrence is what is dropped: a re-asserted option loses its place *)
Lemma dedup_last_refuted : exists l fa fb,
  cc_flags true false false [] l = Ok fa /\ cc_flags true false false [] (ol_make l) = Ok fb /\
  last fa [] = STR "-O3" /\ last fb [] = STR "-O0".
Proof.
  exists [OOptimize [OSpeed]; OOptimize [ODisable]; OOptimize [OSpeed]]. eexists. eexists.
  vm_compute. repeat split.
Qed.

(* ------------------------------------------------------------------ effect of define (R: macro_of_flag) *)

Theorem define_effect fixed dfix pk defaults n v :
  is_ident n = true -> v <> [] ->
  exists f, cc_flag1 fixed dfix pk defaults (ODefine n (Some v)) = Ok [f] /\ macro_of_flag f = Some (n, v).
Proof.
  intros Hn Hv. destruct v as [|c v]; [congruence|]. eexists. split; [reflexivity|].
  change (STR "-D" ++ n ++ STR "=" ++ c :: v) with (STR "-D" ++ (n ++ c_eq :: c :: v)).
  unfold macro_of_flag.
  change (strip_prefix (STR "-D") (STR "-D" ++ (n ++ c_eq :: c :: v))) with (Some (n ++ c_eq :: c :: v)).
  cbv beta iota. now rewrite (split_eq_words_eq _ _ (ident_words _ Hn)).
Qed.

Theorem define_effect_bare fixed dfix pk defaults n :
  is_ident n = true ->
  exists f, cc_flag1 fixed dfix pk defaults (ODefine n None) = Ok [f] /\ macro_of_flag f = Some (n, STR "1").
Proof.
  intros Hn. eexists. split; [reflexivity|]. unfold macro_of_flag.
  change (strip_prefix (STR "-D") (STR "-D" ++ n)) with (Some n).
  cbv beta iota. now rewrite (split_eq_words _ (ident_words _ Hn)).
Qed.

(* an explicitly empty value is translated like an absent one: the macro becomes 1, not empty *)
Lemma define_empty_refuted : exists n f,
  is_ident n = true /\ cc_flag1 true false false [] (ODefine n (Some [])) = Ok [f] /\
  macro_of_flag f = Some (n, STR "1").
Proof. exists (STR "E"). eexists. vm_compute. auto. Qed.

(* with the repaired translation (dfix) the effect holds for every value, the empty one included *)
Theorem define_effect_fixed fixed pk defaults n v :
  is_ident n = true ->
  exists f, cc_flag1 fixed true pk defaults (ODefine n (Some v)) = Ok [f] /\ macro_of_flag f = Some (n, v).
Proof.
  intros Hn. destruct v as [|c v].
  - eexists. split; [reflexivity|]. unfold macro_of_flag.
    change (strip_prefix (STR "-D") (STR "-D" ++ n ++ STR "=")) with (Some (n ++ c_eq :: [])).
    cbv beta iota. now rewrite (split_eq_words_eq _ _ (ident_words _ Hn)).
  - apply define_effect; [exact Hn|discriminate].
Qed.
