(* W model: bfg9000/shell/syntax.py Writer (variable and shell syntax, paths written as
   ${root}/suffix and quoted as one unit) and builtins/pkg_config.py _write_variable /
   _write_field / SimpleRequirement._safe_str.
   R model: the pkgconf 1.8.1 reader of one .pc field: pkgconf_fgetline (comments, backslash),
   pkgconf_tuple_parse (${name} substitution), pkgconf_argv_split, and the empty-argument
   filter of pkgconf_fragment_add.  NOT modelled: the merging of repeated fragments in
   pkgconf_fragment_copy (a second -I/-L of one directory is dropped, of other typed fragments the
   earlier occurrence): the model describes the reading of lists whose arguments are pairwise
   different, which is the domain on which it is validated against the real tool. *)
From BFG Require Import Base.Chars Shell.PosixQuote Misc.Versions.
From Coq Require Import String.
Local Open Scope N_scope.

(* ---------------- W ---------------- *)
(* bits of a jbos that reach the writer: plain str, literal / shell_literal, or a path with an
   optional root variable (None = absolute path, whose text is the suffix itself) *)
Inductive frag := FStr (s : str) | FLit (s : str) | FPath (root : option str) (suffix : str).
Definition flag := list frag.

Definition c_lbrace : char := 123.
Definition c_rbrace : char := 125.

(* Variable.use(): literal ${name} *)
Definition var_use (v : str) : str := c_dollar :: c_lbrace :: v ++ [c_rbrace].

(* BasePath.realize for a rooted path: root + '/' + suffix, or the root alone *)
Definition path_tail (suffix : str) : str := match suffix with [] => [] | _ => c_slash :: suffix end.

Section W.
Variable uw : char -> bool.

(* Writer.write(bit, Syntax.shell) *)
Definition write_frag_shell (b : frag) : str :=
  match b with
  | FStr s => fst (quote_bit uw (BStr s))
  | FLit s => s
  | FPath None s => fst (quote_bit uw (BStr s))
  | FPath (Some v) suffix =>
      (* inner writer: the literal root marks the text as escaped, the suffix is inner-quoted,
         the whole is wrapped once *)
      wrap_quotes (var_use v ++ match path_tail suffix with [] => [] | t => fst (inner_quote_info uw t) end)
  end.

(* Writer.write(bit, Syntax.variable): nothing is quoted *)
Definition write_frag_var (b : frag) : str :=
  match b with
  | FStr s => s
  | FLit s => s
  | FPath None s => s
  | FPath (Some v) suffix => var_use v ++ path_tail suffix
  end.

Definition write_flag (shell : bool) (f : flag) : str :=
  List.concat (map (if shell then write_frag_shell else write_frag_var) f).

Fixpoint join_with (d : str) (ws : list str) : str :=
  match ws with
  | [] => []
  | [w] => w
  | w :: r => w ++ d ++ join_with d r
  end.

(* Writer.write_each *)
Definition write_each (shell : bool) (delim : str) (fs : list flag) : str :=
  join_with delim (map (write_flag shell) fs).

(* PkgConfigWriter._write_field: nothing at all for an empty value *)
Definition write_field (shell : bool) (delim name : str) (fs : list flag) : str :=
  match fs with
  | [] => []
  | _ => name ++ [c_colon; c_sp] ++ write_each shell delim fs ++ [c_nl]
  end.

(* PkgConfigWriter._write_variable *)
Definition write_variable (shell : bool) (delim name : str) (fs : list flag) : str :=
  name ++ [c_eq] ++ write_each shell delim fs ++ [c_nl].
End W.

(* PkgConfigWriter._write, the variables section (the lines before the empty line; the mach-o
   install_names variable is not modelled).
     installed form     one line per install root except bindir, the value is env.install_dirs[root]
                        (a path: absolute, or under another install root)
     -uninstalled form  srcdir = the absolute source directory;
                        builddir = Path(.).relpath(directory, prefix=${pcfiledir}, localize=False): the
                        variable pcfiledir followed by one /.. per component of the directory of the .pc
                        files below the build directory (PkgConfigWriter.directory = pkgconfig: one).
   The absolute build directory is not an input of the section: the -uninstalled file follows the
   build tree wherever it is moved. *)
Definition s_pcfiledir : str := STR "pcfiledir".
Definition s_srcdir : str := STR "srcdir".
Definition s_builddir : str := STR "builddir".

Fixpoint ups (depth : nat) : str :=
  match depth with O => [] | S k => c_slash :: c_dot :: c_dot :: ups k end.

Definition builddir_value (depth : nat) : str := var_use s_pcfiledir ++ ups depth.

Definition installed_vars (uw : char -> bool) (dirs : list (str * frag)) : str :=
  List.concat (map (fun d => write_variable uw false [c_sp] (fst d) [[snd d]]) dirs).

Definition uninstalled_vars (uw : char -> bool) (srcdir : str) (depth : nat) : str :=
  write_variable uw false [c_sp] s_srcdir [[FPath None srcdir]] ++
  write_variable uw false [c_sp] s_builddir [[FStr (builddir_value depth)]].

(* SimpleRequirement._safe_str: name, or name op version with == written = *)
Definition op_text (o : op) : str :=
  match o with
  | OEq => [c_eq] | ONe => [33; c_eq] | OGe => [62; c_eq] | OGt => [62] | OLe => [60; c_eq] | OLt => [60]
  end.

Definition simple_text (s : simple str) : str :=
  match snd s with
  | None => fst s
  | Some sp => fst s ++ [c_sp] ++ op_text (fst sp) ++ [c_sp] ++ snd sp
  end.

(* the Requires / Requires.private / Conflicts fields *)
Definition write_requires (name : str) (l : list (simple str)) : str :=
  write_field (fun _ => false) true [c_comma; c_sp] name (map (fun s => [FLit (simple_text s)]) l).

(* ---------------- R ---------------- *)
(* pkgconf_fgetline on one physical line (no newline inside): an unescaped # ends the line,
   backslash-# is a #, a backslash before anything else is kept *)
Fixpoint pc_comment (esc : bool) (s : str) : str :=
  match s with
  | [] => if esc then [c_bs] else []
  | c :: r =>
      if esc then
        if N.eqb c c_hash then c_hash :: pc_comment false r
        else c_bs :: c :: pc_comment false r
      else if N.eqb c c_bs then pc_comment true r
      else if N.eqb c c_hash then []
      else c :: pc_comment false r
  end.

Fixpoint lookup (vars : list (str * str)) (name : str) : str :=
  match vars with
  | [] => []                                    (* undefined variable: empty *)
  | (n, v) :: r => if str_eqb n name then v else lookup r name
  end.

(* pkgconf_tuple_parse with already expanded variable values: [name] = Some acc while inside ${ *)
Fixpoint pc_subst_go (vars : list (str * str)) (name : option str) (s : str) : str :=
  match name with
  | Some acc =>
      match s with
      | [] => lookup vars acc
      | c :: r => if N.eqb c c_rbrace then lookup vars acc ++ pc_subst_go vars None r
                  else pc_subst_go vars (Some (acc ++ [c])) r
      end
  | None =>
      match s with
      | [] => []
      | c :: r =>
          if N.eqb c c_dollar then
            match r with
            | d :: r' => if N.eqb d c_lbrace then pc_subst_go vars (Some []) r' else c :: pc_subst_go vars None r
            | [] => [c]
            end
          else c :: pc_subst_go vars None r
      end
  end.
Definition pc_subst (vars : list (str * str)) (s : str) : str := pc_subst_go vars None s.

(* C isspace in the C locale *)
Definition c_isspace (c : char) : bool := N.eqb c 32 || ((9 <=? c) && (c <=? 13)).

(* pkgconf_argv_split.  [q]: 0 = no quote, otherwise the quote character; [esc]: after a backslash;
   [cur]: argument being built; a blank always closes the current argument (also an empty one) *)
Fixpoint argv_go (q : char) (esc : bool) (cur : str) (s : str) : option (list str) :=
  match s with
  | [] => if esc || negb (N.eqb q 0) then None else Some [cur]
  | c :: r =>
      if esc then
        if N.eqb q c_dq then
          if N.eqb c c_dollar || N.eqb c 96 || N.eqb c c_dq || N.eqb c c_bs
          then argv_go q false (cur ++ [c]) r
          else argv_go q false (cur ++ [c_bs; c]) r
        else argv_go q false (cur ++ [c]) r
      else if negb (N.eqb q 0) then
        if N.eqb c q then argv_go 0 false cur r
        else if N.eqb c c_bs && negb (N.eqb q c_sq) then argv_go q true cur r
        else argv_go q false (cur ++ [c]) r
      else if c_isspace c then option_map (cons cur) (argv_go 0 false [] r)
      else if N.eqb c c_bs then argv_go 0 true cur r
      else if N.eqb c c_dq || N.eqb c c_sq then argv_go c false cur r
      else argv_go 0 false (cur ++ [c]) r
  end.

Definition nonempty (s : str) : bool := match s with [] => false | _ => true end.

(* the arguments that become fragments: pkgconf_fragment_add ignores empty strings *)
Definition pc_argv (s : str) : option (list str) := option_map (filter nonempty) (argv_go 0 false [] s).

(* pkgconf_fragment_add: an argument -Xdata that is not special becomes a typed fragment whose data, when it
   starts with a slash, has runs of slashes collapsed (pkgconf_path_relocate); other arguments are kept verbatim
   unless the previous fragment is an untyped one (a word without a dash, -isystem, -framework, ...), to which
   they are appended after the same munging.  (The appended fragment is printed with unescaped blanks; the
   harness compares modulo that rendering.) *)
Fixpoint prefix_of (p s : str) : bool :=
  match p, s with
  | [], _ => true
  | a :: p', b :: s' => N.eqb a b && prefix_of p' s'
  | _ :: _, [] => false
  end.

Definition unmergeable_prefixes : list str :=
  [STR "-framework"; STR "-isystem"; STR "-idirafter"; STR "-pthread"; STR "-Wa,"; STR "-Wl,"; STR "-Wp,";
   STR "-trigraphs"; STR "-pedantic"; STR "-ansi"; STR "-std="; STR "-stdlib="; STR "-include"; STR "-nostdinc";
   STR "-nostdlibinc"; STR "-nobuiltininc"].

(* pkgconf_fragment_is_unmergeable: anything that does not start with a dash, or starts with a listed prefix *)
Definition unmergeable (s : str) : bool :=
  match s with
  | c :: _ => negb (N.eqb c c_dash) || existsb (fun p => prefix_of p s) unmergeable_prefixes
  | [] => true
  end.

Definition is_special (s : str) : bool := prefix_of (STR "-lib:") s || unmergeable s.

Fixpoint collapse (prev_slash : bool) (s : str) : str :=
  match s with
  | [] => []
  | c :: r => if N.eqb c c_slash then (if prev_slash then collapse true r else c :: collapse true r)
              else c :: collapse false r
  end.

Definition munge (s : str) : str :=
  match s with
  | c :: _ => if N.eqb c c_slash then collapse false s else s
  | [] => s
  end.

Fixpoint pc_frags (after : bool) (args : list str) : list str :=
  match args with
  | [] => []
  | a :: r =>
      if Nat.ltb 1 (List.length a) && negb (is_special a) then
        match a with
        | d :: t :: data => (d :: t :: munge data) :: pc_frags false r
        | _ => a :: pc_frags false r
        end
      else if after then munge a :: pc_frags true r
      else a :: pc_frags (unmergeable a) r
  end.

(* one field value as the fragment list renders it *)
Definition pc_field (vars : list (str * str)) (value : str) : option (list str) :=
  option_map (pc_frags false) (pc_argv (pc_subst vars (pc_comment false value))).

(* what a flag denotes: the concatenation of its bits, a rooted path is value(root)/suffix *)
Definition frag_denote (vars : list (str * str)) (b : frag) : str :=
  match b with
  | FStr s => s
  | FLit s => s
  | FPath None s => s
  | FPath (Some v) suffix => lookup vars v ++ path_tail suffix
  end.
Definition flag_denote (vars : list (str * str)) (f : flag) : str := List.concat (map (frag_denote vars) f).

(* guard of the round trip on the written text: no comment character, no variable reference *)
Fixpoint has_hash (s : str) : bool :=
  match s with [] => false | c :: r => N.eqb c c_hash || has_hash r end.
Fixpoint has_dollar_brace (s : str) : bool :=
  match s with
  | [] => false
  | c :: r => (N.eqb c c_dollar && match r with d :: _ => N.eqb d c_lbrace | [] => false end) || has_dollar_brace r
  end.
Definition pc_clean (s : str) : bool := negb (has_hash s) && negb (has_dollar_brace s).
