(* Proofs about Misc/PcFile.v: on text without '#' and without a variable reference the pkgconf
   line reader and substitution are the identity, and the pkgconf argument splitter agrees with
   the sh word splitter of Shell/Sh.v wherever the latter accepts; hence the round trip of
   shell-quoted option strings through a .pc field (from Shell/PosixQuoteProofs.join_words). *)
From BFG Require Import Base.Chars Shell.PosixQuote Shell.Sh Shell.PosixQuoteProofs Misc.Versions Misc.PcFile.
From Coq Require Import Lia.
Local Open Scope N_scope.

Lemma pc_comment_clean s : forall esc, has_hash s = false ->
  pc_comment esc s = (if esc then [c_bs] else []) ++ s.
Proof.
  induction s as [|c r IH]; intros esc H; cbn [pc_comment].
  - destruct esc; reflexivity.
  - cbn [has_hash] in H. apply orb_false_iff in H. destruct H as [Hc Hr]. rewrite Hc.
    destruct esc.
    + rewrite (IH false Hr). reflexivity.
    + destruct (N.eqb c c_bs) eqn:B.
      * rewrite (IH true Hr). apply N.eqb_eq in B. subst c. reflexivity.
      * rewrite (IH false Hr). reflexivity.
Qed.

Lemma pc_subst_clean vars s : has_dollar_brace s = false -> pc_subst vars s = s.
Proof.
  unfold pc_subst. induction s as [|c r IH]; intros H; cbn [pc_subst_go]; [reflexivity|].
  cbn [has_dollar_brace] in H. apply orb_false_iff in H. destruct H as [Hc Hr].
  destruct (N.eqb c c_dollar) eqn:D.
  - destruct r as [|d r']; [reflexivity|]. cbn [andb] in Hc. rewrite Hc. rewrite (IH Hr). reflexivity.
  - rewrite (IH Hr). reflexivity.
Qed.

Section Sim.
Variable uw : char -> bool.
Notation bad := (posix_bad uw).

Lemma bad_lt128 c d : d <? 128 = true -> posix_bad (fun _ => false) d = true -> bad c = false -> N.eqb c d = false.
Proof.
  intros Hd Bd Bc. destruct (N.eqb c d) eqn:E; [|reflexivity]. apply N.eqb_eq in E. subst c.
  unfold posix_bad in *. rewrite Hd in *. congruence.
Qed.

Lemma notbad_pc c : bad c = false ->
  c_isspace c = false /\ N.eqb c c_bs = false /\ N.eqb c c_dq = false /\ N.eqb c c_sq = false.
Proof.
  intros B.
  assert (H9 := bad_lt128 c 9 eq_refl eq_refl B). assert (H10 := bad_lt128 c 10 eq_refl eq_refl B).
  assert (H11 := bad_lt128 c 11 eq_refl eq_refl B). assert (H12 := bad_lt128 c 12 eq_refl eq_refl B).
  assert (H13 := bad_lt128 c 13 eq_refl eq_refl B). assert (H32 := bad_lt128 c 32 eq_refl eq_refl B).
  split; [|split; [|split]].
  - unfold c_isspace. rewrite H32. cbn [orb].
    destruct (9 <=? c) eqn:A; [|reflexivity]. destruct (c <=? 13) eqn:A2; [|reflexivity].
    apply N.leb_le in A, A2. apply N.eqb_neq in H9, H10, H11, H12, H13. lia.
  - apply (bad_lt128 c c_bs eq_refl eq_refl B).
  - apply (bad_lt128 c c_dq eq_refl eq_refl B).
  - apply (bad_lt128 c c_sq eq_refl eq_refl B).
Qed.

Definition pq (inq : bool) : char := if inq then c_sq else 0.

Lemma word_str_app a b : word_str (a ++ b) = word_str a ++ word_str b.
Proof. apply map_app. Qed.

Lemma words_only_cons_inv w ts ws : words_only (TW w :: ts) = Some ws ->
  exists ws', words_only ts = Some ws' /\ ws = word_str w :: ws'.
Proof. cbn. destruct (words_only ts); cbn; intros H; inversion H; eauto. Qed.

(* pkgconf's splitter yields, up to empty arguments, the words sh yields *)
Lemma argv_sim n : forall s inq inw cur ts ws, (List.length s <= n)%nat ->
  (inw = false -> cur = []) ->
  lex uw inq inw cur s = Some ts -> words_only ts = Some ws ->
  exists ws', argv_go (pq inq) false (word_str cur) s = Some ws' /\ filter nonempty ws' = filter nonempty ws.
Proof.
  induction n as [|n IH]; intros s inq inw cur ts ws Hn Hc HL HW.
  - destruct s; [|cbn in Hn; lia]. cbn in HL. destruct inq; [discriminate|]. cbn.
    destruct inw; inversion HL; subst.
    + cbn in HW. inversion HW; subst. eauto.
    + cbn in HW. inversion HW; subst. rewrite (Hc eq_refl). eauto.
  - destruct s as [|c r].
    { cbn in HL. destruct inq; [discriminate|]. cbn.
      destruct inw; inversion HL; subst.
      + cbn in HW. inversion HW; subst. eauto.
      + cbn in HW. inversion HW; subst. rewrite (Hc eq_refl). eauto. }
    assert (Hr : (List.length r <= n)%nat) by (cbn in Hn; lia).
    cbn [lex] in HL. destruct inq.
    + (* inside single quotes *)
      cbn [argv_go pq negb]. change (N.eqb c_sq 0) with false. cbn [negb].
      destruct (N.eqb c c_sq) eqn:Q.
      * eapply (IH r false true cur); eauto. discriminate.
      * rewrite andb_false_r. replace (word_str cur ++ [c]) with (word_str (cur ++ [(c, true)]))
          by (rewrite word_str_app; reflexivity).
        eapply (IH r true true); eauto. discriminate.
    + cbn [argv_go pq]. change (N.eqb 0 0) with true. cbn [negb].
      destruct (N.eqb c c_sq) eqn:Q.
      * (* opening quote *)
        apply N.eqb_eq in Q. subst c. change (c_isspace c_sq) with false. change (N.eqb c_sq c_bs) with false.
        change (N.eqb c_sq c_dq || N.eqb c_sq c_sq) with true. cbn [orb].
        eapply (IH r true true cur); eauto. discriminate.
      * destruct (N.eqb c c_bs) eqn:B.
        -- apply N.eqb_eq in B. subst c. change (c_isspace c_bs) with false. cbn [orb].
           destruct r as [|d r']; [discriminate|].
           destruct (N.eqb d c_nl); [discriminate|].
           cbn [argv_go]. change (N.eqb 0 c_dq) with false.
           replace (word_str cur ++ [d]) with (word_str (cur ++ [(d, true)])) by (rewrite word_str_app; reflexivity).
           eapply (IH r' false true); eauto; [cbn in Hr; lia|discriminate].
        -- destruct (is_blank c) eqn:K.
           ++ assert (SP : c_isspace c = true).
              { unfold is_blank in K. apply orb_true_iff in K. destruct K as [K|K]; apply N.eqb_eq in K; subst c; reflexivity. }
              rewrite SP. destruct inw.
              ** destruct (lex uw false false [] r) as [ts'|] eqn:L; [|discriminate]. cbn in HL. inversion HL; subst.
                 apply words_only_cons_inv in HW. destruct HW as (ws' & HW' & ->).
                 destruct (IH r false false [] ts' ws' Hr (fun _ => eq_refl) L HW') as (a & A1 & A2).
                 cbn in A1. rewrite A1. cbn [option_map]. eexists; split; [reflexivity|].
                 cbn [filter]. rewrite A2. reflexivity.
              ** rewrite (Hc eq_refl).
                 destruct (IH r false false [] ts ws Hr (fun _ => eq_refl) HL HW) as (a & A1 & A2).
                 cbn in A1. cbn [word_str map]. rewrite A1. cbn [option_map]. eexists; split; [reflexivity|].
                 cbn [filter nonempty]. exact A2.
           ++ destruct (N.eqb c c_amp) eqn:AMP.
              ** (* && is not a word list *)
                 destruct r as [|d r']; [discriminate|]. destruct (N.eqb d c_amp); [|discriminate].
                 destruct (lex uw false false [] r') as [ts'|]; cbn in HL.
                 --- destruct inw; inversion HL; subst; cbn in HW; [destruct (words_only ts')|]; discriminate.
                 --- destruct inw; discriminate.
              ** destruct (bad c) eqn:BD; [discriminate|].
                 destruct (notbad_pc c BD) as (P1 & P2 & P3 & P4). rewrite P1, P3. cbn [orb].
                 replace (word_str cur ++ [c]) with (word_str (cur ++ [(c, false)]))
                   by (rewrite word_str_app; reflexivity).
                 eapply (IH r false true); eauto. discriminate.
Qed.

Theorem pc_argv_of_sh s ws : sh_words uw s = Some ws -> pc_argv s = Some (filter nonempty ws).
Proof.
  unfold sh_words, sh_lex, pc_argv. destruct (lex uw false false [] s) as [ts|] eqn:L; [|discriminate].
  intros HW. destruct (argv_sim (List.length s) s false false [] ts ws (le_n _) (fun _ => eq_refl) L HW) as (a & A1 & A2).
  cbn in A1. rewrite A1. cbn. rewrite A2. reflexivity.
Qed.

Lemma filter_nonempty_id (l : list str) : forallb nonempty l = true -> filter nonempty l = l.
Proof.
  induction l as [|x r IH]; [reflexivity|]. cbn. intros H. apply andb_true_iff in H. destruct H as [-> Hr].
  rewrite (IH Hr). reflexivity.
Qed.

(* a field written from plain option strings: the text bfg9000 writes is posix.join of the options *)
Lemma join_with_sp ws : join_with [c_sp] ws = join_sp ws.
Proof. induction ws as [|w [|w' r] IH]; [reflexivity|reflexivity|]. cbn [join_with join_sp] in *. rewrite IH. reflexivity. Qed.

Lemma write_each_strs flags : write_each uw true [c_sp] (map (fun s => [FStr s]) flags) = join uw flags.
Proof.
  unfold write_each, join. rewrite join_with_sp. f_equal. rewrite map_map. apply map_ext. intros s.
  unfold write_flag. cbn. rewrite app_nil_r. reflexivity.
Qed.

(* C17_fields_rt (option strings): if the written value contains no '#' and no variable reference, pkgconf
   reads back exactly the non-empty options *)
Theorem fields_rt vars flags :
  forallb nonempty flags = true ->
  pc_clean (write_each uw true [c_sp] (map (fun s => [FStr s]) flags)) = true ->
  pc_argv (pc_subst vars (pc_comment false (write_each uw true [c_sp] (map (fun s => [FStr s]) flags)))) = Some flags.
Proof.
  intros Hne Hc. unfold pc_clean in Hc. apply andb_true_iff in Hc. destruct Hc as [H1 H2].
  apply negb_true_iff in H1, H2.
  rewrite pc_comment_clean by assumption. cbn [app]. rewrite pc_subst_clean by assumption.
  rewrite write_each_strs. rewrite (pc_argv_of_sh _ _ (join_words uw flags)).
  rewrite filter_nonempty_id by assumption. reflexivity.
Qed.
End Sim.

(* outside the guard the round trip fails: '#' starts a comment inside quotes, ${...} is substituted *)
Lemma fields_rt_hash_refuted :
  pc_field [] (write_each (fun _ => false) true [c_sp] [[FStr [45; 68; 88; 61; 97; 35; 98]]; [FStr [45; 68; 89]]]) = None.
Proof. vm_compute. reflexivity. Qed.

Lemma fields_rt_dollar_brace_refuted :
  pc_field [([112], [47; 117])] (write_each (fun _ => false) true [c_sp] [[FStr [45; 68; 87; 61; 36; 123; 112; 125]]])
  = Some [[45; 68; 87; 61; 47; 117]].
Proof. vm_compute. reflexivity. Qed.

(* a path under a root variable denotes value(root)/suffix (non-vacuity of the path branch, by computation) *)
Example path_flag_ex :
  pc_field [([112], [47; 111; 32; 112])]
    (write_each (fun _ => false) true [c_sp] [[FStr [45; 73]; FPath (Some [112]) [97; 32; 39; 98]]])
  = Some [flag_denote [([112], [47; 111; 32; 112])] [FStr [45; 73]; FPath (Some [112]) [97; 32; 39; 98]]].
Proof. vm_compute. reflexivity. Qed.

(* ---- the variables section of the -uninstalled form: the builddir variable follows the .pc file ---- *)
Fixpoint has_rbrace (s : str) : bool :=
  match s with [] => false | c :: r => N.eqb c c_rbrace || has_rbrace r end.

Lemma pc_subst_go_name vars v : forall acc rest, has_rbrace v = false ->
  pc_subst_go vars (Some acc) (v ++ c_rbrace :: rest) = lookup vars (acc ++ v) ++ pc_subst_go vars None rest.
Proof.
  induction v as [|c r IH]; intros acc rest H.
  - change ([] ++ c_rbrace :: rest) with (c_rbrace :: rest). cbn [pc_subst_go].
    change (N.eqb c_rbrace c_rbrace) with true. cbn iota. rewrite app_nil_r. reflexivity.
  - cbn [has_rbrace] in H. apply orb_false_iff in H. destruct H as [Hc Hr].
    rewrite <- app_comm_cons. cbn [pc_subst_go]. rewrite Hc.
    transitivity (lookup vars ((acc ++ [c]) ++ r) ++ pc_subst_go vars None rest); [exact (IH (acc ++ [c]) rest Hr)|].
    rewrite <- app_assoc. reflexivity.
Qed.

(* a reference to a variable is replaced by its value, whatever follows *)
Lemma pc_subst_var_use vars v rest : has_rbrace v = false ->
  pc_subst vars (var_use v ++ rest) = lookup vars v ++ pc_subst vars rest.
Proof.
  intros H. unfold pc_subst, var_use. rewrite <- !app_comm_cons. cbn [pc_subst_go].
  change (N.eqb c_dollar c_dollar) with true. change (N.eqb c_lbrace c_lbrace) with true. cbn iota.
  rewrite <- app_assoc. apply (pc_subst_go_name vars v [] rest H).
Qed.

Lemma ups_clean depth : has_dollar_brace (ups depth) = false.
Proof.
  induction depth as [|k IH]; [reflexivity|]. cbn [ups has_dollar_brace].
  change (N.eqb c_slash c_dollar) with false. change (N.eqb c_dot c_dollar) with false. cbn [andb orb]. exact IH.
Qed.

(* what pkgconf reads as the value of builddir: the directory of the .pc file it is reading, then the way up -
   for EVERY value of pcfiledir, i.e. wherever the build directory has been moved *)
Theorem builddir_relocatable vars depth :
  pc_subst vars (builddir_value depth) = lookup vars s_pcfiledir ++ ups depth.
Proof.
  unfold builddir_value. rewrite pc_subst_var_use by reflexivity.
  rewrite (pc_subst_clean vars _ (ups_clean depth)). reflexivity.
Qed.

(* the text of the section: the source directory verbatim, the build directory only through pcfiledir *)
Theorem uninstalled_vars_text uw srcdir depth :
  uninstalled_vars uw srcdir depth =
  s_srcdir ++ [c_eq] ++ srcdir ++ [c_nl] ++ s_builddir ++ [c_eq] ++ var_use s_pcfiledir ++ ups depth ++ [c_nl].
Proof.
  unfold uninstalled_vars, write_variable, write_each, write_flag, builddir_value.
  cbn [map join_with List.concat write_frag_var]. rewrite !app_nil_r. rewrite <- !app_assoc. reflexivity.
Qed.

Theorem uninstalled_relocatable uw srcdir depth :
  uninstalled_vars uw srcdir depth =
    s_srcdir ++ [c_eq] ++ srcdir ++ [c_nl] ++ s_builddir ++ [c_eq] ++ var_use s_pcfiledir ++ ups depth ++ [c_nl] /\
  forall vars, pc_subst vars (builddir_value depth) = lookup vars s_pcfiledir ++ ups depth.
Proof. split; [apply uninstalled_vars_text | intros vars; apply builddir_relocatable]. Qed.

(* a library directory under the build directory, read through the file at two places: it is below the place *)
Example relocated_libdir_ex :
  let flag := [[FStr [45; 76]; FPath (Some s_builddir) [115; 117; 98]]] in
  let at_ d := [(s_pcfiledir, d); (s_builddir, pc_subst [(s_pcfiledir, d)] (builddir_value 1))] in
  pc_field (at_ [47; 97; 47; 112]) (write_each (fun _ => false) true [c_sp] flag)
    = Some [[45; 76; 47; 97; 47; 112; 47; 46; 46; 47; 115; 117; 98]] /\
  pc_field (at_ [47; 109; 32; 118; 47; 112]) (write_each (fun _ => false) true [c_sp] flag)
    = Some [[45; 76; 47; 109; 32; 118; 47; 112; 47; 46; 46; 47; 115; 117; 98]].
Proof. split; vm_compute; reflexivity. Qed.
