(* W model: the field-level logic of bfg9000/builtins/pkg_config.py
     PkgConfigInfo._simple_property.__set__   None stays None, every other value (also the EMPTY list)
                                              goes through the field function (uniques of the given items)
     PkgConfigInfo.__init__ / _header / _library   every header / library named in includes, libs,
                                              libs_private is passed to install()
     builtins/install.py InstallOutputs.add   install.explicit: appended unless already present
     finalize_pkg_config                      defaults = project name / version, the explicitly installed
                                              headers and libraries; only for auto_fill packages, only the
                                              fields that are None; auto_fill packages are written after
                                              the script, the others immediately
     PkgConfigInfo.finalize                   x or [] defaults, version or 0.0, ForwardOptions.recurse over
                                              libs + libs_private (Graph/LinkOrder.visits), libs_private
                                              extended by the forwarded libraries that are not in libs,
                                              link_options_private = forwarded link options + given ones
     PkgConfigWriter._write                   the Cflags / Libs / Libs.private word lists for a cc builder
                                              in pkg-config mode: -I per distinct include directory then
                                              the options; link options, -L per distinct library
                                              directory, -l per library
   Headers, libraries and directories are identifiers (N); what a directory is written as (a path under
   an install root, srcdir or builddir) is a parameter.  Not modelled: requires (Misc/Versions.v),
   system packages (extra_pkgs), Option objects other than strings among the (link) options,
   mach-o install_names.  A DualUseLibrary is one more library identifier (the harness numbers the
   dual object and its two halves separately): _library passes it through unchanged, its
   forward_opts are those of its static half (parameters deps / fwd / lopts), and the writer takes
   the directory of its first (shared) file (parameter libdir). *)
From BFG Require Import Base.Chars Graph.LinkOrder Misc.PcFile.
Local Open Scope N_scope.

Inductive kind := KHeader | KLib | KOther.
Definition kind_eqb (a b : kind) : bool :=
  match a, b with KHeader, KHeader => true | KLib, KLib => true | KOther, KOther => true | _, _ => false end.
Definition item := (kind * N)%type.
Definition item_eqb (a b : item) : bool := kind_eqb (fst a) (fst b) && N.eqb (snd a) (snd b).

(* InstallOutputs.add on install.explicit *)
Definition inst_add (ex : list item) (i : item) : list item :=
  if existsb (item_eqb i) ex then ex else ex ++ [i].
Definition inst_extend (ex : list item) (l : list item) : list item := fold_left inst_add l ex.

(* the identifiers of one kind in install.explicit, in order:
   [i for i in install.explicit if isinstance(i, ...)] *)
Definition ids_of (k : kind) (ex : list item) : list N :=
  map snd (filter (fun i => kind_eqb (fst i) k) ex).

(* The arguments of pkg_config() and, with the list fields passed through the descriptor, the
   attributes of the PkgConfigInfo object. *)
Record info := {
  i_auto : bool;
  i_name : option str;
  i_version : option str;
  i_includes : option (list N);
  i_libs : option (list N);
  i_libs_private : option (list N);
  i_options : list str;
  i_lopts : list str;
  i_lopts_private : list str }.

(* _simple_property.__set__ for includes / libs / libs_private:
   final_value = self.fn(obj, value) if value is not None else None, fn = uniques(...) *)
Definition set_list (v : option (list N)) : option (list N) := option_map dedup_first v.

Definition or_nil (v : option (list N)) : list N := match v with Some l => l | None => [] end.

(* PkgConfigInfo.__init__: the stored object *)
Definition init (a : info) : info :=
  {| i_auto := i_auto a; i_name := i_name a; i_version := i_version a;
     i_includes := set_list (i_includes a); i_libs := set_list (i_libs a);
     i_libs_private := set_list (i_libs_private a);
     i_options := i_options a; i_lopts := i_lopts a; i_lopts_private := i_lopts_private a |}.

(* ... and what it passes to install(), in order *)
Definition init_installs (a : info) : list item :=
  map (pair KHeader) (or_nil (i_includes a)) ++ map (pair KLib) (or_nil (i_libs a))
  ++ map (pair KLib) (or_nil (i_libs_private a)).

(* finalize_pkg_config: for key, value in defaults: if getattr(info, key) is None: setattr(info, key, value)
   (the list fields go through the descriptor again; the install() calls this triggers name items that
   are in install.explicit already, see inst_extend_noop in the proofs) *)
Definition autofill (pname : str) (pversion : option str) (ex : list item) (i : info) : info :=
  if i_auto i then
    {| i_auto := true;
       i_name := match i_name i with None => Some pname | s => s end;
       i_version := match i_version i with None => pversion | s => s end;
       i_includes := match i_includes i with None => set_list (Some (ids_of KHeader ex)) | s => s end;
       i_libs := match i_libs i with None => set_list (Some (ids_of KLib ex)) | s => s end;
       i_libs_private := i_libs_private i;
       i_options := i_options i; i_lopts := i_lopts i; i_lopts_private := i_lopts_private i |}
  else i.

(* one package from its arguments to the object that is written, given install.explicit at that time *)
Definition final_info (pname : str) (pversion : option str) (ex : list item) (a : info) : info :=
  autofill pname pversion ex (init a).

(* the build script as far as it matters: install(...) calls and pkg_config(...) calls *)
Inductive action := AInstall (l : list item) | APkg (a : info).

Definition step (ex : list item) (a : action) : list item :=
  match a with
  | AInstall l => inst_extend ex l
  | APkg p => inst_extend ex (init_installs p)
  end.

(* install.explicit after the first n actions / after the script *)
Definition explicit_after (acts : list action) : list item := fold_left step acts [].

(* the packages in the order of the script, each with install.explicit at the time it is written:
   a package without auto_fill is written by the pkg_config() call itself, an auto_fill package by the
   post-execute hook *)
Fixpoint written_go (pname : str) (pversion : option str) (final : list item) (ex : list item)
         (acts : list action) : list info :=
  match acts with
  | [] => []
  | a :: r =>
      let ex' := step ex a in
      match a with
      | AInstall _ => written_go pname pversion final ex' r
      | APkg p => final_info pname pversion (if i_auto p then final else ex') p
                  :: written_go pname pversion final ex' r
      end
  end.
Definition written (pname : str) (pversion : option str) (acts : list action) : list info :=
  written_go pname pversion (explicit_after acts) [] acts.

(* ------------------------------------------------------------------ finalize *)
Record data := {
  d_name : str;
  d_version : str;
  d_includes : list N;
  d_options : list str;
  d_libs : list N;
  d_lopts : list str;
  d_libs_private : list N;
  d_lopts_private : list str }.

Definition str_or (v : option str) (dflt : str) : str :=
  match v with Some (c :: r) => c :: r | _ => dflt end.

Section Finalize.
  Variable deps : lib -> list lib.        (* forward_opts.libs of a library *)
  Variable fwd : lib -> bool.             (* the library has forward_opts (a static library) *)
  Variable lopts : lib -> list str.       (* forward_opts.link_options (strings) *)

  (* with the visit sequence of ForwardOptions.recurse(chain(libs, libs_private)) *)
  Definition finalize_with (v : list lib) (name : str) (i : info) : data :=
    let libs := or_nil (i_libs i) in
    let lp := or_nil (i_libs_private i) in
    {| d_name := name;
       d_version := str_or (i_version i) [48; 46; 48];
       d_includes := or_nil (i_includes i);
       d_options := i_options i;
       d_libs := libs;
       d_lopts := i_lopts i;
       d_libs_private := dedup_first (lp ++ filter (fun x => negb (lib_mem x libs)) (fwd_libs deps v));
       d_lopts_private := flat_map lopts v ++ i_lopts_private i |}.

  (* None: fuel exhausted (never with the fuel the harness passes, C14_fuel_suffices);
     Some None: ValueError, the package has no name *)
  Definition finalize (fuel : nat) (i : info) : option (option data) :=
    match visits deps fwd fuel (or_nil (i_libs i) ++ or_nil (i_libs_private i)) with
    | None => None
    | Some v => Some (match i_name i with None => None | Some n => Some (finalize_with v n i) end)
    end.
End Finalize.

(* ------------------------------------------------------------------ _write: the three flag fields *)
Section Words.
  Variable incdir : N -> N.          (* header -> the directory its include_dir option names *)
  Variable libdir : N -> N.          (* library -> directory of the (installed) library file *)
  Variable libname : N -> str.       (* _extract_lib_name *)
  Variable dirfrag : N -> frag.      (* how the directory is written *)

  Definition s_I : str := [45; 73].
  Definition s_L : str := [45; 76].
  Definition s_l : str := [45; 108].

  Definition inc_flag (d : N) : flag := [FStr s_I; dirfrag d].
  Definition libdir_flag (d : N) : flag := [FStr s_L; dirfrag d].
  Definition lib_flag (l : N) : flag := [FStr (s_l ++ libname l)].
  Definition str_flag (s : str) : flag := [FStr s].

  (* compiler.flags(option_list(include_dir..., options), mode='pkg-config') *)
  Definition cflags_words (includes : list N) (options : list str) : list flag :=
    map inc_flag (dedup_first (map incdir includes)) ++ map str_flag options.

  (* linker.flags(...) + linker.lib_flags(...) of option_list(lib..., link_options) *)
  Definition link_words (libs : list N) (lo : list str) : list flag :=
    map str_flag lo ++ map libdir_flag (dedup_first (map libdir libs)) ++ map lib_flag (dedup_first libs).

  Definition pc_cflags (d : data) : list flag := cflags_words (d_includes d) (d_options d).
  Definition pc_libs (d : data) : list flag := link_words (d_libs d) (d_lopts d).
  Definition pc_libs_private (d : data) : list flag := link_words (d_libs_private d) (d_lopts_private d).
End Words.
