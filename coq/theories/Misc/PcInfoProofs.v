(* Proofs about Misc/PcInfo.v: install.explicit as a set, auto_fill fills exactly the fields left None
   with exactly the installed headers / libraries, the packages a script writes, finalize (closure of the
   static forwarding, Libs vs Libs.private), membership in the three flag word lists. *)
From BFG Require Import Base.Chars Graph.LinkOrder Graph.LinkOrderProofs Misc.PcFile Misc.PcFileProofs Misc.PcInfo.
Local Open Scope N_scope.

Lemma kind_eqb_eq a b : kind_eqb a b = true <-> a = b.
Proof. destruct a, b; cbn; split; intros H; try reflexivity; discriminate. Qed.

Lemma item_eqb_eq a b : item_eqb a b = true <-> a = b.
Proof.
  destruct a as [k n], b as [k' n']. unfold item_eqb. cbn [fst snd].
  rewrite andb_true_iff, kind_eqb_eq, N.eqb_eq. split.
  - intros [H1 H2]. now subst.
  - intros H. inversion H. auto.
Qed.

Lemma item_mem_In x l : existsb (item_eqb x) l = true <-> In x l.
Proof.
  rewrite existsb_exists. split.
  - intros (y & Hy & E). apply item_eqb_eq in E. now subst.
  - intros H. exists x. split; [assumption|]. now apply item_eqb_eq.
Qed.

Lemma inst_add_In ex i x : In x (inst_add ex i) <-> In x ex \/ x = i.
Proof.
  unfold inst_add. destruct (existsb (item_eqb i) ex) eqn:E.
  - apply item_mem_In in E. split; [auto|]. intros [H|H]; [assumption|now subst].
  - rewrite in_app_iff. cbn. split.
    + intros [H|[H|[]]]; [now left|now right].
    + intros [H|H]; [now left|right; now left].
Qed.

Lemma inst_extend_In l : forall ex x, In x (inst_extend ex l) <-> In x ex \/ In x l.
Proof.
  induction l as [|i l IH]; intros ex x.
  - cbn. tauto.
  - change (inst_extend ex (i :: l)) with (inst_extend (inst_add ex i) l). rewrite IH, inst_add_In. cbn.
    split.
    + intros [[H|H]|H]; [now left|right; now left|right; now right].
    + intros [H|[H|H]]; [left; now left|left; now right|now right].
Qed.

Lemma inst_add_noop ex i : In i ex -> inst_add ex i = ex.
Proof. intros H. unfold inst_add. apply item_mem_In in H. now rewrite H. Qed.

(* installing what is installed already changes nothing *)
Lemma inst_extend_noop l : forall ex, (forall x, In x l -> In x ex) -> inst_extend ex l = ex.
Proof.
  induction l as [|i l IH]; intros ex H; [reflexivity|].
  change (inst_extend ex (i :: l)) with (inst_extend (inst_add ex i) l).
  rewrite inst_add_noop by (apply H; now left). apply IH. intros x Hx. apply H. now right.
Qed.

Lemma ids_of_In k ex n : In n (ids_of k ex) <-> In (k, n) ex.
Proof.
  unfold ids_of. rewrite in_map_iff. split.
  - intros ([k' n'] & E & H). cbn in E. subst n'. apply filter_In in H. destruct H as [H K].
    cbn in K. apply kind_eqb_eq in K. now subst.
  - intros H. exists (k, n). split; [reflexivity|]. apply filter_In. split; [assumption|].
    cbn. now apply kind_eqb_eq.
Qed.

(* the install() calls triggered by filling a field with the defaults are no-ops *)
Lemma autofill_installs_noop k ex : inst_extend ex (map (pair k) (dedup_first (ids_of k ex))) = ex.
Proof.
  apply inst_extend_noop. intros x Hx. apply in_map_iff in Hx. destruct Hx as (n & <- & Hn).
  apply (proj1 (dedup_first_In _ _)) in Hn. exact (proj1 (ids_of_In k ex n) Hn).
Qed.

Definition installs_of (a : action) : list item :=
  match a with AInstall l => l | APkg p => init_installs p end.

Lemma step_In ex a x : In x (step ex a) <-> In x ex \/ In x (installs_of a).
Proof. destruct a; cbn; apply inst_extend_In. Qed.

Lemma fold_step_In acts : forall ex x,
  In x (fold_left step acts ex) <-> In x ex \/ exists a, In a acts /\ In x (installs_of a).
Proof.
  induction acts as [|a r IH]; intros ex x; cbn [fold_left].
  - split; [auto|]. intros [H|(a & [] & _)]. assumption.
  - rewrite IH, step_In. split.
    + intros [[H|H]|(b & Hb & Hx)].
      * now left.
      * right. exists a. split; [now left|assumption].
      * right. exists b. split; [now right|assumption].
    + intros [H|(b & [Hb|Hb] & Hx)].
      * left. now left.
      * subst b. left. now right.
      * right. exists b. auto.
Qed.

(* install.explicit at the end of the script holds exactly what was passed to install() and the headers
   and libraries named in some pkg_config() call *)
Lemma explicit_after_In acts x :
  In x (explicit_after acts) <-> exists a, In a acts /\ In x (installs_of a).
Proof.
  unfold explicit_after. rewrite fold_step_In. split; [|auto]. intros [[]|H]. assumption.
Qed.

(* ------------------------------------------------------------------ auto_fill *)
Lemma final_info_fields pname pv ex a :
  let f := final_info pname pv ex a in
  i_includes f = match i_includes a with
                 | Some l => Some (dedup_first l)
                 | None => if i_auto a then Some (dedup_first (ids_of KHeader ex)) else None
                 end /\
  i_libs f = match i_libs a with
             | Some l => Some (dedup_first l)
             | None => if i_auto a then Some (dedup_first (ids_of KLib ex)) else None
             end /\
  i_libs_private f = option_map dedup_first (i_libs_private a) /\
  i_options f = i_options a /\ i_lopts f = i_lopts a /\ i_lopts_private f = i_lopts_private a /\
  i_auto f = i_auto a.
Proof.
  unfold final_info, autofill, init, set_list. cbn.
  destruct (i_auto a), (i_includes a), (i_libs a); cbn; repeat split; reflexivity.
Qed.

Lemma autofill_respects_explicit pname pv ex a :
  let f := final_info pname pv ex a in
  (forall l, i_includes a = Some l -> i_includes f = Some (dedup_first l)) /\
  (forall l, i_libs a = Some l -> i_libs f = Some (dedup_first l)) /\
  i_libs_private f = option_map dedup_first (i_libs_private a) /\
  (i_includes a = None -> i_includes f = if i_auto a then Some (dedup_first (ids_of KHeader ex)) else None) /\
  (i_libs a = None -> i_libs f = if i_auto a then Some (dedup_first (ids_of KLib ex)) else None) /\
  (forall h, In h (dedup_first (ids_of KHeader ex)) <-> In (KHeader, h) ex) /\
  (forall l, In l (dedup_first (ids_of KLib ex)) <-> In (KLib, l) ex) /\
  (forall l x, In x (dedup_first l) <-> In x l).
Proof.
  destruct (final_info_fields pname pv ex a) as (A & B & C & _).
  cbv zeta. split; [|split; [|split; [|split; [|split; [|split; [|split]]]]]].
  - intros l E. rewrite A, E. reflexivity.
  - intros l E. rewrite B, E. reflexivity.
  - exact C.
  - intros E. rewrite A, E. reflexivity.
  - intros E. rewrite B, E. reflexivity.
  - intros h. rewrite dedup_first_In. apply ids_of_In.
  - intros l. rewrite dedup_first_In. apply ids_of_In.
  - intros l x. apply dedup_first_In.
Qed.

Lemma final_info_name pname pv ex a :
  i_name (final_info pname pv ex a) =
    match i_name a with Some n => Some n | None => if i_auto a then Some pname else None end /\
  i_version (final_info pname pv ex a) =
    match i_version a with Some v => Some v | None => if i_auto a then pv else None end.
Proof. unfold final_info, autofill, init. cbn. destruct (i_auto a), (i_name a), (i_version a); cbn; split; reflexivity. Qed.

(* ------------------------------------------------------------------ the packages of a script *)
Definition pkgs_of (acts : list action) : list info :=
  flat_map (fun a => match a with APkg p => [p] | AInstall _ => [] end) acts.

Lemma written_go_spec pname pv final : forall acts ex,
  Forall2 (fun p f => exists ex', f = final_info pname pv ex' p /\ (i_auto p = true -> ex' = final))
          (pkgs_of acts) (written_go pname pv final ex acts).
Proof.
  induction acts as [|a r IH]; intros ex; cbn; [constructor|].
  destruct a as [l|p]; cbn.
  - apply IH.
  - constructor; [|apply IH]. eexists. split; [reflexivity|]. intros E. now rewrite E.
Qed.

(* every pkg_config() call yields one written package, in order; an auto_fill package sees install.explicit
   as it is after the whole script *)
Lemma written_spec pname pv acts :
  Forall2 (fun p f => exists ex', f = final_info pname pv ex' p /\ (i_auto p = true -> ex' = explicit_after acts))
          (pkgs_of acts) (written pname pv acts).
Proof. apply written_go_spec. Qed.

(* ------------------------------------------------------------------ finalize *)
Section Fin.
  Variable deps : lib -> list lib.
  Variable fwd : lib -> bool.
  Variable lopts : lib -> list str.

  Lemma finalize_spec fuel i d : finalize deps fwd lopts fuel i = Some (Some d) ->
    let user := or_nil (i_libs i) ++ or_nil (i_libs_private i) in
    d_includes d = or_nil (i_includes i) /\ d_options d = i_options i /\
    d_libs d = or_nil (i_libs i) /\ d_lopts d = i_lopts i /\
    NoDup (d_libs_private d) /\
    (forall x, In x (d_libs d ++ d_libs_private d) <-> reach deps fwd user x) /\
    (forall x, In x (d_libs_private d) -> In x (or_nil (i_libs_private i)) \/ ~ In x (d_libs d)) /\
    (forall o, In o (d_lopts_private d) <->
               In o (i_lopts_private i) \/ exists x, reach deps fwd user x /\ fwd x = true /\ In o (lopts x)).
  Proof.
    unfold finalize. destruct (visits deps fwd fuel _) as [v|] eqn:Ev; [|discriminate].
    destruct (i_name i) as [n|]; [|discriminate]. intros H. inversion H; subst d; clear H. cbn.
    set (libs := or_nil (i_libs i)) in *. set (lp := or_nil (i_libs_private i)) in *.
    assert (CA := closure_all deps fwd _ _ _ Ev).
    destruct (visits_spec deps fwd _ _ _ Ev) as (V1 & V2 & V3).
    repeat split; try reflexivity.
    - apply dedup_first_NoDup.
    - rewrite in_app_iff, dedup_first_In, in_app_iff, filter_In. intros [H|[H|[H _]]].
      + apply CA. rewrite !in_app_iff. left. now left.
      + apply CA. rewrite !in_app_iff. left. now right.
      + apply CA. rewrite !in_app_iff. now right.
    - intros R. apply CA in R. rewrite !in_app_iff in R.
      rewrite in_app_iff, dedup_first_In, in_app_iff, filter_In.
      destruct R as [[H|H]|H]; [now left|right; now left|].
      destruct (lib_mem x libs) eqn:M.
      + left. now apply lib_mem_In.
      + right. right. split; [assumption|]. reflexivity.
    - intros x Hx. apply (proj1 (dedup_first_In _ _)) in Hx. rewrite in_app_iff, filter_In in Hx.
      destruct Hx as [Hx|[_ Hx]]; [now left|]. right. cbv beta in Hx.
      apply lib_mem_nIn. now destruct (lib_mem x libs).
    - rewrite in_app_iff, in_flat_map. intros [(x & Hx & Ho)|H]; [|now left].
      right. exists x. destruct (V3 _ Hx) as [Fx Rx]. auto.
    - rewrite in_app_iff, in_flat_map. intros [H|(x & Rx & Fx & Ho)]; [now right|].
      left. exists x. split; [|assumption].
      destruct (reach_visited deps fwd _ _ _ Ev x Rx) as [_ Hv]. now apply Hv.
  Qed.
End Fin.

(* ------------------------------------------------------------------ the flag fields *)
Lemma cflags_words_In incdir dirfrag incs opts w :
  In w (cflags_words incdir dirfrag incs opts) <->
  (exists h, In h incs /\ w = inc_flag dirfrag (incdir h)) \/ (exists o, In o opts /\ w = str_flag o).
Proof.
  unfold cflags_words. rewrite in_app_iff, !in_map_iff. split.
  - intros [(d & E & H)|(o & E & H)].
    + apply (proj1 (dedup_first_In _ _)) in H. apply in_map_iff in H. destruct H as (h & E2 & Hh).
      left. exists h. subst. auto.
    + right. exists o. auto.
  - intros [(h & Hh & E)|(o & Ho & E)].
    + left. exists (incdir h). split; [now subst|]. apply (proj2 (dedup_first_In _ _)). apply in_map_iff. eauto.
    + right. exists o. auto.
Qed.

Lemma link_words_In libdir libname dirfrag libs lo w :
  In w (link_words libdir libname dirfrag libs lo) <->
  (exists o, In o lo /\ w = str_flag o) \/
  (exists l, In l libs /\ w = libdir_flag dirfrag (libdir l)) \/
  (exists l, In l libs /\ w = lib_flag libname l).
Proof.
  unfold link_words. rewrite !in_app_iff, !in_map_iff. split.
  - intros [(o & E & H)|[(d & E & H)|(l & E & H)]].
    + left. exists o. auto.
    + apply (proj1 (dedup_first_In _ _)) in H. apply in_map_iff in H. destruct H as (l & E2 & Hl).
      right. left. exists l. subst. auto.
    + apply (proj1 (dedup_first_In _ _)) in H. right. right. exists l. auto.
  - intros [(o & Ho & E)|[(l & Hl & E)|(l & Hl & E)]].
    + left. exists o. auto.
    + right. left. exists (libdir l). split; [now subst|]. apply (proj2 (dedup_first_In _ _)). apply in_map_iff. eauto.
    + right. right. exists l. split; [now subst|]. now apply (proj2 (dedup_first_In _ _)).
Qed.

(* a package without include directories: the Cflags field is read back by the pkgconf reader model as
   exactly the declared options (Misc/PcFileProofs.fields_rt) *)
Lemma declared_options_rt uw vars incdir dirfrag d :
  d_includes d = [] -> forallb nonempty (d_options d) = true ->
  pc_clean (write_each uw true [c_sp] (pc_cflags incdir dirfrag d)) = true ->
  pc_argv (pc_subst vars (pc_comment false (write_each uw true [c_sp] (pc_cflags incdir dirfrag d))))
  = Some (d_options d).
Proof.
  unfold pc_cflags, cflags_words. intros E. rewrite E. cbn [map dedup_first fold_left app].
  apply fields_rt.
Qed.
