(* Script execution of bfg9000 (build.py _execute_script / execute_file, builtins/core.py submodule / export,
   builtins/builtin.py StackContext: path stack, exports, seen_paths; builtins/path.py relpath / relname /
   buildpath) on an abstract script language.  Model only; proofs are in ScopeProofs.v.

   Paths are (root, list of components); the suffix string of the implementation is the components joined
   with a slash.  Only what script-relative resolution needs is modelled here (split, posixpath.normpath on
   relative paths, the escape check, the drive / leading-separator classification); the full path algebra is
   the subject of C12.  os.path.expanduser is taken to be the identity (true for every string that does not
   start with a tilde). *)
From BFG Require Import Base.Chars.
From Coq Require Import String.
Local Open Scope N_scope.

Definition name := str.

(* ------------------------------------------------------------------------------------------ paths *)
Definition is_nil {T} (l : list T) : bool := match l with [] => true | _ => false end.
Definition is_sep (c : char) : bool := N.eqb c c_slash || N.eqb c c_bs.

(* path.replace(backslash, slash).split(slash): never empty *)
Fixpoint split_sep (s : str) : list str :=
  match s with
  | [] => [[]]
  | c :: r =>
      if is_sep c then [] :: split_sep r
      else match split_sep r with
           | [] => [[c]]
           | h :: t => (c :: h) :: t
           end
  end.

Definition dot : str := STR ".".
Definition dotdot : str := STR "..".
Definition skip_comp (c : str) : bool := is_nil c || str_eqb c dot.

(* one iteration of the loop of posixpath.normpath (initial_slashes = 0); the stack is kept reversed *)
Definition norm_step (acc : list str) (c : str) : list str :=
  if skip_comp c then acc
  else if negb (str_eqb c dotdot) then c :: acc
  else match acc with
       | [] => c :: acc
       | t :: acc' => if str_eqb t dotdot then c :: acc else acc'
       end.
Definition norm_st (acc : list str) (cs : list str) : list str := fold_left norm_step cs acc.
Definition normc (cs : list str) : list str := rev (norm_st [] cs).

(* normpath == '..' or normpath.startswith('../') *)
Definition escapes (cs : list str) : bool :=
  match cs with c :: _ => str_eqb c dotdot | [] => false end.

(* ntpath.splitdrive + posixpath.isabs, as used by BasePath.__init__ *)
Inductive pclass := CRel | CNonRel | CDriveErr.
Definition classify (p : str) : pclass :=
  match p with
  | [] => CRel
  | c1 :: r1 =>
      if is_sep c1 then CNonRel
      else match r1 with
           | c2 :: r2 =>
               if N.eqb c2 c_colon then
                 match r2 with
                 | c3 :: _ => if is_sep c3 then CNonRel else CDriveErr
                 | [] => CDriveErr
                 end
               else CRel
           | [] => CRel
           end
  end.

Inductive root := Src | Bld.
(* POk: a path under srcdir / builddir; PNonRel: the string starts with a separator or a drive + separator
   (an absolute / UNC path: Root.absolute or a drive error, see C12); PErr: ValueError *)
Inductive pres := POk (r : root) (cs : list str) (isdir : bool) | PNonRel | PErr.

(* posixpath.basename(path) in ('', '.', '..') *)
Definition dirlike (p : str) : bool :=
  let l := last (split_sep p) [] in is_nil l || str_eqb l dot || str_eqb l dotdot.

(* BasePath(p, root=<path with components base>) : __join(root.suffix, p), escape check, directory flag *)
Definition path_new (p : str) (r : root) (base : list str) : pres :=
  match classify p with
  | CNonRel => PNonRel
  | CDriveErr => PErr
  | CRel =>
      let cs := normc (base ++ split_sep p) in
      if escapes cs then PErr else POk r cs (dirlike p || is_nil cs)
  end.

Fixpoint join_slash (cs : list str) : str :=
  match cs with
  | [] => []
  | [c] => c
  | c :: r => c ++ c_slash :: join_slash r
  end.

(* Path.ensure(p, base, strict=strict) *)
Definition ensure (p : str) (r : root) (base : list str) (strict : bool) : pres :=
  match path_new p r base with
  | PNonRel => if strict then PErr else PNonRel
  | x => x
  end.

(* BasePath.parent(): dirname of the suffix.  The current script path always has the file name as its last
   component, so the "already at root" error cannot occur. *)
Definition parent (cs : list str) : list str := removelast cs.

(* builtins/path.py *)
Definition relpath (cur : list str) (p : str) (strict : bool) : pres := ensure p Src (parent cur) strict.
Definition buildpath (cur : list str) (p : str) (strict : bool) : pres := ensure p Bld (parent cur) strict.

(* Path(relname(context, name)): the suffix of relpath(name) is parsed again as a builddir path *)
Definition relname_path (cur : list str) (p : str) : pres :=
  match relpath cur p false with
  | POk _ cs _ => path_new (join_slash cs) Bld []
  | x => x
  end.

(* ------------------------------------------------------------------------------------------ scripts *)
(* what the builtin does with the resolved path: returns it (relpath, auto_file), wraps it in a File
   (file_types.File: ValueError for a directory path) or in a Directory (path.as_directory(): a path that
   is not yet a directory is built again from its suffix string, which parses that string once more) *)
Inductive ikind := KPath | KFile | KDir.
Definition as_kind (k : ikind) (r : pres) : pres :=
  match k, r with
  | KFile, POk _ _ true => PErr
  | KDir, POk rt cs false =>
      match path_new (join_slash cs) rt [] with
      | POk rt' cs' _ => POk rt' cs' true
      | x => x
      end
  | _, _ => r
  end.

Inductive stmt :=
| Assign (x : name) (v : str)                  (* x = 'v' *)
| Read (x : name)                              (* probe: evaluate the name x *)
| Submodule (d : str)                          (* probe around submodule('d') *)
| Export (x : name) (v : str)                  (* export(x='v') *)
| Input (k : ikind) (f : name) (p : str)       (* f('p') for an input builtin f: resolves through relpath *)
| Output (k : ikind) (f : name) (p : str)      (* a target name: Path(relname(p)) *)
| OutDir (f : name) (p : str) (strict : bool). (* a directory= argument: buildpath(p, strict) *)

Inductive exn := XValue | XType | XName | XNotFound | XNonRel.
Inductive lres := LVal (v : str) | LBuiltin | LNameErr.
Definition genv := list (name * str).
Inductive outcome := ODone (exports : genv) | OCrash (e : exn).

Inductive event :=
| EAssign (x : name) (v : str)
| ERead (x : name) (r : lres)
| EExport (x : name) (v : str)
| EInput (k : ikind) (f : name) (p : str) (r : pres)
| EOutput (k : ikind) (f : name) (p : str) (r : pres)
| EOutDir (f : name) (p : str) (strict : bool) (r : pres)
| ESubErr (d : str) (e : exn)                                  (* submodule() raised before the callee started *)
| ESub (d : str) (path : list str) (body : list event) (o : outcome).  (* the callee ran; o is what it gave back *)

Fixpoint assoc {V} (k : str) (l : list (str * V)) : option V :=
  match l with
  | [] => None
  | (k', v) :: r => if str_eqb k' k then Some v else assoc k r
  end.

(* dict[k] = v : an existing key keeps its position *)
Fixpoint set_var (g : genv) (x : name) (v : str) : genv :=
  match g with
  | [] => [(x, v)]
  | (y, w) :: r => if str_eqb y x then (y, v) :: r else (y, w) :: set_var r x v
  end.

Fixpoint comps_eqb (a b : list str) : bool :=
  match a, b with
  | [], [] => true
  | x :: a', y :: b' => str_eqb x y && comps_eqb a' b'
  | _, _ => false
  end.

Fixpoint assoc_l {V} (k : list str) (l : list (list str * V)) : option V :=
  match l with
  | [] => None
  | (k', v) :: r => if comps_eqb k' k then Some v else assoc_l k r
  end.

Definition n_submodule : name := STR "submodule".
Definition n_export : name := STR "export".

Section Exec.
  Variable bi : name -> bool.       (* the names bound in context.builtins *)
  Variable fname : str.             (* context.filename: build.bfg / options.bfg *)
  Variable tree : list (list str * list stmt).   (* script path (components) -> script text *)

  (* name lookup of the interpreter: script globals, then the builtins dict *)
  Definition lookup (g : genv) (x : name) : lres :=
    match assoc x g with
    | Some v => LVal v
    | None => if bi x then LBuiltin else LNameErr
    end.

  (* calling the name f: fine when it still denotes the builtin; TypeError when the script rebound it to a
     string; NameError when nothing is bound *)
  Definition callable (g : genv) (f : name) : option exn :=
    match lookup g f with
    | LBuiltin => None
    | LVal _ => Some XType
    | LNameErr => Some XName
    end.

  (* one script body.  call = execute_file for the callee (None = out of fuel).
     depth = len(context.path_stack), cur = context.path, g = the dict given to exec(), ex = the exports of
     the top PathEntry. *)
  Fixpoint steps (call : nat -> list str -> list stmt -> option (list event * outcome))
           (depth : nat) (cur : list str) (g ex : genv) (ss : list stmt) {struct ss}
    : option (list event * outcome) :=
    match ss with
    | [] => Some ([], ODone ex)
    | s :: rest =>
        let cont (e : event) (g' ex' : genv) :=
          match steps call depth cur g' ex' rest with
          | Some (evs, o) => Some (e :: evs, o)
          | None => None
          end in
        match s with
        | Assign x v => cont (EAssign x v) (set_var g x v) ex
        | Read x => cont (ERead x (lookup g x)) g ex
        | Export x v =>
            match callable g n_export with
            | Some e => Some ([], OCrash e)
            | None =>
                if Nat.eqb depth 1 then Some ([], OCrash XValue)
                else cont (EExport x v) g (set_var ex x v)
            end
        | Input k f p =>
            match callable g f with
            | Some e => Some ([], OCrash e)
            | None => cont (EInput k f p (as_kind k (relpath cur p false))) g ex
            end
        | Output k f p =>
            match callable g f with
            | Some e => Some ([], OCrash e)
            | None => cont (EOutput k f p (as_kind k (relname_path cur p))) g ex
            end
        | OutDir f p strict =>
            match callable g f with
            | Some e => Some ([], OCrash e)
            | None => cont (EOutDir f p strict (buildpath cur p strict)) g ex
            end
        | Submodule d =>
            match callable g n_submodule with
            | Some e => cont (ESubErr d e) g ex
            | None =>
                match relpath cur d false with
                | PErr => cont (ESubErr d XValue) g ex
                | PNonRel => cont (ESubErr d XNonRel) g ex
                | POk _ cs _ =>
                    let sp := normc (cs ++ split_sep fname) in      (* .append(context.filename) *)
                    match assoc_l sp tree with
                    | None => cont (ESubErr d XNotFound) g ex        (* open() fails before push_path *)
                    | Some body =>
                        match call (S depth) sp body with
                        | None => None
                        | Some (evs, o) => cont (ESub d sp evs o) g ex
                        end
                    end
                end
            end
        end
    end.

  (* _execute_script: push_path (a new PathEntry with empty exports), exec with a NEW globals dict, pop *)
  Fixpoint run (fuel : nat) (depth : nat) (cur : list str) (body : list stmt) : option (list event * outcome) :=
    match fuel with
    | O => None
    | S fuel' => steps (run fuel') depth cur [] [] body
    end.

  (* configure_build / _execute_options: the root script is Path(filename, Root.srcdir) *)
  Definition root_path : list str := normc (split_sep fname).
  Definition exec_root (fuel : nat) : option (list event * outcome) :=
    match assoc_l root_path tree with
    | None => None
    | Some body => run fuel 1 root_path body
    end.
End Exec.

(* context.seen_paths: every pushed path, in order (without the root script itself) *)
Fixpoint seen_ev (e : event) : list (list str) :=
  match e with
  | ESub _ p body _ => p :: flat_map seen_ev body
  | _ => []
  end.
Definition seen_paths (evs : list event) : list (list str) := flat_map seen_ev evs.
