(* Proofs about Misc/Scope.v: normalisation of relative paths, and the structure of execution traces. *)
From BFG Require Import Base.Chars Misc.Scope.
From Coq Require Import String Lia PeanoNat.
Local Open Scope N_scope.
Local Arguments str_eqb : simpl never.
Local Opaque dotdot dot.

(* ------------------------------------------------------------------------------------------ strings *)
Lemma str_eqb_false_neq a b : str_eqb a b = false <-> a <> b.
Proof.
  split.
  - intros H E. apply str_eqb_eq in E. congruence.
  - intros H. destruct (str_eqb a b) eqn:E; [apply str_eqb_eq in E; contradiction|reflexivity].
Qed.

Lemma str_eqb_sym a b : str_eqb a b = str_eqb b a.
Proof.
  destruct (str_eqb a b) eqn:E.
  - apply str_eqb_eq in E. subst. symmetry. apply str_eqb_refl.
  - symmetry. apply str_eqb_false_neq. apply str_eqb_false_neq in E. congruence.
Qed.

(* ------------------------------------------------------------------------------------------ normpath *)
Definition plain (c : str) : bool := negb (skip_comp c) && negb (str_eqb c dotdot).

(* a well-formed stack (top first): plain components above a block of dotdots *)
Fixpoint wf (acc : list str) : Prop :=
  match acc with
  | [] => True
  | t :: r => if str_eqb t dotdot then Forall (fun c => c = dotdot) r else plain t = true /\ wf r
  end.

Lemma wf_all_dd r : Forall (fun c => c = dotdot) r -> wf r.
Proof.
  induction 1 as [|c r Hc Hr IH]; cbn; [exact I|]. subst c. rewrite str_eqb_refl.
  exact Hr.
Qed.

Lemma norm_step_wf acc c : wf acc -> wf (norm_step acc c).
Proof.
  intros H. unfold norm_step. destruct (skip_comp c) eqn:Hs; [assumption|].
  destruct (str_eqb c dotdot) eqn:Hd; cbn [negb].
  - apply str_eqb_eq in Hd. subst c. destruct acc as [|t r]; cbn.
    + constructor.
    + destruct (str_eqb t dotdot) eqn:Ht.
      * cbn in H. rewrite Ht in H. cbn. apply str_eqb_eq in Ht. subst t. constructor; [reflexivity|assumption].
      * cbn in H. rewrite Ht in H. tauto.
  - cbn. rewrite Hd. split; [|assumption]. unfold plain. rewrite Hs, Hd. reflexivity.
Qed.

Lemma norm_st_wf cs : forall acc, wf acc -> wf (norm_st acc cs).
Proof.
  unfold norm_st. induction cs as [|c cs IH]; intros acc H; cbn; [assumption|].
  apply IH, norm_step_wf, H.
Qed.

Lemma norm_st_app a b acc : norm_st acc (a ++ b) = norm_st (norm_st acc a) b.
Proof. unfold norm_st. apply fold_left_app. Qed.

Lemma plain_not_dd c : plain c = true -> str_eqb c dotdot = false.
Proof. unfold plain. intros H. apply andb_true_iff in H. destruct H as [_ H]. now apply negb_true_iff in H. Qed.

Lemma plain_not_skip c : plain c = true -> skip_comp c = false.
Proof. unfold plain. intros H. apply andb_true_iff in H. destruct H as [H _]. now apply negb_true_iff in H. Qed.

Lemma norm_st_plain l : Forall (fun c => plain c = true) l -> forall acc, norm_st acc l = rev l ++ acc.
Proof.
  unfold norm_st. induction 1 as [|c l Hc _ IH]; intros acc; cbn; [reflexivity|].
  rewrite IH. unfold norm_step. rewrite (plain_not_skip _ Hc), (plain_not_dd _ Hc). cbn.
  rewrite <- app_assoc. reflexivity.
Qed.

(* a well-formed stack whose bottom is not a dotdot consists of plain components only *)
Lemma wf_no_escape acc : wf acc -> escapes (rev acc) = false -> Forall (fun c => plain c = true) acc.
Proof.
  induction acc as [|t r IH]; intros Hw He; [constructor|].
  cbn in Hw. destruct (str_eqb t dotdot) eqn:Ht.
  - exfalso. apply str_eqb_eq in Ht. subst t.
    assert (Hall : Forall (fun c => c = dotdot) (rev (dotdot :: r))).
    { apply Forall_rev. constructor; [reflexivity|assumption]. }
    destruct (rev (dotdot :: r)) as [|h tl] eqn:Er.
    + apply (f_equal (@List.length str)) in Er. rewrite rev_length in Er. cbn in Er. discriminate.
    + inversion Hall as [|? ? Hh _]; subst. cbn in He. rewrite str_eqb_refl in He. discriminate.
  - destruct Hw as [Hp Hw]. constructor; [assumption|]. apply IH; [assumption|].
    cbn in He. destruct (rev r) as [|h tl] eqn:Er; [reflexivity|]. cbn in He. exact He.
Qed.

Lemma normc_plain cs : escapes (normc cs) = false -> Forall (fun c => plain c = true) (normc cs).
Proof.
  intros H. unfold normc in *. apply Forall_rev. apply wf_no_escape; [apply norm_st_wf; exact I|assumption].
Qed.

(* re-rooting is compositional: joining onto an already normalised, non-escaping prefix equals normalising
   the whole concatenation at once *)
Lemma normc_compose a b : escapes (normc a) = false -> normc (normc a ++ b) = normc (a ++ b).
Proof.
  intros H. unfold normc at 1 3. f_equal. rewrite !norm_st_app. f_equal.
  pose proof (normc_plain a H) as Hp. rewrite (norm_st_plain _ Hp). unfold normc. rewrite rev_involutive.
  apply app_nil_r.
Qed.

Lemma normc_plain_id l : Forall (fun c => plain c = true) l -> normc l = l.
Proof. intros H. unfold normc. rewrite (norm_st_plain _ H), app_nil_r. apply rev_involutive. Qed.

Lemma normc_idem cs : escapes (normc cs) = false -> normc (normc cs) = normc cs.
Proof. intros H. apply normc_plain_id, normc_plain, H. Qed.

(* leaving the root: walking the components from depth n, some dotdot is met at depth 0 *)
Fixpoint leaves (n : nat) (cs : list str) : bool :=
  match cs with
  | [] => false
  | c :: r =>
      if skip_comp c then leaves n r
      else if str_eqb c dotdot then match n with O => true | S m => leaves m r end
      else leaves (S n) r
  end.

Lemma escapes_bottom_dd cs : forall acc, escapes (rev acc) = true -> wf acc -> escapes (rev (norm_st acc cs)) = true.
Proof.
  unfold norm_st. induction cs as [|c cs IH]; intros acc He Hw; cbn; [assumption|].
  apply IH; [|apply norm_step_wf, Hw].
  unfold norm_step. destruct (skip_comp c); [assumption|].
  destruct (str_eqb c dotdot) eqn:Hd; cbn [negb].
  - destruct acc as [|t r]; [cbn in He; discriminate|].
    destruct (str_eqb t dotdot) eqn:Ht.
    + cbn [rev]. cbn [rev] in He. destruct (rev r) as [|h tl]; cbn in *; assumption.
    + (* popping the top: the bottom stays *)
      cbn in Hw. rewrite Ht in Hw. destruct Hw as [Hp Hw].
      cbn [rev] in He. destruct (rev r) as [|h tl] eqn:Er.
      * cbn in He. rewrite Ht in He. discriminate.
      * cbn in *. assumption.
  - cbn [rev]. destruct (rev acc) as [|h tl]; [cbn in He; discriminate|]. cbn in *. assumption.
Qed.

Lemma escapes_leaves cs : forall acc, Forall (fun c => plain c = true) acc ->
  escapes (rev (norm_st acc cs)) = leaves (List.length acc) cs.
Proof.
  induction cs as [|c cs IH]; intros acc Hp.
  - cbn. destruct acc as [|t r]; [reflexivity|].
    cbn [rev]. inversion Hp as [|? ? Ht Hr]; subst.
    assert (Hall : Forall (fun c => plain c = true) (rev r ++ [t])).
    { apply Forall_app. split; [apply Forall_rev, Hr|constructor; [assumption|constructor]]. }
    destruct (rev r ++ [t]) as [|h tl] eqn:E; [reflexivity|].
    inversion Hall; subst. cbn. now apply plain_not_dd.
  - change (norm_st acc (c :: cs)) with (norm_st (norm_step acc c) cs). cbn [leaves].
    unfold norm_step. destruct (skip_comp c) eqn:Hs; [apply IH, Hp|].
    destruct (str_eqb c dotdot) eqn:Hd; cbn [negb].
    + destruct acc as [|t r].
      * cbn [List.length]. apply escapes_bottom_dd.
        -- cbn. exact Hd.
        -- cbn. rewrite Hd. constructor.
      * inversion Hp as [|? ? Ht Hr]; subst. rewrite (plain_not_dd _ Ht). cbn [List.length]. apply IH, Hr.
    + rewrite IH; [reflexivity|]. constructor; [|assumption]. unfold plain. rewrite Hs, Hd. reflexivity.
Qed.

Theorem escapes_iff_leaves cs : escapes (normc cs) = leaves 0 cs.
Proof. unfold normc. apply (escapes_leaves cs []). constructor. Qed.

(* ------------------------------------------------------------------------------------------ traces *)
Definition ev_stmt (e : event) : stmt :=
  match e with
  | EAssign x v => Assign x v
  | ERead x _ => Read x
  | EExport x v => Export x v
  | EInput k f p _ => Input k f p
  | EOutput k f p _ => Output k f p
  | EOutDir f p s _ => OutDir f p s
  | ESubErr d _ => Submodule d
  | ESub d _ _ _ => Submodule d
  end.

(* the globals / exports a script has built itself: only its OWN top-level events count *)
Definition g_step (g : genv) (e : event) : genv := match e with EAssign x v => set_var g x v | _ => g end.
Definition ex_step (ex : genv) (e : event) : genv := match e with EExport x v => set_var ex x v | _ => ex end.
Definition globals_of (g : genv) (evs : list event) : genv := fold_left g_step evs g.
Definition exports_of (ex : genv) (evs : list event) : genv := fold_left ex_step evs ex.

(* every activation of a script inside a trace: depth, chain of submodule arguments leading to it, script
   path, its events, what it gave back *)
Definition actrec := (nat * list str * list str * list event * outcome)%type.
Fixpoint acts_ev (depth : nat) (chain : list str) (e : event) : list actrec :=
  match e with
  | ESub d p body o => (S depth, chain ++ [d], p, body, o) :: flat_map (acts_ev (S depth) (chain ++ [d])) body
  | _ => []
  end.
Definition acts (depth : nat) (chain cur : list str) (evs : list event) (o : outcome) : list actrec :=
  (depth, chain, cur, evs, o) :: flat_map (acts_ev depth chain) evs.

Definition fname_ok (fname : str) : Prop := split_sep fname = [fname] /\ plain fname = true.
Definition dirc (chain : list str) : list str := normc (flat_map split_sep chain).

Section Traces.
  Variable bi : name -> bool.
  Variable fname : str.
  Variable tree : list (list str * list stmt).
  Notation steps := (steps bi fname tree).
  Notation run := (run bi fname tree).

  Definition ev_ok (call : nat -> list str -> list stmt -> option (list event * outcome))
             (depth : nat) (cur : list str) (e : event) : Prop :=
    match e with
    | EInput k f p r => r = as_kind k (relpath cur p false)
    | EOutput k f p r => r = as_kind k (relname_path cur p)
    | EOutDir f p s r => r = buildpath cur p s
    | EExport _ _ => depth <> 1%nat
    | ESub d sp body o' =>
        exists rt cs isd ss', relpath cur d false = POk rt cs isd /\ sp = normc (cs ++ split_sep fname) /\
                              assoc_l sp tree = Some ss' /\ call (S depth) sp ss' = Some (body, o')
    | _ => True
    end.

  (* what one execution of a script body guarantees about its own events *)
  Definition spec call depth cur (g ex : genv) (ss : list stmt) (evs : list event) (o : outcome) : Prop :=
    map ev_stmt evs = firstn (List.length evs) ss
    /\ (forall ex', o = ODone ex' -> List.length evs = List.length ss /\ ex' = exports_of ex evs)
    /\ (forall pre x r post, evs = pre ++ ERead x r :: post -> r = lookup bi (globals_of g pre) x)
    /\ (forall e, In e evs -> ev_ok call depth cur e).

  Lemma spec_nil call depth cur g ex : spec call depth cur g ex [] [] (ODone ex).
  Proof.
    split; [reflexivity|]. split; [|split].
    - intros ex' H. inversion H. split; reflexivity.
    - intros pre x r post H. destruct pre; discriminate.
    - intros e [].
  Qed.

  Lemma spec_crash call depth cur g ex s rest x : spec call depth cur g ex (s :: rest) [] (OCrash x).
  Proof.
    split; [reflexivity|]. split; [|split].
    - intros ex' H. discriminate.
    - intros pre y r post H. destruct pre; discriminate.
    - intros e [].
  Qed.

  Lemma spec_cons call depth cur g ex s rest e evs o :
    ev_stmt e = s -> (forall x r, e = ERead x r -> r = lookup bi g x) -> ev_ok call depth cur e ->
    spec call depth cur (g_step g e) (ex_step ex e) rest evs o ->
    spec call depth cur g ex (s :: rest) (e :: evs) o.
  Proof.
    intros Hs Hr Hok (H1 & H2 & H3 & H4). split; [|split; [|split]].
    - cbn. rewrite Hs, H1. reflexivity.
    - intros ex' H. destruct (H2 ex' H) as [Ha Hb]. split; [cbn; f_equal; exact Ha|exact Hb].
    - intros pre x r post Heq. destruct pre as [|e' pre]; cbn in Heq; inversion Heq; subst.
      + cbn. apply Hr. reflexivity.
      + cbn. eapply H3. reflexivity.
    - intros e' [<-|Hin]; [assumption|apply H4, Hin].
  Qed.

  Lemma steps_spec call depth cur : forall ss g ex evs o,
    steps call depth cur g ex ss = Some (evs, o) -> spec call depth cur g ex ss evs o.
  Proof.
    induction ss as [|s rest IH]; intros g ex evs o H.
    - cbn in H. inversion H; subst. apply spec_nil.
    - destruct s as [x v|x|d|x v|k f p|k f p|f p st]; cbn [Scope.steps] in H.
      + destruct (steps call depth cur (set_var g x v) ex rest) as [[evs' o']|] eqn:E; inversion H; subst.
        apply spec_cons; [reflexivity|discriminate|exact I|apply IH, E].
      + destruct (steps call depth cur g ex rest) as [[evs' o']|] eqn:E; inversion H; subst.
        apply spec_cons; [reflexivity| |exact I|apply IH, E].
        intros y r Hy. inversion Hy. reflexivity.
      + destruct (callable bi g n_submodule) as [e|].
        { destruct (steps call depth cur g ex rest) as [[evs' o']|] eqn:E; inversion H; subst.
          apply spec_cons; [reflexivity|discriminate|exact I|apply IH, E]. }
        destruct (relpath cur d false) as [rt cs isd| |] eqn:Er.
        * destruct (assoc_l (normc (cs ++ split_sep fname)) tree) as [body|] eqn:Ea.
          -- destruct (call (S depth) (normc (cs ++ split_sep fname)) body) as [[bevs bo]|] eqn:Ec; [|discriminate].
             destruct (steps call depth cur g ex rest) as [[evs' o']|] eqn:E; inversion H; subst.
             apply spec_cons; [reflexivity|discriminate| |apply IH, E].
             cbn. exists rt, cs, isd, body. auto.
          -- destruct (steps call depth cur g ex rest) as [[evs' o']|] eqn:E; inversion H; subst.
             apply spec_cons; [reflexivity|discriminate|exact I|apply IH, E].
        * destruct (steps call depth cur g ex rest) as [[evs' o']|] eqn:E; inversion H; subst.
          apply spec_cons; [reflexivity|discriminate|exact I|apply IH, E].
        * destruct (steps call depth cur g ex rest) as [[evs' o']|] eqn:E; inversion H; subst.
          apply spec_cons; [reflexivity|discriminate|exact I|apply IH, E].
      + destruct (callable bi g n_export) as [e|]; [inversion H; subst; apply spec_crash|].
        destruct (Nat.eqb depth 1) eqn:Ed; [inversion H; subst; apply spec_crash|].
        destruct (steps call depth cur g (set_var ex x v) rest) as [[evs' o']|] eqn:E; inversion H; subst.
        apply spec_cons; [reflexivity|discriminate| |apply IH, E].
        cbn. apply Nat.eqb_neq, Ed.
      + destruct (callable bi g f) as [e|]; [inversion H; subst; apply spec_crash|].
        destruct (steps call depth cur g ex rest) as [[evs' o']|] eqn:E; inversion H; subst.
        apply spec_cons; [reflexivity|discriminate|reflexivity|apply IH, E].
      + destruct (callable bi g f) as [e|]; [inversion H; subst; apply spec_crash|].
        destruct (steps call depth cur g ex rest) as [[evs' o']|] eqn:E; inversion H; subst.
        apply spec_cons; [reflexivity|discriminate|reflexivity|apply IH, E].
      + destruct (callable bi g f) as [e|]; [inversion H; subst; apply spec_crash|].
        destruct (steps call depth cur g ex rest) as [[evs' o']|] eqn:E; inversion H; subst.
        apply spec_cons; [reflexivity|discriminate|reflexivity|apply IH, E].
  Qed.
End Traces.

(* ------------------------------------------------------------------------------------------ lookups *)
Lemma assoc_set_same g x v : assoc x (set_var g x v) = Some v.
Proof.
  induction g as [|[y w] g IH]; cbn.
  - rewrite str_eqb_refl. reflexivity.
  - destruct (str_eqb y x) eqn:E; cbn; rewrite E; [reflexivity|exact IH].
Qed.

Lemma assoc_set_other g x y v : str_eqb y x = false -> assoc x (set_var g y v) = assoc x g.
Proof.
  intros Hn. induction g as [|[z w] g IH]; cbn.
  - rewrite Hn. reflexivity.
  - destruct (str_eqb z y) eqn:E; cbn.
    + apply str_eqb_eq in E. subst z. rewrite Hn. reflexivity.
    + destruct (str_eqb z x); [reflexivity|exact IH].
Qed.

Definition no_assign (x : name) (evs : list event) : Prop := forall w, ~ In (EAssign x w) evs.

(* the value a script finds under x is its own LAST top-level assignment to x, or what was there before *)
Lemma globals_of_assoc x v : forall pre g,
  assoc x (globals_of g pre) = Some v ->
  (assoc x g = Some v /\ no_assign x pre) \/
  (exists pre1 pre2, pre = pre1 ++ EAssign x v :: pre2 /\ no_assign x pre2).
Proof.
  induction pre as [|e pre IH]; intros g H.
  - left. split; [exact H|]. intros w [].
  - change (globals_of g (e :: pre)) with (globals_of (g_step g e) pre) in H.
    destruct (IH _ H) as [[Ha Hn]|(p1 & p2 & -> & Hn)].
    + destruct e as [y w| | | | | | |]; cbn [g_step] in Ha;
        try (left; split; [exact Ha|]; intros w' [Hc|Hc]; [discriminate|exact (Hn w' Hc)]).
      destruct (str_eqb y x) eqn:E.
      * apply str_eqb_eq in E. subst y. rewrite assoc_set_same in Ha. inversion Ha; subst.
        right. exists [], pre. split; [reflexivity|exact Hn].
      * rewrite (assoc_set_other _ _ _ _ E) in Ha. left. split; [exact Ha|].
        intros w' [Hc|Hc]; [|exact (Hn w' Hc)]. inversion Hc; subst. rewrite str_eqb_refl in E. discriminate.
    + right. exists (e :: p1), p2. split; [reflexivity|exact Hn].
Qed.

Lemma globals_of_none x : forall pre g, no_assign x pre -> assoc x (globals_of g pre) = assoc x g.
Proof.
  induction pre as [|e pre IH]; intros g Hn; [reflexivity|].
  change (globals_of g (e :: pre)) with (globals_of (g_step g e) pre).
  rewrite IH by (intros w Hc; apply (Hn w); right; exact Hc).
  destruct e as [y w| | | | | | |]; try reflexivity. cbn [g_step].
  apply assoc_set_other. destruct (str_eqb y x) eqn:E; [|reflexivity].
  apply str_eqb_eq in E. subst y. exfalso. apply (Hn w). left. reflexivity.
Qed.

(* ------------------------------------------------------------------------------------------ paths *)
Lemma path_new_ok p r base rt cs isd : path_new p r base = POk rt cs isd ->
  rt = r /\ classify p = CRel /\ cs = normc (base ++ split_sep p) /\ escapes cs = false.
Proof.
  unfold path_new. destruct (classify p); try discriminate.
  destruct (escapes (normc (base ++ split_sep p))) eqn:E; [discriminate|].
  intros H. inversion H; subst. auto.
Qed.

Lemma ensure_rel p r base strict : classify p = CRel ->
  ensure p r base strict =
    (let cs := normc (base ++ split_sep p) in if escapes cs then PErr else POk r cs (dirlike p || is_nil cs)).
Proof.
  intros Hc. unfold ensure, path_new. rewrite Hc. cbn zeta.
  destruct (escapes (normc (base ++ split_sep p))); reflexivity.
Qed.

Lemma ensure_ok p r base strict rt cs isd : ensure p r base strict = POk rt cs isd -> path_new p r base = POk rt cs isd.
Proof. unfold ensure. destruct (path_new p r base); try discriminate; [auto|destruct strict; discriminate]. Qed.

Lemma flat_map_snoc {A B} (f : A -> list B) l x : flat_map f (l ++ [x]) = flat_map f l ++ f x.
Proof. rewrite flat_map_app. cbn. rewrite app_nil_r. reflexivity. Qed.

Lemma dirc_snoc chain d : escapes (dirc chain) = false -> normc (dirc chain ++ split_sep d) = dirc (chain ++ [d]).
Proof. intros H. unfold dirc in *. rewrite flat_map_snoc. apply normc_compose, H. Qed.

Lemma exports_none a : (forall x v, ~ In (EExport x v) a) -> forall g, exports_of g a = g.
Proof.
  unfold exports_of. induction a as [|e a IH]; intros Hno g; [reflexivity|].
  cbn [fold_left]. destruct e as [| |x v| | | | |]; cbn [ex_step];
    try (apply IH; intros x' v' Hc; apply (Hno x' v'); right; exact Hc).
  exfalso. apply (Hno x v). left. reflexivity.
Qed.

Section Global.
  Variable bi : name -> bool.
  Variable fname : str.
  Variable tree : list (list str * list stmt).
  Hypothesis Hfn : fname_ok fname.
  Notation run := (run bi fname tree).

  Lemma parent_script dir : parent (dir ++ [fname]) = dir.
  Proof. unfold parent. rewrite removelast_app by discriminate. cbn. apply app_nil_r. Qed.

  Lemma script_path cs : escapes (normc cs) = false -> normc (normc cs ++ split_sep fname) = normc cs ++ [fname].
  Proof.
    intros H. destruct Hfn as [Hs Hp]. rewrite Hs. apply normc_plain_id. apply Forall_app. split.
    - apply normc_plain, H.
    - constructor; [exact Hp|constructor].
  Qed.

  Lemma root_path_eq : root_path fname = [fname].
  Proof.
    unfold root_path. destruct Hfn as [Hs Hp]. rewrite Hs. apply normc_plain_id. constructor; [exact Hp|constructor].
  Qed.

  (* what holds of every activation in a trace *)
  Definition act_good (a : actrec) : Prop :=
    let '(dep, ch, p, evs, o) := a in
    p = dirc ch ++ [fname] /\ escapes (dirc ch) = false /\ dep = S (List.length ch) /\
    exists f ss', assoc_l p tree = Some ss' /\ spec bi fname tree (run f) dep p [] [] ss' evs o.

  Theorem run_all : forall fuel depth chain cur ss evs o,
    run fuel depth cur ss = Some (evs, o) -> assoc_l cur tree = Some ss ->
    cur = dirc chain ++ [fname] -> escapes (dirc chain) = false -> depth = S (List.length chain) ->
    forall a, In a (acts depth chain cur evs o) -> act_good a.
  Proof.
    induction fuel as [|fuel IH]; intros depth chain cur ss evs o H Hss Hcur Hesc Hdep a Hin; [discriminate|].
    cbn [Scope.run] in H. pose proof (steps_spec _ _ _ _ _ _ _ _ _ _ _ H) as Hspec.
    destruct Hin as [<-|Hin].
    - cbn. repeat split; try assumption. exists fuel, ss. split; assumption.
    - apply in_flat_map in Hin. destruct Hin as (e & He & Ha).
      destruct Hspec as (_ & _ & _ & Hok). specialize (Hok e He).
      destruct e as [| | | | | | |d sp body o']; try (exfalso; exact Ha).
      cbn in Hok. destruct Hok as (rt & cs & isd & ss' & Hrel & Hsp & Hass & Hcall).
      apply ensure_ok, path_new_ok in Hrel. destruct Hrel as (_ & _ & Hcs & Hcesc).
      rewrite Hcur, parent_script in Hcs. rewrite (dirc_snoc _ _ Hesc) in Hcs.
      eapply (IH (S depth) (chain ++ [d]) sp ss' body o' Hcall Hass); [| | |exact Ha].
      + rewrite Hsp, Hcs. unfold dirc. apply script_path. fold (dirc (chain ++ [d])). rewrite <- Hcs. exact Hcesc.
      + rewrite <- Hcs. exact Hcesc.
      + rewrite app_length. cbn. rewrite Hdep. lia.
  Qed.

  Theorem root_all fuel evs o : exec_root bi fname tree fuel = Some (evs, o) ->
    forall a, In a (acts 1 [] [fname] evs o) -> act_good a.
  Proof.
    unfold exec_root. rewrite root_path_eq. destruct (assoc_l [fname] tree) as [body|] eqn:E; [|discriminate].
    intros H. eapply run_all; try eassumption; reflexivity.
  Qed.

  (* ---- the four statements about scripts ---- *)
  Theorem no_leak fuel evs o : exec_root bi fname tree fuel = Some (evs, o) ->
    forall dep ch p a ao, In (dep, ch, p, a, ao) (acts 1 [] [fname] evs o) ->
    forall pre x r post, a = pre ++ ERead x r :: post ->
      (forall v, r = LVal v -> exists pre1 pre2, pre = pre1 ++ EAssign x v :: pre2 /\ no_assign x pre2) /\
      (no_assign x pre -> r = if bi x then LBuiltin else LNameErr).
  Proof.
    intros H dep ch p a ao Hin pre x r post Heq.
    destruct (root_all _ _ _ H _ Hin) as (_ & _ & _ & f & ss' & _ & (_ & _ & Hr & _)).
    specialize (Hr pre x r post Heq). split.
    - intros v Hv. rewrite Hv in Hr. unfold lookup in Hr.
      destruct (assoc x (globals_of [] pre)) as [v'|] eqn:E; [|destruct (bi x); discriminate].
      inversion Hr; subst v'. destruct (globals_of_assoc _ _ _ _ E) as [[Hc _]|Hs]; [discriminate|exact Hs].
    - intros Hn. rewrite Hr. unfold lookup. rewrite (globals_of_none x pre [] Hn). reflexivity.
  Qed.

  Theorem trace_follows_script fuel evs o : exec_root bi fname tree fuel = Some (evs, o) ->
    forall dep ch p a ao, In (dep, ch, p, a, ao) (acts 1 [] [fname] evs o) ->
    exists ss, assoc_l p tree = Some ss /\ map ev_stmt a = firstn (List.length a) ss /\
               (forall ex, ao = ODone ex -> List.length a = List.length ss).
  Proof.
    intros H dep ch p a ao Hin.
    destruct (root_all _ _ _ H _ Hin) as (_ & _ & _ & f & ss' & Hass & (H1 & H2 & _ & _)).
    exists ss'. split; [exact Hass|]. split; [exact H1|]. intros ex He. apply (H2 ex He).
  Qed.

  Theorem exports_exact fuel evs o : exec_root bi fname tree fuel = Some (evs, o) ->
    forall dep ch p a ao, In (dep, ch, p, a, ao) (acts 1 [] [fname] evs o) ->
    (forall ex, ao = ODone ex -> ex = exports_of [] a /\ (dep = 1%nat -> ex = [])) /\
    (forall d sp body ex, In (ESub d sp body (ODone ex)) a -> ex = exports_of [] body) /\
    (forall x v, In (EExport x v) a -> dep <> 1%nat).
  Proof.
    intros H dep ch p a ao Hin.
    destruct (root_all _ _ _ H _ Hin) as (_ & _ & _ & f & ss' & _ & (_ & H2 & _ & H4)). split; [|split].
    - intros ex He. destruct (H2 ex He) as [_ Hex]. split; [exact Hex|].
      intros Hd. rewrite Hex. apply exports_none. intros x v Hc. apply H4 in Hc. cbn in Hc. contradiction.
    - intros d sp body ex Hc. apply H4 in Hc. cbn in Hc.
      destruct Hc as (rt & cs & isd & ss2 & _ & _ & _ & Hcall).
      destruct f as [|f']; [discriminate|]. cbn [Scope.run] in Hcall.
      apply steps_spec in Hcall. destruct Hcall as (_ & Hb & _ & _). apply (Hb ex eq_refl).
    - intros x v Hc. apply H4 in Hc. exact Hc.
  Qed.

  Definition resolved (r : root) (ch : list str) (q : str) : pres :=
    let cs := dirc (ch ++ [q]) in if escapes cs then PErr else POk r cs (dirlike q || is_nil cs).

  Theorem input_relative fuel evs o : exec_root bi fname tree fuel = Some (evs, o) ->
    forall dep ch p a ao, In (dep, ch, p, a, ao) (acts 1 [] [fname] evs o) ->
    forall k f q r, In (EInput k f q r) a -> classify q = CRel -> r = as_kind k (resolved Src ch q).
  Proof.
    intros H dep ch p a ao Hin k f q r Hq Hc.
    destruct (root_all _ _ _ H _ Hin) as (Hp & Hesc & _ & f0 & ss' & _ & (_ & _ & _ & H4)).
    apply H4 in Hq. cbn in Hq. rewrite Hq. f_equal. unfold relpath. rewrite (ensure_rel _ _ _ _ Hc).
    rewrite Hp, parent_script, (dirc_snoc _ _ Hesc). reflexivity.
  Qed.

  Theorem outdir_relative fuel evs o : exec_root bi fname tree fuel = Some (evs, o) ->
    forall dep ch p a ao, In (dep, ch, p, a, ao) (acts 1 [] [fname] evs o) ->
    forall f q s r, In (EOutDir f q s r) a -> classify q = CRel -> r = resolved Bld ch q.
  Proof.
    intros H dep ch p a ao Hin f q s r Hq Hc.
    destruct (root_all _ _ _ H _ Hin) as (Hp & Hesc & _ & f0 & ss' & _ & (_ & _ & _ & H4)).
    apply H4 in Hq. cbn in Hq. rewrite Hq. unfold buildpath. rewrite (ensure_rel _ _ _ _ Hc).
    rewrite Hp, parent_script, (dirc_snoc _ _ Hesc). reflexivity.
  Qed.
End Global.

(* ------------------------------------------------------------------------------------------ relname *)
Definition nosep (c : str) : Prop := Forall (fun ch => is_sep ch = false) c.

Lemma split_sep_nosep s : Forall nosep (split_sep s).
Proof.
  induction s as [|c r IH]; cbn.
  - constructor; [constructor|constructor].
  - destruct (is_sep c) eqn:E.
    + constructor; [constructor|exact IH].
    + destruct (split_sep r) as [|h t]; [constructor; [constructor; [exact E|constructor]|constructor]|].
      inversion IH; subst. constructor; [constructor; assumption|assumption].
Qed.

Lemma norm_st_subset (P : str -> Prop) cs : forall acc, Forall P acc -> Forall P cs -> Forall P (norm_st acc cs).
Proof.
  unfold norm_st. induction cs as [|c cs IH]; intros acc Ha Hc; cbn; [exact Ha|].
  inversion Hc; subst. apply IH; [|assumption].
  unfold norm_step. destruct (skip_comp c); [exact Ha|].
  destruct (negb (str_eqb c dotdot)); [constructor; assumption|].
  destruct acc as [|t r]; [constructor; assumption|].
  destruct (str_eqb t dotdot); [constructor; assumption|]. inversion Ha; assumption.
Qed.

Lemma dirc_nosep ch : Forall nosep (dirc ch).
Proof.
  unfold dirc, normc. apply Forall_rev. apply norm_st_subset; [constructor|].
  induction ch as [|d ch IH]; cbn; [constructor|]. apply Forall_app. split; [apply split_sep_nosep|exact IH].
Qed.

Lemma split_sep_app_nosep c s : nosep c -> split_sep (c ++ c_slash :: s) = c :: split_sep s.
Proof.
  induction 1 as [|x c Hx Hc IH]; cbn.
  - reflexivity.
  - rewrite Hx, IH. reflexivity.
Qed.

Lemma split_sep_single c : nosep c -> split_sep c = [c].
Proof.
  induction 1 as [|x c Hx Hc IH]; cbn; [reflexivity|]. rewrite Hx, IH. reflexivity.
Qed.

Lemma split_join cs : cs <> [] -> Forall nosep cs -> split_sep (join_slash cs) = cs.
Proof.
  induction cs as [|c r IH]; intros Hne Hall; [contradiction|].
  inversion Hall; subst. destruct r as [|c' r'].
  - cbn. apply split_sep_single. assumption.
  - change (join_slash (c :: c' :: r')) with (c ++ c_slash :: join_slash (c' :: r')).
    rewrite split_sep_app_nosep by assumption. f_equal. apply IH; [discriminate|assumption].
Qed.

Lemma last_plain cs d : cs <> [] -> Forall (fun c => plain c = true) cs -> plain (last cs d) = true.
Proof.
  induction cs as [|c r IH]; intros Hne Hall; [contradiction|].
  inversion Hall; subst. destruct r as [|c' r']; [assumption|]. apply IH; [discriminate|assumption].
Qed.

(* a normalised, non-escaping component list survives being written as a string and parsed again,
   provided that string does not start like a drive *)
Lemma reparse r cs : Forall (fun c => plain c = true) cs -> Forall nosep cs -> classify (join_slash cs) = CRel ->
  path_new (join_slash cs) r [] = POk r cs (is_nil cs).
Proof.
  intros Hp Hn Hc. unfold path_new. rewrite Hc. cbn [app].
  destruct cs as [|c0 r0] eqn:Ecs.
  - reflexivity.
  - rewrite <- Ecs in *. assert (Hne : cs <> []) by (rewrite Ecs; discriminate).
    rewrite (split_join cs Hne Hn). rewrite (normc_plain_id cs Hp).
    assert (He : escapes cs = false).
    { rewrite Ecs in *. inversion Hp; subst. cbn. now apply plain_not_dd. }
    rewrite He. f_equal. unfold dirlike. rewrite (split_join cs Hne Hn).
    pose proof (last_plain cs [] Hne Hp) as Hl. unfold plain, skip_comp in Hl.
    destruct (is_nil (last cs [])), (str_eqb (last cs []) dot), (str_eqb (last cs []) dotdot); try discriminate.
    rewrite Ecs. reflexivity.
Qed.

Section Relname.
  Variable bi : name -> bool.
  Variable fname : str.
  Variable tree : list (list str * list stmt).
  Hypothesis Hfn : fname_ok fname.

  (* what a target name resolves to: the same components under builddir; the directory flag is lost *)
  Definition resolved_name (ch : list str) (q : str) : pres :=
    let cs := dirc (ch ++ [q]) in if escapes cs then PErr else POk Bld cs (is_nil cs).

  Theorem output_relative fuel evs o : exec_root bi fname tree fuel = Some (evs, o) ->
    forall dep ch p a ao, In (dep, ch, p, a, ao) (acts 1 [] [fname] evs o) ->
    forall k f q r, In (EOutput k f q r) a -> classify q = CRel ->
      classify (join_slash (dirc (ch ++ [q]))) = CRel -> r = as_kind k (resolved_name ch q).
  Proof.
    intros H dep ch p a ao Hin k f q r Hq Hc Hd.
    destruct (root_all bi fname tree Hfn _ _ _ H _ Hin) as (Hp & Hesc & _ & f0 & ss' & _ & (_ & _ & _ & H4)).
    apply H4 in Hq. cbn in Hq. rewrite Hq. f_equal. unfold relname_path, relpath. rewrite (ensure_rel _ _ _ _ Hc).
    rewrite Hp, (parent_script fname), (dirc_snoc _ _ Hesc). unfold resolved_name. cbn zeta.
    destruct (escapes (dirc (ch ++ [q]))) eqn:E; [reflexivity|].
    apply reparse; [apply normc_plain, E|apply dirc_nosep|exact Hd].
  Qed.
End Relname.
