(* Model of  sorted(specs, key=str)  in builtins/pkg_config.py Requirement.split (after the repair 028cc9e): the
   specifiers of one requirement come out of a SpecifierSet, whose iteration follows the string hashes of this
   interpreter run; they are written in the order of an insertion sort by their text (Python compares str by code
   point, list-of-code-points lexicographically: str_cmp of the path model).  Model only; proofs in SortDetermProofs.v. *)
From BFG Require Import Base.Chars Path.PathAlg.
Local Open Scope N_scope.

Definition s_leb (a b : str) : bool := match str_cmp a b with Gt => false | _ => true end.

Fixpoint s_insert (x : str) (l : list str) : list str :=
  match l with
  | [] => [x]
  | y :: r => if s_leb x y then x :: l else y :: s_insert x r
  end.

Fixpoint s_sort (l : list str) : list str :=
  match l with
  | [] => []
  | x :: r => s_insert x (s_sort r)
  end.

(* what is written for one requirement: the name followed by each specifier text, in sorted order (repaired code), or in
   the order the set happened to be enumerated (as first written) *)
Definition split_texts (repaired : bool) (enumeration : list str) : list str :=
  if repaired then s_sort enumeration else enumeration.
