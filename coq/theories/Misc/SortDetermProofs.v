From Coq Require Import Permutation.
From BFG Require Import Base.Chars Path.PathAlg Path.PathAlgOrder Misc.SortDeterm.
Local Open Scope N_scope.

Lemma s_leb_total x y : s_leb x y = false -> s_leb y x = true.
Proof. unfold s_leb. rewrite (str_cmp_antisym x y). destruct (str_cmp x y); cbn; congruence. Qed.

Lemma s_leb_antisym x y : s_leb x y = true -> s_leb y x = true -> x = y.
Proof.
  unfold s_leb. rewrite (str_cmp_antisym x y). destruct (str_cmp x y) eqn:E; cbn; try congruence.
  intros _ _. now apply str_cmp_eq.
Qed.

Lemma s_leb_trans x y z : s_leb x y = true -> s_leb y z = true -> s_leb x z = true.
Proof.
  unfold s_leb. intros H1 H2.
  destruct (str_cmp x y) eqn:E1; [| |discriminate].
  - apply str_cmp_eq in E1. now subst.
  - destruct (str_cmp y z) eqn:E2; [| |discriminate].
    + apply str_cmp_eq in E2. subst. now rewrite E1.
    + now rewrite (str_cmp_trans _ _ _ E1 E2).
Qed.

Lemma s_insert_comm l : forall x y, s_insert x (s_insert y l) = s_insert y (s_insert x l).
Proof.
  induction l as [|z r IH]; intros x y.
  - cbn [s_insert]. destruct (s_leb x y) eqn:A, (s_leb y x) eqn:B; cbn [s_insert]; rewrite ?A, ?B; try reflexivity.
    + now rewrite (s_leb_antisym x y A B).
    + apply s_leb_total in A. congruence.
  - cbn [s_insert]. destruct (s_leb y z) eqn:Hyz.
    + cbn [s_insert]. destruct (s_leb x y) eqn:Hxy.
      * rewrite (s_leb_trans x y z Hxy Hyz). cbn [s_insert]. destruct (s_leb y x) eqn:Hyx.
        -- now rewrite (s_leb_antisym x y Hxy Hyx).
        -- now rewrite Hyz.
      * destruct (s_leb x z) eqn:Hxz; cbn [s_insert].
        -- now rewrite (s_leb_total x y Hxy).
        -- now rewrite Hyz.
    + cbn [s_insert]. destruct (s_leb x z) eqn:Hxz; cbn [s_insert].
      * destruct (s_leb y x) eqn:Hyx.
        -- rewrite (s_leb_trans y x z Hyx Hxz) in Hyz. discriminate.
        -- now rewrite Hyz.
      * rewrite Hyz. now rewrite IH.
Qed.

Theorem s_sort_perm l1 l2 : Permutation l1 l2 -> s_sort l1 = s_sort l2.
Proof.
  induction 1 as [|x l l' _ IH|x y l|l l' l'' _ IH1 _ IH2]; cbn [s_sort].
  - reflexivity.
  - now rewrite IH.
  - apply s_insert_comm.
  - now rewrite IH1.
Qed.

Lemma s_insert_perm x l : Permutation (x :: l) (s_insert x l).
Proof.
  induction l as [|y r IH]; cbn [s_insert]; [apply Permutation_refl|].
  destruct (s_leb x y); [apply Permutation_refl|].
  eapply perm_trans; [apply perm_swap|]. now apply perm_skip.
Qed.

Theorem s_sort_is_perm l : Permutation l (s_sort l).
Proof.
  induction l as [|x r IH]; cbn [s_sort]; [constructor|].
  eapply perm_trans; [apply perm_skip, IH|apply s_insert_perm].
Qed.
