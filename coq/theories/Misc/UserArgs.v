(* Project-defined arguments: arguments/parser.py add_user_argument, ToggleAction._prefix / EnableAction /
   WithAction, builtins/user_arguments.py argument, and the part of argparse these rely on (registration of
   option strings with conflict detection, dest derivation, defaults, and parsing of long options).
   argparse itself is trusted; the parse function below covers the fragment: tokens that do not start with a
   dash, and tokens that start with two dashes.  Model only. *)
From BFG Require Import Base.Chars Misc.Scope.
From Coq Require Import String.
Local Open Scope N_scope.

Fixpoint starts_with (pre s : str) : bool :=
  match pre, s with
  | [], _ => true
  | a :: pre', b :: s' => N.eqb a b && starts_with pre' s'
  | _ :: _, [] => false
  end.

Definition dd : str := STR "--".
Definition ddx : str := STR "--x-".

(* ToggleAction._prefix: re.sub('(^--(x-)?)', r'\1' + prefix, s); None = ValueError *)
Definition toggle_prefix (s prefix : str) : option str :=
  if negb (starts_with dd s) then None
  else if starts_with ddx s then Some (ddx ++ prefix ++ skipn 4 s)
  else Some (dd ++ prefix ++ skipn 2 s).

Inductive action := AStore | AStoreTrue | AStoreFalse | AEnable | AWith.
Inductive usage := UParse | UHelp.
Inductive value := VNone | VStr (s : str) | VBool (b : bool).
Inductive aerr := EValue | EType | EConflict.      (* ValueError, TypeError, argparse.ArgumentError *)

Definition twin (s : str) : str := ddx ++ skipn 2 s.          (* '--x-' + i[2:] *)

(* add_user_argument: the names handed to parser.add_argument.
   fixed = false: as first written.  fixed = true: the repaired function, which also rejects an option string
   without a name (the bare double dash, what argument('') hands over) with ValueError. *)
Definition user_names (fixed : bool) (u : usage) (names : list str) : option (list str) :=
  if existsb (fun i => negb (starts_with dd i)) names then None
  else if fixed && existsb (str_eqb dd) names then None
  else if existsb (starts_with ddx) names then None
  else Some (match u with UParse => names ++ map twin names | UHelp => names end).

(* argparse _get_optional_kwargs: dest from the first long option string *)
Fixpoint lstrip_dash (s : str) : str :=
  match s with
  | c :: r => if N.eqb c c_dash then lstrip_dash r else s
  | [] => []
  end.
Definition dest_of (s : str) : str := map (fun c => if N.eqb c c_dash then c_us else c) (lstrip_dash s).

Record act := { a_dest : str; a_kind : action; a_true : list str }.
Record parser := { p_opts : list (str * act); p_acts : list act }.
Definition empty_parser : parser := {| p_opts := []; p_acts := [] |}.

Definition true_prefix (k : action) : str := match k with AWith => STR "with-" | _ => STR "enable-" end.
Definition false_prefix (k : action) : str := match k with AWith => STR "without-" | _ => STR "disable-" end.

Fixpoint all_some {T} (l : list (option T)) : option (list T) :=
  match l with
  | [] => Some []
  | None :: _ => None
  | Some x :: r => match all_some r with Some r' => Some (x :: r') | None => None end
  end.

(* the option strings an action registers, and those that mean True *)
Definition action_strings (k : action) (names : list str) : option (list str * list str) :=
  match k with
  | AEnable | AWith =>
      match all_some (map (fun i => toggle_prefix i (true_prefix k)) names),
            all_some (map (fun i => toggle_prefix i (false_prefix k)) names) with
      | Some t, Some f => Some (t ++ f, t)
      | _, _ => None
      end
  | _ => Some (names, [])
  end.

(* the options.bfg builtin argument (names..., action=k), after the names got their leading dashes *)
Definition declare (fixed : bool) (u : usage) (d : list str * action) (p : parser) : parser + aerr :=
  let (names0, k) := d in
  match user_names fixed u names0 with
  | None => inr EValue
  | Some names =>
      match names with
      | [] => inr EType
      | first :: _ =>
          let dest := dest_of first in
          if is_nil dest then inr EValue
          else match action_strings k names with
               | None => inr EValue
               | Some (strings, trues) =>
                   if existsb (fun s => match assoc s (p_opts p) with Some _ => true | None => false end) strings
                   then inr EConflict
                   else let a := {| a_dest := dest; a_kind := k; a_true := trues |} in
                        inl {| p_opts := p_opts p ++ map (fun s => (s, a)) strings; p_acts := p_acts p ++ [a] |}
               end
      end
  end.

Fixpoint declare_from (fixed : bool) (i : nat) (u : usage) (ds : list (list str * action)) (p : parser)
  : parser + (nat * aerr) :=
  match ds with
  | [] => inl p
  | d :: r => match declare fixed u d p with
              | inl p' => declare_from fixed (S i) u r p'
              | inr e => inr (i, e)
              end
  end.
Definition declare_all := declare_from false 0.              (* add_user_argument as first written *)
Definition declare_all_fixed := declare_from true 0.         (* the repaired add_user_argument *)

(* ------------------------------------------------------------------------------------------ parse *)
Definition ns := list (str * value).
Fixpoint ns_set (n : ns) (k : str) (v : value) : ns :=
  match n with
  | [] => [(k, v)]
  | (k', w) :: r => if str_eqb k' k then (k', v) :: r else (k', w) :: ns_set r k v
  end.
Definition ns_has (n : ns) (k : str) : bool := match assoc k n with Some _ => true | None => false end.

Definition default_of (k : action) : value :=
  match k with AStore => VNone | AStoreFalse => VBool true | _ => VBool false end.
Definition defaults (p : parser) : ns :=
  fold_left (fun n a => if ns_has n (a_dest a) then n else ns_set n (a_dest a) (default_of (a_kind a))) (p_acts p) [].

Fixpoint split_eq (t : str) : option (str * str) :=
  match t with
  | [] => None
  | c :: r => if N.eqb c c_eq then Some ([], r)
              else match split_eq r with Some (h, v) => Some (c :: h, v) | None => None end
  end.
Definition has_space (t : str) : bool := existsb (N.eqb c_sp) t.
Definition dash1 : str := [c_dash].

Inductive tok := TOpt (a : act) (s : str) (explicit : option str) | TPlain | TUnknown.

(* argparse _parse_optional with the _get_option_tuples override (no abbreviations of long options) *)
Definition classify_tok (p : parser) (t : str) : tok :=
  if negb (starts_with dash1 t) then TPlain
  else match assoc t (p_opts p) with
       | Some a => TOpt a t None
       | None =>
           let other := if has_space t then TPlain else TUnknown in
           match split_eq t with
           | Some (h, v) => match assoc h (p_opts p) with Some a => TOpt a h (Some v) | None => other end
           | None => other
           end
       end.

(* outside the modelled fragment: an unregistered token with a single leading dash *)
Definition outside (p : parser) (t : str) : bool :=
  starts_with dash1 t && negb (starts_with dd t) &&
  match assoc t (p_opts p) with Some _ => false | None => true end.

Definition apply_flag (a : act) (s : str) : value :=
  match a_kind a with
  | AStoreTrue => VBool true
  | AStoreFalse => VBool false
  | _ => VBool (existsb (str_eqb s) (a_true a))       (* option_string in self.true_strings *)
  end.

Inductive presult := ROutside | RError | RNs (n : ns).

Fixpoint parse_go (p : parser) (n : ns) (argv : list str) {struct argv} : presult :=
  match argv with
  | [] => RNs n
  | t :: r =>
      match classify_tok p t with
      | TPlain => RError                       (* no positionals are declared: unrecognized arguments *)
      | TUnknown => RError
      | TOpt a s None =>
          match a_kind a with
          | AStore =>
              match r with
              | v :: r' => match classify_tok p v with
                           | TPlain => parse_go p (ns_set n (a_dest a) (VStr v)) r'
                           | _ => RError        (* expected one argument *)
                           end
              | [] => RError
              end
          | _ => parse_go p (ns_set n (a_dest a) (apply_flag a s)) r
          end
      | TOpt a s (Some v) =>
          match a_kind a with
          | AStore => parse_go p (ns_set n (a_dest a) (VStr v)) r
          | _ => RError                          (* ignored explicit argument *)
          end
      end
  end.

(* The bare double dash is argparse's own separator: everything after it is positional, and since no
   positionals are declared every command line containing it is rejected (whether or not a user argument
   with the empty name registered the string). *)
Definition parse (p : parser) (argv : list str) : presult :=
  if existsb (outside p) argv then ROutside
  else if existsb (str_eqb dd) argv then RError
  else parse_go p (defaults p) argv.

(* ------------------------------------------------------------------------------------------ respelling *)
Definition registered (p : parser) (s : str) : bool :=
  match assoc s (p_opts p) with Some _ => true | None => false end.

(* the token names a plain (not --x-) registered option, alone or with =value *)
Definition respellable (p : parser) (t : str) : bool :=
  starts_with dd t && negb (starts_with ddx t) &&
  (registered p t || match split_eq t with Some (h, _) => registered p h | None => false end).

Fixpoint respell (p : parser) (mask : list bool) (argv : list str) : list str :=
  match argv, mask with
  | [], _ => []
  | t :: r, [] => argv
  | t :: r, b :: m => (if b && respellable p t then twin t else t) :: respell p m r
  end.
