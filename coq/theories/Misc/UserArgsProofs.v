(* Proofs about Misc/UserArgs.v: the registered toggle strings, and that respelling a project-defined
   option with the x- prefix never changes the parse result - for add_user_argument as first written under the
   guard that the bare double dash is not registered, for the repaired one (fixed = true) without any guard. *)
From BFG Require Import Base.Chars Misc.Scope Misc.ScopeProofs Misc.UserArgs.
From Coq Require Import String Lia.
Local Open Scope N_scope.
Local Arguments str_eqb : simpl never.

(* ------------------------------------------------------------------------------------------ prefixes *)
Lemma starts_with_app pre s : starts_with pre (pre ++ s) = true.
Proof. induction pre as [|a pre IH]; cbn; [reflexivity|]. rewrite N.eqb_refl. exact IH. Qed.

Lemma starts_with_split pre s : starts_with pre s = true -> s = pre ++ skipn (List.length pre) s.
Proof.
  revert s. induction pre as [|a pre IH]; intros s H; [reflexivity|].
  destruct s as [|b s]; [discriminate|]. cbn in H. apply andb_true_iff in H. destruct H as [Hab H].
  apply N.eqb_eq in Hab. subst b. cbn. f_equal. apply IH, H.
Qed.

Lemma starts_with_appl pre a b : starts_with pre a = true -> starts_with pre (a ++ b) = true.
Proof.
  revert a. induction pre as [|x pre IH]; intros a H; [reflexivity|].
  destruct a as [|y a]; [discriminate|]. cbn in *. apply andb_true_iff in H. destruct H as [H1 H2].
  rewrite H1. cbn. apply IH, H2.
Qed.

Lemma starts_differ pre a b : starts_with pre a = true -> starts_with pre b = false -> str_eqb a b = false.
Proof.
  intros Ha Hb. apply str_eqb_false_neq. intros E. subst b. congruence.
Qed.

Lemma ddx_dd s : starts_with ddx s = true -> starts_with dd s = true.
Proof. intros H. rewrite (starts_with_split _ _ H). reflexivity. Qed.

Lemma dd_dash1 s : starts_with dd s = true -> starts_with dash1 s = true.
Proof. intros H. rewrite (starts_with_split _ _ H). reflexivity. Qed.

(* a plain option string: starts with two dashes but not with the reserved prefix *)
Definition popt (s : str) : bool := starts_with dd s && negb (starts_with ddx s).

Lemma popt_dd s : popt s = true -> starts_with dd s = true.
Proof. unfold popt. intros H. apply andb_true_iff in H. tauto. Qed.
Lemma popt_nx s : popt s = true -> starts_with ddx s = false.
Proof. unfold popt. intros H. apply andb_true_iff in H. destruct H as [_ H]. now apply negb_true_iff in H. Qed.

Lemma twin_ddx s : starts_with ddx (twin s) = true.
Proof. unfold twin. apply starts_with_app. Qed.

Lemma twin_inj s s' : starts_with dd s = true -> starts_with dd s' = true -> twin s = twin s' -> s = s'.
Proof.
  intros H H' E. unfold twin in E. apply app_inv_head in E.
  rewrite (starts_with_split _ _ H), (starts_with_split _ _ H').
  change (List.length dd) with 2%nat. rewrite E. reflexivity.
Qed.

(* ------------------------------------------------------------------------------------------ membership *)
Definition mem (k : str) (l : list str) : bool := existsb (str_eqb k) l.

Lemma assoc_app {V} k (l1 l2 : list (str * V)) :
  assoc k (l1 ++ l2) = match assoc k l1 with Some v => Some v | None => assoc k l2 end.
Proof.
  induction l1 as [|[k' v] l1 IH]; cbn; [reflexivity|]. destruct (str_eqb k' k); [reflexivity|exact IH].
Qed.

Lemma assoc_map_const {V} k l (a : V) : assoc k (map (fun s => (s, a)) l) = if mem k l then Some a else None.
Proof.
  induction l as [|s l IH]; cbn; [reflexivity|]. rewrite (str_eqb_sym s k).
  destruct (str_eqb k s); [reflexivity|exact IH].
Qed.

Lemma mem_app k l1 l2 : mem k (l1 ++ l2) = mem k l1 || mem k l2.
Proof. apply existsb_app. Qed.

Definition closed (l : list str) : Prop := forall s, popt s = true -> mem (twin s) l = mem s l.

Lemma closed_nil : closed [].
Proof. intros s _. reflexivity. Qed.

Lemma closed_app l1 l2 : closed l1 -> closed l2 -> closed (l1 ++ l2).
Proof. intros H1 H2 s Hs. rewrite !mem_app, (H1 s Hs), (H2 s Hs). reflexivity. Qed.

Lemma mem_cons k e l : mem k (e :: l) = str_eqb k e || mem k l.
Proof. reflexivity. Qed.

Lemma mem_twin_plain s P : Forall (fun e => popt e = true) P -> mem (twin s) P = false.
Proof.
  induction 1 as [|e P He _ IH]; [reflexivity|]. rewrite mem_cons, IH.
  rewrite (starts_differ ddx (twin s) e (twin_ddx s) (popt_nx _ He)). reflexivity.
Qed.

Lemma mem_plain_twins s P : popt s = true -> mem s (map twin P) = false.
Proof.
  intros Hs. induction P as [|e P IH]; [reflexivity|]. cbn [map]. rewrite mem_cons, IH.
  rewrite str_eqb_sym, (starts_differ ddx (twin e) s (twin_ddx e) (popt_nx _ Hs)). reflexivity.
Qed.

Lemma mem_twin_twins s P : popt s = true -> Forall (fun e => popt e = true) P -> mem (twin s) (map twin P) = mem s P.
Proof.
  intros Hs. induction 1 as [|e P He _ IH]; [reflexivity|]. cbn [map]. rewrite !mem_cons, IH. f_equal.
  destruct (str_eqb s e) eqn:E.
  - apply str_eqb_eq in E. subst e. apply str_eqb_refl.
  - apply str_eqb_false_neq. intros Ht. apply twin_inj in Ht; [|apply popt_dd, Hs|apply popt_dd, He].
    subst e. rewrite str_eqb_refl in E. discriminate.
Qed.

Lemma closed_twins P : Forall (fun e => popt e = true) P -> closed (P ++ map twin P).
Proof.
  intros HP s Hs. rewrite !mem_app, (mem_twin_plain s P HP), (mem_plain_twins s P Hs), (mem_twin_twins s P Hs HP).
  cbn. rewrite orb_false_r. reflexivity.
Qed.

(* ------------------------------------------------------------------------------------------ declarations *)
Lemma user_names_parse fixed names0 names : user_names fixed UParse names0 = Some names ->
  Forall (fun e => popt e = true) names0 /\ names = names0 ++ map twin names0 /\
  (fixed = true -> mem dd names0 = false).
Proof.
  unfold user_names. destruct (existsb (fun i => negb (starts_with dd i)) names0) eqn:E1; [discriminate|].
  destruct (fixed && existsb (str_eqb dd) names0) eqn:E0; [discriminate|].
  destruct (existsb (starts_with ddx) names0) eqn:E2; [discriminate|].
  intros H. inversion H. split; [|split; [reflexivity|intros ->; exact E0]]. apply Forall_forall. intros e He. unfold popt.
  assert (G1 : negb (starts_with dd e) = false).
  { destruct (negb (starts_with dd e)) eqn:E; [|reflexivity].
    assert (existsb (fun i => negb (starts_with dd i)) names0 = true) by (apply existsb_exists; eauto). congruence. }
  assert (G2 : starts_with ddx e = false).
  { destruct (starts_with ddx e) eqn:E; [|reflexivity].
    assert (existsb (starts_with ddx) names0 = true) by (apply existsb_exists; eauto). congruence. }
  apply negb_false_iff in G1. rewrite G1, G2. reflexivity.
Qed.

Definition pre_of (pre n : str) : str := dd ++ pre ++ skipn 2 n.
Definition tprefix (pre : str) : Prop :=
  pre = STR "enable-" \/ pre = STR "disable-" \/ pre = STR "with-" \/ pre = STR "without-".

Lemma pre_of_popt pre n : tprefix pre -> popt (pre_of pre n) = true.
Proof. intros [ -> | [ -> | [ -> | -> ] ] ]; reflexivity. Qed.

Lemma toggle_plain pre n : popt n = true -> toggle_prefix n pre = Some (pre_of pre n).
Proof. intros H. unfold toggle_prefix. rewrite (popt_dd _ H), (popt_nx _ H). reflexivity. Qed.

Lemma toggle_twin pre n : popt n = true -> toggle_prefix (twin n) pre = Some (twin (pre_of pre n)).
Proof.
  intros H. unfold toggle_prefix. rewrite (ddx_dd _ (twin_ddx n)), (twin_ddx n). cbn [negb].
  unfold twin, pre_of. reflexivity.
Qed.

Lemma all_some_app {T} (l1 l2 : list (option T)) r1 r2 :
  all_some l1 = Some r1 -> all_some l2 = Some r2 -> all_some (l1 ++ l2) = Some (r1 ++ r2).
Proof.
  revert r1. induction l1 as [|[x|] l1 IH]; intros r1 H1 H2; cbn in *.
  - inversion H1. exact H2.
  - destruct (all_some l1) as [r|]; [|discriminate]. inversion H1; subst. rewrite (IH r eq_refl H2). reflexivity.
  - discriminate.
Qed.

Lemma toggle_all pre names0 : Forall (fun e => popt e = true) names0 ->
  all_some (map (fun i => toggle_prefix i pre) (names0 ++ map twin names0)) =
  Some (map (pre_of pre) names0 ++ map twin (map (pre_of pre) names0)).
Proof.
  intros H. rewrite map_app. apply all_some_app.
  - induction H as [|e l He _ IH]; [reflexivity|]. cbn [map all_some]. rewrite (toggle_plain _ _ He).
    cbn [all_some]. rewrite IH. reflexivity.
  - induction H as [|e l He _ IH]; [reflexivity|]. cbn [map all_some]. rewrite (toggle_twin _ _ He).
    cbn [all_some]. rewrite IH. reflexivity.
Qed.

Lemma tprefix_true k : tprefix (true_prefix k).
Proof. destruct k; cbn; unfold tprefix; auto. Qed.
Lemma tprefix_false k : tprefix (false_prefix k).
Proof. destruct k; cbn; unfold tprefix; auto. Qed.

Lemma pre_all_popt pre l : tprefix pre -> Forall (fun e => popt e = true) (map (pre_of pre) l).
Proof. intros H. apply Forall_forall. intros e He. apply in_map_iff in He. destruct He as (n & <- & _). now apply pre_of_popt. Qed.

Lemma Forall_dd_twins P : Forall (fun e => popt e = true) P -> Forall (fun s => starts_with dd s = true) (P ++ map twin P).
Proof.
  intros H. apply Forall_app. split.
  - eapply Forall_impl; [|exact H]. intros a Ha. now apply popt_dd.
  - apply Forall_forall. intros e He. apply in_map_iff in He. destruct He as (n & <- & _). apply ddx_dd, twin_ddx.
Qed.

(* the strings one declaration registers: all start with two dashes; the set, and the subset that means
   True, are closed under the plain <-> x- correspondence *)
Lemma action_strings_closed fixed k names0 names strings trues :
  user_names fixed UParse names0 = Some names -> action_strings k names = Some (strings, trues) ->
  Forall (fun s => starts_with dd s = true) strings /\ closed strings /\ closed trues.
Proof.
  intros Hu Ha. destruct (user_names_parse _ _ _ Hu) as (HP & -> & _).
  unfold action_strings in Ha.
  assert (Hstore : Some (names0 ++ map twin names0, @nil str) = Some (strings, trues) ->
                   Forall (fun s => starts_with dd s = true) strings /\ closed strings /\ closed trues).
  { intros H. inversion H; subst. split; [apply Forall_dd_twins, HP|]. split; [apply closed_twins, HP|apply closed_nil]. }
  destruct k; try (apply Hstore, Ha).
  - rewrite !(toggle_all _ _ HP) in Ha. inversion Ha; subst. split; [|split].
    + apply Forall_app. split; apply Forall_dd_twins, pre_all_popt; [apply (tprefix_true AEnable)|apply (tprefix_false AEnable)].
    + apply closed_app; apply closed_twins, pre_all_popt; [apply (tprefix_true AEnable)|apply (tprefix_false AEnable)].
    + apply closed_twins, pre_all_popt, (tprefix_true AEnable).
  - rewrite !(toggle_all _ _ HP) in Ha. inversion Ha; subst. split; [|split].
    + apply Forall_app. split; apply Forall_dd_twins, pre_all_popt; [apply (tprefix_true AWith)|apply (tprefix_false AWith)].
    + apply closed_app; apply closed_twins, pre_all_popt; [apply (tprefix_true AWith)|apply (tprefix_false AWith)].
    + apply closed_twins, pre_all_popt, (tprefix_true AWith).
Qed.

(* the repaired add_user_argument: no declaration registers the bare double dash.  Plain names exclude it
   (the new test), toggle strings carry a non-empty prefix behind the two dashes, x- twins start with --x-. *)
Lemma popt_ddstr : popt dd = true.
Proof. reflexivity. Qed.

Lemma mem_dd_pre pre l : tprefix pre -> mem dd (map (pre_of pre) l) = false.
Proof.
  intros Hp. induction l as [|n l IH]; [reflexivity|]. cbn [map]. rewrite mem_cons, IH, orb_false_r.
  apply str_eqb_false_neq. unfold pre_of.
  destruct Hp as [ -> | [ -> | [ -> | -> ] ] ]; cbn; discriminate.
Qed.

Lemma mem_dd_twins P : mem dd (map twin P) = false.
Proof. apply mem_plain_twins, popt_ddstr. Qed.

Lemma action_strings_nodd k names0 names strings trues :
  user_names true UParse names0 = Some names -> action_strings k names = Some (strings, trues) ->
  mem dd strings = false.
Proof.
  intros Hu Ha. destruct (user_names_parse _ _ _ Hu) as (HP & -> & Hn). specialize (Hn eq_refl).
  unfold action_strings in Ha.
  assert (Hstore : Some (names0 ++ map twin names0, @nil str) = Some (strings, trues) -> mem dd strings = false).
  { intros H. inversion H; subst. rewrite mem_app, Hn, mem_dd_twins. reflexivity. }
  destruct k; try (apply Hstore, Ha).
  - rewrite !(toggle_all _ _ HP) in Ha. inversion Ha; subst.
    rewrite !mem_app, !mem_dd_twins, (mem_dd_pre _ _ (tprefix_true AEnable)), (mem_dd_pre _ _ (tprefix_false AEnable)).
    reflexivity.
  - rewrite !(toggle_all _ _ HP) in Ha. inversion Ha; subst.
    rewrite !mem_app, !mem_dd_twins, (mem_dd_pre _ _ (tprefix_true AWith)), (mem_dd_pre _ _ (tprefix_false AWith)).
    reflexivity.
Qed.

(* ------------------------------------------------------------------------------------------ invariant *)
Record inv (p : parser) : Prop := {
  inv_dd : forall s a, assoc s (p_opts p) = Some a -> starts_with dd s = true;
  inv_twin : forall s, popt s = true -> assoc (twin s) (p_opts p) = assoc s (p_opts p);
  inv_true : forall s a, assoc s (p_opts p) = Some a -> popt s = true -> mem (twin s) (a_true a) = mem s (a_true a)
}.

Lemma inv_empty : inv empty_parser.
Proof. split; cbn; intros; try discriminate; reflexivity. Qed.

Lemma mem_forall (Q : str -> Prop) k l : Forall Q l -> mem k l = true -> Q k.
Proof.
  intros H Hm. apply existsb_exists in Hm. destruct Hm as (e & He & Hk). apply str_eqb_eq in Hk. subst e.
  rewrite Forall_forall in H. apply H, He.
Qed.

Lemma declare_inv fixed d p p' : declare fixed UParse d p = inl p' -> inv p -> inv p'.
Proof.
  destruct d as [names0 k]. unfold declare.
  destruct (user_names fixed UParse names0) as [names|] eqn:Hu; [|discriminate].
  destruct names as [|first rest] eqn:En; [discriminate|]. rewrite <- En in *.
  destruct (is_nil (dest_of first)); [discriminate|].
  destruct (action_strings k names) as [[strings trues]|] eqn:Ha; [|discriminate].
  destruct (existsb _ strings); [discriminate|].
  intros H Hi. inversion H; subst p'. clear H.
  destruct (action_strings_closed _ _ _ _ _ _ Hu Ha) as (Hdd & Hcs & Hct).
  destruct Hi as [I1 I2 I3]. split; cbn [p_opts].
  - intros s a. rewrite assoc_app. destruct (assoc s (p_opts p)) as [a0|] eqn:E.
    + intros _. eapply I1, E.
    + rewrite assoc_map_const. destruct (mem s strings) eqn:Em; [|discriminate]. intros _.
      apply (mem_forall _ _ _ Hdd Em).
  - intros s Hs. rewrite !assoc_app, (I2 s Hs). destruct (assoc s (p_opts p)); [reflexivity|].
    rewrite !assoc_map_const, (Hcs s Hs). reflexivity.
  - intros s a. rewrite assoc_app. destruct (assoc s (p_opts p)) as [a0|] eqn:E.
    + intros Hq. inversion Hq; subst a0. eapply I3, E.
    + rewrite assoc_map_const. destruct (mem s strings); [|discriminate]. intros Hq Hs. inversion Hq; subst a. cbn.
      apply (Hct s Hs).
Qed.

Lemma declare_from_inv fixed ds : forall i p p', declare_from fixed i UParse ds p = inl p' -> inv p -> inv p'.
Proof.
  induction ds as [|d ds IH]; intros i p p' H Hi; cbn in H.
  - inversion H; subst. exact Hi.
  - destruct (declare fixed UParse d p) as [p1|e] eqn:E; [|discriminate].
    eapply IH; [exact H|]. eapply declare_inv; eassumption.
Qed.

(* the invariant the repair adds: the bare double dash is never registered *)
Lemma declare_nodd d p p' : declare true UParse d p = inl p' -> registered p dd = false -> registered p' dd = false.
Proof.
  destruct d as [names0 k]. unfold declare.
  destruct (user_names true UParse names0) as [names|] eqn:Hu; [|discriminate].
  destruct names as [|first rest] eqn:En; [discriminate|]. rewrite <- En in *.
  destruct (is_nil (dest_of first)); [discriminate|].
  destruct (action_strings k names) as [[strings trues]|] eqn:Ha; [|discriminate].
  destruct (existsb _ strings); [discriminate|].
  intros H Hr. inversion H; subst p'. clear H. unfold registered in *. cbn [p_opts].
  rewrite assoc_app. destruct (assoc dd (p_opts p)); [discriminate|].
  rewrite assoc_map_const, (action_strings_nodd _ _ _ _ _ Hu Ha). reflexivity.
Qed.

Lemma declare_from_nodd ds : forall i p p',
  declare_from true i UParse ds p = inl p' -> registered p dd = false -> registered p' dd = false.
Proof.
  induction ds as [|d ds IH]; intros i p p' H Hr; cbn in H.
  - inversion H; subst. exact Hr.
  - destruct (declare true UParse d p) as [p1|e] eqn:E; [|discriminate].
    eapply IH; [exact H|]. eapply declare_nodd; eassumption.
Qed.

(* ------------------------------------------------------------------------------------------ respelling *)
Lemma split_eq_sound t h v : split_eq t = Some (h, v) -> t = h ++ c_eq :: v.
Proof.
  revert h. induction t as [|c r IH]; intros h H; [discriminate|]. cbn in H.
  destruct (N.eqb c c_eq) eqn:E.
  - inversion H; subst. apply N.eqb_eq in E. subst c. reflexivity.
  - destruct (split_eq r) as [[h' v']|]; [|discriminate]. inversion H; subst. cbn. f_equal. apply IH. reflexivity.
Qed.

Lemma split_eq_app h r : existsb (N.eqb c_eq) h = false -> split_eq (h ++ r) =
  match split_eq r with Some (h', v) => Some (h ++ h', v) | None => None end.
Proof.
  induction h as [|c h IH]; intros H.
  - cbn [app]. destruct (split_eq r) as [[h' v]|]; reflexivity.
  - change (existsb (N.eqb c_eq) (c :: h)) with (N.eqb c_eq c || existsb (N.eqb c_eq) h) in H.
    apply orb_false_iff in H. destruct H as [Hc Hh]. rewrite N.eqb_sym in Hc.
    cbn [app split_eq]. rewrite Hc, (IH Hh). destruct (split_eq r) as [[h' v]|]; reflexivity.
Qed.

Lemma split_eq_twin t h v : starts_with dd h = true -> split_eq t = Some (h, v) -> split_eq (twin t) = Some (twin h, v).
Proof.
  intros Hh H. pose proof (starts_with_split _ _ Hh) as Eh. change (List.length dd) with 2%nat in Eh.
  remember (skipn 2 h) as h' eqn:Eh'. clear Eh'. subst h.
  pose proof (split_eq_sound _ _ _ H) as Et. subst t.
  unfold twin. change (skipn 2 ((dd ++ h') ++ c_eq :: v)) with (h' ++ c_eq :: v). change (skipn 2 (dd ++ h')) with h'.
  rewrite <- app_assoc in H. rewrite (split_eq_app dd) in H by reflexivity.
  destruct (split_eq (h' ++ c_eq :: v)) as [[h2 v2]|] eqn:E; [|discriminate].
  inversion H; subst. rewrite (split_eq_app ddx) by reflexivity. rewrite E. reflexivity.
Qed.

Section Respell.
  Variable p : parser.
  Hypothesis Hinv : inv p.
  Hypothesis Hnodd : registered p dd = false.      (* no argument with the empty name *)

  Definition rs (b : bool) (t : str) : str := if b && respellable p t then twin t else t.

  Lemma respellable_popt t : respellable p t = true -> popt t = true.
  Proof. unfold respellable, popt. intros H. apply andb_true_iff in H. tauto. Qed.

  (* the class of a token, and everything the parser takes from it, is unchanged by respelling *)
  Lemma ctok_rs b t :
    match classify_tok p t with
    | TOpt a s ex => exists s', classify_tok p (rs b t) = TOpt a s' ex /\ apply_flag a s' = apply_flag a s
    | TPlain => rs b t = t
    | TUnknown => rs b t = t
    end.
  Proof.
    unfold rs. destruct (b && respellable p t) eqn:Eb.
    2:{ destruct (classify_tok p t) as [a s ex| |]; [exists s; auto|reflexivity|reflexivity]. }
    apply andb_true_iff in Eb. destruct Eb as [_ Hr]. pose proof (respellable_popt _ Hr) as Hp.
    unfold respellable in Hr. apply andb_true_iff in Hr. destruct Hr as [_ Hr].
    unfold classify_tok. rewrite (dd_dash1 _ (popt_dd _ Hp)), (dd_dash1 _ (ddx_dd _ (twin_ddx t))). cbn [negb].
    rewrite (inv_twin p Hinv t Hp).
    destruct (assoc t (p_opts p)) as [a|] eqn:Ea.
    - exists (twin t). split; [reflexivity|]. unfold apply_flag.
      destruct (a_kind a); try reflexivity; f_equal; apply (inv_true p Hinv t a Ea Hp).
    - unfold registered in Hr. rewrite Ea in Hr. cbn [orb] in Hr.
      destruct (split_eq t) as [[h v]|] eqn:Es; [|discriminate].
      destruct (assoc h (p_opts p)) as [a|] eqn:Eh; [|discriminate].
      pose proof (inv_dd p Hinv h a Eh) as Hhd.
      rewrite (split_eq_twin _ _ _ Hhd Es).
      assert (Hhp : popt h = true).
      { unfold popt. rewrite Hhd. cbn [andb]. destruct (starts_with ddx h) eqn:Ex; [|reflexivity].
        exfalso. pose proof (popt_nx _ Hp) as Hn. rewrite (split_eq_sound _ _ _ Es) in Hn.
        rewrite (starts_with_appl ddx h (c_eq :: v) Ex) in Hn. discriminate. }
      rewrite (inv_twin p Hinv h Hhp), Eh. exists (twin h). split; [reflexivity|]. unfold apply_flag.
      destruct (a_kind a); try reflexivity; f_equal; apply (inv_true p Hinv h a Eh Hhp).
  Qed.

  Lemma ctok_plain_iff b t : classify_tok p (rs b t) = TPlain <-> classify_tok p t = TPlain.
  Proof.
    pose proof (ctok_rs b t) as H. destruct (classify_tok p t) as [a s ex| |] eqn:E.
    - destruct H as (s' & H & _). rewrite H. split; discriminate.
    - rewrite H, E. tauto.
    - rewrite H, E. tauto.
  Qed.

  Lemma parse_go_rs : forall argv mask n, parse_go p n (respell p mask argv) = parse_go p n argv.
  Proof.
    fix IH 1. intros argv mask n. destruct argv as [|t r]; [destruct mask; reflexivity|].
    destruct mask as [|b m]; [reflexivity|].
    change (respell p (b :: m) (t :: r)) with (rs b t :: respell p m r).
    cbn [parse_go]. pose proof (ctok_rs b t) as Ht.
    destruct (classify_tok p t) as [a s ex| |] eqn:Et.
    - destruct Ht as (s' & Ht & Hf). rewrite Ht. destruct ex as [v|].
      + destruct (a_kind a); try reflexivity. apply IH.
      + destruct (a_kind a) eqn:Ek; try (rewrite Hf; apply IH).
        destruct r as [|v r']; [destruct m; reflexivity|].
        destruct m as [|b' m'].
        * cbn [respell]. destruct (classify_tok p v); reflexivity.
        * change (respell p (b' :: m') (v :: r')) with (rs b' v :: respell p m' r').
          pose proof (ctok_rs b' v) as Hv. pose proof (ctok_plain_iff b' v) as Hpi.
          destruct (classify_tok p v) as [a2 s2 ex2| |] eqn:Ev.
          -- destruct Hv as (s2' & Hv & _). rewrite Hv. reflexivity.
          -- rewrite Hv, Ev. apply IH.
          -- rewrite Hv, Ev. reflexivity.
    - rewrite Ht, Et. reflexivity.
    - rewrite Ht, Et. reflexivity.
  Qed.

  Lemma outside_rs b t : outside p (rs b t) = outside p t.
  Proof.
    unfold rs. destruct (b && respellable p t) eqn:Eb; [|reflexivity].
    apply andb_true_iff in Eb. destruct Eb as [_ Hr]. pose proof (respellable_popt _ Hr) as Hp.
    unfold outside. rewrite (popt_dd _ Hp), (ddx_dd _ (twin_ddx t)). cbn. rewrite !andb_false_r. reflexivity.
  Qed.

  Lemma isdd_rs b t : str_eqb (rs b t) dd = str_eqb t dd.
  Proof.
    unfold rs. destruct (b && respellable p t) eqn:Eb; [|reflexivity].
    apply andb_true_iff in Eb. destruct Eb as [_ Hr].
    assert (Ht : str_eqb t dd = false).
    { apply str_eqb_false_neq. intros ->. unfold respellable in Hr. rewrite Hnodd in Hr. cbn in Hr. discriminate. }
    rewrite Ht. apply (starts_differ ddx); [apply twin_ddx|reflexivity].
  Qed.

  Lemma existsb_rs (f : str -> bool) : (forall b t, f (rs b t) = f t) ->
    forall argv mask, existsb f (respell p mask argv) = existsb f argv.
  Proof.
    intros Hf. induction argv as [|t r IH]; intros mask; [destruct mask; reflexivity|].
    destruct mask as [|b m]; [reflexivity|].
    change (respell p (b :: m) (t :: r)) with (rs b t :: respell p m r). cbn. rewrite Hf, IH. reflexivity.
  Qed.

  Theorem parse_respell mask argv : parse p (respell p mask argv) = parse p argv.
  Proof.
    unfold parse. rewrite (existsb_rs _ outside_rs).
    rewrite (existsb_rs (fun t => str_eqb dd t)).
    - rewrite parse_go_rs. reflexivity.
    - intros b t. rewrite !(str_eqb_sym dd). apply isdd_rs.
  Qed.
End Respell.

Theorem x_alias decls p mask argv :
  declare_all UParse decls empty_parser = inl p -> registered p dd = false ->
  parse p (respell p mask argv) = parse p argv.
Proof.
  intros H Hn. apply parse_respell; [|exact Hn]. eapply declare_from_inv; [exact H|apply inv_empty].
Qed.

(* the repaired add_user_argument: accepted declarations never register the bare double dash ... *)
Theorem fixed_nodd decls p : declare_all_fixed UParse decls empty_parser = inl p -> registered p dd = false.
Proof. intros H. eapply declare_from_nodd; [exact H|reflexivity]. Qed.

(* ... so the alias statement holds without a guard *)
Theorem x_alias_repaired decls p mask argv :
  declare_all_fixed UParse decls empty_parser = inl p -> parse p (respell p mask argv) = parse p argv.
Proof.
  intros H. apply parse_respell; [|exact (fixed_nodd _ _ H)]. eapply declare_from_inv; [exact H|apply inv_empty].
Qed.

(* the repair changes nothing else: a list of declarations none of which names the bare double dash is accepted
   or rejected alike, with the same parser / the same error, by both variants *)
Lemma user_names_fixed_same u names : mem dd names = false -> user_names true u names = user_names false u names.
Proof. intros H. unfold user_names. unfold mem in H. rewrite H. reflexivity. Qed.

Lemma declare_fixed_same u d p : mem dd (fst d) = false -> declare true u d p = declare false u d p.
Proof.
  destruct d as [names0 k]. cbn [fst]. intros H. unfold declare. rewrite (user_names_fixed_same _ _ H). reflexivity.
Qed.

Theorem declare_from_fixed_same u ds : forall i p, forallb (fun d => negb (mem dd (fst d))) ds = true ->
  declare_from true i u ds p = declare_from false i u ds p.
Proof.
  induction ds as [|d ds IH]; intros i p H; [reflexivity|]. cbn in H. apply andb_true_iff in H. destruct H as [Hd H].
  apply negb_true_iff in Hd. cbn [declare_from]. rewrite (declare_fixed_same _ _ _ Hd).
  destruct (declare false u d p); [apply IH, H|reflexivity].
Qed.

(* and a declaration that does name it is a ValueError in the repaired variant (when all names start with --) *)
Theorem declare_fixed_rejects u names k p :
  forallb (starts_with dd) names = true -> mem dd names = true -> declare true u (names, k) p = inr EValue.
Proof.
  intros Hd Hm. unfold declare, user_names.
  assert (E : existsb (fun i => negb (starts_with dd i)) names = false).
  { clear Hm. induction names as [|n l IH]; [reflexivity|]. cbn in *. apply andb_true_iff in Hd. destruct Hd as [-> Hd].
    cbn. apply IH, Hd. }
  rewrite E. unfold mem in Hm. rewrite Hm. reflexivity.
Qed.

(* ------------------------------------------------------------------------------------------ toggles *)
Lemma popt_ddn n : starts_with (STR "x-") n = false -> popt (dd ++ n) = true.
Proof.
  intros H. unfold popt. rewrite starts_with_app.
  change (starts_with ddx (dd ++ n)) with (starts_with (STR "x-") n). rewrite H. reflexivity.
Qed.

Theorem toggle_strings k n : k = AEnable \/ k = AWith -> starts_with (STR "x-") n = false ->
  user_names false UParse [dd ++ n] = Some [dd ++ n; ddx ++ n] /\
  action_strings k [dd ++ n; ddx ++ n] =
    Some ([dd ++ true_prefix k ++ n; ddx ++ true_prefix k ++ n; dd ++ false_prefix k ++ n; ddx ++ false_prefix k ++ n],
          [dd ++ true_prefix k ++ n; ddx ++ true_prefix k ++ n]).
Proof.
  intros Hk Hn. pose proof (popt_ddn n Hn) as Hp. split.
  - unfold user_names. cbn [existsb map]. rewrite (popt_dd _ Hp), (popt_nx _ Hp). reflexivity.
  - destruct Hk as [ -> | -> ]; unfold action_strings; cbn [map]; change (ddx ++ n) with (twin (dd ++ n));
      rewrite !(toggle_plain _ _ Hp), !(toggle_twin _ _ Hp); reflexivity.
Qed.

(* the same for the repaired add_user_argument, which wants a name *)
Theorem toggle_strings_repaired k n : k = AEnable \/ k = AWith -> starts_with (STR "x-") n = false -> n <> [] ->
  user_names true UParse [dd ++ n] = Some [dd ++ n; ddx ++ n] /\
  action_strings k [dd ++ n; ddx ++ n] =
    Some ([dd ++ true_prefix k ++ n; ddx ++ true_prefix k ++ n; dd ++ false_prefix k ++ n; ddx ++ false_prefix k ++ n],
          [dd ++ true_prefix k ++ n; ddx ++ true_prefix k ++ n]).
Proof.
  intros Hk Hn Hne. rewrite user_names_fixed_same; [apply toggle_strings; assumption|].
  cbn [mem existsb]. rewrite orb_false_r. apply str_eqb_false_neq. intros E.
  apply Hne. change dd with (dd ++ []) in E at 1. apply app_inv_head in E. symmetry. exact E.
Qed.
