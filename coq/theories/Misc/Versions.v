(* W model of bfg9000/versioning.py simplify_specifiers and of
   builtins/pkg_config.py Requirement / SimpleRequirement / RequirementSet and the
   requirement part of PkgConfigInfo.finalize.

   Versions are an abstract type V carrying
     veqb  - identity of the printed form (Specifier equality compares (op, version string)),
     leb   - the version order (verspec LooseVersion comparison): a total PREorder, two
             different printed forms may denote the same version (1 and 1.0),
     kleb  - the order the sort key of the unrepaired code used: comparison of the printed
             forms as Python strings.
   [fixed] selects between the code before (false) and after (true) the repair
   "compare versions, not strings" of simplify_specifiers:
     key(s) = (s.version, rank)            vs  (Version(s.version), rank)
     collapse >=v,<=v to ==v unconditionally  vs  raise when an in-bounds != remains.
   [eqv] selects between the code before (false) and after (true) the repair
   "compare == specifiers by version":
     elif eq != i: raise   (Specifier.__ne__: operator or version STRING differ, so ==1,==1.0 raises)
     vs  elif Version(eq.version) != Version(i.version): raise   (the first == met is kept). *)
From BFG Require Import Base.Chars.
Local Open Scope N_scope.

Inductive op := OEq | ONe | OGe | OGt | OLe | OLt.

Definition op_eqb (a b : op) : bool :=
  match a, b with
  | OEq, OEq | ONe, ONe | OGe, OGe | OGt, OGt | OLe, OLe | OLt, OLt => true
  | _, _ => false
  end.

(* 1 if s.operator in ['>=', '<'] else 2 *)
Definition rank (o : op) : N := match o with OGe | OLt => 1 | _ => 2 end.

(* Python comparison of two str (and of two tuples of ints): lexicographic by code point,
   a proper prefix is smaller *)
Fixpoint lex_leb (a b : list N) : bool :=
  match a, b with
  | [], _ => true
  | _ :: _, [] => false
  | x :: a', y :: b' => if x <? y then true else if y <? x then false else lex_leb a' b'
  end.
Definition str_leb (a b : str) : bool := lex_leb a b.

Inductive res (T : Type) := Ok (x : T) | Err.
Arguments Ok {T} _.
Arguments Err {T}.

Section Versions.
Variable V : Type.
Variable veqb : V -> V -> bool.
Variable leb : V -> V -> bool.
Variable kleb : V -> V -> bool.

Definition spec : Type := op * V.

Definition veq (a b : V) : bool := leb a b && leb b a.
Definition vlt (a b : V) : bool := negb (leb b a).

(* Specifier.contains: x in s *)
Definition sat1 (x : V) (s : spec) : bool :=
  match fst s with
  | OEq => veq x (snd s)
  | ONe => negb (veq x (snd s))
  | OGe => leb (snd s) x
  | OGt => vlt (snd s) x
  | OLe => leb x (snd s)
  | OLt => vlt x (snd s)
  end.

(* SpecifierSet.contains: conjunction *)
Definition sat (x : V) (ss : list spec) : bool := forallb (sat1 x) ss.

(* Specifier.__eq__: same operator and same version string *)
Definition spec_eqb (a b : spec) : bool := op_eqb (fst a) (fst b) && veqb (snd a) (snd b).

Section Simplify.
Variable fixed : bool.
Variable eqv : bool.

Definition kle (a b : V) : bool := if fixed then leb a b else kleb a b.

(* key(a) < key(b) for the Python tuples (version-or-string, rank) *)
Definition key_lt (a b : spec) : bool :=
  if kle (snd a) (snd b) && kle (snd b) (snd a) then rank (fst a) <? rank (fst b)
  else negb (kle (snd b) (snd a)).

(* the test that lets a second == specifier [i] pass next to the kept one [e]:
   not (eq != i)  vs  not (Version(eq.version) != Version(i.version)) *)
Definition same_eq (e i : spec) : bool := if eqv then veq (snd e) (snd i) else spec_eqb e i.

Record st := mkst { s_gt : option spec; s_lt : option spec; s_eq : option spec; s_ne : list spec }.

(* one iteration of the for loop; None = raise err() *)
Definition step (s : st) (i : spec) : option st :=
  match fst i with
  | OEq => match s_eq s with
           | None => Some (mkst (s_gt s) (s_lt s) (Some i) (s_ne s))
           | Some e => if same_eq e i then Some s else None
           end
  | ONe => Some (mkst (s_gt s) (s_lt s) (s_eq s) (s_ne s ++ [i]))
  | OGe | OGt =>
      let g := match s_gt s with None => i | Some g => if key_lt g i then i else g end in  (* max(gt, i, key=key) *)
      Some (mkst (Some g) (s_lt s) (s_eq s) (s_ne s))
  | OLe | OLt =>
      let l := match s_lt s with None => i | Some l => if key_lt i l then i else l end in  (* min(lt, i, key=key) *)
      Some (mkst (s_gt s) (Some l) (s_eq s) (s_ne s))
  end.

Fixpoint loop (s : st) (ss : list spec) : option st :=
  match ss with
  | [] => Some s
  | i :: r => match step s i with None => None | Some s' => loop s' r end
  end.

Definition sat_opt (x : V) (o : option spec) : bool :=
  match o with None => true | Some s => sat1 x s end.

Definition in_bounds (v : V) (lo hi : option spec) : bool := sat_opt v lo && sat_opt v hi.

Definition opt_list {T} (o : option T) : list T := match o with None => [] | Some x => [x] end.

Definition finish (s : st) : res (list spec) :=
  let gt := s_gt s in
  let lt := s_lt s in
  let ne := filter (fun i => in_bounds (snd i) gt lt) (s_ne s) in
  match s_eq s with
  | Some e =>
      if existsb (fun i => sat1 (snd i) e) ne || negb (in_bounds (snd e) gt lt) then Err
      else Ok [e]
  | None =>
      match gt, lt with
      | Some g, Some l =>
          if negb (sat1 (snd l) g) || negb (sat1 (snd g) l) then Err
          else if veqb (snd g) (snd l) && op_eqb (fst g) OGe && op_eqb (fst l) OLe then
            match ne with
            | [] => Ok [(OEq, snd g)]
            | _ :: _ => if fixed then Err else Ok [(OEq, snd g)]
            end
          else Ok (g :: l :: ne)
      | _, _ => Ok (opt_list gt ++ opt_list lt ++ ne)
      end
  end.

(* simplify_specifiers; the argument lists the specifiers in the iteration order of the set *)
Definition simplify (ss : list spec) : res (list spec) :=
  match loop (mkst None None None []) ss with
  | None => Err
  | Some s => finish s
  end.
End Simplify.

(* ---- Requirement, SimpleRequirement, RequirementSet ---- *)

Definition mem_spec (s : spec) (l : list spec) : bool := existsb (spec_eqb s) l.

(* set union of two SpecifierSets kept as duplicate-free lists *)
Fixpoint union (a b : list spec) : list spec :=
  match b with
  | [] => a
  | s :: r => if mem_spec s a then union a r else union (a ++ [s]) r
  end.

Definition req : Type := str * list spec.

(* Requirement.__iand__; None = ValueError (names differ) *)
Definition req_and (a b : req) : option req :=
  if str_eqb (fst a) (fst b) then Some (fst a, union (snd a) (snd b)) else None.

(* SimpleRequirement: name with at most one specifier *)
Definition simple : Type := str * option spec.

(* Requirement.split(single); Err = ValueError from simplify or from the single check *)
Definition req_split (fixed eqv single : bool) (r : req) : res (list simple) :=
  match simplify fixed eqv (snd r) with
  | Err => Err
  | Ok [] => Ok [(fst r, None)]
  | Ok specs =>
      if single && Nat.ltb 1 (length specs) then Err
      else Ok (map (fun i => (fst r, Some i)) specs)
  end.

(* RequirementSet: insertion-ordered dict name -> Requirement *)

Fixpoint rs_add (rs : (list req)) (item : req) : (list req) :=
  match rs with
  | [] => [item]
  | r :: rest =>
      if str_eqb (fst r) (fst item) then (fst r, union (snd r) (snd item)) :: rest
      else r :: rs_add rest item
  end.

Definition rs_update (rs : (list req)) (items : list req) : (list req) := fold_left rs_add items rs.
Definition rs_of_list (items : list req) : (list req) := rs_update [] items.

Definition rs_has (rs : (list req)) (name : str) : bool := existsb (fun r => str_eqb (fst r) name) rs.
Definition rs_remove (rs : (list req)) (name : str) : (list req) := filter (fun r => negb (str_eqb (fst r) name)) rs.

(* self.merge_from(other): returns (self, other) after the call *)
Definition rs_merge_from (self other : (list req)) : (list req) * (list req) :=
  fold_left (fun acc i =>
               if rs_has (fst acc) (fst i) then (rs_add (fst acc) i, rs_remove (snd acc) (fst i)) else acc)
            other (self, other).

(* stable insertion sort by name (Python sorted(key=name)); names compare as code point lists *)
Fixpoint insert_by_name (x : simple) (l : list simple) : list simple :=
  match l with
  | [] => [x]
  | y :: r => if negb (str_leb (fst x) (fst y)) then y :: insert_by_name x r else x :: y :: r
  end.

Definition sort_by_name (l : list simple) : list simple := fold_right insert_by_name [] l.

(* RequirementSet.split(single) *)
Fixpoint rs_split_all (fixed eqv single : bool) (rs : (list req)) : res (list simple) :=
  match rs with
  | [] => Ok []
  | r :: rest =>
      match req_split fixed eqv single r with
      | Err => Err
      | Ok a => match rs_split_all fixed eqv single rest with Err => Err | Ok b => Ok (a ++ b) end
      end
  end.

Definition rs_split (fixed eqv single : bool) (rs : (list req)) : res (list simple) :=
  match rs_split_all fixed eqv single rs with Err => Err | Ok l => Ok (sort_by_name l) end.

(* requirement part of PkgConfigInfo.finalize:
     requires_private.update(auto_requires); requires.merge_from(requires_private)
     'requires': requires.split(single=True), 'requires_private': ...split(single=True),
     'conflicts': conflicts.split() *)
Definition finalize_sets (requires requires_private auto_requires : list req) : (list req) * (list req) :=
  let pub := rs_of_list requires in
  let priv := rs_update (rs_of_list requires_private) auto_requires in
  rs_merge_from pub priv.

Definition finalize_reqs (fixed eqv : bool) (requires requires_private auto_requires conflicts : list req)
  : res (list simple * list simple * list simple) :=
  let (pub, priv) := finalize_sets requires requires_private auto_requires in
  match rs_split fixed eqv true pub, rs_split fixed eqv true priv, rs_split fixed eqv false (rs_of_list conflicts) with
  | Ok a, Ok b, Ok c => Ok (a, b, c)
  | _, _, _ => Err
  end.
End Versions.

Arguments mkst {V} _ _ _ _.
Arguments s_gt {V} _.
Arguments s_lt {V} _.
Arguments s_eq {V} _.
Arguments s_ne {V} _.

(* ---- executable instance: versions are their printed form, digits and dots ---- *)

(* parse the printed form into numeric components, as verspec _loose_cmpkey does on the
   sublanguage \d+(\.\d+)* : components compare numerically (zfill(8), fewer than 9 digits),
   a series of trailing zero components is dropped, a proper prefix is smaller *)
Fixpoint split_dots (cur : N) (s : str) : list N :=
  match s with
  | [] => [cur]
  | c :: r => if N.eqb c c_dot then cur :: split_dots 0 r else split_dots (10 * cur + (c - 48)) r
  end.

Fixpoint strip_zeros (l : list N) : list N :=
  match l with
  | [] => []
  | x :: r => match strip_zeros r with
              | [] => if N.eqb x 0 then [] else [x]
              | r' => x :: r'
              end
  end.

Definition vparse (s : str) : list N := strip_zeros (split_dots 0 s).

Definition sv_leb (a b : str) : bool := lex_leb (vparse a) (vparse b).

(* the model the correspondence runs: V = str *)
Definition simplify_str (fixed eqv : bool) := simplify str str_eqb sv_leb str_leb fixed eqv.
Definition sat_str := sat str sv_leb.
