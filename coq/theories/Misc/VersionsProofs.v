(* Proofs about Misc/Versions.v *)
From BFG Require Import Base.Chars Misc.Versions.
From Coq Require Import Lia String.
Local Open Scope N_scope.

(* ---- the unrepaired simplify_specifiers is not an equivalence ---- *)
Definition not_equiv (fixed : bool) (ss : list (spec str)) : Prop :=
  exists ss' x, simplify_str fixed ss = Ok ss' /\ sat_str x ss' <> sat_str x ss.

Lemma simplify_refuted_key : not_equiv false [(OGe, S "10"); (OGe, S "9")].
Proof. exists [(OGe, S "9")], (S "9"). split; vm_compute; [reflexivity|discriminate]. Qed.

Lemma simplify_refuted_ne : not_equiv false [(OGe, S "1"); (OLe, S "1"); (ONe, S "1")].
Proof. exists [(OEq, S "1")], (S "1"). split; vm_compute; [reflexivity|discriminate]. Qed.
