(* Proofs about Misc/Versions.v *)
From BFG Require Import Base.Chars Misc.Versions.
From Coq Require Import Lia Btauto String.
Local Open Scope N_scope.

(* ---- the unrepaired simplify_specifiers is not an equivalence ---- *)
Definition not_equiv (fixed eqv : bool) (ss : list (spec str)) : Prop :=
  exists ss' x, simplify_str fixed eqv ss = Ok ss' /\ sat_str x ss' <> sat_str x ss.

Lemma simplify_refuted_key eqv : not_equiv false eqv [(OGe, STR "10"); (OGe, STR "9")].
Proof. exists [(OGe, STR "9")], (STR "9"). destruct eqv; split; vm_compute; solve [reflexivity|discriminate]. Qed.

Lemma simplify_refuted_ne eqv : not_equiv false eqv [(OGe, STR "1"); (OLe, STR "1"); (ONe, STR "1")].
Proof. exists [(OEq, STR "1")], (STR "1"). destruct eqv; split; vm_compute; solve [reflexivity|discriminate]. Qed.

(* ---- general theory over an abstract total preorder of versions ---- *)
Section Proofs.
Variable V : Type.
Variable veqb leb kleb : V -> V -> bool.
Hypothesis veqb_eq : forall a b, veqb a b = true <-> a = b.
Hypothesis leb_total : forall a b, leb a b = true \/ leb b a = true.
Hypothesis leb_trans : forall a b c, leb a b = true -> leb b c = true -> leb a c = true.

Notation spec := (spec V).
Notation sat1 := (sat1 V leb).
Notation sat := (sat V leb).
Notation veq := (veq V leb).
Notation sat_opt := (sat_opt V leb).
Notation in_bounds := (in_bounds V leb).
Notation spec_eqb := (spec_eqb V veqb).
Notation step := (step V veqb leb kleb).
Notation loop := (loop V veqb leb kleb).
Notation finish := (finish V veqb leb).
Notation simplify := (simplify V veqb leb kleb).
Notation key_lt := (key_lt V leb kleb).
Notation same_eq := (same_eq V veqb leb).

(* decision procedure for goals about leb on a handful of variables *)
Ltac case_leb :=
  repeat match goal with
  | |- context [leb ?a ?b] => let E := fresh "E" in destruct (leb a b) eqn:E
  | H : context [leb ?a ?b] |- _ =>
      lazymatch type of H with
      | leb a b = _ => fail
      | _ => let E := fresh "E" in destruct (leb a b) eqn:E
      end
  end.
Ltac add_tot :=
  repeat match goal with
  | H : leb ?a ?b = false |- _ =>
      lazymatch goal with
      | _ : leb b a = true |- _ => fail
      | _ => assert (leb b a = true) by (destruct (leb_total a b) as [T|T]; [rewrite T in H; discriminate|exact T])
      end
  end.
Ltac sat_trans :=
  repeat match goal with
  | H1 : leb ?a ?b = true, H2 : leb ?b ?c = true |- _ =>
      lazymatch goal with
      | _ : leb a c = true |- _ => fail
      | _ => pose proof (leb_trans a b c H1 H2)
      end
  end.
Ltac ord :=
  unfold Versions.in_bounds, Versions.sat_opt in *; unfold Versions.sat1, Versions.veq, Versions.vlt in *; cbn [fst snd] in *;
  case_leb; cbn in *; try reflexivity; try discriminate; try (exfalso; add_tot; sat_trans; congruence).

Lemma leb_refl a : leb a a = true.
Proof. destruct (leb_total a a); assumption. Qed.

Lemma op_eqb_eq a b : op_eqb a b = true <-> a = b.
Proof. destruct a, b; cbn; split; congruence. Qed.

Lemma spec_eqb_eq (a b : spec) : spec_eqb a b = true <-> a = b.
Proof.
  destruct a as [oa va], b as [ob vb]. unfold Versions.spec_eqb; cbn [fst snd].
  rewrite andb_true_iff, op_eqb_eq, veqb_eq. split; [intros [-> ->]; reflexivity|intros H; inversion H; auto].
Qed.

(* membership respects version equivalence *)
Lemma sat1_congr x y (s : spec) : veq x y = true -> sat1 x s = sat1 y s.
Proof. destruct s as [[] v]; intros H; ord. Qed.

Lemma sat_opt_congr x y o : veq x y = true -> sat_opt x o = sat_opt y o.
Proof. destruct o; [apply sat1_congr|reflexivity]. Qed.

Lemma sat_app x (a b : list spec) : sat x (a ++ b) = sat x a && sat x b.
Proof. apply forallb_app. Qed.

Lemma sat_cons x i (l : list spec) : sat x (i :: l) = sat1 x i && sat x l.
Proof. reflexivity. Qed.

Lemma sat_in x (ss : list spec) s : sat x ss = true -> In s ss -> sat1 x s = true.
Proof. unfold Versions.sat. rewrite forallb_forall. auto. Qed.

Definition is_lo (s : spec) : bool := match fst s with OGe | OGt => true | _ => false end.
Definition is_hi (s : spec) : bool := match fst s with OLe | OLt => true | _ => false end.
Definition is_eq (s : spec) : bool := op_eqb (fst s) OEq.
Definition is_ne (s : spec) : bool := op_eqb (fst s) ONe.
Definition opt_all (p : spec -> bool) (o : option spec) : bool := match o with None => true | Some s => p s end.

(* max / min under the repaired key are the conjunction of the two bounds *)
Lemma max_lo x (g i : spec) : is_lo g = true -> is_lo i = true ->
  sat1 x (if key_lt true g i then i else g) = sat1 x g && sat1 x i.
Proof.
  destruct g as [og vg], i as [oi vi]. unfold is_lo, Versions.key_lt, Versions.kle; cbn [fst snd].
  destruct og; try discriminate; destruct oi; try discriminate; intros _ _; cbn [rank]; ord.
Qed.

Lemma min_hi x (l i : spec) : is_hi l = true -> is_hi i = true ->
  sat1 x (if key_lt true i l then i else l) = sat1 x l && sat1 x i.
Proof.
  destruct l as [ol vl], i as [oi vi]. unfold is_hi, Versions.key_lt, Versions.kle; cbn [fst snd].
  destruct ol; try discriminate; destruct oi; try discriminate; intros _ _; cbn [rank]; ord.
Qed.

(* shape of the loop state *)
Definition shape (s : st V) : Prop :=
  opt_all is_lo (s_gt s) = true /\ opt_all is_hi (s_lt s) = true /\ opt_all is_eq (s_eq s) = true /\
  forallb is_ne (s_ne s) = true.

Definition st_sat x (s : st V) : bool :=
  sat_opt x (s_gt s) && sat_opt x (s_lt s) && sat_opt x (s_eq s) && sat x (s_ne s).

Lemma step_shape fixed eqv s i s' : shape s -> step fixed eqv s i = Some s' -> shape s'.
Proof.
  intros (Hg & Hl & He & Hn). unfold Versions.step, shape.
  destruct i as [oi vi]; cbn [fst snd].
  destruct oi.
  - destruct (s_eq s) eqn:E.
    + destruct (same_eq eqv s0 (OEq, vi)); intros H; inversion H; subst. rewrite E. auto.
    + intros H; inversion H; subst; cbn. auto.
  - intros H; inversion H; subst; cbn. rewrite forallb_app, Hn. auto.
  - intros H; inversion H; subst; cbn [s_gt s_lt s_eq s_ne opt_all]. repeat split; auto.
    destruct (s_gt s); [|reflexivity]. cbn in Hg. destruct (Versions.key_lt _ _ _ _ _ _); auto.
  - intros H; inversion H; subst; cbn [s_gt s_lt s_eq s_ne opt_all]. repeat split; auto.
    destruct (s_gt s); [|reflexivity]. cbn in Hg. destruct (Versions.key_lt _ _ _ _ _ _); auto.
  - intros H; inversion H; subst; cbn [s_gt s_lt s_eq s_ne opt_all]. repeat split; auto.
    destruct (s_lt s); [|reflexivity]. cbn in Hl. destruct (Versions.key_lt _ _ _ _ _ _); auto.
  - intros H; inversion H; subst; cbn [s_gt s_lt s_eq s_ne opt_all]. repeat split; auto.
    destruct (s_lt s); [|reflexivity]. cbn in Hl. destruct (Versions.key_lt _ _ _ _ _ _); auto.
Qed.

(* one iteration of the repaired loop keeps the set of members *)
(* a second == specifier that passes the test says nothing new *)
Lemma same_eq_sat eqv (e i : spec) x : is_eq e = true -> is_eq i = true -> same_eq eqv e i = true ->
  sat1 x e = sat1 x e && sat1 x i.
Proof.
  intros He Hi Q. unfold Versions.same_eq in Q. destruct eqv.
  - destruct e as [oe ve], i as [oi vi]. unfold is_eq in *; cbn [fst snd] in *.
    apply op_eqb_eq in He, Hi. subst. clear - Q leb_total leb_trans. ord.
  - apply spec_eqb_eq in Q. subst i. btauto.
Qed.

Lemma step_sat eqv s i s' x : shape s -> step true eqv s i = Some s' -> st_sat x s' = st_sat x s && sat1 x i.
Proof.
  intros (Hg & Hl & He & Hn). unfold Versions.step, st_sat.
  destruct i as [oi vi]; cbn [fst snd].
  destruct oi.
  - destruct (s_eq s) eqn:E.
    + destruct (same_eq eqv s0 (OEq, vi)) eqn:Q; intros H; inversion H; subst.
      rewrite ?E in He. cbn in He. rewrite E. cbn [Versions.sat_opt].
      rewrite (same_eq_sat eqv s0 (OEq, vi) x He eq_refl Q) at 1. btauto.
    + intros H; inversion H; subst; cbn [s_gt s_lt s_eq s_ne Versions.sat_opt]. btauto.
  - intros H; inversion H; subst; cbn [s_gt s_lt s_eq s_ne]. rewrite sat_app. cbn. btauto.
  - intros H; inversion H; subst; cbn [s_gt s_lt s_eq s_ne].
    destruct (s_gt s) as [g|]; cbn [Versions.sat_opt].
    + cbn in Hg. rewrite max_lo by auto. btauto.
    + btauto.
  - intros H; inversion H; subst; cbn [s_gt s_lt s_eq s_ne].
    destruct (s_gt s) as [g|]; cbn [Versions.sat_opt].
    + cbn in Hg. rewrite max_lo by auto. btauto.
    + btauto.
  - intros H; inversion H; subst; cbn [s_gt s_lt s_eq s_ne].
    destruct (s_lt s) as [l|]; cbn [Versions.sat_opt].
    + cbn in Hl. rewrite min_hi by auto. btauto.
    + btauto.
  - intros H; inversion H; subst; cbn [s_gt s_lt s_eq s_ne].
    destruct (s_lt s) as [l|]; cbn [Versions.sat_opt].
    + cbn in Hl. rewrite min_hi by auto. btauto.
    + btauto.
Qed.

Lemma loop_shape fixed eqv ss : forall s s', shape s -> loop fixed eqv s ss = Some s' -> shape s'.
Proof.
  induction ss as [|i r IH]; cbn; intros s s' Hs H.
  - inversion H; subst; auto.
  - destruct (step fixed eqv s i) eqn:E; [|discriminate]. eapply IH; [|eassumption]. eapply step_shape; eassumption.
Qed.

Lemma loop_sat eqv ss : forall s s' x, shape s -> loop true eqv s ss = Some s' -> st_sat x s' = st_sat x s && sat x ss.
Proof.
  induction ss as [|i r IH]; intros s s' x Hs H; cbn [Versions.loop] in H.
  - inversion H; subst. cbn. btauto.
  - destruct (step true eqv s i) eqn:E; [|discriminate].
    change (sat x (i :: r)) with (sat1 x i && sat x r).
    rewrite (IH _ _ x (step_shape _ _ _ _ _ Hs E) H), (step_sat _ _ _ _ x Hs E). btauto.
Qed.

(* dropping the != whose version is out of bounds does not change membership within the bounds *)
Lemma ne_filter x gt lt (ne : list spec) :
  forallb is_ne ne = true -> sat_opt x gt && sat_opt x lt = true ->
  sat x (filter (fun i => in_bounds (snd i) gt lt) ne) = sat x ne.
Proof.
  intros Hn Hb. induction ne as [|i r IH]; [reflexivity|].
  cbn in Hn. apply andb_true_iff in Hn. destruct Hn as [Hi Hr]. cbn [filter].
  destruct (in_bounds (snd i) gt lt) eqn:B; rewrite !sat_cons, IH by assumption; [reflexivity|].
  destruct i as [oi vi]. unfold is_ne in Hi; cbn [fst snd] in *. apply op_eqb_eq in Hi. subst oi.
  replace (sat1 x (ONe, vi)) with true; [reflexivity|].
  symmetry. unfold Versions.sat1; cbn [fst snd]. apply negb_true_iff.
  destruct (veq x vi) eqn:Q; [|reflexivity].
  unfold Versions.in_bounds in B. rewrite <- (sat_opt_congr x vi gt Q), <- (sat_opt_congr x vi lt Q), Hb in B.
  discriminate.
Qed.

Lemma sat_ne_of_eq x (e : spec) (ne : list spec) :
  is_eq e = true -> forallb is_ne ne = true -> sat1 x e = true ->
  existsb (fun i => sat1 (snd i) e) ne = false -> sat x ne = true.
Proof.
  intros He Hn Hx Hex. unfold Versions.sat. apply forallb_forall. intros i Hi.
  rewrite forallb_forall in Hn. specialize (Hn i Hi).
  assert (Q : sat1 (snd i) e = false).
  { destruct (sat1 (snd i) e) eqn:Q; [|reflexivity].
    assert (existsb (fun i => sat1 (snd i) e) ne = true) by (apply existsb_exists; eauto). congruence. }
  destruct i as [oi vi], e as [oe ve]. unfold is_eq, is_ne in *; cbn [fst snd] in *.
  apply op_eqb_eq in He, Hn. subst. clear - Hx Q leb_total leb_trans. ord.
Qed.

Lemma filter_forallb {T} (p q : T -> bool) l : forallb p l = true -> forallb p (filter q l) = true.
Proof.
  rewrite !forallb_forall. intros H x Hx. apply filter_In in Hx. apply H, Hx.
Qed.

(* the repaired finish: an accepted state is reported with the same members *)
Lemma finish_sat s ss' x : shape s -> finish true s = Ok ss' -> sat x ss' = st_sat x s.
Proof.
  intros (Hg & Hl & He & Hn). unfold Versions.finish, st_sat.
  set (ne' := filter (fun i => in_bounds (snd i) (s_gt s) (s_lt s)) (s_ne s)).
  assert (Hn' : forallb is_ne ne' = true) by (apply filter_forallb; assumption).
  assert (NF : sat_opt x (s_gt s) && sat_opt x (s_lt s) = true -> sat x ne' = sat x (s_ne s))
    by (intros B; apply ne_filter; assumption).
  destruct (s_eq s) as [e|].
  - cbn in He.
    destruct (existsb (fun i => sat1 (snd i) e) ne') eqn:X; [discriminate|].
    destruct (in_bounds (snd e) (s_gt s) (s_lt s)) eqn:B; [|discriminate].
    cbn [orb negb]. intros H; inversion H; subst. cbn [Versions.sat forallb Versions.sat_opt].
    destruct (sat1 x e) eqn:Q; [|btauto].
    assert (Qv : veq x (snd e) = true).
    { destruct e as [oe ve]. unfold is_eq in He; cbn [fst snd] in *. apply op_eqb_eq in He. subst. exact Q. }
    unfold Versions.in_bounds in B.
    rewrite <- (sat_opt_congr x (snd e) _ Qv), <- (sat_opt_congr x (snd e) _ Qv) in B.
    rewrite <- NF by assumption. rewrite (sat_ne_of_eq x e ne' He Hn' Q X).
    apply andb_true_iff in B. destruct B as [-> ->]. reflexivity.
  - cbn [Versions.sat_opt]. rewrite andb_true_r.
    destruct (s_gt s) as [g|] eqn:EG, (s_lt s) as [l|] eqn:EL.
    + destruct (negb (sat1 (snd l) g) || negb (sat1 (snd g) l)); [discriminate|].
      destruct (veqb (snd g) (snd l) && op_eqb (fst g) OGe && op_eqb (fst l) OLe) eqn:C.
      * apply andb_true_iff in C. destruct C as [C C3]. apply andb_true_iff in C. destruct C as [C1 C2].
        apply veqb_eq in C1. apply op_eqb_eq in C2, C3.
        destruct g as [og vg], l as [ol vl]; cbn [fst snd] in *. subst.
        destruct ne' eqn:EN; [|discriminate].
        intros H; inversion H; subst. cbn [Versions.sat forallb Versions.sat_opt].
        destruct (sat1 x (OGe, vl) && sat1 x (OLe, vl)) eqn:B.
        -- rewrite <- NF by exact B. cbn. rewrite andb_true_r.
           clear - B leb_total leb_trans. ord.
        -- rewrite andb_true_r. clear - B leb_total leb_trans.
           destruct (sat x (s_ne s)); [|rewrite andb_false_r]; ord.
      * intros H; inversion H; subst. cbn [Versions.sat forallb Versions.sat_opt].
        fold (sat x ne'). cbn [Versions.sat_opt] in NF.
        destruct (sat1 x g && sat1 x l) eqn:B.
        -- rewrite NF by reflexivity. apply andb_true_iff in B. destruct B as [-> ->]. reflexivity.
        -- rewrite andb_assoc, B. reflexivity.
    + intros H; inversion H; subst. cbn [opt_list app Versions.sat forallb Versions.sat_opt] in *.
      fold (sat x ne'). destruct (sat1 x g) eqn:B; [|reflexivity]. rewrite NF by reflexivity. reflexivity.
    + intros H; inversion H; subst. cbn [opt_list app Versions.sat forallb Versions.sat_opt] in *.
      fold (sat x ne'). destruct (sat1 x l) eqn:B; [|reflexivity]. rewrite NF by reflexivity. reflexivity.
    + intros H; inversion H; subst. cbn [opt_list app Versions.sat_opt] in *. rewrite NF by reflexivity. reflexivity.
Qed.

Lemma shape_init : shape (mkst None None None []).
Proof. repeat split. Qed.

(* C17_simplify_equiv for the repaired code *)
Theorem simplify_equiv eqv ss ss' : simplify true eqv ss = Ok ss' -> forall x, sat x ss' = sat x ss.
Proof.
  unfold Versions.simplify. destruct (loop true eqv (mkst None None None []) ss) as [s|] eqn:E; [|discriminate].
  intros H x. rewrite (finish_sat s ss' x (loop_shape _ _ _ _ _ shape_init E) H).
  rewrite (loop_sat eqv ss _ _ x shape_init E). reflexivity.
Qed.

(* ---- rejection is sound (both variants of the key): with == compared by version (eqv = true) always, with ==
   compared as Specifier objects (eqv = false) on sets whose == versions are spelled canonically ---- *)
Definition canon (ss : list spec) : Prop :=
  forall a b, In a ss -> In b ss -> is_eq a = true -> is_eq b = true ->
              veq (snd a) (snd b) = true -> snd a = snd b.

Definition mem_inv (ss : list spec) (s : st V) : Prop :=
  (forall g, s_gt s = Some g -> In g ss) /\ (forall l, s_lt s = Some l -> In l ss) /\
  (forall e, s_eq s = Some e -> In e ss) /\ incl (s_ne s) ss.

Lemma step_mem fixed eqv pre s i s' : mem_inv pre s -> step fixed eqv s i = Some s' -> mem_inv (pre ++ [i]) s'.
Proof.
  intros (Hg & Hl & He & Hn). unfold Versions.step, mem_inv.
  assert (Ii : In i (pre ++ [i])) by (apply in_or_app; right; left; reflexivity).
  assert (Ip : forall a, In a pre -> In a (pre ++ [i])) by (intros; apply in_or_app; left; assumption).
  destruct (fst i).
  - destruct (s_eq s) eqn:E.
    + destruct (same_eq eqv s0 i); intros H; inversion H; subst. rewrite E.
      repeat split; intros; auto. intros a Ha. auto.
    + intros H; inversion H; subst; cbn [s_gt s_lt s_eq s_ne]. repeat split; intros; auto.
      * inversion H0; subst; auto.
      * intros a Ha. auto.
  - intros H; inversion H; subst; cbn [s_gt s_lt s_eq s_ne]. repeat split; intros; auto.
    intros a Ha. apply in_app_or in Ha. destruct Ha as [Ha|[<-|[]]]; auto.
  - intros H; inversion H; subst; cbn [s_gt s_lt s_eq s_ne]. repeat split; intros; auto.
    + inversion H0; subst. destruct (s_gt s); [destruct (Versions.key_lt _ _ _ _ _ _)|]; auto.
    + intros a Ha. auto.
  - intros H; inversion H; subst; cbn [s_gt s_lt s_eq s_ne]. repeat split; intros; auto.
    + inversion H0; subst. destruct (s_gt s); [destruct (Versions.key_lt _ _ _ _ _ _)|]; auto.
    + intros a Ha. auto.
  - intros H; inversion H; subst; cbn [s_gt s_lt s_eq s_ne]. repeat split; intros; auto.
    + inversion H0; subst. destruct (s_lt s); [destruct (Versions.key_lt _ _ _ _ _ _)|]; auto.
    + intros a Ha. auto.
  - intros H; inversion H; subst; cbn [s_gt s_lt s_eq s_ne]. repeat split; intros; auto.
    + inversion H0; subst. destruct (s_lt s); [destruct (Versions.key_lt _ _ _ _ _ _)|]; auto.
    + intros a Ha. auto.
Qed.

Lemma step_none fixed eqv s i : step fixed eqv s i = None ->
  exists e, s_eq s = Some e /\ is_eq i = true /\ same_eq eqv e i = false.
Proof.
  unfold Versions.step, is_eq. destruct (fst i); try discriminate.
  destruct (s_eq s) as [e|]; [|discriminate]. destruct (same_eq eqv e i) eqn:Q; [discriminate|].
  intros _. exists e. auto.
Qed.

Lemma loop_mem fixed eqv rest : forall pre s s', mem_inv pre s -> loop fixed eqv s rest = Some s' -> mem_inv (pre ++ rest) s'.
Proof.
  induction rest as [|i r IH]; intros pre s s' Hm H; cbn [Versions.loop] in H.
  - inversion H; subst. rewrite app_nil_r. assumption.
  - destruct (step fixed eqv s i) eqn:E; [|discriminate].
    replace (pre ++ i :: r) with ((pre ++ [i]) ++ r) by (rewrite <- app_assoc; reflexivity).
    eapply IH; [|eassumption]. eapply step_mem; eassumption.
Qed.

Lemma loop_none fixed eqv rest : forall pre s, shape s -> mem_inv pre s -> loop fixed eqv s rest = None ->
  exists e i, In e (pre ++ rest) /\ In i (pre ++ rest) /\ is_eq e = true /\ is_eq i = true /\ same_eq eqv e i = false.
Proof.
  induction rest as [|i r IH]; intros pre s Hs Hm H; cbn [Versions.loop] in H; [discriminate|].
  destruct (step fixed eqv s i) eqn:E.
  - replace (pre ++ i :: r) with ((pre ++ [i]) ++ r) by (rewrite <- app_assoc; reflexivity).
    eapply IH; [| |eassumption]; [eapply step_shape|eapply step_mem]; eassumption.
  - apply step_none in E. destruct E as (e & Ee & Hi & Q). exists e, i.
    destruct Hm as (_ & _ & He & _). destruct Hs as (_ & _ & Hse & _). rewrite Ee in Hse.
    repeat split; auto.
    + apply in_or_app. left. auto.
    + apply in_or_app. right. left. reflexivity.
Qed.

Lemma finish_err fixed s ss : shape s -> mem_inv ss s -> finish fixed s = Err -> forall x, sat x ss = false.
Proof.
  intros (Hg & Hl & He & Hn) (Mg & Ml & Me & Mn) H x.
  destruct (sat x ss) eqn:SX; [exfalso|reflexivity].
  assert (SI : forall a, In a ss -> sat1 x a = true) by (intros; eapply sat_in; eassumption).
  unfold Versions.finish in H.
  set (ne' := filter (fun i => in_bounds (snd i) (s_gt s) (s_lt s)) (s_ne s)) in *.
  assert (N' : forall i, In i ne' -> In i ss /\ is_ne i = true /\ in_bounds (snd i) (s_gt s) (s_lt s) = true).
  { intros i Hi. apply filter_In in Hi. destruct Hi as [Hi Bi]. rewrite forallb_forall in Hn. auto. }
  destruct (s_eq s) as [e|].
  - specialize (Me e eq_refl). cbn in He. pose proof (SI e Me) as Xe.
    destruct (existsb (fun i => sat1 (snd i) e) ne') eqn:X.
    + apply existsb_exists in X. destruct X as (i & Hi & Q). destruct (N' i Hi) as (Is & Ni & _).
      pose proof (SI i Is) as Xi.
      destruct i as [oi vi], e as [oe ve]. unfold is_eq, is_ne in *; cbn [fst snd] in *.
      apply op_eqb_eq in He, Ni. subst. clear - Xe Xi Q leb_total leb_trans. solve [ord].
    + destruct (in_bounds (snd e) (s_gt s) (s_lt s)) eqn:B; [discriminate|].
      assert (Qv : veq x (snd e) = true).
      { destruct e as [oe ve]. unfold is_eq in He; cbn [fst snd] in *. apply op_eqb_eq in He. subst. exact Xe. }
      unfold Versions.in_bounds in B.
      rewrite <- (sat_opt_congr x (snd e) _ Qv), <- (sat_opt_congr x (snd e) _ Qv) in B.
      destruct (s_gt s) as [g|]; destruct (s_lt s) as [l|]; cbn [Versions.sat_opt] in B;
        rewrite ?(SI _ (Mg _ eq_refl)), ?(SI _ (Ml _ eq_refl)) in B; discriminate.
  - destruct (s_gt s) as [g|] eqn:EG; [|destruct (s_lt s); discriminate].
    destruct (s_lt s) as [l|] eqn:EL; [|discriminate].
    pose proof (SI g (Mg g eq_refl)) as Xg. pose proof (SI l (Ml l eq_refl)) as Xl.
    cbn in Hg, Hl.
    destruct (negb (sat1 (snd l) g) || negb (sat1 (snd g) l)) eqn:C.
    + destruct g as [og vg], l as [ol vl]. unfold is_lo, is_hi in *; cbn [fst snd] in *.
      clear - C Xg Xl Hg Hl leb_total leb_trans.
      destruct og; try discriminate; destruct ol; try discriminate; solve [ord].
    + destruct (veqb (snd g) (snd l) && op_eqb (fst g) OGe && op_eqb (fst l) OLe) eqn:C2; [|discriminate].
      apply andb_true_iff in C2. destruct C2 as [C2 C5]. apply andb_true_iff in C2. destruct C2 as [C3 C4].
      apply veqb_eq in C3. apply op_eqb_eq in C4, C5.
      destruct g as [og vg], l as [ol vl]; cbn [fst snd] in *. subst.
      destruct ne' as [|i r] eqn:EN; [discriminate|].
      destruct (N' i (or_introl eq_refl)) as (Is & Ni & Bi). pose proof (SI i Is) as Xi.
      destruct i as [oi vi]. unfold is_ne in Ni; cbn [fst snd] in *. apply op_eqb_eq in Ni. subst.
      unfold Versions.in_bounds in Bi.
      clear - Xg Xl Xi Bi leb_total leb_trans. ord.
Qed.

Lemma mem_init : mem_inv [] (mkst None None None []).
Proof. repeat split; try discriminate. intros a []. Qed.

(* the loop raises only on two == specifiers that no version satisfies together: always when they are compared by
   version, on canonically spelled sets when they are compared as Specifier objects *)
Lemma simplify_rejects_gen fixed eqv ss : eqv = true \/ canon ss ->
  simplify fixed eqv ss = Err -> forall x, sat x ss = false.
Proof.
  intros Hc. unfold Versions.simplify. destruct (loop fixed eqv (mkst None None None []) ss) as [s|] eqn:E.
  - intros H. eapply finish_err; [| |exact H].
    + eapply loop_shape; [exact shape_init|exact E].
    + apply (loop_mem fixed eqv ss [] _ _ mem_init E).
  - intros _ x. destruct (loop_none fixed eqv ss [] _ shape_init mem_init E) as (e & i & Ie & Ii & He & Hi & Q).
    cbn [app] in Ie, Ii. destruct (sat x ss) eqn:SX; [exfalso|reflexivity].
    pose proof (sat_in x ss e SX Ie) as Xe. pose proof (sat_in x ss i SX Ii) as Xi.
    assert (Qv : veq (snd e) (snd i) = true).
    { destruct e as [oe ve], i as [oi vi]. unfold is_eq in *; cbn [fst snd] in *.
      apply op_eqb_eq in He, Hi. subst. clear - Xe Xi leb_total leb_trans. ord. }
    unfold Versions.same_eq in Q. destruct Hc as [->|Hc]; [congruence|].
    assert (Q' : spec_eqb e i = false) by (destruct eqv; [congruence|exact Q]).
    pose proof (Hc e i Ie Ii He Hi Qv) as EQ.
    assert (e = i).
    { destruct e as [oe ve], i as [oi vi]. unfold is_eq in *; cbn [fst snd] in *.
      apply op_eqb_eq in He, Hi. subst. reflexivity. }
    subst i. assert (spec_eqb e e = true) by (apply spec_eqb_eq; reflexivity). congruence.
Qed.

Theorem simplify_rejects fixed eqv ss : canon ss -> simplify fixed eqv ss = Err -> forall x, sat x ss = false.
Proof. intros Hc. apply simplify_rejects_gen. right. exact Hc. Qed.

(* == compared by version: every rejected set is unsatisfiable - no guard on spellings *)
Theorem simplify_rejects_repaired fixed ss : simplify fixed true ss = Err -> forall x, sat x ss = false.
Proof. apply simplify_rejects_gen. left. reflexivity. Qed.

(* ... so a set some version satisfies is accepted, and (repaired key) reported with the same members *)
Theorem simplify_accepts_repaired ss x : sat x ss = true ->
  exists ss', simplify true true ss = Ok ss' /\ forall y, sat y ss' = sat y ss.
Proof.
  intros Hx. destruct (simplify true true ss) as [ss'|] eqn:E.
  - exists ss'. split; [reflexivity|]. apply (simplify_equiv true ss ss' E).
  - rewrite (simplify_rejects_repaired true ss E x) in Hx. discriminate.
Qed.

(* which == specifier is reported: the FIRST one in iteration order (eq = i only while eq is None) *)
Definition first_eq (ss : list spec) : option spec := find is_eq ss.

Lemma loop_first_eq fixed eqv ss : forall s s', loop fixed eqv s ss = Some s' ->
  s_eq s' = match s_eq s with Some e => Some e | None => first_eq ss end.
Proof.
  induction ss as [|i r IH]; intros s s' H; cbn [Versions.loop] in H.
  - inversion H; subst. destruct (s_eq s'); reflexivity.
  - destruct (step fixed eqv s i) as [s1|] eqn:E; [|discriminate].
    rewrite (IH _ _ H). unfold first_eq. cbn [find]. unfold is_eq at 2.
    unfold Versions.step in E. destruct (fst i); cbn [op_eqb];
      try (inversion E; subst; cbn [s_eq]; destruct (s_eq s); reflexivity).
    destruct (s_eq s) as [e|] eqn:Q.
    + destruct (same_eq eqv e i); inversion E; subst. rewrite Q. reflexivity.
    + inversion E; subst. reflexivity.
Qed.

Theorem simplify_keeps_first_eq fixed eqv ss ss' e :
  simplify fixed eqv ss = Ok ss' -> first_eq ss = Some e -> ss' = [e].
Proof.
  unfold Versions.simplify. destruct (loop fixed eqv (mkst None None None []) ss) as [s|] eqn:E; [|discriminate].
  intros H F. pose proof (loop_first_eq _ _ _ _ _ E) as Q. cbn [s_eq] in Q. rewrite F in Q.
  unfold Versions.finish in H. rewrite Q in H.
  destruct (existsb _ _ || negb _); inversion H. reflexivity.
Qed.

(* ---- Requirement / RequirementSet ---- *)
Notation union := (union V veqb).
Notation rs_add := (rs_add V veqb).
Notation rs_update := (rs_update V veqb).
Notation rs_of_list := (rs_of_list V veqb).
Notation rs_has := (rs_has V).
Notation rs_remove := (rs_remove V).
Notation rs_merge_from := (rs_merge_from V veqb).
Notation req := (req V).

Lemma mem_spec_sat x s (a : list spec) : mem_spec V veqb s a = true -> sat x a = true -> sat1 x s = true.
Proof.
  unfold Versions.mem_spec. intros H Ha. apply existsb_exists in H. destruct H as (s' & Hs & Q).
  apply spec_eqb_eq in Q. subst s'. eapply sat_in; eassumption.
Qed.

(* Requirement.__iand__ / SpecifierSet.__and__: the members of the union are the common members *)
Lemma union_sat x (b : list spec) : forall a, sat x (union a b) = sat x a && sat x b.
Proof.
  induction b as [|s r IH]; intros a; cbn [Versions.union].
  - cbn. rewrite andb_true_r. reflexivity.
  - rewrite sat_cons. destruct (mem_spec V veqb s a) eqn:M.
    + rewrite IH. destruct (sat x a) eqn:Sa; [|reflexivity].
      rewrite (mem_spec_sat x s a M Sa). reflexivity.
    + rewrite IH, sat_app. cbn. btauto.
Qed.

(* conjunction of the specifier sets of all entries called [name] *)
Definition rs_sat (rs : list req) (name : str) (x : V) : bool :=
  forallb (fun r => if str_eqb (fst r) name then sat x (snd r) else true) rs.

Lemma rs_sat_cons r rs name x :
  rs_sat (r :: rs) name x = (if str_eqb (fst r) name then sat x (snd r) else true) && rs_sat rs name x.
Proof. reflexivity. Qed.

Lemma rs_has_cons (r : req) rs name : rs_has (r :: rs) name = str_eqb (fst r) name || rs_has rs name.
Proof. reflexivity. Qed.

Lemma str_eqb_trans_l a b c : str_eqb a b = true -> str_eqb a c = str_eqb b c.
Proof. intros H. apply str_eqb_eq in H. subst. reflexivity. Qed.

Lemma rs_add_sat rs (item : req) name x : rs_sat (rs_add rs item) name x = rs_sat rs name x && rs_sat [item] name x.
Proof.
  induction rs as [|r rest IH]; cbn [Versions.rs_add].
  - cbn. btauto.
  - destruct (str_eqb (fst r) (fst item)) eqn:Q.
    + rewrite !rs_sat_cons. cbn [fst snd]. rewrite <- (str_eqb_trans_l _ _ name Q).
      destruct (str_eqb (fst r) name); [rewrite union_sat|]; cbn; btauto.
    + rewrite !rs_sat_cons, IH. rewrite !rs_sat_cons. cbn. btauto.
Qed.

Lemma rs_add_has rs (item : req) name : rs_has (rs_add rs item) name = rs_has rs name || str_eqb (fst item) name.
Proof.
  induction rs as [|r rest IH]; cbn [Versions.rs_add].
  - cbn. btauto.
  - destruct (str_eqb (fst r) (fst item)) eqn:Q.
    + rewrite !rs_has_cons. cbn [fst]. rewrite <- (str_eqb_trans_l _ _ name Q). btauto.
    + rewrite !rs_has_cons, IH. btauto.
Qed.

Lemma rs_update_sat items : forall rs name x, rs_sat (rs_update rs items) name x = rs_sat rs name x && rs_sat items name x.
Proof.
  unfold Versions.rs_update. induction items as [|i r IH]; intros rs name x; cbn [fold_left].
  - cbn. btauto.
  - rewrite IH, rs_add_sat, (rs_sat_cons i r). cbn. btauto.
Qed.

Lemma rs_update_has items : forall rs name, rs_has (rs_update rs items) name = rs_has rs name || rs_has items name.
Proof.
  unfold Versions.rs_update. induction items as [|i r IH]; intros rs name; cbn [fold_left].
  - cbn. btauto.
  - rewrite IH, rs_add_has, (rs_has_cons i r). btauto.
Qed.

Lemma rs_remove_has rs m name : rs_has (rs_remove rs m) name = rs_has rs name && negb (str_eqb m name).
Proof.
  induction rs as [|r rest IH]; [reflexivity|]. unfold Versions.rs_remove in *. cbn [filter].
  destruct (str_eqb (fst r) m) eqn:Q; cbn [negb].
  - rewrite IH, rs_has_cons. rewrite (str_eqb_trans_l _ _ name Q). btauto.
  - rewrite !rs_has_cons, IH. destruct (str_eqb (fst r) name) eqn:Q2; [|reflexivity].
    apply str_eqb_eq in Q2. subst name. cbn.
    destruct (str_eqb m (fst r)) eqn:Q3; [|reflexivity].
    apply str_eqb_eq in Q3. subst m. rewrite str_eqb_refl in Q. discriminate.
Qed.

Lemma rs_remove_sat rs m name x :
  rs_sat (rs_remove rs m) name x = if str_eqb m name then true else rs_sat rs name x.
Proof.
  induction rs as [|r rest IH]; [cbn; destruct (str_eqb m name); reflexivity|].
  unfold Versions.rs_remove in *. cbn [filter].
  destruct (str_eqb (fst r) m) eqn:Q; cbn [negb].
  - rewrite IH, rs_sat_cons. rewrite (str_eqb_trans_l _ _ name Q).
    destruct (str_eqb m name); reflexivity.
  - rewrite !rs_sat_cons, IH. destruct (str_eqb m name) eqn:Q2; [|reflexivity].
    apply str_eqb_eq in Q2. subst name. rewrite Q. reflexivity.
Qed.

Definition merge_step (acc : list req * list req) (i : req) :=
  if rs_has (fst acc) (fst i) then (rs_add (fst acc) i, rs_remove (snd acc) (fst i)) else acc.

Lemma merge_fold l : forall pub q name x,
  let r := fold_left merge_step l (pub, q) in
  rs_has (fst r) name = rs_has pub name /\
  rs_sat (fst r) name x = rs_sat pub name x && (if rs_has pub name then rs_sat l name x else true) /\
  rs_has (snd r) name = rs_has q name && negb (rs_has pub name && rs_has l name) /\
  rs_sat (snd r) name x = (if rs_has pub name && rs_has l name then true else rs_sat q name x).
Proof.
  induction l as [|i l' IH]; intros pub q name x; cbv zeta; cbn [fold_left].
  - cbn [fst snd]. change (rs_sat [] name x) with true. change (rs_has [] name) with false.
    destruct (rs_has pub name); repeat split; cbn [andb negb]; btauto.
  - change (merge_step (pub, q) i) with (if rs_has pub (fst i) then (rs_add pub i, rs_remove q (fst i)) else (pub, q)).
    destruct (rs_has pub (fst i)) eqn:Hi.
    + destruct (IH (rs_add pub i) (rs_remove q (fst i)) name x) as (A & B & C & D).
      assert (HH : rs_has (rs_add pub i) name = rs_has pub name).
      { rewrite rs_add_has. destruct (str_eqb (fst i) name) eqn:Q; [|btauto].
        apply str_eqb_eq in Q. subst name. rewrite Hi. reflexivity. }
      rewrite HH in *. rewrite A, B, C, D. clear A B C D IH.
      rewrite rs_add_sat, rs_remove_has, rs_remove_sat, !rs_sat_cons, !rs_has_cons.
      change (rs_sat [] name x) with true.
      destruct (str_eqb (fst i) name) eqn:Q.
      * pose proof Q as Q'. apply str_eqb_eq in Q'. subst name. rewrite Hi. cbn [andb orb negb]. repeat split; btauto.
      * destruct (rs_has pub name); cbn [andb orb negb]; repeat split; btauto.
    + destruct (IH pub q name x) as (A & B & C & D). rewrite A, B, C, D. clear A B C D IH.
      rewrite rs_sat_cons, rs_has_cons.
      destruct (str_eqb (fst i) name) eqn:Q.
      * pose proof Q as Q'. apply str_eqb_eq in Q'. subst name. rewrite Hi. cbn [andb orb negb]. repeat split; reflexivity.
      * cbn [andb orb negb]. repeat split; reflexivity.
Qed.

Lemma rs_of_list_sat items name x : rs_sat (rs_of_list items) name x = rs_sat items name x.
Proof. unfold Versions.rs_of_list. rewrite rs_update_sat. reflexivity. Qed.

Lemma rs_of_list_has items name : rs_has (rs_of_list items) name = rs_has items name.
Proof. unfold Versions.rs_of_list. rewrite rs_update_has. reflexivity. Qed.

(* C17_merge: after finalize, a name required publicly carries the intersection of everything said
   about it and is no longer private; any other name stays private with the intersection of the
   private and the automatic requirements *)
Theorem finalize_merge (requires requires_private auto : list req) name x :
  let r := finalize_sets V veqb requires requires_private auto in
  (rs_has requires name = true ->
     rs_sat (fst r) name x = rs_sat requires name x && rs_sat requires_private name x && rs_sat auto name x /\
     rs_has (snd r) name = false) /\
  (rs_has requires name = false ->
     rs_has (fst r) name = false /\
     rs_sat (snd r) name x = rs_sat requires_private name x && rs_sat auto name x /\
     rs_has (snd r) name = rs_has requires_private name || rs_has auto name).
Proof.
  unfold Versions.finalize_sets, Versions.rs_merge_from.
  set (pub := rs_of_list requires). set (priv := rs_update (rs_of_list requires_private) auto).
  change (fold_left _ priv (pub, priv)) with (fold_left merge_step priv (pub, priv)).
  destruct (merge_fold priv pub priv name x) as (A & B & C & D). cbv zeta.
  rewrite A, B, C, D. unfold pub. rewrite rs_of_list_has, rs_of_list_sat.
  assert (PS : rs_sat priv name x = rs_sat requires_private name x && rs_sat auto name x)
    by (unfold priv; rewrite rs_update_sat, rs_of_list_sat; reflexivity).
  assert (PH : rs_has priv name = rs_has requires_private name || rs_has auto name)
    by (unfold priv; rewrite rs_update_has, rs_of_list_has; reflexivity).
  split; intros H; rewrite H.
  - rewrite PS. split; [btauto|]. cbn. destruct (rs_has priv name); reflexivity.
  - cbn. rewrite PS, PH. repeat split. btauto.
Qed.

(* Requirement.split keeps the members; with single=True it yields exactly one entry *)
Definition simple_sat x (l : list (simple V)) : bool :=
  forallb (fun s => match snd s with None => true | Some sp => sat1 x sp end) l.

Lemma simple_sat_map x name (l : list spec) : simple_sat x (map (fun i => (name, Some i)) l) = sat x l.
Proof.
  induction l as [|i r IH]; [reflexivity|]. rewrite sat_cons, <- IH. reflexivity.
Qed.

Theorem req_split_equiv eqv single (r : req) l :
  req_split V veqb leb kleb true eqv single r = Ok l -> forall x, simple_sat x l = sat x (snd r).
Proof.
  unfold Versions.req_split. destruct (simplify true eqv (snd r)) as [specs|] eqn:E; [|discriminate].
  intros H x. rewrite <- (simplify_equiv _ _ _ E x).
  destruct specs as [|s0 rest].
  - inversion H; subst. reflexivity.
  - destruct (single && Nat.ltb 1 (List.length (s0 :: rest))); [discriminate|].
    inversion H; subst. apply (simple_sat_map x (fst r) (s0 :: rest)).
Qed.

Theorem req_split_single fixed eqv (r : req) l :
  req_split V veqb leb kleb fixed eqv true r = Ok l -> List.length l = 1%nat.
Proof.
  unfold Versions.req_split. destruct (simplify fixed eqv (snd r)) as [specs|]; [|discriminate].
  destruct specs as [|s0 [|s1 rest]]; cbn; intros H; inversion H; reflexivity.
Qed.
End Proofs.

(* ---- the executable instance satisfies the hypotheses ---- *)
Lemma lex_leb_total a : forall b, lex_leb a b = true \/ lex_leb b a = true.
Proof.
  induction a as [|x a IH]; intros [|y b]; cbn; auto.
  destruct (x <? y) eqn:A, (y <? x) eqn:B; auto.
Qed.

Lemma lex_leb_trans a : forall b c, lex_leb a b = true -> lex_leb b c = true -> lex_leb a c = true.
Proof.
  induction a as [|x a IH]; intros [|y b] [|z c]; cbn; auto; try discriminate.
  destruct (x <? y) eqn:A, (y <? x) eqn:B, (y <? z) eqn:C, (z <? y) eqn:D, (x <? z) eqn:E, (z <? x) eqn:F;
    try discriminate; auto;
    rewrite ?N.ltb_lt, ?N.ltb_ge in *; try lia.
  intros. eapply IH; eassumption.
Qed.

Lemma sv_leb_total a b : sv_leb a b = true \/ sv_leb b a = true.
Proof. apply lex_leb_total. Qed.

Lemma sv_leb_trans a b c : sv_leb a b = true -> sv_leb b c = true -> sv_leb a c = true.
Proof. apply lex_leb_trans. Qed.

(* theorems for the model the correspondence runs *)
Theorem simplify_str_equiv eqv ss ss' : simplify_str true eqv ss = Ok ss' -> forall x, sat_str x ss' = sat_str x ss.
Proof. apply (simplify_equiv str str_eqb sv_leb str_leb str_eqb_eq sv_leb_total sv_leb_trans). Qed.

Theorem simplify_str_rejects fixed eqv ss :
  canon str sv_leb ss -> simplify_str fixed eqv ss = Err -> forall x, sat_str x ss = false.
Proof. apply (simplify_rejects str str_eqb sv_leb str_leb str_eqb_eq sv_leb_total sv_leb_trans). Qed.

Theorem simplify_str_rejects_repaired fixed ss : simplify_str fixed true ss = Err -> forall x, sat_str x ss = false.
Proof. apply (simplify_rejects_repaired str str_eqb sv_leb str_leb str_eqb_eq sv_leb_total sv_leb_trans). Qed.

Theorem simplify_str_accepts_repaired ss x : sat_str x ss = true ->
  exists ss', simplify_str true true ss = Ok ss' /\ forall y, sat_str y ss' = sat_str y ss.
Proof. apply (simplify_accepts_repaired str str_eqb sv_leb str_leb str_eqb_eq sv_leb_total sv_leb_trans). Qed.

(* == compared as Specifier objects: without the canonical-spelling guard rejection is not sound: ==1,==1.0 *)
Lemma rejects_refuted_spelling fixed :
  exists ss x, simplify_str fixed false ss = Err /\ sat_str x ss = true.
Proof. exists [(OEq, STR "1"); (OEq, STR "1.0")], (STR "1"). destruct fixed; split; vm_compute; reflexivity. Qed.

(* the converse of rejection soundness is NOT claimed (either variant): an unsatisfiable set may be accepted - and is then
   returned as an equivalent, i.e. equally unsatisfiable, set: >=1,<=1.0,!=1 (the collapse test compares spellings) *)
Lemma accepts_unsatisfiable_witness :
  simplify_str true true [(OGe, STR "1"); (OLe, STR "1.0"); (ONe, STR "1")]
    = Ok [(OGe, STR "1"); (OLe, STR "1.0"); (ONe, STR "1")] /\
  sat_str (STR "1") [(OGe, STR "1"); (OLe, STR "1.0"); (ONe, STR "1")] = false.
Proof. split; vm_compute; reflexivity. Qed.
