(* builtins/install.py _add_install_paths: the install directories as file-level variables of build.ninja.
   Roots are numbered in the order of path.InstallRoot (0 prefix, 1 exec_prefix, 2 bindir, 3 libdir,
   4 includedir, 5 datadir, 6 mandir).  A directory is an absolute text or a piece below another root
   (toolchain files: install_dirs(libdir=Path(lib64, InstallRoot.exec_prefix)); the platform defaults are of
   this form too).  Model only; proofs in InstallDirsProofs.v. *)
From Coq Require Import List NArith Bool.
From BFG Require Import Base.Chars.
Import ListNotations.

Inductive idir := IAbs (s : str) | IRel (ref : nat) (s : str).

Definition cfg_of (l : list idir) : nat -> idir := fun i => nth i l (IAbs []).

(* for i in path.InstallRoot: buildfile.variable(path_vars[i], env.install_dirs[i], Section.path) *)
Definition written_in (order : list nat) (cfg : nat -> idir) : list (nat * idir) :=
  map (fun i => (i, cfg i)) order.
Definition install_vars (l : list idir) : list (nat * idir) := written_in (seq 0 (length l)) (cfg_of l).

(* Ninja: a file-level binding is evaluated where it is defined (manifest_parser.cc ParseLet ->
   EvalString::Evaluate(env_)); a variable that has no binding yet evaluates to the empty text.
   The text written for IRel r s is the reference to variable r, then a slash and s (nothing when s is
   empty: exec_prefix = prefix). *)
Fixpoint lookup (env : list (nat * str)) (i : nat) : str :=
  match env with
  | [] => []
  | (j, v) :: r => if Nat.eqb i j then v else lookup r i
  end.

Definition below (base s : str) : str := match s with [] => base | _ => base ++ c_slash :: s end.

Definition eval1 (env : list (nat * str)) (d : idir) : str :=
  match d with IAbs s => s | IRel r s => below (lookup env r) s end.

Fixpoint eval_seq (env : list (nat * str)) (l : list (nat * idir)) : list (nat * str) :=
  match l with
  | [] => env
  | (i, d) :: r => eval_seq ((i, eval1 env d) :: env) r
  end.

(* what the configuration denotes (fuel: the number of roots suffices when references go backwards) *)
Fixpoint denote (fuel : nat) (cfg : nat -> idir) (i : nat) : str :=
  match fuel with
  | 0 => []
  | S f => match cfg i with IAbs s => s | IRel r s => below (denote f cfg r) s end
  end.

(* the values Ninja has for the roots after reading the variables written in [order] *)
Definition ninja_dirs (order : list nat) (l : list idir) : list str :=
  let env := eval_seq [] (written_in order (cfg_of l)) in map (lookup env) (seq 0 (length l)).
Definition denoted_dirs (l : list idir) : list str := map (denote (length l) (cfg_of l)) (seq 0 (length l)).
