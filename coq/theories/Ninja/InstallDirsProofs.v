(* Proofs about Ninja/InstallDirs.v: written in the order of InstallRoot, with every relative directory
   referring to an EARLIER root, Ninja's where-defined evaluation gives every root the directory the
   configuration denotes; written in another order it does not. *)
From Coq Require Import List NArith Bool Lia Arith.
From BFG Require Import Base.Chars Ninja.InstallDirs.
Import ListNotations.

(* references go backwards *)
Definition backward (cfg : nat -> idir) : Prop := forall i r s, cfg i = IRel r s -> r < i.

Lemma denote_fuel cfg : backward cfg ->
  forall f1 f2 i, i < f1 -> i < f2 -> denote f1 cfg i = denote f2 cfg i.
Proof.
  intros B. induction f1 as [|f1 IH]; intros f2 i H1 H2; [lia|].
  destruct f2 as [|f2]; [lia|]. cbn [denote].
  destruct (cfg i) as [s|r s] eqn:E; [reflexivity|].
  apply B in E. rewrite (IH f2 r) by lia. reflexivity.
Qed.

Lemma denote_unfold cfg n i : backward cfg -> i < n ->
  denote n cfg i = match cfg i with IAbs s => s | IRel r s => below (denote n cfg r) s end.
Proof.
  intros B H. destruct n as [|n]; [lia|]. cbn [denote].
  destruct (cfg i) as [s|r s] eqn:E; [reflexivity|].
  pose proof (B _ _ _ E) as Hr. rewrite (denote_fuel cfg B n (S n) r) by lia. reflexivity.
Qed.

Lemma eval_seq_inv cfg n : backward cfg ->
  forall m k env, k + m <= n ->
    (forall i, i < k -> lookup env i = denote n cfg i) ->
    forall i, i < k + m -> lookup (eval_seq env (written_in (seq k m) cfg)) i = denote n cfg i.
Proof.
  intros B. induction m as [|m IH]; intros k env Hn Inv i Hi.
  - cbn. apply Inv. lia.
  - cbn [seq written_in map eval_seq]. fold (written_in (seq (S k) m) cfg).
    apply (IH (S k)); [lia| |lia].
    intros j Hj. cbn [lookup]. destruct (Nat.eqb j k) eqn:E.
    + apply Nat.eqb_eq in E. subst j. rewrite (denote_unfold cfg n k B) by lia. unfold eval1.
      destruct (cfg k) as [s|r s] eqn:C; [reflexivity|].
      apply B in C. rewrite Inv by lia. reflexivity.
    + apply Nat.eqb_neq in E. apply Inv. lia.
Qed.

(* the order of InstallRoot: every root gets the directory the configuration denotes *)
Theorem install_order_denotes l :
  backward (cfg_of l) -> ninja_dirs (seq 0 (length l)) l = denoted_dirs l.
Proof.
  intros B. unfold ninja_dirs, denoted_dirs. apply map_ext_in. intros i Hi. apply in_seq in Hi.
  apply (eval_seq_inv (cfg_of l) (length l) B (length l) 0 []); [lia| |lia].
  intros j Hj. lia.
Qed.

(* another order (the one a toolchain file that sets libdir below exec_prefix induces on the dictionary:
   libdir first) does not: libdir loses its prefix *)
Definition ex_cfg : list idir :=
  [IAbs [47; 117; 115; 114]%N; IRel 0 []; IRel 1 [98; 105; 110]%N; IRel 1 [108; 105; 98; 54; 52]%N].   (* /usr, prefix, exec/bin, exec/lib64 *)

Theorem install_other_order_refuted :
  backward (cfg_of ex_cfg) /\ ninja_dirs [3; 0; 1; 2] ex_cfg <> denoted_dirs ex_cfg.
Proof.
  split.
  - intros i r s H. unfold cfg_of, ex_cfg in H.
    destruct i as [|[|[|[|[|i]]]]]; cbn in H; try discriminate; inversion H; subst; try lia.
  - vm_compute. discriminate.
Qed.
