(* Dispatch entries for Ninja/InstallDirs.v.  idir: [0 text] absolute | [1 ref text] below root ref. *)
From BFG Require Import Base.Chars Base.Sx Ninja.InstallDirs.
From Coq Require Import String List.
Import ListNotations.
Local Open Scope N_scope.

Definition un_idir (x : sx) : idir :=
  match un_N (nth_sx 0 x) with
  | 0 => IAbs (un_str (nth_sx 1 x))
  | _ => IRel (un_nat (nth_sx 1 x)) (un_str (nth_sx 2 x))
  end.
Definition sx_idir (d : idir) : sx :=
  match d with IAbs s => L [A 0; sx_str s] | IRel r s => L [A 1; sx_nat r; sx_str s] end.

Definition table : list (string * (sx -> sx)) := [
  (* [cfg] : the variables _add_install_paths writes, in order *)
  ("ninja.install_vars", fun a => sx_list (sx_pair sx_nat sx_idir) (install_vars (List.map un_idir (un_list (nth_sx 0 a)))));
  (* [order cfg] : the value Ninja has for every root after reading the variables written in that order *)
  ("ninja.install_dirs", fun a => sx_list sx_str (ninja_dirs (List.map un_nat (un_list (nth_sx 0 a)))
                                                      (List.map un_idir (un_list (nth_sx 1 a)))));
  (* [cfg] : the directories the configuration denotes *)
  ("ninja.install_denoted", fun a => sx_list sx_str (denoted_dirs (List.map un_idir (un_list (nth_sx 0 a)))))
]%string.
