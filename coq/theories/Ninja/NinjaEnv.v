(* The environment channel of the Ninja backend (model only).
   builtins/command.py ninja_command hands  shell.global_env(rule.env, rule.cmds)  (builtins/tests.py: local_env per
   test) to backends/ninja/writer.py command_build, which stores the flat item list as the edge binding  cmd  of the
   generic rule  command = ${cmd} ; NinjaFile._write_variable writes it with Writer.write_shell: the items of ONE
   flat list (join_lines has already put the shell_literal && between the command lines; write_shell never sees
   a list of lines) are written one after the other with a blank between them, every str bit shell-quoted by
   quote_info and then dollar-escaped, every shell_literal bit only dollar-escaped, a jbos bit by bit.
   This is nwrite_each (NinjaWrite.v) on the fragments of the items of PosixEnv.v. *)
From BFG Require Import Base.Chars Shell.PosixQuote Shell.PosixEnv Shell.Sh Make.MakeWrite Ninja.NinjaWrite Ninja.NinjaRead.
Local Open Scope N_scope.

(* the bits of an item as the things Writer.write dispatches on *)
Definition bit_nfrag (b : bit) : nfrag := match b with BStr s => NStr s | BLit s => NShLit s end.
Definition item_nfrags (it : item) : list nfrag := map bit_nfrag it.

(* the text after  cmd =  that the Ninja writer makes of a list of items *)
Definition nwrite_items (uw : char -> bool) (items : list item) : option str :=
  nwrite_each uw (map item_nfrags items) NShell.

Definition n_cmd : str := [99; 109; 100].   (* the variable name cmd *)

(* the command line Ninja hands to sh for an edge of the generic rule  command = ${cmd}  whose binding
   cmd = text  was lexed to ts (file: the file-level scope; ins / outs: the values of in and out) *)
Definition ninja_cmd (file : nenv) (ins outs : str) (ts : list ntok) : str :=
  rule_command file (eval_edge_bindings file [] [(n_cmd, ts)]) ins outs [TV n_cmd].

(* the processes sh starts for the written text of the binding: lexing by Ninja, evaluation, sh *)
Definition ninja_cmd_run (uw : char -> bool) (env0 : list (str * str)) (file : nenv) (ins outs : str) (text : str)
  : option (list proc * bool) :=
  match lex_value text with
  | Some ts => sh_run uw env0 (ninja_cmd file ins outs ts)
  | None => None
  end.

(* a shell line run in a shell whose variables are st (instead of the initial environment): sh_run is the case
   st = sv_init env0 *)
Definition sh_run_in (uw : char -> bool) (st : shvars) (s : str) : option (list proc * bool) :=
  match sh_lexq uw s with
  | Some ts => run_list st (xsplit_and [] ts)
  | None => None
  end.
