(* The environment channel through the Ninja layer: the text the Ninja writer makes of the items of global_env /
   local_env (every bit quoted, then dollar-escaped) is lexed by Ninja and evaluated, for the generic rule
   command = ${cmd}, to exactly the sh text of the items (up to leading blanks, which the lexer of Ninja skips and sh
   ignores): the dollar doubling is undone for EVERY text.  Hence the command runs into the declared environment and
   words (PosixEnvProofs). *)
From Coq Require Import ZArith List Bool Lia ZifyBool.
From BFG Require Import Base.Chars Shell.PosixQuote Shell.Sh Shell.PosixQuoteProofs Shell.PosixEnv Shell.PosixEnvProofs
  Make.MakeWrite Make.MakeProofs Make.MakeRead Ninja.NinjaWrite Ninja.NinjaRead Ninja.NinjaProofs Ninja.NinjaEnv.
Import ListNotations.
Local Open Scope N_scope.

Lemma n_cmd_eq : n_cmd = s_cmd. Proof. reflexivity. Qed.

(* ---------- Ninja side: leading blanks, dollar doubling ---------- *)
Lemma skip_sp_dollar_esc s : skip_sp (dollar_esc s) = dollar_esc (skip_sp s).
Proof.
  induction s as [|c s IH]; [reflexivity|]. cbn [dollar_esc skip_sp].
  destruct (N.eqb c c_dollar) eqn:D.
  - apply N.eqb_eq in D; subst c. reflexivity.
  - cbn [skip_sp]. destruct (N.eqb c c_sp) eqn:E; [exact IH|]. cbn [dollar_esc]. now rewrite D.
Qed.

Lemma has_nl_cons c s : has_nl (c :: s) = false -> has_nl s = false.
Proof. unfold has_nl, mem_char. cbn [existsb]. intros H. now apply orb_false_iff in H as [_ H]. Qed.

Lemma has_nl_skip_sp s : has_nl s = false -> has_nl (skip_sp s) = false.
Proof.
  induction s as [|c s IH]; [reflexivity|]. cbn [skip_sp]. intros H.
  destruct (N.eqb c c_sp); [apply IH; now apply has_nl_cons in H|exact H].
Qed.

(* the value Ninja gives to  name = text  for the dollar-escaped form of ANY text without newline *)
Lemma lex_value_written env s : has_nl s = false ->
  exists ts, lex_value (dollar_esc s) = Some ts /\ neval env ts = skip_sp s.
Proof.
  intros Hn. unfold lex_value. rewrite skip_sp_dollar_esc.
  rewrite <- (app_nil_r (dollar_esc (skip_sp s))), nlex_value_dollar_esc by now apply has_nl_skip_sp.
  cbn [nlex option_map pre fst snd]. exists (map TC (skip_sp s) ++ []). split; [reflexivity|].
  rewrite neval_chars. cbn [neval]. apply app_nil_r.
Qed.

(* the command of the generic rule: the value of the edge binding cmd *)
Lemma ninja_cmd_value file ins outs ts : ninja_cmd file ins outs ts = neval (alookup [] file) ts.
Proof.
  unfold ninja_cmd, rule_command. cbn [eval_edge_bindings app rev neval].
  unfold edge_env. change (str_eqb n_cmd [105; 110]) with false. change (str_eqb n_cmd [111; 117; 116]) with false.
  cbn iota. unfold alookup at 1. cbn [rev app find fst snd]. change (str_eqb n_cmd n_cmd) with true. cbn iota.
  apply app_nil_r.
Qed.

Section W.
Variable uw : char -> bool.

(* ---------- sh side: leading blanks are no token ---------- *)
Lemma lexq_skip_sp s : sh_lexq uw (skip_sp s) = sh_lexq uw s.
Proof.
  induction s as [|c s IH]; [reflexivity|]. cbn [skip_sp].
  destruct (N.eqb c c_sp) eqn:E; [|reflexivity]. apply N.eqb_eq in E; subst c. rewrite IH. reflexivity.
Qed.

Lemma sh_run_skip_sp env0 s : sh_run uw env0 (skip_sp s) = sh_run uw env0 s.
Proof. unfold sh_run. now rewrite lexq_skip_sp. Qed.

(* ---------- W side: the written text of a list of items ---------- *)
Lemma nwrite_bit b t e : nwrite uw (bit_nfrag b) NShell = Some (t, e) ->
  t = dollar_esc (fst (quote_bit uw b)) /\ has_nl (fst (quote_bit uw b)) = false.
Proof.
  destruct b as [s|s]; cbn [bit_nfrag nwrite nshelly].
  - destruct (quote_bit uw (BStr s)) as [q e0]. cbn [fst].
    destruct (nj_escape_str q NShell) as [x|] eqn:E; [|discriminate].
    apply nj_escape_shell_some in E as [-> Hn]. cbn [option_map]. intros H. inversion H. now split.
  - cbn [quote_bit fst]. destruct (nj_escape_str s NShell) as [x|] eqn:E; [|discriminate].
    apply nj_escape_shell_some in E as [-> Hn]. cbn [option_map]. intros H. inversion H. now split.
Qed.

Lemma nwrite_jbos_item it : forall t e,
  nwrite_jbos uw (item_nfrags it) NShell = Some (t, e) ->
  t = dollar_esc (item_text uw it) /\ has_nl (item_text uw it) = false.
Proof.
  induction it as [|b it IH]; intros t e H.
  - cbn in H. inversion H. split; reflexivity.
  - cbn [item_nfrags map nwrite_jbos] in H. fold (item_nfrags it) in H.
    destruct (nwrite uw (bit_nfrag b) NShell) as [[t1 e1]|] eqn:W1; [|discriminate].
    destruct (nwrite_jbos uw (item_nfrags it) NShell) as [[t2 e2]|] eqn:W2; [|discriminate].
    cbn [cat2] in H. inversion H; subst.
    destruct (nwrite_bit b t1 e1 W1) as [-> Hn1]. destruct (IH t2 e2 eq_refl) as [-> Hn2].
    cbn [item_text map List.concat]. fold (item_text uw it).
    split; [now rewrite dollar_esc_app|]. now rewrite has_nl_app, Hn1, Hn2.
Qed.

Lemma has_nl_sp_cons s : has_nl (c_sp :: s) = has_nl s.
Proof. reflexivity. Qed.

Theorem nwrite_items_text items : forall text,
  nwrite_items uw items = Some text ->
  text = dollar_esc (sh_text uw items) /\ has_nl (sh_text uw items) = false.
Proof.
  unfold nwrite_items, sh_text. induction items as [|it items IH]; intros text H.
  - cbn in H. inversion H. split; reflexivity.
  - destruct items as [|it2 items'].
    + cbn [map nwrite_each] in H.
      destruct (nwrite_jbos uw (item_nfrags it) NShell) as [[t e]|] eqn:W; [|discriminate].
      cbn in H. inversion H; subst. cbn [map join_sp]. exact (nwrite_jbos_item it _ _ W).
    + change (nwrite_each uw (map item_nfrags (it :: it2 :: items')) NShell)
        with (match nwrite_jbos uw (item_nfrags it) NShell, nwrite_each uw (map item_nfrags (it2 :: items')) NShell with
              | Some (t, _), Some u => Some (t ++ c_sp :: u)
              | _, _ => None
              end) in H.
      destruct (nwrite_jbos uw (item_nfrags it) NShell) as [[t e]|] eqn:W; [|discriminate].
      destruct (nwrite_each uw (map item_nfrags (it2 :: items')) NShell) as [u|] eqn:U; [|discriminate].
      inversion H; subst text. destruct (nwrite_jbos_item it _ _ W) as [-> Hn1]. destruct (IH u eq_refl) as [-> Hn2].
      change (join_sp (map (item_text uw) (it :: it2 :: items')))
        with (item_text uw it ++ c_sp :: join_sp (map (item_text uw) (it2 :: items'))).
      split.
      * rewrite dollar_esc_app. cbn [dollar_esc]. change (N.eqb c_sp c_dollar) with false. reflexivity.
      * rewrite has_nl_app, Hn1, has_nl_sp_cons. exact Hn2.
Qed.

(* the writer fails only on a newline: items whose sh text has none are written *)
Lemma nwrite_bit_total b : has_nl (fst (quote_bit uw b)) = false -> exists t e, nwrite uw (bit_nfrag b) NShell = Some (t, e).
Proof.
  intros Hn. destruct b as [s|s]; cbn [bit_nfrag nwrite nshelly].
  - destruct (quote_bit uw (BStr s)) as [q e0]. cbn [fst] in Hn. unfold nj_escape_str. rewrite Hn. cbn. eauto.
  - cbn [quote_bit fst] in Hn. unfold nj_escape_str. rewrite Hn. cbn. eauto.
Qed.

(* ---------- composition: what sh runs for the written binding ---------- *)
Theorem items_through_ninja env0 file ins outs items text :
  nwrite_items uw items = Some text ->
  exists ts, lex_value text = Some ts /\
    sh_run uw env0 (ninja_cmd file ins outs ts) = sh_run uw env0 (sh_text uw items).
Proof.
  intros H. apply nwrite_items_text in H as [-> Hn].
  destruct (lex_value_written (alookup [] file) _ Hn) as [ts [L V]].
  exists ts. split; [exact L|]. rewrite ninja_cmd_value, V. apply sh_run_skip_sp.
Qed.

Theorem env_global_through_ninja env0 file ins outs env cmds text :
  forallb name_ok (map fst env) = true -> cmds_ok uw cmds = true ->
  nwrite_items uw (global_env env (map words_line cmds)) = Some text ->
  exists ts penv,
    lex_value text = Some ts /\
    sh_run uw env0 (ninja_cmd file ins outs ts) = Some (mkprocs penv cmds, true) /\
    forall n, env_get penv n = match assoc_last env n with Some x => Some x | None => assoc_last env0 n end.
Proof.
  intros Hn Hc W. destruct (items_through_ninja env0 file ins outs _ _ W) as [ts [L R]].
  destruct (env_global uw env0 env cmds Hn Hc) as [penv [Hr He]].
  exists ts, penv. split; [exact L|]. split; [now rewrite R|exact He].
Qed.

Theorem env_local_through_ninja env0 file ins outs env cmd text :
  forallb name_ok (map fst env) = true -> cmd_ok uw cmd = true ->
  nwrite_items uw (local_env env (words_line cmd)) = Some text ->
  exists ts penv,
    lex_value text = Some ts /\
    sh_run uw env0 (ninja_cmd file ins outs ts) = Some (mkprocs penv [cmd], true) /\
    forall n, env_get penv n = match assoc_last env n with Some x => Some x | None => assoc_last env0 n end.
Proof.
  intros Hn Hc W. destruct (items_through_ninja env0 file ins outs _ _ W) as [ts [L R]].
  destruct (env_local uw env0 env cmd Hn Hc) as [penv [Hr He]].
  exists ts, penv. split; [exact L|]. split; [now rewrite R|exact He].
Qed.
End W.

(* ---------- the statements with the definitions unfolded (as quoted in props/C02.v) ---------- *)
Theorem env_global_ninja uw env0 file ins outs env cmds text :
  forallb name_ok (map fst env) = true -> cmds_ok uw cmds = true ->
  nwrite_each uw (map item_nfrags (global_env env (map words_line cmds))) NShell = Some text ->
  exists ts penv,
    lex_value text = Some ts /\
    sh_run uw env0 (rule_command file (eval_edge_bindings file [] [(s_cmd, ts)]) ins outs [TV s_cmd]) =
      Some (mkprocs penv cmds, true) /\
    forall n, env_get penv n = match assoc_last env n with Some x => Some x | None => assoc_last env0 n end.
Proof. exact (env_global_through_ninja uw env0 file ins outs env cmds text). Qed.

Theorem env_local_ninja uw env0 file ins outs env cmd text :
  forallb name_ok (map fst env) = true -> cmd_ok uw cmd = true ->
  nwrite_each uw (map item_nfrags (local_env env (words_line cmd))) NShell = Some text ->
  exists ts penv,
    lex_value text = Some ts /\
    sh_run uw env0 (rule_command file (eval_edge_bindings file [] [(s_cmd, ts)]) ins outs [TV s_cmd]) =
      Some (mkprocs penv [cmd], true) /\
    forall n, env_get penv n = match assoc_last env n with Some x => Some x | None => assoc_last env0 n end.
Proof. exact (env_local_through_ninja uw env0 file ins outs env cmd text). Qed.

Theorem items_ninja uw env0 file ins outs items text :
  nwrite_each uw (map item_nfrags items) NShell = Some text ->
  exists ts, lex_value text = Some ts /\
    sh_run uw env0 (rule_command file (eval_edge_bindings file [] [(s_cmd, ts)]) ins outs [TV s_cmd]) =
    sh_run uw env0 (sh_text uw items).
Proof. exact (items_through_ninja uw env0 file ins outs items text). Qed.

(* ---------- string-form command lines: global_env = the lines alone, in a shell where env has been exported ---------- *)
From Coq Require Import String.

Lemma sh_run_in_init uw env0 s : sh_run uw env0 s = sh_run_in uw (sv_init env0) s.
Proof. reflexivity. Qed.

Section Lines.
Variable uw : char -> bool.

Definition export_items (nv : str * str) : list item := [word_item (STR "export"); env_item nv; and_item].
Definition exports_items (env : list (str * str)) : list item := flat_map export_items env.
Definition export_toks (ev : list witem) : list xtoken := [XW (uq (STR "export")); XW ev; XAnd].

Lemma join_lines_cons l ls : ls <> [] -> join_lines (l :: ls) = escape_line l ++ and_item :: join_lines ls.
Proof. destruct ls; [congruence|reflexivity]. Qed.

Lemma global_env_items env ls : ls <> [] -> global_env env ls = exports_items env ++ join_lines ls.
Proof.
  intros Hne. unfold global_env. induction env as [|nv env IH]; [reflexivity|].
  cbn [map app]. rewrite join_lines_cons.
  - rewrite IH. reflexivity.
  - destruct env; cbn [map app]; [exact Hne|discriminate].
Qed.

Lemma sh_text_cons it it2 r : sh_text uw (it :: it2 :: r) = item_text uw it ++ c_sp :: sh_text uw (it2 :: r).
Proof. reflexivity. Qed.

Lemma lex_word_item it w rest : rest <> [] -> ilexw uw it w ->
  sh_lexq uw (sh_text uw (it :: rest)) = option_map (cons (XW w)) (sh_lexq uw (sh_text uw rest)).
Proof.
  intros Hne H. destruct rest as [|it2 r]; [congruence|]. rewrite sh_text_cons. unfold sh_lexq.
  inversion H as [? ? H0|]; subst. rewrite H0. reflexivity.
Qed.

Lemma lex_and_item rest :
  sh_lexq uw (sh_text uw (and_item :: rest)) = option_map (cons XAnd) (sh_lexq uw (sh_text uw rest)).
Proof.
  destruct rest as [|it2 r]; [reflexivity|]. rewrite sh_text_cons. reflexivity.
Qed.

Lemma lex_exports env evs tail : Forall2 (ilexw uw) (map env_item env) evs ->
  sh_lexq uw (sh_text uw (exports_items env ++ tail)) =
  option_map (app (flat_map export_toks evs)) (sh_lexq uw (sh_text uw tail)).
Proof.
  revert evs. induction env as [|nv env IH]; intros evs H.
  - cbn [map] in H. inversion H; subst. cbn [exports_items flat_map app]. destruct (sh_lexq uw (sh_text uw tail)); reflexivity.
  - cbn [map] in H. inversion H as [|? ev ? evs' Hev Hr]; subst.
    cbn [exports_items flat_map export_items app]. fold (exports_items env).
    rewrite (lex_word_item (word_item (STR "export")) (uq (STR "export")) (env_item nv :: and_item :: exports_items env ++ tail));
      [|discriminate|apply export_word_lex].
    rewrite (lex_word_item (env_item nv) ev (and_item :: exports_items env ++ tail)); [|discriminate|exact Hev].
    rewrite lex_and_item, (IH evs' Hr).
    destruct (sh_lexq uw (sh_text uw tail)); reflexivity.
Qed.

Lemma xsplit_exports evs toks :
  xsplit_and [] (flat_map export_toks evs ++ toks) = map export_cmd evs ++ xsplit_and [] toks.
Proof. induction evs as [|ev evs IH]; [reflexivity|]. cbn [flat_map export_toks app xsplit_and map]. now rewrite IH. Qed.

(* global_env env ls runs as the lines alone in a shell where every name of env has been set and exported *)
Theorem global_env_lines env0 env ls :
  forallb name_ok (map fst env) = true -> ls <> [] ->
  sh_run uw env0 (sh_text uw (global_env env ls)) =
  sh_run_in uw (declare env (sv_init env0)) (sh_text uw (join_lines ls)).
Proof.
  intros Hn Hne. destruct (env_img uw env Hn) as [evs [He Hle]].
  rewrite (global_env_items env ls Hne). unfold sh_run, sh_run_in. rewrite (lex_exports env evs _ Hle).
  destruct (sh_lexq uw (sh_text uw (join_lines ls))) as [toks|]; [|reflexivity].
  cbn [option_map]. rewrite xsplit_exports. apply (run_exports uw env evs He Hn).
Qed.
End Lines.

(* through Ninja, for every list of lines (word lists and string-form lines) *)
Theorem env_lines_ninja uw env0 file ins outs env ls text :
  forallb name_ok (map fst env) = true -> ls <> [] ->
  nwrite_each uw (map item_nfrags (global_env env ls)) NShell = Some text ->
  exists ts, lex_value text = Some ts /\
    sh_run uw env0 (rule_command file (eval_edge_bindings file [] [(s_cmd, ts)]) ins outs [TV s_cmd]) =
    sh_run_in uw (declare env (sv_init env0)) (sh_text uw (join_lines ls)).
Proof.
  intros Hn Hne W. destruct (items_ninja uw env0 file ins outs _ _ W) as [ts [L R]].
  exists ts. split; [exact L|]. rewrite R. now apply global_env_lines.
Qed.
