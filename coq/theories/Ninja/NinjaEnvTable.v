(* Dispatch entries for the environment channel of the Ninja backend (Ninja/NinjaEnv.v). *)
From BFG Require Import Base.Chars Base.Sx Shell.PosixQuote Shell.Sh Shell.PosixEnv Shell.PosixEnvProofs Shell.ShellTable
  Ninja.NinjaWrite Ninja.NinjaRead Ninja.NinjaEnv Ninja.NinjaTable.
From Coq Require Import String.
Local Open Scope N_scope.

(* items / lines / pairs are encoded as for posix.global_env (ShellTable.v) *)
Definition table : list (string * (sx -> sx)) := [
  (* [uw, items] : the text the Ninja writer puts after  cmd =  for a flat list of items *)
  ("ninja.write_items", fun a => sx_opt sx_str
      (nwrite_items (uw_of (nth_sx 0 a)) (List.map un_item (un_list (nth_sx 1 a)))));
  (* [uw, env pairs, lines] : ninja_command = Writer.write_shell (global_env env lines) *)
  ("ninja.global_env_text", fun a => sx_opt sx_str
      (nwrite_items (uw_of (nth_sx 0 a)) (global_env (un_pairs (nth_sx 1 a)) (List.map un_line (un_list (nth_sx 2 a))))));
  (* [uw, env pairs, line] : tests = Writer.write_shell (local_env env line) *)
  ("ninja.local_env_text", fun a => sx_opt sx_str
      (nwrite_items (uw_of (nth_sx 0 a)) (local_env (un_pairs (nth_sx 1 a)) (un_line (nth_sx 2 a)))));
  (* [uw, env0 pairs, file scope, in, out, text of the binding cmd] : Ninja lexes and evaluates, sh runs *)
  ("ninja.cmd_run", fun a => sx_opt (sx_pair (sx_list sx_proc) sx_bool)
      (ninja_cmd_run (uw_of (nth_sx 0 a)) (un_pairs (nth_sx 1 a)) (un_env (nth_sx 2 a)) (un_str (nth_sx 3 a))
         (un_str (nth_sx 4 a)) (un_str (nth_sx 5 a))));
  (* [uw, env0 pairs, env pairs, lines] : the right-hand side of C02_env_lines_through_ninja - the lines alone, in a
     shell where env has been set and exported *)
  ("ninja.lines_run", fun a => sx_opt (sx_pair (sx_list sx_proc) sx_bool)
      (sh_run_in (uw_of (nth_sx 0 a)) (declare (un_pairs (nth_sx 2 a)) (sv_init (un_pairs (nth_sx 1 a))))
         (sh_text (uw_of (nth_sx 0 a)) (join_lines (List.map un_line (un_list (nth_sx 3 a)))))))
]%string.
