(* W model of bfg9000/backends/ninja/syntax.py NinjaFile.write: the text layout of build.ninja
   (_write_variable with indent, _write_rule, _write_build, the order of the sections) on top of the value / path
   writer of NinjaWrite.v, and of ninja/writer.py command_build / flags_vars on an empty NinjaFile.
   The contents of a NinjaFile are given after NinjaFile.variable / rule / build / default have stored them:
   names are the sanitised Variable.name strings, values are lists of items (one item = one jbos = list of frags).
   None = the real writer raises ValueError (illegal newline). *)
From BFG Require Import Base.Chars Shell.PosixQuote Make.MakeWrite Ninja.NinjaWrite.
Local Open Scope N_scope.

Definition items := list (list nfrag).

Record wrule := mkWRule { wr_name : str; wr_command : items; wr_depfile : option items; wr_deps : option items;
                          wr_description : option items; wr_generator : bool; wr_pool : option items;
                          wr_restat : bool }.
Record wbuild := mkWBuild { wb_outs : items; wb_rule : str; wb_ins : items; wb_implicit : items; wb_order : items;
                            wb_vars : list (str * items) }.
(* _variables[Section.path / command / flags / other], _rules, _builds, _defaults in insertion order *)
Record wfile := mkWFile { wf_bfgfile : str; wf_min_version : option str;
                          wf_path : list (str * items); wf_command : list (str * items);
                          wf_flags : list (str * items); wf_other : list (str * items);
                          wf_rules : list wrule; wf_builds : list wbuild; wf_defaults : items }.

Definition t_hdr1 : str := [35; 32; 68; 111; 32; 110; 111; 116; 32; 101; 100; 105; 116; 32; 116; 104; 105; 115; 32; 102; 105; 108; 101; 33; 32; 73; 116; 32; 119; 97; 115; 32; 97; 117; 116; 111; 109; 97; 116; 105; 99; 97; 108; 108; 121; 32; 103; 101; 110; 101; 114; 97; 116; 101; 100; 32; 98; 121; 32; 98; 102; 103; 57; 48; 48; 48; 46].
Definition t_hdr2 : str := [35; 32; 73; 110; 115; 116; 101; 97; 100; 44; 32; 121; 111; 117; 32; 115; 104; 111; 117; 108; 100; 32; 101; 100; 105; 116; 32; 116; 104; 101; 32; 115; 111; 117; 114; 99; 101; 32; 102; 105; 108; 101; 32; 116; 104; 97; 116; 32; 99; 114; 101; 97; 116; 101; 100; 32; 116; 104; 105; 115; 58].
Definition t_hdr3 : str := [35; 32].
Definition t_kw_rule : str := [114; 117; 108; 101; 32].
Definition t_kw_build : str := [98; 117; 105; 108; 100; 32].
Definition t_kw_default : str := [100; 101; 102; 97; 117; 108; 116; 32].
Definition t_sep_eq : str := [32; 61; 32].
Definition t_sep_colon : str := [58; 32].
Definition t_sep_imp : str := [32; 124; 32].
Definition t_sep_oo : str := [32; 124; 124; 32].
Definition t_one : str := [49].
Definition t_nrv : str := [110; 105; 110; 106; 97; 95; 114; 101; 113; 117; 105; 114; 101; 100; 95; 118; 101; 114; 115; 105; 111; 110].
Definition t_command : str := [99; 111; 109; 109; 97; 110; 100].
Definition t_depfile : str := [100; 101; 112; 102; 105; 108; 101].
Definition t_deps : str := [100; 101; 112; 115].
Definition t_description : str := [100; 101; 115; 99; 114; 105; 112; 116; 105; 111; 110].
Definition t_generator : str := [103; 101; 110; 101; 114; 97; 116; 111; 114].
Definition t_pool : str := [112; 111; 111; 108].
Definition t_restat : str := [114; 101; 115; 116; 97; 116].

Fixpoint opt_all {T} (l : list (option T)) : option (list T) :=
  match l with
  | [] => Some []
  | Some x :: r => option_map (cons x) (opt_all r)
  | None :: _ => None
  end.

Definition opt_app {T} (a b : option (list T)) : option (list T) :=
  match a, b with Some x, Some y => Some (x ++ y) | _, _ => None end.

(* the text of a list of lines, each terminated by a newline *)
Fixpoint unlines (ls : list str) : str :=
  match ls with [] => [] | l :: r => l ++ c_nl :: unlines r end.

Section FW.
Variable uw : char -> bool.

(* _write_variable without its final newline *)
Definition w_variable (indent : bool) (name : str) (v : items) (syn : nsyntax) : option str :=
  option_map (fun t => (if indent then [c_sp; c_sp] else []) ++ name ++ t_sep_eq ++ t) (nwrite_each uw v syn).

(* the indented bindings _write_rule writes after the rule line: (key, value, syntax) in order *)
Definition optb (name : str) (o : option items) (syn : nsyntax) : list (str * items * nsyntax) :=
  match o with Some v => [(name, v, syn)] | None => [] end.
Definition flagb (name : str) (b : bool) : list (str * items * nsyntax) :=
  if b then [(name, [[NStr t_one]], NShell)] else [].
Definition rule_bindings (r : wrule) : list (str * items * nsyntax) :=
  [(t_command, wr_command r, NShell)]
  ++ optb t_depfile (wr_depfile r) NShell ++ optb t_deps (wr_deps r) NShell
  ++ optb t_description (wr_description r) NClean ++ flagb t_generator (wr_generator r)
  ++ optb t_pool (wr_pool r) NShell ++ flagb t_restat (wr_restat r).

Definition w_bind (b : str * items * nsyntax) : option str := w_variable true (fst (fst b)) (snd (fst b)) (snd b).

(* _write_rule followed by the blank line NinjaFile.write puts after each rule *)
Definition w_rule (r : wrule) : option (list str) :=
  opt_all (Some (t_kw_rule ++ wr_name r) :: map w_bind (rule_bindings r) ++ [Some []]).

(* write_each with a prefix: nothing at all for an empty list *)
Definition w_each_pre (prefix : str) (its : items) (syn : nsyntax) : option str :=
  match its with [] => Some [] | _ => option_map (app prefix) (nwrite_each uw its syn) end.

Definition w_build_line (b : wbuild) : option str :=
  match nwrite_each uw (wb_outs b) NOutput, w_each_pre [c_sp] (wb_ins b) NInput,
        w_each_pre t_sep_imp (wb_implicit b) NInput, w_each_pre t_sep_oo (wb_order b) NInput with
  | Some o, Some i, Some m, Some oo => Some (t_kw_build ++ o ++ t_sep_colon ++ wb_rule b ++ i ++ m ++ oo)
  | _, _, _, _ => None
  end.

Definition build_binding (p : str * items) : str * items * nsyntax :=
  (fst p, snd p, if str_eqb (fst p) t_description then NClean else NShell).

(* _write_build followed by the blank line *)
Definition w_build (b : wbuild) : option (list str) :=
  opt_all (w_build_line b :: map w_bind (map build_binding (wb_vars b)) ++ [Some []]).

(* one Section of file-level variables, followed by a blank line when it is not empty *)
Definition w_section (vars : list (str * items)) (syn : nsyntax) : option (list str) :=
  match vars with
  | [] => Some []
  | _ => opt_all (map (fun p => w_variable false (fst p) (snd p) syn) vars ++ [Some []])
  end.

Fixpoint opt_concat {T} (l : list (option (list T))) : option (list T) :=
  match l with [] => Some [] | x :: r => opt_app x (opt_concat r) end.

Definition w_header (wf : wfile) : list str := [t_hdr1; t_hdr2; t_hdr3 ++ wf_bfgfile wf; []].
Definition w_version (wf : wfile) : option (list str) :=
  match wf_min_version wf with
  | Some v => opt_all [w_variable false t_nrv [[NStr v]] NShell; Some []]
  | None => Some []
  end.
Definition w_defaults (wf : wfile) : option (list str) :=
  match wf_defaults wf with
  | [] => Some []
  | d => opt_all [option_map (app t_kw_default) (nwrite_each uw d NInput)]
  end.

Definition nf_lines (wf : wfile) : option (list str) :=
  opt_concat ([Some (w_header wf); w_version wf;
               w_section (wf_path wf) NClean; w_section (wf_command wf) NShell;
               w_section (wf_flags wf) NShell; w_section (wf_other wf) NShell]
              ++ map w_rule (wf_rules wf) ++ map w_build (wf_builds wf) ++ [w_defaults wf]).

(* NinjaFile.write *)
Definition nf_write (wf : wfile) : option str := option_map unlines (nf_lines wf).
End FW.

(* ---- ninja/writer.py on an empty NinjaFile ---- *)
Definition var_use (n : str) : str := c_dollar :: 123 :: n ++ [125].        (* Variable.use(): a literal *)
Definition t_cmd : str := [99; 109; 100].
Definition t_console : str := [99; 111; 110; 115; 111; 108; 101].
Definition t_console_command : str := [99; 111; 110; 115; 111; 108; 101; 95; 99; 111; 109; 109; 97; 110; 100].
Definition t_phony : str := [112; 104; 111; 110; 121].
Definition t_PHONY : str := [80; 72; 79; 78; 89].

Definition empty_wfile (bfgfile : str) : wfile := mkWFile bfgfile None [] [] [] [] [] [] [].

Definition path_items (ps : list str) : items := map (fun p => [NStr p]) ps.

(* command_build(buildfile, env, output, inputs, implicit, order_only, command, console, phony, description) on
   an empty file; console = console and the backend supports the console pool *)
Definition w_command_build (bfgfile : str) (outs ins implicit order : list str) (command : list str)
    (console phony : bool) (description : option str) : wfile :=
  let rname := if console then t_console_command else t_command in
  let r := mkWRule rname [[NLit (var_use t_cmd)]] None None None false
                   (if console then Some [[NStr t_console]] else None) false in
  let vars := (t_cmd, nwords_items command) ::
              match description with Some d => [(t_description, [[NStr d]])] | None => [] end in
  let b := mkWBuild (path_items outs) rname (path_items ins)
                    (path_items (implicit ++ if phony then [t_PHONY] else [])) (path_items order) vars in
  mkWFile bfgfile (if console then Some [49; 46; 53] else None) [] [] [] []
          [r] ((if phony then [mkWBuild (path_items [t_PHONY]) t_phony [] [] [] []] else []) ++ [b]) [].

(* flags_vars(cflags, g) + cmd_var(cc) + a compile-like rule and one edge with per-target flags t, on an empty
   file (the shape compile.py ninja_compile produces):
     cc = ccw ; global_cflags = g ; cflags = ${global_cflags}
     rule cc / command = ${cc} ${cflags} -c ${in} -o ${out}
     build obj: cc src / cflags = ${global_cflags} t *)
Definition t_cc : str := [99; 99].
Definition t_cflags : str := [99; 102; 108; 97; 103; 115].
Definition t_global_cflags : str := [103; 108; 111; 98; 97; 108; 95; 99; 102; 108; 97; 103; 115].
Definition t_in : str := [105; 110].
Definition t_out : str := [111; 117; 116].
Definition t_dash_c : str := [45; 99].
Definition t_dash_o : str := [45; 111].

Definition w_compile_file (bfgfile : str) (ccw g t : list str) (src obj : str) : wfile :=
  mkWFile bfgfile None []
    [(t_cc, nwords_items ccw)]
    [(t_global_cflags, nwords_items g)]
    [(t_cflags, [[NLit (var_use t_global_cflags)]])]
    [mkWRule t_cc [[NLit (var_use t_cc)]; [NLit (var_use t_cflags)]; [NStr t_dash_c]; [NLit (var_use t_in)];
                   [NStr t_dash_o]; [NLit (var_use t_out)]] None None None false None false]
    [mkWBuild (path_items [obj]) t_cc (path_items [src]) [] []
              [(t_cflags, [NLit (var_use t_global_cflags)] :: nwords_items t)]]
    [].
