(* R model of the Ninja manifest language, part 2: the STRUCTURE of build.ninja (lines, rule / build blocks,
   indentation, scoping) on top of the lexer / evaluator of NinjaRead.v.  Written from the Ninja manual and
   manifest_parser.cc / lexer.in.cc / eval_env.cc / graph.cc (EdgeEnv); TRUSTED: no ninja binary exists in
   this sandbox.  The parser is total (option, explicit fuel), no axioms.

   Accepted language = what bfg9000 emits, read the way Ninja reads it:
     # comment                      skipped entirely (does not end a block; leading blanks allowed)
     (blank line)                   ends the current rule / build block
     name = value                   file-level binding, evaluated immediately in the file scope so far
     rule NAME                      followed by indented  key = value  lines kept as UNEVALUATED token lists;
                                    only Ninja's reserved rule keys are accepted; a command is required
     build outs: RULE ins | implicit || order_only
                                    followed by indented  key = value  lines, evaluated immediately in the file
                                    scope extended by the edge's earlier bindings; the rule must already be
                                    declared (or be the built-in phony); paths are lexed in path mode and
                                    evaluated in the edge scope (graph.cc evaluates them after the bindings)
     default paths
   Rejected (None), all never emitted by bfg9000:
     - dollar-newline line continuations (a line ending in an unescaped dollar does not lex);
     - pool / include / subninja statements, implicit outputs (out | out2 : rule), validations (pipe-at);
     - tabs, carriage returns are not treated specially (a tab at the start of a statement is an error);
     - a FILE-level variable whose name is one of the reserved rule keys (command, description, ...): real
       Ninja gives an edge WITHOUT own bindings the file scope as its binding scope, so such a variable would
       shadow the rule binding for those edges only; outside that case the lookup order below is exact.
   Known differences that the harness guards at run time (refs_earlier, reported per edge):
     - real Ninja evaluates an edge binding in the FILE scope only (manifest_parser.cc: val.Evaluate(env_));
       this model (as eval_edge_bindings of NinjaRead.v) lets it also see the edge's earlier bindings.  The two
       coincide unless an edge binding references a name bound earlier in the same edge.
   Not modelled: duplicate outputs across edges (bfg9000 refuses them itself; find_edge takes the first),
   Ninja's over-approximate cycle report for a rule variable referenced twice (this model reports a cycle only
   when the depth bound is exhausted). *)
From BFG Require Import Base.Chars Ninja.NinjaRead.
Local Open Scope N_scope.

Definition toks := list ntok.
Record rule := mkRule { r_name : str; r_binds : list (str * toks) }.
Record edge := mkEdge { e_outs : list str; e_rule : str; e_ins : list str; e_implicit : list str;
                        e_order : list str; e_binds : alist; e_raw : list (str * toks) }.
Record manifest := mkManifest { m_vars : alist; m_rules : list rule; m_edges : list edge; m_defaults : list str }.

Definition s_rule : str := [114; 117; 108; 101].
Definition s_build : str := [98; 117; 105; 108; 100].
Definition s_default : str := [100; 101; 102; 97; 117; 108; 116].
Definition s_pool : str := [112; 111; 111; 108].
Definition s_include : str := [105; 110; 99; 108; 117; 100; 101].
Definition s_subninja : str := [115; 117; 98; 110; 105; 110; 106; 97].
Definition s_phony : str := [112; 104; 111; 110; 121].
Definition s_command : str := [99; 111; 109; 109; 97; 110; 100].
Definition s_depfile : str := [100; 101; 112; 102; 105; 108; 101].
Definition s_deps : str := [100; 101; 112; 115].
Definition s_description : str := [100; 101; 115; 99; 114; 105; 112; 116; 105; 111; 110].
Definition s_generator : str := [103; 101; 110; 101; 114; 97; 116; 111; 114].
Definition s_restat : str := [114; 101; 115; 116; 97; 116].
Definition s_rspfile : str := [114; 115; 112; 102; 105; 108; 101].
Definition s_rspfile_content : str := [114; 115; 112; 102; 105; 108; 101; 95; 99; 111; 110; 116; 101; 110; 116].
Definition s_dyndep : str := [100; 121; 110; 100; 101; 112].
Definition s_msvc_deps_prefix : str := [109; 115; 118; 99; 95; 100; 101; 112; 115; 95; 112; 114; 101; 102; 105; 120].
Definition s_in : str := [105; 110].
Definition s_out : str := [111; 117; 116].

Definition rule_vars : list str :=
  [s_command; s_depfile; s_dyndep; s_description; s_deps; s_generator; s_pool; s_restat; s_rspfile;
   s_rspfile_content; s_msvc_deps_prefix].
Definition is_rule_var (n : str) : bool := existsb (str_eqb n) rule_vars.
(* statement keywords other than rule / build / default, all unsupported *)
Definition other_keywords : list str := [s_pool; s_include; s_subninja].

Definition is_nil {T} (l : list T) : bool := match l with [] => true | _ => false end.

(* ---- lines ---- *)
Fixpoint split_lines (s : str) : list str :=
  match s with
  | [] => [[]]
  | c :: r => if N.eqb c c_nl then [] :: split_lines r
              else match split_lines r with l :: ls => (c :: l) :: ls | [] => [[c]] end
  end.

Definition is_blank_line (l : str) : bool := is_nil (skip_sp l).
Definition is_comment_line (l : str) : bool := match skip_sp l with c :: _ => N.eqb c c_hash | [] => false end.
Definition indented (l : str) : bool := match l with c :: _ => N.eqb c c_sp | [] => false end.

(* an identifier [a-zA-Z0-9_.-]+ (lexer.in.cc varname) and the text after it *)
Fixpoint read_ident (s : str) : str * str :=
  match s with
  | c :: r => if braced_var_char c then let p := read_ident r in (c :: fst p, snd p) else ([], s)
  | [] => ([], [])
  end.

(* key = value (ParseLet); leading blanks of the line are skipped by the caller's skip_sp *)
Definition parse_let (l : str) : option (str * toks) :=
  let id := read_ident (skip_sp l) in
  if is_nil (fst id) then None else
  match skip_sp (snd id) with
  | c :: v => if N.eqb c c_eq then option_map (pair (fst id)) (lex_value v) else None
  | [] => None
  end.

(* paths separated by blanks, as token lists; stops in front of the first character that cannot start a
   path (colon, pipe, end of line); the rest is returned with leading blanks already skipped *)
Fixpoint lex_path_list (fuel : nat) (s : str) : option (list toks * str) :=
  match fuel with
  | O => None
  | S f =>
    match lex_path (skip_sp s) with
    | None => None
    | Some ([], rest) => Some ([], rest)
    | Some (ts, rest) => option_map (fun p => (ts :: fst p, snd p)) (lex_path_list f rest)
    end
  end.

Record raw_edge := mkRaw { re_outs : list toks; re_rule : str; re_ins : list toks; re_implicit : list toks;
                           re_order : list toks }.

(* a single pipe (not followed by a second pipe or by an at sign) / a double pipe *)
Definition strip_pipe1 (s : str) : option str :=
  match s with
  | c :: r => if N.eqb c c_pipe
              then match r with
                   | d :: _ => if N.eqb d c_pipe || N.eqb d c_at then None else Some r
                   | [] => Some r
                   end
              else None
  | [] => None
  end.
Definition strip_pipe2 (s : str) : option str :=
  match s with
  | c :: d :: r => if N.eqb c c_pipe && N.eqb d c_pipe then Some r else None
  | _ => None
  end.
Definition opt_section (strip : str -> option str) (fuel : nat) (s : str) : option (list toks * str) :=
  match strip s with
  | Some r => lex_path_list fuel r
  | None => Some ([], s)
  end.

(* the text after the keyword build *)
Definition parse_build (s : str) : option raw_edge :=
  let fuel := S (length s) in
  match lex_path_list fuel s with
  | Some (outs, c :: r2) =>
    if N.eqb c c_colon && negb (is_nil outs) then
      let id := read_ident (skip_sp r2) in
      if is_nil (fst id) then None else
      match lex_path_list fuel (snd id) with
      | Some (ins, r4) =>
        match opt_section strip_pipe1 fuel r4 with
        | Some (imp, r5) =>
          match opt_section strip_pipe2 fuel r5 with
          | Some (oo, r6) => if is_nil r6 then Some (mkRaw outs (fst id) ins imp oo) else None
          | None => None
          end
        | None => None
        end
      | None => None
      end
    else None
  | _ => None
  end.

(* ---- blocks ---- *)
Inductive block := BNone | BRule (n : str) (bs : list (str * toks)) | BEdge (re : raw_edge) (bs : list (str * toks)).
Record pstate := mkPs { ps_m : manifest; ps_blk : block }.

Definition file_env (vars : alist) : nenv := alookup (rev vars) (fun _ => []).

Definition has_key (k : str) (bs : list (str * toks)) : bool := existsb (fun p => str_eqb (fst p) k) bs.

Definition rule_known (m : manifest) (n : str) : bool :=
  str_eqb n s_phony || existsb (fun r => str_eqb (r_name r) n) (m_rules m).

Definition close_block (m : manifest) (b : block) : option manifest :=
  match b with
  | BNone => Some m
  | BRule n bs =>
    if has_key s_command bs
    then Some (mkManifest (m_vars m) (m_rules m ++ [mkRule n bs]) (m_edges m) (m_defaults m))
    else None
  | BEdge re bs =>
    let file := file_env (m_vars m) in
    let binds := eval_edge_bindings file [] bs in
    let ev := map (neval (alookup (rev binds) file)) in
    let e := mkEdge (ev (re_outs re)) (re_rule re) (ev (re_ins re)) (ev (re_implicit re)) (ev (re_order re)) binds bs in
    if existsb (@is_nil char) (e_outs e ++ e_ins e ++ e_implicit e ++ e_order e) then None
    else Some (mkManifest (m_vars m) (m_rules m) (m_edges m ++ [e]) (m_defaults m))
  end.

(* a statement that starts in column 0; the previous block has been closed *)
Definition parse_statement (m : manifest) (l : str) : option pstate :=
  let id := read_ident l in
  let k := fst id in
  let r := skip_sp (snd id) in
  if is_nil k then None
  else if str_eqb k s_rule then
    let nm := read_ident r in
    if is_nil (fst nm) || negb (is_nil (skip_sp (snd nm))) || rule_known m (fst nm) then None
    else Some (mkPs m (BRule (fst nm) []))
  else if str_eqb k s_build then
    match parse_build r with
    | Some re => if rule_known m (re_rule re) then Some (mkPs m (BEdge re [])) else None
    | None => None
    end
  else if str_eqb k s_default then
    match lex_path_list (S (length r)) r with
    | Some (ps, rest) =>
      let vs := map (neval (file_env (m_vars m))) ps in
      if is_nil ps || negb (is_nil rest) || existsb (@is_nil char) vs then None
      else Some (mkPs (mkManifest (m_vars m) (m_rules m) (m_edges m) (m_defaults m ++ vs)) BNone)
    | None => None
    end
  else if existsb (str_eqb k) other_keywords || is_rule_var k then None
  else
    match r with
    | c :: v =>
      if N.eqb c c_eq then
        match lex_value v with
        | Some ts => Some (mkPs (mkManifest (m_vars m ++ [(k, neval (file_env (m_vars m)) ts)])
                                            (m_rules m) (m_edges m) (m_defaults m)) BNone)
        | None => None
        end
      else None
    | [] => None
    end.

Definition parse_line (st : pstate) (l : str) : option pstate :=
  if is_comment_line l then Some st
  else if is_blank_line l then option_map (fun m => mkPs m BNone) (close_block (ps_m st) (ps_blk st))
  else if indented l then
    match ps_blk st, parse_let l with
    | BRule n bs, Some (k, ts) => if is_rule_var k then Some (mkPs (ps_m st) (BRule n (bs ++ [(k, ts)]))) else None
    | BEdge re bs, Some (k, ts) => Some (mkPs (ps_m st) (BEdge re (bs ++ [(k, ts)])))
    | _, _ => None
    end
  else
    match close_block (ps_m st) (ps_blk st) with
    | Some m => parse_statement m l
    | None => None
    end.

Fixpoint parse_lines (st : pstate) (ls : list str) : option manifest :=
  match ls with
  | [] => close_block (ps_m st) (ps_blk st)
  | l :: r => match parse_line st l with Some st' => parse_lines st' r | None => None end
  end.

Definition empty_manifest : manifest := mkManifest [] [] [] [].

Definition parse_manifest (text : str) : option manifest :=
  parse_lines (mkPs empty_manifest BNone) (split_lines text).

(* ---- evaluation of an edge (graph.cc EdgeEnv::LookupVariable, BindingEnv::LookupWithFallback) ----
   lookup order for a name referenced from a rule binding: in / out, the edge's own bindings, the rule's
   bindings (evaluated lazily in this same scope, depth bounded by fuel: None = cycle), the file scope. *)
Definition find_rule (m : manifest) (n : str) : option rule :=
  if str_eqb n s_phony then Some (mkRule s_phony [])
  else find (fun r => str_eqb (r_name r) n) (m_rules m).

Definition find_edge (m : manifest) (out : str) : option edge :=
  find (fun e => existsb (str_eqb out) (e_outs e)) (m_edges m).

Definition lookup_toks (bs : list (str * toks)) (n : str) : option toks :=
  option_map snd (find (fun p => str_eqb (fst p) n) (rev bs)).
Definition lookup_val (bs : alist) (n : str) : option str :=
  option_map snd (find (fun p => str_eqb (fst p) n) (rev bs)).

(* esc = true: shell-escaped in / out (command, description, ...); false: raw (depfile, rspfile) *)
Definition io_list (esc : bool) (paths : list str) : str := if esc then nj_in_out paths else nj_join paths.

Fixpoint edge_lookup (fuel : nat) (esc : bool) (file : nenv) (rb : list (str * toks)) (e : edge) (n : str)
  : option str :=
  match fuel with
  | O => None
  | S f =>
    if str_eqb n s_in then Some (io_list esc (e_ins e))
    else if str_eqb n s_out then Some (io_list esc (e_outs e))
    else
      match lookup_val (e_binds e) n with
      | Some v => Some v
      | None =>
        match lookup_toks rb n with
        | Some ts =>
          (fix ev (ts : toks) : option str :=
             match ts with
             | [] => Some []
             | TC c :: r => option_map (cons c) (ev r)
             | TV v :: r =>
               match edge_lookup f esc file rb e v, ev r with
               | Some a, Some b => Some (a ++ b)
               | _, _ => None
               end
             end) ts
        | None => Some (file n)
        end
      end
  end.

Definition lookup_fuel (r : rule) : nat := S (S (length (r_binds r))).

(* the value of a binding of the edge that produces [out] *)
Definition binding_of (esc : bool) (m : manifest) (out : str) (key : str) : option str :=
  match find_edge m out with
  | Some e =>
    match find_rule m (e_rule e) with
    | Some r => edge_lookup (lookup_fuel r) esc (file_env (m_vars m)) (r_binds r) e key
    | None => None
    end
  | None => None
  end.

(* the command line Ninja hands to /bin/sh -c for the edge producing [out] (empty for phony) *)
Definition command_of (m : manifest) (out : str) : option str := binding_of true m out s_command.
Definition depfile_of (m : manifest) (out : str) : option str := binding_of false m out s_depfile.
Definition deps_of (m : manifest) (out : str) : option str := binding_of true m out s_deps.
Definition description_of (m : manifest) (out : str) : option str := binding_of true m out s_description.

(* the same, for every edge in order (first output) *)
Definition edge_binding (esc : bool) (m : manifest) (e : edge) (key : str) : option str :=
  match find_rule m (e_rule e) with
  | Some r => edge_lookup (lookup_fuel r) esc (file_env (m_vars m)) (r_binds r) e key
  | None => None
  end.

(* replace the file scope (the harness substitutes tool variables by the argv recorder) *)
Definition with_vars (m : manifest) (vars : alist) : manifest :=
  mkManifest vars (m_rules m) (m_edges m) (m_defaults m).

(* run-time guard: does some binding of the edge reference a name bound earlier in the same edge? *)
Fixpoint tok_refs (ts : toks) : list str :=
  match ts with [] => [] | TV n :: r => n :: tok_refs r | TC _ :: r => tok_refs r end.
Fixpoint refs_earlier (seen : list str) (bs : list (str * toks)) : bool :=
  match bs with
  | [] => false
  | (n, ts) :: r => existsb (fun v => existsb (str_eqb v) seen) (tok_refs ts) || refs_earlier (n :: seen) r
  end.
