(* Proofs about the manifest structure parser (NinjaManifest.v) on the text layout written by the W model of
   NinjaFile.write (NinjaFileWrite.v). *)
From Coq Require Import ZArith Lia ZifyBool.
From BFG Require Import Base.Chars Shell.PosixQuote Shell.Sh Shell.PosixQuoteProofs Make.MakeWrite Make.MakeProofs
  Make.MakeRead Ninja.NinjaWrite Ninja.NinjaRead Ninja.NinjaProofs Graph.BackendAgree
  Ninja.NinjaManifest Ninja.NinjaFileWrite.
Local Open Scope N_scope.

(* ------------------------------------------------------------------ lines *)
Lemma split_lines_line l rest : has_nl l = false -> split_lines (l ++ c_nl :: rest) = l :: split_lines rest.
Proof.
  induction l as [|c l IH]; intros H.
  - reflexivity.
  - unfold has_nl in H. cbn [mem_char existsb] in H. apply orb_false_iff in H as [Hc Hl].
    rewrite N.eqb_sym in Hc. cbn [app split_lines]. rewrite Hc. fold (has_nl l) in Hl.
    unfold has_nl, mem_char in IH. rewrite (IH Hl). reflexivity.
Qed.

Lemma split_unlines ls : Forall (fun l => has_nl l = false) ls -> split_lines (unlines ls) = ls ++ [[]].
Proof.
  induction 1 as [|l ls Hl _ IH]; [reflexivity|].
  cbn [unlines app]. now rewrite split_lines_line, IH.
Qed.

Fixpoint run_lines (st : pstate) (ls : list str) : option pstate :=
  match ls with
  | [] => Some st
  | l :: r => match parse_line st l with Some st' => run_lines st' r | None => None end
  end.

Lemma parse_lines_app st a b :
  parse_lines st (a ++ b) = match run_lines st a with Some st' => parse_lines st' b | None => None end.
Proof.
  revert st; induction a as [|l a IH]; intros st; [reflexivity|].
  cbn [app parse_lines run_lines]. destruct (parse_line st l); [apply IH|reflexivity].
Qed.

Lemma run_lines_app st a b :
  run_lines st (a ++ b) = match run_lines st a with Some st' => run_lines st' b | None => None end.
Proof.
  revert st; induction a as [|l a IH]; intros st; [reflexivity|].
  cbn [app run_lines]. destruct (parse_line st l); [apply IH|reflexivity].
Qed.

(* ------------------------------------------------------------------ characters of names *)
Lemma word_char_facts c : is_ascii_word c = true ->
  braced_var_char c = true /\ N.eqb c c_sp = false /\ N.eqb c c_hash = false /\ N.eqb c c_nl = false /\
  N.eqb c c_eq = false.
Proof.
  unfold is_ascii_word, is_digit, is_upper, is_lower, braced_var_char, simple_var_char, is_ascii_word,
    is_digit, is_upper, is_lower, c_us, c_sp, c_hash, c_nl, c_eq, c_dash, c_dot.
  intros H. repeat split; lia.
Qed.

Lemma name_ok_braced n : name_ok n = true -> forallb braced_var_char n = true.
Proof.
  unfold name_ok. rewrite !forallb_forall. intros H c Hc. now destruct (word_char_facts c (H c Hc)) as [? _].
Qed.

Lemma name_ok_no_nl n : name_ok n = true -> has_nl n = false.
Proof.
  unfold name_ok, has_nl, mem_char. induction n as [|c n IH]; [reflexivity|]. cbn [forallb existsb].
  intros H. apply andb_true_iff in H as [Hc Hn]. destruct (word_char_facts c Hc) as [_ [_ [_ [Hnl _]]]].
  rewrite N.eqb_sym, Hnl. cbn [orb]. auto.
Qed.

(* the first character of a non-empty name is neither a blank nor a hash *)
Lemma skip_sp_name n rest : name_ok n = true -> n <> [] -> skip_sp (n ++ rest) = n ++ rest.
Proof.
  destruct n as [|c n]; [congruence|]. intros H _. unfold name_ok in H. cbn [forallb] in H.
  apply andb_true_iff in H as [Hc _]. destruct (word_char_facts c Hc) as [_ [Hs _]].
  cbn [app skip_sp]. now rewrite Hs.
Qed.

Lemma read_ident_app n rest :
  forallb braced_var_char n = true ->
  match rest with c :: _ => braced_var_char c = false | [] => True end ->
  read_ident (n ++ rest) = (n, rest).
Proof.
  induction n as [|c n IH]; intros H Hr.
  - cbn [app]. destruct rest as [|d r]; [reflexivity|]. cbn [read_ident]. now rewrite Hr.
  - cbn [forallb] in H. apply andb_true_iff in H as [Hc Hn]. cbn [app read_ident]. rewrite Hc.
    now rewrite (IH Hn Hr).
Qed.

Lemma read_ident_name_sp n rest : name_ok n = true -> read_ident (n ++ c_sp :: rest) = (n, c_sp :: rest).
Proof. intros H. apply read_ident_app; [now apply name_ok_braced|reflexivity]. Qed.

Lemma read_ident_name_end n : name_ok n = true -> read_ident n = (n, []).
Proof. intros H. rewrite <- (app_nil_r n) at 1. apply read_ident_app; [now apply name_ok_braced|exact I]. Qed.

Lemma not_comment_name n rest : name_ok n = true -> n <> [] ->
  is_comment_line (n ++ rest) = false /\ is_blank_line (n ++ rest) = false /\ indented (n ++ rest) = false.
Proof.
  intros H Hne. unfold is_comment_line, is_blank_line. rewrite skip_sp_name by assumption.
  destruct n as [|c n]; [congruence|]. unfold name_ok in H. cbn [forallb] in H.
  apply andb_true_iff in H as [Hc _]. destruct (word_char_facts c Hc) as [_ [Hs [Hh _]]].
  cbn [app is_nil indented]. now rewrite Hh, Hs.
Qed.

(* ------------------------------------------------------------------ statement names *)
Definition stmt_keywords : list str := [s_rule; s_build; s_default; s_pool; s_include; s_subninja].
(* a name usable for a file-level variable: ASCII word characters, not empty, not a statement keyword, not one of
   the reserved rule keys (domain restriction of the model, see NinjaManifest.v) *)
Definition file_var_ok (n : str) : bool :=
  name_ok n && negb (is_nil n) && negb (existsb (str_eqb n) stmt_keywords) && negb (is_rule_var n).

Lemma lex_value_sp text : lex_value (c_sp :: text) = lex_value text.
Proof. reflexivity. Qed.

Lemma file_var_ok_inv n : file_var_ok n = true ->
  name_ok n = true /\ n <> [] /\ str_eqb n s_rule = false /\ str_eqb n s_build = false /\
  str_eqb n s_default = false /\ existsb (str_eqb n) other_keywords = false /\ is_rule_var n = false.
Proof.
  unfold file_var_ok, stmt_keywords, other_keywords. cbn [existsb]. intros H.
  repeat (apply andb_true_iff in H as [H ?]).
  destruct n as [|c n]; [discriminate|].
  repeat match goal with H : negb _ = true |- _ => apply negb_true_iff in H end.
  repeat match goal with H : _ || _ = false |- _ => apply orb_false_iff in H as [? H] end.
  repeat split; try assumption; try congruence.
  cbn [existsb]. repeat (apply orb_false_iff; split); assumption.
Qed.

(* a file-level  name = text  line *)
Lemma parse_line_var st m n text ts :
  close_block (ps_m st) (ps_blk st) = Some m ->
  file_var_ok n = true -> lex_value text = Some ts ->
  parse_line st (n ++ t_sep_eq ++ text) =
  Some (mkPs (mkManifest (m_vars m ++ [(n, neval (file_env (m_vars m)) ts)]) (m_rules m) (m_edges m) (m_defaults m)) BNone).
Proof.
  intros Hc Hn Hl. destruct (file_var_ok_inv n Hn) as [Hok [Hne [H1 [H2 [H3 [H4 H5]]]]]].
  destruct (not_comment_name n (t_sep_eq ++ text) Hok Hne) as [C [B I]].
  unfold parse_line. rewrite C, B, I, Hc. unfold parse_statement.
  change (t_sep_eq ++ text) with (c_sp :: c_eq :: c_sp :: text).
  rewrite (read_ident_name_sp n _ Hok). cbn [fst snd].
  destruct n as [|c0 n0]; [congruence|]. cbn [is_nil]. rewrite H1, H2, H3, H4, H5. cbn [orb].
  change (skip_sp (c_sp :: c_eq :: c_sp :: text)) with (c_eq :: c_sp :: text).
  change (N.eqb c_eq c_eq) with true. cbv iota. rewrite lex_value_sp, Hl. reflexivity.
Qed.

(* rule NAME *)
Definition rule_name_ok (n : str) : bool := name_ok n && negb (is_nil n).

Lemma parse_line_rule st m n :
  close_block (ps_m st) (ps_blk st) = Some m ->
  rule_name_ok n = true -> rule_known m n = false ->
  parse_line st (t_kw_rule ++ n) = Some (mkPs m (BRule n [])).
Proof.
  intros Hc Hn Hk. unfold rule_name_ok in Hn. apply andb_true_iff in Hn as [Hok Hne].
  assert (n <> []) as Hne' by (destruct n; [discriminate|congruence]).
  unfold parse_line. change (t_kw_rule ++ n) with (s_rule ++ c_sp :: n).
  destruct (not_comment_name s_rule (c_sp :: n) eq_refl ltac:(discriminate)) as [C [B I]].
  rewrite C, B, I, Hc. unfold parse_statement.
  rewrite (read_ident_name_sp s_rule n eq_refl). cbn [fst snd].
  change (is_nil s_rule) with false. change (str_eqb s_rule s_rule) with true. cbv iota.
  change (skip_sp (c_sp :: n)) with (skip_sp n).
  assert (Hs : skip_sp n = n) by (rewrite <- (app_nil_r n); now apply skip_sp_name).
  rewrite Hs, (read_ident_name_end n Hok). cbn [fst snd skip_sp is_nil].
  destruct n as [|c0 n0]; [congruence|]. cbn [is_nil negb orb]. now rewrite Hk.
Qed.

(* an indented  key = text  line *)
Definition t_indent : str := [c_sp; c_sp].

Lemma parse_let_indented k text ts : name_ok k = true -> k <> [] -> lex_value text = Some ts ->
  parse_let (t_indent ++ k ++ t_sep_eq ++ text) = Some (k, ts).
Proof.
  intros Hok Hne Hl. unfold parse_let.
  change (skip_sp (t_indent ++ k ++ t_sep_eq ++ text)) with (skip_sp (k ++ t_sep_eq ++ text)).
  rewrite skip_sp_name by assumption. change (t_sep_eq ++ text) with (c_sp :: c_eq :: c_sp :: text).
  rewrite (read_ident_name_sp k _ Hok). cbn [fst snd]. destruct k as [|c0 k0]; [congruence|]. cbn [is_nil].
  change (skip_sp (c_sp :: c_eq :: c_sp :: text)) with (c_eq :: c_sp :: text).
  change (N.eqb c_eq c_eq) with true. cbv iota. now rewrite lex_value_sp, Hl.
Qed.

Lemma indented_line_class k rest : name_ok k = true -> k <> [] ->
  is_comment_line (t_indent ++ k ++ rest) = false /\ is_blank_line (t_indent ++ k ++ rest) = false /\
  indented (t_indent ++ k ++ rest) = true.
Proof.
  intros Hok Hne. destruct (not_comment_name k rest Hok Hne) as [C [B _]].
  unfold is_comment_line, is_blank_line in *.
  change (skip_sp (t_indent ++ k ++ rest)) with (skip_sp (k ++ rest)). now rewrite C, B.
Qed.

Lemma parse_line_rule_bind m n bs k text ts :
  name_ok k = true -> k <> [] -> is_rule_var k = true -> lex_value text = Some ts ->
  parse_line (mkPs m (BRule n bs)) (t_indent ++ k ++ t_sep_eq ++ text) = Some (mkPs m (BRule n (bs ++ [(k, ts)]))).
Proof.
  intros Hok Hne Hr Hl. destruct (indented_line_class k (t_sep_eq ++ text) Hok Hne) as [C [B I]].
  unfold parse_line. rewrite C, B, I. cbn [ps_blk ps_m]. rewrite (parse_let_indented k text ts Hok Hne Hl).
  now rewrite Hr.
Qed.

Lemma parse_line_edge_bind m re bs k text ts :
  name_ok k = true -> k <> [] -> lex_value text = Some ts ->
  parse_line (mkPs m (BEdge re bs)) (t_indent ++ k ++ t_sep_eq ++ text) = Some (mkPs m (BEdge re (bs ++ [(k, ts)]))).
Proof.
  intros Hok Hne Hl. destruct (indented_line_class k (t_sep_eq ++ text) Hok Hne) as [C [B I]].
  unfold parse_line. rewrite C, B, I. cbn [ps_blk ps_m]. now rewrite (parse_let_indented k text ts Hok Hne Hl).
Qed.

Lemma parse_line_blank st : parse_line st [] = option_map (fun m => mkPs m BNone) (close_block (ps_m st) (ps_blk st)).
Proof. reflexivity. Qed.

Lemma parse_line_comment st l : is_comment_line l = true -> parse_line st l = Some st.
Proof. intros H. unfold parse_line. now rewrite H. Qed.

(* ------------------------------------------------------------------ value texts *)
(* [lexes t toks]: the text t has no newline and, wherever it stands in a value, is lexed to toks *)
Definition lexes (t : str) (toks : list ntok) : Prop :=
  has_nl t = false /\
  forall rest, nlex false LN (t ++ rest) = option_map (fun p => (toks ++ fst p, snd p)) (nlex false LN rest).

Lemma lexes_nil : lexes [] [].
Proof. split; [reflexivity|]. intros rest. cbn. destruct (nlex false LN rest) as [[a b]|]; reflexivity. Qed.

Lemma lexes_app a b ta tb : lexes a ta -> lexes b tb -> lexes (a ++ b) (ta ++ tb).
Proof.
  intros [Ha Fa] [Hb Fb]. split.
  - now rewrite has_nl_app, Ha, Hb.
  - intros rest. rewrite <- app_assoc, Fa, Fb.
    destruct (nlex false LN rest) as [[x y]|]; cbn; [now rewrite app_assoc|reflexivity].
Qed.

Lemma has_nl_dollar_esc s : has_nl (dollar_esc s) = has_nl s.
Proof.
  unfold has_nl, mem_char. induction s as [|c s IH]; [reflexivity|]. cbn [dollar_esc].
  destruct (N.eqb c c_dollar) eqn:E; cbn [existsb]; rewrite IH.
  - apply N.eqb_eq in E; subst c. reflexivity.
  - reflexivity.
Qed.

Lemma lexes_dollar_esc s : has_nl s = false -> lexes (dollar_esc s) (map TC s).
Proof.
  intros H. split; [now rewrite has_nl_dollar_esc|]. intros rest.
  rewrite nlex_value_dollar_esc by assumption. reflexivity.
Qed.

Lemma lexes_ref n : name_ok n = true -> lexes (var_use n) [TV n].
Proof.
  intros H. split.
  - unfold var_use. change (c_dollar :: 123 :: n ++ [125]) with ([c_dollar; 123] ++ n ++ [125]).
    rewrite !has_nl_app, (name_ok_no_nl n H). reflexivity.
  - intros rest. change (var_use n) with (nj_ref n). now rewrite nlex_ref.
Qed.

Lemma lexes_sp : lexes [c_sp] [TC c_sp].
Proof. split; [reflexivity|]. intros rest. reflexivity. Qed.

Definition no_lead_sp (t : str) : bool := match t with c :: _ => negb (N.eqb c c_sp) | [] => true end.

Lemma skip_sp_no_lead t : no_lead_sp t = true -> skip_sp t = t.
Proof. destruct t as [|c r]; [reflexivity|]. cbn. destruct (N.eqb c c_sp); [discriminate|reflexivity]. Qed.

Lemma lexes_lex_value t toks : lexes t toks -> no_lead_sp t = true -> lex_value t = Some toks.
Proof.
  intros [_ F] H. unfold lex_value. rewrite skip_sp_no_lead by assumption.
  rewrite <- (app_nil_r t), F. cbn. now rewrite app_nil_r.
Qed.

Lemma nlex_skip_sp t : forall ts, nlex false LN t = Some (ts, []) -> exists ts', nlex false LN (skip_sp t) = Some (ts', []).
Proof.
  induction t as [|c t IH]; intros ts H; [now exists ts|].
  cbn [skip_sp]. destruct (N.eqb c c_sp) eqn:E; [|now exists ts].
  apply N.eqb_eq in E; subst c.
  change (nlex false LN (c_sp :: t)) with (option_map (fun p => (TC c_sp :: fst p, snd p)) (nlex false LN t)) in H.
  destruct (nlex false LN t) as [[a b]|]; [|discriminate]. cbn in H. inversion H; subst. now apply (IH a).
Qed.

Lemma lexes_lex_value_ex t toks : lexes t toks -> exists ts, lex_value t = Some ts.
Proof.
  intros [_ F]. unfold lex_value.
  assert (H : nlex false LN t = Some (toks, [])).
  { rewrite <- (app_nil_r t), F. cbn. now rewrite app_nil_r. }
  destruct (nlex_skip_sp t toks H) as [ts' H']. rewrite H'. now exists ts'.
Qed.

(* the fragments a value may consist of: strings, shell literals and variable references *)
Inductive frag_ok : nfrag -> Prop :=
| fo_str s : frag_ok (NStr s)
| fo_shlit s : frag_ok (NShLit s)
| fo_ref n : name_ok n = true -> frag_ok (NLit (var_use n)).
Definition items_ok (its : items) : Prop := Forall (Forall frag_ok) its.
Definition val_syn (syn : nsyntax) : bool := match syn with NShell | NClean => true | _ => false end.

Section Values.
Variable uw : char -> bool.

Lemma nj_escape_val s syn x : val_syn syn = true -> nj_escape_str s syn = Some x -> x = dollar_esc s /\ has_nl s = false.
Proof.
  unfold nj_escape_str. destruct (has_nl s); [discriminate|]. destruct syn; try discriminate; intros _ H; now inversion H.
Qed.

Lemma nwrite_lexes f syn t e : frag_ok f -> val_syn syn = true -> nwrite uw f syn = Some (t, e) -> exists toks, lexes t toks.
Proof.
  intros Hf Hs H. destruct Hf as [s|s|n Hn]; cbn [nwrite] in H.
  - destruct (if nshelly syn then quote_bit uw (BStr s) else (s, false)) as [q e'].
    destruct (nj_escape_str q syn) as [x|] eqn:E; [|discriminate]. cbn in H. inversion H; subst.
    destruct (nj_escape_val q syn t Hs E) as [-> Hq]. eexists. now apply lexes_dollar_esc.
  - destruct (nj_escape_str s syn) as [x|] eqn:E; [|discriminate]. cbn in H. inversion H; subst.
    destruct (nj_escape_val s syn t Hs E) as [-> Hq]. eexists. now apply lexes_dollar_esc.
  - inversion H; subst. eexists. now apply lexes_ref.
Qed.

Lemma nwrite_jbos_lexes l syn : Forall frag_ok l -> val_syn syn = true ->
  forall t e, nwrite_jbos uw l syn = Some (t, e) -> exists toks, lexes t toks.
Proof.
  intros Hl Hs. induction Hl as [|f l Hf _ IH]; intros t e H.
  - cbn in H. inversion H. eexists. apply lexes_nil.
  - cbn [nwrite_jbos] in H. destruct (nwrite uw f syn) as [[tx ex]|] eqn:X; [|discriminate].
    destruct (nwrite_jbos uw l syn) as [[tr er]|] eqn:R; [|discriminate]. cbn in H. inversion H; subst.
    destruct (nwrite_lexes f syn tx ex Hf Hs X) as [ta La]. destruct (IH tr er eq_refl) as [tb Lb].
    eexists. apply lexes_app; eassumption.
Qed.

Lemma nwrite_each_lexes its syn : items_ok its -> val_syn syn = true ->
  forall t, nwrite_each uw its syn = Some t -> exists toks, lexes t toks.
Proof.
  intros Hi Hs. induction Hi as [|x its Hx _ IH]; intros t H.
  - cbn in H. inversion H. eexists. apply lexes_nil.
  - destruct its as [|y r].
    + cbn [nwrite_each] in H. destruct (nwrite_jbos uw x syn) as [[tx ex]|] eqn:X; [|discriminate].
      cbn in H. inversion H; subst. now apply (nwrite_jbos_lexes x syn Hx Hs t ex).
    + change (nwrite_each uw (x :: y :: r) syn) with
        (match nwrite_jbos uw x syn, nwrite_each uw (y :: r) syn with
         | Some (t0, _), Some u => Some (t0 ++ c_sp :: u) | _, _ => None end) in H.
      destruct (nwrite_jbos uw x syn) as [[tx ex]|] eqn:X; [|discriminate].
      destruct (nwrite_each uw (y :: r) syn) as [u|] eqn:U; [|discriminate]. inversion H; subst.
      destruct (nwrite_jbos_lexes x syn Hx Hs tx ex X) as [ta La]. destruct (IH u eq_refl) as [tb Lb].
      eexists. change (tx ++ c_sp :: u) with (tx ++ [c_sp] ++ u).
      apply lexes_app; [exact La|]. apply lexes_app; [apply lexes_sp|exact Lb].
Qed.

(* a written binding line: its text has no newline and lexes *)
Lemma w_variable_ok indent k its syn line :
  items_ok its -> val_syn syn = true -> name_ok k = true ->
  w_variable uw indent k its syn = Some line ->
  exists text, line = (if indent then t_indent else []) ++ k ++ t_sep_eq ++ text /\ has_nl line = false /\
               exists ts, lex_value text = Some ts.
Proof.
  intros Hi Hs Hk H. unfold w_variable in H. destruct (nwrite_each uw its syn) as [t|] eqn:E; [|discriminate].
  cbn [option_map] in H. inversion H; subst. destruct (nwrite_each_lexes its syn Hi Hs t E) as [toks L].
  exists t. split; [reflexivity|]. split.
  - rewrite !has_nl_app. change (32 :: 61 :: 32 :: t) with (t_sep_eq ++ t). rewrite has_nl_app, (name_ok_no_nl k Hk), (proj1 L). now destruct indent.
  - now apply (lexes_lex_value_ex t toks).
Qed.
End Values.

(* ------------------------------------------------------------------ path lists *)
Definition path_ok (p : str) : bool := forallb path_char_ok p && negb (is_nil p).
Definition tc (ps : list str) : list toks := map (map TC) ps.
Definition jpaths (ps : list str) : str := join_sp (map nj_path_esc ps).
Definition pre_text (prefix : str) (ps : list str) : str := match ps with [] => [] | _ => prefix ++ jpaths ps end.

Definition term_first (rest : str) : Prop :=
  match rest with [] => True | c :: _ => N.eqb c c_sp || N.eqb c c_colon || N.eqb c c_pipe = true end.
Definition stops (rest : str) : Prop :=
  term_first rest /\ match skip_sp rest with [] => True | c :: _ => N.eqb c c_colon || N.eqb c c_pipe = true end.

Lemma nlex_path_stop rest : term_first rest -> nlex true LN rest = Some ([], rest).
Proof.
  destruct rest as [|c r]; [reflexivity|]. cbn [term_first nlex]. intros H.
  assert (N.eqb c c_dollar = false) as -> by (unfold c_sp, c_colon, c_pipe, c_dollar in *; lia).
  assert (N.eqb c c_nl = false) as -> by (unfold c_sp, c_colon, c_pipe, c_nl in *; lia).
  cbn [andb]. now rewrite H.
Qed.

Lemma path_ok_inv p : path_ok p = true -> forallb path_char_ok p = true /\ p <> [].
Proof. unfold path_ok. intros H. apply andb_true_iff in H as [H1 H2]. split; [assumption|]. now destruct p. Qed.

Lemma lex_path_written p rest : path_ok p = true -> term_first rest ->
  lex_path (nj_path_esc p ++ rest) = Some (map TC p, rest).
Proof.
  intros Hp Hr. destruct (path_ok_inv p Hp) as [Hc _]. unfold lex_path.
  rewrite nlex_path_esc by assumption. rewrite nlex_path_stop by assumption. cbn. unfold pre. cbn. now rewrite app_nil_r.
Qed.

Lemma no_lead_sp_esc p rest : p <> [] -> no_lead_sp (nj_path_esc p ++ rest) = true.
Proof.
  destruct p as [|c p]; [congruence|]. intros _. cbn [nj_path_esc].
  destruct (N.eqb c c_sp) eqn:E.
  - rewrite orb_true_r. reflexivity.
  - destruct (N.eqb c c_colon || N.eqb c c_dollar); cbn; [reflexivity|now rewrite E].
Qed.

Lemma lex_path_list_sp fuel s : lex_path_list fuel (c_sp :: s) = lex_path_list fuel s.
Proof. destruct fuel; reflexivity. Qed.

Lemma lex_path_list_stop f rest : stops rest -> lex_path_list (S f) rest = Some ([], skip_sp rest).
Proof.
  intros [_ H]. cbn [lex_path_list]. unfold lex_path. destruct (skip_sp rest) as [|c r] eqn:E; [reflexivity|].
  rewrite nlex_path_stop; [reflexivity|]. cbn. now rewrite <- orb_assoc, H, orb_true_r.
Qed.

Lemma jpaths_cons2 p q r : jpaths (p :: q :: r) = nj_path_esc p ++ c_sp :: jpaths (q :: r).
Proof. reflexivity. Qed.

Lemma lex_path_list_written ps : forall fuel rest,
  Forall (fun p => path_ok p = true) ps -> stops rest -> (length ps < fuel)%nat ->
  lex_path_list fuel (jpaths ps ++ rest) = Some (tc ps, skip_sp rest).
Proof.
  induction ps as [|p ps IH]; intros fuel rest Hps Hr Hf.
  - destruct fuel as [|f]; [cbn in Hf; lia|]. now apply lex_path_list_stop.
  - inversion Hps as [|? ? Hp Hps']; subst. destruct (path_ok_inv p Hp) as [_ Hne].
    destruct fuel as [|f]; [cbn in Hf; lia|]. cbn [length] in Hf.
    destruct ps as [|q r].
    + unfold jpaths. cbn [map join_sp lex_path_list].
      rewrite skip_sp_no_lead by now apply no_lead_sp_esc.
      rewrite lex_path_written by (try assumption; apply Hr).
      destruct p as [|c0 p0]; [congruence|]. cbn [map].
      destruct f as [|f']; [lia|]. rewrite lex_path_list_stop by assumption. reflexivity.
    + rewrite jpaths_cons2, <- app_assoc. cbn [app lex_path_list].
      rewrite skip_sp_no_lead by now apply no_lead_sp_esc.
      rewrite lex_path_written by (try assumption; reflexivity).
      destruct p as [|c0 p0]; [congruence|]. cbn [map].
      rewrite lex_path_list_sp, (IH f rest Hps' Hr) by (cbn [length] in *; lia). reflexivity.
Qed.

Lemma len_jpaths ps : Forall (fun p => path_ok p = true) ps -> (length ps <= length (jpaths ps))%nat.
Proof.
  induction 1 as [|p ps Hp _ IH]; [cbn; lia|]. destruct (path_ok_inv p Hp) as [_ Hne].
  assert (1 <= length (nj_path_esc p))%nat.
  { destruct p as [|c p]; [congruence|]. cbn [nj_path_esc]. destruct (_ || _); cbn [length]; lia. }
  destruct ps as [|q r].
  - unfold jpaths. cbn [map join_sp length]. lia.
  - rewrite jpaths_cons2, app_length. cbn [length] in *. lia.
Qed.

(* ------------------------------------------------------------------ the build line *)
Lemma stops_nil : stops [].
Proof. split; exact I. Qed.
Lemma stops_colon r : stops (c_colon :: r).
Proof. split; reflexivity. Qed.
Lemma stops_sp_pipe r : stops (c_sp :: c_pipe :: r).
Proof. split; reflexivity. Qed.

Definition sec_oo (oo : list str) : str := pre_text t_sep_oo oo.
Definition sec_imp (imp : list str) : str := pre_text t_sep_imp imp.
Definition sec_in (ins : list str) : str := pre_text [c_sp] ins.

Lemma stops_oo oo : stops (sec_oo oo).
Proof. destruct oo; [apply stops_nil|apply stops_sp_pipe]. Qed.
Lemma stops_imp_oo imp oo : stops (sec_imp imp ++ sec_oo oo).
Proof. destruct imp; [apply stops_oo|apply stops_sp_pipe]. Qed.

Notation all_paths_ok ps := (Forall (fun p => path_ok p = true) ps).

Lemma lex_sec_in fuel ins R : all_paths_ok ins -> stops R -> (length ins < fuel)%nat ->
  lex_path_list fuel (sec_in ins ++ R) = Some (tc ins, skip_sp R).
Proof.
  intros Hp Hr Hf. destruct ins as [|p ps].
  - destruct fuel as [|f]; [cbn in Hf; lia|]. now apply lex_path_list_stop.
  - unfold sec_in, pre_text. rewrite <- app_assoc. cbn [app]. rewrite lex_path_list_sp.
    now apply lex_path_list_written.
Qed.

Lemma lex_sec_imp fuel imp oo : all_paths_ok imp -> (length imp < fuel)%nat ->
  opt_section strip_pipe1 fuel (skip_sp (sec_imp imp ++ sec_oo oo)) = Some (tc imp, skip_sp (sec_oo oo)).
Proof.
  intros Hp Hf. destruct imp as [|p ps].
  - destruct oo; reflexivity.
  - unfold sec_imp, pre_text. rewrite <- app_assoc.
    change (skip_sp (t_sep_imp ++ jpaths (p :: ps) ++ sec_oo oo)) with (c_pipe :: c_sp :: jpaths (p :: ps) ++ sec_oo oo).
    unfold opt_section. cbn [strip_pipe1]. change (N.eqb c_pipe c_pipe) with true. cbv iota.
    change (N.eqb c_sp c_pipe || N.eqb c_sp c_at) with false. cbv iota.
    rewrite lex_path_list_sp. apply lex_path_list_written; [assumption|apply stops_oo|assumption].
Qed.

Lemma lex_sec_oo fuel oo : all_paths_ok oo -> (length oo < fuel)%nat ->
  opt_section strip_pipe2 fuel (skip_sp (sec_oo oo)) = Some (tc oo, []).
Proof.
  intros Hp Hf. destruct oo as [|p ps]; [reflexivity|].
  unfold sec_oo, pre_text.
  change (skip_sp (t_sep_oo ++ jpaths (p :: ps))) with (c_pipe :: c_pipe :: c_sp :: jpaths (p :: ps)).
  unfold opt_section. cbn [strip_pipe2]. change (N.eqb c_pipe c_pipe && N.eqb c_pipe c_pipe) with true. cbv iota.
  rewrite lex_path_list_sp. rewrite <- (app_nil_r (jpaths (p :: ps))).
  now rewrite (lex_path_list_written (p :: ps) fuel [] Hp stops_nil Hf).
Qed.

Lemma len_pre prefix ps : all_paths_ok ps -> (length ps <= length (pre_text prefix ps))%nat.
Proof.
  intros H. pose proof (len_jpaths ps H). destruct ps; [cbn; lia|]. unfold pre_text. rewrite app_length. lia.
Qed.

Lemma secs_first ins imp oo :
  match sec_in ins ++ sec_imp imp ++ sec_oo oo with c :: _ => braced_var_char c = false | [] => True end.
Proof. destruct ins; [destruct imp; [destruct oo|]|]; try exact I; reflexivity. Qed.

(* the text of a build line after the keyword *)
Definition build_text (outs : list str) (rule : str) (ins imp oo : list str) : str :=
  jpaths outs ++ t_sep_colon ++ rule ++ sec_in ins ++ sec_imp imp ++ sec_oo oo.

Lemma parse_build_written outs rule ins imp oo :
  all_paths_ok outs -> outs <> [] -> all_paths_ok ins -> all_paths_ok imp -> all_paths_ok oo ->
  rule_name_ok rule = true ->
  parse_build (build_text outs rule ins imp oo) = Some (mkRaw (tc outs) rule (tc ins) (tc imp) (tc oo)).
Proof.
  intros Ho Hne Hi Hm Hoo Hr. unfold rule_name_ok in Hr. apply andb_true_iff in Hr as [Hrok Hrne].
  assert (rule <> []) as Hrne' by (destruct rule; [discriminate|congruence]).
  unfold parse_build. set (fuel := S (length (build_text outs rule ins imp oo))).
  assert (F : (length outs < fuel /\ length ins < fuel /\ length imp < fuel /\ length oo < fuel)%nat).
  { unfold fuel, build_text. rewrite !app_length.
    pose proof (len_jpaths outs Ho). pose proof (len_pre [c_sp] ins Hi). pose proof (len_pre t_sep_imp imp Hm).
    pose proof (len_pre t_sep_oo oo Hoo). unfold sec_in, sec_imp, sec_oo. lia. }
  destruct F as [F1 [F2 [F3 F4]]].
  unfold build_text at 1.
  change (t_sep_colon ++ rule ++ sec_in ins ++ sec_imp imp ++ sec_oo oo)
    with (c_colon :: c_sp :: rule ++ sec_in ins ++ sec_imp imp ++ sec_oo oo).
  rewrite (lex_path_list_written outs fuel _ Ho (stops_colon _) F1).
  change (skip_sp (c_colon :: c_sp :: rule ++ sec_in ins ++ sec_imp imp ++ sec_oo oo))
    with (c_colon :: c_sp :: rule ++ sec_in ins ++ sec_imp imp ++ sec_oo oo).
  change (N.eqb c_colon c_colon) with true. destruct outs as [|o1 outs']; [congruence|]. cbn [tc map is_nil negb andb].
  change (skip_sp (c_sp :: rule ++ sec_in ins ++ sec_imp imp ++ sec_oo oo))
    with (skip_sp (rule ++ sec_in ins ++ sec_imp imp ++ sec_oo oo)).
  rewrite skip_sp_name by assumption.
  rewrite (read_ident_app rule _ (name_ok_braced rule Hrok) (secs_first ins imp oo)). cbn [fst snd].
  destruct rule as [|r0 rule0]; [congruence|]. cbn [is_nil].
  rewrite (lex_sec_in fuel ins _ Hi (stops_imp_oo imp oo) F2).
  rewrite (lex_sec_imp fuel imp oo Hm F3), (lex_sec_oo fuel oo Hoo F4). reflexivity.
Qed.

Lemma no_lead_sp_jpaths p ps R : p <> [] -> no_lead_sp (jpaths (p :: ps) ++ R) = true.
Proof.
  intros H. destruct ps as [|q r].
  - unfold jpaths. cbn [map join_sp]. now apply no_lead_sp_esc.
  - rewrite jpaths_cons2, <- app_assoc. now apply no_lead_sp_esc.
Qed.

Lemma parse_line_build st m outs rule ins imp oo :
  close_block (ps_m st) (ps_blk st) = Some m ->
  all_paths_ok outs -> outs <> [] -> all_paths_ok ins -> all_paths_ok imp -> all_paths_ok oo ->
  rule_name_ok rule = true -> rule_known m rule = true ->
  parse_line st (t_kw_build ++ build_text outs rule ins imp oo) =
  Some (mkPs m (BEdge (mkRaw (tc outs) rule (tc ins) (tc imp) (tc oo)) [])).
Proof.
  intros Hc Ho Hne Hi Hm Hoo Hr Hk.
  unfold parse_line. change (t_kw_build ++ ?x) with (s_build ++ c_sp :: x).
  destruct (not_comment_name s_build (c_sp :: build_text outs rule ins imp oo) eq_refl ltac:(discriminate)) as [C [B I]].
  rewrite C, B, I, Hc. unfold parse_statement.
  rewrite (read_ident_name_sp s_build _ eq_refl). cbn [fst snd].
  change (is_nil s_build) with false. change (str_eqb s_build s_rule) with false.
  change (str_eqb s_build s_build) with true. cbv iota.
  change (skip_sp (c_sp :: build_text outs rule ins imp oo)) with (skip_sp (build_text outs rule ins imp oo)).
  assert (Hs : skip_sp (build_text outs rule ins imp oo) = build_text outs rule ins imp oo).
  { apply skip_sp_no_lead. unfold build_text. destruct outs as [|p ps]; [congruence|].
    inversion Ho; subst. apply no_lead_sp_jpaths. now destruct (path_ok_inv p H1). }
  rewrite Hs, parse_build_written by assumption. cbn [re_rule]. now rewrite Hk.
Qed.

(* the text NinjaFile._write_build writes for outputs / inputs that are plain strings *)
Section BuildLine.
Variable uw : char -> bool.

Lemma path_ok_no_nl p : path_ok p = true -> has_nl p = false.
Proof.
  intros H. destruct (path_ok_inv p H) as [Hc _]. clear H. unfold has_nl, mem_char.
  induction p as [|c p IH]; [reflexivity|]. cbn [forallb existsb] in *. apply andb_true_iff in Hc as [H1 H2].
  unfold path_char_ok in H1. apply negb_true_iff in H1. apply orb_false_iff in H1 as [H1 _].
  rewrite N.eqb_sym, H1. cbn [orb]. auto.
Qed.

Lemma nwrite_each_paths ps syn : all_paths_ok ps -> (syn = NOutput \/ syn = NInput) ->
  nwrite_each uw (path_items ps) syn = Some (jpaths ps).
Proof.
  intros Hp Hs. induction Hp as [|p ps Hp _ IH]; [reflexivity|].
  assert (J : nwrite_jbos uw [NStr p] syn = Some (nj_path_esc p, false)).
  { cbn [nwrite_jbos nwrite]. assert (nshelly syn = false) as -> by (destruct Hs; subst; reflexivity).
    unfold nj_escape_str. rewrite (path_ok_no_nl p Hp).
    destruct Hs; subst; cbn; now rewrite app_nil_r. }
  destruct ps as [|q r].
  - cbn [path_items map nwrite_each]. now rewrite J.
  - change (path_items (p :: q :: r)) with ([NStr p] :: path_items (q :: r)).
    change (nwrite_each uw ([NStr p] :: path_items (q :: r)) syn) with
      (match nwrite_jbos uw [NStr p] syn, nwrite_each uw (path_items (q :: r)) syn with
       | Some (t0, _), Some u => Some (t0 ++ c_sp :: u) | _, _ => None end).
    now rewrite J, IH.
Qed.

Lemma w_each_pre_paths prefix ps : all_paths_ok ps ->
  w_each_pre uw prefix (path_items ps) NInput = Some (pre_text prefix ps).
Proof.
  intros Hp. destruct ps as [|p r]; [reflexivity|].
  unfold w_each_pre. change (path_items (p :: r)) with ([NStr p] :: path_items r).
  change ([NStr p] :: path_items r) with (path_items (p :: r)).
  rewrite nwrite_each_paths by (auto). reflexivity.
Qed.

Lemma w_build_line_paths outs rule ins imp oo vars :
  all_paths_ok outs -> all_paths_ok ins -> all_paths_ok imp -> all_paths_ok oo ->
  w_build_line uw (mkWBuild (path_items outs) rule (path_items ins) (path_items imp) (path_items oo) vars) =
  Some (t_kw_build ++ build_text outs rule ins imp oo).
Proof.
  intros Ho Hi Hm Hoo. unfold w_build_line. cbn [wb_outs wb_ins wb_implicit wb_order wb_rule].
  rewrite nwrite_each_paths by auto. rewrite !w_each_pre_paths by assumption. reflexivity.
Qed.
End BuildLine.

(* closing an edge block whose paths are plain strings *)
Lemma neval_tc env ps : map (neval env) (tc ps) = ps.
Proof.
  induction ps as [|p ps IH]; [reflexivity|]. unfold tc in *. cbn [map]. rewrite IH. f_equal.
  rewrite <- (app_nil_r (map TC p)), neval_chars. apply app_nil_r.
Qed.

Lemma no_empty_paths ps : all_paths_ok ps -> existsb (@is_nil char) ps = false.
Proof.
  induction 1 as [|p ps Hp _ IH]; [reflexivity|]. cbn [existsb]. rewrite IH.
  destruct (path_ok_inv p Hp) as [_ Hne]. now destruct p.
Qed.

Lemma close_edge m outs rule ins imp oo bs :
  all_paths_ok outs -> all_paths_ok ins -> all_paths_ok imp -> all_paths_ok oo ->
  close_block m (BEdge (mkRaw (tc outs) rule (tc ins) (tc imp) (tc oo)) bs) =
  Some (mkManifest (m_vars m) (m_rules m)
          (m_edges m ++ [mkEdge outs rule ins imp oo (eval_edge_bindings (file_env (m_vars m)) [] bs) bs])
          (m_defaults m)).
Proof.
  intros Ho Hi Hm Hoo. unfold close_block. cbn [re_outs re_rule re_ins re_implicit re_order].
  rewrite !neval_tc. cbn [e_outs e_ins e_implicit e_order].
  rewrite !existsb_app, !no_empty_paths by assumption. reflexivity.
Qed.

(* default paths *)
Lemma parse_line_default st m ps :
  close_block (ps_m st) (ps_blk st) = Some m -> all_paths_ok ps -> ps <> [] ->
  parse_line st (t_kw_default ++ jpaths ps) =
  Some (mkPs (mkManifest (m_vars m) (m_rules m) (m_edges m) (m_defaults m ++ ps)) BNone).
Proof.
  intros Hc Hp Hne. unfold parse_line. change (t_kw_default ++ ?x) with (s_default ++ c_sp :: x).
  destruct (not_comment_name s_default (c_sp :: jpaths ps) eq_refl ltac:(discriminate)) as [C [B I]].
  rewrite C, B, I, Hc. unfold parse_statement.
  rewrite (read_ident_name_sp s_default _ eq_refl). cbn [fst snd].
  change (is_nil s_default) with false. change (str_eqb s_default s_rule) with false.
  change (str_eqb s_default s_build) with false. change (str_eqb s_default s_default) with true. cbv iota.
  change (skip_sp (c_sp :: jpaths ps)) with (skip_sp (jpaths ps)).
  assert (Hs : skip_sp (jpaths ps) = jpaths ps).
  { apply skip_sp_no_lead. destruct ps as [|p r]; [congruence|]. inversion Hp; subst.
    rewrite <- (app_nil_r (jpaths (p :: r))). apply no_lead_sp_jpaths. now destruct (path_ok_inv p H1). }
  rewrite Hs. rewrite <- (app_nil_r (jpaths ps)) at 2.
  rewrite (lex_path_list_written ps _ [] Hp stops_nil) by (pose proof (len_jpaths ps Hp); lia).
  cbn [skip_sp]. rewrite neval_tc, no_empty_paths by assumption.
  destruct ps as [|p r]; [congruence|]. reflexivity.
Qed.

(* ------------------------------------------------------------------ blocks of lines *)
Definition bind_line (b : str * str) : str := t_indent ++ fst b ++ t_sep_eq ++ snd b.
Definition var_line (b : str * str) : str := fst b ++ t_sep_eq ++ snd b.
Definition bind_rel (a : str * str) (b : str * toks) : Prop :=
  fst a = fst b /\ name_ok (fst a) = true /\ fst a <> [] /\ lex_value (snd a) = Some (snd b).
Definition var_rel (a : str * str) (b : str * toks) : Prop :=
  fst a = fst b /\ file_var_ok (fst a) = true /\ lex_value (snd a) = Some (snd b).

Lemma run_rule_binds m n kt : forall kts bs0,
  Forall2 bind_rel kt kts -> Forall (fun b => is_rule_var (fst b) = true) kt ->
  run_lines (mkPs m (BRule n bs0)) (map bind_line kt) = Some (mkPs m (BRule n (bs0 ++ kts))).
Proof.
  induction kt as [|[k text] kt IH]; intros kts bs0 H2 Hr; inversion H2 as [|? [k' ts] ? kts' R H2']; subst.
  - cbn. now rewrite app_nil_r.
  - destruct R as [E [Hok [Hne Hl]]]. cbn [fst snd] in *. subst k'. inversion Hr as [|? ? Hr1 Hr2]; subst.
    cbn [map run_lines]. unfold bind_line at 1. cbn [fst snd].
    rewrite (parse_line_rule_bind m n bs0 k text ts Hok Hne Hr1 Hl). cbv iota beta.
        specialize (IH kts' (bs0 ++ [(k, ts)]) H2' Hr2). rewrite <- app_assoc in IH. exact IH.
Qed.

Lemma run_edge_binds m re kt : forall kts bs0,
  Forall2 bind_rel kt kts ->
  run_lines (mkPs m (BEdge re bs0)) (map bind_line kt) = Some (mkPs m (BEdge re (bs0 ++ kts))).
Proof.
  induction kt as [|[k text] kt IH]; intros kts bs0 H2; inversion H2 as [|? [k' ts] ? kts' R H2']; subst.
  - cbn. now rewrite app_nil_r.
  - destruct R as [E [Hok [Hne Hl]]]. cbn [fst snd] in *. subst k'.
    cbn [map run_lines]. unfold bind_line at 1. cbn [fst snd].
    rewrite (parse_line_edge_bind m re bs0 k text ts Hok Hne Hl). cbv iota beta.
    specialize (IH kts' (bs0 ++ [(k, ts)]) H2'). rewrite <- app_assoc in IH. exact IH.
Qed.

Definition add_rule (m : manifest) (r : rule) : manifest :=
  mkManifest (m_vars m) (m_rules m ++ [r]) (m_edges m) (m_defaults m).
Definition add_edge (m : manifest) (e : edge) : manifest :=
  mkManifest (m_vars m) (m_rules m) (m_edges m ++ [e]) (m_defaults m).
Definition add_var (m : manifest) (b : str * toks) : manifest :=
  mkManifest (m_vars m ++ [(fst b, neval (file_env (m_vars m)) (snd b))]) (m_rules m) (m_edges m) (m_defaults m).

Lemma run_rule_block st m n kt kts :
  close_block (ps_m st) (ps_blk st) = Some m -> rule_name_ok n = true -> rule_known m n = false ->
  Forall2 bind_rel kt kts -> Forall (fun b => is_rule_var (fst b) = true) kt -> has_key s_command kts = true ->
  run_lines st ((t_kw_rule ++ n) :: map bind_line kt ++ [[]]) = Some (mkPs (add_rule m (mkRule n kts)) BNone).
Proof.
  intros Hc Hn Hk H2 Hr Hcmd. cbn [run_lines]. rewrite (parse_line_rule st m n Hc Hn Hk). cbv iota beta.
  rewrite run_lines_app, (run_rule_binds m n kt kts [] H2 Hr). cbn [run_lines app].
  rewrite parse_line_blank. cbn [ps_m ps_blk close_block]. now rewrite Hcmd.
Qed.

Definition edge_of (m : manifest) (outs : list str) (rule : str) (ins imp oo : list str) (kts : list (str * toks)) : edge :=
  mkEdge outs rule ins imp oo (eval_edge_bindings (file_env (m_vars m)) [] kts) kts.

Lemma run_edge_block st m outs rule ins imp oo kt kts :
  close_block (ps_m st) (ps_blk st) = Some m ->
  all_paths_ok outs -> outs <> [] -> all_paths_ok ins -> all_paths_ok imp -> all_paths_ok oo ->
  rule_name_ok rule = true -> rule_known m rule = true -> Forall2 bind_rel kt kts ->
  run_lines st ((t_kw_build ++ build_text outs rule ins imp oo) :: map bind_line kt ++ [[]]) =
  Some (mkPs (add_edge m (edge_of m outs rule ins imp oo kts)) BNone).
Proof.
  intros Hc Ho Hne Hi Hm Hoo Hr Hk H2. cbn [run_lines].
  rewrite (parse_line_build st m outs rule ins imp oo Hc Ho Hne Hi Hm Hoo Hr Hk). cbv iota beta.
  rewrite run_lines_app, (run_edge_binds m _ kt kts [] H2). cbn [run_lines app].
  rewrite parse_line_blank. cbn [ps_m ps_blk]. rewrite close_edge by assumption. reflexivity.
Qed.

Lemma run_vars kt : forall kts st m,
  close_block (ps_m st) (ps_blk st) = Some m -> Forall2 var_rel kt kts ->
  run_lines st (map var_line kt ++ [[]]) = Some (mkPs (fold_left add_var kts m) BNone).
Proof.
  induction kt as [|[k text] kt IH]; intros kts st m Hc H2; inversion H2 as [|? [k' ts] ? kts' R H2']; subst.
  - cbn [map app run_lines]. rewrite parse_line_blank, Hc. reflexivity.
  - destruct R as [E [Hok Hl]]. cbn [fst snd] in *. subst k'.
    cbn [map app run_lines]. unfold var_line at 1. cbn [fst snd].
    rewrite (parse_line_var st m k text ts Hc Hok Hl). cbv iota beta.
    apply (IH kts' (mkPs (add_var m (k, ts)) BNone) (add_var m (k, ts))); [reflexivity|assumption].
Qed.

(* comment header *)
Lemma run_header st bfg : run_lines st [t_hdr1; t_hdr2; t_hdr3 ++ bfg] = Some st.
Proof. cbn [run_lines]. now rewrite !parse_line_comment by reflexivity. Qed.

(* ------------------------------------------------------------------ no newline inside written lines *)
Lemma has_nl_path_esc p : has_nl (nj_path_esc p) = has_nl p.
Proof.
  unfold has_nl, mem_char. induction p as [|c p IH]; [reflexivity|]. cbn [nj_path_esc].
  destruct (N.eqb c c_colon || N.eqb c c_dollar || N.eqb c c_sp); cbn [existsb]; now rewrite IH.
Qed.

Lemma has_nl_jpaths ps : all_paths_ok ps -> has_nl (jpaths ps) = false.
Proof.
  induction 1 as [|p ps Hp _ IH]; [reflexivity|]. destruct ps as [|q r].
  - unfold jpaths. cbn [map join_sp]. now rewrite has_nl_path_esc, path_ok_no_nl.
  - rewrite jpaths_cons2. change (c_sp :: jpaths (q :: r)) with ([c_sp] ++ jpaths (q :: r)).
    now rewrite !has_nl_app, has_nl_path_esc, path_ok_no_nl, IH.
Qed.

Lemma has_nl_pre prefix ps : has_nl prefix = false -> all_paths_ok ps -> has_nl (pre_text prefix ps) = false.
Proof. intros Hx Hp. destruct ps; [reflexivity|]. unfold pre_text. now rewrite has_nl_app, Hx, has_nl_jpaths. Qed.

Lemma has_nl_build_text outs rule ins imp oo :
  all_paths_ok outs -> all_paths_ok ins -> all_paths_ok imp -> all_paths_ok oo -> name_ok rule = true ->
  has_nl (t_kw_build ++ build_text outs rule ins imp oo) = false.
Proof.
  intros Ho Hi Hm Hoo Hr. unfold build_text, sec_in, sec_imp, sec_oo.
  rewrite !has_nl_app, has_nl_jpaths, (name_ok_no_nl rule Hr), !has_nl_pre by (assumption || reflexivity). reflexivity.
Qed.

Lemma has_nl_bind_line k text : name_ok k = true -> has_nl text = false -> has_nl (bind_line (k, text)) = false.
Proof. intros Hk Ht. unfold bind_line. cbn [fst snd]. now rewrite !has_nl_app, (name_ok_no_nl k Hk), Ht. Qed.

Lemma has_nl_var_line k text : name_ok k = true -> has_nl text = false -> has_nl (var_line (k, text)) = false.
Proof. intros Hk Ht. unfold var_line. cbn [fst snd]. now rewrite !has_nl_app, (name_ok_no_nl k Hk), Ht. Qed.

(* parsing the text of a list of newline-free lines *)
Lemma parse_unlines ls : Forall (fun l => has_nl l = false) ls ->
  parse_manifest (unlines ls) =
  match run_lines (mkPs empty_manifest BNone) ls with
  | Some st => close_block (ps_m st) (ps_blk st)
  | None => None
  end.
Proof.
  intros H. unfold parse_manifest. rewrite split_unlines by assumption. rewrite parse_lines_app.
  destruct (run_lines (mkPs empty_manifest BNone) ls) as [st|]; [|reflexivity].
  cbn [parse_lines]. rewrite parse_line_blank. destruct (close_block (ps_m st) (ps_blk st)); reflexivity.
Qed.

(* ------------------------------------------------------------------ from the W model's lines to blocks *)
Lemma opt_all_cons_inv {T} (x : option T) r l :
  opt_all (x :: r) = Some l -> exists a b, x = Some a /\ opt_all r = Some b /\ l = a :: b.
Proof.
  cbn [opt_all]. destruct x as [a|]; [|discriminate]. destruct (opt_all r) as [b|]; [|discriminate].
  cbn. intros H. inversion H. now exists a, b.
Qed.

Lemma opt_all_app_inv {T} (a b : list (option T)) : forall l,
  opt_all (a ++ b) = Some l -> exists la lb, opt_all a = Some la /\ opt_all b = Some lb /\ l = la ++ lb.
Proof.
  induction a as [|x a IH]; intros l H.
  - exists [], l. cbn in *. auto.
  - cbn [app] in H. apply opt_all_cons_inv in H as [y [r [-> [Hr ->]]]].
    destruct (IH r Hr) as [la [lb [Ha [Hb ->]]]]. exists (y :: la), lb. cbn [opt_all]. rewrite Ha. auto.
Qed.

Lemma opt_concat_cons_inv {T} (x : option (list T)) r l :
  opt_concat (x :: r) = Some l -> exists a b, x = Some a /\ opt_concat r = Some b /\ l = a ++ b.
Proof.
  cbn [opt_concat]. unfold opt_app. destruct x as [a|]; [|discriminate]. destruct (opt_concat r) as [b|]; [|discriminate].
  intros H. inversion H. now exists a, b.
Qed.

Definition wbind_ok (b : str * items * nsyntax) : Prop :=
  items_ok (snd (fst b)) /\ val_syn (snd b) = true /\ name_ok (fst (fst b)) = true /\ fst (fst b) <> [].
Definition wvar_ok (p : str * items) : Prop := items_ok (snd p) /\ file_var_ok (fst p) = true.

Section Written.
Variable uw : char -> bool.

Definition bind_link (b : str * items * nsyntax) (a : str * str) : Prop :=
  fst a = fst (fst b) /\ nwrite_each uw (snd (fst b)) (snd b) = Some (snd a).
Definition var_link (syn : nsyntax) (p : str * items) (a : str * str) : Prop :=
  fst a = fst p /\ nwrite_each uw (snd p) syn = Some (snd a).

Notation no_nl_lines ls := (Forall (fun l => has_nl l = false) ls).

Lemma binds_written bl : forall ls,
  opt_all (map (w_bind uw) bl) = Some ls -> Forall wbind_ok bl ->
  exists kt kts, ls = map bind_line kt /\ Forall2 bind_rel kt kts /\ Forall2 bind_link bl kt /\ no_nl_lines ls.
Proof.
  induction bl as [|[[k its] syn] bl IH]; intros ls H Hok.
  - cbn in H. inversion H. exists [], []. repeat split; constructor.
  - cbn [map] in H. apply opt_all_cons_inv in H as [line [rest [Hl [Hr ->]]]].
    inversion Hok as [|? ? [Hi [Hs [Hk Hne]]] Hok']; subst. cbn [fst snd] in *.
    destruct (IH rest Hr Hok') as [kt [kts [-> [R [Lk Nl]]]]].
    unfold w_bind, w_variable in Hl. cbn [fst snd] in Hl.
    destruct (nwrite_each uw its syn) as [t|] eqn:E; [|discriminate]. cbn [option_map] in Hl. inversion Hl; subst line.
    destruct (nwrite_each_lexes uw its syn Hi Hs t E) as [toks L].
    destruct (lexes_lex_value_ex t toks L) as [ts Hts].
    exists ((k, t) :: kt), ((k, ts) :: kts). split; [reflexivity|]. split; [|split].
    + constructor; [|assumption]. repeat split; assumption.
    + constructor; [|assumption]. split; [reflexivity|exact E].
    + constructor; [|assumption]. apply (has_nl_bind_line k t Hk (proj1 L)).
Qed.

Lemma vars_written syn vars : val_syn syn = true -> forall ls,
  opt_all (map (fun p => w_variable uw false (fst p) (snd p) syn) vars) = Some ls -> Forall wvar_ok vars ->
  exists kt kts, ls = map var_line kt /\ Forall2 var_rel kt kts /\ Forall2 (var_link syn) vars kt /\ no_nl_lines ls.
Proof.
  intros Hs. induction vars as [|[k its] vars IH]; intros ls H Hok.
  - cbn in H. inversion H. exists [], []. repeat split; constructor.
  - cbn [map] in H. apply opt_all_cons_inv in H as [line [rest [Hl [Hr ->]]]].
    inversion Hok as [|? ? [Hi Hk] Hok']; subst. cbn [fst snd] in *.
    destruct (IH rest Hr Hok') as [kt [kts [-> [R [Lk Nl]]]]].
    unfold w_variable in Hl.
    destruct (nwrite_each uw its syn) as [t|] eqn:E; [|discriminate]. cbn [option_map app] in Hl. inversion Hl; subst line.
    destruct (nwrite_each_lexes uw its syn Hi Hs t E) as [toks L].
    destruct (lexes_lex_value_ex t toks L) as [ts Hts].
    destruct (file_var_ok_inv k Hk) as [Hkok _].
    exists ((k, t) :: kt), ((k, ts) :: kts). split; [reflexivity|]. split; [|split].
    + constructor; [|assumption]. repeat split; assumption.
    + constructor; [|assumption]. split; [reflexivity|exact E].
    + constructor; [|assumption]. apply (has_nl_var_line k t Hkok (proj1 L)).
Qed.

(* one Section of NinjaFile.write *)
Lemma section_written syn vars ls : val_syn syn = true -> w_section uw vars syn = Some ls -> Forall wvar_ok vars ->
  (vars = [] /\ ls = []) \/
  exists kt kts, ls = map var_line kt ++ [[]] /\ Forall2 var_rel kt kts /\ Forall2 (var_link syn) vars kt /\ no_nl_lines ls.
Proof.
  intros Hs H Hok. destruct vars as [|v vars]; [left; cbn in H; inversion H; auto|]. right.
  unfold w_section in H. apply opt_all_app_inv in H as [la [lb [Ha [Hb ->]]]].
  cbn in Hb. inversion Hb; subst lb.
  destruct (vars_written syn (v :: vars) Hs la Ha Hok) as [kt [kts [-> [R [Lk Nl]]]]].
  exists kt, kts. repeat split; try assumption. apply Forall_app. split; [assumption|]. constructor; [reflexivity|constructor].
Qed.

Definition wrule_ok (r : wrule) : Prop :=
  rule_name_ok (wr_name r) = true /\ items_ok (wr_command r) /\
  (forall v, wr_depfile r = Some v -> items_ok v) /\ (forall v, wr_deps r = Some v -> items_ok v) /\
  (forall v, wr_description r = Some v -> items_ok v) /\ (forall v, wr_pool r = Some v -> items_ok v).

Lemma optb_ok k o syn : name_ok k = true -> k <> [] -> val_syn syn = true -> (forall v, o = Some v -> items_ok v) ->
  Forall wbind_ok (optb k o syn).
Proof. intros Hk Hne Hs H. destruct o as [v|]; [|constructor]. constructor; [|constructor]. repeat split; auto. Qed.

Lemma flagb_ok k b : name_ok k = true -> k <> [] -> Forall wbind_ok (flagb k b).
Proof.
  intros Hk Hne. destruct b; [|constructor]. constructor; [|constructor]. repeat split; auto.
  constructor; [|constructor]. constructor; [|constructor]. constructor.
Qed.

Lemma rule_bindings_ok r : wrule_ok r -> Forall wbind_ok (rule_bindings r) /\
  Forall (fun b => is_rule_var (fst (fst b)) = true) (rule_bindings r).
Proof.
  intros [Hn [Hc [Hd [Hp [Hs Hpl]]]]]. unfold rule_bindings. split.
  - repeat (apply Forall_app; split); try (apply optb_ok; (reflexivity || discriminate || assumption));
      try (apply flagb_ok; (reflexivity || discriminate)).
    constructor; [|constructor]. repeat split; try assumption; try reflexivity; discriminate.
  - destruct (wr_depfile r), (wr_deps r), (wr_description r), (wr_generator r), (wr_pool r), (wr_restat r);
      cbn [optb flagb app]; repeat constructor.
Qed.

Lemma rule_written r ls : w_rule uw r = Some ls -> wrule_ok r ->
  exists kt kts, ls = (t_kw_rule ++ wr_name r) :: map bind_line kt ++ [[]] /\ Forall2 bind_rel kt kts /\
                 Forall2 bind_link (rule_bindings r) kt /\ no_nl_lines ls /\
                 Forall (fun b => is_rule_var (fst b) = true) kt.
Proof.
  intros H Hok. destruct (rule_bindings_ok r Hok) as [Hb Hrv]. unfold w_rule in H.
  apply opt_all_cons_inv in H as [l0 [rest [H0 [Hr ->]]]]. inversion H0; subst l0.
  apply opt_all_app_inv in Hr as [la [lb [Ha [Hlb ->]]]]. cbn in Hlb. inversion Hlb; subst lb.
  destruct (binds_written (rule_bindings r) la Ha Hb) as [kt [kts [-> [R [Lk Nl]]]]].
  exists kt, kts. split; [reflexivity|]. split; [assumption|]. split; [assumption|]. split.
  - constructor.
    + destruct Hok as [Hn _]. unfold rule_name_ok in Hn. apply andb_true_iff in Hn as [Hn _].
      change (has_nl (t_kw_rule ++ wr_name r) = false). now rewrite has_nl_app, (name_ok_no_nl _ Hn).
    + apply Forall_app. split; [assumption|]. constructor; [reflexivity|constructor].
  - clear - Lk Hrv. induction Lk as [|b a bl kt [E _] _ IH]; [constructor|].
    inversion Hrv; subst. constructor; [now rewrite E|auto].
Qed.

(* an edge whose paths are plain strings *)
Definition wbuild_ok (outs ins imp oo : list str) (rule : str) (vars : list (str * items)) : Prop :=
  all_paths_ok outs /\ outs <> [] /\ all_paths_ok ins /\ all_paths_ok imp /\ all_paths_ok oo /\
  rule_name_ok rule = true /\ Forall (fun p => items_ok (snd p) /\ name_ok (fst p) = true /\ fst p <> []) vars.

Lemma build_written outs rule ins imp oo vars ls :
  w_build uw (mkWBuild (path_items outs) rule (path_items ins) (path_items imp) (path_items oo) vars) = Some ls ->
  wbuild_ok outs ins imp oo rule vars ->
  exists kt kts, ls = (t_kw_build ++ build_text outs rule ins imp oo) :: map bind_line kt ++ [[]] /\
                 Forall2 bind_rel kt kts /\ Forall2 bind_link (map build_binding vars) kt /\ no_nl_lines ls.
Proof.
  intros H [Ho [Hne [Hi [Hm [Hoo [Hr Hv]]]]]]. unfold w_build in H. cbn [wb_vars] in H.
  rewrite w_build_line_paths in H by assumption.
  apply opt_all_cons_inv in H as [l0 [rest [H0 [Hrest ->]]]]. inversion H0; subst l0.
  apply opt_all_app_inv in Hrest as [la [lb [Ha [Hlb ->]]]]. cbn in Hlb. inversion Hlb; subst lb.
  assert (Hb : Forall wbind_ok (map build_binding vars)).
  { clear - Hv. induction Hv as [|[k its] vars [Hi [Hk Hne]] _ IH]; [constructor|]. cbn [map]. constructor; [|assumption].
    unfold build_binding. cbn [fst snd]. repeat split; try assumption. now destruct (str_eqb k t_description). }
  destruct (binds_written _ la Ha Hb) as [kt [kts [-> [R [Lk Nl]]]]].
  exists kt, kts. repeat split; try assumption. constructor.
  - unfold rule_name_ok in Hr. apply andb_true_iff in Hr as [Hr _]. now apply has_nl_build_text.
  - apply Forall_app. split; [assumption|]. constructor; [reflexivity|constructor].
Qed.
End Written.

(* ------------------------------------------------------------------ evaluation: the edge scope *)
(* an edge binding wins over the file scope (and over the rule's own binding of that name) *)
Theorem edge_shadows_file f esc file file' rb e n v :
  str_eqb n s_in = false -> str_eqb n s_out = false -> lookup_val (e_binds e) n = Some v ->
  edge_lookup (S f) esc file rb e n = Some v /\ edge_lookup (S f) esc file' rb e n = Some v.
Proof. intros H1 H2 H3. cbn [edge_lookup]. now rewrite H1, H2, H3. Qed.

Lemma in_existsb o outs : In o outs -> existsb (str_eqb o) outs = true.
Proof. intros H. apply existsb_exists. exists o. split; [assumption|apply str_eqb_refl]. Qed.

Lemma fold_add_var_rules kts : forall m, m_rules (fold_left add_var kts m) = m_rules m /\
  m_edges (fold_left add_var kts m) = m_edges m /\ m_defaults (fold_left add_var kts m) = m_defaults m.
Proof. induction kts as [|b kts IH]; intros m; [auto|]. cbn [fold_left]. destruct (IH (add_var m b)) as [A [B C]]. now rewrite A, B, C. Qed.

Section Cmd.
Variable uw : char -> bool.
Notation no_nl_lines ls := (Forall (fun l => has_nl l = false) ls).

(* the ninja_required_version line *)
Lemma version_run wf lv m : w_version uw wf = Some lv ->
  exists m', run_lines (mkPs m BNone) lv = Some (mkPs m' BNone) /\ m_rules m' = m_rules m /\ m_edges m' = m_edges m /\
             m_defaults m' = m_defaults m /\ no_nl_lines lv.
Proof.
  unfold w_version. destruct (wf_min_version wf) as [v|].
  - intros H. change (opt_all [w_variable uw false t_nrv [[NStr v]] NShell; Some []])
      with (w_section uw [(t_nrv, [[NStr v]])] NShell) in H.
    destruct (section_written uw NShell [(t_nrv, [[NStr v]])] lv eq_refl H) as [[E _]|[kt [kts [-> [R [_ Nl]]]]]]; [|discriminate|].
    + constructor; [|constructor]. split; [|reflexivity]. constructor; [|constructor]. constructor; [|constructor]. constructor.
    + rewrite (run_vars kt kts (mkPs m BNone) m eq_refl R). eexists. split; [reflexivity|].
      destruct (fold_add_var_rules kts m) as [A [B C]]. auto.
  - intros H. inversion H. exists m. repeat split; constructor.
Qed.

Lemma header_run wf m :
  run_lines (mkPs m BNone) (w_header wf) = Some (mkPs m BNone) /\
  (has_nl (wf_bfgfile wf) = false -> no_nl_lines (w_header wf)).
Proof.
  split.
  - unfold w_header. cbn [run_lines]. rewrite !parse_line_comment by reflexivity. rewrite parse_line_blank. reflexivity.
  - intros H. unfold w_header. repeat constructor. now rewrite has_nl_app, H.
Qed.

(* C02_manifest_cmd: the text NinjaFile.write produces for command_build (any outputs / inputs that are plain file
   names, console or not, with or without description; phony = false) is parsed, and the command Ninja runs for
   each output is split by sh into exactly the command words *)
Theorem manifest_cmd bfg outs ins imp oo ws console desc text o :
  has_nl bfg = false ->
  all_paths_ok outs -> all_paths_ok ins -> all_paths_ok imp -> all_paths_ok oo -> In o outs ->
  nf_write uw (w_command_build bfg outs ins imp oo ws console false desc) = Some text ->
  exists m cmd, parse_manifest text = Some m /\ command_of m o = Some cmd /\ sh_words uw cmd = Some ws.
Proof.
  intros Hbfg Ho Hi Hm Hoo Hin H.
  assert (Hne : outs <> []) by (destruct outs; [destruct Hin|discriminate]).
  set (wf := w_command_build bfg outs ins imp oo ws console false desc) in *.
  set (rname := if console then t_console_command else t_command).
  unfold nf_write in H. destruct (nf_lines uw wf) as [lines|] eqn:L; [|discriminate]. cbn [option_map] in H.
  inversion H; subst text. clear H.
  unfold nf_lines in L. cbn [wf_path wf_command wf_flags wf_other wf_rules wf_builds wf w_command_build map app] in L.
  apply opt_concat_cons_inv in L as [l0 [r0 [E0 [L ->]]]]. inversion E0; subst l0. clear E0.
  apply opt_concat_cons_inv in L as [lv [r1 [Ev [L ->]]]].
  apply opt_concat_cons_inv in L as [l2 [r2 [E2 [L ->]]]]. cbn in E2. inversion E2; subst l2. clear E2.
  apply opt_concat_cons_inv in L as [l3 [r3 [E3 [L ->]]]]. cbn in E3. inversion E3; subst l3. clear E3.
  apply opt_concat_cons_inv in L as [l4 [r4 [E4 [L ->]]]]. cbn in E4. inversion E4; subst l4. clear E4.
  apply opt_concat_cons_inv in L as [l5 [r5 [E5 [L ->]]]]. cbn in E5. inversion E5; subst l5. clear E5.
  apply opt_concat_cons_inv in L as [lr [r6 [Er [L ->]]]].
  apply opt_concat_cons_inv in L as [lb [r7 [Eb [L ->]]]].
  apply opt_concat_cons_inv in L as [ld [r8 [Ed [L ->]]]]. cbn in Ed. inversion Ed; subst ld. clear Ed.
  cbn in L. inversion L; subst r8. clear L. cbn [app]. rewrite !app_nil_r.
  (* the pieces *)
  destruct (header_run wf empty_manifest) as [Rh Nh]. specialize (Nh Hbfg).
  destruct (version_run wf lv empty_manifest Ev) as [m1 [Rv [Mr1 [Me1 [_ Nv]]]]].
  assert (Rok : wrule_ok (mkWRule rname [[NLit (var_use t_cmd)]] None None None false
                                  (if console then Some [[NStr t_console]] else None) false)).
  { unfold wrule_ok. cbn [wr_name wr_command wr_depfile wr_deps wr_description wr_pool].
    split; [unfold rname; now destruct console|].
    split; [repeat constructor|].
    split; [discriminate|]. split; [discriminate|]. split; [discriminate|].
    intros v Hv. destruct console; inversion Hv. repeat constructor. }
  destruct (rule_written uw _ lr Er Rok) as [ktr [ktsr [-> [Rr [Lr [Nr Vr]]]]]]. cbn [wr_name] in *.
  set (bvars := (t_cmd, nwords_items ws) :: match desc with Some d => [(t_description, [[NStr d]])] | None => [] end) in *.
  assert (Bok : wbuild_ok outs ins (imp ++ []) oo rname bvars).
  { repeat split; try assumption; try (rewrite app_nil_r; assumption).
    - unfold rname. now destruct console.
    - unfold bvars. constructor.
      + repeat split; try reflexivity; try discriminate. unfold nwords_items. clear. induction ws; repeat constructor. assumption.
      + destruct desc; repeat constructor; try discriminate. }
  destruct (build_written uw outs rname ins (imp ++ []) oo bvars lb Eb Bok) as [ktb [ktsb [-> [Rb [Lb Nb]]]]].
  (* the bindings *)
  unfold rule_bindings in Lr. cbn [wr_command wr_depfile wr_deps wr_description wr_generator wr_pool wr_restat optb flagb app] in Lr.
  inversion Lr as [|b1 a1 bl1 ktr' [Ea1 Wa1] Lr']; subst. destruct a1 as [k1 x1]. cbn [fst snd] in *. subst k1.
  cbn in Wa1. inversion Wa1; subst x1. clear Wa1.
  inversion Rr as [|? [k1' ts1] ? ktsr' [Ek1 [_ [_ Hl1]]] Rr']; subst. cbn [fst snd] in *. subst k1'.
  change (lex_value (var_use t_cmd)) with (Some [TV t_cmd]) in Hl1. inversion Hl1; subst ts1. clear Hl1.
  unfold bvars in Lb. cbn [map build_binding fst snd] in Lb.
  inversion Lb as [|b2 a2 bl2 ktb' [Ea2 Wa2] Lb']; subst. destruct a2 as [k2 x2]. cbn [fst snd] in *. subst k2.
  change (str_eqb t_cmd t_description) with false in Wa2. cbv iota in Wa2.
  inversion Rb as [|? [k2' ts2] ? ktsb' [Ek2 [_ [_ Hl2]]] Rb']; subst. cbn [fst snd] in *. subst k2'.
  (* running the lines *)
  pose (m2 := add_rule m1 (mkRule rname ((t_command, [TV t_cmd]) :: ktsr'))).
  pose (ed := edge_of m2 outs rname ins (imp ++ []) oo ((t_cmd, ts2) :: ktsb')).
  exists (add_edge m2 ed).
  assert (Hk1 : rule_known m1 rname = false).
  { unfold rule_known. rewrite Mr1. cbn. unfold rname. now destruct console. }
  assert (P : parse_manifest (unlines (w_header wf ++ lv ++ ((t_kw_rule ++ rname) :: map bind_line ((t_command, var_use t_cmd) :: ktr') ++ [[]])
                ++ (t_kw_build ++ build_text outs rname ins (imp ++ []) oo) :: map bind_line ((t_cmd, x2) :: ktb') ++ [[]]))
              = Some (add_edge m2 ed)).
  { rewrite parse_unlines by (repeat (apply Forall_app; split); assumption).
    rewrite run_lines_app, Rh, run_lines_app, Rv, run_lines_app.
    rewrite (run_rule_block (mkPs m1 BNone) m1 rname ((t_command, var_use t_cmd) :: ktr') ((t_command, [TV t_cmd]) :: ktsr') eq_refl); try assumption.
    - cbv iota beta. fold m2. rewrite (run_edge_block (mkPs m2 BNone) m2 outs rname ins (imp ++ []) oo ((t_cmd, x2) :: ktb') ((t_cmd, ts2) :: ktsb') eq_refl); try assumption;
        try (rewrite app_nil_r; assumption).
      + reflexivity.
      + unfold rname. now destruct console.
      + unfold rule_known, m2, add_rule. cbn [m_rules]. rewrite existsb_app. cbn. rewrite str_eqb_refl. cbn.
        now rewrite !orb_true_r.
    - unfold rname. now destruct console.
    - reflexivity. }
  destruct (nwrite_each_words uw ws x2 Wa2) as [Ex2 Hnl2].
  pose proof (value_roundtrip uw (alookup (rev []) (file_env (m_vars m2))) ws x2 Wa2) as V. rewrite Hl2 in V.
  cbn [option_map] in V. inversion V as [V1]. clear V.
  exists (join uw ws ++ []). split; [exact P|]. split; [|rewrite app_nil_r; apply join_words].
  (* the command *)
  set (mm := add_edge m2 ed).
  assert (FE : find_edge mm o = Some ed).
  { unfold find_edge, mm, add_edge. cbn [m_edges]. unfold m2 at 1, add_rule. cbn [m_edges]. rewrite Me1.
    change (m_edges empty_manifest) with (@nil edge). cbn [app find]. change (e_outs ed) with outs. now rewrite (in_existsb o outs Hin). }
  assert (FR : find_rule mm (e_rule ed) = Some (mkRule rname ((t_command, [TV t_cmd]) :: ktsr'))).
  { change (e_rule ed) with rname. unfold find_rule.
    assert (str_eqb rname s_phony = false) as -> by (unfold rname; now destruct console).
    unfold mm, add_edge, m2, add_rule. cbn [m_rules]. rewrite Mr1. change (m_rules empty_manifest) with (@nil rule).
    cbn [app find r_name]. now rewrite str_eqb_refl. }
  unfold command_of, binding_of. rewrite FE, FR. unfold lookup_fuel. cbn [r_binds length].
  cbn [edge_lookup]. change (str_eqb s_command s_in) with false. change (str_eqb s_command s_out) with false. cbv iota.
  (* bindings of the edge: cmd (and description) *)
  assert (Hb : e_binds ed = [(t_cmd, join uw ws)] \/ exists v2, e_binds ed = [(t_cmd, join uw ws); (t_description, v2)]).
  { unfold ed, edge_of. cbn [e_binds eval_edge_bindings app rev]. change (m_vars m2) with (m_vars m1). cbn [rev] in V1.
    change (m_vars m2) with (m_vars m1) in V1. rewrite V1.
    destruct desc as [d|]; cbn [map] in Lb'.
    - inversion Lb' as [|b3 a3 ? ? [Ea3 _] Lb'']; subst. inversion Lb''; subst.
      inversion Rb' as [|? [k3 ts3] ? ? [Ek3 _] Rb'']; subst. inversion Rb''; subst. cbn [fst snd] in *. subst.
      cbn [eval_edge_bindings app]. right. eexists. rewrite Ea3. reflexivity.
    - inversion Lb'; subst. inversion Rb'; subst. cbn [eval_edge_bindings]. now left. }
  assert (Lc : lookup_val (e_binds ed) s_command = None /\ lookup_val (e_binds ed) t_cmd = Some (join uw ws)).
  { destruct Hb as [-> | [v2 ->]]; split; reflexivity. }
  destruct Lc as [Lc1 Lc2].
  rewrite Lc1.
  (* bindings of the rule: command (and pool) *)
  assert (Lt : lookup_toks ((t_command, [TV t_cmd]) :: ktsr') s_command = Some [TV t_cmd]).
  { destruct console; cbn [optb] in Lr'.
    - inversion Lr' as [|b3 a3 ? ? [Ea3 _] Lr'']; subst. inversion Lr''; subst.
      inversion Rr' as [|? [k3 ts3] ? ? [Ek3 _] Rr'']; subst. inversion Rr''; subst. cbn [fst snd] in *.
      unfold lookup_toks. cbn [rev app find fst]. rewrite <- Ek3, Ea3. reflexivity.
    - inversion Lr'; subst. inversion Rr'; subst. reflexivity. }
  rewrite Lt. cbn [edge_lookup]. change (str_eqb t_cmd s_in) with false. change (str_eqb t_cmd s_out) with false. cbv iota.
  now rewrite Lc2.
Qed.
End Cmd.

(* ------------------------------------------------------------------ C02_scoping *)
Section Scoping.
Variable uw : char -> bool.
Notation no_nl_lines ls := (Forall (fun l => has_nl l = false) ls).

Lemma section_one syn k its ls m : val_syn syn = true -> w_section uw [(k, its)] syn = Some ls -> wvar_ok (k, its) ->
  exists text ts, nwrite_each uw its syn = Some text /\ lex_value text = Some ts /\
                  run_lines (mkPs m BNone) ls = Some (mkPs (add_var m (k, ts)) BNone) /\ no_nl_lines ls.
Proof.
  intros Hs H Hok.
  destruct (section_written uw syn [(k, its)] ls Hs H (Forall_cons _ Hok (Forall_nil _))) as [[E _]|[kt [kts [-> [R [Lk Nl]]]]]]; [discriminate|].
  inversion Lk as [|? [k1 x1] ? kt' [Ek Wk] Lk']; subst. inversion Lk'; subst.
  inversion R as [|? [k2 ts] ? kts' [Ek2 [_ Hl]] R']; subst. inversion R'; subst. cbn [fst snd] in *. subst.
  exists x1, ts. split; [assumption|]. split; [assumption|]. split; [|assumption].
  now rewrite (run_vars [(k2, x1)] [(k2, ts)] (mkPs m BNone) m eq_refl R).
Qed.

Lemma words_items_ok ws : items_ok (nwords_items ws).
Proof. unfold nwords_items, items_ok. induction ws; repeat constructor. assumption. Qed.

Definition s_sp_c : str := [32; 45; 99; 32].     (* " -c " *)
Definition s_sp_o : str := [32; 45; 111; 32].    (* " -o " *)

(* C02_scoping: file-level cc / global_cflags / cflags, rule cc with  command = ${cc} ${cflags} -c ${in} -o ${out},
   edge  build obj: cc src  with  cflags = ${global_cflags} t.  The parsed text gives the command
      <cc words> <flags> -c <in> -o <out>
   where sh splits <cc words> into ccw, <flags> into g ++ t (the rule-level reference sees the edge binding, the
   edge binding sees the file-level variable), <in> into [src] and <out> into [obj]. *)
Theorem scoping bfg ccw g t src obj text :
  has_nl bfg = false -> path_ok src = true -> path_ok obj = true ->
  nf_write uw (w_compile_file bfg ccw g t src obj) = Some text ->
  exists m flags,
    parse_manifest text = Some m /\
    command_of m obj = Some (join uw ccw ++ c_sp :: flags ++ s_sp_c ++ nj_in_out [src] ++ s_sp_o ++ nj_in_out [obj]) /\
    sh_words uw (join uw ccw) = Some ccw /\ sh_words uw flags = Some (g ++ t) /\
    sh_words uw (nj_in_out [src]) = Some [src] /\ sh_words uw (nj_in_out [obj]) = Some [obj].
Proof.
  intros Hbfg Hsrc Hobj H.
  set (wf := w_compile_file bfg ccw g t src obj) in *.
  unfold nf_write in H. destruct (nf_lines uw wf) as [lines|] eqn:L; [|discriminate]. cbn [option_map] in H.
  inversion H; subst text. clear H.
  unfold nf_lines in L. cbn [wf_path wf_command wf_flags wf_other wf_rules wf_builds wf w_compile_file map app] in L.
  apply opt_concat_cons_inv in L as [l0 [r0 [E0 [L ->]]]]. inversion E0; subst l0. clear E0.
  apply opt_concat_cons_inv in L as [lv [r1 [Ev [L ->]]]]. cbn in Ev. inversion Ev; subst lv. clear Ev.
  apply opt_concat_cons_inv in L as [l2 [r2 [E2 [L ->]]]]. cbn in E2. inversion E2; subst l2. clear E2.
  apply opt_concat_cons_inv in L as [l3 [r3 [E3 [L ->]]]].
  apply opt_concat_cons_inv in L as [l4 [r4 [E4 [L ->]]]].
  apply opt_concat_cons_inv in L as [l5 [r5 [E5 [L ->]]]].
  apply opt_concat_cons_inv in L as [lr [r6 [Er [L ->]]]].
  apply opt_concat_cons_inv in L as [lb [r7 [Eb [L ->]]]].
  apply opt_concat_cons_inv in L as [ld [r8 [Ed [L ->]]]]. cbn in Ed. inversion Ed; subst ld. clear Ed.
  cbn in L. inversion L; subst r8. clear L. cbn [app]. rewrite !app_nil_r.
  destruct (header_run wf empty_manifest) as [Rh Nh]. specialize (Nh Hbfg).
  (* the three file-level variables *)
  destruct (section_one NShell t_cc (nwords_items ccw) l3 empty_manifest eq_refl E3) as [x3 [ts3 [W3 [Hl3 [R3 N3]]]]].
  { split; [apply words_items_ok|reflexivity]. }
  set (m3 := add_var empty_manifest (t_cc, ts3)) in *.
  destruct (section_one NShell t_global_cflags (nwords_items g) l4 m3 eq_refl E4) as [x4 [ts4 [W4 [Hl4 [R4 N4]]]]].
  { split; [apply words_items_ok|reflexivity]. }
  set (m4 := add_var m3 (t_global_cflags, ts4)) in *.
  destruct (section_one NShell t_cflags [[NLit (var_use t_global_cflags)]] l5 m4 eq_refl E5) as [x5 [ts5 [W5 [Hl5 [R5 N5]]]]].
  { split; [repeat constructor|reflexivity]. }
  cbn in W5. inversion W5; subst x5. clear W5.
  change (lex_value (var_use t_global_cflags)) with (Some [TV t_global_cflags]) in Hl5. inversion Hl5; subst ts5. clear Hl5.
  set (m5 := add_var m4 (t_cflags, [TV t_global_cflags])) in *.
  (* the rule *)
  set (cmd_items := [[NLit (var_use t_cc)]; [NLit (var_use t_cflags)]; [NStr t_dash_c]; [NLit (var_use t_in)];
                     [NStr t_dash_o]; [NLit (var_use t_out)]]) in *.
  assert (Rok : wrule_ok (mkWRule t_cc cmd_items None None None false None false)).
  { unfold wrule_ok. cbn [wr_name wr_command wr_depfile wr_deps wr_description wr_pool].
    split; [reflexivity|]. split; [unfold cmd_items; repeat constructor|]. repeat split; discriminate. }
  destruct (rule_written uw _ lr Er Rok) as [ktr [ktsr [-> [Rr [Lr [Nr Vr]]]]]]. cbn [wr_name] in *.
  unfold rule_bindings in Lr. cbn [wr_command wr_depfile wr_deps wr_description wr_generator wr_pool wr_restat optb flagb app] in Lr.
  inversion Lr as [|b1 [k1 x1] bl1 ktr' [Ea1 Wa1] Lr']; subst. inversion Lr'; subst. cbn [fst snd] in *. subst k1.
  inversion Rr as [|? [k1' ts1] ? ktsr' [Ek1 [_ [_ Hl1]]] Rr']; subst. inversion Rr'; subst. cbn [fst snd] in *. subst k1'.
  unfold cmd_items in Wa1. vm_compute in Wa1. inversion Wa1; subst x1. clear Wa1.
  vm_compute in Hl1. inversion Hl1; subst ts1. clear Hl1.
  (* the edge *)
  set (bvars := [(t_cflags, [NLit (var_use t_global_cflags)] :: nwords_items t)]) in *.
  assert (Bok : wbuild_ok [obj] [src] [] [] t_cc bvars).
  { repeat split; try (repeat constructor; assumption); try discriminate.
    unfold bvars. constructor; [|constructor]. repeat split; try discriminate.
    constructor; [repeat constructor|apply words_items_ok]. }
  destruct (build_written uw [obj] t_cc [src] [] [] bvars lb Eb Bok) as [ktb [ktsb [-> [Rb [Lb Nb]]]]].
  unfold bvars in Lb. cbn [map build_binding fst snd] in Lb.
  inversion Lb as [|b2 [k2 x2] bl2 ktb' [Ea2 Wa2] Lb']; subst. inversion Lb'; subst. cbn [fst snd] in *. subst k2.
  change (str_eqb t_cflags t_description) with false in Wa2. cbv iota in Wa2.
  inversion Rb as [|? [k2' ts2] ? ktsb' [Ek2 [_ [_ Hl2]]] Rb']; subst. inversion Rb'; subst. cbn [fst snd] in *. subst k2'.
  (* values *)
  assert (V3' : forall e, neval e ts3 = join uw ccw).
  { intros e. pose proof (value_roundtrip uw e ccw x3 W3) as V3. rewrite Hl3 in V3. cbn [option_map] in V3. now inversion V3. }
  assert (V4' : forall e, neval e ts4 = join uw g).
  { intros e. pose proof (value_roundtrip uw e g x4 W4) as V4. rewrite Hl4 in V4. cbn [option_map] in V4. now inversion V4. }
  set (cmd_toks := [TV [99; 99]; TC 32; TV [99; 102; 108; 97; 103; 115]; TC 32; TC 45; TC 99; TC 32; TV [105; 110]; TC 32; TC 45;
                    TC 111; TC 32; TV [111; 117; 116]]) in *.
  pose (m6 := add_rule m5 (mkRule t_cc [(t_command, cmd_toks)])).
  pose (env := alookup (rev []) (file_env (m_vars m6))).
  assert (Eg : env t_global_cflags = join uw g).
  { unfold env, m6, add_rule, m5, m4, m3, add_var. cbn [m_vars fst snd app]. rewrite V4'. reflexivity. }
  pose proof (ninja_flags_words uw env t_global_cflags g t x2 eq_refl Eg Wa2) as F. rewrite Hl2 in F. cbn [option_map] in F.
  set (flags := neval env ts2) in *.
  pose (ed := edge_of m6 [obj] t_cc [src] [] [] [(t_cflags, ts2)]).
  exists (add_edge m6 ed), flags.
  assert (P : parse_manifest (unlines (w_header wf ++ l3 ++ l4 ++ l5 ++
               ((t_kw_rule ++ t_cc) :: map bind_line [(t_command, [36; 123; 99; 99; 125; 32; 36; 123; 99; 102; 108; 97; 103; 115; 125; 32; 45; 99; 32; 36; 123; 105; 110; 125; 32; 45; 111; 32; 36; 123; 111; 117; 116; 125])] ++ [[]]) ++
               (t_kw_build ++ build_text [obj] t_cc [src] [] []) :: map bind_line [(t_cflags, x2)] ++ [[]]))
              = Some (add_edge m6 ed)).
  { rewrite parse_unlines by (repeat (apply Forall_app; split); assumption).
    rewrite run_lines_app, Rh, run_lines_app, R3, run_lines_app, R4, run_lines_app, R5, run_lines_app.
    rewrite (run_rule_block (mkPs m5 BNone) m5 t_cc _ [(t_command, cmd_toks)] eq_refl); try assumption; try reflexivity.
    cbv iota beta. fold m6.
    rewrite (run_edge_block (mkPs m6 BNone) m6 [obj] t_cc [src] [] [] [(t_cflags, x2)] [(t_cflags, ts2)] eq_refl);
      try assumption; try reflexivity; try (repeat constructor; assumption); discriminate. }
  split; [exact P|]. split.
  - unfold command_of, binding_of, find_edge. unfold add_edge at 1. cbn [m_edges app find].
    change (m_edges m6) with (@nil edge). cbn [app find]. change (e_outs ed) with [obj]. cbn [existsb].
    rewrite str_eqb_refl. cbn [orb]. change (e_rule ed) with t_cc.
    change (find_rule (add_edge m6 ed) t_cc) with (Some (mkRule t_cc [(t_command, cmd_toks)])). cbv iota.
    unfold lookup_fuel. cbn [r_binds length].
    assert (Eb1 : e_binds ed = [(t_cflags, flags)]) by reflexivity.
    assert (Ecc : file_env (m_vars (add_edge m6 ed)) t_cc = join uw ccw).
    { unfold add_edge, m6, add_rule, m5, m4, m3, add_var. cbn [m_vars fst snd app]. rewrite V3'. reflexivity. }
    set (fenv := file_env (m_vars (add_edge m6 ed))) in *. rewrite <- Ecc. clearbody fenv.
    assert (Eed : ed = mkEdge [obj] t_cc [src] [] [] [(t_cflags, flags)] [(t_cflags, ts2)]) by reflexivity.
    rewrite Eed. rewrite <- (app_nil_r (nj_in_out [obj])). clearbody flags. clear. vm_compute. reflexivity.
  - split; [apply join_words|]. split; [exact F|]. split; apply in_out_words; repeat constructor.
    + destruct (path_ok_inv src Hsrc) as [_ Hne]. exact Hne.
    + destruct (path_ok_inv obj Hobj) as [_ Hne]. exact Hne.
Qed.
End Scoping.

(* ------------------------------------------------------------------ C02_parse_total_on_written *)
Record pbuild := mkPB { pb_outs : list str; pb_rule : str; pb_ins : list str; pb_imp : list str; pb_oo : list str;
                        pb_vars : list (str * items) }.
Definition to_wbuild (b : pbuild) : wbuild :=
  mkWBuild (path_items (pb_outs b)) (pb_rule b) (path_items (pb_ins b)) (path_items (pb_imp b)) (path_items (pb_oo b))
           (pb_vars b).

(* rules: well-formed, not named phony, pairwise distinct (NinjaFile.rule refuses duplicates itself) *)
Fixpoint rules_ok (known : list str) (rs : list wrule) : Prop :=
  match rs with
  | [] => True
  | r :: rest => wrule_ok r /\ str_eqb (wr_name r) s_phony = false /\
                 existsb (fun k => str_eqb k (wr_name r)) known = false /\ rules_ok (known ++ [wr_name r]) rest
  end.
(* edges: plain file names, a declared rule (NinjaFile.build refuses unknown rules itself) or phony *)
Definition pbuild_ok (names : list str) (b : pbuild) : Prop :=
  wbuild_ok (pb_outs b) (pb_ins b) (pb_imp b) (pb_oo b) (pb_rule b) (pb_vars b) /\
  str_eqb (pb_rule b) s_phony || existsb (fun k => str_eqb k (pb_rule b)) names = true.

Lemma rule_known_names m n :
  rule_known m n = str_eqb n s_phony || existsb (fun k => str_eqb k n) (map r_name (m_rules m)).
Proof. unfold rule_known. f_equal. induction (m_rules m) as [|r l IH]; cbn; [reflexivity|]. now rewrite IH. Qed.

Lemma opt_concat_app_inv {T} (a b : list (option (list T))) : forall l,
  opt_concat (a ++ b) = Some l -> exists la lb, opt_concat a = Some la /\ opt_concat b = Some lb /\ l = la ++ lb.
Proof.
  induction a as [|x a IH]; intros l H.
  - exists [], l. auto.
  - cbn [app] in H. apply opt_concat_cons_inv in H as [y [r [-> [Hr ->]]]].
    destruct (IH r Hr) as [la [lb [Ha [Hb ->]]]]. exists (y ++ la), lb. cbn [opt_concat]. rewrite Ha. unfold opt_app.
    split; [reflexivity|]. split; [assumption|]. now rewrite app_assoc.
Qed.

Section Total.
Variable uw : char -> bool.
Notation no_nl_lines ls := (Forall (fun l => has_nl l = false) ls).

Lemma section_run syn vars ls m : val_syn syn = true -> w_section uw vars syn = Some ls -> Forall wvar_ok vars ->
  exists m', run_lines (mkPs m BNone) ls = Some (mkPs m' BNone) /\ m_rules m' = m_rules m /\ no_nl_lines ls.
Proof.
  intros Hs H Hok. destruct (section_written uw syn vars ls Hs H Hok) as [[_ ->]|[kt [kts [-> [R [_ Nl]]]]]].
  - exists m. repeat split. constructor.
  - rewrite (run_vars kt kts (mkPs m BNone) m eq_refl R). eexists. split; [reflexivity|].
    destruct (fold_add_var_rules kts m) as [A _]. auto.
Qed.

Lemma rules_run rs : forall known m lr,
  opt_concat (map (w_rule uw) rs) = Some lr -> rules_ok known rs -> map r_name (m_rules m) = known ->
  exists m', run_lines (mkPs m BNone) lr = Some (mkPs m' BNone) /\
             map r_name (m_rules m') = known ++ map wr_name rs /\ no_nl_lines lr.
Proof.
  induction rs as [|r rs IH]; intros known m lr H Hok Hn.
  - cbn in H. inversion H. exists m. rewrite app_nil_r. repeat split; [assumption|constructor].
  - cbn [map] in H. apply opt_concat_cons_inv in H as [l1 [l2 [H1 [H2 ->]]]]. destruct Hok as [Hr [Hp [Hk Hrest]]].
    destruct (rule_written uw r l1 H1 Hr) as [kt [kts [-> [R [Lk [Nl Vr]]]]]].
    assert (Hcmd : has_key s_command kts = true).
    { unfold rule_bindings in Lk. cbn [app] in Lk. inversion Lk as [|? [k1 x1] ? ? [E1 _] _]; subst.
      inversion R as [|? [k2 ts] ? ? [E2 _] _]; subst. cbn [fst snd] in *. subst. cbn [has_key existsb fst]. reflexivity. }
    assert (Hkn : rule_known m (wr_name r) = false) by (rewrite rule_known_names, Hn, Hp, Hk; reflexivity).
    destruct Hr as [Hname Hr'].
    pose proof (run_rule_block (mkPs m BNone) m (wr_name r) kt kts eq_refl Hname Hkn R Vr Hcmd) as Run.
    destruct (IH (known ++ [wr_name r]) (add_rule m (mkRule (wr_name r) kts)) l2 H2 Hrest) as [m' [Run' [Nm' Nl']]].
    { unfold add_rule. cbn [m_rules]. rewrite map_app, Hn. reflexivity. }
    exists m'. split; [|split].
    + rewrite run_lines_app, Run. exact Run'.
    + rewrite Nm', <- app_assoc. reflexivity.
    + apply Forall_app. split; assumption.
Qed.

Lemma builds_run pbs : forall names m lb,
  opt_concat (map (w_build uw) (map to_wbuild pbs)) = Some lb -> Forall (pbuild_ok names) pbs ->
  map r_name (m_rules m) = names ->
  exists m', run_lines (mkPs m BNone) lb = Some (mkPs m' BNone) /\ map r_name (m_rules m') = names /\ no_nl_lines lb.
Proof.
  induction pbs as [|b pbs IH]; intros names m lb H Hok Hn.
  - cbn in H. inversion H. exists m. repeat split; [assumption|constructor].
  - cbn [map] in H. apply opt_concat_cons_inv in H as [l1 [l2 [H1 [H2 ->]]]].
    inversion Hok as [|? ? [Hb Hrule] Hok']; subst.
    unfold to_wbuild in H1.
    destruct (build_written uw _ _ _ _ _ _ l1 H1 Hb) as [kt [kts [-> [R [_ Nl]]]]].
    destruct Hb as [Ho [Hne [Hi [Hm [Hoo [Hr Hv]]]]]].
    assert (Hkn : rule_known m (pb_rule b) = true) by (now rewrite rule_known_names).
    pose proof (run_edge_block (mkPs m BNone) m _ _ _ _ _ kt kts eq_refl Ho Hne Hi Hm Hoo Hr Hkn R) as Run.
    destruct (IH (map r_name (m_rules m)) (add_edge m (edge_of m (pb_outs b) (pb_rule b) (pb_ins b) (pb_imp b) (pb_oo b) kts)) l2 H2 Hok' eq_refl)
      as [m' [Run' [Nm' Nl']]].
    exists m'. split; [|split].
    + rewrite run_lines_app, Run. exact Run'.
    + exact Nm'.
    + apply Forall_app. split; assumption.
Qed.

Lemma defaults_run wf dflt ld m : wf_defaults wf = path_items dflt -> all_paths_ok dflt -> w_defaults uw wf = Some ld ->
  exists m', run_lines (mkPs m BNone) ld = Some (mkPs m' BNone) /\ no_nl_lines ld.
Proof.
  intros Hd Hp H. unfold w_defaults in H. rewrite Hd in H. destruct dflt as [|p ps].
  - cbn in H. inversion H. exists m. split; [reflexivity|constructor].
  - change (path_items (p :: ps)) with ([NStr p] :: path_items ps) in H. cbv iota in H.
    change ([NStr p] :: path_items ps) with (path_items (p :: ps)) in H.
    rewrite nwrite_each_paths in H by auto. cbn [option_map opt_all] in H. inversion H; subst ld.
    eexists. split.
    + cbn [run_lines]. change (100 :: 101 :: 102 :: 97 :: 117 :: 108 :: 116 :: 32 :: jpaths (p :: ps)) with (t_kw_default ++ jpaths (p :: ps)). rewrite (parse_line_default (mkPs m BNone) m (p :: ps) eq_refl Hp) by discriminate. reflexivity.
    + constructor; [|constructor]. change (has_nl (t_kw_default ++ jpaths (p :: ps)) = false).
      now rewrite has_nl_app, has_nl_jpaths.
Qed.

(* the parser succeeds on every text the W model of NinjaFile.write produces for well-formed contents *)
Theorem parse_total_on_written wf pbs dflt text :
  has_nl (wf_bfgfile wf) = false ->
  Forall wvar_ok (wf_path wf) -> Forall wvar_ok (wf_command wf) -> Forall wvar_ok (wf_flags wf) ->
  Forall wvar_ok (wf_other wf) -> rules_ok [] (wf_rules wf) ->
  wf_builds wf = map to_wbuild pbs -> Forall (pbuild_ok (map wr_name (wf_rules wf))) pbs ->
  wf_defaults wf = path_items dflt -> all_paths_ok dflt ->
  nf_write uw wf = Some text -> exists m, parse_manifest text = Some m.
Proof.
  intros Hbfg Hp Hc Hf Ho Hr Hb Hbo Hd Hdo H.
  unfold nf_write in H. destruct (nf_lines uw wf) as [lines|] eqn:L; [|discriminate]. cbn [option_map] in H.
  inversion H; subst text. clear H. unfold nf_lines in L.
  apply opt_concat_cons_inv in L as [l0 [r0 [E0 [L ->]]]]. inversion E0; subst l0. clear E0.
  apply opt_concat_cons_inv in L as [lv [r1 [Ev [L ->]]]].
  apply opt_concat_cons_inv in L as [l2 [r2 [E2 [L ->]]]].
  apply opt_concat_cons_inv in L as [l3 [r3 [E3 [L ->]]]].
  apply opt_concat_cons_inv in L as [l4 [r4 [E4 [L ->]]]].
  apply opt_concat_cons_inv in L as [l5 [r5 [E5 [L ->]]]].
  apply opt_concat_app_inv in L as [lr [r6 [Er [L ->]]]].
  apply opt_concat_app_inv in L as [lb [r7 [Eb [L ->]]]].
  apply opt_concat_cons_inv in L as [ld [r8 [Ed [L ->]]]]. cbn in L. inversion L; subst r8. clear L.
  rewrite app_nil_r.
  destruct (header_run wf empty_manifest) as [Rh Nh]. specialize (Nh Hbfg).
  destruct (version_run uw wf lv empty_manifest Ev) as [m1 [R1 [M1 [_ [_ N1]]]]].
  destruct (section_run NClean _ l2 m1 eq_refl E2 Hp) as [m2 [R2 [M2 N2]]].
  destruct (section_run NShell _ l3 m2 eq_refl E3 Hc) as [m3 [R3 [M3 N3]]].
  destruct (section_run NShell _ l4 m3 eq_refl E4 Hf) as [m4 [R4 [M4 N4]]].
  destruct (section_run NShell _ l5 m4 eq_refl E5 Ho) as [m5 [R5 [M5 N5]]].
  assert (Hn5 : map r_name (m_rules m5) = []) by (rewrite M5, M4, M3, M2, M1; reflexivity).
  destruct (rules_run (wf_rules wf) [] m5 lr Er Hr Hn5) as [m6 [R6 [M6 N6]]]. cbn [app] in M6.
  rewrite Hb in Eb.
  destruct (builds_run pbs _ m6 lb Eb Hbo M6) as [m7 [R7 [M7 N7]]].
  destruct (defaults_run wf dflt ld m7 Hd Hdo Ed) as [m8 [R8 N8]].
  exists m8. rewrite parse_unlines by (repeat (apply Forall_app; split); assumption).
  rewrite run_lines_app, Rh, run_lines_app, R1, run_lines_app, R2, run_lines_app, R3, run_lines_app, R4,
    run_lines_app, R5, run_lines_app, R6, run_lines_app, R7, R8. reflexivity.
Qed.
End Total.
