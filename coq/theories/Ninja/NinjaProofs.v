From Coq Require Import ZArith Lia ZifyBool.
From BFG Require Import Base.Chars Shell.PosixQuote Shell.Sh Shell.PosixQuoteProofs Make.MakeWrite Make.MakeProofs
  Make.MakeRead Ninja.NinjaWrite Ninja.NinjaRead.
Local Open Scope N_scope.

Definition pre (s : str) (p : list ntok * str) : list ntok * str := (map TC s ++ fst p, snd p).

Lemma pre_nil p : pre [] p = p. Proof. destruct p; reflexivity. Qed.
Lemma pre_cons c s p : pre (c :: s) p = (TC c :: fst (pre s p), snd (pre s p)). Proof. reflexivity. Qed.

Lemma neval_chars env s ts : neval env (map TC s ++ ts) = s ++ neval env ts.
Proof. induction s as [|c s IH]; cbn; [reflexivity|]. now rewrite IH. Qed.

(* value mode: the $ -> $$ escaping is read back literally *)
Lemma nlex_value_dollar_esc s : forall rest,
  has_nl s = false ->
  nlex false LN (dollar_esc s ++ rest) = option_map (pre s) (nlex false LN rest).
Proof.
  induction s as [|c s IH]; intros rest Hn.
  - cbn. destruct (nlex false LN rest) as [p|]; cbn; [now rewrite pre_nil|reflexivity].
  - unfold has_nl in Hn. cbn [mem_char existsb] in Hn. apply orb_false_iff in Hn as [Hc Hs].
    rewrite N.eqb_sym in Hc. specialize (IH rest Hs).
    cbn [dollar_esc]. destruct (N.eqb c c_dollar) eqn:E.
    + apply N.eqb_eq in E; subst c. cbn [app nlex].
      change (N.eqb c_dollar c_dollar) with true. cbn [orb]. cbn iota. rewrite IH.
      destruct (nlex false LN rest); reflexivity.
    + cbn [app nlex]. rewrite E, Hc. cbn [andb]. rewrite IH. destruct (nlex false LN rest); reflexivity.
Qed.

(* path mode: $: $$ and $space are read back literally; guard: no newline and no | in the name *)
Definition path_char_ok (c : char) : bool := negb (N.eqb c c_nl || N.eqb c c_pipe).

Lemma nlex_path_esc s : forall rest,
  forallb path_char_ok s = true ->
  nlex true LN (nj_path_esc s ++ rest) = option_map (pre s) (nlex true LN rest).
Proof.
  induction s as [|c s IH]; intros rest H.
  - cbn. destruct (nlex true LN rest) as [p|]; cbn; [now rewrite pre_nil|reflexivity].
  - cbn [forallb] in H. apply andb_true_iff in H as [Hc Hs]. specialize (IH rest Hs).
    unfold path_char_ok in Hc. apply negb_true_iff in Hc. apply orb_false_iff in Hc as [Hnl Hp].
    cbn [nj_path_esc]. destruct (N.eqb c c_colon || N.eqb c c_dollar || N.eqb c c_sp) eqn:E.
    + cbn [app nlex]. change (N.eqb c_dollar c_dollar) with true. cbn iota.
      assert (N.eqb c c_dollar || N.eqb c c_sp || N.eqb c c_colon = true) as ->.
      { destruct (N.eqb c c_colon), (N.eqb c c_dollar), (N.eqb c c_sp); cbn in *; congruence. }
      rewrite IH. destruct (nlex true LN rest); reflexivity.
    + apply orb_false_iff in E as [E Esp]. apply orb_false_iff in E as [Eco Ed].
      cbn [app nlex]. rewrite Ed, Hnl, Esp, Eco, Hp. cbn [andb orb]. rewrite IH.
      destruct (nlex true LN rest); reflexivity.
Qed.

Theorem path_roundtrip env s rest :
  forallb path_char_ok s = true ->
  (rest = [] \/ exists c r, rest = c :: r /\ (N.eqb c c_sp || N.eqb c c_colon || N.eqb c c_pipe || N.eqb c c_nl = true)) ->
  match lex_path (nj_path_esc s ++ rest) with
  | Some (ts, rest') => Some (neval env ts, rest')
  | None => None
  end = Some (s, rest).
Proof.
  intros H Hr. unfold lex_path. rewrite nlex_path_esc by assumption.
  destruct Hr as [-> | [c [r [-> Hc]]]].
  - cbn. rewrite app_nil_r. now rewrite <- (app_nil_r (map TC s)), neval_chars, app_nil_r.
  - cbn [nlex].
    assert (N.eqb c c_dollar = false) as ->.
    { destruct (N.eqb c c_dollar) eqn:E; [|reflexivity]. apply N.eqb_eq in E; subst c. discriminate. }
    destruct (N.eqb c c_nl) eqn:En.
    + cbn. rewrite app_nil_r. now rewrite <- (app_nil_r (map TC s)), neval_chars, app_nil_r.
    + rewrite orb_false_r in Hc. cbn [andb]. rewrite Hc. cbn.
      rewrite app_nil_r. now rewrite <- (app_nil_r (map TC s)), neval_chars, app_nil_r.
Qed.

Section W.
Variable uw : char -> bool.

Lemma nj_escape_shell_some s x : nj_escape_str s NShell = Some x -> x = dollar_esc s /\ has_nl s = false.
Proof. unfold nj_escape_str. destruct (has_nl s); cbn; [discriminate|]. intros H. now inversion H. Qed.

Lemma nwrite_jbos_word w : nwrite_jbos uw [NStr w] NShell =
  match nj_escape_str (quote uw w) NShell with
  | Some x => Some (x, snd (quote_bit uw (BStr w)))
  | None => None
  end.
Proof.
  cbn [nwrite_jbos nwrite nshelly]. unfold quote.
  destruct (quote_bit uw (BStr w)) as [qs e]. cbn [fst snd].
  destruct (nj_escape_str qs NShell); cbn [option_map cat2]; [rewrite app_nil_r, orb_false_r|]; reflexivity.
Qed.

Lemma nwrite_each_cons w ws :
  nwrite_each uw (nwords_items (w :: ws)) NShell =
  match ws with
  | [] => option_map fst (nwrite_jbos uw [NStr w] NShell)
  | _ => match nwrite_jbos uw [NStr w] NShell, nwrite_each uw (nwords_items ws) NShell with
         | Some (t, _), Some u => Some (t ++ c_sp :: u)
         | _, _ => None
         end
  end.
Proof. destruct ws; reflexivity. Qed.

Lemma has_nl_app a b : has_nl (a ++ b) = has_nl a || has_nl b.
Proof. unfold has_nl, mem_char. apply existsb_app. Qed.

Lemma nwrite_each_words ws : forall text,
  nwrite_each uw (nwords_items ws) NShell = Some text ->
  text = dollar_esc (join uw ws) /\ has_nl (join uw ws) = false.
Proof.
  induction ws as [|w ws IH]; intros text H.
  - cbn in H. inversion H. split; reflexivity.
  - rewrite nwrite_each_cons, nwrite_jbos_word in H.
    destruct (nj_escape_str (quote uw w) NShell) as [x|] eqn:E.
    2:{ destruct ws; discriminate. }
    apply nj_escape_shell_some in E as [-> Hn].
    destruct ws as [|w2 ws'].
    + cbn in H. inversion H. split; [reflexivity|exact Hn].
    + destruct (nwrite_each uw (nwords_items (w2 :: ws')) NShell) as [u|] eqn:U; [|discriminate].
      inversion H; subst text. destruct (IH u eq_refl) as [-> Hn2].
      unfold join in *. cbn [map join_sp] in *. split.
      * rewrite dollar_esc_app. cbn [dollar_esc]. change (N.eqb c_sp c_dollar) with false. reflexivity.
      * rewrite has_nl_app, Hn. cbn [orb]. change (c_sp :: ?x) with ([c_sp] ++ x).
        change (has_nl (c_sp :: join_sp (quote uw w2 :: map (quote uw) ws')))
          with (has_nl ([c_sp] ++ join_sp (quote uw w2 :: map (quote uw) ws'))).
        rewrite has_nl_app. exact Hn2.
Qed.

Lemma skip_sp_ok s : first_ok is_mk_blank s = true -> skip_sp s = s.
Proof.
  destruct s as [|c r]; [reflexivity|]. cbn. unfold is_mk_blank.
  destruct (N.eqb c c_sp); cbn; [discriminate|reflexivity].
Qed.

(* the value Ninja gives a variable whose text was written by write_shell for plain words *)
Theorem value_roundtrip env ws text :
  nwrite_each uw (nwords_items ws) NShell = Some text ->
  option_map (neval env) (lex_value text) = Some (join uw ws).
Proof.
  intros H. apply nwrite_each_words in H as [-> Hn]. unfold lex_value.
  rewrite skip_sp_ok.
  - rewrite <- (app_nil_r (dollar_esc (join uw ws))), nlex_value_dollar_esc by assumption.
    cbn. rewrite app_nil_r. cbn. now rewrite <- (app_nil_r (map TC _)), neval_chars, app_nil_r.
  - destruct ws as [|w ws']; [reflexivity|].
    pose proof (first_ok_join uw is_mk_blank w ws') as F. rewrite quote_first_not_blank in F.
    destruct (join uw (w :: ws')) as [|c r]; [reflexivity|]. cbn [dollar_esc].
    destruct (N.eqb c c_dollar); cbn in F |- *; [reflexivity|exact F].
Qed.

Definition s_cmd : str := [99; 109; 100].   (* the variable name cmd *)

(* channel B: the generic rule  command = ${cmd}  with the edge binding  cmd = words *)
Theorem command_rule_roundtrip file ins outs ws text ts :
  nwrite_each uw (nwords_items ws) NShell = Some text ->
  lex_value text = Some ts ->
  sh_words uw (rule_command file (eval_edge_bindings file [] [(s_cmd, ts)]) ins outs [TV s_cmd]) = Some ws.
Proof.
  intros H L. pose proof (value_roundtrip (alookup (rev []) file) ws text H) as V. rewrite L in V. cbn in V.
  inversion V as [V1]. unfold rule_command. cbn [eval_edge_bindings app neval].
  unfold edge_env. cbn. rewrite app_nil_r. cbn in V1. rewrite V1. apply join_words.
Qed.
End W.

(* ---- $in / $out ---- *)
Section InOut.
Variable uw : char -> bool.

Lemma nj_sq_esc_esc s : nj_sq_esc s = esc s.
Proof. induction s as [|c s IH]; cbn; [reflexivity|]. now rewrite IH. Qed.

Lemma safe_not_bad c : nj_shell_safe c = true -> posix_bad uw c = false.
Proof.
  unfold nj_shell_safe, posix_bad, is_ascii_word, is_digit, is_upper, is_lower, mem_char, ok_punct, c_us.
  cbn [existsb]. intros H. destruct (c <? 128) eqn:L; lia.
Qed.

Lemma safe_all_not_bad s : forallb nj_shell_safe s = true -> existsb (posix_bad uw) s = false.
Proof.
  induction s as [|c s IH]; cbn; [reflexivity|]. intros H. apply andb_true_iff in H as [Hc Hs].
  now rewrite (safe_not_bad c Hc), IH.
Qed.

Lemma escape_img s inw cur rest : s <> [] ->
  exists b, lex uw false inw cur (nj_shell_escape s ++ rest) = lex uw false true (cur ++ fl b s) rest.
Proof.
  intros Hne. unfold nj_shell_escape. destruct (forallb nj_shell_safe s) eqn:F.
  - exists false. apply lex_plain; [assumption|now apply safe_all_not_bad].
  - exists true. rewrite nj_sq_esc_esc. apply naive.
Qed.

Theorem in_out_words paths :
  Forall (fun p => p <> []) paths -> sh_words uw (nj_in_out paths) = Some paths.
Proof.
  unfold sh_words, sh_lex, nj_in_out. intros H.
  assert (G : exists ws, lex uw false false [] (nj_join (map nj_shell_escape paths)) = Some (map TW ws) /\ map word_str ws = paths).
  { induction H as [|p ps Hp Hps IH]; [exists []; split; reflexivity|].
    destruct IH as [ws [IH1 IH2]]. cbn [map nj_join]. destruct ps as [|p2 ps'].
    - cbn [map]. destruct (escape_img p false [] [] Hp) as [b Hb]. rewrite app_nil_r in Hb. rewrite Hb.
      exists [fl b p]. split; [reflexivity|]. cbn. now rewrite word_str_fl.
    - cbn [map] in *. destruct (escape_img p false [] (c_sp :: nj_join (nj_shell_escape p2 :: map nj_shell_escape ps')) Hp) as [b Hb].
      rewrite Hb, lex_sep, IH1. exists (fl b p :: ws). split; [reflexivity|]. cbn. now rewrite word_str_fl, IH2. }
  destruct G as [ws [G1 G2]]. rewrite G1. clear G1. subst paths. clear H.
  induction ws as [|w ws IH]; [reflexivity|]. cbn [map words_only]. rewrite IH. reflexivity.
Qed.
End InOut.
