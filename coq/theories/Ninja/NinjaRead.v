(* R model of the Ninja manifest language on what bfg9000 emits: the EvalString lexer in value mode and in
   path mode, evaluation against scoped environments. No ninja binary exists in this sandbox: written from
   the Ninja manual and lexer.in.cc / eval_env.cc; TRUSTED (not validated against a real ninja). *)
From BFG Require Import Base.Chars.
Local Open Scope N_scope.

Inductive ntok := TC (c : char) | TV (name : str).

Definition simple_var_char (c : char) : bool := is_ascii_word c || N.eqb c c_dash.
Definition braced_var_char (c : char) : bool := simple_var_char c || N.eqb c c_dot.

Inductive lst := LN | LD | LB (acc : str) | LS (acc : str).   (* normal, after $, inside ${, inside $name *)

(* [path] = path mode: an unescaped space, colon, pipe or newline ends the string. Returns tokens and rest. *)
Fixpoint nlex (path : bool) (st : lst) (s : str) : option (list ntok * str) :=
  match s with
  | [] =>
    match st with
    | LN => Some ([], [])
    | LS acc => Some ([TV acc], [])
    | _ => None
    end
  | c :: r =>
    match st with
    | LN =>
      if N.eqb c c_dollar then nlex path LD r
      else if N.eqb c c_nl then Some ([], s)
      else if path && (N.eqb c c_sp || N.eqb c c_colon || N.eqb c c_pipe) then Some ([], s)
      else option_map (fun p => (TC c :: fst p, snd p)) (nlex path LN r)
    | LD =>
      if N.eqb c c_dollar || N.eqb c c_sp || N.eqb c c_colon
      then option_map (fun p => (TC c :: fst p, snd p)) (nlex path LN r)
      else if N.eqb c 123 then nlex path (LB []) r
      else if simple_var_char c then nlex path (LS [c]) r
      else None
    | LB acc =>
      if N.eqb c 125 then option_map (fun p => (TV acc :: fst p, snd p)) (nlex path LN r)
      else if braced_var_char c then nlex path (LB (acc ++ [c])) r
      else None
    | LS acc =>
      if simple_var_char c then nlex path (LS (acc ++ [c])) r
      else
        (* the name ended: re-read c in normal state *)
        if N.eqb c c_dollar then option_map (fun p => (TV acc :: fst p, snd p)) (nlex path LD r)
        else if N.eqb c c_nl then Some ([TV acc], s)
        else if path && (N.eqb c c_sp || N.eqb c c_colon || N.eqb c c_pipe) then Some ([TV acc], s)
        else option_map (fun p => (TV acc :: TC c :: fst p, snd p)) (nlex path LN r)
    end
  end.

Fixpoint skip_sp (s : str) : str :=
  match s with c :: r => if N.eqb c c_sp then skip_sp r else s | [] => [] end.

(* the value of  name = text  (leading blanks skipped, up to the end of the line) *)
Definition lex_value (text : str) : option (list ntok) :=
  match nlex false LN (skip_sp text) with
  | Some (ts, []) => Some ts
  | _ => None
  end.

Definition lex_path (s : str) : option (list ntok * str) := nlex true LN s.

Definition nenv := str -> str.
Fixpoint neval (env : nenv) (ts : list ntok) : str :=
  match ts with
  | [] => []
  | TC c :: r => c :: neval env r
  | TV n :: r => env n ++ neval env r
  end.

(* a list of paths separated by single spaces, each evaluated; stops at the first non-path character *)
Fixpoint lex_paths (fuel : nat) (env : nenv) (s : str) : option (list str * str) :=
  match fuel with
  | O => None
  | S f =>
    match lex_path s with
    | None => None
    | Some (ts, rest) =>
      match ts, rest with
      | [], _ => Some ([], rest)
      | _, c :: r' =>
        if N.eqb c c_sp then
          match lex_paths f env r' with
          | Some (ps, rest') => Some (neval env ts :: ps, rest')
          | None => None
          end
        else Some ([neval env ts], rest)
      | _, [] => Some ([neval env ts], [])
      end
    end
  end.

(* --- scoping: edge bindings are evaluated when the edge is parsed (in the file scope extended by the
   edge's earlier bindings); rule bindings are evaluated lazily in the edge's scope --- *)
Definition alist := list (str * str).
Definition alookup (l : alist) (fallback : nenv) : nenv :=
  fun n => match find (fun p => str_eqb (fst p) n) l with Some p => snd p | None => fallback n end.

(* evaluate the edge's bindings in order *)
Fixpoint eval_edge_bindings (file : nenv) (done : alist) (bs : list (str * list ntok)) : alist :=
  match bs with
  | [] => done
  | (n, ts) :: r => eval_edge_bindings file (done ++ [(n, neval (alookup (rev done) file) ts)]) r
  end.

(* lookup from a rule binding: edge bindings, then in/out, then (non-recursively) the file scope *)
Definition edge_env (file : nenv) (edge : alist) (ins outs : str) : nenv :=
  fun n => if str_eqb n [105; 110] then ins else if str_eqb n [111; 117; 116] then outs
           else alookup (rev edge) file n.

Definition rule_command (file : nenv) (edge : alist) (ins outs : str) (command : list ntok) : str :=
  neval (edge_env file edge ins outs) command.

(* --- $in / $out: Ninja's own shell escaping (util.cc GetShellEscapedString) --- *)
Definition nj_shell_safe (c : char) : bool :=
  is_ascii_word c || mem_char c [43; 45; 46; 47].     (* A-Za-z0-9_ + - . / *)

Fixpoint nj_sq_esc (s : str) : str :=
  match s with
  | [] => []
  | c :: r => if N.eqb c c_sq then c_sq :: c_bs :: c_sq :: c_sq :: nj_sq_esc r else c :: nj_sq_esc r
  end.

Definition nj_shell_escape (s : str) : str :=
  if forallb nj_shell_safe s then s else c_sq :: nj_sq_esc s ++ [c_sq].

Fixpoint nj_join (l : list str) : str :=
  match l with [] => [] | [x] => x | x :: r => x ++ c_sp :: nj_join r end.

(* the expansion of $in / $out for a list of paths *)
Definition nj_in_out (paths : list str) : str := nj_join (map nj_shell_escape paths).
