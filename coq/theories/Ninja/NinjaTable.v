(* Dispatch entries for the Ninja models. *)
From BFG Require Import Base.Chars Base.Sx Shell.PosixQuote Make.MakeWrite Ninja.NinjaWrite Ninja.NinjaRead Ninja.NinjaManifest Ninja.NinjaFileWrite.
From Coq Require Import String.
Local Open Scope N_scope.

Definition cls_of (x : sx) : char -> bool := fun c => mem_char c (un_str x).
Definition un_nsyntax (x : sx) : nsyntax :=
  match un_N x with 0 => NOutput | 1 => NInput | 2 => NShell | _ => NClean end.
(* frag encoding as in MakeTable: [0 s] literal, [1 s] shell_literal, [2 s] str, [3 [[islit s]..]] path *)
Definition un_nfrag (x : sx) : nfrag :=
  match un_N (nth_sx 0 x) with
  | 0 => NLit (un_str (nth_sx 1 x))
  | 1 => NShLit (un_str (nth_sx 1 x))
  | 2 => NStr (un_str (nth_sx 1 x))
  | _ => NPath (List.map (fun b => (un_bool (nth_sx 0 b), un_str (nth_sx 1 b))) (un_list (nth_sx 1 x)))
  end.
Definition un_njbos (x : sx) : list nfrag := List.map un_nfrag (un_list x).
Definition un_nitems (x : sx) : list (list nfrag) := List.map un_njbos (un_list x).
Definition un_env (x : sx) : nenv :=
  fun n => match find (fun p => str_eqb (un_str (nth_sx 0 p)) n) (un_list x) with
           | Some p => un_str (nth_sx 1 p)
           | None => []
           end.
Definition sx_ntok (t : ntok) : sx := match t with TC c => L [A 0; A c] | TV n => L [A 1; sx_str n] end.
Definition un_ntok (x : sx) : ntok :=
  if N.eqb (un_N (nth_sx 0 x)) 0 then TC (un_N (nth_sx 1 x)) else TV (un_str (nth_sx 1 x)).
Definition un_alist (x : sx) : alist := List.map (fun p => (un_str (nth_sx 0 p), un_str (nth_sx 1 p))) (un_list x).

Definition sx_toks (ts : toks) : sx := sx_list sx_ntok ts.
Definition sx_alist (l : alist) : sx := sx_list (sx_pair sx_str sx_str) l.
Definition sx_tbinds (l : list (str * toks)) : sx := sx_list (sx_pair sx_str sx_toks) l.
Definition sx_rule (r : rule) : sx := L [sx_str (r_name r); sx_tbinds (r_binds r)].
Definition sx_edge (e : edge) : sx :=
  L [sx_list sx_str (e_outs e); sx_str (e_rule e); sx_list sx_str (e_ins e); sx_list sx_str (e_implicit e);
     sx_list sx_str (e_order e); sx_alist (e_binds e); sx_tbinds (e_raw e); sx_bool (refs_earlier [] (e_raw e))].
Definition sx_manifest (m : manifest) : sx :=
  L [sx_alist (m_vars m); sx_list sx_rule (m_rules m); sx_list sx_edge (m_edges m); sx_list sx_str (m_defaults m)].
(* [text, file-scope override] : the parsed manifest with its file scope replaced (the harness substitutes the
   tool variables by the argv recorder); an override that is not a list (A 0) keeps the parsed scope *)
Definition un_manifest (a : sx) : option manifest :=
  match parse_manifest (un_str (nth_sx 0 a)) with
  | Some m => Some (match nth_sx 1 a with A _ => m | L _ => with_vars m (un_alist (nth_sx 1 a)) end)
  | None => None
  end.
Definition sx_edge_values (m : manifest) (e : edge) : sx :=
  L [sx_opt sx_str (edge_binding true m e s_command); sx_opt sx_str (edge_binding false m e s_depfile);
     sx_opt sx_str (edge_binding true m e s_deps); sx_opt sx_str (edge_binding true m e s_description)].

(* NinjaFile contents: [bfgfile, opt min_version, path vars, command vars, flags vars, other vars, rules, builds,
   defaults]; vars = [[name items]..]; rule = [name command opt-depfile opt-deps opt-description generator opt-pool
   restat]; build = [outs rule ins implicit order_only vars] *)
Definition un_vars (x : sx) : list (str * items) :=
  List.map (fun p => (un_str (nth_sx 0 p), un_nitems (nth_sx 1 p))) (un_list x).
Definition un_wrule (x : sx) : wrule :=
  mkWRule (un_str (nth_sx 0 x)) (un_nitems (nth_sx 1 x)) (un_opt un_nitems (nth_sx 2 x)) (un_opt un_nitems (nth_sx 3 x))
          (un_opt un_nitems (nth_sx 4 x)) (un_bool (nth_sx 5 x)) (un_opt un_nitems (nth_sx 6 x)) (un_bool (nth_sx 7 x)).
Definition un_wbuild (x : sx) : wbuild :=
  mkWBuild (un_nitems (nth_sx 0 x)) (un_str (nth_sx 1 x)) (un_nitems (nth_sx 2 x)) (un_nitems (nth_sx 3 x))
           (un_nitems (nth_sx 4 x)) (un_vars (nth_sx 5 x)).
Definition un_wfile (x : sx) : wfile :=
  mkWFile (un_str (nth_sx 0 x)) (un_opt un_str (nth_sx 1 x)) (un_vars (nth_sx 2 x)) (un_vars (nth_sx 3 x))
          (un_vars (nth_sx 4 x)) (un_vars (nth_sx 5 x)) (List.map un_wrule (un_list (nth_sx 6 x)))
          (List.map un_wbuild (un_list (nth_sx 7 x))) (un_nitems (nth_sx 8 x)).

Definition table : list (string * (sx -> sx)) := [
  ("ninja.escape_str", fun a => sx_opt sx_str (nj_escape_str (un_str (nth_sx 0 a)) (un_nsyntax (nth_sx 1 a))));
  ("ninja.write", fun a => sx_opt (sx_pair sx_str sx_bool)
      (nwrite_jbos (cls_of (nth_sx 0 a)) (un_njbos (nth_sx 1 a)) (un_nsyntax (nth_sx 2 a))));
  ("ninja.write_each", fun a => sx_opt sx_str
      (nwrite_each (cls_of (nth_sx 0 a)) (un_nitems (nth_sx 1 a)) (un_nsyntax (nth_sx 2 a))));
  (* value of  name = text  evaluated in env *)
  ("ninja.eval_value", fun a => sx_opt sx_str
      (option_map (neval (un_env (nth_sx 0 a))) (lex_value (un_str (nth_sx 1 a)))));
  (* the paths at the start of a text, evaluated, and the rest *)
  ("ninja.lex_paths", fun a => sx_opt (sx_pair (sx_list sx_str) sx_str)
      (lex_paths 4000 (un_env (nth_sx 0 a)) (un_str (nth_sx 1 a))));
  ("ninja.in_out", fun a => sx_str (nj_in_out (un_strs (nth_sx 0 a))));
  (* command of an edge: [file_env, edge_bindings_raw [[name text]..], in, out, rule_command_text] *)
  ("ninja.command", fun a =>
      let file := un_env (nth_sx 0 a) in
      let raw := List.map (fun p => (un_str (nth_sx 0 p), lex_value (un_str (nth_sx 1 p)))) (un_list (nth_sx 1 a)) in
      if forallb (fun p => match snd p with Some _ => true | None => false end) raw then
        let bs := List.map (fun p => (fst p, match snd p with Some t => t | None => [] end)) raw in
        match lex_value (un_str (nth_sx 4 a)) with
        | Some cmd => L [sx_str (rule_command file (eval_edge_bindings file [] bs) (un_str (nth_sx 2 a)) (un_str (nth_sx 3 a)) cmd)]
        | None => L []
        end
      else L []);
  (* ---- the manifest structure parser and edge evaluation (NinjaManifest.v) ---- *)
  (* ---- NinjaFile.write and writer.py on an empty file (NinjaFileWrite.v) ---- *)
  ("ninja.file_write", fun a => sx_opt sx_str (nf_write (cls_of (nth_sx 0 a)) (un_wfile (nth_sx 1 a))));
  (* [uw, bfgfile, outs, ins, implicit, order_only, command, console, phony, opt description] *)
  ("ninja.command_build", fun a => sx_opt sx_str (nf_write (cls_of (nth_sx 0 a))
      (w_command_build (un_str (nth_sx 1 a)) (un_strs (nth_sx 2 a)) (un_strs (nth_sx 3 a)) (un_strs (nth_sx 4 a))
         (un_strs (nth_sx 5 a)) (un_strs (nth_sx 6 a)) (un_bool (nth_sx 7 a)) (un_bool (nth_sx 8 a))
         (un_opt un_str (nth_sx 9 a)))));
  (* [uw, bfgfile, cc words, global flags, target flags, src, obj] *)
  ("ninja.compile_file", fun a => sx_opt sx_str (nf_write (cls_of (nth_sx 0 a))
      (w_compile_file (un_str (nth_sx 1 a)) (un_strs (nth_sx 2 a)) (un_strs (nth_sx 3 a)) (un_strs (nth_sx 4 a))
         (un_str (nth_sx 5 a)) (un_str (nth_sx 6 a)))));
  ("ninja.lex_value", fun a => sx_opt sx_toks (lex_value (un_str (nth_sx 0 a))));
  ("ninja.split_lines", fun a => sx_list sx_str (split_lines (un_str (nth_sx 0 a))));
  ("ninja.parse_manifest", fun a => sx_opt sx_manifest (parse_manifest (un_str (nth_sx 0 a))));
  (* [text, override, output] *)
  ("ninja.command_of", fun a => sx_opt sx_str
      (match un_manifest a with Some m => command_of m (un_str (nth_sx 2 a)) | None => None end));
  (* [text, override, output, key, escaped] *)
  ("ninja.binding_of", fun a => sx_opt sx_str
      (match un_manifest a with
       | Some m => binding_of (un_bool (nth_sx 4 a)) m (un_str (nth_sx 2 a)) (un_str (nth_sx 3 a))
       | None => None end));
  (* [text, override] : command / depfile / deps / description of every edge, in order *)
  ("ninja.edges", fun a => sx_opt (fun m => sx_list (sx_edge_values m) (m_edges m)) (un_manifest a))
]%string.
