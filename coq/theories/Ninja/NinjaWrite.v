(* W model of bfg9000/backends/ninja/syntax.py: Writer.escape_str, Writer.write, write_each/write_shell. *)
From BFG Require Import Base.Chars Shell.PosixQuote Make.MakeWrite.
Local Open Scope N_scope.

Inductive nsyntax := NOutput | NInput | NShell | NClean.

(* re.sub(r'([:$ ])', r'$\1', s) *)
Fixpoint nj_path_esc (s : str) : str :=
  match s with
  | [] => []
  | c :: r => if N.eqb c c_colon || N.eqb c c_dollar || N.eqb c c_sp
              then c_dollar :: c :: nj_path_esc r else c :: nj_path_esc r
  end.

Definition nj_escape_str (s : str) (syn : nsyntax) : option str :=
  if has_nl s then None else
  Some match syn with
       | NOutput | NInput => nj_path_esc s
       | NShell | NClean => dollar_esc s
       end.

Inductive nfrag :=
| NLit (s : str) | NShLit (s : str) | NStr (s : str) | NPath (bits : list (bool * str)).

Section Write.
Variable uw : char -> bool.

Definition nshelly (syn : nsyntax) : bool := match syn with NShell => true | _ => false end.

Fixpoint nwrite_path_bits (syn : nsyntax) (bits : list (bool * str)) : option (str * bool) :=
  match bits with
  | [] => Some ([], false)
  | (true, t) :: r => cat2 (Some (t, true)) (nwrite_path_bits syn r)
  | (false, t) :: r =>
    let (q, e) := if nshelly syn then inner_quote_info uw t else (t, false) in
    match nj_escape_str q syn with
    | Some x => cat2 (Some (x, e)) (nwrite_path_bits syn r)
    | None => None
    end
  end.

Definition nwrite (f : nfrag) (syn : nsyntax) : option (str * bool) :=
  match f with
  | NLit s => Some (s, true)
  | NShLit s => option_map (fun x => (x, true)) (nj_escape_str s syn)
  | NStr s =>
    let (q, e) := if nshelly syn then quote_bit uw (BStr s) else (s, false) in
    option_map (fun x => (x, e)) (nj_escape_str q syn)
  | NPath bits =>
    match nwrite_path_bits syn bits with
    | Some (t, e) => Some (if nshelly syn && e then wrap_quotes t else t, e)
    | None => None
    end
  end.

Fixpoint nwrite_jbos (l : list nfrag) (syn : nsyntax) : option (str * bool) :=
  match l with
  | [] => Some ([], false)
  | x :: r => cat2 (nwrite x syn) (nwrite_jbos r syn)
  end.

Fixpoint nwrite_each (items : list (list nfrag)) (syn : nsyntax) : option str :=
  match items with
  | [] => Some []
  | [x] => option_map fst (nwrite_jbos x syn)
  | x :: r =>
    match nwrite_jbos x syn, nwrite_each r syn with
    | Some (t, _), Some u => Some (t ++ c_sp :: u)
    | _, _ => None
    end
  end.
End Write.

Definition nwords_items (ws : list str) : list (list nfrag) := map (fun w => [NStr w]) ws.
