(* Glue C05 <- C04: the injectivity hypothesis of emit_distinct_accepted (no false rejection by the duplicate
   check of Makefile.rule / NinjaFile.build) discharged for the escapings the two backends really use as the key
   of a target:  Makefile._target_str = Writer.write(name, Syntax.target)  and
   NinjaFile._output_str = Writer.write(name, Syntax.output),  on plain strings
   (Make/MakeWrite.v escape_str ... SynTarget, Ninja/NinjaWrite.v nj_escape_str ... NOutput).

   Ninja: the escaping is injective on every string.
   Make:  dollar doubling is injective on every string, the backslash escaping on every string that does not begin
          with a backslash (the alternative  ^~  of the regular expression makes  ~x  and  \~x  collide); the guard
          is stated, and the complement has a witness of a false rejection.  Path objects never contain a backslash
          (the Path constructor rewrites it to a separator). *)
From BFG Require Import Base.Chars Path.Within Path.WithinProofs.
From BFG Require Import Make.MakeWrite Make.MakeRead Make.MakeNames Make.MakeNamesProofs Ninja.NinjaWrite.
From Coq Require Import List NArith Bool.
Import ListNotations.
Local Open Scope N_scope.

(* ---- the duplicate check with an escaping that is injective on the names that occur *)
Lemma nodup_map_inj_on {T U} (f : T -> U) l :
  (forall x y, In x l -> In y l -> f x = f y -> x = y) -> NoDup l -> NoDup (map f l).
Proof.
  induction l as [|x l IH]; intros Inj H; cbn; [constructor|].
  inversion H as [|? ? Hx Hn]; subst. constructor.
  - intro Hi. apply in_map_iff in Hi. destruct Hi as (y & E & Hy). apply Hx.
    rewrite (Inj x y); [exact Hy|now left|now right|now symmetry].
  - apply IH; [|exact Hn]. intros a b Ha Hb. apply Inj; now right.
Qed.

Theorem emit_distinct_accepted_on {T} (esc : T -> str) mk (steps : list (list T)) :
  (forall x y, In x (concat steps) -> In y (concat steps) -> esc x = esc y -> x = y) ->
  NoDup (concat steps) -> Forall (fun s => s <> []) steps ->
  emit_paths esc mk steps = EOk (map (map esc) steps).
Proof.
  intros Inj ND NE. unfold emit_paths, emit. apply emit_go_complete.
  - rewrite <- concat_map. apply nodup_map_inj_on; assumption.
  - intros k _ [].
  - apply Forall_forall. intros s Hs. apply in_map_iff in Hs. destruct Hs as (s0 & <- & Hs0).
    rewrite Forall_forall in NE. specialize (NE _ Hs0). destruct s0; [congruence|discriminate].
Qed.

(* NinjaFile.build accepts a build statement without outputs; no non-emptiness hypothesis there *)
Lemma emit_go_complete_ninja seen steps :
  NoDup (concat steps) -> (forall k, In k (concat steps) -> ~ In k seen) -> emit_go false seen steps = EOk steps.
Proof.
  revert seen; induction steps as [|s r IH]; intros seen ND Fr; [reflexivity|].
  cbn [concat] in *.
  assert (NDs : NoDup s) by (eapply nodup_app_l; eauto).
  assert (NDr : NoDup (concat r)) by (eapply nodup_app_r; eauto).
  destruct (add_keys_complete seen s NDs) as [seen' A].
  { intros k Hk. apply Fr. apply in_or_app. now left. }
  assert (G : emit_go false seen' r = EOk r).
  { apply IH; [exact NDr|]. intros k Hk Hs. apply add_keys_ok in A. destruct A as (_ & _ & Iff).
    apply Iff in Hs. destruct Hs as [Hs|Hs].
    - eapply NoDup_app_disjoint; eauto.
    - apply (Fr k); [apply in_or_app; now right|assumption]. }
  cbn [emit_go]. destruct s; rewrite A, G; reflexivity.
Qed.

Theorem emit_distinct_accepted_ninja_on {T} (esc : T -> str) (steps : list (list T)) :
  (forall x y, In x (concat steps) -> In y (concat steps) -> esc x = esc y -> x = y) ->
  NoDup (concat steps) -> emit_paths esc false steps = EOk (map (map esc) steps).
Proof.
  intros Inj ND. unfold emit_paths, emit. apply emit_go_complete_ninja.
  - rewrite <- concat_map. apply nodup_map_inj_on; assumption.
  - intros k _ [].
Qed.

(* ---- Make: the key of a target *)
Definition make_target_esc (us : char -> bool) (s : str) : str := bs_esc_top (target_special us) (dollar_esc s).

(* it is what Writer.escape_str / Writer.write write for a plain string in target syntax (a line feed raises) *)
Lemma make_target_esc_is_escape_str us s :
  has_nl s = false -> escape_str us s SynTarget = Some (make_target_esc us s).
Proof. intros H. unfold escape_str. rewrite H. reflexivity. Qed.

Lemma make_target_esc_is_write uw us s m :
  has_nl s = false -> write uw us (MStr s) SynTarget m = Some (make_target_esc us s, false).
Proof. intros H. cbn. rewrite (make_target_esc_is_escape_str us s H). reflexivity. Qed.

Lemma target_special_bs us : target_special us c_bs = false.
Proof. reflexivity. Qed.

Lemma hd_not_bs_dollar s : hd_not_bs (dollar_esc s) = hd_not_bs s.
Proof.
  destruct s as [|c r]; [reflexivity|]. cbn [dollar_esc]. destruct (N.eqb c c_dollar) eqn:E; [|reflexivity].
  apply N.eqb_eq in E. subst c. reflexivity.
Qed.

Theorem make_target_esc_injective us a b :
  hd_not_bs a = true -> hd_not_bs b = true -> make_target_esc us a = make_target_esc us b -> a = b.
Proof.
  intros Ha Hb E. apply dollar_esc_injective.
  apply (bs_esc_top_injective (target_special us)); [apply target_special_bs| | |exact E];
    rewrite hd_not_bs_dollar; assumption.
Qed.

Theorem make_distinct_accepted us (steps : list (list str)) :
  Forall (fun n => hd_not_bs n = true) (concat steps) ->
  NoDup (concat steps) -> Forall (fun s => s <> []) steps ->
  emit_paths (make_target_esc us) true steps = EOk (map (map (make_target_esc us)) steps).
Proof.
  intros G. apply emit_distinct_accepted_on. rewrite Forall_forall in G.
  intros x y Hx Hy. apply make_target_esc_injective; auto.
Qed.

(* ---- Ninja: the key of an output *)
Lemma nj_path_esc_is_escape_str s : has_nl s = false -> nj_escape_str s NOutput = Some (nj_path_esc s).
Proof. intros H. unfold nj_escape_str. rewrite H. reflexivity. Qed.

Lemma nj_path_esc_is_write uw s :
  has_nl s = false -> nwrite uw (NStr s) NOutput = Some (nj_path_esc s, false).
Proof. intros H. cbn. rewrite (nj_path_esc_is_escape_str s H). reflexivity. Qed.

Definition nj_special (c : char) : bool := N.eqb c c_colon || N.eqb c c_dollar || N.eqb c c_sp.

Theorem nj_path_esc_injective a : forall b, nj_path_esc a = nj_path_esc b -> a = b.
Proof.
  induction a as [|c a IH]; intros [|d b] E; cbn [nj_path_esc] in E.
  - reflexivity.
  - destruct (N.eqb d c_colon || N.eqb d c_dollar || N.eqb d c_sp); discriminate.
  - destruct (N.eqb c c_colon || N.eqb c c_dollar || N.eqb c c_sp); discriminate.
  - fold (nj_special c) in E. fold (nj_special d) in E.
    destruct (nj_special c) eqn:Ec; destruct (nj_special d) eqn:Ed.
    + inversion E. f_equal. now apply IH.
    + inversion E as [[H1 H2]]. subst d. discriminate Ed.
    + inversion E as [[H1 H2]]. subst c. discriminate Ec.
    + inversion E. f_equal. now apply IH.
Qed.

Theorem ninja_distinct_accepted (steps : list (list str)) :
  NoDup (concat steps) -> emit_paths nj_path_esc false steps = EOk (map (map nj_path_esc) steps).
Proof.
  apply emit_distinct_accepted_ninja_on. intros x y _ _. apply nj_path_esc_injective.
Qed.
