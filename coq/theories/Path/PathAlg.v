(* Model of bfg9000/platforms/basepath.py (BasePath), platforms/posix.py / windows.py (localisation)
   and path.py (commonprefix, uniquetrees).  Definitions only; proofs are in PathAlgProofs*.v.

   A Python path object is  (root, suffix : str, directory, destdir)  with  suffix = drive + normpath.
   The model keeps the three pieces of the suffix the constructor computes:
       p_drive   - what ntpath.splitdrive returned (with backslashes replaced),
       p_slashes - the number of leading slashes posixpath.normpath kept (0, 1 or 2),
       p_comps   - the normalised components,
   and [suffix_str] renders the Python string.  Python equality compares the rendered string, so the model
   equality that mirrors __eq__ is [path_eqb], not Leibniz equality.

   Modelling decisions (all validated by the correspondence run, see harness/c12.py):
   * The constructor first replaces every backslash by a slash ([unbs]).  Python does this piecewise
     (ntpath.splitdrive treats both separators alike, the drive gets .replace, __normpath replaces in the rest).
   * os.path.expanduser is outside the model: strings whose first character is a tilde are outside the domain.
   * ntpath.splitdrive / ntpath.isabs are those of CPython 3.12; posixpath.normpath is the documented algorithm.
   * ValueError (and KeyError of from_json) are [None]. *)
From Coq Require Import String.
From BFG Require Import Base.Chars.
From Coq Require Import List NArith Bool Arith.
Import ListNotations.

(* ------------------------------------------------------------------------------------------ roots *)
Inductive root :=
  | Srcdir | Builddir | Absolute
  | Prefix | ExecPrefix | Bindir | Libdir | Includedir | Datadir | Mandir.

Definition root_value (r : root) : N :=
  match r with
  | Srcdir => 1 | Builddir => 2 | Absolute => 3
  | Prefix => 1 | ExecPrefix => 2 | Bindir => 3 | Libdir => 4 | Includedir => 5 | Datadir => 6 | Mandir => 7
  end%N.

(* Root members are False for isinstance(root, Root) exactly when they are install roots *)
Definition is_install (r : root) : bool :=
  match r with Srcdir | Builddir | Absolute => false | _ => true end.

(* a unique index, used only for equality tests and the wire format *)
Definition root_index (r : root) : N :=
  match r with
  | Srcdir => 0 | Builddir => 1 | Absolute => 2
  | Prefix => 3 | ExecPrefix => 4 | Bindir => 5 | Libdir => 6 | Includedir => 7 | Datadir => 8 | Mandir => 9
  end%N.

Definition root_eqb (a b : root) : bool := N.eqb (root_index a) (root_index b).

Definition all_roots : list root :=
  [Srcdir; Builddir; Absolute; Prefix; ExecPrefix; Bindir; Libdir; Includedir; Datadir; Mandir].

Definition root_name (r : root) : str :=
  match r with
  | Srcdir => STR "srcdir" | Builddir => STR "builddir" | Absolute => STR "absolute"
  | Prefix => STR "prefix" | ExecPrefix => STR "exec_prefix" | Bindir => STR "bindir" | Libdir => STR "libdir"
  | Includedir => STR "includedir" | Datadir => STR "datadir" | Mandir => STR "mandir"
  end.

(* Root[name] / InstallRoot[name]; an unknown name is a KeyError *)
Definition root_of_name (n : str) : option root :=
  find (fun r => str_eqb (root_name r) n) all_roots.

(* ------------------------------------------------------------------------------------------ strings *)
Definition is_slash (c : char) : bool := N.eqb c c_slash.
Definition is_nil {T} (l : list T) : bool := match l with [] => true | _ => false end.

(* s.replace(backslash, slash) *)
Definition unbs (s : str) : str := map (fun c => if N.eqb c c_bs then c_slash else c) s.
(* exchange the two separators *)
Definition swap_seps (s : str) : str :=
  map (fun c => if N.eqb c c_bs then c_slash else if N.eqb c c_slash then c_bs else c) s.

(* str.split(sep): always at least one piece *)
Fixpoint split_on (sep : char) (s : str) : list str :=
  match s with
  | [] => [[]]
  | c :: s' =>
      if N.eqb c sep then [] :: split_on sep s'
      else match split_on sep s' with
           | [] => [[c]]
           | x :: r => (c :: x) :: r
           end
  end.

(* sep.join(pieces) *)
Fixpoint join_on (sep : char) (cs : list str) : str :=
  match cs with
  | [] => []
  | [c] => c
  | c :: r => c ++ sep :: join_on sep r
  end.

Definition dot : str := [c_dot].
Definition dotdot : str := [c_dot; c_dot].

(* ------------------------------------------------------------------------------------------ posixpath *)
(* the component loop of posixpath.normpath; [acc] is new_comps reversed *)
Fixpoint norm_go (abs : bool) (acc : list str) (cs : list str) : list str :=
  match cs with
  | [] => rev acc
  | c :: cs' =>
      if str_eqb c [] || str_eqb c dot then norm_go abs acc cs'
      else if negb (str_eqb c dotdot)
              || (negb abs && is_nil acc)
              || (match acc with a :: _ => str_eqb a dotdot | [] => false end)
           then norm_go abs (c :: acc) cs'
           else norm_go abs (tl acc) cs'
  end.

(* one or two initial slashes are kept, three or more collapse to one *)
Definition initial_slashes (u : str) : nat :=
  match u with
  | a :: r =>
      if is_slash a then
        match r with
        | b :: r2 =>
            if is_slash b then
              match r2 with
              | c :: _ => if is_slash c then 1 else 2
              | [] => 2
              end
            else 1
        | [] => 1
        end
      else 0
  | [] => 0
  end.

(* posixpath.normpath as (number of leading slashes, components); the string is [render] of it,
   with the empty rendering standing for Python's '.' (BasePath.__normpath maps '.' to '' anyway) *)
Definition posix_normpath (u : str) : nat * list str :=
  let k := initial_slashes u in
  (k, norm_go (Nat.ltb 0 k) [] (split_on c_slash u)).

Definition render (k : nat) (cs : list str) : str := repeat c_slash k ++ join_on c_slash cs.

Definition posix_basename (s : str) : str := last (split_on c_slash s) [].

Fixpoint drop_until_slash (r : str) : str :=
  match r with
  | [] => []
  | c :: r' => if is_slash c then r else drop_until_slash r'
  end.
Fixpoint drop_slashes (r : str) : str :=
  match r with
  | c :: r' => if is_slash c then drop_slashes r' else r
  | [] => []
  end.
(* head = p[:rfind('/')+1]; if head and head != '/'*len(head): head = head.rstrip('/') *)
Definition posix_dirname (s : str) : str :=
  let h := drop_until_slash (rev s) in
  if forallb is_slash h then rev h else rev (drop_slashes h).

Definition ends_with_slash (a : str) : bool :=
  match rev a with c :: _ => is_slash c | [] => false end.

(* posixpath.join(a, b) *)
Definition posix_join (a b : str) : str :=
  match b with
  | c :: _ => if is_slash c then b
              else if is_nil a || ends_with_slash a then a ++ b else a ++ c_slash :: b
  | [] => if is_nil a || ends_with_slash a then a else a ++ [c_slash]
  end.

(* genericpath._splitext on the file-name part: the last dot, unless only dots precede it *)
Fixpoint all_dots (s : str) : bool :=
  match s with [] => true | c :: r => N.eqb c c_dot && all_dots r end.
(* [splitext_name pre t]: pre = reversed characters before t *)
Fixpoint last_dot_split (t : str) : option (str * str) :=
  match t with
  | [] => None
  | c :: r =>
      match last_dot_split r with
      | Some (a, b) => Some (c :: a, b)
      | None => if N.eqb c c_dot then Some ([], t) else None
      end
  end.
Definition splitext_name (t : str) : str * str :=
  match last_dot_split t with
  | Some (a, b) => if all_dots a then (t, []) else (a, b)
  | None => (t, [])
  end.
(* posixpath.splitext on a whole string: only the part after the last slash matters *)
Definition posix_splitext (s : str) : str * str :=
  let h := rev (drop_until_slash (rev s)) in
  let t := posix_basename s in
  let (a, b) := splitext_name t in (h ++ a, b).

(* ------------------------------------------------------------------------------------------ ntpath (3.12) *)
Fixpoint find_slash (u : str) : option nat :=
  match u with
  | [] => None
  | c :: r => if is_slash c then Some 0 else option_map S (find_slash r)
  end.
(* u.find('/', start) *)
Fixpoint find_slash_from (start : nat) (u : str) : option nat :=
  match start with
  | O => find_slash u
  | S n => match u with
           | [] => None
           | _ :: r => option_map S (find_slash_from n r)
           end
  end.

Definition is_ch (lo up : N) (c : char) : bool := N.eqb c lo || N.eqb c up.
(* normp[:8].upper() == '\\?\UNC\' (on the slash-normalised string) *)
Definition unc_prefix (u : str) : bool :=
  match u with
  | a :: b :: c :: d :: e :: f :: g :: h :: _ =>
      is_slash a && is_slash b && N.eqb c c_qm && is_slash d
      && is_ch 117 85 e && is_ch 110 78 f && is_ch 99 67 g && is_slash h
  | _ => false
  end.

(* ntpath.splitdrive on a slash-normalised string *)
Definition splitdrive (u : str) : str * str :=
  match u with
  | a :: b :: _ =>
      if is_slash a then
        if is_slash b then
          let start := if unc_prefix u then 8 else 2 in
          match find_slash_from start u with
          | None => (u, [])
          | Some i =>
              match find_slash_from (S i) u with
              | None => (u, [])
              | Some j => (firstn j u, skipn j u)
              end
          end
        else ([], u)
      else if N.eqb b c_colon then (firstn 2 u, skipn 2 u)
      else ([], u)
  | _ => ([], u)
  end.

(* ntpath.isabs *)
Definition nt_isabs (u : str) : bool :=
  match u with
  | a :: r =>
      if is_slash a then true
      else match r with
           | b :: c :: _ => N.eqb b c_colon && is_slash c
           | _ => false
           end
  | [] => false
  end.

(* ------------------------------------------------------------------------------------------ BasePath *)
Definition is_special (c : str) : bool := str_eqb c [] || str_eqb c dot || str_eqb c dotdot.

(* BasePath.__normpath on an already slash-normalised string: (slashes, components, isdir) *)
Definition bfg_normpath (u : str) : nat * list str * bool :=
  let (k, cs) := posix_normpath u in (k, cs, is_special (posix_basename u)).

(* BasePath.__normalize: (drive, slashes, components, isdir), None = ValueError *)
Definition normalize (s : str) : option (str * nat * list str * bool) :=
  let u := unbs s in
  let (d, rest) := splitdrive u in
  if negb (is_nil d) && negb (nt_isabs rest) then None
  else let '(k, cs, isd) := bfg_normpath rest in Some (d, k, cs, isd).

(* BasePath.__join *)
Definition bfg_join (a b : str) : nat * list str * bool := bfg_normpath (unbs (posix_join a b)).

Record path := mkPath {
  p_root : root;
  p_drive : str;
  p_slashes : nat;
  p_comps : list str;
  p_dir : bool;
  p_destdir : bool
}.

Definition suffix_str (p : path) : str := p_drive p ++ render (p_slashes p) (p_comps p).

Inductive rootarg := RRoot (r : root) | RPath (b : path).

Definition truthy (o : option bool) : bool := match o with Some true => true | _ => false end.

Definition head_is_dotdot (cs : list str) : bool :=
  match cs with c :: _ => str_eqb c dotdot | [] => false end.

(* the tail of __init__: containment check and field assignment *)
Definition mk_finish (rt : root) (d : str) (k : nat) (cs : list str) (isd : bool)
                     (destdir directory : option bool) : option path :=
  if Nat.eqb k 0 && head_is_dotdot cs then None
  else Some {| p_root := rt; p_drive := d; p_slashes := k; p_comps := cs;
               p_dir := truthy directory || isd || (Nat.eqb k 0 && is_nil cs);
               p_destdir := truthy destdir |}.

(* BasePath.__init__(path, root, destdir, directory) *)
Definition mk (s : str) (r : rootarg) (destdir directory : option bool) : option path :=
  if truthy destdir
     && (match r with RRoot x => negb (is_install x) && negb (root_eqb x Absolute) | RPath _ => false end)
  then None
  else match normalize s with
       | None => None
       | Some (d, k, cs, isd) =>
           if (match directory with Some false => true | _ => false end) && isd then None
           else if Nat.ltb 0 k then mk_finish Absolute d k cs isd destdir directory
           else match r with
                | RRoot x => if root_eqb x Absolute then None
                             else mk_finish x d k cs isd destdir directory
                | RPath b =>
                    let '(k', cs', isd') := bfg_join (suffix_str b) (unbs s) in
                    mk_finish (p_root b) d k' cs' isd'
                              (match destdir with None => Some (p_destdir b) | _ => destdir end) directory
                end
       end.

(* __eq__ (same class): root, suffix and destdir; the directory flag is not compared *)
Definition path_eqb (p q : path) : bool :=
  root_eqb (p_root p) (p_root q) && str_eqb (suffix_str p) (suffix_str q)
  && Bool.eqb (p_destdir p) (p_destdir q).
(* __hash__ = hash(suffix): the model exposes the hashed value *)
Definition path_hash (p : path) : str := suffix_str p.

Definition as_directory (p : path) : option path :=
  if p_dir p then Some p
  else mk (suffix_str p) (RRoot (p_root p)) (Some (p_destdir p)) (Some true).

Definition parent (p : path) : option path :=
  if is_nil (suffix_str p) then None
  else mk (posix_dirname (suffix_str p)) (RRoot (p_root p)) (Some (p_destdir p)) (Some true).

Definition basename (p : path) : str := posix_basename (suffix_str p).

Definition append (p : path) (s : str) : option path :=
  match normalize s with
  | None => None
  | Some (d, k, cs, isd) =>
      let np := if Nat.ltb 0 k then render k cs
                else let pth := render k cs in
                     let '(k', cs', _) := bfg_join (suffix_str p) (if is_nil pth then dot else pth) in
                     render k' cs' in
      mk (d ++ np) (RRoot (p_root p)) (Some (p_destdir p)) (Some isd)
  end.

Definition ext (p : path) : str := snd (posix_splitext (suffix_str p)).

Definition addext (p : path) (e : str) : option path :=
  mk (suffix_str p ++ e) (RRoot (p_root p)) (Some (p_destdir p)) (Some (p_dir p)).

Definition stripext (p : path) (replace : option str) : option path :=
  mk (fst (posix_splitext (suffix_str p)) ++ match replace with Some r => r | None => [] end)
     (RRoot (p_root p)) (Some (p_destdir p)) (Some (p_dir p)).

Definition splitleaf (p : path) : option (path * str) :=
  match parent p with Some q => Some (q, basename p) | None => None end.

Definition split (p : path) : list str :=
  if is_nil (suffix_str p) then [] else split_on c_slash (suffix_str p).

Inductive flavour := Posix | Windows.
Definition localize (fl : flavour) (s : str) : str :=
  match fl with
  | Posix => s
  | Windows => map (fun c => if N.eqb c c_slash then c_bs else c) s
  end.

Fixpoint common_len (a b : list str) : nat :=
  match a, b with
  | x :: a', y :: b' => if str_eqb x y then S (common_len a' b') else 0
  | _, _ => 0
  end.

(* the non-empty components of abspath(x); the working directory is a common prefix of both
   arguments of relpath and cancels, so the model takes it to be the root directory *)
Definition rel_comps (x : str) : list str := snd (posix_normpath (c_slash :: x)).

(* posixpath.relpath(a, b) for non-empty a, b *)
Definition posix_relpath (a b : str) : str :=
  let sl := rel_comps b in
  let pl := rel_comps a in
  let i := common_len sl pl in
  let rel := repeat dotdot (length sl - i) ++ skipn i pl in
  if is_nil rel then dot else join_on c_slash rel.

Definition or_dot (s : str) : str := if is_nil s then dot else s.

Definition relpath (fl : flavour) (p start : path) (prefix : str) (loc : bool) : option str :=
  let l := fun s => if loc then localize fl s else s in
  if root_eqb (p_root p) Absolute then Some (l (suffix_str p))
  else if negb (root_eqb (p_root p) (p_root start)) then None
  else let rel := posix_relpath (or_dot (suffix_str p)) (or_dot (suffix_str start)) in
       if negb (is_nil prefix) && str_eqb rel dot then Some prefix
       else Some (l (posix_join prefix rel)).

(* tools/copy_file.py Symlink.transform_input: the link target of a symbolic-link copy is the input relative to the
   directory of the link; None = the ValueError branch (no parent, or different roots: the input path is handed over
   as it is) *)
Definition symlink_target (fl : flavour) (input output : path) : option str :=
  match parent output with
  | Some d => relpath fl input d [] true          (* localize=True is relpath's default *)
  | None => None
  end.

Definition reroot (p : path) (r : root) : option path :=
  mk (suffix_str p) (RRoot r) (Some (p_destdir p)) (Some (p_dir p)).

Definition to_json (p : path) : str * str * bool :=
  let s := suffix_str p in
  let s' := if p_dir p && negb (ends_with_slash s)
            then (if is_nil s then dot ++ [c_slash] else s ++ [c_slash]) else s in
  (s', root_name (p_root p), p_destdir p).

Definition from_json (j : str * str * bool) : option path :=
  let '(s, n, dd) := j in
  match root_of_name n with
  | None => None
  | Some r => mk s (RRoot r) (Some dd) None
  end.

Definition has_slash (s : str) : bool := existsb is_slash s.

(* realize with string-valued variables: [vars r = None] is a variable whose value is None;
   [destdirvar = None] means DestDir.destdir is not in the dictionary *)
Definition realize (fl : flavour) (vars : root -> option str) (destdirvar : option str)
                   (executable variable_sep loc : bool) (p : path) : str :=
  let l := fun s => if loc then localize fl s else s in
  let abs := root_eqb (p_root p) Absolute in
  let vsep := if abs then false else variable_sep in
  let r0 := if abs then None else vars (p_root p) in
  let sfx := suffix_str p in
  let r1 := match r0 with
            | None => if executable && negb (has_slash sfx) then Some dot else None
            | Some _ => r0
            end in
  let r2 := if p_destdir p
            then match destdirvar with
                 | Some d => Some (match r1 with None => d | Some r => d ++ r end)
                 | None => r1
                 end
            else r1 in
  match r2 with
  | None => l (or_dot sfx)
  | Some r => if is_nil sfx then l r
              else l r ++ l ((if vsep then [c_slash] else []) ++ sfx)
  end.

(* string(variables) where variables may map roots to other paths (env.base_dirs / install_dirs);
   no DESTDIR variable.  The loop is bounded by the number of roots. *)
Inductive value := VNone | VStr (s : str) | VPath (q : path).

Fixpoint string_go (fuel : nat) (fl : flavour) (vars : root -> value) (p : path) (acc : str) : option str :=
  match fuel with
  | O => None
  | S n =>
      let sfx := suffix_str p in
      if root_eqb (p_root p) Absolute then Some (localize fl (or_dot sfx) ++ acc)
      else match vars (p_root p) with
           | VNone => Some (localize fl (or_dot sfx) ++ acc)
           | VStr r => if is_nil sfx then Some (localize fl r ++ acc)
                       else Some (localize fl r ++ localize fl (c_slash :: sfx) ++ acc)
           | VPath q => if is_nil sfx then string_go n fl vars q acc
                        else string_go n fl vars q (localize fl (c_slash :: sfx) ++ acc)
           end
  end.
Definition path_string (fl : flavour) (vars : root -> value) (p : path) : option str :=
  string_go 12 fl vars p [].

(* ------------------------------------------------------------------------------------------ path.py *)
Fixpoint str_cmp (a b : str) : comparison :=
  match a, b with
  | [], [] => Eq
  | [], _ :: _ => Lt
  | _ :: _, [] => Gt
  | x :: a', y :: b' => match N.compare x y with Eq => str_cmp a' b' | c => c end
  end.
Fixpoint strs_cmp (a b : list str) : comparison :=
  match a, b with
  | [], [] => Eq
  | [], _ :: _ => Lt
  | _ :: _, [] => Gt
  | x :: a', y :: b' => match str_cmp x y with Eq => strs_cmp a' b' | c => c end
  end.
Definition strs_leb (a b : list str) : bool := match strs_cmp a b with Gt => false | _ => true end.
Definition strs_eqb (a b : list str) : bool := match strs_cmp a b with Eq => true | _ => false end.

(* min(...) / max(...) of a non-empty list of component lists (first extremal element) *)
Fixpoint list_min (x : list str) (l : list (list str)) : list str :=
  match l with
  | [] => x
  | y :: l' => list_min (match strs_cmp y x with Lt => y | _ => x end) l'
  end.
Fixpoint list_max (x : list str) (l : list (list str)) : list str :=
  match l with
  | [] => x
  | y :: l' => list_max (match strs_cmp y x with Gt => y | _ => x end) l'
  end.

(* the enumerate loop: (common prefix, ran to the end of lo); None = IndexError on hi[i] *)
Fixpoint cp_loop (lo hi : list str) : option (list str * bool) :=
  match lo with
  | [] => Some ([], true)
  | a :: lo' =>
      match hi with
      | [] => None
      | b :: hi' =>
          if str_eqb a b
          then match cp_loop lo' hi' with Some (c, f) => Some (a :: c, f) | None => None end
          else Some ([], false)
      end
  end.

(* outer None = an exception escapes; Some None = returns None *)
Definition commonprefix (ps : list path) : option (option path) :=
  match ps with
  | [] => Some None
  | p0 :: rest =>
      if existsb (fun p => negb (root_eqb (p_root p) (p_root p0))) ps then Some None
      else let lo := list_min (split p0) (map split rest) in
           let hi := list_max (split p0) (map split rest) in
           match cp_loop lo hi with
           | None => None
           | Some (c, full) =>
               let dirflag := if full then negb (strs_eqb lo hi) else true in
               match mk (join_on c_slash c) (RRoot (p_root p0)) None (Some dirflag) with
               | Some r => Some (Some r)
               | None => None
               end
           end
  end.

Definition key := (N * list str)%type.
Definition key_of (p : path) : key := (root_value (p_root p), split p).
Definition key_leb (a b : key) : bool :=
  match N.compare (fst a) (fst b) with
  | Lt => true
  | Gt => false
  | Eq => strs_leb (snd a) (snd b)
  end.

(* list.sort(key=...) is stable; so is this insertion sort *)
Fixpoint insert_key (x : path * key) (l : list (path * key)) : list (path * key) :=
  match l with
  | [] => [x]
  | y :: l' => if key_leb (snd x) (snd y) then x :: l else y :: insert_key x l'
  end.
Fixpoint sort_keys (l : list (path * key)) : list (path * key) :=
  match l with
  | [] => []
  | x :: l' => insert_key x (sort_keys l')
  end.

(* ischild(a, b): all zipped pairs equal (the root value is the first element of both) *)
Fixpoint zip_all_eq (a b : list str) : bool :=
  match a, b with
  | x :: a', y :: b' => str_eqb x y && zip_all_eq a' b'
  | _, _ => true
  end.
Definition ischild (a b : key) : bool := N.eqb (fst a) (fst b) && zip_all_eq (snd a) (snd b).

Fixpoint ut_scan (last : key) (l : list (path * key)) : list path :=
  match l with
  | [] => []
  | (p, k) :: l' => if ischild last k then ut_scan last l' else p :: ut_scan k l'
  end.

Definition uniquetrees (ps : list path) : list path :=
  match sort_keys (map (fun p => (p, key_of p)) ps) with
  | [] => []
  | (p, k) :: l => p :: ut_scan k l
  end.
