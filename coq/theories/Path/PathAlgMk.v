(* Proofs about the path model, part 2: the constructor - normal form, separator symmetry, containment. *)
From Coq Require Import String List NArith Bool Arith Lia.
From BFG Require Import Base.Chars Path.PathAlg Path.PathAlgProofs.
Import ListNotations.

Lemma splitdrive_app u : fst (splitdrive u) ++ snd (splitdrive u) = u.
Proof.
  unfold splitdrive. destruct u as [|a [|b u']]; try reflexivity.
  destruct (is_slash a).
  - destruct (is_slash b); [|reflexivity].
    destruct (find_slash_from _ _) as [i|]; [|apply app_nil_r].
    destruct (find_slash_from _ _) as [j|]; [|apply app_nil_r].
    apply firstn_skipn.
  - destruct (N.eqb b c_colon); [|reflexivity]. apply firstn_skipn.
Qed.

Lemma splitdrive_nil u : fst (splitdrive u) = [] -> snd (splitdrive u) = u.
Proof. intros H. rewrite <- (splitdrive_app u) at 2. now rewrite H. Qed.

Lemma split_clean u : ~ In c_bs u ->
  Forall (fun c => ~ In c_slash c /\ ~ In c_bs c) (split_on c_slash u).
Proof.
  intros H. rewrite <- (unbs_id u H). apply split_unbs_clean.
Qed.

Lemma posix_normpath_normal u k cs :
  ~ In c_bs u -> posix_normpath u = (k, cs) -> (k = 0 -> head_is_dotdot cs = false) -> normal cs.
Proof.
  unfold posix_normpath. intros Hu E Hh. inversion E as [[Ek Ec]]. clear E.
  destruct (initial_slashes u) as [|k'] eqn:Ei.
  - cbn in Ec. subst. cbn in Hh. apply normcomps_normal_rel; [now apply split_clean|auto].
  - subst. cbn. apply normcomps_normal_abs. now apply split_clean.
Qed.

Lemma mk_finish_some rt d k cs isd dd dir p :
  mk_finish rt d k cs isd dd dir = Some p ->
  (k = 0 -> head_is_dotdot cs = false) /\
  p = {| p_root := rt; p_drive := d; p_slashes := k; p_comps := cs;
         p_dir := truthy dir || isd || (Nat.eqb k 0 && is_nil cs); p_destdir := truthy dd |}.
Proof.
  unfold mk_finish. destruct (Nat.eqb k 0 && head_is_dotdot cs) eqn:E; [discriminate|].
  intros H. inversion H. split; [|reflexivity].
  intros ->. cbn in E. exact E.
Qed.

Definition dd_inherit (dd : option bool) (b : path) : option bool :=
  match dd with None => Some (p_destdir b) | _ => dd end.

Lemma mk_some s r dd dir p : mk s r dd dir = Some p ->
  exists d k cs isd, normalize s = Some (d, k, cs, isd) /\
    ((0 < k /\ mk_finish Absolute d k cs isd dd dir = Some p)
     \/ (k = 0 /\ exists x, r = RRoot x /\ root_eqb x Absolute = false /\ mk_finish x d 0 cs isd dd dir = Some p)
     \/ (k = 0 /\ exists b k' cs' isd', r = RPath b /\ bfg_join (suffix_str b) (unbs s) = (k', cs', isd') /\
                  mk_finish (p_root b) d k' cs' isd' (dd_inherit dd b) dir = Some p)).
Proof.
  unfold mk. destruct (truthy dd && _); [discriminate|].
  destruct (normalize s) as [[[[d k] cs] isd]|]; [|discriminate].
  destruct (_ && isd); [discriminate|].
  intros H. exists d, k, cs, isd. split; [reflexivity|].
  destruct (Nat.ltb 0 k) eqn:Ek.
  - left. apply Nat.ltb_lt in Ek. auto.
  - apply Nat.ltb_ge in Ek. assert (k = 0) by lia. subst k. right.
    destruct r as [x|b].
    + left. split; [reflexivity|]. exists x. destruct (root_eqb x Absolute); [discriminate|]. auto.
    + right. split; [reflexivity|].
      destruct (bfg_join (suffix_str b) (unbs s)) as [[k' cs'] isd'] eqn:Ej.
      exists b, k', cs', isd'. auto.
Qed.

Lemma normalize_some s d k cs isd : normalize s = Some (d, k, cs, isd) ->
  posix_normpath (snd (splitdrive (unbs s))) = (k, cs) /\ d = fst (splitdrive (unbs s)) /\
  ~ In c_bs (snd (splitdrive (unbs s))).
Proof.
  unfold normalize. destruct (splitdrive (unbs s)) as [d0 rest] eqn:Es.
  destruct (_ && _); [discriminate|].
  unfold bfg_normpath. destruct (posix_normpath rest) as [k0 cs0] eqn:En.
  intros H. inversion H; subst. cbn. repeat split; auto.
  intros Hin. apply (unbs_no_bs s). rewrite <- (splitdrive_app (unbs s)), Es. cbn.
  apply in_or_app. now right.
Qed.

Lemma bfg_join_some a b k cs isd : bfg_join a b = (k, cs, isd) ->
  posix_normpath (unbs (posix_join a b)) = (k, cs).
Proof.
  unfold bfg_join, bfg_normpath. destruct (posix_normpath _) as [k0 cs0]. intros H. now inversion H.
Qed.

(* T1: whatever the string, root, flags: the stored components are normal *)
Theorem mk_normal s r dd dir p : mk s r dd dir = Some p -> normal (p_comps p).
Proof.
  intros H. apply mk_some in H. destruct H as (d & k & cs & isd & Hn & H).
  apply normalize_some in Hn. destruct Hn as (Hn & _ & Hbs).
  destruct H as [[Hk H]|[[Hk (x & _ & _ & H)]|[Hk (b & k' & cs' & isd' & _ & Hj & H)]]];
    apply mk_finish_some in H; destruct H as [Hh ->]; cbn [p_comps].
  - eapply posix_normpath_normal; eauto.
  - subst k. eapply posix_normpath_normal; eauto.
  - apply bfg_join_some in Hj. exact (posix_normpath_normal _ _ _ (unbs_no_bs _) Hj Hh).
Qed.

(* T3: the two separators are interchangeable *)
Theorem mk_sep_agnostic s r dd dir : mk (swap_seps s) r dd dir = mk s r dd dir.
Proof. unfold mk, normalize. rewrite unbs_swap. reflexivity. Qed.

Theorem append_sep_agnostic p s : append p (swap_seps s) = append p s.
Proof. unfold append, normalize. rewrite unbs_swap. reflexivity. Qed.

(* both separators split *)
Definition split_seps (s : str) : list str := split_on c_slash (unbs s).

(* T2a: a relative path accepted under a plain root never steps above the root *)
Theorem mk_confined_root s x dd dir p :
  mk s (RRoot x) dd dir = Some p -> p_root p <> Absolute -> p_drive p = [] ->
  escapes 0 (split_seps s) = false.
Proof.
  intros H Hr Hd. apply mk_some in H. destruct H as (d & k & cs & isd & Hn & H).
  apply normalize_some in Hn. destruct Hn as (Hn & Hdr & _).
  destruct H as [[Hk H]|[[Hk (x' & _ & _ & H)]|[Hk (b & k' & cs' & isd' & Hb & _)]]].
  - apply mk_finish_some in H. destruct H as [_ ->]. cbn in Hr. congruence.
  - apply mk_finish_some in H. destruct H as [Hh ->]. cbn in Hd. subst d.
    apply splitdrive_nil in Hd. rewrite Hd in Hn.
    unfold posix_normpath in Hn. inversion Hn as [[Hi Hc]]. subst k. rewrite Hi in Hc. cbn in Hc.
    unfold split_seps. rewrite <- check_is_escapes. unfold normcomps. rewrite Hc. auto.
  - discriminate.
Qed.

(* T2b: conversely every relative string that steps above the root is rejected *)
Theorem mk_rejects_escape s x dd dir :
  fst (splitdrive (unbs s)) = [] -> initial_slashes (unbs s) = 0 ->
  escapes 0 (split_seps s) = true -> mk s (RRoot x) dd dir = None.
Proof.
  intros Hd Hi He. unfold mk. destruct (truthy dd && _); [reflexivity|].
  unfold normalize. assert (Hr := splitdrive_nil _ Hd).
  destruct (splitdrive (unbs s)) as [d rest]. cbn in Hd, Hr. subst d rest. cbn [is_nil negb andb].
  unfold bfg_normpath, posix_normpath. rewrite Hi. cbn [Nat.ltb Nat.leb].
  destruct (_ && _); [reflexivity|].
  destruct (root_eqb x Absolute); [reflexivity|].
  unfold mk_finish. cbn [Nat.eqb andb].
  fold (normcomps false (split_on c_slash (unbs s))). rewrite check_is_escapes.
  unfold split_seps in He. rewrite He. reflexivity.
Qed.
