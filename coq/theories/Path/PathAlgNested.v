(* Proofs about the path model, part 4: containment when the root argument is itself a path (nested roots). *)
From Coq Require Import String List NArith Bool Arith Lia.
From BFG Require Import Base.Chars Path.PathAlg Path.PathAlgProofs Path.PathAlgMk Path.PathAlgRt.
Import ListNotations.

(* a drive-less relative base path with normal components *)
Definition relbase (b : path) : Prop := p_drive b = [] /\ p_slashes b = 0 /\ normal (p_comps b).

Lemma initial_slashes_0 u : initial_slashes u = 0 -> u = [] \/ exists x r, u = x :: r /\ is_slash x = false.
Proof.
  destruct u as [|x r]; [now left|]. right. exists x, r. split; [reflexivity|].
  cbn in H. destruct (is_slash x); [|reflexivity].
  destruct r as [|y r2]; [discriminate|]. destruct (is_slash y); [|discriminate].
  destruct r2 as [|z r3]; [discriminate|]. destruct (is_slash z); discriminate.
Qed.

Lemma join_cons_shape c cs : normal (c :: cs) ->
  exists x r, join_on c_slash (c :: cs) = x :: r /\ is_slash x = false.
Proof.
  intros H. inversion H as [|? ? Hc _]; subst.
  destruct (normalc_cons c Hc) as (x & c' & -> & Hx).
  destruct cs; cbn; eauto.
Qed.

Lemma nested_join b u : relbase b -> ~ In c_bs u -> initial_slashes u = 0 ->
  bfg_join (suffix_str b) u =
  (0, normcomps false (p_comps b ++ split_on c_slash u), is_special (posix_basename (unbs (posix_join (suffix_str b) u)))).
Proof.
  intros (Hd & Hk & Hn) Hbs Hi. unfold suffix_str. rewrite Hd, Hk. cbn [app].
  change (render 0 (p_comps b)) with (join_on c_slash (p_comps b)).
  unfold bfg_join, bfg_normpath, posix_normpath.
  destruct (p_comps b) as [|c cs] eqn:Ec.
  - (* empty base: join returns its second argument *)
    assert (Ej : posix_join (join_on c_slash []) u = u).
    { cbn [join_on]. destruct (initial_slashes_0 u Hi) as [->|(x & r & -> & Hx)]; [reflexivity|].
      cbn. rewrite Hx. reflexivity. }
    rewrite Ej, (unbs_id u Hbs), Hi. reflexivity.
  - destruct (join_cons_shape c cs Hn) as (x & r & Ex & Hx).
    assert (Hes : ends_with_slash (join_on c_slash (c :: cs)) = false)
      by (apply (ends_with_slash_render 0 (c :: cs)); [discriminate|exact Hn]).
    assert (Ej : posix_join (join_on c_slash (c :: cs)) u = join_on c_slash (c :: cs) ++ c_slash :: u).
    { unfold posix_join. rewrite Hes, Ex. cbn [is_nil orb].
      destruct (initial_slashes_0 u Hi) as [->|(y & r' & -> & Hy)]; [reflexivity|]. rewrite Hy. reflexivity. }
    rewrite Ej.
    assert (Hb2 : ~ In c_bs (join_on c_slash (c :: cs) ++ c_slash :: u)).
    { intros Hin. apply in_app_or in Hin. destruct Hin as [Hin|[Hin|Hin]].
      - now apply (join_no_bs (c :: cs) Hn).
      - discriminate Hin.
      - now apply Hbs. }
    rewrite (unbs_id _ Hb2).
    assert (Hi2 : initial_slashes (join_on c_slash (c :: cs) ++ c_slash :: u) = 0).
    { rewrite Ex. cbn. rewrite Hx. reflexivity. }
    rewrite Hi2. cbn [Nat.ltb Nat.leb].
    rewrite split_on_app, split_join; [reflexivity|discriminate|now apply normal_noslash].
Qed.

(* T2c: with a base path as root and a relative string, the constructor rejects exactly when the walk over the
   string, started at the depth of the base path, steps above the ultimate root *)
Theorem mk_nested_confined b s dd :
  relbase b -> fst (splitdrive (unbs s)) = [] -> initial_slashes (unbs s) = 0 ->
  (mk s (RPath b) dd None = None <-> escapes (length (p_comps b)) (split_seps s) = true).
Proof.
  intros Hb Hd Hi. unfold mk. rewrite andb_false_r.
  unfold normalize. assert (Hr := splitdrive_nil _ Hd).
  destruct (splitdrive (unbs s)) as [d rest]. cbn in Hd, Hr. subst d rest. cbn [is_nil negb andb].
  unfold bfg_normpath at 1. unfold posix_normpath at 1. rewrite Hi. cbn [Nat.ltb Nat.leb andb].
  rewrite (nested_join b (unbs s) Hb (unbs_no_bs s) Hi).
  unfold mk_finish. cbn [Nat.eqb andb].
  destruct Hb as (_ & _ & Hn).
  rewrite (check_is_escapes_from (p_comps b) (split_on c_slash (unbs s)) (normal_good _ Hn)).
  unfold split_seps. destruct (escapes _ _); split; intros H; try reflexivity; discriminate.
Qed.
