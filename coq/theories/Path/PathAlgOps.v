(* Proofs about the path model, part 8: the operations on well-formed paths - parent / basename / append,
   relpath / append, stripext / addext, splitleaf, realize. *)
From Coq Require Import String List NArith Bool Arith Lia.
From BFG Require Import Base.Chars Path.PathAlg Path.PathAlgProofs Path.PathAlgMk Path.PathAlgRt Path.PathAlgNested
                        Path.PathAlgWf.
Import ListNotations.

(* ------------------------------------------------------------------------------------------ more on the normpath loop *)
Lemma cnorm_all_good abs k nm g : Forall goodc g -> cnorm abs k nm g = (k, rev g ++ nm).
Proof. intros H. rewrite <- (app_nil_r g) at 1. now rewrite cnorm_push. Qed.

Lemma cnorm_dotdot abs k nm rest :
  cnorm abs k nm (dotdot :: rest) =
  match nm with
  | [] => if abs then cnorm abs k [] rest else cnorm abs (S k) [] rest
  | _ :: nm' => cnorm abs k nm' rest
  end.
Proof. reflexivity. Qed.

(* pardirs pop what is there ... *)
Lemma cnorm_pops abs n : forall k nm rest, n <= length nm ->
  cnorm abs k nm (repeat dotdot n ++ rest) = cnorm abs k (skipn n nm) rest.
Proof.
  induction n as [|n IH]; intros k nm rest H; [reflexivity|].
  destruct nm as [|a nm]; [cbn in H; lia|].
  cbn [repeat app]. rewrite cnorm_dotdot. cbn [skipn]. apply IH. cbn in H. lia.
Qed.

(* ... and accumulate in front of a relative path once nothing is left *)
Lemma cnorm_pardirs n : forall k rest,
  cnorm false k [] (repeat dotdot n ++ rest) = cnorm false (k + n) [] rest.
Proof.
  induction n as [|n IH]; intros k rest; [now rewrite Nat.add_0_r|].
  cbn [repeat app]. rewrite cnorm_dotdot, IH. f_equal. lia.
Qed.

Lemma normcomps_rel n tail : normal tail ->
  normcomps false (repeat dotdot n ++ tail) = repeat dotdot n ++ tail.
Proof.
  intros H. rewrite normcomps_shape, cnorm_pardirs, (cnorm_all_good _ _ _ _ (normal_good _ H)).
  cbn [fst snd Nat.add]. now rewrite app_nil_r, rev_involutive.
Qed.

(* base components, then n pardirs (not more than there are components), then good components *)
Lemma normcomps_base abs cq n tail : Forall goodc cq -> Forall goodc tail -> n <= length cq ->
  normcomps abs (cq ++ repeat dotdot n ++ tail) = firstn (length cq - n) cq ++ tail.
Proof.
  intros Hq Ht Hn. rewrite normcomps_shape, cnorm_push by assumption. rewrite app_nil_r.
  rewrite cnorm_pops by (now rewrite rev_length). rewrite (cnorm_all_good _ _ _ _ Ht).
  cbn [fst snd repeat app]. rewrite rev_app_distr, rev_involutive, skipn_rev, rev_involutive. reflexivity.
Qed.

Lemma normcomps_base_dot abs cq : Forall goodc cq -> normcomps abs (cq ++ [dot]) = cq.
Proof.
  intros Hq. rewrite normcomps_shape, cnorm_push by assumption. cbn. now rewrite app_nil_r, rev_involutive.
Qed.

(* ------------------------------------------------------------------------------------------ strings made of components *)
Definition okc (c : str) : Prop := c <> [] /\ ~ In c_slash c /\ ~ In c_bs c.

Lemma normalc_okc c : normalc c -> okc c.
Proof. intros [Hs [H1 H2]]. split; [|tauto]. intros ->. discriminate Hs. Qed.

Lemma dotdot_okc : okc dotdot.
Proof.
  split; [discriminate|]. split; intros [H|[H|[]]]; discriminate H.
Qed.

Lemma rel_okc n tail : normal tail -> Forall okc (repeat dotdot n ++ tail).
Proof.
  intros H. apply Forall_app. split.
  - apply Forall_forall. intros c Hc. apply repeat_spec in Hc. subst. apply dotdot_okc.
  - revert H. apply Forall_impl. apply normalc_okc.
Qed.

Lemma join_okc_no_bs cs : Forall okc cs -> ~ In c_bs (join_on c_slash cs).
Proof.
  induction cs as [|c cs IH]; intros H; [cbn; tauto|].
  inversion H as [|? ? Hc Hcs]; subst. destruct cs as [|c2 cs2].
  - cbn. apply Hc.
  - change (join_on c_slash (c :: c2 :: cs2)) with (c ++ c_slash :: join_on c_slash (c2 :: cs2)).
    intros Hin. apply in_app_or in Hin. destruct Hin as [Hin|[Hin|Hin]].
    + now apply Hc.
    + discriminate Hin.
    + now apply IH.
Qed.

Lemma okc_noslash cs : Forall okc cs -> Forall (fun c => ~ In c_slash c) cs.
Proof. apply Forall_impl. intros c H. apply H. Qed.

Lemma last_normal_not_special cs : cs <> [] -> normal cs -> is_special (last cs []) = false.
Proof.
  intros Hne Hn. destruct (exists_last Hne) as (l & c & ->). rewrite last_last.
  apply normal_app in Hn. destruct Hn as [_ Hn]. inversion Hn as [|? ? Hc _]; subst. apply Hc.
Qed.

Lemma last_repeat {T} (x d : T) n : last (repeat x (S n)) d = x.
Proof. induction n as [|n IH]; [reflexivity|]. change (repeat x (S (S n))) with (x :: repeat x (S n)). cbn [last]. exact IH. Qed.

(* the string a relative component list is written as (posixpath.relpath, a basename): never empty *)
Definition relstr (rel : list str) : str := if is_nil rel then dot else join_on c_slash rel.

Lemma relstr_head n tail : normal tail -> nodrive (repeat dotdot n ++ tail) ->
  splitdrive (relstr (repeat dotdot n ++ tail)) = ([], relstr (repeat dotdot n ++ tail)) /\
  initial_slashes (relstr (repeat dotdot n ++ tail)) = 0.
Proof.
  intros Hn Hd. destruct n as [|n].
  - cbn [repeat app] in *. unfold relstr. destruct tail as [|c tail]; [split; reflexivity|]. cbn [is_nil].
    apply (render_head 0 (c :: tail)); [lia|now inversion Hn|auto].
  - unfold relstr. cbn [repeat app is_nil].
    destruct (repeat dotdot n ++ tail) as [|c2 r]; split; reflexivity.
Qed.

Lemma relstr_split rel : Forall okc rel -> split_on c_slash (relstr rel) = if is_nil rel then [dot] else rel.
Proof.
  intros H. unfold relstr. destruct rel as [|c r]; [reflexivity|]. cbn [is_nil].
  apply split_join; [discriminate|now apply okc_noslash].
Qed.

Lemma relstr_no_bs rel : Forall okc rel -> ~ In c_bs (relstr rel).
Proof.
  intros H. unfold relstr. destruct rel as [|c r]; [|now apply join_okc_no_bs].
  intros [E|[]]. discriminate E.
Qed.

Lemma relstr_nonnil rel : Forall okc rel -> is_nil (relstr rel) = false.
Proof.
  intros H. unfold relstr. destruct rel as [|c r]; [reflexivity|]. cbn [is_nil].
  inversion H as [|? ? Hc _]; subst. destruct Hc as [Hc _]. destruct c as [|x c]; [congruence|].
  destruct r; reflexivity.
Qed.

Lemma relstr_basename n tail : normal tail ->
  is_special (posix_basename (relstr (repeat dotdot n ++ tail))) = is_nil tail.
Proof.
  intros Hn. unfold posix_basename. rewrite relstr_split by now apply rel_okc.
  destruct tail as [|c t].
  - rewrite app_nil_r. destruct n as [|n]; [reflexivity|].
    change (is_nil (repeat dotdot (S n))) with false. cbv iota. now rewrite last_repeat.
  - assert (E : is_nil (repeat dotdot n ++ c :: t) = false) by (destruct n; reflexivity).
    rewrite E. rewrite last_app_nonnil by discriminate. cbn [is_nil].
    apply last_normal_not_special; [discriminate|exact Hn].
Qed.

(* __normalize of such a string *)
Lemma normalize_relstr n tail : normal tail -> nodrive (repeat dotdot n ++ tail) ->
  normalize (relstr (repeat dotdot n ++ tail)) = Some ([], 0, repeat dotdot n ++ tail, is_nil tail).
Proof.
  intros Hn Hd.
  assert (Hok : Forall okc (repeat dotdot n ++ tail)) by now apply rel_okc.
  unfold normalize. rewrite (unbs_id _ (relstr_no_bs _ Hok)).
  destruct (relstr_head n tail Hn Hd) as [-> Hi]. cbn [is_nil negb andb].
  unfold bfg_normpath, posix_normpath. rewrite Hi. cbn [Nat.ltb Nat.leb].
  rewrite (relstr_split _ Hok), (relstr_basename n tail Hn).
  f_equal. f_equal. f_equal.
  destruct (repeat dotdot n ++ tail) as [|c r] eqn:E; [reflexivity|]. cbn [is_nil]. rewrite <- E.
  apply (normcomps_rel n tail Hn).
Qed.

(* ------------------------------------------------------------------------------------------ __join on a rendering *)
Lemma norm_go_skip_empty abs l : norm_go abs [] ([] :: l) = norm_go abs [] l.
Proof. reflexivity. Qed.

Lemma join_render k cs u : k <= 1 -> normal cs -> ~ In c_bs u -> initial_slashes u = 0 ->
  posix_normpath (unbs (posix_join (render k cs) u)) =
  (k, normcomps (Nat.ltb 0 k) (cs ++ split_on c_slash u)).
Proof.
  intros Hk Hn Hbs Hi. destruct k as [|[|k]]; [| |lia].
  - set (b := {| p_root := Srcdir; p_drive := []; p_slashes := 0; p_comps := cs; p_dir := true; p_destdir := false |}).
    assert (Hb : relbase b) by (repeat split; auto).
    assert (J := nested_join b u Hb Hbs Hi). apply bfg_join_some in J. exact J.
  - cbn [Nat.ltb Nat.leb]. destruct cs as [|c cs'].
    + assert (Ej : posix_join (render 1 []) u = c_slash :: u).
      { change (render 1 []) with [c_slash].
        destruct (initial_slashes_0 u Hi) as [->|(x & r & -> & Hx)]; [reflexivity|].
        cbn. rewrite Hx. reflexivity. }
      rewrite Ej.
      assert (Hb2 : ~ In c_bs (c_slash :: u)) by (intros [H|H]; [discriminate H|now apply Hbs]).
      rewrite (unbs_id _ Hb2). unfold posix_normpath.
      assert (Hi2 : initial_slashes (c_slash :: u) = 1).
      { destruct (initial_slashes_0 u Hi) as [->|(x & r & -> & Hx)]; [reflexivity|]. cbn. now rewrite Hx. }
      rewrite Hi2. cbn [Nat.ltb Nat.leb app]. cbn [split_on]. rewrite N.eqb_refl. reflexivity.
    + destruct (join_cons_shape c cs' Hn) as (x & r & Ex & Hx).
      assert (Ea : render 1 (c :: cs') = c_slash :: join_on c_slash (c :: cs')) by reflexivity.
      assert (Hes : ends_with_slash (render 1 (c :: cs')) = false)
        by (apply ends_with_slash_render; [discriminate|exact Hn]).
      assert (Ej : posix_join (render 1 (c :: cs')) u = render 1 (c :: cs') ++ c_slash :: u).
      { assert (Hnil : is_nil (render 1 (c :: cs')) = false) by reflexivity.
        unfold posix_join. rewrite Hes, Hnil. cbn [orb].
        destruct (initial_slashes_0 u Hi) as [->|(y & r' & -> & Hy)]; [reflexivity|]. rewrite Hy. reflexivity. }
      rewrite Ej.
      assert (Hb2 : ~ In c_bs (render 1 (c :: cs') ++ c_slash :: u)).
      { intros Hin. apply in_app_or in Hin. destruct Hin as [Hin|[Hin|Hin]].
        - now apply (render_no_bs 1 (c :: cs') Hn).
        - discriminate Hin.
        - now apply Hbs. }
      rewrite (unbs_id _ Hb2). unfold posix_normpath.
      assert (Hi2 : initial_slashes (render 1 (c :: cs') ++ c_slash :: u) = 1).
      { rewrite Ea, Ex. cbn. rewrite Hx. reflexivity. }
      rewrite Hi2. cbn [Nat.ltb Nat.leb].
      rewrite split_on_app, (split_render 1 (c :: cs') (Nat.le_refl 1) Hn). cbn [is_nil repeat app].
      rewrite norm_go_skip_empty. reflexivity.
Qed.

Lemma bfg_join_render k cs u : k <= 1 -> normal cs -> ~ In c_bs u -> initial_slashes u = 0 ->
  exists isd, bfg_join (render k cs) u = (k, normcomps (Nat.ltb 0 k) (cs ++ split_on c_slash u), isd).
Proof.
  intros Hk Hn Hbs Hi. unfold bfg_join, bfg_normpath. rewrite (join_render k cs u Hk Hn Hbs Hi).
  eexists. reflexivity.
Qed.

(* ------------------------------------------------------------------------------------------ append *)
Lemma or_dot_render rel : Forall okc rel ->
  (if is_nil (render 0 rel) then dot else render 0 rel) = relstr rel.
Proof.
  intros H. unfold relstr. change (render 0 rel) with (join_on c_slash rel).
  destruct rel as [|c r]; [reflexivity|]. cbn [is_nil].
  assert (E := relstr_nonnil (c :: r) H). unfold relstr in E. cbn [is_nil] in E. now rewrite E.
Qed.

Lemma normal_firstn m cs : normal cs -> normal (firstn m cs).
Proof. intros H. rewrite <- (firstn_skipn m cs) in H. apply normal_app in H. tauto. Qed.

(* appending  n pardirs (not more than q has components) followed by ordinary components *)
Lemma append_rel q n tail :
  wfp q -> normal tail -> nodrive (repeat dotdot n ++ tail) -> n <= length (p_comps q) ->
  (p_slashes q = 0 -> nodrive (firstn (length (p_comps q) - n) (p_comps q) ++ tail)) ->
  append q (relstr (repeat dotdot n ++ tail)) =
  Some {| p_root := p_root q; p_drive := []; p_slashes := p_slashes q;
          p_comps := firstn (length (p_comps q) - n) (p_comps q) ++ tail;
          p_dir := is_nil tail; p_destdir := p_destdir q |}.
Proof.
  intros W Hn Hd Hle Hnd.
  assert (Hok : Forall okc (repeat dotdot n ++ tail)) by now apply rel_okc.
  unfold append. rewrite (normalize_relstr n tail Hn Hd). cbn [Nat.ltb Nat.leb app].
  rewrite (or_dot_render _ Hok), (wfp_suffix q W).
  destruct (bfg_join_render (p_slashes q) (p_comps q) (relstr (repeat dotdot n ++ tail))
              (wf_le1 q W) (wf_normal q W) (relstr_no_bs _ Hok) (proj2 (relstr_head n tail Hn Hd))) as [isd ->].
  assert (Ec : normcomps (Nat.ltb 0 (p_slashes q)) (p_comps q ++ split_on c_slash (relstr (repeat dotdot n ++ tail)))
               = firstn (length (p_comps q) - n) (p_comps q) ++ tail).
  { rewrite (relstr_split _ Hok). destruct (repeat dotdot n ++ tail) as [|c r] eqn:E.
    - apply app_eq_nil in E. destruct E as [E1 E2]. subst tail. destruct n; [|discriminate E1].
      cbn [is_nil]. rewrite normcomps_base_dot by (apply normal_good, (wf_normal q W)).
      now rewrite Nat.sub_0_r, firstn_all, app_nil_r.
    - cbn [is_nil]. rewrite <- E. apply normcomps_base; [apply normal_good, (wf_normal q W)|now apply normal_good|exact Hle]. }
  rewrite Ec. clear Ec.
  set (res := firstn (length (p_comps q) - n) (p_comps q) ++ tail) in *.
  assert (Hres : normal res) by (apply normal_app; split; [apply normal_firstn, (wf_normal q W)|exact Hn]).
  rewrite (mk_render (p_root q) (p_slashes q) res (Some (p_destdir q)) (Some (is_nil tail)) (wf_le1 q W) Hres Hnd).
  - f_equal. assert (Hs := wf_slashes q W).
    assert (Er : (if Nat.ltb 0 (p_slashes q) then Absolute else p_root q) = p_root q).
    { destruct (Nat.ltb 0 (p_slashes q)); [|reflexivity]. symmetry in Hs. now apply root_eqb_eq in Hs. }
    rewrite Er. f_equal.
    + destruct tail as [|c t]; [reflexivity|]. cbn [truthy is_nil orb]. unfold res.
      destruct (firstn _ _); reflexivity.
    + destruct (p_destdir q); reflexivity.
  - intros E. assert (Hs := wf_slashes q W). rewrite E in Hs. cbn in Hs. now rewrite <- Hs.
  - apply (wfp_dd_ok q W).
  - intros E. inversion E as [E']. destruct tail; [discriminate E'|]. unfold res. intros E2.
    apply app_eq_nil in E2. destruct E2 as [_ E2]. discriminate E2.
Qed.

(* ------------------------------------------------------------------------------------------ dirname / basename *)
(* everything up to and including the last separator of the rendering of init ++ [b] *)
Definition dirpart (k : nat) (init : list str) : str :=
  render k init ++ (if is_nil init then [] else [c_slash]).

Lemma render_snoc k init b : render k (init ++ [b]) = dirpart k init ++ b.
Proof.
  unfold dirpart, render. destruct init as [|c init].
  - cbn [app join_on is_nil]. now rewrite !app_nil_r.
  - rewrite join_on_snoc by discriminate. cbn [is_nil]. rewrite <- !app_assoc. reflexivity.
Qed.

Lemma dus_app b x : ~ In c_slash b -> drop_until_slash (b ++ x) = drop_until_slash x.
Proof.
  induction b as [|c b IH]; intros H; [reflexivity|]. cbn [app drop_until_slash].
  assert (E : is_slash c = false) by (unfold is_slash; apply N.eqb_neq; intros ->; apply H; now left).
  rewrite E. apply IH. intros Hin. apply H. now right.
Qed.

Lemma dus_dirpart k init : k <= 1 -> drop_until_slash (rev (dirpart k init)) = rev (dirpart k init).
Proof.
  intros Hk. unfold dirpart. destruct init as [|c init].
  - cbn [is_nil]. rewrite app_nil_r. destruct k as [|[|k]]; [reflexivity|reflexivity|lia].
  - cbn [is_nil]. rewrite rev_unit. reflexivity.
Qed.

Lemma normal_last_noslash init b : normal (init ++ [b]) -> normalc b.
Proof. intros H. apply normal_app in H. destruct H as [_ H]. now inversion H. Qed.

Lemma dus_render_snoc k init b : k <= 1 -> normal (init ++ [b]) ->
  drop_until_slash (rev (render k (init ++ [b]))) = rev (dirpart k init).
Proof.
  intros Hk Hn. rewrite render_snoc, rev_app_distr, dus_app; [now apply dus_dirpart|].
  intros Hin. apply in_rev in Hin. destruct (normal_last_noslash _ _ Hn) as [_ [H _]]. now apply H.
Qed.

Lemma render_rev_head k c cs : normal (c :: cs) ->
  exists z rest, rev (render k (c :: cs)) = z :: rest /\ is_slash z = false.
Proof.
  intros Hn. assert (He := ends_with_slash_render k (c :: cs) ltac:(discriminate) Hn).
  unfold ends_with_slash in He. destruct (rev (render k (c :: cs))) as [|z rest] eqn:E.
  - exfalso. assert (L : length (rev (render k (c :: cs))) = 0) by now rewrite E.
    rewrite rev_length in L. unfold render in L. rewrite app_length in L.
    destruct (join_cons_shape c cs Hn) as (x & r & Ex & _). rewrite Ex in L. cbn in L. lia.
  - exists z, rest. auto.
Qed.

Lemma dirname_render_snoc k init b : k <= 1 -> normal (init ++ [b]) ->
  posix_dirname (render k (init ++ [b])) = render k init.
Proof.
  intros Hk Hn. unfold posix_dirname. rewrite (dus_render_snoc k init b Hk Hn).
  unfold dirpart. destruct init as [|c init].
  - cbn [is_nil]. rewrite app_nil_r. unfold render. cbn [join_on]. rewrite app_nil_r, rev_repeat.
    assert (E : forallb is_slash (repeat c_slash k) = true).
    { apply forallb_forall. intros x Hx. apply repeat_spec in Hx. now subst. }
    rewrite E. apply rev_repeat.
  - cbn [is_nil]. rewrite rev_unit.
    assert (Hn' : normal (c :: init)) by (apply normal_app in Hn; tauto).
    destruct (render_rev_head k c init Hn') as (z & rest & E & Hz). rewrite E.
    cbn [forallb drop_slashes]. change (is_slash c_slash) with true. rewrite Hz. cbn [andb].
    rewrite <- E. apply rev_involutive.
Qed.

Lemma basename_render_snoc k init b : k <= 1 -> normal (init ++ [b]) ->
  posix_basename (render k (init ++ [b])) = b.
Proof.
  intros Hk Hn. unfold posix_basename. rewrite (split_render k _ Hk Hn).
  assert (E : is_nil (init ++ [b]) = false) by (destruct init; reflexivity). rewrite E.
  rewrite app_assoc. apply last_last.
Qed.

(* ------------------------------------------------------------------------------------------ parent / basename / append *)
Definition set_dir (p : path) (d : bool) : path :=
  {| p_root := p_root p; p_drive := p_drive p; p_slashes := p_slashes p; p_comps := p_comps p;
     p_dir := d; p_destdir := p_destdir p |}.

Lemma parent_snoc p init b : wfp p -> p_comps p = init ++ [b] ->
  parent p = Some {| p_root := p_root p; p_drive := []; p_slashes := p_slashes p; p_comps := init;
                     p_dir := true; p_destdir := p_destdir p |}.
Proof.
  intros W Ec. assert (Hn := wf_normal p W). rewrite Ec in Hn.
  unfold parent. rewrite (wfp_suffix p W), (render_nonnil _ _ (wf_normal p W)), Ec.
  assert (E : is_nil (init ++ [b]) = false) by (destruct init; reflexivity). rewrite E, andb_false_r.
  rewrite (dirname_render_snoc _ _ _ (wf_le1 p W) Hn).
  assert (Hni : normal init) by (apply normal_app in Hn; tauto).
  rewrite (mk_render (p_root p) (p_slashes p) init (Some (p_destdir p)) (Some true) (wf_le1 p W) Hni).
  - f_equal. assert (Hs := wf_slashes p W).
    assert (Er : (if Nat.ltb 0 (p_slashes p) then Absolute else p_root p) = p_root p).
    { destruct (Nat.ltb 0 (p_slashes p)); [|reflexivity]. symmetry in Hs. now apply root_eqb_eq in Hs. }
    rewrite Er. f_equal. destruct (p_destdir p); reflexivity.
  - intros Hk. destruct init as [|c init]; [exact I|].
    apply (nodrive_prefix _ (p_comps p)); [discriminate|exists [b]; exact Ec|now apply (wf_nodrive p W)].
  - intros Hk. assert (Hs := wf_slashes p W). rewrite Hk in Hs. cbn in Hs. now rewrite <- Hs.
  - apply (wfp_dd_ok p W).
  - discriminate.
Qed.

Lemma basename_snoc p init b : wfp p -> p_comps p = init ++ [b] -> basename p = b.
Proof.
  intros W Ec. assert (Hn := wf_normal p W). rewrite Ec in Hn.
  unfold basename. rewrite (wfp_suffix p W), Ec. apply (basename_render_snoc _ _ _ (wf_le1 p W) Hn).
Qed.

(* For a well-formed path with a non-empty suffix whose last component is not of the form x:... the parent exists,
   is a well-formed directory path one component shorter, and appending the basename to it gives the path back -
   except for the directory flag, which append derives from the appended string: the result is flagged a
   non-directory (for the file-system root, whose parent is itself and whose basename is empty, a directory). *)
Theorem parent_append p :
  wfp p -> is_nil (suffix_str p) = false -> nodrive [last (p_comps p) []] ->
  exists q, parent p = Some q /\ wfp q /\ p_dir q = true /\ p_root q = p_root p /\
            p_comps q = removelast (p_comps p) /\
            append q (basename p) = Some (set_dir p (is_nil (p_comps p))).
Proof.
  intros W Hs Hd.
  destruct (p_comps p) as [|c0 cs0] eqn:Ec.
  - (* only the file-system root has a non-empty suffix without components *)
    rewrite (wfp_suffix p W), (render_nonnil _ _ (wf_normal p W)), Ec in Hs. cbn [is_nil] in Hs.
    rewrite andb_true_r in Hs. assert (Hk : p_slashes p = 1).
    { assert (L := wf_le1 p W). destruct (p_slashes p) as [|[|k]]; [discriminate Hs|reflexivity|lia]. }
    assert (Hr : p_root p = Absolute).
    { assert (S := wf_slashes p W). rewrite Hk in S. cbn in S. symmetry in S. now apply root_eqb_eq in S. }
    assert (Hdir := wf_dir p W Ec). assert (Hdr := wf_drive p W).
    destruct p as [r d k cs dr dd]. cbn in *. subst.
    exists {| p_root := Absolute; p_drive := []; p_slashes := 1; p_comps := []; p_dir := true; p_destdir := dd |}.
    split; [destruct dd; reflexivity|]. split; [exact W|]. repeat split. destruct dd; reflexivity.
  - assert (Hne : c0 :: cs0 <> []) by discriminate.
    destruct (exists_last Hne) as (init & b & Eib). rewrite Eib in *. clear Hne.
    rewrite last_last in Hd. rewrite removelast_last.
    assert (Hn := wf_normal p W). rewrite Ec in Hn.
    assert (Hni : normal init) by (apply normal_app in Hn; tauto).
    assert (Hnb : normal [b]) by (apply normal_app in Hn; tauto).
    set (q := {| p_root := p_root p; p_drive := []; p_slashes := p_slashes p; p_comps := init;
                 p_dir := true; p_destdir := p_destdir p |}).
    assert (Wq : wfp q).
    { apply wfp_intro; [apply (wf_le1 p W)|exact Hni| |apply (wf_slashes p W)|reflexivity|apply (wf_destdir p W)].
      intros Hk. destruct init as [|c init]; [exact I|].
      apply (nodrive_prefix _ (p_comps p)); [discriminate|exists [b]; exact Ec|now apply (wf_nodrive p W)]. }
    exists q. split; [exact (parent_snoc p init b W Ec)|]. split; [exact Wq|]. repeat split.
    rewrite (basename_snoc p init b W Ec).
    assert (A := append_rel q 0 [b] Wq Hnb Hd (Nat.le_0_l _)).
    change (relstr (repeat dotdot 0 ++ [b])) with b in A. cbn [p_comps p_slashes p_root p_destdir q] in A.
    rewrite Nat.sub_0_r, firstn_all in A. rewrite A.
    + unfold set_dir. rewrite (wf_drive p W), Ec. destruct init; reflexivity.
    + intros Hk. destruct init as [|c init]; [exact Hd|].
      change ((c :: init) ++ [b]) with (c :: (init ++ [b])).
      assert (N := wf_nodrive p W Hk). rewrite Ec in N. exact N.
Qed.

(* as __eq__ sees it *)
Corollary parent_append_eq p :
  wfp p -> is_nil (suffix_str p) = false -> nodrive [last (p_comps p) []] ->
  exists q r, parent p = Some q /\ append q (basename p) = Some r /\ path_eqb r p = true.
Proof.
  intros W Hs Hd. destruct (parent_append p W Hs Hd) as (q & Hq & _ & _ & _ & _ & Ha).
  exists q, (set_dir p (is_nil (p_comps p))). split; [exact Hq|]. split; [exact Ha|].
  unfold path_eqb, set_dir, suffix_str. cbn. rewrite root_eqb_refl, str_eqb_refl. now destruct (p_destdir p).
Qed.

(* splitleaf is parent and basename *)
Lemma splitleaf_spec p : splitleaf p = option_map (fun q => (q, basename p)) (parent p).
Proof. unfold splitleaf. destruct (parent p); reflexivity. Qed.

Theorem splitleaf_append p :
  wfp p -> is_nil (suffix_str p) = false -> nodrive [last (p_comps p) []] ->
  exists q b, splitleaf p = Some (q, b) /\ parent p = Some q /\ b = basename p /\ wfp q /\
              append q b = Some (set_dir p (is_nil (p_comps p))).
Proof.
  intros W Hs Hd. destruct (parent_append p W Hs Hd) as (q & Hq & Wq & _ & _ & _ & Ha).
  exists q, (basename p). rewrite splitleaf_spec, Hq.
  split; [reflexivity|]. split; [reflexivity|]. split; [reflexivity|]. split; [exact Wq|exact Ha].
Qed.

(* ------------------------------------------------------------------------------------------ relpath / append *)
Lemma rel_comps_render cs : normal cs -> rel_comps (or_dot (render 0 cs)) = cs.
Proof.
  intros Hn. unfold or_dot. rewrite (render_nonnil 0 cs Hn). cbn [Nat.eqb andb].
  destruct cs as [|c cs']; [reflexivity|]. cbn [is_nil].
  unfold rel_comps. change (c_slash :: render 0 (c :: cs')) with (render 1 (c :: cs')).
  unfold posix_normpath.
  destruct (render_head 1 (c :: cs') (Nat.le_refl 1) (normal_head _ Hn)) as [_ Hi]; [discriminate|].
  rewrite Hi. cbn [snd]. apply (render_split 1 (c :: cs') (Nat.le_refl 1) Hn).
Qed.

Lemma common_len_le_l a : forall b, common_len a b <= length a.
Proof.
  induction a as [|x a IH]; intros [|y b]; cbn; try lia. destruct (str_eqb x y); [|lia]. specialize (IH b). lia.
Qed.

Lemma common_len_firstn a : forall b, firstn (common_len a b) a = firstn (common_len a b) b.
Proof.
  induction a as [|x a IH]; intros [|y b]; cbn; try reflexivity.
  destruct (str_eqb x y) eqn:E; [|reflexivity]. apply str_eqb_eq in E. subst. cbn. f_equal. apply IH.
Qed.

Lemma normal_skipn m cs : normal cs -> normal (skipn m cs).
Proof. intros H. rewrite <- (firstn_skipn m cs) in H. apply normal_app in H. tauto. Qed.

Lemma posix_join_nil b : posix_join [] b = b.
Proof. destruct b as [|c b]; [reflexivity|]. cbn. destruct (is_slash c); reflexivity. Qed.

(* the components of the relative path from q to p: one pardir per component of q outside the common prefix,
   then the components of p outside the common prefix *)
Definition rel_list (cq cp : list str) : list str :=
  repeat dotdot (length cq - common_len cq cp) ++ skipn (common_len cq cp) cp.

Lemma relpath_value fl p q loc : wfp p -> wfp q -> p_root p = p_root q -> root_eqb (p_root p) Absolute = false ->
  relpath fl p q [] false = Some (relstr (rel_list (p_comps q) (p_comps p))) /\
  relpath Posix p q [] loc = Some (relstr (rel_list (p_comps q) (p_comps p))).
Proof.
  intros Wp Wq Hr Ha.
  assert (E : posix_relpath (or_dot (suffix_str p)) (or_dot (suffix_str q)) = relstr (rel_list (p_comps q) (p_comps p))).
  { rewrite (wfp_suffix p Wp), (wfp_suffix q Wq), (wfp_slashes_rel p Wp Ha).
    rewrite (wfp_slashes_rel q Wq) by (now rewrite <- Hr).
    unfold posix_relpath. rewrite (rel_comps_render _ (wf_normal p Wp)), (rel_comps_render _ (wf_normal q Wq)).
    reflexivity. }
  unfold relpath. rewrite Ha, Hr, root_eqb_refl, E. cbn [negb is_nil andb]. rewrite posix_join_nil.
  split; [reflexivity|]. destruct loc; reflexivity.
Qed.

(* For well-formed paths under the same non-absolute root - provided that, when q is an ancestor of p, the first
   component of p below q is not of the form x:... (finding relpath-drive-like) - appending to q the relative path
   from q to p gives exactly p's root and components; the directory flag is set iff p is q or an ancestor of q
   (append derives it from the string), and the destdir flag is the one of q. *)
Theorem relpath_append fl p q :
  wfp p -> wfp q -> p_root p = p_root q -> root_eqb (p_root p) Absolute = false ->
  (common_len (p_comps q) (p_comps p) = length (p_comps q) ->
   nodrive (skipn (common_len (p_comps q) (p_comps p)) (p_comps p))) ->
  exists s, relpath fl p q [] false = Some s /\
    append q s = Some {| p_root := p_root p; p_drive := []; p_slashes := 0; p_comps := p_comps p;
                         p_dir := is_nil (skipn (common_len (p_comps q) (p_comps p)) (p_comps p));
                         p_destdir := p_destdir q |}.
Proof.
  intros Wp Wq Hr Ha Hg. exists (relstr (rel_list (p_comps q) (p_comps p))).
  split; [apply (relpath_value fl p q false Wp Wq Hr Ha)|].
  set (i := common_len (p_comps q) (p_comps p)) in *.
  assert (Hi : i <= length (p_comps q)) by apply common_len_le_l.
  assert (Hq0 : p_slashes q = 0) by (apply (wfp_slashes_rel q Wq); now rewrite <- Hr).
  assert (Hp0 : p_slashes p = 0) by apply (wfp_slashes_rel p Wp Ha).
  assert (Hsub : length (p_comps q) - (length (p_comps q) - i) = i) by lia.
  assert (Hcp : firstn i (p_comps q) ++ skipn i (p_comps p) = p_comps p).
  { unfold i. rewrite common_len_firstn. apply firstn_skipn. }
  unfold rel_list. fold i.
  rewrite (append_rel q (length (p_comps q) - i) (skipn i (p_comps p)) Wq).
  - rewrite Hsub, Hcp, Hq0, Hr. reflexivity.
  - apply normal_skipn, (wf_normal p Wp).
  - destruct (length (p_comps q) - i) as [|n] eqn:En; [|exact (fun H => match N.eqb_neq c_dot c_colon with conj f _ => f eq_refl H end)].
    cbn [repeat app]. apply Hg. lia.
  - lia.
  - intros _. rewrite Hsub, Hcp. apply (wf_nodrive p Wp Hp0).
Qed.

Corollary relpath_append_eq fl p q :
  wfp p -> wfp q -> p_root p = p_root q -> root_eqb (p_root p) Absolute = false ->
  p_destdir p = p_destdir q ->
  (common_len (p_comps q) (p_comps p) = length (p_comps q) ->
   nodrive (skipn (common_len (p_comps q) (p_comps p)) (p_comps p))) ->
  exists s r, relpath fl p q [] false = Some s /\ append q s = Some r /\ path_eqb r p = true.
Proof.
  intros Wp Wq Hr Ha Hdd Hg. destruct (relpath_append fl p q Wp Wq Hr Ha Hg) as (s & Hs & Hap).
  eexists. eexists. split; [exact Hs|]. split; [exact Hap|].
  unfold path_eqb, suffix_str. cbn [p_root p_drive p_slashes p_comps p_destdir].
  rewrite root_eqb_refl, (wf_drive p Wp), (wfp_slashes_rel p Wp Ha), str_eqb_refl, Hdd. now destruct (p_destdir q).
Qed.

(* an absolute path is its own relative path from anywhere; appending it to any well-formed path gives it back
   (flagged a directory only if it is the file-system root, with the destdir flag of q) *)
Theorem relpath_append_abs fl p q pre :
  wfp p -> wfp q -> root_eqb (p_root p) Absolute = true ->
  relpath fl p q pre false = Some (suffix_str p) /\
  append q (suffix_str p) = Some {| p_root := Absolute; p_drive := []; p_slashes := 1; p_comps := p_comps p;
                                    p_dir := is_nil (p_comps p); p_destdir := p_destdir q |}.
Proof.
  intros Wp Wq Ha. split; [unfold relpath; now rewrite Ha|].
  rewrite (wfp_suffix p Wp), (wfp_slashes_abs p Wp Ha).
  unfold append. rewrite (normalize_render 1 (p_comps p) (Nat.le_refl 1) (wf_normal p Wp)) by discriminate.
  cbn [Nat.ltb Nat.leb app].
  rewrite (mk_render (p_root q) 1 (p_comps p) (Some (p_destdir q)) (Some (is_nil (p_comps p))) (Nat.le_refl 1) (wf_normal p Wp)).
  - cbn [Nat.ltb Nat.leb]. f_equal. f_equal; [now destruct (is_nil (p_comps p))|now destruct (p_destdir q)].
  - discriminate.
  - discriminate.
  - apply (wfp_dd_ok q Wq).
  - intros E. inversion E as [E']. destruct (p_comps p); discriminate.
Qed.

(* the rpath form: with a non-empty prefix such as $ORIGIN (not ending in a separator) relpath returns the prefix
   alone when the two paths are the same place, and otherwise the prefix, a separator and the relative path *)
Theorem relpath_prefix p q pre loc :
  wfp p -> wfp q -> p_root p = p_root q -> root_eqb (p_root p) Absolute = false ->
  is_nil pre = false -> ends_with_slash pre = false ->
  exists s, relpath Posix p q [] loc = Some s /\
    relpath Posix p q pre loc = Some (if str_eqb s dot then pre else pre ++ c_slash :: s).
Proof.
  intros Wp Wq Hr Ha Hpre Hes. exists (relstr (rel_list (p_comps q) (p_comps p))).
  split; [apply (relpath_value Posix p q loc Wp Wq Hr Ha)|].
  assert (V := proj1 (relpath_value Posix p q false Wp Wq Hr Ha)). revert V.
  unfold relpath. rewrite Ha, Hr, root_eqb_refl, Hpre. cbn [negb is_nil andb]. rewrite posix_join_nil.
  intros V. inversion V as [V']. rewrite V'.
  destruct (str_eqb (relstr (rel_list (p_comps q) (p_comps p))) dot) eqn:Ed; [reflexivity|].
  assert (Hn : normal (skipn (common_len (p_comps q) (p_comps p)) (p_comps p))) by apply normal_skipn, (wf_normal p Wp).
  assert (Hok := rel_okc (length (p_comps q) - common_len (p_comps q) (p_comps p)) _ Hn). fold (rel_list (p_comps q) (p_comps p)) in Hok.
  assert (Hnn := relstr_nonnil _ Hok).
  destruct (relstr (rel_list (p_comps q) (p_comps p))) as [|x r] eqn:Es; [discriminate Hnn|].
  assert (Hx : is_slash x = false).
  { unfold relstr in Es. destruct (rel_list (p_comps q) (p_comps p)) as [|c cs]; [inversion Es; reflexivity|].
    cbn [is_nil] in Es. inversion Hok as [|? ? Hc _]; subst. destruct Hc as [Hc1 [Hc2 _]].
    destruct c as [|y c]; [congruence|].
    assert (x = y) by (destruct cs; cbn in Es; inversion Es; reflexivity). subst y.
    unfold is_slash. apply N.eqb_neq. intros ->. apply Hc2. now left. }
  unfold posix_join. rewrite Hx, Hpre, Hes. cbn [orb]. destruct loc; reflexivity.
Qed.

(* ------------------------------------------------------------------------------------------ stripext / addext *)
Lemma last_dot_split_app t : forall a e, last_dot_split t = Some (a, e) -> t = a ++ e.
Proof.
  induction t as [|c t IH]; intros a e H; [discriminate H|].
  cbn in H. destruct (last_dot_split t) as [[a' e']|].
  - inversion H; subst. cbn. f_equal. now apply IH.
  - destruct (N.eqb c c_dot); [|discriminate H]. inversion H. reflexivity.
Qed.

Lemma splitext_name_spec t : forall a e, splitext_name t = (a, e) ->
  t = a ++ e /\ (a = t \/ all_dots a = false).
Proof.
  intros a e H. unfold splitext_name in H. destruct (last_dot_split t) as [[a' e']|] eqn:E.
  - destruct (all_dots a') eqn:Ed; inversion H; subst.
    + split; [now rewrite app_nil_r|now left].
    + split; [now apply last_dot_split_app|now right].
  - inversion H; subst. split; [now rewrite app_nil_r|now left].
Qed.

Lemma special_all_dots a : is_special a = true -> all_dots a = true.
Proof. unfold is_special. rewrite !orb_true_iff, !str_eqb_eq. intros [[->| ->]| ->]; reflexivity. Qed.

Lemma stem_normal t a e : normalc t -> t = a ++ e -> (a = t \/ all_dots a = false) -> normalc a.
Proof.
  intros [Hs [H1 H2]] Et Ha. subst t. split; [|split].
  - destruct Ha as [Ha|Ha]; [now rewrite Ha|].
    destruct (is_special a) eqn:E; [|reflexivity]. apply special_all_dots in E. congruence.
  - intros Hin. apply H1. apply in_or_app. now left.
  - intros Hin. apply H2. apply in_or_app. now left.
Qed.

Lemma stem_nodrive t a e : t = a ++ e -> nodrive [t] -> nodrive [a].
Proof. intros -> H. destruct a as [|x [|y a]]; try exact I. exact H. Qed.

Lemma splitext_render_snoc k init b : k <= 1 -> normal (init ++ [b]) ->
  posix_splitext (render k (init ++ [b])) =
  (dirpart k init ++ fst (splitext_name b), snd (splitext_name b)).
Proof.
  intros Hk Hn. unfold posix_splitext.
  rewrite (dus_render_snoc k init b Hk Hn), rev_involutive, (basename_render_snoc k init b Hk Hn).
  destruct (splitext_name b); reflexivity.
Qed.

Lemma splitext_render_nil k : k <= 1 -> posix_splitext (render k []) = (render k [], []).
Proof. intros Hk. destruct k as [|[|k]]; [reflexivity|reflexivity|lia]. Qed.

(* For every well-formed path: stripext succeeds, gives a well-formed path under the same root, and adding the
   extension back returns the path exactly (all fields); stripext with a replacement is stripext followed by
   addext; the extension contains no separator. *)
Theorem stripext_addext p : wfp p ->
  exists st, stripext p None = Some st /\ wfp st /\ p_root st = p_root p /\
             addext st (ext p) = Some p /\ (forall r, stripext p (Some r) = addext st r) /\
             ~ In c_slash (ext p).
Proof.
  intros W. assert (Hid := mk_idempotent p W). assert (Hn := wf_normal p W).
  destruct (p_comps p) as [|c0 cs0] eqn:Ec.
  - (* the root directory: nothing to strip *)
    exists p. unfold stripext, addext, ext. rewrite (wfp_suffix p W), Ec, (splitext_render_nil _ (wf_le1 p W)).
    cbn [fst snd]. rewrite !app_nil_r. rewrite (wfp_suffix p W), Ec in Hid.
    split; [exact Hid|]. split; [exact W|]. split; [reflexivity|]. split; [exact Hid|]. split; [|intros []].
    intros r. reflexivity.
  - assert (Hne : c0 :: cs0 <> []) by discriminate.
    destruct (exists_last Hne) as (init & b & Eib). rewrite Eib in *. clear Hne Eib c0 cs0.
    destruct (splitext_name b) as [a e] eqn:Es.
    destruct (splitext_name_spec b a e Es) as [Eb Ha].
    assert (Hnb : normalc b) by apply (normal_last_noslash _ _ Hn).
    assert (Hna : normalc a) by apply (stem_normal b a e Hnb Eb Ha).
    assert (Hni : normal init) by (apply normal_app in Hn; tauto).
    assert (Hnia : normal (init ++ [a])) by (apply normal_app; split; [exact Hni|constructor; [exact Hna|constructor]]).
    assert (Hsx : posix_splitext (suffix_str p) = (dirpart (p_slashes p) init ++ a, e)).
    { rewrite (wfp_suffix p W), Ec, (splitext_render_snoc _ _ _ (wf_le1 p W) Hn), Es. reflexivity. }
    assert (Hnd : p_slashes p = 0 -> nodrive (init ++ [a])).
    { intros Hk. assert (N := wf_nodrive p W Hk). rewrite Ec in N. destruct init as [|c init]; [|exact N].
      apply (stem_nodrive b a e Eb N). }
    assert (Hs := wf_slashes p W).
    assert (Er : (if Nat.ltb 0 (p_slashes p) then Absolute else p_root p) = p_root p).
    { destruct (Nat.ltb 0 (p_slashes p)); [|reflexivity]. symmetry in Hs. now apply root_eqb_eq in Hs. }
    assert (Hr0 : p_slashes p = 0 -> root_eqb (p_root p) Absolute = false).
    { intros Hk. rewrite Hk in Hs. cbn in Hs. now rewrite <- Hs. }
    set (st := {| p_root := p_root p; p_drive := []; p_slashes := p_slashes p; p_comps := init ++ [a];
                  p_dir := p_dir p; p_destdir := p_destdir p |}).
    assert (Hmk : forall x, mk ((dirpart (p_slashes p) init ++ a) ++ x) (RRoot (p_root p)) (Some (p_destdir p)) (Some (p_dir p))
                            = mk (render (p_slashes p) (init ++ [(a ++ x : str)])) (RRoot (p_root p)) (Some (p_destdir p)) (Some (p_dir p))).
    { intros x. rewrite render_snoc, app_assoc. reflexivity. }
    assert (Hst : stripext p None = Some st).
    { unfold stripext. rewrite Hsx. cbn [fst]. rewrite Hmk, app_nil_r.
      rewrite (mk_render (p_root p) (p_slashes p) (init ++ [a]) (Some (p_destdir p)) (Some (p_dir p))
                 (wf_le1 p W) Hnia Hnd Hr0 (wfp_dd_ok p W)).
      - rewrite Er. unfold st. f_equal. f_equal.
        + destruct (p_dir p); [reflexivity|]. destruct init; reflexivity.
        + now destruct (p_destdir p).
      - intros _ E. apply app_eq_nil in E. destruct E as [_ E]. discriminate E. }
    assert (Hsst : suffix_str st = dirpart (p_slashes p) init ++ a).
    { unfold suffix_str, st. cbn [p_drive p_slashes p_comps app]. apply render_snoc. }
    exists st. split; [exact Hst|]. split; [|split; [reflexivity|split; [|split]]].
    + apply wfp_intro; [apply (wf_le1 p W)|exact Hnia|exact Hnd|exact Hs| |apply (wf_destdir p W)].
      intros E. apply app_eq_nil in E. destruct E as [_ E]. discriminate E.
    + unfold addext, ext. rewrite Hsx, Hsst. cbn [snd p_root p_destdir p_dir st].
      rewrite Hmk, <- Eb, <- Ec, <- (wfp_suffix p W). exact Hid.
    + intros r. unfold stripext, addext. rewrite Hsx, Hsst. reflexivity.
    + unfold ext. rewrite Hsx. cbn [snd]. intros Hin. destruct Hnb as [_ [Hb _]]. apply Hb. rewrite Eb.
      apply in_or_app. now right.
Qed.

(* ------------------------------------------------------------------------------------------ realize / string *)
Lemma localize_app fl a b : localize fl (a ++ b) = localize fl a ++ localize fl b.
Proof. destruct fl; [reflexivity|apply map_app]. Qed.

(* localisation commutes with realisation: the localised result is the localisation of the plain result *)
Theorem realize_localize fl vars dv ex vsep p :
  realize fl vars dv ex vsep true p = localize fl (realize fl vars dv ex vsep false p).
Proof.
  unfold realize.
  destruct (if p_destdir p then _ else _) as [r|]; [|reflexivity].
  destruct (is_nil (suffix_str p)); [reflexivity|]. now rewrite !localize_app.
Qed.

Lemma realize_posix_loc vars dv ex vsep loc p :
  realize Posix vars dv ex vsep loc p = realize Posix vars dv ex vsep false p.
Proof. destruct loc; [|reflexivity]. rewrite realize_localize. reflexivity. Qed.

Lemma posix_join_rel base s x r : is_nil base = false -> ends_with_slash base = false ->
  s = x :: r -> is_slash x = false -> posix_join base s = base ++ c_slash :: s.
Proof. intros Hb He -> Hx. unfold posix_join. now rewrite Hx, Hb, He. Qed.

Lemma suffix_rel_head p : wfp p -> root_eqb (p_root p) Absolute = false -> is_nil (suffix_str p) = false ->
  exists x r, suffix_str p = x :: r /\ is_slash x = false.
Proof.
  intros W Ha Hs. rewrite (wfp_suffix p W), (wfp_slashes_rel p W Ha) in *.
  destruct (p_comps p) as [|c cs] eqn:Ec; [discriminate Hs|].
  assert (Hn := wf_normal p W). rewrite Ec in Hn. exact (join_cons_shape c cs Hn).
Qed.

(* the DESTDIR prefix realize puts in front: only for destdir-flagged paths, only when the variable is defined *)
Definition destdir_prefix (dv : option str) (p : path) : str :=
  if p_destdir p then match dv with Some d => d | None => [] end else [].

(* A well-formed path under a non-absolute root whose variable has the non-empty value base (not ending in a
   separator) is realised as the ordinary join of base and the suffix (base alone for the root directory itself),
   preceded by the DESTDIR value when it applies; string() with the same value gives the same text. *)
Theorem realize_join vars dv ex loc p base :
  wfp p -> root_eqb (p_root p) Absolute = false -> vars (p_root p) = Some base ->
  is_nil base = false -> ends_with_slash base = false ->
  realize Posix vars dv ex true loc p =
  destdir_prefix dv p ++ (if is_nil (suffix_str p) then base else posix_join base (suffix_str p)).
Proof.
  intros W Ha Hv Hb He. rewrite (realize_posix_loc vars dv ex true loc p).
  unfold realize, destdir_prefix. rewrite Ha, Hv.
  destruct (is_nil (suffix_str p)) eqn:Hs.
  - destruct (p_destdir p); [destruct dv|]; reflexivity.
  - destruct (suffix_rel_head p W Ha Hs) as (x & r & Es & Hx).
    rewrite (posix_join_rel base _ x r Hb He Es Hx).
    destruct (p_destdir p); [destruct dv|]; cbn [localize app]; try reflexivity.
    now rewrite <- app_assoc.
Qed.

(* string() with the same string value, for either flavour: the localised join *)
Theorem string_join fl vars p base :
  wfp p -> root_eqb (p_root p) Absolute = false -> vars (p_root p) = VStr base ->
  is_nil base = false -> ends_with_slash base = false ->
  path_string fl vars p =
  Some (localize fl (if is_nil (suffix_str p) then base else posix_join base (suffix_str p))).
Proof.
  intros W Ha Hv Hb He. unfold path_string. cbn [string_go]. rewrite Ha, Hv.
  destruct (is_nil (suffix_str p)) eqn:Hs; [now rewrite app_nil_r|].
  destruct (suffix_rel_head p W Ha Hs) as (x & r & Es & Hx).
  rewrite (posix_join_rel base _ x r Hb He Es Hx). now rewrite app_nil_r, localize_app.
Qed.

(* absolute paths: the suffix itself, preceded by the DESTDIR value when it applies; never a ./ prefix *)
Theorem realize_abs vars dv ex vsep loc p :
  wfp p -> root_eqb (p_root p) Absolute = true ->
  realize Posix vars dv ex vsep loc p = destdir_prefix dv p ++ suffix_str p.
Proof.
  intros W Ha. rewrite (realize_posix_loc vars dv ex vsep loc p).
  unfold realize, destdir_prefix. rewrite Ha.
  assert (Es : suffix_str p = c_slash :: join_on c_slash (p_comps p)).
  { rewrite (wfp_suffix p W), (wfp_slashes_abs p W Ha). reflexivity. }
  rewrite Es. cbn [has_slash existsb is_nil]. change (is_slash c_slash) with true. cbn [orb negb andb]. rewrite andb_false_r.
  destruct (p_destdir p); [destruct dv|]; reflexivity.
Qed.

(* the executable form: a path whose root variable has no value is written with a leading ./ exactly when its
   suffix contains no separator (so that the shell does not search PATH for it) *)
Theorem realize_executable vars dv loc p :
  wfp p -> root_eqb (p_root p) Absolute = false -> vars (p_root p) = None ->
  (p_destdir p = true -> dv = None) ->
  realize Posix vars dv true true loc p =
  if has_slash (suffix_str p) then suffix_str p
  else if is_nil (suffix_str p) then dot else posix_join dot (suffix_str p).
Proof.
  intros W Ha Hv Hd. rewrite (realize_posix_loc vars dv true true loc p).
  unfold realize. rewrite Ha, Hv. cbn [andb].
  assert (Hdv : p_destdir p = false \/ dv = None) by (destruct (p_destdir p); [right; now apply Hd|now left]).
  destruct (has_slash (suffix_str p)) eqn:Hh; cbn [negb].
  - assert (Hs : is_nil (suffix_str p) = false) by (destruct (suffix_str p); [discriminate Hh|reflexivity]).
    unfold or_dot. rewrite Hs. destruct Hdv as [-> | ->]; [|destruct (p_destdir p)]; reflexivity.
  - destruct (is_nil (suffix_str p)) eqn:Hs.
    + destruct Hdv as [-> | ->]; [|destruct (p_destdir p)]; reflexivity.
    + destruct (suffix_rel_head p W Ha Hs) as (x & r & Es & Hx).
      rewrite (posix_join_rel dot _ x r eq_refl eq_refl Es Hx).
      destruct Hdv as [-> | ->]; [|destruct (p_destdir p)]; reflexivity.
Qed.
