(* Proofs about the path model, part 6: the lexicographic order on component lists (Python list comparison),
   min / max, and commonprefix: the common prefix of the lexicographic minimum and maximum is the longest common
   prefix of all the lists. *)
From Coq Require Import String List NArith Bool Arith Lia.
From BFG Require Import Base.Chars Path.PathAlg Path.PathAlgProofs Path.PathAlgMk Path.PathAlgRt Path.PathAlgNested
                        Path.PathAlgWf.
Import ListNotations.

(* ------------------------------------------------------------------------------------------ generic lexicographic order *)
Section Lex.
  Variable A : Type.
  Variable cmp : A -> A -> comparison.
  Hypothesis cmp_eq : forall x y, cmp x y = Eq -> x = y.
  Hypothesis cmp_refl : forall x, cmp x x = Eq.
  Hypothesis cmp_antisym : forall x y, cmp y x = CompOpp (cmp x y).
  Hypothesis cmp_trans : forall x y z, cmp x y = Lt -> cmp y z = Lt -> cmp x z = Lt.

  Fixpoint lex (a b : list A) : comparison :=
    match a, b with
    | [], [] => Eq
    | [], _ :: _ => Lt
    | _ :: _, [] => Gt
    | x :: a', y :: b' => match cmp x y with Eq => lex a' b' | c => c end
    end.

  Lemma lex_eq a : forall b, lex a b = Eq -> a = b.
  Proof.
    induction a as [|x a IH]; intros [|y b] H; cbn in H; try discriminate; [reflexivity|].
    destruct (cmp x y) eqn:E; try discriminate. apply cmp_eq in E. subst. f_equal. now apply IH.
  Qed.

  Lemma lex_refl a : lex a a = Eq.
  Proof. induction a as [|x a IH]; [reflexivity|]. cbn. now rewrite cmp_refl. Qed.

  Lemma lex_antisym a : forall b, lex b a = CompOpp (lex a b).
  Proof.
    induction a as [|x a IH]; intros [|y b]; cbn; try reflexivity.
    rewrite (cmp_antisym x y). destruct (cmp x y); cbn; auto.
  Qed.

  Lemma lex_trans a : forall b c, lex a b = Lt -> lex b c = Lt -> lex a c = Lt.
  Proof.
    induction a as [|x a IH]; intros [|y b] [|z c] H1 H2; cbn in *; try discriminate; try reflexivity.
    destruct (cmp x y) eqn:E1; try discriminate.
    - apply cmp_eq in E1. subst y. destruct (cmp x z) eqn:E2; try discriminate; auto. eapply IH; eauto.
    - destruct (cmp y z) eqn:E2; try discriminate.
      + apply cmp_eq in E2. subst z. now rewrite E1.
      + now rewrite (cmp_trans _ _ _ E1 E2).
  Qed.
End Lex.

(* a comparison that satisfies the four laws gives a total preorder "not greater" *)
Section Le.
  Variable A : Type.
  Variable cmp : A -> A -> comparison.
  Hypothesis cmp_eq : forall x y, cmp x y = Eq -> x = y.
  Hypothesis cmp_refl : forall x, cmp x x = Eq.
  Hypothesis cmp_antisym : forall x y, cmp y x = CompOpp (cmp x y).
  Hypothesis cmp_trans : forall x y z, cmp x y = Lt -> cmp y z = Lt -> cmp x z = Lt.

  Definition le (x y : A) : Prop := cmp x y <> Gt.

  Lemma le_refl x : le x x.
  Proof. unfold le. rewrite cmp_refl. discriminate. Qed.

  Lemma le_total x y : le x y \/ le y x.
  Proof. unfold le. rewrite (cmp_antisym x y). destruct (cmp x y); cbn; [left|left|right]; discriminate. Qed.

  Lemma le_trans x y z : le x y -> le y z -> le x z.
  Proof.
    unfold le. intros H1 H2.
    destruct (cmp x y) eqn:E1; [|clear H1|congruence].
    - apply cmp_eq in E1. now subst.
    - destruct (cmp y z) eqn:E2; [| |congruence].
      + apply cmp_eq in E2. subst. rewrite E1. discriminate.
      + rewrite (cmp_trans _ _ _ E1 E2). discriminate.
  Qed.

  Lemma le_antisym x y : le x y -> le y x -> x = y.
  Proof.
    unfold le. intros H1 H2. rewrite (cmp_antisym x y) in H2.
    destruct (cmp x y) eqn:E; cbn in H2; try congruence. now apply cmp_eq.
  Qed.

  Lemma gt_le x y : cmp x y = Gt -> le y x.
  Proof. unfold le. intros H. rewrite (cmp_antisym x y), H. discriminate. Qed.

  Lemma lt_le x y : cmp x y = Lt -> le x y.
  Proof. unfold le. intros H. rewrite H. discriminate. Qed.
End Le.

(* ------------------------------------------------------------------------------------------ the two instances *)
Lemma str_cmp_lex a : forall b, str_cmp a b = lex N N.compare a b.
Proof. induction a as [|x a IH]; intros [|y b]; cbn; try reflexivity; now rewrite IH. Qed.

Lemma ncmp_eq x y : N.compare x y = Eq -> x = y.
Proof. apply N.compare_eq. Qed.
Lemma ncmp_antisym x y : N.compare y x = CompOpp (N.compare x y).
Proof. apply N.compare_antisym. Qed.
Lemma ncmp_trans x y z : N.compare x y = Lt -> N.compare y z = Lt -> N.compare x z = Lt.
Proof. rewrite !N.compare_lt_iff. apply N.lt_trans. Qed.

Lemma str_cmp_eq a b : str_cmp a b = Eq -> a = b.
Proof. rewrite str_cmp_lex. apply lex_eq, ncmp_eq. Qed.
Lemma str_cmp_refl a : str_cmp a a = Eq.
Proof. rewrite str_cmp_lex. apply lex_refl, N.compare_refl. Qed.
Lemma str_cmp_antisym a b : str_cmp b a = CompOpp (str_cmp a b).
Proof. rewrite !str_cmp_lex. apply lex_antisym, ncmp_antisym. Qed.
Lemma str_cmp_trans a b c : str_cmp a b = Lt -> str_cmp b c = Lt -> str_cmp a c = Lt.
Proof. rewrite !str_cmp_lex. apply lex_trans; [apply ncmp_eq|apply ncmp_trans]. Qed.

Lemma strs_cmp_lex a : forall b, strs_cmp a b = lex str str_cmp a b.
Proof. induction a as [|x a IH]; intros [|y b]; cbn; try reflexivity; now rewrite IH. Qed.

Lemma strs_cmp_eq a b : strs_cmp a b = Eq -> a = b.
Proof. rewrite strs_cmp_lex. apply lex_eq, str_cmp_eq. Qed.
Lemma strs_cmp_refl a : strs_cmp a a = Eq.
Proof. rewrite strs_cmp_lex. apply lex_refl, str_cmp_refl. Qed.
Lemma strs_cmp_antisym a b : strs_cmp b a = CompOpp (strs_cmp a b).
Proof. rewrite !strs_cmp_lex. apply lex_antisym, str_cmp_antisym. Qed.
Lemma strs_cmp_trans a b c : strs_cmp a b = Lt -> strs_cmp b c = Lt -> strs_cmp a c = Lt.
Proof. rewrite !strs_cmp_lex. apply lex_trans; [apply str_cmp_eq|apply str_cmp_trans]. Qed.

Definition sle (a b : list str) : Prop := le (list str) strs_cmp a b.

Lemma sle_refl a : sle a a.
Proof. apply le_refl, strs_cmp_refl. Qed.
Lemma sle_total a b : sle a b \/ sle b a.
Proof. apply le_total, strs_cmp_antisym. Qed.
Lemma sle_trans a b c : sle a b -> sle b c -> sle a c.
Proof. apply le_trans; [apply strs_cmp_eq|apply strs_cmp_trans]. Qed.
Lemma sle_antisym a b : sle a b -> sle b a -> a = b.
Proof. apply le_antisym; [apply strs_cmp_eq|apply strs_cmp_antisym]. Qed.

Lemma strs_leb_sle a b : strs_leb a b = true <-> sle a b.
Proof. unfold strs_leb, sle, le. destruct (strs_cmp a b); split; congruence. Qed.

Lemma strs_eqb_eq a b : strs_eqb a b = true <-> a = b.
Proof.
  unfold strs_eqb. split.
  - destruct (strs_cmp a b) eqn:E; try discriminate. intros _. now apply strs_cmp_eq.
  - intros ->. now rewrite strs_cmp_refl.
Qed.

Lemma sle_nil b : sle [] b.
Proof. unfold sle, le. destruct b; cbn; discriminate. Qed.

Lemma sle_cons_nil x a : ~ sle (x :: a) [].
Proof. unfold sle, le. cbn. congruence. Qed.

Lemma sle_cons x y a b : sle (x :: a) (y :: b) -> str_cmp x y = Lt \/ (x = y /\ sle a b).
Proof.
  unfold sle, le. cbn. destruct (str_cmp x y) eqn:E; intros H.
  - right. apply str_cmp_eq in E. auto.
  - now left.
  - congruence.
Qed.

(* a prefix is not greater *)
Lemma prefix_sle a : forall b, prefix a b -> sle a b.
Proof.
  induction a as [|x a IH]; intros b H; [apply sle_nil|].
  destruct b as [|y b]; [apply prefix_of_nil in H; discriminate|].
  apply prefix_cons_inv in H. destruct H as [<- H]. specialize (IH b H).
  unfold sle, le in *. cbn. now rewrite str_cmp_refl.
Qed.

(* ------------------------------------------------------------------------------------------ longest common prefix *)
Fixpoint lcp (a b : list str) : list str :=
  match a, b with
  | x :: a', y :: b' => if str_eqb x y then x :: lcp a' b' else []
  | _, _ => []
  end.

Lemma lcp_prefix_l a : forall b, prefix (lcp a b) a.
Proof.
  induction a as [|x a IH]; intros b; [apply prefix_nil|].
  destruct b as [|y b]; [apply prefix_nil|]. cbn. destruct (str_eqb x y); [|apply prefix_nil].
  apply prefix_cons, IH.
Qed.

Lemma lcp_prefix_r a : forall b, prefix (lcp a b) b.
Proof.
  induction a as [|x a IH]; intros b; [apply prefix_nil|].
  destruct b as [|y b]; [apply prefix_nil|]. cbn. destruct (str_eqb x y) eqn:E; [|apply prefix_nil].
  apply str_eqb_eq in E. subst. apply prefix_cons, IH.
Qed.

Lemma lcp_greatest c : forall a b, prefix c a -> prefix c b -> prefix c (lcp a b).
Proof.
  induction c as [|z c IH]; intros a b Ha Hb; [apply prefix_nil|].
  destruct a as [|x a]; [apply prefix_of_nil in Ha; discriminate|].
  destruct b as [|y b]; [apply prefix_of_nil in Hb; discriminate|].
  apply prefix_cons_inv in Ha. apply prefix_cons_inv in Hb. destruct Ha as [<- Ha], Hb as [<- Hb].
  cbn. rewrite str_eqb_refl. apply prefix_cons. now apply IH.
Qed.

Lemma lcp_of_prefix a b : prefix a b -> lcp a b = a.
Proof.
  intros H. apply prefix_antisym; [apply lcp_prefix_l|]. apply lcp_greatest; [apply prefix_refl|exact H].
Qed.

(* the sandwich lemma: whatever lies between lo and hi in the lexicographic order starts with their common prefix *)
Lemma lcp_sandwich lo : forall hi m, sle lo m -> sle m hi -> prefix (lcp lo hi) m.
Proof.
  induction lo as [|a lo IH]; intros hi m H1 H2; [apply prefix_nil|].
  destruct hi as [|b hi]; [apply prefix_nil|]. cbn.
  destruct (str_eqb a b) eqn:E; [|apply prefix_nil]. apply str_eqb_eq in E. subst b.
  destruct m as [|c m]; [exfalso; eapply sle_cons_nil; eauto|].
  apply sle_cons in H1. apply sle_cons in H2.
  destruct H1 as [H1|[-> H1]].
  - exfalso. destruct H2 as [H2|[-> _]].
    + rewrite (str_cmp_antisym a c), H1 in H2. discriminate.
    + rewrite str_cmp_refl in H1. discriminate.
  - destruct H2 as [H2|[_ H2]]; [rewrite str_cmp_refl in H2; discriminate|].
    apply prefix_cons. now apply IH.
Qed.

Lemma prefix_sandwich a b m : prefix a b -> sle a m -> sle m b -> prefix a m.
Proof. intros Hp H1 H2. rewrite <- (lcp_of_prefix a b Hp). now apply lcp_sandwich. Qed.

(* the loop of commonprefix computes lcp; it fails only when hi is a proper prefix of lo *)
Lemma cp_loop_lcp lo : forall hi, sle lo hi ->
  exists f, cp_loop lo hi = Some (lcp lo hi, f) /\ (lo = hi -> f = true) /\ (f = true -> lcp lo hi = lo).
Proof.
  induction lo as [|a lo IH]; intros hi H.
  - exists true. cbn. auto.
  - destruct hi as [|b hi]; [exfalso; eapply sle_cons_nil; eauto|].
    cbn. destruct (str_eqb a b) eqn:E.
    + apply str_eqb_eq in E. subst b. apply sle_cons in H.
      destruct H as [H|[_ H]]; [rewrite str_cmp_refl in H; discriminate|].
      destruct (IH hi H) as (f & -> & Hf1 & Hf2). exists f. split; [reflexivity|]. split.
      * intros Heq. inversion Heq. auto.
      * intros Hf. now rewrite (Hf2 Hf).
    + exists false. split; [reflexivity|]. split; [|discriminate].
      intros Heq. inversion Heq; subst. rewrite str_eqb_refl in E. discriminate.
Qed.

(* ------------------------------------------------------------------------------------------ min and max *)
Lemma list_min_spec l : forall x,
  In (list_min x l) (x :: l) /\ forall y, In y (x :: l) -> sle (list_min x l) y.
Proof.
  induction l as [|z l IH]; intros x.
  - cbn. split; [now left|]. intros y [<-|[]]. apply sle_refl.
  - cbn [list_min]. destruct (strs_cmp z x) eqn:E.
    + destruct (IH x) as [Hin Hle]. split.
      * destruct Hin as [Hin|Hin]; [left|right; right]; auto.
      * intros y [<-|[<-|Hy]]; [apply Hle; now left| |apply Hle; now right].
        apply strs_cmp_eq in E. subst. apply Hle. now left.
    + destruct (IH z) as [Hin Hle]. split.
      * destruct Hin as [Hin|Hin]; [right; left|right; right]; auto.
      * intros y [<-|[<-|Hy]]; [|apply Hle; now left|apply Hle; now right].
        apply (sle_trans _ z); [apply Hle; now left|]. apply lt_le. exact E.
    + destruct (IH x) as [Hin Hle]. split.
      * destruct Hin as [Hin|Hin]; [left|right; right]; auto.
      * intros y [<-|[<-|Hy]]; [apply Hle; now left| |apply Hle; now right].
        apply (sle_trans _ x); [apply Hle; now left|]. eapply gt_le; [apply strs_cmp_antisym|exact E].
Qed.

Lemma list_max_spec l : forall x,
  In (list_max x l) (x :: l) /\ forall y, In y (x :: l) -> sle y (list_max x l).
Proof.
  induction l as [|z l IH]; intros x.
  - cbn. split; [now left|]. intros y [<-|[]]. apply sle_refl.
  - cbn [list_max]. destruct (strs_cmp z x) eqn:E.
    + destruct (IH x) as [Hin Hle]. split.
      * destruct Hin as [Hin|Hin]; [left|right; right]; auto.
      * intros y [<-|[<-|Hy]]; [apply Hle; now left| |apply Hle; now right].
        apply strs_cmp_eq in E. subst. apply Hle. now left.
    + destruct (IH x) as [Hin Hle]. split.
      * destruct Hin as [Hin|Hin]; [left|right; right]; auto.
      * intros y [<-|[<-|Hy]]; [apply Hle; now left| |apply Hle; now right].
        apply (sle_trans _ x); [|apply Hle; now left]. apply lt_le. exact E.
    + destruct (IH z) as [Hin Hle]. split.
      * destruct Hin as [Hin|Hin]; [right; left|right; right]; auto.
      * intros y [<-|[<-|Hy]]; [|apply Hle; now left|apply Hle; now right].
        apply (sle_trans _ z); [|apply Hle; now left]. eapply gt_le; [apply strs_cmp_antisym|exact E].
Qed.

(* the key lemma: the common prefix of the lexicographic minimum and maximum is the longest common prefix of all *)
Theorem lcp_min_max x l :
  let c := lcp (list_min x l) (list_max x l) in
  (forall y, In y (x :: l) -> prefix c y) /\
  (forall d, (forall y, In y (x :: l) -> prefix d y) -> prefix d c).
Proof.
  cbn zeta. destruct (list_min_spec l x) as [Hmi Hmin]. destruct (list_max_spec l x) as [Hma Hmax]. split.
  - intros y Hy. apply lcp_sandwich; auto.
  - intros d Hd. apply lcp_greatest; auto.
Qed.

(* ------------------------------------------------------------------------------------------ commonprefix *)
Lemma normal_prefix a b : prefix a b -> normal b -> normal a.
Proof. intros [t ->] H. apply normal_app in H. tauto. Qed.

Lemma root_eqb_neq a b : root_eqb a b = false <-> a <> b.
Proof.
  split.
  - intros H ->. rewrite root_eqb_refl in H. discriminate.
  - intros H. destruct (root_eqb a b) eqn:E; [|reflexivity]. apply root_eqb_eq in E. contradiction.
Qed.

(* For a non-empty list of well-formed paths under one non-absolute root, not all of them the root directory itself:
   commonprefix returns a well-formed path under that root whose components are the longest common prefix of the
   component lists: a prefix of every input, and every common prefix is a prefix of it.  It is flagged a
   non-directory exactly when all inputs have the same components. *)
Theorem commonprefix_spec p0 rest :
  (forall p, In p (p0 :: rest) -> wfp p) ->
  (forall p, In p (p0 :: rest) -> p_root p = p_root p0) ->
  root_eqb (p_root p0) Absolute = false ->
  existsb (fun p => negb (is_nil (p_comps p))) (p0 :: rest) = true ->
  exists r, commonprefix (p0 :: rest) = Some (Some r) /\ wfp r /\ p_root r = p_root p0 /\ p_destdir r = false /\
    (forall p, In p (p0 :: rest) -> prefix (p_comps r) (p_comps p)) /\
    (forall d, (forall p, In p (p0 :: rest) -> prefix d (p_comps p)) -> prefix d (p_comps r)) /\
    (p_dir r = false <-> forall p, In p (p0 :: rest) -> p_comps p = p_comps p0).
Proof.
  intros Hwf Hroot Hrel Hne.
  unfold commonprefix.
  assert (E1 : existsb (fun p => negb (root_eqb (p_root p) (p_root p0))) (p0 :: rest) = false).
  { destruct (existsb (fun p => negb (root_eqb (p_root p) (p_root p0))) (p0 :: rest)) eqn:E; [|reflexivity].
    apply existsb_exists in E. destruct E as (p & Hp & E).
    rewrite (Hroot p Hp), root_eqb_refl in E. discriminate. }
  rewrite E1.
  assert (E2 : map split rest = map p_comps rest).
  { apply map_ext_in. intros p Hp. apply split_rel; [apply Hwf; now right|]. rewrite (Hroot p); [exact Hrel|now right]. }
  rewrite E2, (split_rel p0 (Hwf p0 (or_introl eq_refl)) Hrel).
  set (x := p_comps p0). set (l := map p_comps rest).
  assert (Hin : forall p, In p (p0 :: rest) -> In (p_comps p) (x :: l)).
  { intros p [<-|Hp]; [now left|right]. unfold l. now apply in_map. }
  assert (Hin' : forall y, In y (x :: l) -> exists p, In p (p0 :: rest) /\ p_comps p = y).
  { intros y [<-|Hy]; [exists p0; split; [now left|reflexivity]|].
    unfold l in Hy. apply in_map_iff in Hy. destruct Hy as (p & <- & Hp). exists p. split; [now right|reflexivity]. }
  destruct (list_min_spec l x) as [Hmi Hmin]. destruct (list_max_spec l x) as [Hma Hmax].
  destruct (lcp_min_max x l) as [Hpre Hgr].
  set (lo := list_min x l) in *. set (hi := list_max x l) in *.
  destruct (cp_loop_lcp lo hi (Hmin hi Hma)) as (f & -> & Hf1 & Hf2).
  set (c := lcp lo hi) in *.
  assert (Hcx : prefix c x) by (apply Hpre; now left).
  assert (Hnx : normal x) by (apply (wf_normal p0), Hwf; now left).
  assert (Hnc : normal c) by (eapply normal_prefix; eauto).
  assert (Hndc : nodrive c).
  { destruct c as [|c0 c'] eqn:Ec; [exact I|]. apply (nodrive_prefix _ x); [discriminate|exact Hcx|].
    apply (wf_nodrive p0); [apply Hwf; now left|]. apply wfp_slashes_rel; [apply Hwf; now left|exact Hrel]. }
  (* all inputs equal when lo = hi *)
  assert (Hall : lo = hi -> forall y, In y (x :: l) -> y = lo).
  { intros Heq y Hy. apply sle_antisym; [rewrite Heq; now apply Hmax|now apply Hmin]. }
  set (dirflag := if f then negb (strs_eqb lo hi) else true).
  assert (Hdf : dirflag = false <-> lo = hi).
  { unfold dirflag. split.
    - destruct f; [|discriminate]. rewrite negb_false_iff. apply strs_eqb_eq.
    - intros Heq. rewrite (Hf1 Heq). apply negb_false_iff. now apply strs_eqb_eq. }
  assert (Hguard : dirflag = false -> c <> []).
  { intros Hd Hc. apply Hdf in Hd. apply existsb_exists in Hne. destruct Hne as (p & Hp & Hnn).
    assert (Hlo : lo = c) by (unfold c; rewrite <- Hd; symmetry; apply lcp_of_prefix, prefix_refl).
    rewrite (Hall Hd _ (Hin p Hp)), Hlo, Hc in Hnn. discriminate. }
  assert (Hmk := mk_render (p_root p0) 0 c None (Some dirflag) (Nat.le_0_l 1) Hnc (fun _ => Hndc) (fun _ => Hrel)).
  change (render 0 c) with (join_on c_slash c) in Hmk. rewrite Hmk; clear Hmk.
  2: { intros H. discriminate H. }
  2: { intros H. inversion H as [Hd]. now apply Hguard. }
  eexists. split; [reflexivity|]. cbn [p_root p_comps p_dir p_destdir Nat.ltb Nat.leb truthy].
  split; [|split; [reflexivity|split; [reflexivity|split; [|split]]]].
  - apply wfp_intro; [lia|exact Hnc|intros _; exact Hndc|cbn; now rewrite Hrel| |discriminate].
    intros ->. apply orb_true_r.
  - intros p Hp. apply Hpre. now apply Hin.
  - intros d Hd. apply Hgr. intros y Hy. destruct (Hin' y Hy) as (p & Hp & <-). now apply Hd.
  - split.
    + intros Hd. apply orb_false_iff in Hd. destruct Hd as [Hd _].
      assert (Edf : dirflag = false) by (destruct dirflag; [discriminate Hd|reflexivity]).
      apply Hdf in Edf. intros p Hp. rewrite (Hall Edf _ (Hin p Hp)). symmetry. apply (Hall Edf). now left.
    + intros Heq.
      assert (Hlx : lo = x). { destruct (Hin' lo Hmi) as (p & Hp & <-). now apply Heq. }
      assert (Hhx : hi = x). { destruct (Hin' hi Hma) as (p & Hp & <-). now apply Heq. }
      assert (Hlh : lo = hi) by congruence.
      assert (Edf : dirflag = false) by now apply Hdf.
      rewrite Edf. cbn [orb]. specialize (Hguard Edf). destruct c; [congruence|reflexivity].
Qed.

(* The same for absolute paths, provided they share their first component (otherwise the joined prefix is the
   empty string, which is not an absolute path: known finding commonprefix-absolute-root-only).  Here split() of
   every input starts with the empty string that stands for the leading separator. *)
Theorem commonprefix_spec_abs p0 rest c0 :
  (forall p, In p (p0 :: rest) -> wfp p) ->
  (forall p, In p (p0 :: rest) -> p_root p = p_root p0) ->
  root_eqb (p_root p0) Absolute = true ->
  (forall p, In p (p0 :: rest) -> exists t, p_comps p = c0 :: t) ->
  exists r, commonprefix (p0 :: rest) = Some (Some r) /\ wfp r /\ p_root r = p_root p0 /\ p_destdir r = false /\
    (forall p, In p (p0 :: rest) -> prefix (p_comps r) (p_comps p)) /\
    (forall d, (forall p, In p (p0 :: rest) -> prefix d (p_comps p)) -> prefix d (p_comps r)) /\
    (p_dir r = false <-> forall p, In p (p0 :: rest) -> p_comps p = p_comps p0).
Proof.
  intros Hwf Hroot Habs Hc0.
  unfold commonprefix.
  assert (E1 : existsb (fun p => negb (root_eqb (p_root p) (p_root p0))) (p0 :: rest) = false).
  { destruct (existsb (fun p => negb (root_eqb (p_root p) (p_root p0))) (p0 :: rest)) eqn:E; [|reflexivity].
    apply existsb_exists in E. destruct E as (p & Hp & E).
    rewrite (Hroot p Hp), root_eqb_refl in E. discriminate. }
  rewrite E1.
  assert (Esp : forall p, In p (p0 :: rest) -> split p = [] :: p_comps p).
  { intros p Hp. rewrite (split_wf p (Hwf p Hp)).
    rewrite (wfp_slashes_abs p (Hwf p Hp)) by (rewrite (Hroot p Hp); exact Habs).
    destruct (Hc0 p Hp) as [t ->]. reflexivity. }
  assert (E2 : map split rest = map (fun p => [] :: p_comps p) rest).
  { apply map_ext_in. intros p Hp. apply Esp. now right. }
  rewrite E2, (Esp p0 (or_introl eq_refl)).
  set (x := [] :: p_comps p0). set (l := map (fun p => [] :: p_comps p) rest).
  assert (Hin : forall p, In p (p0 :: rest) -> In ([] :: p_comps p) (x :: l)).
  { intros p [<-|Hp]; [now left|right]. unfold l. apply in_map_iff. exists p. auto. }
  assert (Hin' : forall y, In y (x :: l) -> exists p, In p (p0 :: rest) /\ [] :: p_comps p = y).
  { intros y [<-|Hy]; [exists p0; split; [now left|reflexivity]|].
    unfold l in Hy. apply in_map_iff in Hy. destruct Hy as (p & <- & Hp). exists p. split; [now right|reflexivity]. }
  destruct (list_min_spec l x) as [Hmi Hmin]. destruct (list_max_spec l x) as [Hma Hmax].
  destruct (lcp_min_max x l) as [Hpre Hgr].
  set (lo := list_min x l) in *. set (hi := list_max x l) in *.
  destruct (cp_loop_lcp lo hi (Hmin hi Hma)) as (f & -> & Hf1 & Hf2).
  (* the common prefix starts with the empty string and the shared first component *)
  assert (Hhead : prefix [[]; c0] (lcp lo hi)).
  { apply Hgr. intros y Hy. destruct (Hin' y Hy) as (p & Hp & <-). destruct (Hc0 p Hp) as [t ->].
    exists t. reflexivity. }
  destruct Hhead as [t Ht]. cbn [app] in Ht. rewrite Ht in *.
  set (c' := c0 :: t) in *.
  assert (Hcx : prefix c' (p_comps p0)).
  { assert (P := Hpre x (or_introl eq_refl)). unfold x in P. apply prefix_cons_inv in P. tauto. }
  assert (Hnc : normal c') by (eapply normal_prefix; [exact Hcx|apply (wf_normal p0), Hwf; now left]).
  assert (Hall : lo = hi -> forall y, In y (x :: l) -> y = lo).
  { intros Heq y Hy. apply sle_antisym; [rewrite Heq; now apply Hmax|now apply Hmin]. }
  set (dirflag := if f then negb (strs_eqb lo hi) else true).
  assert (Hdf : dirflag = false <-> lo = hi).
  { unfold dirflag. split.
    - destruct f; [|discriminate]. rewrite negb_false_iff. apply strs_eqb_eq.
    - intros Heq. rewrite (Hf1 Heq). apply negb_false_iff. now apply strs_eqb_eq. }
  match goal with |- context [mk ?s ?a ?b ?d] =>
    assert (Hmk : mk s a b d = Some {| p_root := Absolute; p_drive := []; p_slashes := 1; p_comps := c';
                                       p_dir := truthy (Some dirflag) || is_nil c'; p_destdir := truthy None |})
  end.
  { apply (mk_render (p_root p0) 1 c' None (Some dirflag) (Nat.le_refl 1) Hnc);
      [discriminate|discriminate|intros H; discriminate H|intros _; discriminate]. }
  rewrite Hmk.
  eexists. split; [reflexivity|]. cbn [p_root p_comps p_dir p_destdir Nat.ltb Nat.leb truthy].
  split; [|split; [symmetry; now apply root_eqb_eq|split; [reflexivity|split; [|split]]]].
  - apply wfp_intro; [lia|exact Hnc|discriminate|reflexivity|discriminate|discriminate].
  - intros p Hp. assert (P := Hpre _ (Hin p Hp)). apply prefix_cons_inv in P. tauto.
  - intros d Hd. assert (P : prefix ([] :: d) ([] :: c')).
    { apply Hgr. intros y Hy. destruct (Hin' y Hy) as (p & Hp & <-). apply prefix_cons. now apply Hd. }
    apply prefix_cons_inv in P. tauto.
  - change (is_nil c') with false. rewrite orb_false_r. split.
    + intros Hd.
      assert (Edf : dirflag = false) by (destruct dirflag; [discriminate Hd|reflexivity]).
      apply Hdf in Edf. intros p Hp.
      assert (A := Hall Edf _ (Hin p Hp)). assert (B := Hall Edf x (or_introl eq_refl)). unfold x in B.
      rewrite <- B in A. now inversion A.
    + intros Heq.
      assert (Hlx : lo = x). { destruct (Hin' lo Hmi) as (p & Hp & <-). unfold x. now rewrite (Heq p Hp). }
      assert (Hhx : hi = x). { destruct (Hin' hi Hma) as (p & Hp & <-). unfold x. now rewrite (Heq p Hp). }
      assert (Hlh : lo = hi) by congruence.
      assert (Edf : dirflag = false) by now apply Hdf.
      now rewrite Edf.
Qed.
