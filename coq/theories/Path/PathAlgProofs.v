(* Proofs about the path model (PathAlg.v), part 1: strings, normalisation, containment. *)
From Coq Require Import String List NArith Bool Arith Lia.
From BFG Require Import Base.Chars Path.PathAlg.
Import ListNotations.

(* ------------------------------------------------------------------------------------------ predicates *)
Definition normalc (c : str) : Prop := is_special c = false /\ ~ In c_slash c /\ ~ In c_bs c.
Definition normal (cs : list str) : Prop := Forall normalc cs.
Definition goodc (c : str) : Prop := is_special c = false.

Definition normalcb (c : str) : bool := negb (is_special c) && negb (mem_char c_slash c) && negb (mem_char c_bs c).
Definition normalb (cs : list str) : bool := forallb normalcb cs.

Lemma normalcb_ok c : normalcb c = true <-> normalc c.
Proof.
  unfold normalcb, normalc. rewrite !andb_true_iff, !negb_true_iff.
  split; intros [[H1 H2] H3] || intros [H1 [H2 H3]].
  - repeat split; auto; intro HI; apply mem_char_In in HI; congruence.
  - repeat split; auto.
    + destruct (mem_char c_slash c) eqn:E; auto. apply mem_char_In in E. contradiction.
    + destruct (mem_char c_bs c) eqn:E; auto. apply mem_char_In in E. contradiction.
Qed.

Lemma normalb_ok cs : normalb cs = true <-> normal cs.
Proof.
  unfold normalb, normal. rewrite forallb_forall, Forall_forall.
  split; intros H x Hx; apply normalcb_ok; auto.
Qed.

Lemma normal_good cs : normal cs -> Forall goodc cs.
Proof. apply Forall_impl. intros c [H _]. exact H. Qed.

(* ------------------------------------------------------------------------------------------ eq / hash *)
Lemma eq_hash p q : path_eqb p q = true -> path_hash p = path_hash q.
Proof.
  unfold path_eqb, path_hash. rewrite !andb_true_iff. intros [[_ H] _]. now apply str_eqb_eq.
Qed.

(* ------------------------------------------------------------------------------------------ unbs / swap *)
Lemma unbs_swap s : unbs (swap_seps s) = unbs s.
Proof.
  unfold unbs, swap_seps. rewrite map_map. apply map_ext. intros c.
  destruct (N.eqb c c_bs) eqn:E1.
  - reflexivity.
  - destruct (N.eqb c c_slash) eqn:E2.
    + apply N.eqb_eq in E2. subst. reflexivity.
    + rewrite E1. reflexivity.
Qed.

Lemma unbs_id s : ~ In c_bs s -> unbs s = s.
Proof.
  induction s as [|c s IH]; intros H; [reflexivity|].
  unfold unbs. cbn [map]. fold (unbs s).
  destruct (N.eqb c c_bs) eqn:E.
  - apply N.eqb_eq in E. subst. exfalso. apply H. now left.
  - rewrite IH; [reflexivity|]. intro HI. apply H. now right.
Qed.

Lemma unbs_no_bs s : ~ In c_bs (unbs s).
Proof.
  induction s as [|c s IH]; [cbn; tauto|].
  unfold unbs. cbn [map]. fold (unbs s).
  intros [H|H]; [|tauto].
  destruct (N.eqb c c_bs) eqn:E.
  - discriminate H.
  - apply N.eqb_neq in E. congruence.
Qed.

Lemma unbs_idem s : unbs (unbs s) = unbs s.
Proof. apply unbs_id, unbs_no_bs. Qed.

(* ------------------------------------------------------------------------------------------ split / join *)
Lemma split_on_nonnil sep s : split_on sep s <> [].
Proof.
  destruct s as [|c s]; cbn; [discriminate|].
  destruct (N.eqb c sep); [discriminate|]. destruct (split_on sep s); discriminate.
Qed.

Lemma split_on_nosep sep s : Forall (fun c => ~ In sep c) (split_on sep s).
Proof.
  induction s as [|c s IH]; cbn.
  - constructor; [tauto|constructor].
  - destruct (N.eqb c sep) eqn:E.
    + constructor; [tauto|exact IH].
    + apply N.eqb_neq in E. destruct (split_on sep s) as [|x r].
      * constructor; [|constructor]. intros [H|[]]. congruence.
      * inversion IH as [|? ? Hx Hr]; subst. constructor; [|exact Hr].
        intros [H|H]; [congruence|tauto].
Qed.

Lemma split_on_nosep_id sep c : ~ In sep c -> split_on sep c = [c].
Proof.
  induction c as [|x c IH]; cbn; intros H; [reflexivity|].
  destruct (N.eqb x sep) eqn:E.
  - apply N.eqb_eq in E. subst. exfalso. apply H. now left.
  - rewrite IH; [reflexivity|]. intro HI. apply H. now right.
Qed.

Lemma split_on_app sep a b :
  split_on sep (a ++ sep :: b) = split_on sep a ++ split_on sep b.
Proof.
  induction a as [|x a IH]; cbn.
  - rewrite N.eqb_refl. reflexivity.
  - destruct (N.eqb x sep) eqn:E.
    + rewrite IH. reflexivity.
    + rewrite IH. destruct (split_on sep a) as [|y r] eqn:Ea.
      * exfalso. eapply split_on_nonnil. exact Ea.
      * reflexivity.
Qed.

Lemma split_join sep cs :
  cs <> [] -> Forall (fun c => ~ In sep c) cs -> split_on sep (join_on sep cs) = cs.
Proof.
  induction cs as [|c cs IH]; intros Hne HF; [congruence|].
  inversion HF as [|? ? Hc Hcs]; subst.
  destruct cs as [|c2 cs2].
  - cbn. now apply split_on_nosep_id.
  - change (join_on sep (c :: c2 :: cs2)) with (c ++ sep :: join_on sep (c2 :: cs2)).
    rewrite split_on_app, split_on_nosep_id by assumption.
    rewrite IH; [reflexivity|discriminate|assumption].
Qed.

Lemma join_on_cons sep c cs : cs <> [] -> join_on sep (c :: cs) = c ++ sep :: join_on sep cs.
Proof. destruct cs; [congruence|reflexivity]. Qed.

Lemma join_on_snoc sep cs c : cs <> [] -> join_on sep (cs ++ [c]) = join_on sep cs ++ sep :: c.
Proof.
  induction cs as [|x cs IH]; intros H; [congruence|].
  destruct cs as [|y cs].
  - reflexivity.
  - change ((x :: y :: cs) ++ [c]) with (x :: ((y :: cs) ++ [c])).
    rewrite join_on_cons by (destruct cs; discriminate).
    rewrite IH by discriminate.
    rewrite (join_on_cons sep x (y :: cs)) by discriminate. rewrite <- app_assoc. reflexivity.
Qed.

(* ------------------------------------------------------------------------------------------ normpath *)
Lemma rev_repeat {T} (x : T) n : rev (repeat x n) = repeat x n.
Proof.
  induction n as [|n IH]; [reflexivity|].
  cbn [repeat rev]. rewrite IH. symmetry. apply repeat_cons.
Qed.

Definition skipc (c : str) : bool := str_eqb c [] || str_eqb c dot.

(* the counted form of the normpath loop: k leading pardirs, then names (reversed) *)
Fixpoint cnorm (abs : bool) (k : nat) (nm : list str) (cs : list str) : nat * list str :=
  match cs with
  | [] => (k, nm)
  | c :: cs' =>
      if skipc c then cnorm abs k nm cs'
      else if str_eqb c dotdot then
             match nm with
             | [] => if abs then cnorm abs k [] cs' else cnorm abs (S k) [] cs'
             | _ :: nm' => cnorm abs k nm' cs'
             end
           else cnorm abs k (c :: nm) cs'
  end.

Lemma goodc_not_dotdot a : goodc a -> str_eqb a dotdot = false.
Proof. unfold goodc, is_special. intros H. apply orb_false_iff in H. tauto. Qed.

Lemma special_split c : is_special c = skipc c || str_eqb c dotdot.
Proof. reflexivity. Qed.

Lemma norm_go_cnorm abs cs : forall k nm,
  Forall goodc nm -> (abs = true -> k = 0) ->
  norm_go abs (nm ++ repeat dotdot k) cs =
  repeat dotdot (fst (cnorm abs k nm cs)) ++ rev (snd (cnorm abs k nm cs)).
Proof.
  induction cs as [|c cs IH]; intros k nm Hnm Habs.
  - cbn. rewrite rev_app_distr, rev_repeat. reflexivity.
  - cbn [norm_go cnorm]. fold (skipc c). destruct (skipc c) eqn:Esk.
    + apply IH; assumption.
    + destruct (str_eqb c dotdot) eqn:Edd; cbn [negb orb].
      * destruct nm as [|a nm'].
        -- cbn [app]. destruct k as [|k'].
           ++ cbn [repeat is_nil]. destruct abs; cbn [negb andb orb tl].
              ** apply (IH 0 []); auto.
              ** apply str_eqb_eq in Edd. subst c.
                 apply (IH 1 []); [constructor|discriminate].
           ++ assert (abs = false) as -> by (destruct abs; auto; specialize (Habs eq_refl); discriminate).
              cbn [repeat is_nil negb andb orb]. change (str_eqb dotdot dotdot) with true. cbn [orb].
              apply str_eqb_eq in Edd. subst c.
              apply (IH (S (S k')) []); [constructor|discriminate].
        -- inversion Hnm as [|? ? Ha Hnm']; subst.
           cbn [app is_nil andb]. rewrite andb_false_r. rewrite (goodc_not_dotdot a Ha). cbn [orb tl].
           apply IH; assumption.
      * cbn [orb].
        apply (IH k (c :: nm)); [|assumption].
        constructor; [|assumption]. unfold goodc. rewrite special_split, Esk, Edd. reflexivity.
Qed.

Lemma cnorm_good abs cs : forall k nm, Forall goodc nm -> Forall goodc (snd (cnorm abs k nm cs)).
Proof.
  induction cs as [|c cs IH]; intros k nm H; [exact H|].
  cbn [cnorm]. destruct (skipc c) eqn:Esk; [now apply IH|].
  destruct (str_eqb c dotdot) eqn:Edd.
  - destruct nm as [|a nm']; [destruct abs; apply IH; constructor|].
    inversion H; subst. now apply IH.
  - apply IH. constructor; [|assumption]. unfold goodc. rewrite special_split, Esk, Edd. reflexivity.
Qed.

Lemma cnorm_abs cs : forall nm, fst (cnorm true 0 nm cs) = 0.
Proof.
  induction cs as [|c cs IH]; intros nm; [reflexivity|].
  cbn [cnorm]. destruct (skipc c); [apply IH|].
  destruct (str_eqb c dotdot); [|apply IH]. destruct nm; apply IH.
Qed.

(* components coming out of a split keep having no slash; pushing preserves it *)
Lemma cnorm_pres (P : str -> Prop) abs cs : forall k nm,
  Forall P nm -> Forall P cs -> Forall P (snd (cnorm abs k nm cs)).
Proof.
  induction cs as [|c cs IH]; intros k nm Hn Hc; [exact Hn|].
  inversion Hc; subst. cbn [cnorm]. destruct (skipc c); [now apply IH|].
  destruct (str_eqb c dotdot).
  - destruct nm as [|a nm']; [destruct abs; apply IH; auto|]. inversion Hn; subst. now apply IH.
  - apply IH; auto.
Qed.

Definition normcomps (abs : bool) (cs : list str) : list str := norm_go abs [] cs.

Lemma normcomps_shape abs cs :
  normcomps abs cs = repeat dotdot (fst (cnorm abs 0 [] cs)) ++ rev (snd (cnorm abs 0 [] cs)).
Proof. apply (norm_go_cnorm abs cs 0 []); [constructor|reflexivity]. Qed.

(* pushing a block of good components *)
Lemma cnorm_push abs g : forall k nm rest,
  Forall goodc g -> cnorm abs k nm (g ++ rest) = cnorm abs k (rev g ++ nm) rest.
Proof.
  induction g as [|c g IH]; intros k nm rest H; [reflexivity|].
  inversion H as [|? ? Hc Hg]; subst. cbn [app cnorm].
  unfold goodc in Hc. rewrite special_split in Hc. apply orb_false_iff in Hc. destruct Hc as [-> ->].
  rewrite IH by assumption. cbn [rev]. rewrite <- app_assoc. reflexivity.
Qed.

Lemma norm_go_good abs cs : Forall goodc cs -> normcomps abs cs = cs.
Proof.
  intros H. rewrite normcomps_shape.
  rewrite <- (app_nil_r cs) at 1 2. rewrite cnorm_push by assumption. cbn.
  rewrite app_nil_r, rev_involutive. reflexivity.
Qed.

(* ------------------------------------------------------------------------------------------ escapes (spec) *)
(* walking the raw components from [depth] levels below the root: does the walk ever step above the root? *)
Fixpoint escapes (depth : nat) (cs : list str) : bool :=
  match cs with
  | [] => false
  | c :: cs' =>
      if skipc c then escapes depth cs'
      else if str_eqb c dotdot then
             match depth with 0 => true | S d => escapes d cs' end
           else escapes (S depth) cs'
  end.

Lemma cnorm_escapes cs : forall k nm,
  Nat.ltb 0 (fst (cnorm false k nm cs)) = Nat.ltb 0 k || escapes (length nm) cs.
Proof.
  induction cs as [|c cs IH]; intros k nm.
  - cbn. now rewrite orb_false_r.
  - cbn [cnorm escapes]. destruct (skipc c); [apply IH|].
    destruct (str_eqb c dotdot).
    + destruct nm as [|a nm']; cbn [length].
      * rewrite IH. cbn. now rewrite orb_true_r.
      * apply IH.
    + rewrite IH. reflexivity.
Qed.

Lemma head_dotdot_shape k nm : Forall goodc nm ->
  head_is_dotdot (repeat dotdot k ++ rev nm) = Nat.ltb 0 k.
Proof.
  intros H. destruct k as [|k]; cbn.
  - destruct (rev nm) as [|a r] eqn:E; [reflexivity|]. cbn.
    apply goodc_not_dotdot. rewrite Forall_forall in H. apply H. apply in_rev. rewrite E. now left.
  - reflexivity.
Qed.

(* the containment check of the constructor is exactly the escape predicate *)
Lemma check_is_escapes cs :
  head_is_dotdot (normcomps false cs) = escapes 0 cs.
Proof.
  rewrite normcomps_shape, head_dotdot_shape by (apply cnorm_good; constructor).
  rewrite cnorm_escapes. reflexivity.
Qed.

Lemma check_is_escapes_from base cs : Forall goodc base ->
  head_is_dotdot (normcomps false (base ++ cs)) = escapes (length base) cs.
Proof.
  intros Hb. rewrite normcomps_shape, head_dotdot_shape by (apply cnorm_good; constructor).
  rewrite cnorm_push by assumption. rewrite cnorm_escapes, app_nil_r, rev_length. reflexivity.
Qed.

(* the result of normalisation never contains an empty, dot or (after the check) dotdot component *)
Lemma normcomps_normal_abs cs :
  Forall (fun c => ~ In c_slash c /\ ~ In c_bs c) cs -> normal (normcomps true cs).
Proof.
  intros H. rewrite normcomps_shape, cnorm_abs. cbn [repeat app].
  apply Forall_rev. apply Forall_forall. intros c Hc.
  assert (G := cnorm_good true cs 0 [] (Forall_nil _)).
  assert (Q := cnorm_pres _ true cs 0 [] (Forall_nil _) H).
  rewrite Forall_forall in G, Q. specialize (G c Hc). specialize (Q c Hc).
  unfold normalc. tauto.
Qed.

Lemma normcomps_normal_rel cs :
  Forall (fun c => ~ In c_slash c /\ ~ In c_bs c) cs ->
  head_is_dotdot (normcomps false cs) = false -> normal (normcomps false cs).
Proof.
  intros H Hh. rewrite normcomps_shape in *.
  rewrite head_dotdot_shape in Hh by (apply cnorm_good; constructor).
  destruct (fst (cnorm false 0 [] cs)) as [|k]; [|discriminate]. cbn [repeat app].
  apply Forall_rev. apply Forall_forall. intros c Hc.
  assert (G := cnorm_good false cs 0 [] (Forall_nil _)).
  assert (Q := cnorm_pres _ false cs 0 [] (Forall_nil _) H).
  rewrite Forall_forall in G, Q. specialize (G c Hc). specialize (Q c Hc).
  unfold normalc. tauto.
Qed.

Lemma split_unbs_clean s :
  Forall (fun c => ~ In c_slash c /\ ~ In c_bs c) (split_on c_slash (unbs s)).
Proof.
  assert (A := split_on_nosep c_slash (unbs s)).
  assert (B : Forall (fun c => ~ In c_bs c) (split_on c_slash (unbs s))).
  { assert (Hn := unbs_no_bs s). revert Hn. generalize (unbs s). intros u.
    induction u as [|x u IH]; cbn; intros Hn.
    - constructor; [tauto|constructor].
    - assert (Hu : ~ In c_bs u) by (intro; apply Hn; now right).
      specialize (IH Hu). destruct (N.eqb x c_slash).
      + constructor; [tauto|exact IH].
      + destruct (split_on c_slash u) as [|y r]; [constructor; [|constructor]|].
        * intros [E|[]]. apply Hn. now left.
        * inversion IH; subst. constructor; [|assumption]. intros [E|E]; [apply Hn; now left|tauto]. }
  rewrite Forall_forall in *. intros c Hc. split; auto.
Qed.
