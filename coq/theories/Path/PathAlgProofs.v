(* Proofs about the path model (PathAlg.v). *)
From Coq Require Import String List NArith Bool Arith Lia.
From BFG Require Import Base.Chars Path.PathAlg.
Import ListNotations.

Lemma eq_hash p q : path_eqb p q = true -> path_hash p = path_hash q.
Proof.
  unfold path_eqb, path_hash. rewrite !andb_true_iff. intros [[_ H] _]. now apply str_eqb_eq.
Qed.
