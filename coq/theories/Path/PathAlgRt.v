(* Proofs about the path model, part 3: re-parsing a rendered suffix; idempotence and the JSON round trip. *)
From Coq Require Import String List NArith Bool Arith Lia.
From BFG Require Import Base.Chars Path.PathAlg Path.PathAlgProofs Path.PathAlgMk.
Import ListNotations.

(* the first component does not look like a drive letter prefix *)
Definition nodrive (cs : list str) : Prop :=
  match cs with (_ :: y :: _) :: _ => y <> c_colon | _ => True end.
Definition nodriveb (cs : list str) : bool :=
  match cs with (_ :: y :: _) :: _ => negb (N.eqb y c_colon) | _ => true end.

(* well-formed paths: no drive, at most one leading slash (exactly for the absolute root), normal components,
   flags as the constructor would set them *)
Record wfp (p : path) : Prop := {
  wf_drive : p_drive p = [];
  wf_slashes : Nat.ltb 0 (p_slashes p) = root_eqb (p_root p) Absolute;
  wf_le1 : p_slashes p <= 1;
  wf_normal : normal (p_comps p);
  wf_nodrive : p_slashes p = 0 -> nodrive (p_comps p);
  wf_dir : p_comps p = [] -> p_dir p = true;
  wf_destdir : p_destdir p = true -> is_install (p_root p) || root_eqb (p_root p) Absolute = true
}.

Lemma normalc_cons c : normalc c -> exists x c', c = x :: c' /\ is_slash x = false.
Proof.
  intros [Hs [Hn _]]. destruct c as [|x c']; [discriminate Hs|].
  exists x, c'. split; [reflexivity|]. unfold is_slash. apply N.eqb_neq. intro E. apply Hn. now left.
Qed.

Lemma join_no_bs cs : normal cs -> ~ In c_bs (join_on c_slash cs).
Proof.
  induction cs as [|c cs IH]; intros H; [cbn; tauto|].
  inversion H as [|? ? Hc Hcs]; subst. destruct cs as [|c2 cs2].
  - cbn. apply Hc.
  - change (join_on c_slash (c :: c2 :: cs2)) with (c ++ c_slash :: join_on c_slash (c2 :: cs2)).
    intros Hin. apply in_app_or in Hin. destruct Hin as [Hin|[Hin|Hin]].
    + now apply Hc.
    + discriminate Hin.
    + now apply IH.
Qed.

Lemma render_no_bs k cs : normal cs -> ~ In c_bs (render k cs).
Proof.
  intros H Hin. unfold render in Hin. apply in_app_or in Hin. destruct Hin as [Hin|Hin].
  - apply repeat_spec in Hin. discriminate Hin.
  - now apply (join_no_bs cs).
Qed.

Lemma normal_noslash cs : normal cs -> Forall (fun c => ~ In c_slash c) cs.
Proof. apply Forall_impl. intros c [_ [H _]]. exact H. Qed.

Lemma render_head k cs : k <= 1 -> match cs with c :: _ => normalc c | [] => True end -> (k = 0 -> nodrive cs) ->
  splitdrive (render k cs) = ([], render k cs) /\ initial_slashes (render k cs) = k.
Proof.
  intros Hk Hn Hd.
  destruct cs as [|c cs'].
  - destruct k as [|[|k]]; [| |lia]; cbn; auto.
  - destruct (normalc_cons c Hn) as (x & c' & -> & Hx).
    destruct k as [|[|k]]; [| |lia].
    + specialize (Hd eq_refl). unfold render. cbn [repeat app].
      destruct c' as [|y c''].
      * destruct cs' as [|c2 cs2]; cbn; rewrite ?Hx; auto.
      * cbn in Hd. apply N.eqb_neq in Hd.
        destruct cs' as [|c2 cs2]; cbn; rewrite ?Hx, ?Hd; auto.
    + unfold render. cbn [repeat app].
      destruct cs' as [|c2 cs2]; cbn; rewrite ?Hx; auto.
Qed.

Lemma last_app_nonnil {T} (a b : list T) d : b <> [] -> last (a ++ b) d = last b d.
Proof.
  intros Hb. induction a as [|x a IH]; [reflexivity|].
  cbn [app]. destruct (a ++ b) eqn:E.
  - destruct a; [cbn in E; congruence|discriminate E].
  - rewrite <- IH. reflexivity.
Qed.

Lemma render_split k cs : k <= 1 -> normal cs ->
  norm_go (Nat.ltb 0 k) [] (split_on c_slash (render k cs)) = cs /\
  is_special (posix_basename (render k cs)) = is_nil cs.
Proof.
  intros Hk Hn. unfold posix_basename.
  assert (Hs : split_on c_slash (render k cs) =
               repeat [] k ++ (if is_nil cs then [[]] else cs)).
  { destruct k as [|[|k]]; [| |lia]; unfold render; cbn [repeat app].
    - destruct cs as [|c cs']; [reflexivity|]. cbn [is_nil].
      apply split_join; [discriminate|]. now apply normal_noslash.
    - cbn [split_on]. rewrite N.eqb_refl. f_equal.
      destruct cs as [|c cs']; [reflexivity|]. cbn [is_nil].
      apply split_join; [discriminate|]. now apply normal_noslash. }
  rewrite Hs. split.
  - destruct cs as [|c cs'].
    + destruct k as [|[|k]]; [| |lia]; reflexivity.
    + cbn [is_nil].
      assert (G := norm_go_good (Nat.ltb 0 k) (c :: cs') (normal_good _ Hn)). unfold normcomps in G.
      destruct k as [|[|k]]; [| |lia]; cbn [repeat app]; [exact G|].
      cbn [norm_go]. change (str_eqb [] [] || str_eqb [] dot) with true. cbv iota. exact G.
  - destruct cs as [|c cs'].
    + destruct k as [|[|k]]; [| |lia]; reflexivity.
    + cbn [is_nil]. rewrite last_app_nonnil.
      * assert (Hl : In (last (c :: cs') []) (c :: cs')).
        { destruct (exists_last (l := c :: cs')) as (l' & a & E); [discriminate|].
          rewrite E, last_last. apply in_or_app. right. now left. }
        unfold normal in Hn. rewrite Forall_forall in Hn. apply Hn in Hl. apply Hl.
      * discriminate.
Qed.

Lemma normal_head cs : normal cs -> match cs with c :: _ => normalc c | [] => True end.
Proof. intros H. destruct cs; [exact I|]. now inversion H. Qed.

Lemma normalize_render k cs : k <= 1 -> normal cs -> (k = 0 -> nodrive cs) ->
  normalize (render k cs) = Some ([], k, cs, is_nil cs).
Proof.
  intros Hk Hn Hd. unfold normalize. rewrite unbs_id by now apply render_no_bs.
  destruct (render_head k cs Hk (normal_head cs Hn) Hd) as [-> Hi].
  cbn [is_nil negb andb]. unfold bfg_normpath, posix_normpath. rewrite Hi.
  destruct (render_split k cs Hk Hn) as [-> ->]. reflexivity.
Qed.

Lemma root_eqb_eq a b : root_eqb a b = true -> a = b.
Proof. destruct a, b; cbn; intros H; try reflexivity; discriminate H. Qed.

Lemma root_eqb_refl a : root_eqb a a = true.
Proof. destruct a; reflexivity. Qed.

Lemma normal_head_not_dotdot cs : normal cs -> head_is_dotdot cs = false.
Proof.
  intros H. destruct cs as [|c cs]; [reflexivity|]. inversion H as [|? ? Hc _]; subst.
  cbn. apply goodc_not_dotdot. apply Hc.
Qed.

Lemma destdir_guard p : wfp p ->
  truthy (Some (p_destdir p)) && (negb (is_install (p_root p)) && negb (root_eqb (p_root p) Absolute)) = false.
Proof.
  intros W. destruct (p_destdir p) eqn:E; [|reflexivity]. cbn.
  assert (H := wf_destdir p W E). apply orb_true_iff in H. destruct H as [->| ->]; cbn; auto using andb_false_r.
Qed.

(* building a path again from its own suffix, root and flags gives the same path (reroot to the same root,
   as_directory on a directory, cross()) *)
Theorem mk_idempotent p : wfp p ->
  mk (suffix_str p) (RRoot (p_root p)) (Some (p_destdir p)) (Some (p_dir p)) = Some p.
Proof.
  intros W. destruct W as [Wd Ws Wl Wn Wnd Wdir Wdd] eqn:EW. clear EW.
  assert (G := destdir_guard p ltac:(constructor; assumption)).
  unfold mk. rewrite G. unfold suffix_str. rewrite Wd. cbn [app].
  rewrite (normalize_render _ _ Wl Wn Wnd).
  assert (Hdir : p_dir p || is_nil (p_comps p) = p_dir p).
  { destruct (p_comps p); [rewrite Wdir by reflexivity; reflexivity|cbn; apply orb_false_r]. }
  assert (Hd2 : (match Some (p_dir p) with Some false => true | _ => false end) && is_nil (p_comps p) = false).
  { destruct (p_dir p) eqn:E; [reflexivity|]. destruct (p_comps p); [|reflexivity].
    rewrite Wdir in E by reflexivity. discriminate. }
  rewrite Hd2. rewrite Ws. destruct (root_eqb (p_root p) Absolute) eqn:Er.
  - apply root_eqb_eq in Er. apply Nat.ltb_lt in Ws.
    unfold mk_finish. destruct (p_slashes p) as [|k] eqn:Ek; [lia|]. cbn [Nat.eqb andb].
    destruct p as [r d k0 cs dr dd]. cbn in *. subst. f_equal. f_equal.
    + destruct dr; cbn in *; auto. rewrite orb_false_r in *. exact Hdir.
    + destruct dd; reflexivity.
  - apply Nat.ltb_ge in Ws. assert (Ek : p_slashes p = 0) by lia.
    unfold mk_finish. rewrite Ek. cbn [Nat.eqb andb]. rewrite (normal_head_not_dotdot _ Wn).
    destruct p as [r d k0 cs dr dd]. cbn in *. subst. f_equal. f_equal.
    + destruct dr; cbn in *; auto. rewrite orb_diag. exact Hdir.
    + destruct dd; reflexivity.
Qed.

(* every drive-less non-absolute path the constructor returns for a plain root is well-formed, provided its
   first component does not look like a drive prefix *)
Theorem mk_wf_rel s x dd dir p :
  mk s (RRoot x) dd dir = Some p -> p_root p <> Absolute -> p_drive p = [] -> nodrive (p_comps p) -> wfp p.
Proof.
  intros H Hr Hd Hnd. assert (Hn := mk_normal _ _ _ _ _ H).
  assert (Hg : truthy dd && (negb (is_install x) && negb (root_eqb x Absolute)) = false).
  { unfold mk in H. destruct (truthy dd && _); [discriminate|reflexivity]. }
  apply mk_some in H. destruct H as (d & k & cs & isd & _ & H).
  destruct H as [[Hk H]|[[Hk (x' & Hx & Hxa & H)]|[Hk (b & k' & cs' & isd' & Hb & _)]]].
  - apply mk_finish_some in H. destruct H as [_ ->]. cbn in Hr. congruence.
  - inversion Hx; subst x'. apply mk_finish_some in H. destruct H as [Hh ->]. cbn in *.
    constructor; cbn; auto.
    + intros ->. rewrite orb_true_r. reflexivity.
    + intros Ht. rewrite Ht in Hg. rewrite Hxa in *. cbn in Hg.
      destruct (is_install x); [reflexivity|discriminate].
  - discriminate.
Qed.

(* ------------------------------------------------------------------------------------------ JSON round trip *)
Lemma split_render k cs : k <= 1 -> normal cs ->
  split_on c_slash (render k cs) = repeat [] k ++ (if is_nil cs then [[]] else cs).
Proof.
  intros Hk Hn.
  destruct k as [|[|k]]; [| |lia]; unfold render; cbn [repeat app].
  - destruct cs as [|c cs']; [reflexivity|]. cbn [is_nil].
    apply split_join; [discriminate|]. now apply normal_noslash.
  - cbn [split_on]. rewrite N.eqb_refl. f_equal.
    destruct cs as [|c cs']; [reflexivity|]. cbn [is_nil].
    apply split_join; [discriminate|]. now apply normal_noslash.
Qed.

Lemma ends_with_slash_snoc l z : ends_with_slash (l ++ [z]) = is_slash z.
Proof. unfold ends_with_slash. rewrite rev_unit. reflexivity. Qed.

Lemma ends_with_slash_render k cs : cs <> [] -> normal cs -> ends_with_slash (render k cs) = false.
Proof.
  intros Hne Hn. destruct (exists_last Hne) as (l & c & ->).
  assert (Hc : normalc c).
  { unfold normal in Hn. rewrite Forall_forall in Hn. apply Hn. apply in_or_app. right. now left. }
  assert (Hcne : c <> []) by (destruct Hc as [Hs _]; destruct c; [discriminate Hs|discriminate]).
  destruct (exists_last Hcne) as (c0 & z & ->).
  assert (Hz : is_slash z = false).
  { unfold is_slash. apply N.eqb_neq. intros ->. destruct Hc as [_ [Hs _]]. apply Hs.
    apply in_or_app. right. now left. }
  assert (E : exists pre, render k (l ++ [c0 ++ [z]]) = pre ++ [z]).
  { unfold render. destruct l as [|a l'].
    - exists (repeat c_slash k ++ c0). cbn [app join_on]. now rewrite app_assoc.
    - rewrite join_on_snoc by discriminate.
      exists (repeat c_slash k ++ join_on c_slash (a :: l') ++ c_slash :: c0).
      rewrite <- !app_assoc. cbn [app]. reflexivity. }
  destruct E as [pre E]. transitivity (ends_with_slash (pre ++ [z])); [f_equal; exact E|].
  rewrite ends_with_slash_snoc. exact Hz.
Qed.

Lemma norm_skip_tail abs cs : Forall goodc cs -> norm_go abs [] (cs ++ [[]]) = cs.
Proof.
  intros H. fold (normcomps abs (cs ++ [[]])). rewrite normcomps_shape.
  rewrite cnorm_push by assumption. cbn. rewrite app_nil_r, rev_involutive. reflexivity.
Qed.

Lemma normalize_render_trail k cs : k <= 1 -> cs <> [] -> normal cs -> (k = 0 -> nodrive cs) ->
  normalize (render k cs ++ [c_slash]) = Some ([], k, cs, true).
Proof.
  intros Hk Hne Hn Hd. unfold normalize.
  assert (Hbs : ~ In c_bs (render k cs ++ [c_slash])).
  { intros Hin. apply in_app_or in Hin. destruct Hin as [Hin|[Hin|[]]]; [|discriminate Hin].
    now apply (render_no_bs k cs). }
  rewrite unbs_id by assumption.
  assert (Er : render k cs ++ [c_slash] = render k (cs ++ [[]])).
  { unfold render. rewrite join_on_snoc by assumption. now rewrite <- app_assoc. }
  assert (Hh : match cs ++ [[]] with c :: _ => normalc c | [] => True end).
  { destruct cs as [|c cs']; [congruence|]. cbn. now inversion Hn. }
  assert (Hd' : k = 0 -> nodrive (cs ++ [[]])).
  { intros E. specialize (Hd E). destruct cs as [|c cs']; [congruence|]. exact Hd. }
  destruct (render_head k (cs ++ [[]]) Hk Hh Hd') as [Es Hi].
  rewrite <- Er in Es, Hi. rewrite Es. cbn [is_nil negb andb].
  unfold bfg_normpath, posix_normpath. rewrite Hi.
  assert (Hsp : split_on c_slash (render k cs ++ [c_slash]) = repeat [] k ++ cs ++ [[]]).
  { rewrite split_on_app, (split_render k cs Hk Hn). destruct cs; [congruence|]. cbn [is_nil split_on].
    now rewrite <- app_assoc. }
  unfold posix_basename. rewrite Hsp. f_equal. f_equal; [f_equal|].
  - destruct k as [|[|k]]; [| |lia]; cbn [repeat app].
    + apply norm_skip_tail. now apply normal_good.
    + cbn [norm_go]. change (str_eqb [] [] || str_eqb [] dot) with true. cbv iota.
      apply norm_skip_tail. now apply normal_good.
  - rewrite app_assoc, last_last. reflexivity.
Qed.

Lemma root_of_name_name r : root_of_name (root_name r) = Some r.
Proof. destruct r; vm_compute; reflexivity. Qed.

Theorem json_roundtrip p : wfp p -> from_json (to_json p) = Some p.
Proof.
  intros W. assert (Hid := mk_idempotent p W).
  destruct W as [Wd Ws Wl Wn Wnd Wdir Wdd] eqn:EW. clear EW.
  assert (G := destdir_guard p ltac:(constructor; assumption)).
  unfold from_json, to_json. rewrite root_of_name_name.
  unfold mk in *. rewrite G in *. unfold suffix_str in *. rewrite Wd in *. cbn [app] in *.
  rewrite (normalize_render _ _ Wl Wn Wnd) in Hid.
  destruct (p_comps p) as [|c cs'] eqn:Ec.
  - (* the root directory itself *)
    rewrite (Wdir eq_refl) in *. cbn [andb].
    assert (Hk : p_slashes p = 0 \/ p_slashes p = 1) by lia.
    destruct Hk as [Hk|Hk]; rewrite Hk in *.
    + change (render 0 []) with (@nil char) in *. cbn [is_nil ends_with_slash rev negb].
      change (normalize (dot ++ [c_slash])) with (Some (@nil char, 0, @nil str, true)).
      cbn [is_nil andb] in Hid. exact Hid.
    + change (render 1 []) with [c_slash] in *.
      change (ends_with_slash [c_slash]) with true. cbn [negb].
      change (normalize [c_slash]) with (Some (@nil char, 1, @nil str, true)).
      cbn [is_nil andb] in Hid. cbn [andb].
      destruct (root_eqb (p_root p) Absolute); exact Hid.
  - rewrite <- Ec in *. assert (Hne : p_comps p <> []) by (rewrite Ec; discriminate).
    rewrite (ends_with_slash_render _ _ Hne Wn). cbn [negb]. rewrite andb_true_r.
    assert (Hnil : is_nil (p_comps p) = false) by (rewrite Ec; reflexivity).
    rewrite Hnil in Hid. rewrite andb_false_r in Hid.
    destruct (p_dir p) eqn:Edir.
    + assert (Hr : is_nil (render (p_slashes p) (p_comps p)) = false).
      { rewrite Ec. destruct (normalc_cons c) as (x & c' & -> & _).
        - rewrite Ec in Wn. now inversion Wn.
        - unfold render. destruct (p_slashes p); [|reflexivity]. destruct cs'; reflexivity. }
      rewrite Hr. rewrite (normalize_render_trail _ _ Wl Hne Wn Wnd). cbn [andb].
      unfold mk_finish in *. cbn [truthy orb] in *. exact Hid.
    + rewrite (normalize_render _ _ Wl Wn Wnd). rewrite Hnil. cbn [andb].
      unfold mk_finish in *. cbn [truthy orb] in *. exact Hid.
Qed.
