(* Proofs about the path model, part 7: uniquetrees.  The paths are sorted by (root value, components); in the sorted
   list everything below a path follows it immediately (sandwich lemma), so one scan that remembers the last kept
   key returns a covering antichain. *)
From Coq Require Import String List NArith Bool Arith Lia Sorting.Sorted.
From BFG Require Import Base.Chars Path.PathAlg Path.PathAlgProofs Path.PathAlgMk Path.PathAlgRt Path.PathAlgNested
                        Path.PathAlgWf Path.PathAlgOrder.
Import ListNotations.

(* ------------------------------------------------------------------------------------------ the order on keys *)
Definition kle (a b : key) : Prop := key_leb a b = true.

Lemma kle_iff a b : kle a b <-> (fst a < fst b)%N \/ (fst a = fst b /\ sle (snd a) (snd b)).
Proof.
  unfold kle, key_leb. destruct (N.compare_spec (fst a) (fst b)) as [E|E|E].
  - rewrite strs_leb_sle. split; [auto|]. intros [H|[_ H]]; [lia|exact H].
  - split; [auto|reflexivity].
  - split; [discriminate|]. intros [H|[H _]]; lia.
Qed.

Lemma kle_refl a : kle a a.
Proof. apply kle_iff. right. split; [reflexivity|apply sle_refl]. Qed.

Lemma kle_total a b : kle a b \/ kle b a.
Proof.
  rewrite !kle_iff. destruct (N.lt_trichotomy (fst a) (fst b)) as [H|[H|H]]; auto.
  destruct (sle_total (snd a) (snd b)); auto.
Qed.

Lemma kle_trans a b c : kle a b -> kle b c -> kle a c.
Proof.
  rewrite !kle_iff. intros [H1|[H1 S1]] [H2|[H2 S2]]; try (left; lia).
  right. split; [lia|]. eapply sle_trans; eauto.
Qed.

Lemma kle_antisym a b : kle a b -> kle b a -> a = b.
Proof.
  rewrite !kle_iff. intros [H1|[H1 S1]] [H2|[H2 S2]]; try lia.
  destruct a, b; cbn in *. f_equal; [exact H1|]. now apply sle_antisym.
Qed.

(* a is an ancestor of (or equal to) b, on keys *)
Definition kprefix (a b : key) : Prop := fst a = fst b /\ prefix (snd a) (snd b).

Lemma kprefix_refl a : kprefix a a.
Proof. split; [reflexivity|apply prefix_refl]. Qed.

Lemma kprefix_kle a b : kprefix a b -> kle a b.
Proof. intros [H1 H2]. apply kle_iff. right. split; [exact H1|]. now apply prefix_sle. Qed.

Lemma k_sandwich a b m : kprefix a b -> kle a m -> kle m b -> kprefix a m.
Proof.
  intros [H1 H2]. rewrite !kle_iff. intros [L1|[L1 S1]] [L2|[L2 S2]]; try lia.
  split; [exact L1|]. eapply prefix_sandwich; eauto.
Qed.

Lemma zip_all_eq_iff a : forall b, zip_all_eq a b = true <-> prefix a b \/ prefix b a.
Proof.
  induction a as [|x a IH]; intros b.
  - cbn. split; [intros _; left; apply prefix_nil|reflexivity].
  - destruct b as [|y b].
    + cbn. split; [intros _; right; apply prefix_nil|reflexivity].
    + cbn. rewrite andb_true_iff, str_eqb_eq, IH. split.
      * intros [-> [H|H]]; [left|right]; now apply prefix_cons.
      * intros [H|H]; apply prefix_cons_inv in H; destruct H as [-> H]; auto.
Qed.

Lemma ischild_iff a b : ischild a b = true <-> kprefix a b \/ kprefix b a.
Proof.
  unfold ischild, kprefix. rewrite andb_true_iff, N.eqb_eq, zip_all_eq_iff. split.
  - intros [H [P|P]]; [left|right]; auto.
  - intros [[H P]|[H P]]; auto.
Qed.

(* in sorted position the test is exactly "ancestor or equal" *)
Lemma ischild_sorted a b : kle a b -> (ischild a b = true <-> kprefix a b).
Proof.
  intros L. rewrite ischild_iff. split; [|auto].
  intros [H|H]; [exact H|]. assert (E : b = a) by (apply kle_antisym; [now apply kprefix_kle|exact L]).
  subst. apply kprefix_refl.
Qed.

(* ------------------------------------------------------------------------------------------ the sort *)
Definition pk := (path * key)%type.
Definition pkle (x y : pk) : Prop := kle (snd x) (snd y).
Definition keyed (l : list pk) : Prop := Forall (fun x => snd x = key_of (fst x)) l.

Lemma insert_key_in x l z : In z (insert_key x l) <-> z = x \/ In z l.
Proof.
  induction l as [|y l IH]; cbn.
  - split; [intros [H|[]]; auto|intros [H|[]]; auto].
  - destruct (key_leb (snd x) (snd y)); cbn; [split; intros [H|H]; auto|].
    rewrite IH. tauto.
Qed.

Lemma sort_keys_in l z : In z (sort_keys l) <-> In z l.
Proof.
  induction l as [|x l IH]; cbn; [tauto|]. rewrite insert_key_in, IH. split; intros [H|H]; auto.
Qed.

Lemma insert_key_sorted x l : StronglySorted pkle l -> StronglySorted pkle (insert_key x l).
Proof.
  induction l as [|y l IH]; intros H; cbn.
  - constructor; constructor.
  - inversion H as [|? ? Hs Hf]; subst.
    destruct (key_leb (snd x) (snd y)) eqn:E.
    + constructor; [exact H|]. constructor; [exact E|].
      rewrite Forall_forall in *. intros z Hz. apply (kle_trans _ (snd y)); [exact E|now apply Hf].
    + constructor; [now apply IH|].
      rewrite Forall_forall in *. intros z Hz. apply insert_key_in in Hz. destruct Hz as [->|Hz]; [|now apply Hf].
      destruct (kle_total (snd x) (snd y)) as [L|L]; [unfold kle in L; congruence|exact L].
Qed.

Lemma sort_keys_sorted l : StronglySorted pkle (sort_keys l).
Proof. induction l as [|x l IH]; cbn; [constructor|now apply insert_key_sorted]. Qed.

(* ------------------------------------------------------------------------------------------ the scan *)
Lemma ut_scan_incl l : forall last u, In u (ut_scan last l) -> exists k, In (u, k) l.
Proof.
  induction l as [|[p k] l IH]; intros last u H; cbn in H; [contradiction|].
  destruct (ischild last k).
  - destruct (IH _ _ H) as [k' Hk]. exists k'. now right.
  - destruct H as [<-|H]; [exists k; now left|]. destruct (IH _ _ H) as [k' Hk]. exists k'. now right.
Qed.

Lemma ut_scan_cover l : forall last,
  Forall (fun y => kle last (snd y)) l -> StronglySorted pkle l -> keyed l ->
  forall p k, In (p, k) l -> kprefix last k \/ exists u, In u (ut_scan last l) /\ kprefix (key_of u) k.
Proof.
  induction l as [|[q kq] l IH]; intros last Hle Hs Hk p k Hin; [contradiction|].
  assert (Hq := Forall_inv Hle). assert (Hle' := Forall_inv_tail Hle). cbn in Hq.
  assert (Hkq := Forall_inv Hk). assert (Hk' := Forall_inv_tail Hk). cbn in Hkq.
  apply StronglySorted_inv in Hs. destruct Hs as [Hs' Hf].
  cbn [ut_scan]. destruct (ischild last kq) eqn:E.
  - destruct Hin as [Heq|Hin].
    + inversion Heq; subst. left. now apply ischild_sorted.
    + exact (IH last Hle' Hs' Hk' p k Hin).
  - right. destruct Hin as [Heq|Hin].
    + inversion Heq as [[Ep Ek]]. exists q. split; [now left|]. rewrite <- Hkq, Ek. apply kprefix_refl.
    + destruct (IH kq Hf Hs' Hk' p k Hin) as [H|(u & Hu & H)].
      * exists q. split; [now left|]. now rewrite <- Hkq.
      * exists u. split; [now right|exact H].
Qed.

(* the kept paths are pairwise incomparable, and none of them lies below the last kept key *)
Lemma ut_scan_antichain l : forall last,
  Forall (fun y => kle last (snd y)) l -> StronglySorted pkle l -> keyed l ->
  ForallOrdPairs (fun u v => ischild (key_of u) (key_of v) = false) (ut_scan last l) /\
  Forall (fun u => ischild last (key_of u) = false) (ut_scan last l).
Proof.
  induction l as [|[q kq] l IH]; intros last Hle Hs Hk; [split; constructor|].
  assert (Hq := Forall_inv Hle). assert (Hle' := Forall_inv_tail Hle). cbn in Hq.
  assert (Hkq := Forall_inv Hk). assert (Hk' := Forall_inv_tail Hk). cbn in Hkq.
  apply StronglySorted_inv in Hs. destruct Hs as [Hs' Hf].
  cbn [ut_scan]. destruct (ischild last kq) eqn:E.
  - now apply IH.
  - destruct (IH kq Hf Hs' Hk') as [A B]. split.
    + constructor; [|exact A]. rewrite <- Hkq. exact B.
    + constructor; [now rewrite <- Hkq|].
      rewrite Forall_forall. intros u Hu.
      destruct (ut_scan_incl _ _ _ Hu) as [ku Hin].
      assert (Eku : ku = key_of u). { rewrite Forall_forall in Hk'. exact (Hk' _ Hin). }
      assert (L2 : kle kq ku). { rewrite Forall_forall in Hf. exact (Hf _ Hin). }
      destruct (ischild last (key_of u)) eqn:E2; [|reflexivity]. exfalso.
      rewrite <- Eku in E2. apply ischild_sorted in E2; [|eapply kle_trans; eauto].
      assert (P : kprefix last kq) by (eapply k_sandwich; eauto).
      apply (ischild_sorted _ _ Hq) in P. congruence.
Qed.

(* ------------------------------------------------------------------------------------------ uniquetrees on keys *)
Lemma keyed_map ps : keyed (map (fun p => (p, key_of p)) ps).
Proof. unfold keyed. rewrite Forall_forall. intros x Hx. apply in_map_iff in Hx. destruct Hx as (p & <- & _). reflexivity. Qed.

Theorem uniquetrees_keys ps :
  incl (uniquetrees ps) ps /\
  (forall p, In p ps -> exists u, In u (uniquetrees ps) /\ kprefix (key_of u) (key_of p)) /\
  ForallOrdPairs (fun u v => ischild (key_of u) (key_of v) = false) (uniquetrees ps).
Proof.
  unfold uniquetrees.
  set (l0 := map (fun p => (p, key_of p)) ps).
  assert (Hs := sort_keys_sorted l0).
  assert (Hk : keyed (sort_keys l0)).
  { unfold keyed. rewrite Forall_forall. intros x Hx. apply (proj1 (sort_keys_in _ _)) in Hx.
    assert (K := keyed_map ps). unfold keyed in K. rewrite Forall_forall in K. exact (K x Hx). }
  assert (Hin : forall p k, In (p, k) (sort_keys l0) -> In p ps).
  { intros p k H. apply (proj1 (sort_keys_in _ _)) in H. unfold l0 in H. apply in_map_iff in H.
    destruct H as (p' & E & H). inversion E; subst. exact H. }
  assert (Hin' : forall p, In p ps -> In (p, key_of p) (sort_keys l0)).
  { intros p H. apply sort_keys_in. unfold l0. apply in_map_iff. exists p. auto. }
  destruct (sort_keys l0) as [|[p0 k0] l] eqn:El.
  - split; [intros u []|]. split; [|constructor]. intros p Hp. destruct (Hin' p Hp).
  - apply StronglySorted_inv in Hs. destruct Hs as [Hs' Hf].
    assert (Hk0 := Forall_inv Hk). assert (Hk' := Forall_inv_tail Hk). cbn in Hk0.
    assert (Hf' : Forall (fun y => kle k0 (snd y)) l) by exact Hf.
    split; [|split].
    + intros u [Hu|Hu]; [subst u; apply (Hin p0 k0); now left|].
      destruct (ut_scan_incl _ _ _ Hu) as [k Hk1]. apply (Hin u k). now right.
    + intros p Hp. destruct (Hin' p Hp) as [E|H].
      * inversion E; subst. exists p. split; [now left|apply kprefix_refl].
      * destruct (ut_scan_cover l k0 Hf' Hs' Hk' p (key_of p) H) as [P|(u & Hu & P)].
        -- exists p0. split; [now left|]. now rewrite <- Hk0.
        -- exists u. split; [now right|exact P].
    + destruct (ut_scan_antichain l k0 Hf' Hs' Hk') as [A B].
      constructor; [|exact A]. now rewrite <- Hk0.
Qed.

(* ------------------------------------------------------------------------------------------ uniquetrees on paths *)
(* u is p or an ancestor directory of p *)
Definition under (u p : path) : Prop := p_root u = p_root p /\ prefix (p_comps u) (p_comps p).

(* the file-system root itself is excluded: its split is two empty strings, which is no prefix of the split of
   the paths below it (known finding uniquetrees-filesystem-root) *)
Definition not_fsroot (p : path) : Prop := p_comps p = [] -> p_slashes p = 0.

Lemma split_wf' p : wfp p -> not_fsroot p -> split p = repeat [] (p_slashes p) ++ p_comps p.
Proof.
  intros W H. rewrite (split_wf p W). destruct (p_comps p) eqn:E; [|reflexivity].
  rewrite (H E). reflexivity.
Qed.

Lemma same_root_slashes u p : wfp u -> wfp p -> p_root u = p_root p -> p_slashes u = p_slashes p.
Proof.
  intros Wu Wp E. destruct (root_eqb (p_root p) Absolute) eqn:R.
  - rewrite (wfp_slashes_abs p Wp R). apply wfp_slashes_abs; [exact Wu|now rewrite E].
  - rewrite (wfp_slashes_rel p Wp R). apply wfp_slashes_rel; [exact Wu|now rewrite E].
Qed.

Lemma kprefix_under u p : wfp u -> wfp p -> not_fsroot u -> not_fsroot p ->
  (root_value (p_root u) = root_value (p_root p) -> p_root u = p_root p) ->
  (kprefix (key_of u) (key_of p) <-> under u p).
Proof.
  intros Wu Wp Nu Np Inj. unfold kprefix, under, key_of. cbn [fst snd].
  rewrite (split_wf' u Wu Nu), (split_wf' p Wp Np). split.
  - intros [H1 H2]. specialize (Inj H1). split; [exact Inj|].
    rewrite (same_root_slashes u p Wu Wp Inj) in H2. now apply prefix_app_inv in H2.
  - intros [H1 H2]. split; [now rewrite H1|].
    rewrite (same_root_slashes u p Wu Wp H1). now apply prefix_app.
Qed.

Lemma FOP_impl_in {T} (R R' : T -> T -> Prop) l :
  (forall u v, In u l -> In v l -> R u v -> R' u v) -> ForallOrdPairs R l -> ForallOrdPairs R' l.
Proof.
  intros H F. induction F as [|a l Ha F IH]; [constructor|].
  constructor.
  - rewrite Forall_forall in *. intros v Hv. apply H; [now left|now right|now apply Ha].
  - apply IH. intros u v Hu Hv. apply H; now right.
Qed.

(* For well-formed inputs (none of them the file-system root itself) whose roots have distinct values:
   the result is a subset of the input, every input lies below or equals some result, and no result lies below
   or equals another result (in particular the result has no duplicates). *)
Theorem uniquetrees_spec ps :
  (forall p, In p ps -> wfp p /\ not_fsroot p) ->
  (forall p q, In p ps -> In q ps -> root_value (p_root p) = root_value (p_root q) -> p_root p = p_root q) ->
  incl (uniquetrees ps) ps /\
  (forall p, In p ps -> exists u, In u (uniquetrees ps) /\ under u p) /\
  ForallOrdPairs (fun u v => ~ under u v /\ ~ under v u) (uniquetrees ps).
Proof.
  intros Hwf Hinj. destruct (uniquetrees_keys ps) as (Hincl & Hcov & Hanti).
  split; [exact Hincl|]. split.
  - intros p Hp. destruct (Hcov p Hp) as (u & Hu & P). exists u. split; [exact Hu|].
    assert (Hu' := Hincl u Hu).
    apply (kprefix_under u p); try apply Hwf; auto.
  - revert Hanti. apply FOP_impl_in. intros u v Hu Hv E.
    assert (Hu' := Hincl u Hu). assert (Hv' := Hincl v Hv).
    split; intros U.
    + apply (kprefix_under u v) in U; try apply Hwf; auto.
      assert (T : ischild (key_of u) (key_of v) = true) by (apply ischild_iff; now left). congruence.
    + apply (kprefix_under v u) in U; try apply Hwf; auto.
      assert (T : ischild (key_of u) (key_of v) = true) by (apply ischild_iff; now right). congruence.
Qed.
