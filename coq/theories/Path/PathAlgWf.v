(* Proofs about the path model, part 5: shared facts about well-formed paths - the constructor applied to a
   rendered component list, the split of a well-formed path, prefixes of component lists. *)
From Coq Require Import String List NArith Bool Arith Lia.
From BFG Require Import Base.Chars Path.PathAlg Path.PathAlgProofs Path.PathAlgMk Path.PathAlgRt Path.PathAlgNested.
Import ListNotations.

(* ------------------------------------------------------------------------------------------ prefixes *)
Definition prefix {T} (a b : list T) : Prop := exists t, b = a ++ t.

Lemma prefix_nil {T} (b : list T) : prefix [] b.
Proof. exists b. reflexivity. Qed.

Lemma prefix_refl {T} (a : list T) : prefix a a.
Proof. exists []. now rewrite app_nil_r. Qed.

Lemma prefix_cons {T} (x : T) a b : prefix a b -> prefix (x :: a) (x :: b).
Proof. intros [t ->]. exists t. reflexivity. Qed.

Lemma prefix_cons_inv {T} (x y : T) a b : prefix (x :: a) (y :: b) -> x = y /\ prefix a b.
Proof. intros [t H]. cbn in H. inversion H; subst. split; [reflexivity|]. exists t. reflexivity. Qed.

Lemma prefix_trans {T} (a b c : list T) : prefix a b -> prefix b c -> prefix a c.
Proof. intros [t ->] [u ->]. exists (t ++ u). now rewrite app_assoc. Qed.

Lemma prefix_of_nil {T} (a : list T) : prefix a [] -> a = [].
Proof. intros [t H]. destruct a; [reflexivity|discriminate H]. Qed.

Lemma prefix_length {T} (a b : list T) : prefix a b -> length a <= length b.
Proof. intros [t ->]. rewrite app_length. lia. Qed.

Lemma prefix_antisym {T} (a b : list T) : prefix a b -> prefix b a -> a = b.
Proof.
  intros [t ->] [u H]. rewrite <- app_assoc in H. rewrite <- (app_nil_r a) in H at 1.
  apply app_inv_head in H. symmetry in H. apply app_eq_nil in H. destruct H as [-> _]. now rewrite app_nil_r.
Qed.

Lemma prefix_app {T} (c a b : list T) : prefix a b -> prefix (c ++ a) (c ++ b).
Proof. intros [t ->]. exists t. now rewrite app_assoc. Qed.

Lemma prefix_app_inv {T} (c a b : list T) : prefix (c ++ a) (c ++ b) -> prefix a b.
Proof. intros [t H]. rewrite <- app_assoc in H. apply app_inv_head in H. exists t. exact H. Qed.

(* ------------------------------------------------------------------------------------------ nodrive *)
Lemma nodriveb_ok cs : nodriveb cs = true <-> nodrive cs.
Proof.
  unfold nodriveb, nodrive. destruct cs as [|[|x [|y c]] cs]; try tauto.
  rewrite negb_true_iff, N.eqb_neq. tauto.
Qed.

Lemma nodrive_prefix a b : a <> [] -> prefix a b -> nodrive b -> nodrive a.
Proof. intros Hne [t ->] H. destruct a; [congruence|exact H]. Qed.

Lemma nodrive_app a b : a <> [] -> nodrive a -> nodrive (a ++ b).
Proof. intros Hne H. destruct a; [congruence|exact H]. Qed.

Lemma normal_app a b : normal (a ++ b) <-> normal a /\ normal b.
Proof. unfold normal. apply Forall_app. Qed.

(* ------------------------------------------------------------------------------------------ mk on a rendering *)
Definition dd_ok (r : root) (dd : option bool) : Prop :=
  truthy dd = true -> is_install r || root_eqb r Absolute = true.

Lemma dd_ok_guard r dd : dd_ok r dd ->
  truthy dd && (negb (is_install r) && negb (root_eqb r Absolute)) = false.
Proof.
  unfold dd_ok. intros H. destruct (truthy dd); [|reflexivity]. specialize (H eq_refl).
  apply orb_true_iff in H. destruct H as [-> | ->]; cbn; auto using andb_false_r.
Qed.

(* the constructor applied to the rendering of a normal component list (at most one leading slash) *)
Lemma mk_render r k cs dd dir :
  k <= 1 -> normal cs -> (k = 0 -> nodrive cs) -> (k = 0 -> root_eqb r Absolute = false) ->
  dd_ok r dd -> (dir = Some false -> cs <> []) ->
  mk (render k cs) (RRoot r) dd dir =
  Some {| p_root := if Nat.ltb 0 k then Absolute else r; p_drive := []; p_slashes := k; p_comps := cs;
          p_dir := truthy dir || is_nil cs; p_destdir := truthy dd |}.
Proof.
  intros Hk Hn Hnd Hr Hdd Hdir. unfold mk. rewrite (dd_ok_guard _ _ Hdd).
  rewrite (normalize_render _ _ Hk Hn Hnd).
  assert (G : (match dir with Some false => true | _ => false end) && is_nil cs = false).
  { destruct dir as [[|]|]; try reflexivity. destruct cs; [now specialize (Hdir eq_refl)|reflexivity]. }
  rewrite G. unfold mk_finish.
  destruct k as [|[|k]]; [| |lia].
  - cbn [Nat.ltb Nat.leb Nat.eqb andb]. rewrite (Hr eq_refl), (normal_head_not_dotdot _ Hn).
    f_equal. f_equal. destruct (truthy dir), (is_nil cs); reflexivity.
  - cbn [Nat.ltb Nat.leb Nat.eqb andb]. f_equal. f_equal.
    destruct (truthy dir), (is_nil cs); reflexivity.
Qed.

Lemma wfp_intro r k cs d dd :
  k <= 1 -> normal cs -> (k = 0 -> nodrive cs) -> Nat.ltb 0 k = root_eqb r Absolute ->
  (cs = [] -> d = true) -> (dd = true -> is_install r || root_eqb r Absolute = true) ->
  wfp {| p_root := r; p_drive := []; p_slashes := k; p_comps := cs; p_dir := d; p_destdir := dd |}.
Proof. intros. constructor; cbn; auto. Qed.

Lemma wfp_dd_ok p : wfp p -> dd_ok (p_root p) (Some (p_destdir p)).
Proof. intros W H. cbn in H. apply (wf_destdir p W). destruct (p_destdir p); [reflexivity|discriminate H]. Qed.

Lemma wfp_slashes_abs p : wfp p -> root_eqb (p_root p) Absolute = true -> p_slashes p = 1.
Proof.
  intros W H. assert (A := wf_slashes p W). assert (B := wf_le1 p W). rewrite H in A.
  apply Nat.ltb_lt in A. lia.
Qed.

Lemma wfp_slashes_rel p : wfp p -> root_eqb (p_root p) Absolute = false -> p_slashes p = 0.
Proof.
  intros W H. assert (A := wf_slashes p W). rewrite H in A. apply Nat.ltb_ge in A. lia.
Qed.

Lemma wfp_suffix p : wfp p -> suffix_str p = render (p_slashes p) (p_comps p).
Proof. intros W. unfold suffix_str. now rewrite (wf_drive p W). Qed.

(* ------------------------------------------------------------------------------------------ split *)
Lemma join_nonnil c cs : normal (c :: cs) -> is_nil (join_on c_slash (c :: cs)) = false.
Proof. intros H. destruct (join_cons_shape c cs H) as (x & r & -> & _). reflexivity. Qed.

Lemma render_nonnil k cs : normal cs -> is_nil (render k cs) = Nat.eqb k 0 && is_nil cs.
Proof.
  intros H. unfold render. destruct k as [|k]; [|reflexivity]. cbn [repeat app Nat.eqb andb].
  destruct cs as [|c cs]; [reflexivity|]. now apply join_nonnil.
Qed.

(* Path.split() of a well-formed path: the components, preceded by one empty string for the absolute root
   (and the two empty strings of the file-system root itself) *)
Lemma split_wf p : wfp p ->
  split p = repeat [] (p_slashes p) ++ (if is_nil (p_comps p) then repeat [] (p_slashes p) else p_comps p).
Proof.
  intros W. unfold split. rewrite (wfp_suffix p W), (render_nonnil _ _ (wf_normal p W)).
  assert (Hk := wf_le1 p W).
  destruct (p_slashes p) as [|[|k]] eqn:Ek; [| |lia]; cbn [Nat.eqb andb].
  - destruct (p_comps p) as [|c cs] eqn:Ec; [reflexivity|]. cbn [is_nil repeat app].
    rewrite <- Ec. rewrite (split_render 0 _ (Nat.le_0_l 1) (wf_normal p W)). rewrite Ec. reflexivity.
  - rewrite (split_render 1 _ (Nat.le_refl 1) (wf_normal p W)).
    destruct (p_comps p); reflexivity.
Qed.

Lemma split_rel p : wfp p -> root_eqb (p_root p) Absolute = false -> split p = p_comps p.
Proof.
  intros W Hr. rewrite (split_wf p W), (wfp_slashes_rel p W Hr). cbn. destruct (p_comps p); reflexivity.
Qed.
