(* The string-accepting entry point of the path algebra: objutils.objectify specialised as Path.ensure
   (platforms/basepath.py).  Build scripts never call the constructor themselves: relpath(), generic_file(),
   source_file(), directory(), find_files() ... hand their argument to Path.ensure, which returns a Path object
   unchanged and gives a string to the constructor AS IT IS (no stripping, no re-spelling).

     def objectify(thing, valid_type, creator=None, in_type=str, **kwargs):
         if isinstance(thing, valid_type): return thing
         elif not isinstance(thing, in_type): raise TypeError(...)
         else: return creator(thing, **kwargs)

     def ensure(cls, path, root=Root.builddir, destdir=False, directory=None, *, base=None, strict=False):
         result = objectify(path, base or cls, cls, root=root, destdir=destdir, directory=directory)
         raw_root = root.root if isinstance(root, cls) else root
         if strict and result.root != raw_root: raise ValueError(...)
         return result

   The TypeError branch (neither a string nor a path) is outside the model: thing has exactly the two shapes. *)
From Coq Require Import String List NArith Bool.
From BFG Require Import Base.Chars Path.PathAlg Path.PathAlgRt.
Import ListNotations.

Inductive thing := TStr (s : str) | TPath (p : path).

Definition rootarg_root (r : rootarg) : root := match r with RRoot x => x | RPath b => p_root b end.

Definition objectify_path (t : thing) (r : rootarg) (destdir directory : option bool) : option path :=
  match t with
  | TPath p => Some p
  | TStr s => mk s r destdir directory
  end.

Definition ensure (t : thing) (r : rootarg) (destdir directory : option bool) (strict : bool) : option path :=
  match objectify_path t r destdir directory with
  | Some p => if strict && negb (root_eqb (p_root p) (rootarg_root r)) then None else Some p
  | None => None
  end.

(* a string denotes exactly the path the constructor builds from it, character for character *)
Lemma ensure_string s r dd dir : ensure (TStr s) r dd dir false = mk s r dd dir.
Proof. unfold ensure, objectify_path. destruct (mk s r dd dir); reflexivity. Qed.

(* a path object is handed back as it is *)
Lemma ensure_path p r dd dir : ensure (TPath p) r dd dir false = Some p.
Proof. reflexivity. Qed.

(* the strict form only ever rejects: when it answers, it answers as the lenient form does, and the root is the
   requested one *)
Lemma ensure_strict t r dd dir p :
  ensure t r dd dir true = Some p -> ensure t r dd dir false = Some p /\ p_root p = rootarg_root r.
Proof.
  unfold ensure. destruct (objectify_path t r dd dir) as [q|]; [|discriminate].
  cbn [andb]. destruct (root_eqb (p_root q) (rootarg_root r)) eqn:E; cbn; [|discriminate].
  intros H. inversion H. subst. split; [reflexivity|]. now apply root_eqb_eq.
Qed.

(* ensure is idempotent: feeding its answer back gives the same object *)
Lemma ensure_idem t r dd dir p r' dd' dir' :
  ensure t r dd dir false = Some p -> ensure (TPath p) r' dd' dir' false = Some p.
Proof. reflexivity. Qed.
