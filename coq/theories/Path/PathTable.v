(* Dispatch entries (name -> sx wrapper) for the Path models.
   Paths are never sent over the wire as records: the harness sends an expression tree that builds the
   path with the modelled constructor and methods, and evaluates the same tree on the real classes.
     expr ::= [0 s rootarg destdir directory]   Path(s, rootarg, destdir, directory)
            | [1 e] parent | [2 e s] append | [3 e ext] addext | [4 e replace?] stripext
            | [5 e root] reroot | [6 e] from_json(to_json) | [7 e] as_directory
     rootarg ::= [0 rootindex] | [1 expr]        option ::= [] | [x] *)
From Coq Require Import String List NArith Bool.
From BFG Require Import Base.Chars Base.Sx Path.PathAlg Path.PathEnsure.
Import ListNotations.
Local Open Scope N_scope.

Definition root_of_index (n : N) : root :=
  match find (fun r => N.eqb (root_index r) n) all_roots with Some r => r | None => Builddir end.

Definition un_optbool (x : sx) : option bool := un_opt un_bool x.
Definition un_optstr (x : sx) : option str := un_opt un_str x.

Fixpoint eval (fuel : nat) (e : sx) : option path :=
  match fuel with
  | O => None
  | S n =>
      let sub := fun i => eval n (nth_sx i e) in
      match un_N (nth_sx 0 e) with
      | 0 =>
          let ra := nth_sx 2 e in
          let r := if N.eqb (un_N (nth_sx 0 ra)) 0 then Some (RRoot (root_of_index (un_N (nth_sx 1 ra))))
                   else match eval n (nth_sx 1 ra) with Some b => Some (RPath b) | None => None end in
          match r with
          | Some r' => mk (un_str (nth_sx 1 e)) r' (un_optbool (nth_sx 3 e)) (un_optbool (nth_sx 4 e))
          | None => None
          end
      | 1 => match sub 1%nat with Some p => parent p | None => None end
      | 2 => match sub 1%nat with Some p => append p (un_str (nth_sx 2 e)) | None => None end
      | 3 => match sub 1%nat with Some p => addext p (un_str (nth_sx 2 e)) | None => None end
      | 4 => match sub 1%nat with Some p => stripext p (un_optstr (nth_sx 2 e)) | None => None end
      | 5 => match sub 1%nat with Some p => reroot p (root_of_index (un_N (nth_sx 2 e))) | None => None end
      | 6 => match sub 1%nat with Some p => from_json (to_json p) | None => None end
      | 7 => match sub 1%nat with Some p => as_directory p | None => None end
      | _ => None
      end
  end.
Definition ev (e : sx) : option path := eval 40 e.

Definition sx_path (p : path) : sx :=
  L [A (root_index (p_root p)); sx_str (suffix_str p); sx_bool (p_dir p); sx_bool (p_destdir p)].

Definition un_fl (x : sx) : flavour := if N.eqb (un_N x) 0 then Posix else Windows.

Definition vars_str (x : sx) : root -> option str :=
  fun r => un_optstr (nth_sx (N.to_nat (root_index r)) x).
Definition vars_val (x : sx) : root -> value :=
  fun r => let v := nth_sx (N.to_nat (root_index r)) x in
           match un_N (nth_sx 0 v) with
           | 0 => VNone
           | 1 => VStr (un_str (nth_sx 1 v))
           | _ => match ev (nth_sx 1 v) with Some q => VPath q | None => VNone end
           end.

Fixpoint all_some {T} (l : list (option T)) : option (list T) :=
  match l with
  | [] => Some []
  | Some x :: r => match all_some r with Some r' => Some (x :: r') | None => None end
  | None :: _ => None
  end.

Definition table : list (string * (sx -> sx)) := [
  ("path.eval", fun a => sx_opt sx_path (ev a));
  ("path.normalize", fun a =>
      sx_opt (fun '(d, k, cs, isd) => L [sx_str d; sx_str (render k cs); sx_bool isd]) (normalize (un_str a)));
  ("path.info", fun a =>
      sx_opt (fun p => L [sx_str (basename p); sx_str (ext p); sx_list sx_str (split p);
                          (let '(s, n, d) := to_json p in L [sx_str s; sx_str n; sx_bool d]);
                          sx_str (path_hash p);
                          sx_opt (fun '(q, b) => L [sx_path q; sx_str b]) (splitleaf p)]) (ev a));
  ("path.relpath", fun a =>
      match ev (nth_sx 1 a), ev (nth_sx 2 a) with
      | Some p, Some q => L [sx_opt sx_str (relpath (un_fl (nth_sx 0 a)) p q (un_str (nth_sx 3 a)) (un_bool (nth_sx 4 a)))]
      | _, _ => L []
      end);
  ("path.symlink_target", fun a =>
      match ev (nth_sx 1 a), ev (nth_sx 2 a) with
      | Some p, Some q => L [sx_opt sx_str (symlink_target (un_fl (nth_sx 0 a)) p q)]
      | _, _ => L []
      end);
  ("path.realize", fun a =>
      sx_opt (fun p => sx_str (realize (un_fl (nth_sx 0 a)) (vars_str (nth_sx 2 a)) (un_optstr (nth_sx 3 a))
                                       (un_bool (nth_sx 4 a)) (un_bool (nth_sx 5 a)) (un_bool (nth_sx 6 a)) p))
             (ev (nth_sx 1 a)));
  ("path.string", fun a =>
      match ev (nth_sx 1 a) with
      | Some p => L [sx_opt sx_str (path_string (un_fl (nth_sx 0 a)) (vars_val (nth_sx 2 a)) p)]
      | None => L []
      end);
  ("path.commonprefix", fun a =>
      match all_some (map ev (un_list a)) with
      | None => L []
      | Some ps => match commonprefix ps with
                   | None => L [A 0]
                   | Some None => L [A 1]
                   | Some (Some r) => L [A 2; sx_path r]
                   end
      end);
  ("path.uniquetrees", fun a =>
      match all_some (map ev (un_list a)) with
      | None => L []
      | Some ps => L [sx_list sx_path (uniquetrees ps)]
      end);
  ("path.eq", fun a =>
      match ev (nth_sx 0 a), ev (nth_sx 1 a) with
      | Some p, Some q => L [sx_bool (path_eqb p q)]
      | _, _ => L []
      end);
  (* Path.ensure(thing, rootarg, destdir, directory, strict=...): thing ::= [0 s] | [1 expr]; [] when a sub-expression
     does not evaluate, [[]] when ensure raises ValueError, [[path]] otherwise *)
  ("path.ensure", fun a =>
      let th := nth_sx 0 a in
      let ra := nth_sx 1 a in
      let t := if N.eqb (un_N (nth_sx 0 th)) 0 then Some (TStr (un_str (nth_sx 1 th)))
               else option_map TPath (ev (nth_sx 1 th)) in
      let r := if N.eqb (un_N (nth_sx 0 ra)) 0 then Some (RRoot (root_of_index (un_N (nth_sx 1 ra))))
               else option_map RPath (ev (nth_sx 1 ra)) in
      match t, r with
      | Some t', Some r' => L [sx_opt sx_path (ensure t' r' (un_optbool (nth_sx 2 a)) (un_optbool (nth_sx 3 a))
                                                    (un_bool (nth_sx 4 a)))]
      | _, _ => L []
      end)
]%string.
